/- the store invariant and its preservation by whole commands -/
import ClientGoVerif.Proofs.MvccEInv
namespace CGV.Mvcc
open CGV

def SInv (s : Store) : Prop := KvSorted s.kv ∧ ∀ k, EInv (getEntry s.kv k)

theorem SInv.empty : SInv {} := ⟨trivial, fun _ => EInv.empty⟩

/-- a batch keeps the invariant if, key by key, the acts of that key keep the entry invariant -/
theorem SInv_applyBatch (s : Store) (acts : List Act) (hs : SInv s)
    (h : ∀ k, EInv ((acts.filter fun a => a.key == k).foldl entryAct (getEntry s.kv k))) :
    SInv { s with kv := applyBatch s.kv acts } :=
  ⟨applyBatch_sorted _ _ hs.1, fun k => by rw [getEntry_applyBatch _ _ _ hs.1]; exact h k⟩

/-- acts generated per requested key (distinct keys), each list touching only its own key -/
theorem filter_flatMap_keys (keys : List Bytes) (g : Bytes → List Act) (k : Bytes) (hn : keys.Nodup)
    (hg : ∀ k', ∀ a ∈ g k', a.key = k') :
    ((keys.flatMap g).filter fun a => a.key == k) = if k ∈ keys then g k else [] := by
  induction keys with
  | nil => rfl
  | cons x rest ih =>
    have hn' := List.nodup_cons.mp hn
    simp only [List.flatMap_cons, List.filter_append, ih hn'.2]
    by_cases hx : x = k
    · subst hx
      have h1 : (g x).filter (fun a => a.key == x) = g x :=
        List.filter_eq_self.mpr (fun a ha => by simp [hg x a ha])
      simp [h1, hn'.1]
    · have h1 : (g x).filter (fun a => a.key == k) = [] := by
        apply List.filter_eq_nil_iff.mpr
        intro a ha; rw [hg x a ha]; simpa using hx
      have : (k ∈ x :: rest) ↔ k ∈ rest := by
        simp [List.mem_cons, Ne.symm hx]
      simp only [h1, List.nil_append]
      by_cases hk : k ∈ rest
      · simp [hk]
      · simp [hk, Ne.symm hx]

/-! ### commit -/

def commitKernel (s : Store) (T C : TS) (k : Bytes) : List Act :=
  match commitKey s k T C with | .ok a => a | .error _ => []

theorem commitLoop_acts (s : Store) (keys : List Bytes) (T C : TS) (acc acts : List Act)
    (h : commitLoop s keys T C acc = .ok acts) : acts = acc ++ keys.flatMap (commitKernel s T C) := by
  induction keys generalizing acc with
  | nil => simp [commitLoop] at h; simp [h]
  | cons k rest ih =>
    simp only [commitLoop] at h
    cases hk : commitKey s k T C with
    | error e => rw [hk] at h; cases h
    | ok a =>
      rw [hk] at h
      rw [ih _ h]
      simp [commitKernel, hk]

theorem commitKey_keys (s : Store) (T C : TS) (k : Bytes) : ∀ a ∈ commitKernel s T C k, a.key = k := by
  intro a ha
  simp only [commitKernel, commitKey] at ha
  split at ha
  · rename_i acts hk
    split at hk
    · split at hk
      · split at hk
        · injection hk with hk; subst hk; cases ha
        · cases hk
      · cases hk
    · split at hk
      · cases hk
      · injection hk with hk; subst hk
        simp only [commitLock] at ha
        split at ha <;> simp at ha <;> (try rcases ha with rfl | rfl) <;> simp_all [Act.key]
  · cases ha

theorem EInv_commitKernel (s : Store) (T C : TS) (k : Bytes) (hi : EInv (getEntry s.kv k)) (hC : T < C) :
    EInv ((commitKernel s T C k).foldl entryAct (getEntry s.kv k)) := by
  simp only [commitKernel, commitKey]
  cases hl : Option.filter (fun x => x.startTS == T) (getEntry s.kv k).lock with
  | none =>
    simp only []
    split
    · rename_i acts hk
      split at hk
      · split at hk
        · injection hk with hk; subst hk; exact hi
        · cases hk
      · cases hk
    · exact hi
  | some l =>
    simp only []
    have hlock : (getEntry s.kv k).lock = some l ∧ l.startTS = T := by
      cases hh : (getEntry s.kv k).lock with
      | none => rw [hh] at hl; cases hl
      | some l' =>
        rw [hh] at hl
        simp only [Option.filter] at hl
        split at hl
        · injection hl with hl; subst hl; rename_i hc; exact ⟨rfl, by simpa using hc⟩
        · cases hl
    split
    · rename_i acts hk
      split at hk
      · cases hk
      · injection hk with hk; subst hk
        exact EInv_commitLock _ l k T C hi hlock.1 hlock.2 hC
    · exact hi

/-- C12: a commit of distinct keys at a commit ts above the start ts keeps the store invariant -/
theorem SInv_commit (s s' : Store) (keys : List Bytes) (T C : TS) (e : Option KErr) (hs : SInv s)
    (hn : keys.Nodup) (hC : T < C) (h : commit s keys T C = (s', e)) : SInv s' := by
  simp only [commit] at h
  cases hl : commitLoop s keys T C [] with
  | error er =>
    rw [hl] at h; injection h with h1 _; subst h1
    exact ⟨hs.1, hs.2⟩
  | ok acts =>
    rw [hl] at h; injection h with h1 _; subst h1
    have ha := commitLoop_acts _ _ _ _ _ _ hl
    simp only [List.nil_append] at ha
    have := SInv_applyBatch { s with waitFor := wfCleanUp s.waitFor T } acts ⟨hs.1, hs.2⟩ (by
      intro k
      rw [ha, filter_flatMap_keys keys (commitKernel s T C) k hn (commitKey_keys s T C)]
      by_cases hk : k ∈ keys
      · simp only [hk, if_true]; exact EInv_commitKernel s T C k (hs.2 k) hC
      · simp only [hk, if_false, List.foldl_nil]; exact hs.2 k)
    exact this

end CGV.Mvcc

namespace CGV.Mvcc
open CGV

/-- the lock on a key as selected by `Option.filter (·.startTS == T)` -/
theorem lock_of_filter {e : Entry} {T : TS} {l : Lock}
    (h : Option.filter (fun x => x.startTS == T) e.lock = some l) : e.lock = some l ∧ l.startTS = T := by
  cases hh : e.lock with
  | none => rw [hh] at h; cases h
  | some l' =>
    rw [hh] at h
    simp only [Option.filter] at h
    split at h
    · injection h with h; subst h; rename_i hc; exact ⟨rfl, by simpa using hc⟩
    · cases h

theorem no_lock_of_filter {e : Entry} {T : TS}
    (h : Option.filter (fun x => x.startTS == T) e.lock = none) : ∀ l, e.lock = some l → l.startTS ≠ T := by
  intro l hl heq
  rw [hl] at h
  simp [Option.filter, heq] at h

theorem fresh_of_no_commitInfo {ws : List Write} {T : TS} (h : txnCommitInfo ws T = none) : Fresh ws T := by
  intro w hw heq
  have := List.find?_eq_none.mp h w hw
  simp [heq] at this

/-! ### batch rollback -/

def rollbackKernel (s : Store) (T : TS) (k : Bytes) : List Act :=
  match rollbackKey s k T with | .ok a => a | .error _ => []

theorem rollbackLoop_acts (s : Store) (keys : List Bytes) (T : TS) (acc acts : List Act)
    (h : rollbackLoop s keys T acc = .ok acts) : acts = acc ++ keys.flatMap (rollbackKernel s T) := by
  induction keys generalizing acc with
  | nil => simp [rollbackLoop] at h; simp [h]
  | cons k rest ih =>
    simp only [rollbackLoop] at h
    cases hk : rollbackKey s k T with
    | error e => rw [hk] at h; cases h
    | ok a => rw [hk] at h; rw [ih _ h]; simp [rollbackKernel, hk]

theorem rollbackKernel_cases (s : Store) (T : TS) (k : Bytes) :
    rollbackKernel s T k = [] ∨
    (rollbackKernel s T k = rollbackLock k T ∧ ∃ l, (getEntry s.kv k).lock = some l ∧ l.startTS = T) ∨
    (rollbackKernel s T k = [rollbackMarker k T] ∧ (∀ l, (getEntry s.kv k).lock = some l → l.startTS ≠ T) ∧
      Fresh (getEntry s.kv k).writes T) := by
  simp only [rollbackKernel, rollbackKey]
  cases hl : Option.filter (fun x => x.startTS == T) (getEntry s.kv k).lock with
  | some l => right; left; exact ⟨rfl, l, lock_of_filter hl⟩
  | none =>
    simp only []
    cases hc : txnCommitInfo (getEntry s.kv k).writes T with
    | none => right; right; exact ⟨rfl, no_lock_of_filter hl, fresh_of_no_commitInfo hc⟩
    | some c =>
      simp only []
      left
      by_cases hv : (c.vt != VT.rollback) = true
      · simp [hv]
      · simp [hv]

theorem rollbackKernel_keys (s : Store) (T : TS) (k : Bytes) : ∀ a ∈ rollbackKernel s T k, a.key = k := by
  intro a ha
  rcases rollbackKernel_cases s T k with h | ⟨h, _⟩ | ⟨h, _⟩ <;> rw [h] at ha
  · cases ha
  · simp [rollbackLock, rollbackMarker] at ha; rcases ha with rfl | rfl <;> rfl
  · simp [rollbackMarker] at ha; subst ha; rfl

theorem EInv_rollbackKernel (s : Store) (T : TS) (k : Bytes) (hi : EInv (getEntry s.kv k)) :
    EInv ((rollbackKernel s T k).foldl entryAct (getEntry s.kv k)) := by
  rcases rollbackKernel_cases s T k with h | ⟨h, l, hl, hT⟩ | ⟨h, hnl, hf⟩ <;> rw [h]
  · exact hi
  · exact EInv_rollbackLock _ l k T hi hl hT
  · exact EInv_marker _ k T hi hnl hf

/-- C12: a batch rollback of distinct keys keeps the store invariant -/
theorem SInv_rollback (s s' : Store) (keys : List Bytes) (T : TS) (e : Option KErr) (hs : SInv s)
    (hn : keys.Nodup) (h : rollback s keys T = (s', e)) : SInv s' := by
  simp only [rollback] at h
  cases hl : rollbackLoop s keys T [] with
  | error er => rw [hl] at h; injection h with h1 _; subst h1; exact ⟨hs.1, hs.2⟩
  | ok acts =>
    rw [hl] at h; injection h with h1 _; subst h1
    have ha := rollbackLoop_acts _ _ _ _ _ hl
    simp only [List.nil_append] at ha
    exact SInv_applyBatch { s with waitFor := wfCleanUp s.waitFor T } acts ⟨hs.1, hs.2⟩ (by
      intro k
      rw [ha, filter_flatMap_keys keys (rollbackKernel s T) k hn (rollbackKernel_keys s T)]
      by_cases hk : k ∈ keys
      · simp only [hk, if_true]; exact EInv_rollbackKernel s T k (hs.2 k)
      · simp only [hk, if_false, List.foldl_nil]; exact hs.2 k)

/-! ### resolve lock (single form) -/

def resolveKernel (T C : TS) (k : Bytes) (e : Entry) : List Act :=
  match e.lock with
  | some l => if l.startTS == T then (if C > 0 then commitLock l k T C else rollbackLock k T) else []
  | none => []

theorem resolveKernel_keys (T C : TS) (k : Bytes) (e : Entry) : ∀ a ∈ resolveKernel T C k e, a.key = k := by
  intro a ha
  simp only [resolveKernel] at ha
  split at ha
  · split at ha
    · split at ha
      · simp only [commitLock] at ha
        split at ha <;> simp at ha <;> (try rcases ha with rfl | rfl) <;> simp_all [Act.key]
      · simp [rollbackLock, rollbackMarker] at ha; rcases ha with rfl | rfl <;> rfl
    · cases ha
  · cases ha

theorem EInv_resolveKernel (T C : TS) (k : Bytes) (e : Entry) (hi : EInv e) (hC : C = 0 ∨ T < C) :
    EInv ((resolveKernel T C k e).foldl entryAct e) := by
  simp only [resolveKernel]
  cases hl : e.lock with
  | none => exact hi
  | some l =>
    simp only []
    by_cases ht : (l.startTS == T) = true
    · have hT : l.startTS = T := by simpa using ht
      simp only [ht, if_true]
      by_cases hc : C > 0
      · simp only [hc, if_true]
        exact EInv_commitLock e l k T C hi hl hT (by cases hC with | inl h => omega | inr h => exact h)
      · simp only [hc, if_false]
        exact EInv_rollbackLock e l k T hi hl hT
    · simp only [ht]; exact hi

/-- C12: resolving a transaction with the reported status (commit ts above its start ts, or rollback) keeps the invariant -/
theorem resolveLock_eq (s : Store) (a b : Bytes) (T C : TS) :
    resolveLock s a b T C =
      { s with kv := applyBatch s.kv ((s.kv.filter fun p => inRange a b p.1).flatMap fun p => resolveKernel T C p.1 p.2) } := by
  unfold resolveLock
  congr 2

theorem SInv_resolveLock (s : Store) (a b : Bytes) (T C : TS) (hs : SInv s) (hC : C = 0 ∨ T < C) :
    SInv (resolveLock s a b T C) := by
  rw [resolveLock_eq]
  apply SInv_applyBatch s _ hs
  intro k
  rw [filter_flatMap_key (s.kv.filter fun p => inRange a b p.1) (fun k e => resolveKernel T C k e) k
    (filter_sorted _ _ hs.1) (fun k' e' => resolveKernel_keys T C k' e'), findKey_filter s.kv (fun k => inRange a b k) k]
  by_cases hin : inRange a b k = true
  · simp only [hin, if_true]
    cases hf : findKey s.kv k with
    | none => simp only [List.foldl_nil]; exact hs.2 k
    | some p =>
      obtain ⟨_, hk⟩ := findKey_some hf
      have he : getEntry s.kv k = p.2 := by rw [getEntry_eq_find, hf]
      simp only [he, hk]
      have := hs.2 k
      rw [he] at this
      exact EInv_resolveKernel T C k p.2 this hC
  · simp only [hin]; exact hs.2 k

end CGV.Mvcc

namespace CGV.Mvcc
open CGV

/-! ### prewrite -/

/-- what a successful prewrite of one mutation writes: nothing, or one lock of the transaction on a key where it has no record -/
theorem prewriteMutation_ok_shape (s : Store) (r : PrewriteReq) (m : Mutation) (act : PAction) (acts : List Act)
    (hi : EInv (getEntry s.kv m.key)) (h : prewriteMutation s r m act = .ok acts) :
    acts = [] ∨ ∃ l, acts = [Act.putLock m.key l] ∧ l.startTS = r.startTS ∧ Fresh (getEntry s.kv m.key).writes r.startTS := by
  cases hl : (getEntry s.kv m.key).lock with
  | none =>
    have hf := prewrite_lock_implies_fresh s r m act acts hi.desc hi.timed hl h
    unfold prewriteMutation at h
    simp only [hl] at h
    split at h
    · cases h
    · split at h
      · cases h
      · injection h with h; right; exact ⟨_, h.symm, rfl, hf⟩
  | some l =>
    unfold prewriteMutation at h
    simp only [hl] at h
    split at h
    · cases h
    · rename_i hst
      have hst' : l.startTS = r.startTS := by simpa using hst
      split at h
      · injection h with h; left; exact h.symm
      · split at h
        · cases h
        · injection h with h; right
          exact ⟨_, h.symm, rfl, by rw [← hst']; exact hi.lockFresh l hl⟩

theorem prewriteLoop_acts (s : Store) (r : PrewriteReq) (ms : List Mutation) (i : Nat)
    (errs : List (Option KErr)) (acts : List Act) (errs' : List (Option KErr)) (acts' : List Act)
    (h : prewriteLoop s r ms i errs acts = (errs', acts')) :
    ∀ a ∈ acts', a ∈ acts ∨ ∃ m ∈ ms, ∃ action am, prewriteMutation s r m action = .ok am ∧ a ∈ am := by
  induction ms generalizing i errs acts with
  | nil => simp only [prewriteLoop] at h; injection h with _ h; subst h; intro a ha; exact Or.inl ha
  | cons m rest ih =>
    simp only [prewriteLoop] at h
    intro a ha
    have lift : (a ∈ acts ∨ ∃ m' ∈ rest, ∃ action am, prewriteMutation s r m' action = .ok am ∧ a ∈ am) →
        (a ∈ acts ∨ ∃ m' ∈ m :: rest, ∃ action am, prewriteMutation s r m' action = .ok am ∧ a ∈ am) := by
      rintro (h1 | ⟨m', hm', rest'⟩)
      · exact Or.inl h1
      · exact Or.inr ⟨m', List.mem_cons_of_mem _ hm', rest'⟩
    split at h
    · exact lift (ih _ _ _ h a ha)
    · split at h
      · exact lift (ih _ _ _ h a ha)
      · split at h
        · exact lift (ih _ _ _ h a ha)
        · rename_i am hpm
          cases ih _ _ _ h a ha with
          | inl h1 =>
            cases List.mem_append.mp h1 with
            | inl h2 => exact Or.inl h2
            | inr h2 => exact Or.inr ⟨m, List.mem_cons_self .., _, am, hpm, h2⟩
          | inr h1 => exact lift (Or.inr h1)

/-- a sequence of lock writes for a transaction that has no record on the key -/
theorem EInv_putLocks (e : Entry) (k : Bytes) (T : TS) (acts : List Act) (hi : EInv e)
    (h : ∀ a ∈ acts, ∃ l, a = Act.putLock k l ∧ l.startTS = T ∧ Fresh e.writes T) :
    EInv (acts.foldl entryAct e) := by
  induction acts generalizing e with
  | nil => exact hi
  | cons a rest ih =>
    obtain ⟨l, ha, hT, hf⟩ := h a (List.mem_cons_self ..)
    subst ha
    simp only [List.foldl_cons]
    apply ih
    · exact EInv_putLock e k l hi (by rw [hT]; exact hf)
    · intro a' ha'
      obtain ⟨l', e', hT', hf'⟩ := h a' (List.mem_cons_of_mem _ ha')
      exact ⟨l', e', hT', by simpa [entryAct] using hf'⟩

/-- C12: a prewrite (optimistic or over the transaction's own pessimistic locks) keeps the store invariant -/
theorem SInv_prewrite (s s' : Store) (r : PrewriteReq) (errs : List (Option KErr)) (hs : SInv s)
    (h : prewrite s r = (s', errs)) : SInv s' := by
  simp only [prewrite] at h
  cases hp : prewriteLoop s r r.mutations 0 [] [] with
  | mk errs0 acts =>
    rw [hp] at h
    simp only [] at h
    split at h
    · injection h with h1 _; subst h1; exact hs
    · injection h with h1 _; subst h1
      apply SInv_applyBatch s acts hs
      intro k
      apply EInv_putLocks _ k r.startTS _ (hs.2 k)
      intro a ha
      have hmem := (List.mem_filter.mp ha)
      have hk : a.key = k := by simpa using hmem.2
      cases prewriteLoop_acts s r r.mutations 0 [] [] errs0 acts hp a hmem.1 with
      | inl h0 => cases h0
      | inr h1 =>
        obtain ⟨m, _, action, am, hok, ham⟩ := h1
        cases prewriteMutation_ok_shape s r m action am (hs.2 m.key) hok with
        | inl he => rw [he] at ham; cases ham
        | inr hsh =>
          obtain ⟨l, hl, hT, hf⟩ := hsh
          rw [hl] at ham
          simp only [List.mem_singleton] at ham
          subst ham
          have : m.key = k := hk
          subst this
          exact ⟨l, rfl, hT, hf⟩

end CGV.Mvcc

namespace CGV.Mvcc
open CGV

/-- a batch touching one key only -/
theorem SInv_applyKeyed (s : Store) (k0 : Bytes) (acts : List Act) (hs : SInv s)
    (hkeys : ∀ a ∈ acts, a.key = k0) (h : EInv (acts.foldl entryAct (getEntry s.kv k0))) :
    SInv { s with kv := applyBatch s.kv acts } := by
  apply SInv_applyBatch s acts hs
  intro k
  by_cases hk : k = k0
  · subst hk
    have : acts.filter (fun a => a.key == k) = acts := List.filter_eq_self.mpr (fun a ha => by simp [hkeys a ha])
    rw [this]; exact h
  · have : acts.filter (fun a => a.key == k) = [] := by
      apply List.filter_eq_nil_iff.mpr
      intro a ha; rw [hkeys a ha]; simpa using Ne.symm hk
    rw [this]; exact hs.2 k

theorem rollbackLock_keys (k : Bytes) (T : TS) : ∀ a ∈ rollbackLock k T, a.key = k := by
  intro a ha; simp [rollbackLock, rollbackMarker] at ha; rcases ha with rfl | rfl <;> rfl

/-- C12: cleanup keeps the store invariant -/
theorem SInv_cleanup (s s' : Store) (k : Bytes) (T cur : TS) (e : Option KErr) (hs : SInv s)
    (h : cleanup s k T cur = (s', e)) : SInv s' := by
  simp only [cleanup] at h
  have hs1 : SInv { s with waitFor := wfCleanUp s.waitFor T } := ⟨hs.1, hs.2⟩
  cases hl : Option.filter (fun x => x.startTS == T) (getEntry s.kv k).lock with
  | some l =>
    rw [hl] at h
    obtain ⟨hlk, hT⟩ := lock_of_filter hl
    simp only [] at h
    split at h
    · injection h with h1 _; subst h1
      exact SInv_applyKeyed _ k _ hs1 (rollbackLock_keys k T) (EInv_rollbackLock _ l k T (hs.2 k) hlk hT)
    · injection h with h1 _; subst h1; exact hs1
  | none =>
    rw [hl] at h
    simp only [] at h
    cases hc : txnCommitInfo (getEntry s.kv k).writes T with
    | some c =>
      rw [hc] at h
      simp only [] at h
      split at h <;> (injection h with h1 _; subst h1; exact hs1)
    | none =>
      rw [hc] at h
      injection h with h1 _; subst h1
      exact SInv_applyKeyed _ k _ hs1 (by intro a ha; simp [rollbackMarker] at ha; subst ha; rfl)
        (EInv_marker _ k T (hs.2 k) (no_lock_of_filter hl) (fresh_of_no_commitInfo hc))

/-- C12: a status check (with its TTL-expiry rollback, its min-commit-ts push, its rollback-if-not-exist) keeps the invariant -/
theorem SInv_checkTxnStatus (s s' : Store) (p : Bytes) (T caller cur : TS) (rb rp : Bool) (r : StatusResp) (hs : SInv s)
    (h : checkTxnStatus s p T caller cur rb rp = (s', r)) : SInv s' := by
  simp only [checkTxnStatus] at h
  cases hl : Option.filter (fun x => x.startTS == T) (getEntry s.kv p).lock with
  | some l =>
    rw [hl] at h
    obtain ⟨hlk, hT⟩ := lock_of_filter hl
    simp only [] at h
    split at h
    · split at h
      · injection h with h1 _; subst h1
        exact SInv_applyKeyed s p _ hs (by intro a ha; simp at ha; subst ha; rfl) (EInv_delLock _ p (hs.2 p))
      · injection h with h1 _; subst h1
        exact SInv_applyKeyed s p _ hs (rollbackLock_keys p T) (EInv_rollbackLock _ l p T (hs.2 p) hlk hT)
    · split at h
      · injection h with h1 _; subst h1; exact hs
      · split at h
        · split at h
          · injection h with h1 _; subst h1
            exact SInv_applyKeyed s p _ hs (by intro a ha; simp at ha; subst ha; rfl)
              (EInv_putLock _ p _ (hs.2 p) (by simpa using (hs.2 p).lockFresh l hlk))
          · injection h with h1 _; subst h1; exact hs
        · injection h with h1 _; subst h1; exact hs
  | none =>
    rw [hl] at h
    simp only [] at h
    cases hc : txnCommitInfo (getEntry s.kv p).writes T with
    | some c =>
      rw [hc] at h
      simp only [] at h
      split at h <;> (injection h with h1 _; subst h1; exact hs)
    | none =>
      rw [hc] at h
      simp only [] at h
      split at h
      · split at h
        · injection h with h1 _; subst h1; exact hs
        · injection h with h1 _; subst h1
          exact SInv_applyKeyed s p _ hs (by intro a ha; simp [rollbackMarker] at ha; subst ha; rfl)
            (EInv_marker _ p T (hs.2 p) (no_lock_of_filter hl) (fresh_of_no_commitInfo hc))
      · injection h with h1 _; subst h1; exact hs

/-- heartbeat only changes the ttl of the transaction's own lock -/
theorem SInv_heartBeat (s s' : Store) (k : Bytes) (T adv : TS) (r : Except KErr Nat) (hs : SInv s)
    (h : heartBeat s k T adv = (s', r)) : SInv s' := by
  simp only [heartBeat] at h
  cases hl : Option.filter (fun x => x.startTS == T) (getEntry s.kv k).lock with
  | none => rw [hl] at h; injection h with h1 _; subst h1; exact hs
  | some l =>
    rw [hl] at h
    obtain ⟨hlk, _⟩ := lock_of_filter hl
    simp only [] at h
    split at h
    · injection h with h1 _; subst h1; exact hs
    · split at h
      · injection h with h1 _; subst h1
        exact SInv_applyKeyed s k _ hs (by intro a ha; simp at ha; subst ha; rfl)
          (EInv_putLock _ k _ (hs.2 k) (by simpa using (hs.2 k).lockFresh l hlk))
      · injection h with h1 _; subst h1; exact hs

/-! ### GC -/

theorem SInv_gc (s s' : Store) (a b : Bytes) (sp : TS) (blocked : Option Bytes) (hs : SInv s)
    (h : gc s a b sp = (s', blocked)) : SInv s' := by
  simp only [gc] at h
  cases hl : gcLoop (s.kv.filter fun p => inRange a b p.1) sp [] with
  | error e => rw [hl] at h; injection h with h1 _; subst h1; exact hs
  | ok acts =>
    rw [hl] at h; injection h with h1 _; subst h1
    have hacts := gcLoop_ok _ _ _ _ hl
    simp only [List.nil_append] at hacts
    apply SInv_applyBatch s acts hs
    intro k
    rw [hacts, filter_flatMap_key _ (fun k e => gcWrites k e.writes sp true) k (filter_sorted _ _ hs.1)
        (fun k' e' => gcWrites_key k' e'.writes sp true), findKey_filter s.kv (fun k => inRange a b k) k]
    by_cases hin : inRange a b k = true
    · simp only [hin, if_true]
      cases hf : findKey s.kv k with
      | none => simp only [List.foldl_nil]; exact hs.2 k
      | some p =>
        obtain ⟨_, hk⟩ := findKey_some hf
        simp only [hk]
        rw [gcWrites_eq]
        exact EInv_delWrites _ k _ (hs.2 k)
    · simp only [hin]; exact hs.2 k

end CGV.Mvcc

namespace CGV.Mvcc
open CGV

/-! ### pessimistic lock / rollback -/

theorem plMutation_acts (s : Store) (wf : WaitFor) (r : PLReq) (m : Mutation) :
    ∀ a ∈ (plMutation s wf r m).2.2.1, ∃ l, a = Act.putLock m.key l ∧ l.startTS = r.startTS := by
  unfold plMutation
  repeat' split
  all_goals simp [plNewLock]

theorem plLoop_acts (s : Store) (r : PLReq) (ms : List Mutation) (wf : WaitFor) (errs : List KErr)
    (results : List PLResult) (acts : List Act) :
    ∀ a ∈ (plLoop s r ms wf errs results acts).2.2.1,
      a ∈ acts ∨ ∃ m ∈ ms, ∃ l, a = Act.putLock m.key l ∧ l.startTS = r.startTS := by
  induction ms generalizing wf errs results acts with
  | nil => intro a ha; simp only [plLoop] at ha; exact Or.inl ha
  | cons m rest ih =>
    intro a ha
    simp only [plLoop] at ha
    have hm := plMutation_acts s wf r m
    generalize plMutation s wf r m = pm at ha hm
    obtain ⟨err, res, am, wf'⟩ := pm
    simp only [] at ha hm
    have step : ∀ a, a ∈ acts ++ am →
        a ∈ acts ∨ ∃ m' ∈ m :: rest, ∃ l, a = Act.putLock m'.key l ∧ l.startTS = r.startTS := by
      intro a h
      cases List.mem_append.mp h with
      | inl h1 => exact Or.inl h1
      | inr h1 => exact Or.inr ⟨m, List.mem_cons_self .., hm a h1⟩
    have lift : ∀ a, (a ∈ acts ++ am ∨ ∃ m' ∈ rest, ∃ l, a = Act.putLock m'.key l ∧ l.startTS = r.startTS) →
        a ∈ acts ∨ ∃ m' ∈ m :: rest, ∃ l, a = Act.putLock m'.key l ∧ l.startTS = r.startTS := by
      rintro a (h1 | ⟨m', hm', rest'⟩)
      · exact step a h1
      · exact Or.inr ⟨m', List.mem_cons_of_mem _ hm', rest'⟩
    repeat' split at ha
    all_goals
      first
      | exact step a ha
      | exact lift a (ih _ _ _ _ a ha)

/-- C12: a pessimistic lock request keeps the invariant PROVIDED the transaction has no record on the requested keys
    (the property's precondition `noLockAfterFinish`) -/
theorem SInv_pessimisticLock (s s' : Store) (r : PLReq) (resp : PLResp) (hs : SInv s)
    (hpre : ∀ m ∈ r.mutations, Fresh (getEntry s.kv m.key).writes r.startTS)
    (h : pessimisticLock s r = (s', resp)) : SInv s' := by
  simp only [pessimisticLock] at h
  generalize hpl : plLoop s r r.mutations s.waitFor [] [] [] = pl at h
  obtain ⟨errs, results, acts, wf⟩ := pl
  simp only [] at h
  have hs1 : SInv { s with waitFor := wf } := ⟨hs.1, hs.2⟩
  have hacts := plLoop_acts s r r.mutations s.waitFor [] [] []
  rw [hpl] at hacts
  simp only [] at hacts
  have hfinal : SInv { kv := applyBatch s.kv acts, waitFor := wf } := by
    apply SInv_applyBatch { s with waitFor := wf } acts hs1
    intro k
    apply EInv_putLocks _ k r.startTS _ (hs.2 k)
    intro a ha
    have hmem := List.mem_filter.mp ha
    have hk : a.key = k := by simpa using hmem.2
    cases hacts a hmem.1 with
    | inl h0 => cases h0
    | inr h1 =>
      obtain ⟨m, hm, l, hl, hT⟩ := h1
      subst hl
      have : m.key = k := hk
      subst this
      exact ⟨l, rfl, hT, hpre m hm⟩
  split at h
  · injection h with h1 _; subst h1; exact hs1
  · split at h
    · injection h with h1 _; subst h1; exact hs1
    · split at h
      · injection h with h1 _; subst h1; exact hfinal
      · split at h
        · injection h with h1 _; subst h1; exact hfinal
        · split at h <;> (injection h with h1 _; subst h1; exact hfinal)

theorem EInv_delLocks_fold (acts : List Act) (e : Entry) (he : EInv e)
    (hall : ∀ x ∈ acts, ∃ k', x = Act.delLock k') : EInv (acts.foldl entryAct e) := by
  induction acts generalizing e with
  | nil => exact he
  | cons x rest ih =>
    obtain ⟨k', hx⟩ := hall x (List.mem_cons_self ..)
    subst hx
    simp only [List.foldl_cons]
    exact ih _ (EInv_delLock e k' he) (fun z hz => hall z (List.mem_cons_of_mem _ hz))

theorem SInv_pessimisticRollback (s : Store) (a b : Bytes) (keys : List Bytes) (T F : TS) (hs : SInv s) :
    SInv (pessimisticRollback s a b keys T F) := by
  unfold pessimisticRollback
  apply SInv_applyBatch s _ hs
  intro k
  apply EInv_delLocks_fold _ _ (hs.2 k)
  intro x hx
  have h1 := (List.mem_filter.mp hx).1
  simp only [List.mem_filterMap] at h1
  obtain ⟨k', _, hk'⟩ := h1
  split at hk'
  · split at hk'
    · injection hk' with hk'; exact ⟨k', hk'.symm⟩
    · cases hk'
  · cases hk'

/-! ### batch resolve, delete range -/

def batchKernel (infos : List (TS × TS)) (k : Bytes) (e : Entry) : List Act :=
  match e.lock with
  | some l =>
    match lookupTxn infos l.startTS with
    | some c => resolveKernel l.startTS c k e
    | none => []
  | none => []

theorem lookupTxn_mem {infos : List (TS × TS)} {t c : TS} (h : lookupTxn infos t = some c) : (t, c) ∈ infos := by
  induction infos with
  | nil => cases h
  | cons p rest ih =>
    obtain ⟨a, c'⟩ := p
    simp only [lookupTxn] at h
    split at h
    · rename_i hat
      have : a = t := by simpa using hat
      injection h with h; subst h; subst this; exact List.mem_cons_self ..
    · exact List.mem_cons_of_mem _ (ih h)

theorem batchKernel_keys (infos : List (TS × TS)) (k : Bytes) (e : Entry) : ∀ a ∈ batchKernel infos k e, a.key = k := by
  intro a ha
  simp only [batchKernel] at ha
  split at ha
  · split at ha
    · exact resolveKernel_keys _ _ _ _ a ha
    · cases ha
  · cases ha

theorem batchResolveLock_eq (s : Store) (a b : Bytes) (infos : List (TS × TS)) :
    batchResolveLock s a b infos =
      { s with kv := applyBatch s.kv ((s.kv.filter fun p => inRange a b p.1).flatMap fun p => batchKernel infos p.1 p.2) } := by
  unfold batchResolveLock
  show Store.mk _ _ = Store.mk _ _
  congr 3
  funext p
  obtain ⟨k, e⟩ := p
  simp only [batchKernel, resolveKernel]
  cases e.lock with
  | none => rfl
  | some l =>
    simp only []
    cases lookupTxn infos l.startTS with
    | none => rfl
    | some c => simp

/-- C12: resolving a batch of transactions, each with its reported status, keeps the invariant -/
theorem SInv_batchResolveLock (s : Store) (a b : Bytes) (infos : List (TS × TS)) (hs : SInv s)
    (hC : ∀ p ∈ infos, p.2 = 0 ∨ p.1 < p.2) : SInv (batchResolveLock s a b infos) := by
  rw [batchResolveLock_eq]
  apply SInv_applyBatch s _ hs
  intro k
  rw [filter_flatMap_key (s.kv.filter fun p => inRange a b p.1) (fun k e => batchKernel infos k e) k
    (filter_sorted _ _ hs.1) (fun k' e' => batchKernel_keys infos k' e'), findKey_filter s.kv (fun k => inRange a b k) k]
  by_cases hin : inRange a b k = true
  · simp only [hin, if_true]
    cases hf : findKey s.kv k with
    | none => simp only [List.foldl_nil]; exact hs.2 k
    | some p =>
      obtain ⟨_, hk⟩ := findKey_some hf
      have he : getEntry s.kv k = p.2 := by rw [getEntry_eq_find, hf]
      simp only [he, hk]
      have hi := hs.2 k
      rw [he] at hi
      simp only [batchKernel]
      cases hl : p.2.lock with
      | none => exact hi
      | some l =>
        simp only []
        cases hlk : lookupTxn infos l.startTS with
        | none => exact hi
        | some c =>
          simp only []
          exact EInv_resolveKernel l.startTS c k p.2 hi (hC _ (lookupTxn_mem hlk))
  · simp only [hin]; exact hs.2 k

theorem SInv_deleteRange (s : Store) (a b : Bytes) (hs : SInv s) : SInv (deleteRange s a b) := by
  refine ⟨filter_sorted _ _ hs.1, fun k => ?_⟩
  simp only [deleteRange]
  rw [getEntry_eq_find, findKey_filter s.kv (fun k => !(inRange a b k)) k]
  have h0 := hs.2 k
  rw [getEntry_eq_find] at h0
  by_cases hin : inRange a b k = true
  · simp only [hin, Bool.not_true, Bool.false_eq_true, if_false]; exact EInv.empty
  · simp only [Bool.not_eq_true] at hin
    simp only [hin, Bool.not_false, if_true]
    exact h0

end CGV.Mvcc
