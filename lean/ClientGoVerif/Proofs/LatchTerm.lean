/-
  C17: a variant that strictly decreases on every step performed on behalf of a lock (one step of acquire,
  unlock, releaseSlot).  Restricted to a set `S` of locks whose keys are disjoint from the keys of all other
  locks, steps of the other locks (and arrivals with other keys, and the recycler) leave it unchanged.
-/
import ClientGoVerif.Proofs.LatchStale
namespace CGV.Latch
open CGV

/-- remaining work of one request: an upper bound on the number of its own future steps, where each
    `releaseSlot` counts 2 (it may re-enable one blocked request for one more `acquire` step) -/
def lockMeasure : Option Lock → Nat
  | none => 0
  | some lk =>
    match lk.phase with
    | .acquiring => 3 * (lk.keys.length - lk.acquiredCount) + 2 * lk.acquiredCount + 3
    | .woken => 3 * (lk.keys.length - lk.acquiredCount) + 2 * lk.acquiredCount + 3
    | .waiting => 3 * (lk.keys.length - lk.acquiredCount) + 2 * lk.acquiredCount + 2
    | .acquired => 2 * lk.acquiredCount + 1
    | .releasing => 2 * lk.acquiredCount
    | .done => 0

def sumOn (S : LockId → Bool) (locks : Nat → Option Lock) : Nat → Nat
  | 0 => 0
  | n + 1 => sumOn S locks n + (if S n then lockMeasure (locks n) else 0)

/-- the variant, over the locks selected by `S` -/
def muOn (S : LockId → Bool) (s : State) : Nat := sumOn S s.locks s.nlocks

/-- the variant over all locks -/
def mu (s : State) : Nat := muOn (fun _ => true) s

theorem sumOn_upd_ge (S : LockId → Bool) (locks : Nat → Option Lock) (l : Nat) (v : Option Lock) :
    ∀ n, n ≤ l → sumOn S (upd locks l v) n = sumOn S locks n
  | 0, _ => rfl
  | n + 1, h => by
    simp only [sumOn, sumOn_upd_ge S locks l v n (by omega), upd_ne locks v (show n ≠ l by omega)]

theorem sumOn_upd (S : LockId → Bool) (locks : Nat → Option Lock) (l : Nat) (old new : Option Lock)
    (hl : locks l = old) :
    ∀ n, l < n → sumOn S (upd locks l new) n + (if S l then lockMeasure old else 0)
      = sumOn S locks n + (if S l then lockMeasure new else 0)
  | 0, h => by omega
  | n + 1, h => by
    by_cases e : l = n
    · subst e
      simp only [sumOn, sumOn_upd_ge S locks l new l (Nat.le_refl _), upd_same, hl]
      omega
    · have := sumOn_upd S locks l old new hl n (by omega)
      simp only [sumOn, upd_ne locks new (show n ≠ l from fun x => e x.symm)]
      omega

/-- locks inside and outside `S` have no key in common -/
def Sep (s : State) (S : LockId → Bool) : Prop :=
  ∀ l l' lk lk' k, s.locks l = some lk → s.locks l' = some lk' → k ∈ lk.keys → k ∈ lk'.keys → S l = S l'

theorem sep_all (s : State) : Sep s (fun _ => true) := fun _ _ _ _ _ _ _ _ _ => rfl

theorem measure_succ {lk : Lock} (hp : lk.phase = .acquiring ∨ lk.phase = .woken)
    (hlt : lk.acquiredCount < lk.keys.length) (hr : lk.requiredSlots.length = lk.keys.length) :
    lockMeasure (some (succLock lk)) + 1 ≤ lockMeasure (some lk) := by
  have h1 : lockMeasure (some lk) = 3 * (lk.keys.length - lk.acquiredCount) + 2 * lk.acquiredCount + 3 := by
    rcases hp with h | h <;> simp [lockMeasure, h]
  rw [h1]
  simp only [lockMeasure, succLock, phaseAfterSuccess, hr]
  split <;> rename_i hph <;> split at hph <;> simp_all <;> omega

theorem measure_rel {lk : Lock} (hp : lk.phase = .releasing) (hc : lk.acquiredCount ≠ 0) :
    lockMeasure (some (relLock lk)) + 2 = lockMeasure (some lk) := by
  simp only [lockMeasure, hp, relLock]
  by_cases e : lk.acquiredCount - 1 = 0 <;> simp [e] <;> omega

/-- a step of lock `l`: the variant over `S` drops if `l ∈ S` and is unchanged otherwise -/
theorem muOn_eff {cfg : Cfg} {s s' : State} {l : LockId} (S : LockId → Bool) (h1 : Inv1 cfg s) (h2 : Inv2 cfg s)
    (hsep : Sep s S) (e : Eff cfg s (some l) s') :
    (S l = true → muOn S s' < muOn S s) ∧ (S l = false → muOn S s' = muOn S s) := by
  -- the common shape: only lock `l` is rewritten and its own measure drops
  have single : ∀ (lk lk' : Lock) (slots' : Nat → Slot) (pub : List (Key × Nat)), s.locks l = some lk →
      lockMeasure (some lk') < lockMeasure (some lk) →
      (S l = true → muOn S { s with slots := slots', locks := upd s.locks l (some lk'), published := pub } < muOn S s) ∧
      (S l = false → muOn S { s with slots := slots', locks := upd s.locks l (some lk'), published := pub } = muOn S s) := by
    intro lk lk' slots' pub hl hm
    have := sumOn_upd S s.locks l (some lk) (some lk') hl s.nlocks (h1.fresh _ _ hl)
    simp only [muOn]
    constructor
    · intro hS; simp only [hS, if_true] at this; omega
    · intro hS; simp only [hS] at this; simpa using this
  -- a release that also rewrites the woken lock `w`
  have double : ∀ (lk lkw lkw' : Lock) (w : LockId) (key : Key) (slots' : Nat → Slot) (pub : List (Key × Nat)),
      s.locks l = some lk → s.locks w = some lkw → w ≠ l → lk.phase = .releasing → lk.acquiredCount ≠ 0 →
      key ∈ lk.keys → key ∈ lkw.keys →
      lockMeasure (some lkw') ≤ lockMeasure (some lkw) + 1 →
      (S l = true → muOn S { s with slots := slots', locks := upd (upd s.locks l (some (relLock lk))) w (some lkw'), published := pub } < muOn S s) ∧
      (S l = false → muOn S { s with slots := slots', locks := upd (upd s.locks l (some (relLock lk))) w (some lkw'), published := pub } = muOn S s) := by
    intro lk lkw lkw' w key slots' pub hl hlw hwl hp hc hk1 hk2 hm
    have e1 := sumOn_upd S s.locks l (some lk) (some (relLock lk)) hl s.nlocks (h1.fresh _ _ hl)
    have e2 := sumOn_upd S (upd s.locks l (some (relLock lk))) w (some lkw) (some lkw')
      (by rw [upd_ne _ _ hwl]; exact hlw) s.nlocks (h1.fresh _ _ hlw)
    have hS : S l = S w := hsep l w lk lkw key hl hlw hk1 hk2
    have hr := measure_rel hp hc
    simp only [muOn]
    constructor
    · intro hSl
      have hSw : S w = true := by rw [← hS]; exact hSl
      simp only [hSl, hSw, if_true] at e1 e2; omega
    · intro hSl
      have hSw : S w = false := by rw [← hS]; exact hSl
      simp only [hSl, hSw] at e1 e2
      simp at e1 e2; omega
  cases e with
  | staleRet _ lk hl hp hst =>
    refine single lk _ s.slots s.published hl ?_
    rcases hp with h | h <;> simp [lockMeasure, h] <;> omega
  | acqNew _ lk key slotID hl hp hst hk hs hf =>
    refine single lk _ _ s.published hl ?_
    have := measure_succ hp (count_lt_of_acq (h1.phase _ _ hl) hp hst) (req_len (h1.wf _ _ hl)); omega
  | acqStale _ lk key slotID n hl hp hst hk hs hf hgt =>
    refine single lk _ s.slots s.published hl ?_
    have := count_lt_of_acq (h1.phase _ _ hl) hp hst
    rcases hp with h | h <;> simp [lockMeasure, h] <;> omega
  | acqFree _ lk key slotID n hl hp hst hk hs hf hle hh =>
    refine single lk _ _ s.published hl ?_
    have := measure_succ hp (count_lt_of_acq (h1.phase _ _ hl) hp hst) (req_len (h1.wf _ _ hl)); omega
  | acqLocked _ lk key slotID n o hl hp hst hk hs hf hle hh =>
    refine single lk _ _ s.published hl ?_
    rcases hp with h | h <;> simp [lockMeasure, h]
  | unlock _ lk c hl hp =>
    refine single lk _ s.slots s.published hl ?_
    simp only [lockMeasure, hp]
    by_cases e : lk.acquiredCount = 0 <;> simp [e]
  | relNone _ lk key slotID n hl hp hc hk hs hf hh hw =>
    refine single lk _ _ _ hl ?_
    have := measure_rel hp hc; omega
  | relStale _ lk key slotID n w lkw hl hp hc hk hs hf hh hw hlw hgt =>
    obtain ⟨hkw, hwm⟩ := awaits_key hw hlw
    have hwl : w ≠ l := by
      intro e; subst e; rw [hl] at hlw; cases hlw; exact woken_ne (h1.wf _ _ hl) hc hk hkw
    obtain ⟨lkw0, _, hlw0, hpw0, _, _⟩ := (h2.wok.mem slotID w).mp hwm
    rw [hlw] at hlw0; cases hlw0
    refine double lk lkw _ w key _ _ hl hlw hwl hp hc (List.mem_of_getElem? hk) (List.mem_of_getElem? hkw) ?_
    have hlt : lkw.acquiredCount < lkw.keys.length := by
      rcases List.getElem?_eq_some_iff.mp hkw with ⟨h', _⟩; exact h'
    simp only [lockMeasure, hpw0]; omega
  | relWake _ lk key slotID n w lkw hl hp hc hk hs hf hh hw hlw hle =>
    obtain ⟨hkw, hwm⟩ := awaits_key hw hlw
    have hwl : w ≠ l := by
      intro e; subst e; rw [hl] at hlw; cases hlw; exact woken_ne (h1.wf _ _ hl) hc hk hkw
    obtain ⟨lkw0, _, hlw0, hpw0, _, _⟩ := (h2.wok.mem slotID w).mp hwm
    rw [hlw] at hlw0; cases hlw0
    refine double lk lkw _ w key _ _ hl hlw hwl hp hc (List.mem_of_getElem? hk) (List.mem_of_getElem? hkw) ?_
    simp only [lockMeasure, hpw0]; omega

theorem muOn_recycle (cfg : Cfg) (S : LockId → Bool) (s : State) (i ts : Nat) :
    muOn S (recycleSlot cfg s i ts) = muOn S s := rfl

theorem muOn_gen {cfg : Cfg} (S : LockId → Bool) (s : State) (ts : Nat) (keys : List Key)
    (hS : S s.nlocks = false) : muOn S (genLock cfg s ts keys) = muOn S s := by
  simp only [muOn, genLock, sumOn, hS, sumOn_upd_ge S s.locks s.nlocks _ s.nlocks (Nat.le_refl _)]
  simp

/-- every lock of the new state is a lock of the old one with the same keys, or the newly generated lock -/
theorem eff_keys {cfg : Cfg} {s s' : State} {o : Option LockId} (e : Eff cfg s o s') :
    ∀ l lk', s'.locks l = some lk' →
      (∃ lk, s.locks l = some lk ∧ lk'.keys = lk.keys) ∨ (o = none ∧ l = s.nlocks) := by
  have one : ∀ (l0 : LockId) (lk0 lk0' : Lock), s.locks l0 = some lk0 →
      ∀ l lk', upd s.locks l0 (some lk0') l = some lk' → lk0'.keys = lk0.keys →
      ∃ lk, s.locks l = some lk ∧ lk'.keys = lk.keys := by
    intro l0 lk0 lk0' h0 l lk' h hk
    rcases upd_some h with ⟨e1, e2⟩ | ⟨_, h⟩
    · subst e1; subst e2; exact ⟨lk0, h0, hk⟩
    · exact ⟨lk', h, rfl⟩
  have two : ∀ (l0 w0 : LockId) (lk0 lk0' lkw lkw' : Lock), s.locks l0 = some lk0 →
      s.locks w0 = some lkw →
      ∀ l lk', upd (upd s.locks l0 (some lk0')) w0 (some lkw') l = some lk' →
        lk0'.keys = lk0.keys → lkw'.keys = lkw.keys →
        ∃ lk, s.locks l = some lk ∧ lk'.keys = lk.keys := by
    intro l0 w0 lk0 lk0' lkw lkw' h0 hw l lk' h hk hkw
    rcases upd_some h with ⟨e1, e2⟩ | ⟨_, h⟩
    · subst e1; subst e2; exact ⟨lkw, hw, hkw⟩
    · exact one l0 lk0 lk0' h0 l lk' h hk
  intro l lk' h
  cases e with
  | gen ts keys hnd =>
    rcases upd_some h with ⟨e1, _⟩ | ⟨_, h⟩
    · exact .inr ⟨rfl, e1⟩
    · exact .inl ⟨lk', h, rfl⟩
  | recycle i ts => exact .inl ⟨lk', h, rfl⟩
  | staleRet l0 lk hl hp hst => exact .inl (one l0 lk _ hl l lk' h rfl)
  | acqNew l0 lk key slotID hl hp hst hk hs hf => exact .inl (one l0 lk _ hl l lk' h rfl)
  | acqStale l0 lk key slotID n hl hp hst hk hs hf hgt => exact .inl (one l0 lk _ hl l lk' h rfl)
  | acqFree l0 lk key slotID n hl hp hst hk hs hf hle hh => exact .inl (one l0 lk _ hl l lk' h rfl)
  | acqLocked l0 lk key slotID n o hl hp hst hk hs hf hle hh => exact .inl (one l0 lk _ hl l lk' h rfl)
  | unlock l0 lk c hl hp => exact .inl (one l0 lk _ hl l lk' h rfl)
  | relNone l0 lk key slotID n hl hp hc hk hs hf hh hw => exact .inl (one l0 lk _ hl l lk' h rfl)
  | relStale l0 lk key slotID n w lkw hl hp hc hk hs hf hh hw hlw hgt =>
    exact .inl (two l0 w lk _ lkw _ hl hlw l lk' h rfl rfl)
  | relWake l0 lk key slotID n w lkw hl hp hc hk hs hf hh hw hlw hle =>
    exact .inl (two l0 w lk _ lkw _ hl hlw l lk' h rfl rfl)

/-- separation is kept by every step that is not an arrival -/
theorem Sep.eff {cfg : Cfg} {s s' : State} {S : LockId → Bool} {l0 : LockId} (h : Sep s S)
    (e : Eff cfg s (some l0) s') : Sep s' S := by
  intro l l' lk lk' k hl hl' hk hk'
  rcases eff_keys e l lk hl with ⟨x, hx, ex⟩ | ⟨h0, _⟩
  · rcases eff_keys e l' lk' hl' with ⟨x', hx', ex'⟩ | ⟨h0, _⟩
    · exact h l l' x x' k hx hx' (ex ▸ hk) (ex' ▸ hk')
    · cases h0
  · cases h0

theorem Sep.recycle {cfg : Cfg} {s : State} {S : LockId → Bool} (h : Sep s S) (i ts : Nat) :
    Sep (recycleSlot cfg s i ts) S := h

/-- one step of lock `l` from a reachable state: the variant over a separated set `S` drops if `l ∈ S`,
    is unchanged otherwise; separation is kept -/
theorem muOn_step {cfg : Cfg} {s s' : State} {a : Action} {l : LockId} (S : LockId → Bool) (hr : Reachable cfg s)
    (hsep : Sep s S) (hs : step cfg s a = some s') (ha : a.lockStep = some l) :
    (S l = true → muOn S s' < muOn S s) ∧ (S l = false → muOn S s' = muOn S s) ∧ Sep s' S := by
  obtain ⟨s1, h1, e⟩ := step_eff hs
  rw [ha] at e
  rcases h1 with rfl | ⟨i, ts, rfl⟩
  · obtain ⟨a1, a2⟩ := muOn_eff S hr.inv12.1 hr.inv12.2 hsep e
    exact ⟨a1, a2, hsep.eff e⟩
  · have hr1 : Reachable cfg (recycleSlot cfg s i ts) := Reachable.step (.recycle i ts) hr rfl
    obtain ⟨a1, a2⟩ := muOn_eff S hr1.inv12.1 hr1.inv12.2 (hsep.recycle i ts) e
    exact ⟨a1, a2, Sep.eff (hsep.recycle i ts) e⟩

theorem mu_step {cfg : Cfg} {s s' : State} {a : Action} (hr : Reachable cfg s)
    (hs : step cfg s a = some s') (ha : a.lockStep.isSome) : mu s' < mu s := by
  obtain ⟨l, hl⟩ := Option.isSome_iff_exists.mp ha
  exact (muOn_step (fun _ => true) hr (sep_all s) hs hl).1 rfl

/-- runs of lock steps are no longer than the variant -/
theorem run_bounded {cfg : Cfg} : ∀ (as : List Action) (s s' : State), Reachable cfg s →
    (∀ a, a ∈ as → a.lockStep.isSome) → as.foldlM (fun st a => step cfg st a) s = some s' → as.length ≤ mu s
  | [], _, _, _, _, _ => Nat.zero_le _
  | a :: as, s, s', hr, hall, h => by
    simp only [List.foldlM_cons] at h
    cases hs : step cfg s a with
    | none => rw [hs] at h; cases h
    | some s1 =>
      rw [hs] at h
      have h' : as.foldlM (fun st a => step cfg st a) s1 = some s' := h
      have := run_bounded as s1 s' (Reachable.step a hr hs) (fun b hb => hall b (List.mem_cons_of_mem _ hb)) h'
      have := mu_step hr hs (hall a (by simp))
      simp only [List.length_cons]; omega

/-- some lock step is enabled as long as a lock is unfinished -/
theorem progress {cfg : Cfg} {s : State} (hr : Reachable cfg s)
    (hex : ∃ l lk, s.locks l = some lk ∧ lk.phase ≠ .done) :
    ∃ a l s', a.lockStep = some l ∧ step cfg s a = some s' := by
  obtain ⟨h1, h2⟩ := hr.inv12
  obtain ⟨l0, lk0, hl0, hnd⟩ := hex
  by_cases hall : ∀ l lk, s.locks l = some lk → lk.phase = .done ∨ lk.phase = .waiting
  · exact (not_all_waiting h1 h2 hl0 hnd hall).elim
  · have : ∃ l lk, s.locks l = some lk ∧ lk.phase ≠ .done ∧ lk.phase ≠ .waiting := by
      apply Classical.byContradiction
      intro hno
      apply hall
      intro l lk hl
      apply Classical.byContradiction
      intro hc
      exact hno ⟨l, lk, hl, fun e => hc (.inl e), fun e => hc (.inr e)⟩
    obtain ⟨l, lk, hl, hd, hw⟩ := this
    cases hp : lk.phase with
    | acquiring => obtain ⟨s', hs⟩ := acquire_enabled h1 hl (.inl hp); exact ⟨.acquire l, l, s', rfl, hs⟩
    | woken => obtain ⟨s', hs⟩ := acquire_enabled h1 hl (.inr hp); exact ⟨.acquire l, l, s', rfl, hs⟩
    | acquired => obtain ⟨s', hs⟩ := unlock_enabled (cfg := cfg) hl hp 0; exact ⟨.unlock l 0, l, s', rfl, hs⟩
    | releasing => obtain ⟨s', hs⟩ := release_enabled h1 h2 hl hp; exact ⟨.releaseSlot l, l, s', rfl, hs⟩
    | waiting => exact absurd hp hw
    | done => exact absurd hp hd

/-- from every reachable state some finite run of lock steps finishes every request -/
theorem can_finish {cfg : Cfg} : ∀ (n : Nat) (s : State), Reachable cfg s → mu s ≤ n →
    ∃ as s', (∀ a, a ∈ as → a.lockStep.isSome) ∧ run cfg s as = some s' ∧ AllDone s'
  | 0, s, hr, hn => by
    by_cases hd : AllDone s
    · exact ⟨[], s, by simp, rfl, hd⟩
    · have : ∃ l lk, s.locks l = some lk ∧ lk.phase ≠ .done := by
        apply Classical.byContradiction; intro hno; apply hd
        intro l lk hl; apply Classical.byContradiction; intro hc; exact hno ⟨l, lk, hl, hc⟩
      obtain ⟨a, l, s1, ha, hs⟩ := progress hr this
      have := mu_step hr hs (by simp [ha]); omega
  | n + 1, s, hr, hn => by
    by_cases hd : AllDone s
    · exact ⟨[], s, by simp, rfl, hd⟩
    · have : ∃ l lk, s.locks l = some lk ∧ lk.phase ≠ .done := by
        apply Classical.byContradiction; intro hno; apply hd
        intro l lk hl; apply Classical.byContradiction; intro hc; exact hno ⟨l, lk, hl, hc⟩
      obtain ⟨a, l, s1, ha, hs⟩ := progress hr this
      have hlt := mu_step hr hs (by simp [ha])
      obtain ⟨as, s', h1, h2, h3⟩ := can_finish n s1 (Reachable.step a hr hs) (by omega)
      refine ⟨a :: as, s', ?_, by simp [run, hs, h2], h3⟩
      intro b hb
      rcases List.mem_cons.mp hb with e | hb
      · subst e; simp [ha]
      · exact h1 b hb

/-! ## the wait-for relation is acyclic -/

/-- the holder a blocked lock waits for is itself heading for a strictly greater key -/
theorem waitsFor_key_lt {cfg : Cfg} {s : State} (h1 : Inv1 cfg s) {a b : LockId} {lka lkb : Lock} {ka kb : Key}
    (hw : WaitsFor cfg s a b) (hla : s.locks a = some lka) (hka : lka.nextKey = some ka)
    (hlb : s.locks b = some lkb) (hkb : lkb.nextKey = some kb) : KLt ka kb := by
  obtain ⟨lk, k, n, hl, _, hk, hn, ho⟩ := hw
  rw [hla] at hl; cases hl
  rw [hka] at hk; cases hk
  obtain ⟨hnm, hnk⟩ := findNode_some hn
  obtain ⟨lko, hlo, j, hj, hjk⟩ := h1.holder _ n b hnm ho
  rw [hlb] at hlo; cases hlo
  rw [hnk] at hjk
  obtain ⟨hj', hjm⟩ := List.getElem?_eq_some_iff.mp hjk
  obtain ⟨hc', hcm⟩ := List.getElem?_eq_some_iff.mp hkb
  rw [← hjm, ← hcm]
  exact List.pairwise_iff_getElem.mp (h1.wf _ _ hlb).sorted j lkb.acquiredCount hj' hc' hj

theorem waitChain_head {cfg : Cfg} {s : State} {a b : LockId} (h : WaitChain cfg s a b) :
    ∃ lk k, s.locks a = some lk ∧ lk.phase = .waiting ∧ lk.nextKey = some k := by
  cases h with
  | single hw => obtain ⟨lk, k, _, hl, hp, hk, _⟩ := hw; exact ⟨lk, k, hl, hp, hk⟩
  | cons hw _ => obtain ⟨lk, k, _, hl, hp, hk, _⟩ := hw; exact ⟨lk, k, hl, hp, hk⟩

theorem waitChain_key_lt {cfg : Cfg} {s : State} (h1 : Inv1 cfg s) {a b : LockId} (h : WaitChain cfg s a b) :
    ∀ {lka lkb : Lock} {ka kb : Key}, s.locks a = some lka → lka.nextKey = some ka →
      s.locks b = some lkb → lkb.nextKey = some kb → KLt ka kb := by
  induction h with
  | single hw => intro lka lkb ka kb hla hka hlb hkb; exact waitsFor_key_lt h1 hw hla hka hlb hkb
  | cons hw hc ih =>
    intro lka lkb ka kb hla hka hlb hkb
    obtain ⟨lkm, km, hlm, _, hkm⟩ := waitChain_head hc
    exact KLt_trans (waitsFor_key_lt h1 hw hla hka hlm hkm) (ih hlm hkm hlb hkb)

theorem waitChain_irrefl {cfg : Cfg} {s : State} (h1 : Inv1 cfg s) {a : LockId} (h : WaitChain cfg s a a) : False := by
  obtain ⟨lk, k, hl, _, hk⟩ := waitChain_head h
  exact KLt_irrefl k (waitChain_key_lt h1 h hl hk hl hk)

/-! ## FIFO per slot -/

/-- a step changes a waiting list only by appending the caller or by removing the lock it wakes up -/
theorem eff_waiting {cfg : Cfg} {s s' : State} {o : Option LockId} (e : Eff cfg s o s') (i : Nat) :
    (s'.slots i).waiting = (s.slots i).waiting ∨
    (∃ l, (s'.slots i).waiting = (s.slots i).waiting ++ [l]) ∨
    (∃ w key, (s'.slots i).waiting = (s.slots i).waiting.erase w ∧
      (s.slots i).waiting.find? (awaits s key) = some w) := by
  have same : ∀ (slotID : Nat) (q : List Node) (c : Int),
      (upd s.slots slotID { queue := q, count := c, waiting := (s.slots slotID).waiting } i).waiting = (s.slots i).waiting := by
    intro slotID q c; simp only [upd_apply]; split
    · next e => subst e; rfl
    · rfl
  cases e with
  | gen ts keys hnd => exact .inl rfl
  | recycle j ts =>
    left; simp only [recycleSlot, upd_apply]; split
    · next e => subst e; rfl
    · rfl
  | staleRet l0 lk hl hp hst => exact .inl rfl
  | acqNew l0 lk key slotID hl hp hst hk hs hf => exact .inl (same slotID _ _)
  | acqStale l0 lk key slotID n hl hp hst hk hs hf hgt => exact .inl rfl
  | acqFree l0 lk key slotID n hl hp hst hk hs hf hle hh => exact .inl (same slotID _ _)
  | acqLocked l0 lk key slotID n o hl hp hst hk hs hf hle hh =>
    simp only [upd_apply]; split
    · next e => subst e; exact .inr (.inl ⟨l0, rfl⟩)
    · exact .inl rfl
  | unlock l0 lk c hl hp => exact .inl rfl
  | relNone l0 lk key slotID n hl hp hc hk hs hf hh hw => exact .inl (same slotID _ _)
  | relStale l0 lk key slotID n w lkw hl hp hc hk hs hf hh hw hlw hgt =>
    simp only [upd_apply]; split
    · next e => subst e; exact .inr (.inr ⟨w, key, rfl, hw⟩)
    · exact .inl rfl
  | relWake l0 lk key slotID n w lkw hl hp hc hk hs hf hh hw hlw hle =>
    simp only [upd_apply]; split
    · next e => subst e; exact .inr (.inr ⟨w, key, rfl, hw⟩)
    · exact .inl rfl

/-- the lock removed from a waiting list is the first one (in arrival order) blocked on the released key -/
theorem first_in_line {s : State} {ws : List LockId} (hnd : ws.Nodup) {key : Key} {w : LockId}
    (hw : ws.find? (awaits s key) = some w) {i j : Nat} {a : LockId}
    (hi : ws[i]? = some a) (hj : ws[j]? = some w) (hij : i < j) : awaits s key a = false := by
  obtain ⟨_, i0, h0, e0, hbefore⟩ := List.find?_eq_some_iff_getElem.mp hw
  obtain ⟨hj', ej⟩ := List.getElem?_eq_some_iff.mp hj
  have : i0 = j := (List.getElem_inj hnd).mp (e0.trans ej.symm)
  subst this
  obtain ⟨hi', ei⟩ := List.getElem?_eq_some_iff.mp hi
  have := hbefore i hij
  rw [ei] at this
  simpa using this

/-! ## progress inside a separated set of locks -/

def awaitedOn (S : LockId → Bool) (s : State) : List Key :=
  (List.range s.nlocks).filterMap fun l =>
    match s.locks l with
    | some lk => if S l = true ∧ lk.phase = .waiting then lk.nextKey else none
    | none => none

theorem mem_awaitedOn {cfg : Cfg} {s : State} (h1 : Inv1 cfg s) {S : LockId → Bool} {k : Key} :
    k ∈ awaitedOn S s ↔ ∃ l lk, S l = true ∧ s.locks l = some lk ∧ lk.phase = .waiting ∧ lk.nextKey = some k := by
  simp only [awaitedOn, List.mem_filterMap, List.mem_range]
  constructor
  · rintro ⟨l, _, h⟩
    cases hl : s.locks l with
    | none => simp [hl] at h
    | some lk =>
      simp only [hl] at h
      split at h
      · next hp => exact ⟨l, lk, hp.1, hl, hp.2, h⟩
      · cases h
  · rintro ⟨l, lk, hS, hl, hp, hk⟩
    exact ⟨l, h1.fresh _ _ hl, by simp [hl, hp, hk, hS]⟩

/-- not all unfinished locks of a separated set are blocked -/
theorem not_all_waiting_on {cfg : Cfg} {s : State} (h1 : Inv1 cfg s) (h2 : Inv2 cfg s) {S : LockId → Bool}
    (hsep : Sep s S) {l0 : LockId} {lk0 : Lock} (hS0 : S l0 = true) (hl0 : s.locks l0 = some lk0)
    (hnd : lk0.phase ≠ .done)
    (hall : ∀ l lk, S l = true → s.locks l = some lk → lk.phase = .done ∨ lk.phase = .waiting) : False := by
  have hp0 : lk0.phase = .waiting := (hall _ _ hS0 hl0).resolve_left hnd
  have hlt0 : lk0.acquiredCount < lk0.keys.length := by
    have := h1.phase _ _ hl0; unfold PhaseOK at this; rw [hp0] at this; exact this.2
  have hne : awaitedOn S s ≠ [] := by
    intro e
    have : lk0.keys[lk0.acquiredCount] ∈ awaitedOn S s :=
      (mem_awaitedOn h1).mpr ⟨l0, lk0, hS0, hl0, hp0, List.getElem?_eq_getElem hlt0⟩
    rw [e] at this; cases this
  obtain ⟨m, hm, hmax⟩ := exists_maximal _ hne
  obtain ⟨l, lk, hSl, hl, hp, hk⟩ := (mem_awaitedOn h1).mp hm
  have hmk : m ∈ lk.keys := List.mem_of_getElem? hk
  rcases h2.wake l lk m hl hp hk with ⟨n, o, hn, ho⟩ | ⟨w, lkw, hw, hpw, _, hkw, _⟩
  · obtain ⟨hnm, hnk⟩ := findNode_some hn
    obtain ⟨lko, hlo, j, hj, hjk⟩ := h1.holder _ n o hnm ho
    rw [hnk] at hjk
    have hSo : S o = true := by
      rw [← hsep l o lk lko m hl hlo hmk (List.mem_of_getElem? hjk)]; exact hSl
    have hpo : lko.phase = .waiting := by
      rcases hall _ _ hSo hlo with hd | hw
      · have := h1.phase _ _ hlo; unfold PhaseOK at this; rw [hd] at this; omega
      · exact hw
    have hlto : lko.acquiredCount < lko.keys.length := by
      have := h1.phase _ _ hlo; unfold PhaseOK at this; rw [hpo] at this; exact this.2
    have hin : lko.keys[lko.acquiredCount] ∈ awaitedOn S s :=
      (mem_awaitedOn h1).mpr ⟨o, lko, hSo, hlo, hpo, List.getElem?_eq_getElem hlto⟩
    apply hmax _ hin
    obtain ⟨hj', hjm⟩ := List.getElem?_eq_some_iff.mp hjk
    rw [← hjm]
    exact List.pairwise_iff_getElem.mp (h1.wf _ _ hlo).sorted j lko.acquiredCount hj' hlto hj
  · have hSw : S w = true := by
      rw [← hsep l w lk lkw m hl hw hmk (List.mem_of_getElem? hkw)]; exact hSl
    rcases hall _ _ hSw hw with hd | hw' <;> simp [hpw] at *

/-- while a lock of a separated set is unfinished, a step of a lock of that set is enabled -/
theorem progress_on {cfg : Cfg} {s : State} (hr : Reachable cfg s) {S : LockId → Bool} (hsep : Sep s S)
    (hex : ∃ l lk, S l = true ∧ s.locks l = some lk ∧ lk.phase ≠ .done) :
    ∃ a l s', S l = true ∧ a.lockStep = some l ∧ step cfg s a = some s' := by
  obtain ⟨h1, h2⟩ := hr.inv12
  obtain ⟨l0, lk0, hS0, hl0, hnd⟩ := hex
  by_cases hall : ∀ l lk, S l = true → s.locks l = some lk → lk.phase = .done ∨ lk.phase = .waiting
  · exact (not_all_waiting_on h1 h2 hsep hS0 hl0 hnd hall).elim
  · have : ∃ l lk, S l = true ∧ s.locks l = some lk ∧ lk.phase ≠ .done ∧ lk.phase ≠ .waiting := by
      apply Classical.byContradiction
      intro hno
      apply hall
      intro l lk hS hl
      apply Classical.byContradiction
      intro hc
      exact hno ⟨l, lk, hS, hl, fun e => hc (.inl e), fun e => hc (.inr e)⟩
    obtain ⟨l, lk, hS, hl, hd, hw⟩ := this
    cases hp : lk.phase with
    | acquiring => obtain ⟨s', hs⟩ := acquire_enabled h1 hl (.inl hp); exact ⟨.acquire l, l, s', hS, rfl, hs⟩
    | woken => obtain ⟨s', hs⟩ := acquire_enabled h1 hl (.inr hp); exact ⟨.acquire l, l, s', hS, rfl, hs⟩
    | acquired => obtain ⟨s', hs⟩ := unlock_enabled (cfg := cfg) hl hp 0; exact ⟨.unlock l 0, l, s', hS, rfl, hs⟩
    | releasing => obtain ⟨s', hs⟩ := release_enabled h1 h2 hl hp; exact ⟨.releaseSlot l, l, s', hS, rfl, hs⟩
    | waiting => exact absurd hp hw
    | done => exact absurd hp hd

/-- an arrival whose keys avoid the keys of `S` (and which is not put into `S`) keeps `S` separated -/
theorem Sep.gen {cfg : Cfg} {s : State} {S : LockId → Bool} (h : Sep s S) (h1 : Inv1 cfg s) (ts : Nat)
    {keys : List Key} (hS : S s.nlocks = false)
    (hdis : ∀ l lk k, S l = true → s.locks l = some lk → k ∈ keys → k ∉ lk.keys) :
    Sep (genLock cfg s ts keys) S := by
  have hmem : ∀ k, k ∈ sortKeys keys ↔ k ∈ keys := fun k => (List.mergeSort_perm keys Bytes.le).mem_iff
  intro l l' lk lk' k hl hl' hk hk'
  rcases upd_some hl with ⟨e1, e2⟩ | ⟨_, hl⟩ <;> rcases upd_some hl' with ⟨e1', e2'⟩ | ⟨_, hl'⟩
  · rw [e1, e1']
  · subst e2
    have hk : k ∈ keys := (hmem k).mp hk
    rw [e1, hS]
    cases hS' : S l' with
    | false => rfl
    | true => exact absurd hk' (hdis l' lk' k hS' hl' hk)
  · subst e2'
    have hk' : k ∈ keys := (hmem k).mp hk'
    rw [e1', hS]
    cases hS' : S l with
    | false => rfl
    | true => exact absurd hk (hdis l lk k hS' hl hk')
  · exact h l l' lk lk' k hl hl' hk hk'

/-! ## exactness of the stale flag: two more ghost invariants -/

structure Inv4 (s : State) : Prop where
  /-- a non-zero `maxCommitTS` is one of the commits published on the node -/
  max_in_pubs : ∀ i n, n ∈ (s.slots i).queue → n.maxCommitTS = 0 ∨ n.maxCommitTS ∈ n.pubs
  /-- what a node remembers was published by a release on its key -/
  pubs_published : ∀ i n c, n ∈ (s.slots i).queue → c ∈ n.pubs → (n.key, c) ∈ s.published

theorem mem_upd_queue {cfg : Cfg} {s : State} (h1 : Inv1 cfg s) {slotID : Nat} {key : Key} {n : Node}
    {f : Node → Node} (hf : findNode (s.slots slotID).queue key = some n) {cnt : Int} {wt : List LockId}
    {i : Nat} {m : Node}
    (hm : m ∈ (upd s.slots slotID { queue := updNode key f (s.slots slotID).queue, count := cnt, waiting := wt } i).queue) :
    (∃ j, m ∈ (s.slots j).queue) ∨ m = f n := by
  simp only [upd_apply] at hm
  split at hm
  · rcases mem_updNode (h1.qnodup _) hm with ⟨hm, _⟩ | ⟨n0, hn0, hn0k, rfl⟩
    · exact .inl ⟨_, hm⟩
    · right
      have := findNode_of_mem (h1.qnodup _) hn0
      rw [hn0k, hf] at this; cases this; rfl
  · exact .inl ⟨_, hm⟩

theorem Inv4.init : Inv4 Latch.init := ⟨by simp [Latch.init, emptySlot], by simp [Latch.init, emptySlot]⟩

theorem Inv4.rel {cfg : Cfg} {s : State} (h1 : Inv1 cfg s) (h : Inv4 s) {slotID : Nat} {key : Key} {n : Node}
    (hf : findNode (s.slots slotID).queue key = some n) (c : Nat) (hd : Option LockId)
    (cnt : Int) (wt : List LockId) (locks' : Nat → Option Lock) :
    Inv4 { s with
      slots := upd s.slots slotID { queue := updNode key (relNodeF (max n.maxCommitTS c) c hd) (s.slots slotID).queue,
                                    count := cnt, waiting := wt },
      locks := locks', published := (key, c) :: s.published } := by
  obtain ⟨hnm, hnk⟩ := findNode_some hf
  constructor
  · intro i m hm
    rcases mem_upd_queue h1 hf hm with ⟨j, hj⟩ | rfl
    · exact h.max_in_pubs j m hj
    · simp only [relNodeF, List.mem_cons]
      rcases max_cases n.maxCommitTS c with e | e
      · rw [e]; rcases h.max_in_pubs _ n hnm with h0 | h0
        · exact .inl h0
        · exact .inr (.inr h0)
      · rw [e]; exact .inr (.inl rfl)
  · intro i m c' hm hc
    rcases mem_upd_queue h1 hf hm with ⟨j, hj⟩ | rfl
    · exact List.mem_cons_of_mem _ (h.pubs_published j m c' hj hc)
    · simp only [relNodeF, List.mem_cons] at hc ⊢
      rcases hc with e | hc
      · left; rw [e, hnk]
      · right; exact h.pubs_published _ n c' hnm hc

theorem Inv4.eff {cfg : Cfg} {s s' : State} (h1 : Inv1 cfg s) (h : Inv4 s) {o : Option LockId}
    (e : Eff cfg s o s') : Inv4 s' := by
  cases e with
  | gen ts keys hnd => exact ⟨h.max_in_pubs, h.pubs_published⟩
  | recycle i ts =>
    constructor
    · intro j n hn
      simp only [recycleSlot, upd_apply] at hn
      split at hn
      · exact h.max_in_pubs _ n (List.mem_filter.mp hn).1
      · exact h.max_in_pubs j n hn
    · intro j n c hn
      simp only [recycleSlot, upd_apply] at hn
      split at hn
      · exact h.pubs_published _ n c (List.mem_filter.mp hn).1
      · exact h.pubs_published j n c hn
  | staleRet l lk hl hp hst => exact ⟨h.max_in_pubs, h.pubs_published⟩
  | acqStale l lk key slotID n hl hp hst hk hs hf hgt => exact ⟨h.max_in_pubs, h.pubs_published⟩
  | unlock l lk c hl hp => exact ⟨h.max_in_pubs, h.pubs_published⟩
  | acqLocked l lk key slotID n o hl hp hst hk hs hf hle hh =>
    constructor
    · intro j m hm
      simp only [upd_apply] at hm
      split at hm
      · next e => subst e; exact h.max_in_pubs _ m hm
      · exact h.max_in_pubs j m hm
    · intro j m c hm
      simp only [upd_apply] at hm
      split at hm
      · next e => subst e; exact h.pubs_published _ m c hm
      · exact h.pubs_published j m c hm
  | acqNew l lk key slotID hl hp hst hk hs hf =>
    constructor
    · intro j m hm
      simp only [upd_apply] at hm
      split at hm
      · rcases List.mem_cons.mp hm with e | hm
        · subst e; left; rfl
        · exact h.max_in_pubs _ m hm
      · exact h.max_in_pubs j m hm
    · intro j m c hm hc
      simp only [upd_apply] at hm
      split at hm
      · rcases List.mem_cons.mp hm with e | hm
        · subst e; simp [newNode] at hc
        · exact h.pubs_published _ m c hm hc
      · exact h.pubs_published j m c hm hc
  | acqFree l lk key slotID n hl hp hst hk hs hf hle hh =>
    obtain ⟨hnm, _⟩ := findNode_some hf
    constructor
    · intro j m hm
      rcases mem_upd_queue h1 hf hm with ⟨j', hj⟩ | rfl
      · exact h.max_in_pubs j' m hj
      · exact h.max_in_pubs _ n hnm
    · intro j m c hm hc
      rcases mem_upd_queue h1 hf hm with ⟨j', hj⟩ | rfl
      · exact h.pubs_published j' m c hj hc
      · exact h.pubs_published _ n c hnm hc
  | relNone l lk key slotID n hl hp hc hk hs hf hh hw => exact Inv4.rel h1 h hf _ _ _ _ _
  | relStale l lk key slotID n w lkw hl hp hc hk hs hf hh hw hlw hgt => exact Inv4.rel h1 h hf _ _ _ _ _
  | relWake l lk key slotID n w lkw hl hp hc hk hs hf hh hw hlw hle => exact Inv4.rel h1 h hf _ _ _ _ _

theorem Reachable.inv4 {cfg : Cfg} {s : State} (h : Reachable cfg s) : Inv4 s := by
  induction h with
  | init => exact Inv4.init
  | @step s0 s2 a hr hs ih =>
    obtain ⟨s1, h1, e⟩ := step_eff hs
    rcases h1 with rfl | ⟨i, ts, rfl⟩
    · exact ih.eff hr.inv12.1 e
    · have e0 := Eff.recycle (cfg := cfg) (s := s0) i ts
      exact (ih.eff hr.inv12.1 e0).eff (hr.inv12.1.eff e0) e

/-- the lock woken by a release is flagged stale exactly when the node (after the release) carries a
    publication above its start timestamp -/
theorem eff_wakeup_exact {cfg : Cfg} {s s' : State} (h1 : Inv1 cfg s) (h2 : Inv2 cfg s) (h3 : Inv3 cfg s) (h4 : Inv4 s)
    {o : Option LockId} (e : Eff cfg s o s') {w : LockId} {lkw lkw' : Lock} {key : Key}
    (hlw : s.locks w = some lkw) (hpw : lkw.phase = .waiting) (hkw : lkw.nextKey = some key)
    (hlw' : s'.locks w = some lkw') (hpw' : lkw'.phase = .woken) :
    lkw'.isStale = true ↔ ∃ n c, nodeOf cfg s' key = some n ∧ c ∈ n.pubs ∧ c > lkw.startTS := by
  -- effects that rewrite one lock `l0` into a phase other than `woken`, `l0` not being blocked
  have single : ∀ (l0 : LockId) (lk0 lk0' : Lock), s.locks l0 = some lk0 → lk0.phase ≠ .waiting →
      upd s.locks l0 (some lk0') w = some lkw' → False := by
    intro l0 lk0 lk0' h0 hp0 h
    rcases upd_some h with ⟨e1, _⟩ | ⟨_, h⟩
    · subst e1; rw [hlw] at h0; cases h0; exact hp0 hpw
    · rw [hlw] at h; cases h; rw [hpw] at hpw'; cases hpw'
  have rel_other : ∀ (l0 w0 : LockId) (lk0 lk0' x : Lock), s.locks l0 = some lk0 → lk0.phase = .releasing →
      w ≠ w0 → upd (upd s.locks l0 (some lk0')) w0 (some x) w = some lkw' → False := by
    intro l0 w0 lk0 lk0' x h0 hp0 hne h
    rw [upd_ne _ _ hne] at h
    exact single l0 lk0 lk0' h0 (by simp [hp0]) h
  cases e with
  | gen ts keys hnd =>
    rcases upd_some hlw' with ⟨e1, _⟩ | ⟨_, h⟩
    · subst e1; exact absurd (h1.fresh _ _ hlw) (Nat.lt_irrefl _)
    · rw [hlw] at h; cases h; rw [hpw] at hpw'; cases hpw'
  | recycle i ts =>
    have h : s.locks w = some lkw' := hlw'
    rw [hlw] at h; cases h; rw [hpw] at hpw'; cases hpw'
  | staleRet l0 lk hl hp hst => exact (single l0 lk _ hl (phase_ne_waiting_of hp) hlw').elim
  | acqNew l0 lk k0 slotID hl hp hst hk hs hf => exact (single l0 lk _ hl (phase_ne_waiting_of hp) hlw').elim
  | acqStale l0 lk k0 slotID n hl hp hst hk hs hf hgt => exact (single l0 lk _ hl (phase_ne_waiting_of hp) hlw').elim
  | acqFree l0 lk k0 slotID n hl hp hst hk hs hf hle hh => exact (single l0 lk _ hl (phase_ne_waiting_of hp) hlw').elim
  | acqLocked l0 lk k0 slotID n o hl hp hst hk hs hf hle hh =>
    exact (single l0 lk _ hl (phase_ne_waiting_of hp) hlw').elim
  | unlock l0 lk c hl hp => exact (single l0 lk _ hl (by simp [hp]) hlw').elim
  | relNone l0 lk k0 slotID n hl hp hc hk hs hf hh hw => exact (single l0 lk _ hl (by simp [hp]) hlw').elim
  | relStale l0 lk k0 slotID n w0 lkw0 hl hp hc hk hs hf hh hw hlw0 hgt =>
    by_cases e : w = w0
    · subst e
      rw [hlw] at hlw0; cases hlw0
      have hsl : slotID = cfg.slotOf k0 := slot_of_key (h1.wf _ _ hl) hk hs
      obtain ⟨hk0, _⟩ := awaits_key hw hlw
      rw [Lock.nextKey, hk0] at hkw; cases hkw
      have : lkw' = { lkw with acquiredCount := lkw.acquiredCount + 1, isStale := true, phase := .woken } := by
        have h : upd (upd s.locks l0 (some (relLock lk))) w _ w = some lkw' := hlw'
        rw [upd_same] at h; exact (Option.some.inj h).symm
      subst this
      obtain ⟨hnm, _⟩ := findNode_some hf
      refine ⟨fun _ => ?_, fun _ => rfl⟩
      refine ⟨_, ?_, nodeOf_updNode_same (relF_key _ _ _) hsl hf, ?_⟩
      · exact max n.maxCommitTS lk.commitTS
      · simp only [relNodeF, List.mem_cons]
        rcases max_cases n.maxCommitTS lk.commitTS with e | e
        · rcases h4.max_in_pubs _ n hnm with h0 | h0
          · rw [e, h0] at hgt; omega
          · rw [e]; exact ⟨.inr h0, by rw [← e]; exact hgt⟩
        · rw [e]; exact ⟨.inl rfl, by rw [← e]; exact hgt⟩
    · exact (rel_other l0 w0 lk _ _ hl hp e hlw').elim
  | relWake l0 lk k0 slotID n w0 lkw0 hl hp hc hk hs hf hh hw hlw0 hle =>
    by_cases e : w = w0
    · subst e
      rw [hlw] at hlw0; cases hlw0
      have hsl : slotID = cfg.slotOf k0 := slot_of_key (h1.wf _ _ hl) hk hs
      obtain ⟨hk0, _⟩ := awaits_key hw hlw
      rw [Lock.nextKey, hk0] at hkw; cases hkw
      have : lkw' = { lkw with phase := .woken } := by
        have h : upd (upd s.locks l0 (some (relLock lk))) w _ w = some lkw' := hlw'
        rw [upd_same] at h; exact (Option.some.inj h).symm
      subst this
      have hstw : lkw.isStale = false := by
        have := h1.phase _ _ hlw; unfold PhaseOK at this; rw [hpw] at this; exact this.1
      obtain ⟨hnm, _⟩ := findNode_some hf
      constructor
      · intro h; simp only at h; rw [hstw] at h; cases h
      · rintro ⟨n', c, hn', hc, hgt⟩
        rw [nodeOf_updNode_same (relF_key _ _ _) hsl hf] at hn'
        cases hn'
        simp only [relNodeF, List.mem_cons] at hc
        rcases hc with e | hc
        · omega
        · have := h3.pubs_le _ n c hnm hc; omega
    · exact (rel_other l0 w0 lk _ _ hl hp e hlw').elim

/-! ## runs with arrivals on other keys -/

/-- every arrival of the run stays outside `S` and uses keys that no lock of `S` uses -/
def RunSep (cfg : Cfg) (S : LockId → Bool) : State → List Action → Prop
  | _, [] => True
  | s, a :: as =>
    (match a with
     | .genLock _ keys => S s.nlocks = false ∧ ∀ l lk k, S l = true → s.locks l = some lk → k ∈ keys → k ∉ lk.keys
     | _ => True) ∧
    ∀ s', step cfg s a = some s' → RunSep cfg S s' as

/-- number of steps of the run performed on behalf of locks of `S` -/
def stepsOf (S : LockId → Bool) (as : List Action) : Nat :=
  (as.filter fun a => match a.lockStep with | some l => S l | none => false).length

theorem run_on_bounded {cfg : Cfg} (S : LockId → Bool) : ∀ (as : List Action) (s s' : State), Reachable cfg s →
    Sep s S → RunSep cfg S s as → run cfg s as = some s' → stepsOf S as + muOn S s' ≤ muOn S s ∧ Sep s' S
  | [], s, s', _, hsep, _, h => by
    simp only [run] at h; cases h
    exact ⟨by simp [stepsOf], hsep⟩
  | a :: as, s, s', hr, hsep, hrs, h => by
    simp only [run] at h
    cases hs : step cfg s a with
    | none => rw [hs] at h; cases h
    | some s1 =>
      rw [hs] at h
      have h' : run cfg s1 as = some s' := h
      have hr1 : Reachable cfg s1 := Reachable.step a hr hs
      obtain ⟨ha, hrest⟩ := hrs
      have hrs1 := hrest s1 hs
      -- one step
      have hone : (match a.lockStep with | some l => S l | none => false) = true → muOn S s1 < muOn S s := by
        intro hS
        cases hl : a.lockStep with
        | none => rw [hl] at hS; cases hS
        | some l => rw [hl] at hS; exact (muOn_step S hr hsep hs hl).1 hS
      have hle : muOn S s1 ≤ muOn S s ∧ Sep s1 S := by
        cases a with
        | genLock ts keys =>
          simp only [step] at hs
          split at hs
          · cases hs
            exact ⟨Nat.le_of_eq (muOn_gen S s ts keys ha.1), hsep.gen hr.inv12.1 ts ha.1 ha.2⟩
          · cases hs
        | recycle i ts => simp only [step] at hs; cases hs; exact ⟨Nat.le_refl _, hsep⟩
        | acquire l =>
          obtain ⟨a1, a2, a3⟩ := muOn_step S hr hsep hs (l := l) rfl
          cases hS : S l with
          | true => exact ⟨Nat.le_of_lt (a1 hS), a3⟩
          | false => exact ⟨Nat.le_of_eq (a2 hS), a3⟩
        | unlock l c =>
          obtain ⟨a1, a2, a3⟩ := muOn_step S hr hsep hs (l := l) rfl
          cases hS : S l with
          | true => exact ⟨Nat.le_of_lt (a1 hS), a3⟩
          | false => exact ⟨Nat.le_of_eq (a2 hS), a3⟩
        | releaseSlot l =>
          obtain ⟨a1, a2, a3⟩ := muOn_step S hr hsep hs (l := l) rfl
          cases hS : S l with
          | true => exact ⟨Nat.le_of_lt (a1 hS), a3⟩
          | false => exact ⟨Nat.le_of_eq (a2 hS), a3⟩
      obtain ⟨ih1, ih2⟩ := run_on_bounded S as s1 s' hr1 hle.2 hrs1 h'
      refine ⟨?_, ih2⟩
      simp only [stepsOf, List.filter_cons]
      by_cases hS : (match a.lockStep with | some l => S l | none => false) = true
      · have := hone hS
        simp only [hS, if_true, List.length_cons]
        simp only [stepsOf] at ih1; omega
      · simp only [hS]
        simp only [stepsOf] at ih1
        have := hle.1
        simp; omega

/-- when every request is finished no lock step is enabled -/
theorem allDone_stuck {cfg : Cfg} {s : State} (hd : AllDone s) (a : Action) (s' : State)
    (ha : a.lockStep.isSome) : step cfg s a ≠ some s' := by
  cases a with
  | genLock ts keys => simp [Action.lockStep] at ha
  | recycle i ts => simp [Action.lockStep] at ha
  | acquire l =>
    simp only [step, acquireStep]
    cases hl : s.locks l with
    | none => simp
    | some lk => simp [hd l lk hl]
  | unlock l c =>
    simp only [step, unlock]
    cases hl : s.locks l with
    | none => simp
    | some lk => simp [hd l lk hl]
  | releaseSlot l =>
    simp only [step, releaseSlot]
    cases hl : s.locks l with
    | none => simp
    | some lk => simp [hd l lk hl]

theorem sort12 : sortKeys ([[1], [2]] : List Key) = [[1], [2]] := by
  simp [sortKeys, List.mergeSort, List.MergeSort.Internal.splitInTwo, Bytes.le, Bytes.cmp]

macro "latch_eval2" : tactic =>
  `(tactic| simp [run, step, genLock, sort1, sort12, acquireStep, acquireSlot, preRecycle, acquireCore, unlock, releaseSlot,
      Latch.init, emptySlot, upd, cfg0, findNode, updNode, awaits, phaseAfterSuccess, k1, k2, Lock.fullyAcquired,
      nodeOf, Lock.nextKey, HasHolder, WaitsFor, RunSep, stepsOf, Action.lockStep, Sep])

end CGV.Latch
