/-
  Helper lemmas for Props/C11.lean (model: Model/RawKV.lean, spec: Spec/OrderedMap.lean). Core Lean only.
-/
import ClientGoVerif.Model.RawKV
namespace CGV.RawKV
open CGV CGV.Spec
set_option linter.unusedSimpArgs false
set_option linter.unusedVariables false

/-! ## locate -/

theorem locate_spec (L : Layout) (k : Bytes) :
    (locate L k).1 ≤ k ∧ ((locate L k).2 = [] ∨ k < (locate L k).2) := by
  induction L with
  | nil => simp [locate]
  | cons s L ih =>
    obtain ⟨h1, h2⟩ := ih
    simp only [locate]
    split
    · refine ⟨?_, h2⟩
      split <;> assumption
    · refine ⟨h1, ?_⟩
      split
      · right; grind
      · exact h2

theorem locateEnd_spec (L : Layout) (k : Bytes) (hk : k ≠ []) :
    (locateEnd L k).1 < k ∧ ((locateEnd L k).2 = [] ∨ k ≤ (locateEnd L k).2) := by
  induction L with
  | nil => cases k <;> simp_all [locateEnd]
  | cons s L ih =>
    obtain ⟨h1, h2⟩ := ih
    simp only [locateEnd]
    split
    · refine ⟨?_, h2⟩
      split <;> assumption
    · refine ⟨h1, ?_⟩
      split
      · right; grind
      · exact h2

theorem inRegion_locate (L : Layout) (k : Bytes) : inRegion (locate L k) k = true := by
  obtain ⟨h1, h2⟩ := locate_spec L k
  simp only [inRegion, inRange, toBound, ltBound]
  by_cases he : (locate L k).2 = []
  · simp [he, h1]
  · rcases h2 with h2 | h2
    · exact absurd h2 he
    · simp [he, h1, h2]

/-! ## cutting a filtered sorted list -/

theorem filter_cut {α : Type} (l : List α) (p q : α → Bool)
    (hq : l.Pairwise (fun a b => q b = true → q a = true)) :
    l.filter p = l.filter (fun x => p x && q x) ++ l.filter (fun x => p x && !q x) := by
  induction l with
  | nil => simp
  | cons a t ih =>
    have ht := (List.pairwise_cons.mp hq).2
    have hh := (List.pairwise_cons.mp hq).1
    by_cases hqa : q a = true
    · by_cases hpa : p a = true
      · simp [List.filter_cons, hqa, hpa, ih ht]
      · simp [List.filter_cons, hqa, hpa, ih ht]
    · have hall : ∀ x ∈ t, q x = false := by
        intro x hx
        cases hqx : q x
        · rfl
        · exact absurd (hh x hx hqx) hqa
      have h1 : (a :: t).filter (fun x => p x && q x) = [] := by
        apply List.filter_eq_nil_iff.mpr
        intro x hx
        rcases List.mem_cons.mp hx with hx | hx
        · subst hx; simp [hqa]
        · simp [hall x hx]
      have h2 : (a :: t).filter (fun x => p x && !q x) = (a :: t).filter p := by
        apply List.filter_congr
        intro x hx
        rcases List.mem_cons.mp hx with hx | hx
        · subst hx; simp [hqa]
        · simp [hall x hx]
      rw [h1, h2]; simp

theorem sorted_cut_pairwise (m : Store) (hs : m.Sorted) (c : Bytes) :
    m.entries.Pairwise (fun a b => decide (b.1 < c) = true → decide (a.1 < c) = true) := by
  refine List.Pairwise.imp ?_ hs
  intro a b hab hb
  simp only [decide_eq_true_eq] at *
  grind

theorem ltBound_toBound (k e : Bytes) : ltBound k (toBound e) = (decide (e = []) || decide (k < e)) := by
  unfold toBound ltBound
  by_cases h : e = [] <;> simp [h]

theorem ltBound_some (k e : Bytes) : ltBound k (some e) = decide (k < e) := rfl
theorem ltBound_none (k : Bytes) : ltBound k none = true := rfl

/-- Bool-valued range predicates: unfold to `decide`s of order facts, then order reasoning -/
macro "range_pointwise" : tactic =>
  `(tactic| (simp only [inRegion, inRange, ltBound_toBound, ltBound_some, ltBound_none] <;> grind))

theorem range_step (m : Store) (hs : m.Sorted) (s : Bytes) (hi : Bound) (R : Region)
    (h1 : R.1 ≤ s) (h2 : R.2 = [] ∨ s < R.2) :
    m.range s hi = (restrict m R).range s hi ++ (if R.2 = [] then [] else m.range R.2 hi) := by
  unfold OMap.range restrict OMap.filterKeys
  simp only [List.filter_filter]
  by_cases he : R.2 = []
  · simp only [he, if_true, List.append_nil]
    apply List.filter_congr
    intro x hx
    cases hi <;> range_pointwise
  · have h3 : s < R.2 := by rcases h2 with h | h; exact absurd h he; exact h
    simp only [he, if_false]
    rw [filter_cut _ _ (fun p => decide (p.1 < R.2)) (sorted_cut_pairwise m hs R.2)]
    congr 1 <;> apply List.filter_congr <;> intro x hx <;> cases hi <;> range_pointwise

theorem range_nil_of_not_fwd (m : Store) (s e : Bytes) (h : fwdCond s e = false) : m.range s (toBound e) = [] := by
  unfold OMap.range
  apply List.filter_eq_nil_iff.mpr
  intro x hx
  simp only [fwdCond] at h
  have : inRange s (toBound e) x.1 = false := by range_pointwise
  simp [this]

theorem take_append_take {α : Type} (A B : List α) (n : Nat) :
    (A ++ B).take n = A.take n ++ B.take (n - (A.take n).length) := by
  rw [List.take_append, List.length_take]
  by_cases h : n ≤ A.length
  · have : n - A.length = 0 := by omega
    have h2 : n - min n A.length = 0 := by omega
    rw [this, h2]
  · have : min n A.length = A.length := by omega
    rw [this]

/-- invariant of `Client.Scan`'s loop, for every layout sequence -/
theorem scanLoop_spec (m : Store) (hs : m.Sorted) (f : KV → KV) (end_ : Bytes) (limit : Nat) :
    ∀ (sc : SScript) (start : Bytes) (acc : List KV) (tr : STrace) (res : List KV) (tr' : STrace),
      scanLoop m f end_ limit sc start acc tr = some (res, tr') →
      res = acc ++ ((m.range start (toBound end_)).take (limit - acc.length)).map f := by
  have stop : ∀ (start : Bytes) (acc : List KV), ¬ (acc.length < limit ∧ fwdCond start end_ = true) →
      acc = acc ++ ((m.range start (toBound end_)).take (limit - acc.length)).map f := by
    intro start acc h
    by_cases h1 : acc.length < limit
    · have : fwdCond start end_ = false := by
        cases hc : fwdCond start end_
        · rfl
        · exact absurd ⟨h1, hc⟩ h
      simp [range_nil_of_not_fwd m start end_ this]
    · have : limit - acc.length = 0 := by omega
      simp [this]
  intro sc
  induction sc with
  | nil =>
    intro start acc tr res tr' h
    simp only [scanLoop] at h
    split at h
    · simp at h
    · rename_i hc
      simp only [Option.some.injEq, Prod.mk.injEq] at h
      rw [← h.1]; exact stop start acc hc
  | cons e rest ih =>
    intro start acc tr res tr' h
    cases e with
    | none =>
      simp only [scanLoop] at h
      split at h
      · exact ih _ _ _ _ _ h
      · rename_i hc
        simp only [Option.some.injEq, Prod.mk.injEq] at h
        rw [← h.1]; exact stop start acc hc
    | some L =>
      simp only [scanLoop] at h
      split at h
      · rename_i hc
        obtain ⟨hl1, hl2⟩ := locate_spec L start
        have hstep := range_step m hs start (toBound end_) (locate L start) hl1 hl2
        split at h
        · rename_i he
          simp only [Option.some.injEq, Prod.mk.injEq] at h
          rw [← h.1]
          simp only [he, if_true, List.append_nil] at hstep
          simp only [regionScan, hstep]
        · rename_i he
          have := ih _ _ _ _ _ h
          rw [this]
          simp only [he, if_false] at hstep
          have hb : toBound (locate L start).2 = some (locate L start).2 := by simp [toBound, he]
          rw [hstep, take_append_take]
          simp only [regionScan, List.map_append, List.length_append, List.length_map, List.append_assoc]
          congr 3
          rw [Nat.sub_add_eq]
      · rename_i hc
        simp only [Option.some.injEq, Prod.mk.injEq] at h
        rw [← h.1]; exact stop start acc hc

/-! ## reverse scan -/

theorem rrange_step (m : Store) (hs : m.Sorted) (s e : Bytes) (R : Region)
    (h1 : R.1 < s) (h2 : R.2 = [] ∨ s ≤ R.2) :
    m.rrange (some s) e = (restrict m R).rrange (some s) e ++ m.rrange (some R.1) e := by
  unfold OMap.rrange OMap.range restrict OMap.filterKeys
  simp only [List.filter_filter]
  rw [filter_cut _ _ (fun p => decide (p.1 < R.1)) (sorted_cut_pairwise m hs R.1), List.reverse_append]
  congr 2 <;> apply List.filter_congr <;> intro x hx <;> range_pointwise

theorem rrange_nil (m : Store) (s e : Bytes) (h : ¬ e < s) : m.rrange (some s) e = [] := by
  unfold OMap.rrange OMap.range
  rw [List.reverse_eq_nil_iff]
  apply List.filter_eq_nil_iff.mpr
  intro x hx
  have : inRange e (some s) x.1 = false := by range_pointwise
  simp [this]

theorem rscanLoop_spec (m : Store) (hs : m.Sorted) (f : KV → KV) (end_ : Bytes) (limit : Nat) :
    ∀ (sc : SScript) (start : Bytes) (acc : List KV) (tr : STrace) (res : List KV) (tr' : STrace),
      rscanLoop m f end_ limit sc start acc tr = some (res, tr') →
      res = acc ++ ((m.rrange (some start) end_).take (limit - acc.length)).map f := by
  have stop : ∀ (start : Bytes) (acc : List KV), ¬ (acc.length < limit ∧ end_ < start) →
      acc = acc ++ ((m.rrange (some start) end_).take (limit - acc.length)).map f := by
    intro start acc h
    by_cases h1 : acc.length < limit
    · have : ¬ end_ < start := fun hc => h ⟨h1, hc⟩
      simp [rrange_nil m start end_ this]
    · have : limit - acc.length = 0 := by omega
      simp [this]
  intro sc
  induction sc with
  | nil =>
    intro start acc tr res tr' h
    simp only [rscanLoop] at h
    split at h
    · simp at h
    · rename_i hc
      simp only [Option.some.injEq, Prod.mk.injEq] at h
      rw [← h.1]; exact stop start acc hc
  | cons e rest ih =>
    intro start acc tr res tr' h
    cases e with
    | none =>
      simp only [rscanLoop] at h
      split at h
      · exact ih _ _ _ _ _ h
      · rename_i hc
        simp only [Option.some.injEq, Prod.mk.injEq] at h
        rw [← h.1]; exact stop start acc hc
    | some L =>
      simp only [rscanLoop] at h
      split at h
      · rename_i hc
        have hne : start ≠ [] := by
          intro h0; rw [h0] at hc; exact absurd hc.2 (by simp)
        obtain ⟨hl1, hl2⟩ := locateEnd_spec L start hne
        have hstep := rrange_step m hs start end_ (locateEnd L start) hl1 hl2
        split at h
        · rename_i he
          simp only [Option.some.injEq, Prod.mk.injEq] at h
          rw [← h.1]
          have hz : m.rrange (some (locateEnd L start).1) end_ = [] := by
            rw [he]; exact rrange_nil m [] end_ (by simp)
          rw [hz, List.append_nil] at hstep
          simp only [regionRScan, hstep]
        · rename_i he
          have := ih _ _ _ _ _ h
          rw [this, hstep, take_append_take]
          simp only [regionRScan, List.map_append, List.length_append, List.length_map, List.append_assoc]
          congr 3
          rw [Nat.sub_add_eq]
      · rename_i hc
        simp only [Option.some.injEq, Prod.mk.injEq] at h
        rw [← h.1]; exact stop start acc hc

/-! ## delete range -/

theorem filterKeys_congr (m : Store) (p q : Bytes → Bool) (h : ∀ k, p k = q k) : m.filterKeys p = m.filterKeys q := by
  have : p = q := funext h
  rw [this]

theorem filterKeys_true (m : Store) (p : Bytes → Bool) (h : ∀ k, p k = true) : m.filterKeys p = m := by
  unfold OMap.filterKeys
  have : m.entries.filter (fun x => p x.1) = m.entries := List.filter_eq_self.mpr (fun x _ => h x.1)
  rw [this]

theorem deleteRangeLoop_spec (end_ : Bytes) :
    ∀ (sc : SScript) (start : Bytes) (m : Store) (tr : STrace) (res : Store) (tr' : STrace),
      deleteRangeLoop end_ sc start m tr = some (res, tr') →
      res = m.eraseRange start (toBound end_) := by
  have stop : ∀ (start : Bytes) (m : Store), ¬ (fwdCond start end_ = true) → m = m.eraseRange start (toBound end_) := by
    intro start m h
    unfold OMap.eraseRange
    rw [filterKeys_true]
    intro k
    simp only [fwdCond] at h
    range_pointwise
  intro sc
  induction sc with
  | nil =>
    intro start m tr res tr' h
    simp only [deleteRangeLoop] at h
    split at h
    · simp at h
    · rename_i hc
      simp only [Option.some.injEq, Prod.mk.injEq] at h
      rw [← h.1]; exact stop start m hc
  | cons e rest ih =>
    intro start m tr res tr' h
    cases e with
    | none =>
      simp only [deleteRangeLoop] at h
      split at h
      · exact ih _ _ _ _ _ h
      · rename_i hc
        simp only [Option.some.injEq, Prod.mk.injEq] at h
        rw [← h.1]; exact stop start m hc
    | some L =>
      simp only [deleteRangeLoop] at h
      split at h
      · rename_i hc
        obtain ⟨hl1, hl2⟩ := locate_spec L start
        simp only [fwdCond] at hc
        have fin : ∀ aE : Bytes, (aE = (locate L start).2 ∧ aE ≠ [] ∧ (end_ = [] ∨ aE < end_)) ∨
              (aE = end_ ∧ ¬ ((locate L start).2 ≠ [] ∧ (end_ = [] ∨ (locate L start).2 < end_))) →
            (if aE = [] then some (regionDeleteRange m (locate L start) start aE, tr ++ [(start, aE, 0)])
              else deleteRangeLoop end_ rest aE (regionDeleteRange m (locate L start) start aE) (tr ++ [(start, aE, 0)]))
              = some (res, tr') → res = m.eraseRange start (toBound end_) := by
          intro aE hA h
          split at h
          · rename_i he
            simp only [Option.some.injEq, Prod.mk.injEq] at h
            rw [← h.1]
            unfold regionDeleteRange OMap.eraseRange
            apply filterKeys_congr
            intro k
            range_pointwise
          · rename_i he
            have := ih _ _ _ _ _ h
            rw [this]
            unfold regionDeleteRange OMap.eraseRange
            rw [OMap.filterKeys_filterKeys]
            apply filterKeys_congr
            intro k
            range_pointwise
        by_cases hA : (locate L start).2 ≠ [] ∧ (end_ = [] ∨ (locate L start).2 < end_)
        · simp only [if_pos hA] at h
          exact fin _ (Or.inl ⟨rfl, hA.1, hA.2⟩) h
        · simp only [if_neg hA] at h
          exact fin _ (Or.inr ⟨rfl, hA⟩) h
      · rename_i hc
        simp only [Option.some.injEq, Prod.mk.injEq] at h
        rw [← h.1]; exact stop start m hc

/-! ## checksum -/

theorem Checksum.add_assoc (a b c : Checksum) : (a.add b).add c = a.add (b.add c) := by
  simp [Checksum.add, UInt64.xor_assoc, Nat.add_assoc]

theorem Checksum.add_zero (a : Checksum) : a.add Checksum.zero = a := by
  cases a; simp [Checksum.add, Checksum.zero]

theorem Checksum.zero_add (a : Checksum) : Checksum.zero.add a = a := by
  cases a; simp [Checksum.add, Checksum.zero]

theorem foldl_cs (l : List KV) (init : Checksum) :
    l.foldl (fun c p => c.add (csOne p)) init = init.add (csOf l) := by
  unfold csOf
  induction l generalizing init with
  | nil => simp [Checksum.add_zero]
  | cons p t ih =>
    simp only [List.foldl_cons]
    rw [ih, ih (Checksum.zero.add (csOne p)), Checksum.zero_add, Checksum.add_assoc]

theorem csOf_append (A B : List KV) : csOf (A ++ B) = (csOf A).add (csOf B) := by
  unfold csOf
  rw [List.foldl_append, foldl_cs]
  rfl

theorem checksumLoop_spec (m : Store) (hs : m.Sorted) (end_ : Bytes) :
    ∀ (sc : SScript) (start : Bytes) (acc : Checksum) (tr : STrace) (res : Checksum) (tr' : STrace),
      checksumLoop m end_ sc start acc tr = some (res, tr') →
      res = acc.add (csOf (m.range start (toBound end_))) := by
  have stop : ∀ (start : Bytes) (acc : Checksum), ¬ (fwdCond start end_ = true) →
      acc = acc.add (csOf (m.range start (toBound end_))) := by
    intro start acc h
    have : fwdCond start end_ = false := by
      cases hc : fwdCond start end_
      · rfl
      · exact absurd hc h
    rw [range_nil_of_not_fwd m start end_ this]
    simp [csOf, Checksum.add_zero]
  intro sc
  induction sc with
  | nil =>
    intro start acc tr res tr' h
    simp only [checksumLoop] at h
    split at h
    · simp at h
    · rename_i hc
      simp only [Option.some.injEq, Prod.mk.injEq] at h
      rw [← h.1]; exact stop start acc hc
  | cons e rest ih =>
    intro start acc tr res tr' h
    cases e with
    | none =>
      simp only [checksumLoop] at h
      split at h
      · exact ih _ _ _ _ _ h
      · rename_i hc
        simp only [Option.some.injEq, Prod.mk.injEq] at h
        rw [← h.1]; exact stop start acc hc
    | some L =>
      simp only [checksumLoop] at h
      split at h
      · rename_i hc
        obtain ⟨hl1, hl2⟩ := locate_spec L start
        have hstep := range_step m hs start (toBound end_) (locate L start) hl1 hl2
        split at h
        · rename_i he
          simp only [Option.some.injEq, Prod.mk.injEq] at h
          rw [← h.1]
          simp only [he, if_true, List.append_nil] at hstep
          simp only [regionChecksum, hstep]
        · rename_i he
          have := ih _ _ _ _ _ h
          rw [this]
          simp only [he, if_false] at hstep
          rw [hstep, csOf_append, Checksum.add_assoc]
          rfl
      · rename_i hc
        simp only [Option.some.injEq, Prod.mk.injEq] at h
        rw [← h.1]; exact stop start acc hc

/-! ## single-key calls -/

theorem regionGet_eq (m : Store) (R : Region) (k : Bytes) :
    regionGet m R k = if inRegion R k then m.get k else none := by
  unfold regionGet restrict
  rw [OMap.get_filterKeys]

/-! ## batches: generic effect of `sendBatch` for every script -/

abbrev View := Store × List KV
def view (s : BState) : View := (s.store, s.pairs)
def keysOf (items : List Item) : List Bytes := items.map (·.1)

structure Eff (P : View → List Bytes → View → Prop) : Prop where
  refl : ∀ v, P v [] v
  trans : ∀ v A v1 B v2, P v A v1 → P v1 B v2 → P v (A ++ B) v2
  congr : ∀ v A B v', (∀ k, k ∈ A ↔ k ∈ B) → P v A v' → P v B v'

structure MkSpec (mk : Layout → List Item → List (Region × List Item)) : Prop where
  sound : ∀ G items R b, (R, b) ∈ mk G items → ∀ it ∈ b, it ∈ items ∧ inRegion R it.1 = true
  complete : ∀ G items it, it ∈ items → ∃ R b, (R, b) ∈ mk G items ∧ it ∈ b

theorem runBatches_spec {P : View → List Bytes → View → Prop} (hP : Eff P) (V : Item → Prop)
    (recur : BState → List Item → BScript → Option (BState × BScript))
    (exec : BState → Region → List Item → BState)
    (hexec : ∀ s R b, (∀ it ∈ b, V it ∧ inRegion R it.1 = true) → P (view s) (keysOf b) (view (exec s R b)))
    (hrec : ∀ s b sc s' sc', recur s b sc = some (s', sc') → (∀ it ∈ b, V it) → P (view s) (keysOf b) (view s')) :
    ∀ (bs : List (Region × List Item)) (s : BState) (outs : List Bool) (sc : BScript) (s' : BState) (sc' : BScript),
      runBatches recur exec s bs outs sc = some (s', sc') →
      (∀ Rb ∈ bs, ∀ it ∈ Rb.2, V it ∧ inRegion Rb.1 it.1 = true) →
      P (view s) (bs.flatMap (fun Rb => keysOf Rb.2)) (view s') := by
  intro bs
  induction bs with
  | nil =>
    intro s outs sc s' sc' h _
    cases outs with
    | nil =>
      simp only [runBatches, Option.some.injEq, Prod.mk.injEq] at h
      rw [← h.1]; exact hP.refl _
    | cons o os => simp [runBatches] at h
  | cons Rb bs ih =>
    intro s outs sc s' sc' h hv
    obtain ⟨R, b⟩ := Rb
    have hvb := hv (R, b) (List.mem_cons_self ..)
    have hvt : ∀ Rb ∈ bs, ∀ it ∈ Rb.2, V it ∧ inRegion Rb.1 it.1 = true :=
      fun Rb hRb => hv Rb (List.mem_cons_of_mem _ hRb)
    simp only [List.flatMap_cons]
    cases outs with
    | nil => simp [runBatches] at h
    | cons o os =>
      cases o with
      | true =>
        simp only [runBatches] at h
        have h1 := hexec s R b hvb
        have h2 := ih _ _ _ _ _ h hvt
        exact hP.trans _ _ _ _ _ h1 h2
      | false =>
        simp only [runBatches] at h
        split at h
        · simp at h
        · rename_i s1 sc1 hr
          have h1 := hrec _ _ _ _ _ hr (fun it hit => (hvb it hit).1)
          have h2 := ih _ _ _ _ _ h hvt
          exact hP.trans _ _ _ _ _ h1 h2

theorem sendBatch_spec {P : View → List Bytes → View → Prop} (hP : Eff P) (V : Item → Prop)
    (mk : Layout → List Item → List (Region × List Item)) (prep : List Item → List Item)
    (exec : BState → Region → List Item → BState) (hmk : MkSpec mk)
    (hprepV : ∀ items, (∀ it ∈ items, V it) → ∀ it ∈ prep items, V it)
    (hprepK : ∀ items k, k ∈ keysOf (prep items) ↔ k ∈ keysOf items)
    (hexec : ∀ s R b, (∀ it ∈ b, V it ∧ inRegion R it.1 = true) → P (view s) (keysOf b) (view (exec s R b))) :
    ∀ (fuel : Nat) (s : BState) (items : List Item) (sc : BScript) (s' : BState) (sc' : BScript),
      sendBatch mk prep exec fuel s items sc = some (s', sc') → (∀ it ∈ prep items, V it) →
      P (view s) (keysOf items) (view s') := by
  intro fuel
  induction fuel with
  | zero => intro s items sc s' sc' h; simp [sendBatch] at h
  | succ fuel ih =>
    intro s items sc s' sc' h hV
    cases sc with
    | nil => simp [sendBatch] at h
    | cons e sc =>
      simp only [sendBatch] at h
      have hrec : ∀ s b sc s' sc', sendBatch mk prep exec fuel s b sc = some (s', sc') → (∀ it ∈ b, V it) →
          P (view s) (keysOf b) (view s') := fun s b sc s' sc' hh hb => ih s b sc s' sc' hh (hprepV b hb)
      have hv : ∀ Rb ∈ mk e.layout (prep items), ∀ it ∈ Rb.2, V it ∧ inRegion Rb.1 it.1 = true := by
        intro Rb hRb it hit
        obtain ⟨R, b⟩ := Rb
        have := hmk.sound _ _ _ _ hRb it hit
        exact ⟨hV it this.1, this.2⟩
      have := runBatches_spec hP V _ exec hexec hrec _ _ _ _ _ _ h hv
      refine hP.congr _ _ _ _ ?_ this
      intro k
      rw [← hprepK items k]
      simp only [keysOf, List.mem_flatMap, List.mem_map]
      constructor
      · rintro ⟨Rb, hRb, it, hit, rfl⟩
        obtain ⟨R, b⟩ := Rb
        exact ⟨it, (hmk.sound _ _ _ _ hRb it hit).1, rfl⟩
      · rintro ⟨it, hit, rfl⟩
        obtain ⟨R, b, hRb, hib⟩ := hmk.complete e.layout _ it hit
        exact ⟨(R, b), hRb, it, hib, rfl⟩

/-! ### the two batch builders partition the items and keep every item inside its batch's region -/

theorem keyBatches_flatten (limit : Nat) (items cur : List Item) :
    (keyBatches limit items cur).flatten = cur ++ items := by
  induction items generalizing cur with
  | nil =>
    simp only [keyBatches]
    split
    · rename_i h; simp [List.isEmpty_iff.mp h]
    · simp
  | cons it rest ih =>
    simp only [keyBatches]
    split
    · simp [ih]
    · simp [ih]

theorem putBatches_flatten (limit : Nat) (items cur : List Item) (size : Nat) :
    (putBatches limit items cur size).flatten = cur ++ items := by
  induction items generalizing cur size with
  | nil =>
    simp only [putBatches]
    split
    · rename_i h; simp [List.isEmpty_iff.mp h]
    · simp
  | cons it rest ih =>
    simp only [putBatches]
    split
    · simp [ih]
    · simp [ih]

theorem mk_spec_of_flatten (split : List Item → List (List Item)) (hflat : ∀ l, (split l).flatten = l) :
    MkSpec (fun G items => (groupItems G items).flatMap fun g => (split g.2).map fun b => (g.1, b)) := by
  constructor
  · intro G items R b h it hit
    simp only [groupItems, List.mem_flatMap, List.mem_map] at h
    obtain ⟨g, ⟨R', hR', rfl⟩, b', hb', heq⟩ := h
    simp only [Prod.mk.injEq] at heq
    obtain ⟨rfl, rfl⟩ := heq
    have : it ∈ (split (items.filter fun it => locate G it.1 == R')).flatten := List.mem_flatten.mpr ⟨_, hb', hit⟩
    rw [hflat] at this
    simp only [List.mem_filter, beq_iff_eq] at this
    refine ⟨this.1, ?_⟩
    rw [← this.2]; exact inRegion_locate G it.1
  · intro G items it hit
    have hR : locate G it.1 ∈ (items.map fun it => locate G it.1).eraseDups :=
      List.mem_eraseDups.mpr (List.mem_map.mpr ⟨it, hit, rfl⟩)
    have hin : it ∈ (split (items.filter fun it' => locate G it'.1 == locate G it.1)).flatten := by
      rw [hflat]; simp [List.mem_filter, hit]
    obtain ⟨b, hb, hib⟩ := List.mem_flatten.mp hin
    refine ⟨locate G it.1, b, ?_, hib⟩
    simp only [groupItems, List.mem_flatMap, List.mem_map]
    exact ⟨(locate G it.1, items.filter fun it' => locate G it'.1 == locate G it.1), ⟨_, hR, rfl⟩, b, hb, rfl⟩

theorem mkKeyBatches_spec : MkSpec mkKeyBatches :=
  mk_spec_of_flatten (fun l => keyBatches Gen.rawBatchPairCount l []) (fun l => by simp [keyBatches_flatten])

theorem mkPutBatches_spec : MkSpec mkPutBatches :=
  mk_spec_of_flatten (fun l => putBatches Gen.rawBatchPutSize l [] 0) (fun l => by simp [putBatches_flatten])

theorem keysOf_mapKey (keys : List Bytes) : keysOf (keys.map fun k => ((k, []) : Item)) = keys := by
  unfold keysOf
  induction keys with
  | nil => rfl
  | cons a t ih => simp only [List.map_cons, ih]

/-! ### folds of inserts (Go maps filled in request order) -/

abbrev ins (a : Store) (p : KV) : Store := a.insert p.1 p.2

theorem foldl_ins_notin (ps : List KV) (acc : Store) (k : Bytes) (h : k ∉ keysOf ps) :
    (ps.foldl ins acc).get k = acc.get k := by
  induction ps generalizing acc with
  | nil => rfl
  | cons p t ih =>
    simp only [keysOf, List.map_cons, List.mem_cons, not_or] at h
    simp only [List.foldl_cons]
    rw [ih _ (by simpa [keysOf] using h.2), OMap.get_insert]
    simp [h.1]

theorem foldl_ins_indep (ps : List KV) (a b : Store) (k : Bytes) (h : k ∈ keysOf ps) :
    (ps.foldl ins a).get k = (ps.foldl ins b).get k := by
  induction ps generalizing a b with
  | nil => simp [keysOf] at h
  | cons p t ih =>
    simp only [List.foldl_cons]
    by_cases ht : k ∈ keysOf t
    · exact ih _ _ ht
    · rw [foldl_ins_notin _ _ _ ht, foldl_ins_notin _ _ _ ht, OMap.get_insert, OMap.get_insert]
      have : k = p.1 := by
        simp only [keysOf, List.map_cons, List.mem_cons] at h
        rcases h with h | h
        · exact h
        · exact absurd (by simpa [keysOf] using h) ht
      simp [this]

theorem foldl_ins_mem (ps : List KV) (acc : Store) (k v : Bytes) (h : (ps.foldl ins acc).get k = some v) :
    (k, v) ∈ ps ∨ acc.get k = some v := by
  induction ps generalizing acc with
  | nil => exact Or.inr h
  | cons p t ih =>
    simp only [List.foldl_cons] at h
    rcases ih _ h with h1 | h1
    · exact Or.inl (List.mem_cons_of_mem _ h1)
    · rw [OMap.get_insert] at h1
      split at h1
      · rename_i hk
        simp only [Option.some.injEq] at h1
        left
        have : p = (k, v) := by rw [hk, ← h1]
        rw [this]; exact List.mem_cons_self ..
      · exact Or.inr h1

theorem foldl_ins_some (ps : List KV) (acc : Store) (k : Bytes) (h : k ∈ keysOf ps) :
    ∃ v, (ps.foldl ins acc).get k = some v := by
  induction ps generalizing acc with
  | nil => simp [keysOf] at h
  | cons p t ih =>
    simp only [List.foldl_cons]
    by_cases ht : k ∈ keysOf t
    · exact ih _ ht
    · rw [foldl_ins_notin _ _ _ ht, OMap.get_insert]
      have : k = p.1 := by
        simp only [keysOf, List.map_cons, List.mem_cons] at h
        rcases h with h | h
        · exact h
        · exact absurd (by simpa [keysOf] using h) ht
      exact ⟨p.2, by simp [this]⟩

theorem empty_get (k : Bytes) : (OMap.empty : Store).get k = none := rfl

/-- `(foldl insert m items).get k`: decided by the items alone when `k` occurs in them -/
theorem foldl_ins_split (ps : List KV) (m : Store) (k : Bytes) :
    (ps.foldl ins m).get k = if k ∈ keysOf ps then (ps.foldl ins OMap.empty).get k else m.get k := by
  by_cases h : k ∈ keysOf ps
  · simp only [h, if_true]; exact foldl_ins_indep _ _ _ _ h
  · simp only [h, if_false]; exact foldl_ins_notin _ _ _ h

/-! ### batch get -/

def PGet : View → List Bytes → View → Prop := fun v A v' =>
  v'.1 = v.1 ∧ ∀ k x, (k, x) ∈ v'.2 ↔ ((k, x) ∈ v.2 ∨ (k ∈ A ∧ v.1.get k = some x))

theorem PGet_eff : Eff PGet := by
  constructor
  · intro v; exact ⟨rfl, by simp⟩
  · intro v A v1 B v2 h1 h2
    refine ⟨h2.1.trans h1.1, ?_⟩
    intro k x
    rw [h2.2, h1.2, h1.1]
    simp only [List.mem_append]
    grind
  · intro v A B v' hAB h
    refine ⟨h.1, ?_⟩
    intro k x
    rw [h.2, hAB]

theorem mem_regionBatchGet (m : Store) (R : Region) (keys : List Bytes) (k x : Bytes) :
    (k, x) ∈ regionBatchGet m R keys ↔ k ∈ keys ∧ regionGet m R k = some x := by
  unfold regionBatchGet
  simp only [List.mem_filterMap, Option.map_eq_some_iff, Prod.mk.injEq]
  constructor
  · rintro ⟨a, ha, v, hv, rfl, rfl⟩; exact ⟨ha, hv⟩
  · rintro ⟨hk, hv⟩; exact ⟨k, hk, x, hv, rfl, rfl⟩

theorem execGet_eff (s : BState) (R : Region) (b : List Item)
    (h : ∀ it ∈ b, True ∧ inRegion R it.1 = true) : PGet (view s) (keysOf b) (view (execGet s R b)) := by
  refine ⟨rfl, ?_⟩
  intro k x
  simp only [view, execGet, List.mem_append, mem_regionBatchGet, regionGet_eq]
  constructor
  · rintro (h1 | ⟨hk, hv⟩)
    · exact Or.inl h1
    · right
      refine ⟨hk, ?_⟩
      obtain ⟨it, hit, rfl⟩ := List.mem_map.mp hk
      simpa [(h it hit).2] using hv
  · rintro (h1 | ⟨hk, hv⟩)
    · exact Or.inl h1
    · right
      refine ⟨hk, ?_⟩
      obtain ⟨it, hit, rfl⟩ := List.mem_map.mp hk
      simpa [(h it hit).2] using hv

theorem keyToValue_get (g : Bytes → Option Bytes) (ps : List KV) (hs : ∀ p ∈ ps, g p.1 = some p.2)
    (acc : Store) (k : Bytes) :
    (ps.foldl ins acc).get k = if k ∈ keysOf ps then g k else acc.get k := by
  induction ps generalizing acc with
  | nil => simp [keysOf]
  | cons p t ih =>
    simp only [List.foldl_cons]
    rw [ih (fun q hq => hs q (List.mem_cons_of_mem _ hq)), OMap.get_insert]
    have hp := hs p (List.mem_cons_self ..)
    by_cases ht : k ∈ keysOf t
    · have : k ∈ keysOf (p :: t) := by simp only [keysOf, List.map_cons, List.mem_cons]; right; simpa [keysOf] using ht
      simp [ht, this]
    · by_cases hk : k = p.1
      · subst hk
        have : p.1 ∈ keysOf (p :: t) := by simp [keysOf]
        simp [ht, this, hp]
      · have : k ∉ keysOf (p :: t) := by
          simp only [keysOf, List.map_cons, List.mem_cons, not_or]
          exact ⟨hk, by simpa [keysOf] using ht⟩
        simp [ht, this, hk]

/-! ### batch put -/

def PPut (w : Bytes → Option Bytes) : View → List Bytes → View → Prop := fun v A v' =>
  ∀ k, v'.1.get k = if k ∈ A then w k else v.1.get k

theorem PPut_eff (w : Bytes → Option Bytes) : Eff (PPut w) := by
  constructor
  · intro v k; simp
  · intro v A v1 B v2 h1 h2 k
    rw [h2 k, h1 k]
    simp only [List.mem_append]
    grind
  · intro v A B v' hAB h k
    rw [h k]; simp only [hAB]

theorem regionBatchPut_get (w : Bytes → Option Bytes) (R : Region) (b : List Item) (m : Store)
    (h : ∀ it ∈ b, w it.1 = some it.2 ∧ inRegion R it.1 = true) (k : Bytes) :
    (regionBatchPut m R b).get k = if k ∈ keysOf b then w k else m.get k := by
  unfold regionBatchPut
  induction b generalizing m with
  | nil => simp [keysOf]
  | cons it t ih =>
    simp only [List.foldl_cons]
    rw [ih _ (fun q hq => h q (List.mem_cons_of_mem _ hq))]
    have hit := h it (List.mem_cons_self ..)
    simp only [regionPut, hit.2, if_true, OMap.get_insert]
    by_cases ht : k ∈ keysOf t
    · have : k ∈ keysOf (it :: t) := by simp only [keysOf, List.map_cons, List.mem_cons]; right; simpa [keysOf] using ht
      simp [ht, this]
    · by_cases hk : k = it.1
      · subst hk
        have : it.1 ∈ keysOf (it :: t) := by simp [keysOf]
        simp [ht, this, hit.1]
      · have : k ∉ keysOf (it :: t) := by
          simp only [keysOf, List.map_cons, List.mem_cons, not_or]
          exact ⟨hk, by simpa [keysOf] using ht⟩
        simp [ht, this, hk]

theorem mem_lastWins (items : List Item) (it' : Item) :
    it' ∈ lastWins items ↔ ∃ it ∈ items, it'.1 = it.1 ∧ (items.foldl ins OMap.empty).get it.1 = some it'.2 := by
  unfold lastWins
  simp only [List.mem_filterMap, Option.map_eq_some_iff]
  constructor
  · rintro ⟨it, hit, v, hv, rfl⟩; exact ⟨it, hit, rfl, hv⟩
  · rintro ⟨it, hit, h1, h2⟩
    refine ⟨it, hit, it'.2, h2, ?_⟩
    rw [← h1]

theorem lastWins_keys (items : List Item) (k : Bytes) : k ∈ keysOf (lastWins items) ↔ k ∈ keysOf items := by
  simp only [keysOf, List.mem_map]
  constructor
  · rintro ⟨it', hit', rfl⟩
    obtain ⟨it, hit, h1, _⟩ := (mem_lastWins items it').mp hit'
    exact ⟨it, hit, h1.symm⟩
  · rintro ⟨it, hit, rfl⟩
    obtain ⟨v, hv⟩ := foldl_ins_some items OMap.empty it.1 (by simp only [keysOf, List.mem_map]; exact ⟨it, hit, rfl⟩)
    exact ⟨(it.1, v), (mem_lastWins items (it.1, v)).mpr ⟨it, hit, rfl, hv⟩, rfl⟩

theorem lastWins_valid (w : Bytes → Option Bytes) (b : List Item) (h : ∀ it ∈ b, w it.1 = some it.2) :
    ∀ it ∈ lastWins b, w it.1 = some it.2 := by
  intro it' hit'
  obtain ⟨it, hit, h1, h2⟩ := (mem_lastWins b it').mp hit'
  rcases foldl_ins_mem _ _ _ _ h2 with h3 | h3
  · rw [h1]; exact h _ h3
  · simp [empty_get] at h3

/-! ### batch delete -/

def PDel : View → List Bytes → View → Prop := fun v A v' =>
  ∀ k, v'.1.get k = if k ∈ A then none else v.1.get k

theorem PDel_eff : Eff PDel := by
  constructor
  · intro v k; simp
  · intro v A v1 B v2 h1 h2 k
    rw [h2 k, h1 k]
    simp only [List.mem_append]
    grind
  · intro v A B v' hAB h k
    rw [h k]; simp only [hAB]

theorem regionBatchDelete_get (R : Region) (keys : List Bytes) (m : Store)
    (h : ∀ k ∈ keys, inRegion R k = true) (k : Bytes) :
    (regionBatchDelete m R keys).get k = if k ∈ keys then none else m.get k := by
  unfold regionBatchDelete
  induction keys generalizing m with
  | nil => simp
  | cons a t ih =>
    simp only [List.foldl_cons]
    rw [ih _ (fun q hq => h q (List.mem_cons_of_mem _ hq))]
    simp only [regionDelete, h a (List.mem_cons_self ..), if_true, OMap.get_erase, List.mem_cons]
    by_cases ht : k ∈ t
    · simp [ht]
    · by_cases hk : k = a <;> simp [ht, hk]

/-! ## termination of the forward loops once the layout stays constant -/

theorem locate_snd_mem (L : Layout) (k : Bytes) (h : (locate L k).2 ≠ []) : (locate L k).2 ∈ L := by
  induction L with
  | nil => simp [locate] at h
  | cons s L ih =>
    simp only [locate] at h ⊢
    split
    · rename_i hs
      simp only [hs, if_true] at h
      exact List.mem_cons_of_mem _ (ih h)
    · rename_i hs
      simp only [hs, if_false] at h
      split
      · exact List.mem_cons_self ..
      · rename_i h2
        simp only [h2, if_false] at h
        exact List.mem_cons_of_mem _ (ih h)

/-- number of split points above `k`: the progress measure -/
def above (L : Layout) (k : Bytes) : Nat := (L.filter fun s => decide (k < s)).length

theorem above_lt (L : Layout) (k k' : Bytes) (hk : k < k') (hm : k' ∈ L) : above L k' < above L k := by
  unfold above
  induction L with
  | nil => simp at hm
  | cons s L ih =>
    have hmono : (L.filter fun s => decide (k' < s)).length ≤ (L.filter fun s => decide (k < s)).length := by
      clear ih hm
      induction L with
      | nil => simp
      | cons a t iht =>
        simp only [List.filter_cons]
        by_cases h1 : k' < a
        · have : k < a := by grind
          simp [h1, this]; exact iht
        · by_cases h2 : k < a <;> simp [h1, h2] <;> omega
    rcases List.mem_cons.mp hm with h | h
    · subst h
      have h1 : ¬ k' < k' := List.lt_irrefl k'
      simp only [List.filter_cons, h1, hk, decide_true, decide_false, if_true, List.length_cons]
      simp; omega
    · have := ih h
      simp only [List.filter_cons]
      by_cases h1 : k' < s
      · have : k < s := by grind
        simp [h1, this]; omega
      · by_cases h2 : k < s <;> simp [h1, h2] <;> omega

theorem scanLoop_const_terminates (m : Store) (f : KV → KV) (end_ : Bytes) (limit : Nat) (L : Layout) :
    ∀ (n : Nat) (start : Bytes) (acc : List KV) (tr : STrace), above L start < n →
      (scanLoop m f end_ limit (List.replicate n (some L)) start acc tr).isSome = true := by
  intro n
  induction n with
  | zero => intro start acc tr h; omega
  | succ n ih =>
    intro start acc tr h
    simp only [List.replicate_succ, scanLoop]
    split
    · split
      · rfl
      · rename_i he
        apply ih
        have hm := locate_snd_mem L start he
        have hlt : start < (locate L start).2 := by
          rcases (locate_spec L start).2 with h0 | h0
          · exact absurd h0 he
          · exact h0
        have := above_lt L start _ hlt hm
        omega
    · rfl

/-- Scan terminates for every layout sequence that eventually stays constant (with one served attempt per
    region of the final layout still to come): arbitrary layouts and region errors before that. -/
theorem scanLoop_eventually_const_terminates (m : Store) (f : KV → KV) (end_ : Bytes) (limit : Nat) (L : Layout)
    (n : Nat) (hn : L.length < n) :
    ∀ (pre : SScript) (start : Bytes) (acc : List KV) (tr : STrace),
      (scanLoop m f end_ limit (pre ++ List.replicate n (some L)) start acc tr).isSome = true := by
  intro pre
  induction pre with
  | nil =>
    intro start acc tr
    apply scanLoop_const_terminates
    have : above L start ≤ L.length := List.length_filter_le _ _
    omega
  | cons e pre ih =>
    intro start acc tr
    cases e with
    | none =>
      simp only [List.cons_append, scanLoop]
      split
      · exact ih _ _ _
      · rfl
    | some L' =>
      simp only [List.cons_append, scanLoop]
      split
      · split
        · rfl
        · exact ih _ _ _
      · rfl

theorem checksumLoop_const_terminates (m : Store) (end_ : Bytes) (L : Layout) :
    ∀ (n : Nat) (start : Bytes) (acc : Checksum) (tr : STrace), above L start < n →
      (checksumLoop m end_ (List.replicate n (some L)) start acc tr).isSome = true := by
  intro n
  induction n with
  | zero => intro start acc tr h; omega
  | succ n ih =>
    intro start acc tr h
    simp only [List.replicate_succ, checksumLoop]
    split
    · split
      · rfl
      · rename_i he
        apply ih
        have hm := locate_snd_mem L start he
        have hlt : start < (locate L start).2 := by
          rcases (locate_spec L start).2 with h0 | h0
          · exact absurd h0 he
          · exact h0
        have := above_lt L start _ hlt hm
        omega
    · rfl

theorem checksumLoop_eventually_const_terminates (m : Store) (end_ : Bytes) (L : Layout)
    (n : Nat) (hn : L.length < n) :
    ∀ (pre : SScript) (start : Bytes) (acc : Checksum) (tr : STrace),
      (checksumLoop m end_ (pre ++ List.replicate n (some L)) start acc tr).isSome = true := by
  intro pre
  induction pre with
  | nil =>
    intro start acc tr
    apply checksumLoop_const_terminates
    have : above L start ≤ L.length := List.length_filter_le _ _
    omega
  | cons e pre ih =>
    intro start acc tr
    cases e with
    | none =>
      simp only [List.cons_append, checksumLoop]
      split
      · exact ih _ _ _
      · rfl
    | some L' =>
      simp only [List.cons_append, checksumLoop]
      split
      · split
        · rfl
        · exact ih _ _ _
      · rfl

theorem deleteRangeLoop_stop (end_ : Bytes) (he : end_ ≠ []) (sc : SScript) (m : Store) (tr : STrace) :
    (deleteRangeLoop end_ sc end_ m tr).isSome = true := by
  have hc : fwdCond end_ end_ = false := by simp [fwdCond, he, List.lt_irrefl]
  cases sc with
  | nil => simp [deleteRangeLoop, hc]
  | cons e rest => cases e <;> simp [deleteRangeLoop, hc]

theorem deleteRangeLoop_const_terminates (end_ : Bytes) (L : Layout) :
    ∀ (n : Nat) (start : Bytes) (m : Store) (tr : STrace), above L start < n →
      (deleteRangeLoop end_ (List.replicate n (some L)) start m tr).isSome = true := by
  intro n
  induction n with
  | zero => intro start m tr h; omega
  | succ n ih =>
    intro start m tr h
    simp only [List.replicate_succ, deleteRangeLoop]
    split
    · by_cases hA : (locate L start).2 ≠ [] ∧ (end_ = [] ∨ (locate L start).2 < end_)
      · simp only [if_pos hA, if_neg hA.1]
        apply ih
        have hm := locate_snd_mem L start hA.1
        have hlt : start < (locate L start).2 := by
          rcases (locate_spec L start).2 with h0 | h0
          · exact absurd h0 hA.1
          · exact h0
        have := above_lt L start _ hlt hm
        omega
      · simp only [if_neg hA]
        split
        · rfl
        · rename_i he
          exact deleteRangeLoop_stop end_ he _ _ _
    · rfl

theorem deleteRangeLoop_eventually_const_terminates (end_ : Bytes) (L : Layout) (n : Nat) (hn : L.length < n) :
    ∀ (pre : SScript) (start : Bytes) (m : Store) (tr : STrace),
      (deleteRangeLoop end_ (pre ++ List.replicate n (some L)) start m tr).isSome = true := by
  intro pre
  induction pre with
  | nil =>
    intro start m tr
    apply deleteRangeLoop_const_terminates
    have : above L start ≤ L.length := List.length_filter_le _ _
    omega
  | cons e pre ih =>
    intro start m tr
    cases e with
    | none =>
      simp only [List.cons_append, deleteRangeLoop]
      split
      · exact ih _ _ _
      · rfl
    | some L' =>
      simp only [List.cons_append, deleteRangeLoop]
      split
      · generalize (if (locate L' start).2 ≠ [] ∧ (end_ = [] ∨ (locate L' start).2 < end_) then (locate L' start).2 else end_) = aE
        split
        · rfl
        · exact ih _ _ _
      · rfl

end CGV.RawKV
