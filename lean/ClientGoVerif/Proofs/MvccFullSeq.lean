/- the full store over request sequences: max_ts never goes back, so async-commit / one-phase commit timestamps lie above
   every read served earlier -/
import ClientGoVerif.Proofs.MvccFull
namespace CGV.MvccFull
open CGV CGV.Mvcc CGV.MvccProto CGV.MvccRpc

theorem settle_maxTS (f : FStore) (s : Store) : (f.settle s).maxTS = f.maxTS := by
  unfold FStore.settle; rfl

theorem fprewrite_maxTS (f : FStore) (r : PrewriteReq) (x : FPrewriteExtra) : (fprewrite f r x).1.maxTS = f.maxTS := by
  unfold fprewrite
  split
  · rfl
  · unfold fprewriteFresh
    simp only []
    repeat' split
    all_goals first | rfl | exact settle_maxTS _ _

theorem fcheckTxnStatus_maxTS (f : FStore) (p : Bytes) (T c cur : Nat) (rb rp fs : Bool) :
    f.maxTS ≤ (fcheckTxnStatus f p T c cur rb rp fs).1.maxTS := by
  unfold fcheckTxnStatus
  have h := Nat.le_trans (bump_ge f c) (bump_ge (f.bump c) cur)
  simp only []
  repeat' split
  all_goals first | exact h | (rw [settle_maxTS]; exact h)

theorem fcheckSecondaryLocks_maxTS (f : FStore) (ks : List Bytes) (T : Nat) :
    (fcheckSecondaryLocks f ks T).1.maxTS = f.maxTS := by
  unfold fcheckSecondaryLocks
  simp only []
  repeat' split
  all_goals exact settle_maxTS _ _

end CGV.MvccFull

namespace CGV.MvccFull
open CGV CGV.Mvcc CGV.MvccProto CGV.MvccRpc

/-- the store's max_ts never goes back -/
theorem frpcExec_maxTS_mono (f : FStore) (a b : Bytes) (w : List String) (f' : FStore) (out : String)
    (h : frpcExec f a b w = some (f', out)) : f.maxTS ≤ f'.maxTS := by
  unfold frpcExec at h
  split at h
  all_goals (try simp only [bind, Option.bind, pure] at h)
  all_goals (repeat' (first | (cases h; done) | (split at h) | (simp only [] at h)))
  all_goals (first | (injection h with h; injection h with h1 h2; subst h1) | skip)
  all_goals
    first
    | exact Nat.le_refl _
    | (rw [settle_maxTS]; exact Nat.le_refl _)
    | (rw [fprewrite_maxTS]; exact Nat.le_trans (bump_ge _ _) (bump_ge _ _))
    | exact fcheckTxnStatus_maxTS _ _ _ _ _ _ _ _
    | (rw [fcheckSecondaryLocks_maxTS]; exact Nat.le_refl _)
    | exact bump_ge _ _
    | (rw [settle_maxTS]; exact Nat.le_trans (bump_ge _ _) (bump_ge _ _))
    | skip
end CGV.MvccFull

namespace CGV.MvccFull
open CGV CGV.Mvcc CGV.MvccProto CGV.MvccRpc

/-- a point read served (or refused) at `ts` raises max_ts to at least `ts` -/
theorem frpcExec_get_covers (f : FStore) (a b : Bytes) (k tsS : String) (rest : List String) (ts : Nat) (f' : FStore)
    (out : String) (hts : tsS.toNat? = some ts) (hne : ts ≠ maxU64)
    (h : frpcExec f a b ("get" :: k :: tsS :: rest) = some (f', out)) : ts ≤ f'.maxTS := by
  unfold frpcExec at h
  simp only [bind, Option.bind, pure, hts] at h
  split at h
  · cases h
  · injection h with h; injection h with h1 _; subst h1
    exact bump_covers f ts hne

/-- a run of the serving step over any list of requests (each with the region bounds it was sent to) -/
def frun (f : FStore) : List (Bytes × Bytes × List String) → Option FStore
  | [] => some f
  | (a, b, w) :: rest => match frpcExec f a b w with
    | some (f', _) => frun f' rest
    | none => none

theorem frun_maxTS_mono (f : FStore) (ws : List (Bytes × Bytes × List String)) (f' : FStore)
    (h : frun f ws = some f') : f.maxTS ≤ f'.maxTS := by
  induction ws generalizing f with
  | nil => simp only [frun] at h; injection h with h; subst h; exact Nat.le_refl _
  | cons q rest ih =>
    obtain ⟨a, b, w⟩ := q
    simp only [frun] at h
    cases hs : frpcExec f a b w with
    | none => rw [hs] at h; cases h
    | some p =>
      obtain ⟨f1, out⟩ := p
      rw [hs] at h
      exact Nat.le_trans (frpcExec_maxTS_mono f a b w f1 out hs) (ih f1 h)

/-- ASYNC COMMIT / 1PC NEVER LAND UNDER AN EARLIER READ, whatever happens in between: a read at `ts`, then ANY sequence
    of requests, then a (non-retry) prewrite answered with a min_commit_ts or a one-phase commit ts — that timestamp is
    above `ts`.  This is the store doing for async commit what the timestamp oracle does for two-phase commit: it is
    the guard `T ∈ late → ts < C` of `Mvcc.served_read_is_snapshot`, discharged inside the store model. -/
theorem async_commit_above_every_earlier_read (f0 f1 f2 f3 : FStore) (a b : Bytes) (k tsS : String) (rest : List String)
    (ts : Nat) (out : String) (ws : List (Bytes × Bytes × List String)) (st fu : Nat) (r : PrewriteReq)
    (x : FPrewriteExtra) (resp : FPrewriteResp)
    (hts : tsS.toNat? = some ts) (hne : ts ≠ maxU64)
    (hread : frpcExec f0 a b ("get" :: k :: tsS :: rest) = some (f1, out))
    (hrun : frun f1 ws = some f2)
    (hfresh : ownCommitTS ((f2.bump st).bump fu) r = none)
    (hpw : fprewrite ((f2.bump st).bump fu) r x = (f3, resp)) :
    (resp.minCommitTS ≠ 0 → ts < resp.minCommitTS) ∧ (resp.onePCCommitTS ≠ 0 → ts < resp.onePCCommitTS) := by
  have h1 := frpcExec_get_covers f0 a b k tsS rest ts f1 out hts hne hread
  have h2 := frun_maxTS_mono f1 ws f2 hrun
  have h3 : f2.maxTS ≤ ((f2.bump st).bump fu).maxTS := Nat.le_trans (bump_ge _ _) (bump_ge _ _)
  have h4 := fprewrite_ts_above_reads _ f3 r x resp hfresh hpw
  constructor
  · intro hm; have := (h4.1 hm).1; omega
  · intro hm; have := (h4.2 hm).1; omega

end CGV.MvccFull
