/-
  Helper lemmas for C13: the inductive invariant of the oracle machine (Model/Oracle.lean).
-/
import ClientGoVerif.Model.Oracle
namespace CGV.Oracle

/-- per-thread part of the invariant -/
structure TInv (s : St) (t : Thread) : Prop where
  t1 : hasTs t.pc = true → t.startPd < t.ts ∧ t.ts ≤ s.pdLast
  t2 : t.startPd ≤ s.pdLast
  t2c : t.pc ≠ .idle → t.startClk < s.clock
  t3 : (t.pc = .gLoaded ∨ t.pc = .gCas) →
        ∃ tso ver, s.low = some (tso, ver) ∧ t.lTso ≤ tso ∧ t.lVer ≤ ver ∧ (t.lVer = ver → t.lTso = tso)
  t3c : t.pc = .gCas → t.lTso < t.ts
  t3d : isDone t.pc = true → ∃ tso ver, s.low = some (tso, ver) ∧ t.ts ≤ tso
  t4 : t.pc = .vGot → t.cur ≤ s.pdLast
  t4a : t.pc = .vAccept → t.rd ≤ s.pdLast
  t5 : (t.pc = .vGot ∨ (t.retrying = true ∧ (t.pc = .vCheck ∨ t.pc = .vJoin))) →
        ∀ f, s.flight = some f → t.startPd ≤ (s.thr f).startPd
  t6 : t.pc = .vWait → (s.thr t.fid).pc ≠ .idle ∧ (t.retrying = true → t.startPd ≤ (s.thr t.fid).startPd)
  t7 : t.pc = .vGot → t.retrying = true → t.startPd < t.cur
  t8 : t.pc = .vReject → t.startPd < t.rd
  t9 : (t.pc = .vCancelled ∨ t.pc = .gCancelled) → t.cancelled = true

structure Inv (s : St) : Prop where
  lowLe : ∀ tso ver, s.low = some (tso, ver) → tso ≤ s.pdLast
  flNI : ∀ f, s.flight = some f → (s.thr f).pc ≠ .idle
  thr : ∀ j, TInv s (s.thr j)
  rt : ∀ a b, isDone (s.thr a).pc = true → (s.thr b).pc ≠ .idle →
        (s.thr a).doneClk < (s.thr b).startClk → (s.thr a).ts ≤ (s.thr b).startPd

theorem inv_init (pd0 : Nat) : Inv (init pd0) := by
  constructor
  · intro tso ver h; simp [init] at h
  · intro f h; simp [init] at h
  · intro j; constructor <;> simp [init, hasTs, isDone]
  · intro a b h; simp [init, isDone] at h


/-- how the shared cell may change in one step: value and identity only grow, same identity = same value -/
def LowMono (l l' : Option (Nat × Nat)) : Prop :=
  ∀ tso ver, l = some (tso, ver) → ∃ tso' ver', l' = some (tso', ver') ∧ tso ≤ tso' ∧ ver ≤ ver' ∧ (ver = ver' → tso = tso')

theorem TInv.frame {s s' : St} {t : Thread} (h : TInv s t)
    (hf : ∀ f, s.flight = some f → (s.thr f).pc ≠ .idle)
    (hpd : s.pdLast ≤ s'.pdLast) (hclk : s.clock ≤ s'.clock) (hlow : LowMono s.low s'.low)
    (hfl : ∀ f, s'.flight = some f → (s.flight = some f ∨ t.startPd ≤ (s'.thr f).startPd))
    (hthr : ∀ k, (s.thr k).pc ≠ .idle → (s'.thr k).pc ≠ .idle ∧ (s'.thr k).startPd = (s.thr k).startPd) :
    TInv s' t := by
  obtain ⟨t1, t2, t2c, t3, t3c, t3d, t4, t4a, t5, t6, t7, t8, t9⟩ := h
  constructor
  · intro h; have := t1 h; omega
  · omega
  · intro h; have := t2c h; omega
  · intro h
    obtain ⟨tso, ver, h1, h2, h3, h4⟩ := t3 h
    obtain ⟨tso', ver', g1, g2, g3, g4⟩ := hlow tso ver h1
    refine ⟨tso', ver', g1, by omega, by omega, ?_⟩
    intro e; have : ver = ver' := by omega
    have := g4 this; have := h4 (by omega); omega
  · exact t3c
  · intro h
    obtain ⟨tso, ver, h1, h2⟩ := t3d h
    obtain ⟨tso', ver', g1, g2, g3, g4⟩ := hlow tso ver h1
    exact ⟨tso', ver', g1, by omega⟩
  · intro h; have := t4 h; omega
  · intro h; have := t4a h; omega
  · intro h f hf'
    rcases hfl f hf' with h1 | h1
    · have := t5 h f h1; have := (hthr f (hf f h1)).2; omega
    · exact h1
  · intro h
    obtain ⟨a, b⟩ := t6 h
    have := hthr t.fid a
    refine ⟨this.1, ?_⟩
    intro r; have := b r; omega
  · exact t7
  · exact t8
  · exact t9

theorem hasTs_of_isDone {p : PC} (h : isDone p = true) : hasTs p = true := by
  cases p <;> simp_all [isDone, hasTs]

/-- generic preservation: every thread satisfies its invariant in the new state, started threads keep their
    ghost start data, new threads record the current clock and PD maximum, newly returned calls the clock -/
theorem Inv.next {s s' : St} (h : Inv s)
    (hlowLe : ∀ tso ver, s'.low = some (tso, ver) → tso ≤ s'.pdLast)
    (hflNI : ∀ f, s'.flight = some f → (s'.thr f).pc ≠ .idle)
    (hthr : ∀ j, TInv s' (s'.thr j))
    (c1 : ∀ j, (s.thr j).pc ≠ .idle → (s'.thr j).startPd = (s.thr j).startPd ∧ (s'.thr j).startClk = (s.thr j).startClk)
    (c2 : ∀ j, (s.thr j).pc = .idle → (s'.thr j).pc ≠ .idle → (s'.thr j).startPd = s.pdLast ∧ (s'.thr j).startClk = s.clock)
    (c3 : ∀ j, isDone (s'.thr j).pc = true →
        (isDone (s.thr j).pc = true ∧ (s'.thr j).ts = (s.thr j).ts ∧ (s'.thr j).doneClk = (s.thr j).doneClk)
        ∨ ((s'.thr j).doneClk = s.clock ∧ (s.thr j).pc ≠ .idle)) : Inv s' := by
  refine ⟨hlowLe, hflNI, hthr, ?_⟩
  intro a b ha hb hab
  by_cases hbi : (s.thr b).pc = .idle
  · obtain ⟨e1, e2⟩ := c2 b hbi hb
    rcases c3 a ha with ⟨d1, d2, d3⟩ | ⟨d1, d2⟩
    · have := ((h.thr a).t1 (hasTs_of_isDone d1)).2; omega
    · omega
  · obtain ⟨e1, e2⟩ := c1 b hbi
    rcases c3 a ha with ⟨d1, d2, d3⟩ | ⟨d1, d2⟩
    · have := h.rt a b d1 hbi (by omega); omega
    · have := (h.thr b).t2c hbi; omega

theorem LowMono.refl (l : Option (Nat × Nat)) : LowMono l l := by
  intro tso ver h; exact ⟨tso, ver, h, Nat.le_refl _, Nat.le_refl _, fun _ => rfl⟩

/-- the common case: one thread moves, the flight slot is unchanged -/
theorem Inv.setStep {s : St} (h : Inv s) (i : Nat) (t' : Thread) (pd' : Nat) (low' : Option (Nat × Nat))
    (hpd : s.pdLast ≤ pd') (hlow : LowMono s.low low')
    (hlowLe : ∀ tso ver, low' = some (tso, ver) → tso ≤ pd')
    (c1 : (s.thr i).pc ≠ .idle → t'.pc ≠ .idle ∧ t'.startPd = (s.thr i).startPd ∧ t'.startClk = (s.thr i).startClk)
    (c2 : (s.thr i).pc = .idle → t'.pc ≠ .idle → t'.startPd = s.pdLast ∧ t'.startClk = s.clock)
    (c3 : isDone t'.pc = true →
        (isDone (s.thr i).pc = true ∧ t'.ts = (s.thr i).ts ∧ t'.doneClk = (s.thr i).doneClk)
        ∨ (t'.doneClk = s.clock ∧ (s.thr i).pc ≠ .idle))
    (ht : TInv { pdLast := pd', low := low', flight := s.flight,
                 thr := fun j => if j = i then t' else s.thr j, clock := s.clock + 1 } t') :
    Inv { pdLast := pd', low := low', flight := s.flight,
          thr := fun j => if j = i then t' else s.thr j, clock := s.clock + 1 } := by
  have keep : ∀ k, (s.thr k).pc ≠ .idle →
      (if k = i then t' else s.thr k).pc ≠ .idle ∧ (if k = i then t' else s.thr k).startPd = (s.thr k).startPd := by
    intro k hk
    by_cases hki : k = i
    · subst hki; simp; have := c1 hk; exact ⟨this.1, this.2.1⟩
    · simp [hki, hk]
  apply Inv.next h
  · exact hlowLe
  · intro f hf; exact (keep f (h.flNI f hf)).1
  · intro j
    by_cases hji : j = i
    · subst hji; simpa using ht
    · simp only [hji, if_false]
      apply TInv.frame (h.thr j) h.flNI
      · exact hpd
      · simp
      · exact hlow
      · intro f hf; exact Or.inl hf
      · exact keep
  · intro j hj
    by_cases hji : j = i
    · subst hji; simp; have := c1 hj; exact ⟨this.2.1, this.2.2⟩
    · simp [hji]
  · intro j hj hj'
    by_cases hji : j = i
    · subst hji; simp at hj' ⊢; exact c2 hj hj'
    · simp [hji] at hj'; exact absurd hj hj'
  · intro j hj
    by_cases hji : j = i
    · subst hji; simp at hj ⊢; exact c3 hj
    · simp [hji] at hj ⊢; exact Or.inl hj


theorem inv_tick {s : St} (h : Inv s) : Inv { s with clock := s.clock + 1 } := by
  apply Inv.next h
  · exact h.lowLe
  · exact h.flNI
  · intro j
    refine TInv.frame (h.thr j) h.flNI (Nat.le_refl _) ?_ (LowMono.refl _) ?_ ?_
    · simp
    · intro f hf; exact Or.inl hf
    · intro k hk; exact ⟨hk, rfl⟩
  · intro j hj; exact ⟨rfl, rfl⟩
  · intro j hj hj'; exact absurd hj hj'
  · intro j hj; exact Or.inl ⟨hj, rfl, rfl⟩

macro "tinv_auto" : tactic => `(tactic| (constructor <;> simp_all [hasTs, isDone] <;> first | omega | grind))
macro "tinv_auto'" : tactic => `(tactic| (constructor <;> simp [hasTs, isDone] <;> first | omega | grind))

theorem inv_start {s : St} (h : Inv s) (i : Nat) (t' : Thread) (hi : (s.thr i).pc = .idle)
    (hpc : t'.pc = .gCall ∨ t'.pc = .uRange ∨ (t'.pc = .vCheck ∧ t'.retrying = false))
    (h1 : t'.startClk = s.clock) (h2 : t'.startPd = s.pdLast) :
    Inv { s with thr := fun j => if j = i then t' else s.thr j, clock := s.clock + 1 } := by
  apply Inv.setStep h i _ s.pdLast s.low (Nat.le_refl _) (LowMono.refl _) h.lowLe
  · simp [hi]
  · intro _ _; exact ⟨h2, h1⟩
  · rcases hpc with hpc | hpc | ⟨hpc, _⟩ <;> simp [isDone, hpc]
  · rcases hpc with hpc | hpc | ⟨hpc, hr⟩ <;> tinv_auto

theorem inv_run_uRange {s : St} (h : Inv s) (i fresh : Nat) (hpc : (s.thr i).pc = .uRange) :
    Inv (step s (.run i fresh)) := by
  obtain ⟨t1, t2, t2c, t3, t3c, t3d, t4, t4a, t5, t6, t7, t8, t9⟩ := h.thr i
  simp only [step, step', runThread, hpc, St.set]
  split
  all_goals
    apply Inv.setStep h i _ s.pdLast s.low (Nat.le_refl _) (LowMono.refl _) h.lowLe
    · simp [hpc]
    · simp [hpc]
    · simp [isDone]
    · tinv_auto

theorem inv_run_gCall {s : St} (h : Inv s) (i fresh : Nat) (hpc : (s.thr i).pc = .gCall) :
    Inv (step s (.run i fresh)) := by
  obtain ⟨t1, t2, t2c, t3, t3c, t3d, t4, t4a, t5, t6, t7, t8, t9⟩ := h.thr i
  simp only [step, step', runThread, hpc, St.set]
  apply Inv.setStep h i _ s.pdLast s.low (Nat.le_refl _) (LowMono.refl _) h.lowLe
  · simp [hpc]
  · simp [hpc]
  · simp [isDone]
  · tinv_auto

theorem inv_run_gIssued {s : St} (h : Inv s) (i fresh : Nat) (hpc : (s.thr i).pc = .gIssued) :
    Inv (step s (.run i fresh)) := by
  obtain ⟨t1, t2, t2c, t3, t3c, t3d, t4, t4a, t5, t6, t7, t8, t9⟩ := h.thr i
  simp only [step, step', runThread, hpc, St.set]
  apply Inv.setStep h i _ s.pdLast s.low (Nat.le_refl _) (LowMono.refl _) h.lowLe
  · simp [hpc]
  · simp [hpc]
  · simp [isDone]
  · tinv_auto

theorem inv_run_gArrived {s : St} (h : Inv s) (i fresh : Nat) (hpc : (s.thr i).pc = .gArrived) :
    Inv (step s (.run i fresh)) := by
  obtain ⟨t1, t2, t2c, t3, t3c, t3d, t4, t4a, t5, t6, t7, t8, t9⟩ := h.thr i
  simp only [step, step', runThread, hpc, St.set]
  split
  all_goals
    apply Inv.setStep h i _ s.pdLast s.low (Nat.le_refl _) (LowMono.refl _) h.lowLe
    · simp [hpc]
    · simp [hpc]
    · simp [isDone]
    · tinv_auto

theorem inv_run_gStoreNew {s : St} (h : Inv s) (i fresh : Nat) (hpc : (s.thr i).pc = .gStoreNew) :
    Inv (step s (.run i fresh)) := by
  obtain ⟨t1, t2, t2c, t3, t3c, t3d, t4, t4a, t5, t6, t7, t8, t9⟩ := h.thr i
  simp only [step, step', runThread, hpc, St.set]
  split
  · rename_i hlow
    apply Inv.setStep h i _ s.pdLast (some ((s.thr i).ts, 0)) (Nat.le_refl _)
    · intro tso ver hl; simp [hlow] at hl
    · intro tso ver hl; simp at hl; have := t1 (by simp [hpc, hasTs]); omega
    · simp [hpc]
    · simp [hpc]
    · simp [isDone]
    · tinv_auto
  · apply Inv.setStep h i _ s.pdLast s.low (Nat.le_refl _) (LowMono.refl _) h.lowLe
    · simp [hpc]
    · simp [hpc]
    · simp [isDone]
    · tinv_auto

theorem inv_run_gLoop {s : St} (h : Inv s) (i fresh : Nat) (hpc : (s.thr i).pc = .gLoop) :
    Inv (step s (.run i fresh)) := by
  obtain ⟨t1, t2, t2c, t3, t3c, t3d, t4, t4a, t5, t6, t7, t8, t9⟩ := h.thr i
  simp only [step, step', runThread, hpc, St.set]
  split
  · rename_i tso ver hlow
    apply Inv.setStep h i _ s.pdLast s.low (Nat.le_refl _) (LowMono.refl _) h.lowLe
    · simp [hpc]
    · simp [hpc]
    · simp [isDone]
    · tinv_auto
  · exact inv_tick h

theorem inv_run_gLoaded {s : St} (h : Inv s) (i fresh : Nat) (hpc : (s.thr i).pc = .gLoaded) :
    Inv (step s (.run i fresh)) := by
  obtain ⟨t1, t2, t2c, t3, t3c, t3d, t4, t4a, t5, t6, t7, t8, t9⟩ := h.thr i
  simp only [step, step', runThread, hpc, St.set]
  obtain ⟨tso, ver, e1, e2, e3, e4⟩ := t3 (Or.inl hpc)
  split
  · apply Inv.setStep h i _ s.pdLast s.low (Nat.le_refl _) (LowMono.refl _) h.lowLe
    · simp [hpc]
    · simp [hpc]
    · simp [isDone, hpc]
    · tinv_auto
  · apply Inv.setStep h i _ s.pdLast s.low (Nat.le_refl _) (LowMono.refl _) h.lowLe
    · simp [hpc]
    · simp [hpc]
    · simp [isDone]
    · tinv_auto

theorem inv_run_gCas {s : St} (h : Inv s) (i fresh : Nat) (hpc : (s.thr i).pc = .gCas) :
    Inv (step s (.run i fresh)) := by
  obtain ⟨t1, t2, t2c, t3, t3c, t3d, t4, t4a, t5, t6, t7, t8, t9⟩ := h.thr i
  simp only [step, step', runThread, hpc, St.set]
  obtain ⟨tso, ver, e1, e2, e3, e4⟩ := t3 (Or.inr hpc)
  have := t3c hpc
  have := t1 (by simp [hpc, hasTs])
  split
  · rename_i tso' ver' hlow
    split
    · rename_i hv
      apply Inv.setStep h i _ s.pdLast (some ((s.thr i).ts, ver' + 1)) (Nat.le_refl _)
      · intro a b hl; simp [hlow] at hl e1
        refine ⟨_, _, rfl, ?_, ?_, ?_⟩ <;> omega
      · intro a b hl; simp at hl; omega
      · simp [hpc]
      · simp [hpc]
      · simp [isDone, hpc]
      · tinv_auto
    · apply Inv.setStep h i _ s.pdLast s.low (Nat.le_refl _) (LowMono.refl _) h.lowLe
      · simp [hpc]
      · simp [hpc]
      · simp [isDone]
      · tinv_auto
  · apply Inv.setStep h i _ s.pdLast s.low (Nat.le_refl _) (LowMono.refl _) h.lowLe
    · simp [hpc]
    · simp [hpc]
    · simp [isDone]
    · tinv_auto

theorem inv_run_vCheck {s : St} (h : Inv s) (i fresh : Nat) (hpc : (s.thr i).pc = .vCheck) :
    Inv (step s (.run i fresh)) := by
  obtain ⟨t1, t2, t2c, t3, t3c, t3d, t4, t4a, t5, t6, t7, t8, t9⟩ := h.thr i
  simp only [step, step', runThread, hpc, St.set]
  split
  · rename_i tso ver hlow
    have := h.lowLe tso ver hlow
    split
    all_goals
      apply Inv.setStep h i _ s.pdLast s.low (Nat.le_refl _) (LowMono.refl _) h.lowLe
      · simp [hpc]
      · simp [hpc]
      · simp [isDone]
      · tinv_auto
  · apply Inv.setStep h i _ s.pdLast s.low (Nat.le_refl _) (LowMono.refl _) h.lowLe
    · simp [hpc]
    · simp [hpc]
    · simp [isDone]
    · tinv_auto

theorem inv_run_vGot {s : St} (h : Inv s) (i fresh : Nat) (hpc : (s.thr i).pc = .vGot) :
    Inv (step s (.run i fresh)) := by
  obtain ⟨t1, t2, t2c, t3, t3c, t3d, t4, t4a, t5, t6, t7, t8, t9⟩ := h.thr i
  simp only [step, step', runThread, hpc, St.set]
  have := t4 hpc
  have t5 := t5 (Or.inl hpc)
  have t7 := t7 hpc
  clear t1 t3 t3c t3d t4a t6 t8 t4
  split
  · split
    all_goals
      apply Inv.setStep h i _ s.pdLast s.low (Nat.le_refl _) (LowMono.refl _) h.lowLe
      · simp [hpc]
      · simp [hpc]
      · simp [isDone]
      · tinv_auto
  · apply Inv.setStep h i _ s.pdLast s.low (Nat.le_refl _) (LowMono.refl _) h.lowLe
    · simp [hpc]
    · simp [hpc]
    · simp [isDone]
    · tinv_auto'


theorem inv_run_vJoin {s : St} (h : Inv s) (i fresh : Nat) (hpc : (s.thr i).pc = .vJoin) :
    Inv (step s (.run i fresh)) := by
  obtain ⟨t1, t2, t2c, t3, t3c, t3d, t4, t4a, t5, t6, t7, t8, t9⟩ := h.thr i
  simp only [step, step', runThread, hpc, St.set]
  split
  · rename_i f hf
    have := h.flNI f hf
    apply Inv.setStep h i _ s.pdLast s.low (Nat.le_refl _) (LowMono.refl _) h.lowLe
    · simp [hpc]
    · simp [hpc]
    · simp [isDone]
    · tinv_auto
  · rename_i hnone
    split
    · rename_i hfr
      obtain ⟨hfr, hne⟩ := hfr
      apply Inv.next h
      · exact h.lowLe
      · intro f hf; simp at hf; subst hf; simp [hne]
      · intro j
        by_cases hji : j = i
        · subst hji; simp; tinv_auto
        · by_cases hjf : j = fresh
          · subst hjf; simp [hji]; tinv_auto'
          · simp only [hji, hjf, if_false]
            refine TInv.frame (h.thr j) h.flNI (Nat.le_refl _) ?_ (LowMono.refl _) ?_ ?_
            · simp
            · intro f hf; simp at hf; subst hf; right; simp [hne]; exact (h.thr j).t2
            · intro k hk
              by_cases hki : k = i
              · subst hki; simp
              · have : k ≠ fresh := by intro e; subst e; exact hk hfr
                simp [hki, this, hk]
      · intro j hj
        by_cases hji : j = i
        · subst hji; simp
        · have : j ≠ fresh := by intro e; subst e; exact hj hfr
          simp [hji, this]
      · intro j hj hj'
        by_cases hji : j = i
        · subst hji; simp [hpc] at hj
        · by_cases hjf : j = fresh
          · subst hjf; simp [hji]
          · simp [hji, hjf] at hj'; exact absurd hj hj'
      · intro j hj
        by_cases hji : j = i
        · subst hji; simp [isDone] at hj
        · by_cases hjf : j = fresh
          · subst hjf; simp [hji, isDone] at hj
          · simp [hji, hjf] at hj ⊢; exact Or.inl hj
    · exact inv_tick h


theorem inv_run_gDone {s : St} (h : Inv s) (i fresh : Nat) (hpc : (s.thr i).pc = .gDone) :
    Inv (step s (.run i fresh)) := by
  obtain ⟨t1, t2, t2c, t3, t3c, t3d, t4, t4a, t5, t6, t7, t8, t9⟩ := h.thr i
  simp only [step, step', runThread, hpc]
  have t1 := t1 (by simp [hpc, hasTs])
  split
  · apply Inv.next h
    · exact h.lowLe
    · intro f hf; simp at hf
    · intro j
      by_cases hji : j = i
      · subst hji; simp; tinv_auto
      · by_cases hw : (s.thr j).pc = .vWait ∧ (s.thr j).fid = i
        · have u6 := (h.thr j).t6 hw.1
          have u2 := (h.thr j).t2
          have u2c := (h.thr j).t2c
          simp only [hji, hw, if_false]
          simp
          constructor <;> simp [hasTs, isDone] <;> first | omega | grind
        · simp only [hji, hw, if_false]
          refine TInv.frame (h.thr j) h.flNI (Nat.le_refl _) ?_ (LowMono.refl _) ?_ ?_
          · simp
          · intro f hf; simp at hf
          · intro k hk
            by_cases hki : k = i
            · subst hki; simp
            · simp only [hki, if_false]; split <;> simp [hk]
    · intro j hj
      by_cases hji : j = i
      · subst hji; simp
      · simp only [hji, if_false]; split <;> simp
    · intro j hj hj'
      by_cases hji : j = i
      · subst hji; simp [hpc] at hj
      · simp only [hji, if_false] at hj'
        split at hj'
        · rename_i hw; simp [hw.1] at hj
        · exact absurd hj hj'
    · intro j hj
      by_cases hji : j = i
      · subst hji; simp [hpc, isDone]
      · simp only [hji, if_false] at hj ⊢
        split at hj
        · simp [isDone] at hj
        · rename_i hw; simp [hw]; exact Or.inl hj
  · exact inv_tick h


theorem inv_step {s : St} (h : Inv s) (a : Act) : Inv (step s a) := by
  cases a with
  | startGet i =>
    simp only [step, step']
    split
    · rename_i hi
      exact inv_start h i _ hi (Or.inl rfl) rfl rfl
    · exact inv_tick h
  | startVal i rd =>
    simp only [step, step']
    split
    · rename_i hi
      exact inv_start h i _ hi (Or.inr (Or.inr ⟨rfl, rfl⟩)) rfl rfl
    · exact inv_tick h
  | pdIssue i inc =>
    simp only [step, step']
    split
    · rename_i hpc
      obtain ⟨t1, t2, t2c, t3, t3c, t3d, t4, t4a, t5, t6, t7, t8, t9⟩ := h.thr i
      simp only [St.set]
      apply Inv.setStep h i _ (s.pdLast + inc + 1) s.low (by omega) (LowMono.refl _)
      · intro tso ver hl; have := h.lowLe tso ver hl; omega
      · simp [hpc]
      · simp [hpc]
      · simp [isDone]
      · tinv_auto
    · exact inv_tick h
  | startUpd i =>
    simp only [step, step']
    split
    · rename_i hi
      exact inv_start h i _ hi (Or.inr (Or.inl rfl)) rfl rfl
    · exact inv_tick h
  | cancel i =>
    obtain ⟨t1, t2, t2c, t3, t3c, t3d, t4, t4a, t5, t6, t7, t8, t9⟩ := h.thr i
    simp only [step, step', St.set]
    apply Inv.setStep h i _ s.pdLast s.low (Nat.le_refl _) (LowMono.refl _) h.lowLe
    · simp
    · intro a b; exact absurd a b
    · intro hd; exact Or.inl ⟨hd, rfl, rfl⟩
    · tinv_auto
  | abort i =>
    obtain ⟨t1, t2, t2c, t3, t3c, t3d, t4, t4a, t5, t6, t7, t8, t9⟩ := h.thr i
    simp only [step, step']
    split
    · rename_i hc
      split
      all_goals first
        | exact inv_tick h
        | (rename_i hpc
           simp only [St.set]
           apply Inv.setStep h i _ s.pdLast s.low (Nat.le_refl _) (LowMono.refl _) h.lowLe
           · simp [hpc]
           · simp [hpc]
           · simp [isDone]
           · tinv_auto)
    · exact inv_tick h
  | run i fresh =>
    cases hpc : (s.thr i).pc with
    | idle => simp only [step, step', runThread, hpc]; exact inv_tick h
    | gCancelled => simp only [step, step', runThread, hpc]; exact inv_tick h
    | vCancelled => simp only [step, step', runThread, hpc]; exact inv_tick h
    | uFin => simp only [step, step', runThread, hpc]; exact inv_tick h
    | uRange => exact inv_run_uRange h i fresh hpc
    | gWait => simp only [step, step', runThread, hpc]; exact inv_tick h
    | gFin => simp only [step, step', runThread, hpc]; exact inv_tick h
    | vWait => simp only [step, step', runThread, hpc]; exact inv_tick h
    | vAccept => simp only [step, step', runThread, hpc]; exact inv_tick h
    | vReject => simp only [step, step', runThread, hpc]; exact inv_tick h
    | gCall => exact inv_run_gCall h i fresh hpc
    | gIssued => exact inv_run_gIssued h i fresh hpc
    | gArrived => exact inv_run_gArrived h i fresh hpc
    | gStoreNew => exact inv_run_gStoreNew h i fresh hpc
    | gLoop => exact inv_run_gLoop h i fresh hpc
    | gLoaded => exact inv_run_gLoaded h i fresh hpc
    | gCas => exact inv_run_gCas h i fresh hpc
    | gDone => exact inv_run_gDone h i fresh hpc
    | vCheck => exact inv_run_vCheck h i fresh hpc
    | vJoin => exact inv_run_vJoin h i fresh hpc
    | vGot => exact inv_run_vGot h i fresh hpc

theorem inv_run_from {s : St} (h : Inv s) (acts : List Act) : Inv (run s acts) := by
  induction acts generalizing s with
  | nil => exact h
  | cons a as ih => exact ih (inv_step h a)

theorem inv_run (pd0 : Nat) (acts : List Act) : Inv (run (init pd0) acts) :=
  inv_run_from (inv_init pd0) acts

theorem run_append (s : St) (a b : List Act) : run s (a ++ b) = run (run s a) b := by
  simp [run, List.foldl_append]

/-! ### monotonicity of the shared cell and of PD's maximum -/

theorem lowMono_step {s : St} (h : Inv s) (a : Act) : LowMono s.low (step s a).low := by
  cases a with
  | startGet i => simp only [step, step']; split <;> exact LowMono.refl _
  | startVal i rd => simp only [step, step']; split <;> exact LowMono.refl _
  | startUpd i => simp only [step, step']; split <;> exact LowMono.refl _
  | cancel i => simp only [step, step', St.set]; exact LowMono.refl _
  | abort i => simp only [step, step', St.set]; (repeat' split) <;> exact LowMono.refl _
  | pdIssue i inc => simp only [step, step']; split <;> exact LowMono.refl _
  | run i fresh =>
    obtain ⟨t1, t2, t2c, t3, t3c, t3d, t4, t4a, t5, t6, t7, t8, t9⟩ := h.thr i
    cases hpc : (s.thr i).pc <;> simp only [step, step', runThread, hpc, St.set] <;>
      (try exact LowMono.refl _) <;> (repeat' split) <;> (try exact LowMono.refl _)
    · rename_i hlow; intro tso ver hl; simp [hlow] at hl
    · rename_i tso' ver' hlow hv
      obtain ⟨tso, ver, e1, e2, e3, e4⟩ := t3 (Or.inr hpc)
      have := t3c hpc
      intro a b hl; simp [hlow] at hl e1
      refine ⟨_, _, rfl, ?_, ?_, ?_⟩ <;> omega

theorem LowMono.trans {a b c : Option (Nat × Nat)} (h1 : LowMono a b) (h2 : LowMono b c) : LowMono a c := by
  intro tso ver h
  obtain ⟨t', v', e, l1, l2, l3⟩ := h1 tso ver h
  obtain ⟨t'', v'', e', m1, m2, m3⟩ := h2 t' v' e
  refine ⟨t'', v'', e', by omega, by omega, ?_⟩
  intro hv
  have a1 : ver = v' := by omega
  have a2 : v' = v'' := by omega
  have := l3 a1; have := m3 a2; omega

theorem lowMono_run {s : St} (h : Inv s) (acts : List Act) : LowMono s.low (run s acts).low := by
  induction acts generalizing s with
  | nil => exact LowMono.refl _
  | cons a as ih => exact (lowMono_step h a).trans (ih (inv_step h a))

theorem optLe_of_lowMono {l l' : Option (Nat × Nat)} (h : LowMono l l') : optLe (l.map (·.1)) (l'.map (·.1)) := by
  cases l with
  | none => simp [optLe]
  | some p =>
    obtain ⟨tso, ver⟩ := p
    obtain ⟨t', v', e, l1, _, _⟩ := h tso ver rfl
    simp [e, optLe, l1]

theorem pdLast_step (s : St) (a : Act) : s.pdLast ≤ (step s a).pdLast := by
  cases a with
  | startGet i => simp only [step, step']; split <;> simp [St.set]
  | startVal i rd => simp only [step, step']; split <;> simp [St.set]
  | startUpd i => simp only [step, step']; split <;> simp [St.set]
  | cancel i => simp [step, step', St.set]
  | abort i => simp only [step, step', St.set]; (repeat' split) <;> simp
  | pdIssue i inc => simp only [step, step']; split <;> simp [St.set]; omega
  | run i fresh =>
    cases hpc : (s.thr i).pc <;> simp only [step, step', runThread, hpc, St.set] <;>
      (repeat' split) <;> simp

theorem pdLast_run (s : St) (acts : List Act) : s.pdLast ≤ (run s acts).pdLast := by
  induction acts generalizing s with
  | nil => exact Nat.le_refl _
  | cons a as ih => exact Nat.le_trans (pdLast_step s a) (ih (step s a))

/-- ghost data of a started call never changes; a returned call keeps its result -/
theorem started_stable_step (s : St) (a : Act) (j : Nat) (hj : (s.thr j).pc ≠ .idle) :
    ((step s a).thr j).pc ≠ .idle ∧ ((step s a).thr j).startPd = (s.thr j).startPd ∧
    ((step s a).thr j).startClk = (s.thr j).startClk ∧ ((step s a).thr j).rd = (s.thr j).rd := by
  cases a with
  | startGet i => simp only [step, step']; split <;> simp [St.set, hj] <;> split <;> simp_all
  | startVal i rd => simp only [step, step']; split <;> simp [St.set, hj] <;> split <;> simp_all
  | startUpd i => simp only [step, step']; split <;> simp [St.set, hj] <;> split <;> simp_all
  | cancel i => simp only [step, step', St.set]; by_cases hji : j = i <;> simp_all
  | abort i => simp only [step, step', St.set]; (repeat' split) <;> (by_cases hji : j = i <;> simp_all)
  | pdIssue i inc => simp only [step, step']; split <;> simp [St.set, hj] <;> split <;> simp_all
  | run i fresh =>
    cases hpc : (s.thr i).pc <;> simp only [step, step', runThread, hpc, St.set] <;>
      (repeat' split) <;> simp [hj] <;> grind

/-! ### int64 arithmetic without overflow -/

theorem toI64_small {u : Nat} (h : u < 2 ^ 63) : toI64 u = (u : Int) := by
  unfold toI64 two64 two63
  by_cases hc : u % 2 ^ 64 < 2 ^ 63 <;> simp only [hc, if_true, if_false] <;> omega

theorem wrapI64_id {v : Int} (h1 : -(2 ^ 63 : Int) ≤ v) (h2 : v < 2 ^ 63) : wrapI64 v = v := by
  unfold wrapI64 toI64 toU64 two64 two63
  by_cases hc : (v % ((2 ^ 64 : Nat) : Int)).toNat % 2 ^ 64 < 2 ^ 63 <;> simp only [hc, if_true, if_false] <;> omega

theorem extractPhysical_bound {ts : Nat} (h : ts < 2 ^ 64) :
    0 ≤ extractPhysical ts ∧ extractPhysical ts < 2 ^ 46 := by
  simp only [extractPhysical, shiftMul, Gen.physicalShiftBits]
  have : ts / 2 ^ 18 < 2 ^ 46 := by omega
  omega

theorem started_stable_run (s : St) (acts : List Act) (j : Nat) (hj : (s.thr j).pc ≠ .idle) :
    ((run s acts).thr j).pc ≠ .idle ∧ ((run s acts).thr j).startPd = (s.thr j).startPd ∧
    ((run s acts).thr j).startClk = (s.thr j).startClk ∧ ((run s acts).thr j).rd = (s.thr j).rd := by
  induction acts generalizing s with
  | nil => exact ⟨hj, rfl, rfl, rfl⟩
  | cons a as ih =>
    obtain ⟨h1, h2, h3, h4⟩ := started_stable_step s a j hj
    obtain ⟨g1, g2, g3, g4⟩ := ih (step s a) h1
    exact ⟨g1, by simp only [run, List.foldl_cons] at g2 ⊢; omega,
      by simp only [run, List.foldl_cons] at g3 ⊢; omega, by simp only [run, List.foldl_cons] at g4 ⊢; omega⟩

/-! ### cancellation -/

/-- only `cancel j` sets the cancelled flag of a started call j -/
theorem cancelled_stable_step (s : St) (a : Act) (j : Nat) (hj : (s.thr j).pc ≠ .idle)
    (hc : (s.thr j).cancelled = false) (ha : a ≠ .cancel j) : ((step s a).thr j).cancelled = false := by
  cases a with
  | startGet i => simp only [step, step']; split <;> simp [St.set, hc] <;> split <;> simp_all
  | startVal i rd => simp only [step, step']; split <;> simp [St.set, hc] <;> split <;> simp_all
  | startUpd i => simp only [step, step']; split <;> simp [St.set, hc] <;> split <;> simp_all
  | pdIssue i inc => simp only [step, step']; split <;> simp [St.set, hc] <;> split <;> simp_all
  | cancel i =>
    have : j ≠ i := by intro e; subst e; exact ha rfl
    simp [step, step', St.set, this, hc]
  | abort i => simp only [step, step', St.set]; (repeat' split) <;> (by_cases hji : j = i <;> simp_all)
  | run i fresh =>
    cases hpc : (s.thr i).pc <;> simp only [step, step', runThread, hpc, St.set] <;>
      (repeat' split) <;> simp [hc] <;> grind

theorem cancelled_stable_run (s : St) (acts : List Act) (j : Nat) (hj : (s.thr j).pc ≠ .idle)
    (hc : (s.thr j).cancelled = false) (ha : ∀ a ∈ acts, a ≠ Act.cancel j) :
    ((run s acts).thr j).cancelled = false := by
  induction acts generalizing s with
  | nil => exact hc
  | cons a as ih =>
    have h1 := (started_stable_step s a j hj).1
    have h2 := cancelled_stable_step s a j hj hc (ha a (by simp))
    have := ih (step s a) h1 h2 (fun b hb => ha b (by simp [hb]))
    simpa [run] using this

/-! ### commit-wait loop -/

theorem commitLoop_strict (w b : Nat) (script : List Nat) (n total ts r : Nat)
    (h : commitLoop w b script n total ts = .ok r) : r > w := by
  induction script generalizing n total ts with
  | nil =>
    unfold commitLoop at h
    split at h
    · cases h; assumption
    · split at h <;> simp at h
  | cons t rest ih =>
    unfold commitLoop at h
    split at h
    · cases h; assumption
    · split at h
      · simp at h
      · exact ih _ _ _ h

/-! ### commit paths -/

theorem commitLoopR_strict (w b : Nat) (script : List Nat) (n total ts r : Nat) (rest : List Nat)
    (h : commitLoopR w b script n total ts = (.ok r, rest)) : r > w := by
  induction script generalizing n total ts with
  | nil =>
    unfold commitLoopR at h
    split at h
    · cases h; assumption
    · split at h <;> simp at h
  | cons t tl ih =>
    unfold commitLoopR at h
    split at h
    · cases h; assumption
    · split at h
      · simp at h
      · exact ih _ _ _ h

theorem fetchCommitTS_strict (w ms : Nat) (script : List Nat) (r : Nat) (rest : List Nat)
    (h : fetchCommitTS w ms script = (.ok r, rest)) : r > w := by
  unfold fetchCommitTS at h
  split at h
  · simp at h
  · split at h
    · cases h; assumption
    · split at h
      · simp at h
      · split at h
        · simp at h
        · exact commitLoopR_strict _ _ _ _ _ _ _ _ h

theorem afterPrewrite_spec (mode : CMode) (beh : StoreBeh) (c ms minC : Nat) (rest : List Nat) (h : minC > c) :
    CommitWaitSpec mode c (afterPrewrite beh c ms minC rest) := by
  unfold afterPrewrite
  split
  · split
    · rename_i ts r heq
      exact ⟨fetchCommitTS_strict _ _ _ _ _ heq, fun _ => h⟩
    · trivial
  · exact ⟨h, fun _ => h⟩

theorem afterFetch_spec (mode : CMode) (hm : mode = .twoPC ∨ mode = .pipelined) (beh : StoreBeh) (c ms ts : Nat)
    (rest : List Nat) (h : ts > c) : CommitWaitSpec mode c (afterFetch beh c ms ts rest) := by
  have hn : ¬ (mode = .async ∨ mode = .onePC) := by rcases hm with rfl | rfl <;> simp
  unfold afterFetch
  split
  · split
    · rename_i ts2 r heq
      exact ⟨fetchCommitTS_strict _ _ _ _ _ heq, fun x => absurd x hn⟩
    · trivial
  · exact ⟨h, fun x => absurd x hn⟩

theorem commitTxn_spec (mode : CMode) (causal : Bool) (beh : StoreBeh) (startTS c ms : Nat) (script : List Nat) :
    CommitWaitSpec mode c (commitTxn mode causal beh startTS c ms script) := by
  have two : ∀ m : CMode, (m = .twoPC ∨ m = .pipelined) →
      CommitWaitSpec m c (match fetchCommitTS c ms script with
        | (.ok ts, rest) => afterFetch beh c ms ts rest
        | (e, _) => .err e) := by
    intro m hm
    split
    · rename_i ts rest heq
      exact afterFetch_spec _ hm _ _ _ _ _ (fetchCommitTS_strict _ _ _ _ _ heq)
    · trivial
  have one : ∀ m : CMode,
      CommitWaitSpec m c (if causal = false ∨ c > 0 then
        match fetchCommitTS c ms script with
        | (.ok ts, rest) => afterPrewrite beh c ms (max (startTS + 1) (ts + 1)) rest
        | (e, _) => .err e
      else afterPrewrite beh c ms (startTS + 1) script) := by
    intro m
    split
    · split
      · rename_i ts rest heq
        have := fetchCommitTS_strict _ _ _ _ _ heq
        exact afterPrewrite_spec _ _ _ _ _ _ (by omega)
      · trivial
    · exact afterPrewrite_spec _ _ _ _ _ _ (by omega)
  cases mode
  · exact two _ (Or.inl rfl)
  · exact one _
  · exact one _
  · exact two _ (Or.inr rfl)

/-! ### adaptive update interval -/

/-- every (state, interval) a check proposes lies within the bounds -/
def OkRes (conf : Int) (r : Option (AState × Int)) : Prop :=
  ∀ st n, r = some (st, n) → min minAllowed conf ≤ n ∧ n ≤ conf

theorem minAllowed_val : minAllowed = 500000000 := by
  simp [minAllowed, Gen.minAllowedAdaptiveUpdateTSInterval]
theorem shrinkPreserve_nonneg : 0 ≤ shrinkPreserve := by
  simp [shrinkPreserve, Gen.adaptiveUpdateTSIntervalShrinkingPreserve]

theorem checkUnadjustable_ok (conf : Int) : OkRes conf (checkUnadjustable conf) := by
  intro st n h; unfold checkUnadjustable at h
  split at h <;> simp at h
  obtain ⟨_, rfl⟩ := h; omega

theorem checkNormal_ok (conf cur : Int) (hok : intervalOk conf cur) : OkRes conf (checkNormal conf cur) := by
  intro st n h; unfold checkNormal at h; unfold intervalOk at hok
  split at h <;> simp at h
  obtain ⟨_, rfl⟩ := h; omega

theorem checkAdapting_ok (conf cur sinceShort required : Int) (hok : intervalOk conf cur) :
    OkRes conf (checkAdapting conf cur sinceShort required) := by
  intro st n h; unfold checkAdapting at h; unfold intervalOk at hok
  have := shrinkPreserve_nonneg
  split at h
  · simp at h; obtain ⟨_, rfl⟩ := h; omega
  · split at h <;> simp at h
    obtain ⟨_, rfl⟩ := h; omega

theorem checkRecovering_ok (conf cur sinceShort inc : Int) (hok : intervalOk conf cur) (hinc : 0 ≤ inc) :
    OkRes conf (checkRecovering conf cur sinceShort inc) := by
  intro st n h; unfold checkRecovering at h; unfold intervalOk at hok
  split at h
  · simp at h
  · simp at h; obtain ⟨_, rfl⟩ := h
    split <;> omega

theorem orElse_ok {conf : Int} {a : Option (AState × Int)} {b : Unit → Option (AState × Int)}
    (ha : OkRes conf a) (hb : OkRes conf (b ())) : OkRes conf (a.orElse b) := by
  cases a with
  | none => simpa [Option.orElse] using hb
  | some x => simpa [Option.orElse] using ha

theorem finishState_ok (conf : Int) (r : AState × Int) (h : min minAllowed conf ≤ r.2 ∧ r.2 ≤ conf) :
    min minAllowed conf ≤ (finishState conf r).2 ∧ (finishState conf r).2 ≤ conf := by
  obtain ⟨st, n⟩ := r
  cases st <;> simp only [finishState] <;> try exact h
  split
  · rename_i r' hr
    obtain ⟨st', n'⟩ := r'
    have := checkNormal_ok conf n (by unfold intervalOk; exact h) st' n' hr
    exact this
  · exact h

theorem nextUpdateInterval_ok (prev : AState) (conf cur sinceShort inc required : Int)
    (hok : intervalOk conf cur) (hinc : 0 ≤ inc) :
    intervalOk conf (nextUpdateInterval prev conf cur sinceShort inc required).2 := by
  have hU := checkUnadjustable_ok conf
  have hA := checkAdapting_ok conf cur sinceShort required hok
  have hN := checkNormal_ok conf cur hok
  have hR := checkRecovering_ok conf cur sinceShort inc hok hinc
  unfold nextUpdateInterval
  have key : ∀ first : Option (AState × Int), OkRes conf first →
      intervalOk conf (match first with | some r => finishState conf r | none => (prev, cur)).2 := by
    intro first hf
    cases first with
    | none => exact hok
    | some r => exact finishState_ok conf r (hf r.1 r.2 rfl)
  apply key
  split
  · exact orElse_ok hU hA
  · exact orElse_ok hU (orElse_ok hA (orElse_ok hN hR))

end CGV.Oracle
