/- CheckSecondaryLocks of the full store, characterised: what an async-commit recovery is told, for every key list.
   `secStep` is the fold body of `fcheckSecondaryLocks`; the three lemmas below say what the scan answers when every key
   is locked, and when the first key that is not locked has no record / a commit record / a rollback record. -/
import ClientGoVerif.Proofs.MvccFullSeq
namespace CGV.MvccFull
open CGV CGV.Mvcc CGV.MvccProto CGV.MvccRpc

/-- the key carries a prewrite (non-pessimistic) lock of `T` -/
def PrewriteLocked (f : FStore) (T : Nat) (k : Bytes) : Prop :=
  ∃ l, (getEntry f.base.kv k).lock = some l ∧ l.startTS = T ∧ l.op ≠ .pessimisticLock

/-- a decidable form of `PrewriteLocked` -/
theorem prewriteLocked_iff (f : FStore) (T : Nat) (k : Bytes) :
    PrewriteLocked f T k ↔ ((getEntry f.base.kv k).lock.any fun l => l.startTS == T && l.op != .pessimisticLock) = true := by
  unfold PrewriteLocked
  cases hl : (getEntry f.base.kv k).lock with
  | none => simp
  | some l =>
    constructor
    · rintro ⟨l', h', hT, hop⟩
      cases h'
      cases ho : l.op <;> simp_all
    · intro h
      simp only [Option.any_some, Bool.and_eq_true, beq_iff_eq, bne_iff_ne, ne_eq] at h
      exact ⟨l, rfl, h.1, h.2⟩

/-- what the scan reports for a locked key -/
def secLockOf (f : FStore) (T : Nat) (k : Bytes) (l : Lock) : SecLock :=
  { key := k, minCommitTS := (match asyncOf f k T with | some a => a.minCommitTS | none => l.minCommitTS),
    useAsync := (asyncOf f k T).isSome }

/-- the fold body of `fcheckSecondaryLocks` -/
def secStep (f : FStore) (T : Nat) (acc : List Act × List SecLock × Option Nat) (k : Bytes) : List Act × List SecLock × Option Nat :=
  let (acts, locks, missing) := acc
  match missing with
  | some _ => acc
  | none =>
    let e := getEntry f.base.kv k
    match e.lock.filter (·.startTS == T) with
    | some l =>
      if l.op == .pessimisticLock then
        (acts ++ rollbackLock k T, locks, some 0)
      else
        let mc := match asyncOf f k T with | some a => a.minCommitTS | none => l.minCommitTS
        (acts, locks ++ [{ key := k, minCommitTS := mc, useAsync := (asyncOf f k T).isSome }], none)
    | none =>
      match txnCommitInfo e.writes T with
      | some c => if c.vt != .rollback then (acts, locks, some c.commitTS) else (acts, locks, some 0)
      | none => (acts ++ [rollbackMarker k T], locks, some 0)

theorem fcheckSecondaryLocks_eq (f : FStore) (keys : List Bytes) (T : Nat) :
    fcheckSecondaryLocks f keys T =
      (let go := keys.foldl (secStep f T) ([], [], none)
       let f' := f.settle { f.base with kv := applyBatch f.base.kv go.1 }
       match go.2.2 with
       | some c => (f', { locks := [], commitTS := c })
       | none => (f', { locks := go.2.1 })) := by
  unfold fcheckSecondaryLocks
  have : (fun (acc : List Act × List SecLock × Option Nat) k => secStep f T acc k) = secStep f T := rfl
  simp only []
  rfl

/-- once a key was found missing the scan stops changing -/
theorem secFold_some (f : FStore) (T : Nat) (keys : List Bytes) (acts : List Act) (locks : List SecLock) (c : Nat) :
    keys.foldl (secStep f T) (acts, locks, some c) = (acts, locks, some c) := by
  induction keys with
  | nil => rfl
  | cons k ks ih => simp only [List.foldl_cons, secStep]; exact ih

/-- over keys that all carry the transaction's prewrite lock the scan collects one entry per key and stays undecided -/
theorem secFold_locked (f : FStore) (T : Nat) (keys : List Bytes) (acts : List Act) (locks : List SecLock)
    (h : ∀ k ∈ keys, PrewriteLocked f T k) :
    ∃ more : List SecLock, keys.foldl (secStep f T) (acts, locks, none) = (acts, locks ++ more, none) ∧
      more.map (·.key) = keys := by
  induction keys generalizing locks with
  | nil => exact ⟨[], by simp, rfl⟩
  | cons k ks ih =>
    obtain ⟨l, hl, hT, hop⟩ := h k (List.mem_cons_self ..)
    have hf : (getEntry f.base.kv k).lock.filter (·.startTS == T) = some l := by
      rw [hl]; simp [Option.filter, hT]
    have hop' : (l.op == Op.pessimisticLock) = false := by
      cases ho : l.op <;> simp_all
    have hstep : secStep f T (acts, locks, none) k = (acts, locks ++ [secLockOf f T k l], none) := by
      simp only [secStep, hf, hop', secLockOf]
      rfl
    obtain ⟨more, hm, hk⟩ := ih (locks ++ [secLockOf f T k l]) (fun k' hk' => h k' (List.mem_cons_of_mem _ hk'))
    refine ⟨secLockOf f T k l :: more, ?_, ?_⟩
    · rw [List.foldl_cons, hstep, hm]; simp
    · simp [hk, secLockOf]

/-- ALL secondaries locked: the answer lists every key with its min_commit_ts, no commit ts, and no key is touched —
    the resolver has nothing but "commit at the largest min_commit_ts" to conclude (monitor rule 4) -/
theorem sec_all_locked (f : FStore) (keys : List Bytes) (T : Nat) (h : ∀ k ∈ keys, PrewriteLocked f T k) :
    (fcheckSecondaryLocks f keys T).2.commitTS = 0 ∧
      (fcheckSecondaryLocks f keys T).2.locks.map (·.key) = keys ∧
      (fcheckSecondaryLocks f keys T).1 = f.settle { f.base with kv := applyBatch f.base.kv [] } := by
  obtain ⟨more, hm, hk⟩ := secFold_locked f T keys [] [] h
  have hm' : keys.foldl (secStep f T) ([], [], none) = ([], more, none) := by simpa using hm
  rw [fcheckSecondaryLocks_eq, hm']
  exact ⟨rfl, hk, rfl⟩

/-- a key without lock and without record of the transaction after a locked prefix: the scan writes the rollback marker
    there and answers "no locks, commit ts 0" — the resolver rolls the transaction back -/
theorem sec_first_missing (f : FStore) (pre post : List Bytes) (k : Bytes) (T : Nat)
    (hpre : ∀ k' ∈ pre, PrewriteLocked f T k')
    (hl : (getEntry f.base.kv k).lock.filter (·.startTS == T) = none)
    (hr : txnCommitInfo (getEntry f.base.kv k).writes T = none) :
    (fcheckSecondaryLocks f (pre ++ k :: post) T).2.locks = [] ∧
      (fcheckSecondaryLocks f (pre ++ k :: post) T).2.commitTS = 0 ∧
      (fcheckSecondaryLocks f (pre ++ k :: post) T).1 =
        f.settle { f.base with kv := applyBatch f.base.kv [rollbackMarker k T] } := by
  obtain ⟨more, hm, _⟩ := secFold_locked f T pre [] [] hpre
  have hstep : secStep f T ([], more, none) k = ([rollbackMarker k T], more, some 0) := by
    simp only [secStep, hl, hr, List.nil_append]
  have hall : (pre ++ k :: post).foldl (secStep f T) ([], [], none) = ([rollbackMarker k T], more, some 0) := by
    rw [List.foldl_append, List.foldl_cons, hm, List.nil_append, hstep, secFold_some]
  rw [fcheckSecondaryLocks_eq, hall]
  exact ⟨rfl, rfl, rfl⟩

/-- a key already committed after a locked prefix: the scan answers that commit ts (and touches nothing) -/
theorem sec_first_committed (f : FStore) (pre post : List Bytes) (k : Bytes) (T : Nat) (c : Write)
    (hpre : ∀ k' ∈ pre, PrewriteLocked f T k')
    (hl : (getEntry f.base.kv k).lock.filter (·.startTS == T) = none)
    (hr : txnCommitInfo (getEntry f.base.kv k).writes T = some c) (hv : c.vt ≠ .rollback) :
    (fcheckSecondaryLocks f (pre ++ k :: post) T).2.locks = [] ∧
      (fcheckSecondaryLocks f (pre ++ k :: post) T).2.commitTS = c.commitTS := by
  obtain ⟨more, hm, _⟩ := secFold_locked f T pre [] [] hpre
  have hv' : (c.vt != VT.rollback) = true := by cases hc : c.vt <;> simp_all
  have hstep : secStep f T ([], more, none) k = ([], more, some c.commitTS) := by
    simp only [secStep, hl, hr, hv', if_true]
  have hall : (pre ++ k :: post).foldl (secStep f T) ([], [], none) = ([], more, some c.commitTS) := by
    rw [List.foldl_append, List.foldl_cons, hm, List.nil_append, hstep, secFold_some]
  rw [fcheckSecondaryLocks_eq, hall]
  exact ⟨rfl, rfl⟩

/-- a key already rolled back after a locked prefix: "no locks, commit ts 0" -/
theorem sec_first_rolled_back (f : FStore) (pre post : List Bytes) (k : Bytes) (T : Nat) (c : Write)
    (hpre : ∀ k' ∈ pre, PrewriteLocked f T k')
    (hl : (getEntry f.base.kv k).lock.filter (·.startTS == T) = none)
    (hr : txnCommitInfo (getEntry f.base.kv k).writes T = some c) (hv : c.vt = .rollback) :
    (fcheckSecondaryLocks f (pre ++ k :: post) T).2.locks = [] ∧
      (fcheckSecondaryLocks f (pre ++ k :: post) T).2.commitTS = 0 := by
  obtain ⟨more, hm, _⟩ := secFold_locked f T pre [] [] hpre
  have hstep : secStep f T ([], more, none) k = ([], more, some 0) := by
    simp only [secStep, hl, hr, hv]
    rfl
  have hall : (pre ++ k :: post).foldl (secStep f T) ([], [], none) = ([], more, some 0) := by
    rw [List.foldl_append, List.foldl_cons, hm, List.nil_append, hstep, secFold_some]
  rw [fcheckSecondaryLocks_eq, hall]
  exact ⟨rfl, rfl⟩

end CGV.MvccFull
