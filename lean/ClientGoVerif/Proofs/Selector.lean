/-
  Helper lemmas for the replica-selector model (Model/Selector.lean).
-/
import ClientGoVerif.Model.Selector
namespace CGV.Selector

/-- a replica the selector may send to: not exhausted, not known unreachable, store epoch not stale -/
def okRep (r : Rep) : Prop := r.attempts < maxAtt ∧ r.live ≠ 1 ∧ r.stale = false

theorem two_le_maxAtt : 2 ≤ maxAtt := by decide

theorem isCand_ok (st : Strat) (b : Bool) (r : Rep) (h : isCand st b r = true) : okRep r := by
  simp only [isCand, Bool.and_eq_true, Bool.not_eq_true', bne_iff_ne, ne_eq, decide_eq_true_eq] at h
  obtain ⟨⟨⟨⟨⟨hs, hl⟩, ha⟩, _⟩, _⟩, _⟩ := h
  refine ⟨?_, hl, hs⟩
  have := two_le_maxAtt
  split at ha <;> omega

theorem isCand_attempts (st : Strat) (b : Bool) (r : Rep) (h : isCand st b r = true) :
    r.attempts < 2 ∧ (r.attempts = 1 → r.dataNotReady = true ∧ b = false) := by
  simp only [isCand, Bool.and_eq_true, Bool.not_eq_true', decide_eq_true_eq] at h
  obtain ⟨⟨⟨⟨⟨_, _⟩, ha⟩, _⟩, _⟩, _⟩ := h
  split at ha
  · rename_i hc
    exact ⟨ha, fun _ => by simpa using hc⟩
  · exact ⟨by omega, fun h1 => by omega⟩

theorem isLeaderCand_ok (r : Rep) (h : isLeaderCand r = true) : okRep r := by
  simp only [isLeaderCand, Bool.and_eq_true, Bool.not_eq_true', beq_iff_eq, decide_eq_true_eq] at h
  obtain ⟨⟨⟨⟨hl, ha⟩, _⟩, _⟩, hs⟩ := h
  exact ⟨ha, by omega, hs⟩

theorem mem_scoredFrom (st : Strat) (li : Nat) (l : List Rep) (k i sc : Nat) (h : (i, sc) ∈ scoredFrom st li k l) :
    k ≤ i ∧ ∃ r, l[i - k]? = some r ∧ isCand st (i == li) r = true := by
  induction l generalizing k with
  | nil => simp [scoredFrom] at h
  | cons r t ih =>
    simp only [scoredFrom] at h
    split at h
    · rename_i hc
      rcases List.mem_cons.mp h with h | h
      · have hi : i = k := by injection h
        subst hi
        exact ⟨Nat.le_refl _, r, by simp, hc⟩
      · obtain ⟨hk, r', hr, hc'⟩ := ih (k + 1) h
        refine ⟨by omega, r', ?_, hc'⟩
        have : i - k = (i - (k + 1)) + 1 := by omega
        rw [this]; simpa using hr
    · obtain ⟨hk, r', hr, hc'⟩ := ih (k + 1) h
      refine ⟨by omega, r', ?_, hc'⟩
      have : i - k = (i - (k + 1)) + 1 := by omega
      rw [this]; simpa using hr

theorem mem_argmax (l : List (Nat × Nat)) (i : Nat) (h : i ∈ argmax l) : ∃ sc, (i, sc) ∈ l := by
  simp only [argmax, List.mem_map, List.mem_filter] at h
  obtain ⟨p, ⟨hp, _⟩, rfl⟩ := h
  exact ⟨p.2, hp⟩

/-- every member of the mixed strategy's candidate set is a candidate of that strategy -/
theorem mem_mixed_set (st : Strat) (s : Sel) (i : Nat) (h : i ∈ argmax (scoredFrom st s.leaderIdx 0 s.reps)) :
    ∃ r, s.reps[i]? = some r ∧ isCand st (i == s.leaderIdx) r = true := by
  obtain ⟨sc, hm⟩ := mem_argmax _ _ h
  obtain ⟨_, r, hr, hc⟩ := mem_scoredFrom st s.leaderIdx s.reps 0 i sc hm
  exact ⟨r, by simpa using hr, hc⟩

theorem modRep_get (s : Sel) (i : Nat) (f : Rep → Rep) (r : Rep) (h : s.reps[i]? = some r) :
    (modRep s i f).reps[i]? = some (f r) := by
  simp only [modRep, h]
  have hl : i < s.reps.length := by
    rcases Nat.lt_or_ge i s.reps.length with hl | hl
    · exact hl
    · rw [List.getElem?_eq_none hl] at h; cases h
  simp [hl]

theorem modRep_leaderIdx (s : Sel) (i : Nat) (f : Rep → Rep) : (modRep s i f).leaderIdx = s.leaderIdx := by
  simp only [modRep]; split <;> rfl

theorem clearSuspect_leaderIdx (s : Sel) : (clearSuspect s).leaderIdx = s.leaderIdx := modRep_leaderIdx _ _ _

theorem exhausted_leaderIdx (s : Sel) : (exhausted s).leaderIdx = s.leaderIdx := by
  unfold exhausted; split <;> rfl

theorem exhausted_reps (s : Sel) : (exhausted s).reps = s.reps := by
  unfold exhausted; split <;> rfl

/-- members of `mixedNext`'s choice set are sendable replicas of the ORIGINAL selector -/
theorem mixedNext_ok (st : Strat) (s : Sel) (i : Nat) (h : i ∈ (mixedNext st s).1) :
    ∃ r, s.reps[i]? = some r ∧ okRep r := by
  unfold mixedNext at h
  split at h
  · obtain ⟨r, hr, hc⟩ := mem_mixed_set st s i h
    exact ⟨r, hr, isCand_ok _ _ _ hc⟩
  · split at h
    · simp at h
    · split at h
      · split at h
        · rename_i hhad hcand
          simp only [List.mem_singleton] at h
          subst h
          cases hl : s.reps[s.leaderIdx]? with
          | none => simp [leaderIs, leaderRep, hl] at hhad
          | some r =>
            refine ⟨r, rfl, ?_⟩
            have hg := modRep_get s s.leaderIdx (fun r => { r with suspect := false }) r hl
            simp only [leaderIs, leaderRep, clearSuspect, modRep_leaderIdx, hg] at hcand
            exact isLeaderCand_ok _ hcand
        · simp at h
      · simp at h

theorem mixedNext_leaderIdx (st : Strat) (s : Sel) : (mixedNext st s).2.leaderIdx = s.leaderIdx := by
  unfold mixedNext
  split
  · rfl
  · split
    · rfl
    · split
      · split
        · exact clearSuspect_leaderIdx s
        · rw [exhausted_leaderIdx, clearSuspect_leaderIdx]
      · exact exhausted_leaderIdx s

theorem modRep_attempts (s : Sel) (i : Nat) (f : Rep → Rep) (hf : ∀ r, (f r).attempts = r.attempts) :
    (modRep s i f).reps.map (·.attempts) = s.reps.map (·.attempts) := by
  simp only [modRep]
  split
  · rename_i r hr
    apply List.ext_getElem?
    intro j
    simp only [List.getElem?_map, List.getElem?_set]
    by_cases hj : i = j
    · subst hj
      by_cases hl : i < s.reps.length
      · have hr' : s.reps[i] = r := by
          have := List.getElem?_eq_getElem hl
          rw [this] at hr; exact Option.some.inj hr
        simp [hl, hf, hr']
      · simp [hl]
    · simp [hj]
  · rfl

/-- `mixedNext` never changes attempt counters -/
theorem mixedNext_attempts (st : Strat) (s : Sel) :
    (mixedNext st s).2.reps.map (·.attempts) = s.reps.map (·.attempts) := by
  unfold mixedNext
  split
  · rfl
  · split
    · rfl
    · split
      · split
        · exact modRep_attempts _ _ _ (fun _ => rfl)
        · rw [exhausted_reps]; exact modRep_attempts _ _ _ (fun _ => rfl)
      · rw [exhausted_reps]

/-! ## `next` -/

theorem leaderStrat_ok (s : Sel) (h : leaderStrat s = true) : ∃ r, s.reps[s.leaderIdx]? = some r ∧ okRep r := by
  simp only [leaderStrat, leaderIs, leaderRep] at h
  cases hl : s.reps[s.leaderIdx]? with
  | none => simp [hl] at h
  | some r =>
    simp only [hl, Bool.and_eq_true] at h
    exact ⟨r, rfl, isLeaderCand_ok r h.1⟩

theorem nextLeaderPath_ok (s : Sel) (i : Nat) (h : i ∈ (nextLeaderPath s).1) : ∃ r, s.reps[i]? = some r ∧ okRep r := by
  unfold nextLeaderPath at h
  split at h
  · rename_i hl
    split at h
    · split at h
      · exact mixedNext_ok _ s i h
      · simp only [List.mem_singleton] at h; subst h; exact leaderStrat_ok s hl
    · simp only [List.mem_singleton] at h; subst h; exact leaderStrat_ok s hl
  · split at h
    · exact mixedNext_ok _ s i h
    · exact mixedNext_ok _ s i h

theorem nextMixedPath_ok (s : Sel) (t i : Nat) (h : i ∈ (nextMixedPath s t).1) : ∃ r, s.reps[i]? = some r ∧ okRep r := by
  unfold nextMixedPath at h
  split at h
  · rename_i hv
    simp only [List.mem_singleton] at h; subst h
    simp only [viaLeader, Bool.and_eq_true] at hv
    exact leaderStrat_ok s hv.1.2
  · split at h
    · simp at h
    · split at h
      · exact mixedNext_ok _ s i h
      · exact mixedNext_ok _ s i h

theorem pathOf_ok (s : Sel) (t i : Nat) (h : i ∈ (pathOf s t).1) : ∃ r, s.reps[i]? = some r ∧ okRep r := by
  unfold pathOf at h
  split at h
  · exact nextLeaderPath_ok (pre s) i h
  · exact nextMixedPath_ok (pre s) t i h

theorem next_set (s : Sel) (t : Nat) :
    (next s t).1 = if !s.invRetry && !s.valid then [] else (pathOf s t).1 := by
  unfold next
  split
  · rfl
  · split <;> rfl

/-- the chosen replica is a candidate: never exhausted, never known unreachable, never on a stale store epoch -/
theorem next_ok (s : Sel) (t i : Nat) (h : i ∈ (next s t).1) : ∃ r, s.reps[i]? = some r ∧ okRep r := by
  rw [next_set] at h
  split at h
  · simp at h
  · exact pathOf_ok s t i h

/-! ## per-replica attempt bound -/

def AttInv (s : Sel) : Prop := ∀ a ∈ s.reps.map (·.attempts), a ≤ maxAtt

theorem attInv_of_map_eq (s s' : Sel) (h : s'.reps.map (·.attempts) = s.reps.map (·.attempts)) (hi : AttInv s) : AttInv s' := by
  unfold AttInv; rw [h]; exact hi

theorem pathOf_attempts (s : Sel) (t : Nat) : (pathOf s t).2.reps.map (·.attempts) = s.reps.map (·.attempts) := by
  unfold pathOf
  split
  · unfold nextLeaderPath
    split
    · split
      · split
        · exact mixedNext_attempts _ (pre s)
        · rfl
      · rfl
    · split
      · exact mixedNext_attempts _ (pre s)
      · exact mixedNext_attempts _ (pre s)
  · unfold nextMixedPath
    split
    · rfl
    · split
      · exact mixedNext_attempts _ (pre s)
      · split
        · split <;> exact mixedNext_attempts _ (pre s)
        · exact mixedNext_attempts _ (pre s)

theorem mem_map_attempts_modRep (s : Sel) (i : Nat) (f : Rep → Rep) (a : Nat) (h : a ∈ (modRep s i f).reps.map (·.attempts)) :
    a ∈ s.reps.map (·.attempts) ∨ ∃ r, s.reps[i]? = some r ∧ a = (f r).attempts := by
  simp only [modRep] at h
  split at h
  · rename_i r hr
    simp only [List.mem_map] at h
    obtain ⟨x, hx, rfl⟩ := h
    rcases List.mem_or_eq_of_mem_set hx with hx | hx
    · exact Or.inl (List.mem_map.mpr ⟨x, hx, rfl⟩)
    · exact Or.inr ⟨r, hr, by rw [hx]⟩
  · exact Or.inl h

theorem attInv_next (s : Sel) (t : Nat) (hi : AttInv s) : AttInv (next s t).2 := by
  unfold next
  split
  · exact hi
  · have hp := attInv_of_map_eq s (pathOf s t).2 (pathOf_attempts s t) hi
    split
    · rename_i hc
      intro a ha
      rcases mem_map_attempts_modRep _ _ _ _ ha with h | ⟨r, hr, rfl⟩
      · exact hp a h
      · -- the charged replica was a candidate of the original selector: attempts < maxAtt
        have hmem : t ∈ (pathOf s t).1 := by simpa using hc
        obtain ⟨r0, hr0, hok⟩ := pathOf_ok s t t hmem
        have hlen := congrArg List.length (pathOf_attempts s t)
        have hget : ((pathOf s t).2.reps.map (·.attempts))[t]? = (s.reps.map (·.attempts))[t]? := by
          rw [pathOf_attempts]
        simp only [List.getElem?_map, hr, hr0, Option.map_some] at hget
        have : r.attempts = r0.attempts := Option.some.inj hget
        have := hok.1
        simp only
        omega
    · exact hp

theorem attInv_modRep (s : Sel) (i : Nat) (f : Rep → Rep) (hf : ∀ r, (f r).attempts ≤ max r.attempts (maxAtt - 1)) (hi : AttInv s) :
    AttInv (modRep s i f) := by
  intro a ha
  rcases mem_map_attempts_modRep _ _ _ _ ha with h | ⟨r, hr, rfl⟩
  · exact hi a h
  · have h1 := hf r
    have h2 : r.attempts ≤ maxAtt := by
      apply hi
      have hl : i < s.reps.length := by
        rcases Nat.lt_or_ge i s.reps.length with hl | hl
        · exact hl
        · rw [List.getElem?_eq_none hl] at hr; cases hr
      have : s.reps[i] = r := by
        have := List.getElem?_eq_getElem hl
        rw [this] at hr; exact Option.some.inj hr
      exact List.mem_map.mpr ⟨r, by rw [← this]; exact List.getElem_mem hl, rfl⟩
    omega

theorem attInv_setField (s s' : Sel) (h : s'.reps = s.reps) (hi : AttInv s) : AttInv s' := by
  unfold AttInv; rw [h]; exact hi

theorem onUpdateLeader_attempts (r : Rep) : (onUpdateLeader r).attempts ≤ max r.attempts (maxAtt - 1) := by
  simp only [onUpdateLeader]
  split <;> omega

theorem attInv_onHint (s : Sel) (t : Nat) (q : Option Nat) (hi : AttInv s) : AttInv (onHint s t q) := by
  have h0 : AttInv (setTarget s t fun r => { r with notLeader := true }) :=
    attInv_modRep _ _ _ (fun r => by simp; omega) hi
  unfold onHint
  cases q with
  | none => exact attInv_setField _ _ rfl h0
  | some q =>
    simp only
    split
    · exact attInv_setField _ _ rfl h0
    · split
      · exact h0
      · have h1 : AttInv (modRep (setTarget s t fun r => { r with notLeader := true }) q onUpdateLeader) :=
          attInv_modRep _ _ _ onUpdateLeader_attempts h0
        split
        · exact attInv_setField _ _ rfl h1
        · exact attInv_setField _ _ rfl h1

theorem attInv_flag (s : Sel) (t : Nat) (f : Rep → Rep) (hf : ∀ r, (f r).attempts = r.attempts) (hi : AttInv s) :
    AttInv (setTarget s t f) :=
  attInv_of_map_eq s _ (modRep_attempts s t f hf) hi

theorem busyMark_attempts (s : Sel) (t : Nat) (w : Bool) :
    (busyMark s t w).reps.map (·.attempts) = s.reps.map (·.attempts) := by
  unfold busyMark
  split
  · split
    · exact modRep_attempts _ _ _ (fun _ => rfl)
    · rfl
  · split
    · unfold onBusyProbe
      split
      · exact modRep_attempts (countBusy s t) t _ (fun _ => rfl)
      · rfl
    · rfl

theorem attInv_onBusy (s : Sel) (t : Nat) (w : Bool) (hi : AttInv s) : AttInv (onBusy s t w) := by
  have h1 := attInv_of_map_eq s _ (busyMark_attempts s t w) hi
  unfold onBusy
  split
  · exact attInv_flag _ _ _ (fun _ => rfl) h1
  · exact h1

theorem attInv_handle (s : Sel) (t : Nat) (f : String) (sh : Bool) (hi : AttInv s) : AttInv (handle s t f sh) := by
  unfold handle
  split
  · unfold handleDeadline
    split
    · exact attInv_flag _ _ _ (fun _ => rfl) hi
    · split
      · exact attInv_onBusy _ _ _ hi
      · exact hi
  · split
    · unfold handleNotLeader
      split
      · exact attInv_flag _ _ _ (fun _ => rfl) hi
      · split
        · exact attInv_onHint _ _ _ hi
        · split
          · exact attInv_onHint _ _ _ hi
          · split
            · exact attInv_onHint _ _ _ hi
            · split
              · exact attInv_onHint _ _ _ hi
              · exact attInv_onHint _ _ _ hi
    · split
      · exact attInv_onBusy _ _ _ hi
      · split
        · exact attInv_onBusy _ _ _ hi
        · split
          · exact attInv_flag _ _ _ (fun _ => rfl) hi
          · split
            · unfold handleRegionNotFound
              split <;> exact attInv_setField _ s rfl hi
            · split
              · unfold handleFlashback
                split
                · exact attInv_setField _ s rfl hi
                · exact hi
              · split
                · exact attInv_setField _ s rfl hi
                · exact hi

/-! ## no candidate -/

theorem exhausted_spec (s : Sel) : (exhausted s).valid = false ∨ (exhausted s).reps.any (·.deadline) = true := by
  unfold exhausted
  split
  · rename_i h; exact Or.inr h
  · exact Or.inl rfl

theorem mixedNext_empty (st : Strat) (s : Sel) (hb : st.busy = false) (h : (mixedNext st s).1 = []) :
    (mixedNext st s).2.valid = false ∨ (mixedNext st s).2.reps.any (·.deadline) = true := by
  unfold mixedNext at h ⊢
  split
  · rename_i hne
    rw [if_pos hne] at h
    have h' : argmax (scoredFrom st s.leaderIdx 0 s.reps) = [] := h
    rw [h'] at hne
    simp at hne
  · split
    · rename_i hbb; rw [hb] at hbb; cases hbb
    · split
      · split
        · rename_i h1 h2 h3 h4
          rw [if_neg h1, if_neg h2, if_pos h3, if_pos h4] at h
          cases h
        · exact exhausted_spec _
      · exact exhausted_spec _

/-- when `next` finds no replica the region is invalid afterwards, unless some replica timed out (then the cache is kept
    for a fast retry); either way the sender gets no RPC context and returns a region error -/
theorem next_empty (s : Sel) (t : Nat) (h : (next s t).1 = []) :
    (next s t).2.valid = false ∨ (next s t).2.reps.any (·.deadline) = true := by
  unfold next at h ⊢
  split
  · rename_i hc
    left
    simp only [Bool.and_eq_true, Bool.not_eq_true'] at hc
    exact hc.2
  · rename_i hc
    rw [if_neg hc] at h
    split
    · rename_i hc2
      rw [if_pos hc2] at h
      simp only at h
      rw [h] at hc2
      simp at hc2
    · rename_i hc2
      rw [if_neg hc2] at h
      -- no candidate on the path taken
      unfold pathOf at h ⊢
      split
      · rename_i hrl
        rw [if_pos hrl] at h
        unfold nextLeaderPath at h ⊢
        split
        · rename_i hls
          rw [if_pos hls] at h
          split
          · rename_i hbd
            rw [if_pos hbd] at h
            split
            · rename_i hne
              rw [if_pos hne] at h
              simp only at h
              rw [h] at hne; simp at hne
            · rename_i hne
              rw [if_neg hne] at h; cases h
          · rename_i hbd
            rw [if_neg hbd] at h; cases h
        · rename_i hls
          rw [if_neg hls] at h
          split
          · rename_i hx
            rw [if_pos hx] at h
            simp only at h
            simp only [Bool.and_eq_true, Bool.not_eq_true'] at hx
            rw [h] at hx; simp at hx
          · rename_i hx
            rw [if_neg hx] at h
            exact mixedNext_empty _ _ rfl h
      · rename_i hrl
        rw [if_neg hrl] at h
        unfold nextMixedPath at h ⊢
        split
        · rename_i hv
          rw [if_pos hv] at h; cases h
        · rename_i hv
          rw [if_neg hv] at h
          split
          · rename_i he
            exact mixedNext_empty (mixedStrat (pre s)) (pre s) rfl (List.isEmpty_iff.mp he)
          · rename_i he
            rw [if_neg he] at h
            split at h
            · simp only at h; rw [h] at he; simp at he
            · simp only at h; rw [h] at he; simp at he

/-! ## members of the mixed path -/

theorem mixedNext_mem (st : Strat) (s : Sel) (i : Nat) (h : i ∈ (mixedNext st s).1) :
    i = s.leaderIdx ∨ ∃ r, s.reps[i]? = some r ∧ isCand st (i == s.leaderIdx) r = true := by
  unfold mixedNext at h
  split at h
  · exact Or.inr (mem_mixed_set st s i h)
  · split at h
    · simp at h
    · split at h
      · split at h
        · left; simpa using h
        · simp at h
      · simp at h

/-! ## flags -/

theorem modRep_flags (s : Sel) (i : Nat) (f : Rep → Rep) : flagsOf (modRep s i f) = flagsOf s := by
  simp only [modRep]; split <;> rfl

theorem exhausted_flags (s : Sel) : flagsOf (exhausted s) = flagsOf s := by
  unfold exhausted; split <;> rfl

theorem mixedNext_flags (st : Strat) (s : Sel) : flagsOf (mixedNext st s).2 = flagsOf s := by
  unfold mixedNext
  split
  · rfl
  · split
    · rfl
    · split
      · split
        · exact modRep_flags _ _ _
        · rw [exhausted_flags]; exact modRep_flags _ _ _
      · exact exhausted_flags s

theorem flags_with (a : Sel) (rr sr bm : Bool) (h : flagsOf a = (rr, sr, bm)) : a.rr = rr ∧ a.sr = sr ∧ a.busyMs = bm := by
  simp only [flagsOf, Prod.mk.injEq] at h; exact h

/-- the flags a request leaves with are the ones the decision table prescribes -/
theorem pathOf_flags (s : Sel) (t : Nat) (hne : (pathOf s t).1 ≠ []) :
    flagsOf (pathOf s t).2 = applyRule s (flagRule s t) := by
  unfold pathOf at hne ⊢
  unfold flagRule
  split
  · -- leader read
    unfold nextLeaderPath at hne ⊢
    split
    · split
      · split
        · obtain ⟨_, h2, h3⟩ := flags_with _ _ _ _ (mixedNext_flags { busy := true } (pre s))
          show (true, (idleNext (pre s)).2.sr, (idleNext (pre s)).2.busyMs) = (true, s.sr, s.busyMs)
          unfold idleNext; rw [h2, h3]; rfl
        · rfl
      · rfl
    · split
      · obtain ⟨_, _, h3⟩ := flags_with _ _ _ _ (mixedNext_flags { leaderOnly := (pre s).leaderOnly } (pre s))
        show (true, false, (fallbackNext (pre s)).2.busyMs) = (true, false, s.busyMs)
        unfold fallbackNext; rw [h3]; rfl
      · have := mixedNext_flags { leaderOnly := (pre s).leaderOnly } (pre s)
        show flagsOf (fallbackNext (pre s)).2 = (s.rr, s.sr, s.busyMs)
        unfold fallbackNext; rw [this]; rfl
  · rename_i hrl
    unfold nextMixedPath at hne ⊢
    split
    · rfl
    · rename_i hv
      split
      · rename_i he
        rw [if_neg hrl, if_neg hv, if_pos he] at hne
        exact absurd rfl hne
      · obtain ⟨_, _, h3⟩ := flags_with _ _ _ _ (mixedNext_flags (mixedStrat (pre s)) (pre s))
        have hst : (pre s).stale = s.stale := rfl
        rw [hst]
        split
        · split
          · show (true, false, (mixedPick (pre s)).2.busyMs) = (true, false, s.busyMs)
            unfold mixedPick; rw [h3]; rfl
          · show (false, true, (mixedPick (pre s)).2.busyMs) = (false, true, s.busyMs)
            unfold mixedPick; rw [h3]; rfl
        · show ((pre s).readOnly && t != (pre s).leaderIdx, false, (mixedPick (pre s)).2.busyMs) = (s.readOnly && t != s.leaderIdx, false, s.busyMs)
          unfold mixedPick; rw [h3]; rfl

theorem charge_flags (s : Sel) (t : Nat) : flagsOf (charge s t) = flagsOf s := modRep_flags _ _ _

/-! ## runs -/

theorem refreshReps_attempts (l inp : List Rep) : (refreshReps l inp).map (·.attempts) = l.map (·.attempts) := by
  induction l generalizing inp with
  | nil => rfl
  | cons a t ih =>
    cases inp with
    | nil => rfl
    | cons b u => simp [refreshReps, ih]

theorem attInv_refresh (s : Sel) (inp : List Rep) (hi : AttInv s) : AttInv (refreshInputs s inp) :=
  attInv_of_map_eq s _ (refreshReps_attempts _ _) hi

theorem attInv_run (os : List Obs) (s : Sel) (hi : AttInv s) : AttInv (runSel s os) := by
  induction os generalizing s with
  | nil => exact hi
  | cons o os ih =>
    simp only [runSel, List.foldl_cons]
    exact ih _ (attInv_handle _ _ _ _ (attInv_next _ _ (attInv_refresh _ _ hi)))

end CGV.Selector
