/-
  C09 helper lemmas, fourth part: convergence once PD (= the stores' truth) stops changing.
-/
import ClientGoVerif.Proofs.RegionReach
namespace CGV.Region
open CGV

/-! ## more about searching a sorted index -/

theorem lastLE_sat {p : Entry → Bool} {l : List Entry} {acc : Option Entry} {e : Entry}
    (h : lastLE p l acc = some e) : (e ∈ l ∧ p e = true) ∨ acc = some e := by
  induction l generalizing acc with
  | nil => right; simpa [lastLE] using h
  | cons y ys ih =>
    simp only [lastLE] at h
    by_cases hp : p y = true
    · simp only [hp, if_true] at h
      rcases ih h with ⟨hm, hpe⟩ | hacc
      · exact Or.inl ⟨List.mem_cons_of_mem _ hm, hpe⟩
      · cases hacc; exact Or.inl ⟨List.mem_cons_self .., hp⟩
    · simp only [hp, Bool.false_eq_true, if_false] at h
      rcases ih h with ⟨hm, hpe⟩ | hacc
      · exact Or.inl ⟨List.mem_cons_of_mem _ hm, hpe⟩
      · exact Or.inr hacc

theorem lastLE_acc_some (p : Entry → Bool) (l : List Entry) (a : Entry) : ∃ e, lastLE p l (some a) = some e := by
  induction l generalizing a with
  | nil => exact ⟨a, rfl⟩
  | cons y ys ih =>
    simp only [lastLE]
    split
    · exact ih y
    · exact ih a

theorem lastLE_isSome {p : Entry → Bool} {l : List Entry} (acc : Option Entry) (h : ∃ x ∈ l, p x = true) :
    ∃ e, lastLE p l acc = some e := by
  induction l generalizing acc with
  | nil => obtain ⟨x, hx, _⟩ := h; cases hx
  | cons y ys ih =>
    simp only [lastLE]
    by_cases hp : p y = true
    · simp only [hp, if_true]; exact lastLE_acc_some p ys y
    · simp only [hp, Bool.false_eq_true, if_false]
      obtain ⟨x, hx, hpx⟩ := h
      rcases List.mem_cons.mp hx with rfl | hx
      · exact absurd hpx hp
      · exact ih acc ⟨x, hx, hpx⟩

theorem sorted_start_inj {l : List Entry} (hs : Sorted l) {a b : Entry} (ha : a ∈ l) (hb : b ∈ l)
    (h : a.r.start = b.r.start) : a = b := by
  induction l with
  | nil => cases ha
  | cons y ys ih =>
    unfold Sorted at hs
    rw [List.pairwise_cons] at hs
    rcases List.mem_cons.mp ha with rfl | ha'
    · rcases List.mem_cons.mp hb with rfl | hb'
      · rfl
      · have := hs.1 b hb'
        rw [h, lt_irrefl] at this; cases this
    · rcases List.mem_cons.mp hb with rfl | hb'
      · have := hs.1 a ha'
        rw [← h, lt_irrefl] at this; cases this
      · exact ih hs.2 ha' hb'

theorem le_antisymm' {a b : Bytes} (h1 : Bytes.le a b = true) (h2 : Bytes.le b a = true) : a = b := by
  rw [le_iff_not_lt] at h2
  simp only [Bytes.le, Bytes.lt, bne_iff_ne, ne_eq, beq_iff_eq, Bool.not_eq_true', beq_eq_false_iff_ne] at h1 h2
  cases hc : Bytes.cmp a b with
  | lt => exact absurd hc h2
  | eq => exact cmp_eq_iff.mp hc
  | gt => exact absurd hc h1

/-- on a sorted index, what SearchByKey(key) finds is the entry with the greatest start key at or before the key -/
theorem searchByKey_greatest {l : List Entry} (hs : Sorted l) {k : Bytes} {e : Entry}
    (h : searchByKey l k false = some e) :
    e ∈ l ∧ e.r.contains k = true ∧ ∀ x ∈ l, Bytes.le x.r.start k = true → Bytes.le x.r.start e.r.start = true := by
  unfold searchByKey at h
  split at h
  · cases h
  · rename_i e1 he1
    split at h
    · cases h
      rename_i hin
      rcases lastLE_greatest hs he1 with ⟨hm, hall⟩ | ⟨hacc, _⟩
      · exact ⟨hm, by simpa [inRegion] using hin, fun x hx hle => hall x hx (by simpa using hle)⟩
      · cases hacc
    · cases h

theorem search_of_greatest {l : List Entry} (hs : Sorted l) {k : Bytes} {e : Entry} (he : e ∈ l)
    (hc : e.r.contains k = true)
    (hg : ∀ x ∈ l, Bytes.le x.r.start k = true → Bytes.le x.r.start e.r.start = true) :
    searchByKey l k false = some e := by
  have hek : Bytes.le e.r.start k = true := contains_start_le hc
  obtain ⟨e', he'⟩ := lastLE_isSome (p := fun x => if false then Bytes.lt x.r.start k else Bytes.le x.r.start k)
    (l := l) none ⟨e, he, by simpa using hek⟩
  have hsat := lastLE_sat he'
  rcases hsat with ⟨hm, hp⟩ | hacc
  · rcases lastLE_greatest hs he' with ⟨_, hall⟩ | ⟨hacc, _⟩
    · have h1 : Bytes.le e.r.start e'.r.start = true := hall e he (by simpa using hek)
      have h2 : Bytes.le e'.r.start e.r.start = true := hg e' hm (by simpa using hp)
      have : e' = e := sorted_start_inj hs hm he (le_antisymm' h2 h1)
      subst this
      unfold searchByKey
      rw [he']
      simp [inRegion, hc]
    · cases hacc
  · cases hacc

theorem lastLE_map (g : Entry → Entry) (p : Entry → Bool) (hp : ∀ e, p (g e) = p e) (l : List Entry)
    (acc : Option Entry) : lastLE p (l.map g) (acc.map g) = (lastLE p l acc).map g := by
  induction l generalizing acc with
  | nil => rfl
  | cons y ys ih =>
    simp only [List.map_cons, lastLE, hp]
    by_cases h : p y = true
    · simp only [h, if_true]; exact ih (some y)
    · simp only [h, Bool.false_eq_true, if_false]; exact ih acc

/-- changing mutable bits of entries does not change which entry a key finds -/
theorem searchByKey_map (g : Entry → Entry) (hg : ∀ e, (g e).r = e.r) (l : List Entry) (key : Bytes) (b : Bool) :
    searchByKey (l.map g) key b = (searchByKey l key b).map g := by
  unfold searchByKey
  have := lastLE_map g (fun e => if b then Bytes.lt e.r.start key else Bytes.le e.r.start key)
    (by intro e; simp only [hg]) l none
  simp only [Option.map_none] at this
  rw [this]
  cases lastLE (fun e => if b then Bytes.lt e.r.start key else Bytes.le e.r.start key) l none with
  | none => rfl
  | some e =>
    simp only [Option.map_some, hg]
    split <;> rfl

end CGV.Region

namespace CGV.Region
open CGV

/-! ## the quiet situation -/

/-- PD (= what the stores hold) is a fixed layout: every key has a region, regions are well-formed, pairwise
    disjoint and have distinct ids -/
def QuietPD (pd : PD) : Prop :=
  (∀ k, ∃ p, pd.getRegion k = some p) ∧ (∀ p ∈ pd, p.r.wf) ∧
  (∀ p ∈ pd, ∀ q ∈ pd, overlaps p.r q.r = true → p = q) ∧
  (∀ p ∈ pd, ∀ q ∈ pd, p.r.id = q.r.id → p = q)

/-- the cache is not ahead of PD: its entries are well-formed descriptions from the past — an entry sharing a key
    with a current region has a version not above it, and epochs known for a region id are not above the current ones
    (true for everything loaded from earlier PD states when versions grow with every split/merge, as TiKV's do), and
    an entry carrying the VerID of a current region is that region (a VerID determines the key range) -/
def NotAhead (c : Cache) (pd : PD) : Prop :=
  (∀ e ∈ c.sorted, e.r.wf) ∧
  (∀ e ∈ c.sorted, ∀ p ∈ pd, overlaps e.r p.r = true → e.r.ver ≤ p.r.ver) ∧
  (∀ e ∈ c.sorted, ∀ p ∈ pd, p.r.id = e.r.id → e.r.ver ≤ p.r.ver ∧ e.r.confVer ≤ p.r.confVer) ∧
  (∀ x ∈ c.latest, ∀ p ∈ pd, p.r.id = x.1 → x.2.ver ≤ p.r.ver ∧ x.2.confVer ≤ p.r.confVer) ∧
  (∀ e ∈ c.sorted, ∀ p ∈ pd, e.r.verID = p.r.verID → e.r = p.r)

def ConvInv (c : Cache) (pd : PD) : Prop := Sorted c.sorted ∧ NotAhead c pd

/-- the key is served from the cache with PD's current region -/
def Settled (c : Cache) (pd : PD) (k : Bytes) : Prop :=
  ∃ p e, pd.getRegion k = some p ∧ searchByKey c.sorted k false = some e ∧ e.r = p.r ∧ e.valid = true ∧ e.reload = false

theorem getRegion_spec {pd : PD} {k : Bytes} {p : PdRegion} (h : pd.getRegion k = some p) :
    p ∈ pd ∧ p.r.contains k = true :=
  ⟨List.mem_of_find?_eq_some h, by simpa using List.find?_some h⟩

theorem wf_lt_end {r : Region} (h : r.wf) : r.endKey = [] ∨ Bytes.lt r.start r.endKey = true := by
  unfold Region.wf at h
  unfold Region.endKey
  cases he : r.end_ with
  | none => left; rfl
  | some e => right; simpa [he] using h

theorem overlaps_of_contains {a b : Region} {k : Bytes} (ha : a.contains k = true) (hb : b.contains k = true) :
    overlaps a b = true := by
  unfold Region.contains at ha hb
  simp only [Bool.and_eq_true, Bool.or_eq_true] at ha hb
  unfold overlaps
  simp only [Bool.and_eq_true, Bool.or_eq_true]
  constructor
  · rcases ha.2 with h | h
    · right; exact lt_of_le_of_lt hb.1 h
    · left; exact h
  · rcases hb.2 with h | h
    · right; exact lt_of_le_of_lt ha.1 h
    · left; exact h

theorem overlaps_of_inRange {n : Region} {e : Entry} (hw : e.r.wf) (h : inRangeStart n e = true) :
    overlaps e.r n = true := by
  unfold inRangeStart at h
  simp only [Bool.and_eq_true, Bool.or_eq_true] at h
  unfold overlaps
  simp only [Bool.and_eq_true, Bool.or_eq_true]
  constructor
  · rcases wf_lt_end hw with h0 | h0
    · left; simp [h0]
    · right; exact lt_of_le_of_lt h.1 h0
  · rcases h.2 with h2 | h2
    · left; exact h2
    · right; exact h2

theorem latestGet_mem {l : List (Nat × VerID)} {id : Nat} {v : VerID} (h : latestGet l id = some v) : (id, v) ∈ l := by
  unfold latestGet at h
  split at h
  · rename_i p hp
    cases h
    have h1 := List.find?_some hp
    simp only [beq_iff_eq] at h1
    have := List.mem_of_find?_eq_some hp
    rw [← h1]; exact this
  · cases h

/-- a current region is never refused -/
theorem insert_ok {c : Cache} {pd : PD} (hi : ConvInv c pd) {q : PdRegion} (hq : q ∈ pd) {n : Entry}
    (hn : n.r = q.r) : (insertRegionToCache c n).2 = true := by
  obtain ⟨_, hwf, h1, _, h3, _⟩ := hi
  have hstale : staleByLatest c.latest n.r = false := by
    unfold staleByLatest
    split
    · rename_i old hold
      have := h3 _ (latestGet_mem hold) q hq (by rw [hn])
      simp only at this
      simp only [hn, Bool.or_eq_false_iff, decide_eq_false_iff_not]
      omega
    · rfl
  have hany : (c.sorted.any fun e => inRangeStart n.r e && decide (e.r.ver > n.r.ver)) = false := by
    rw [List.any_eq_false]
    intro e he
    simp only [Bool.and_eq_true, decide_eq_true_eq, not_and]
    intro hin
    have := h1 e he q hq (by rw [← hn]; exact overlaps_of_inRange (hwf e he) hin)
    rw [hn]; omega
  simp [insertRegionToCache, hstale, removeIntersecting, hany]

theorem insert_latest_sub {c c' : Cache} {n : Entry} (h : insertRegionToCache c n = (c', true)) :
    ∀ x ∈ c'.latest, x = (n.r.id, n.r.verID) ∨ x ∈ c.latest := by
  unfold insertRegionToCache at h
  split at h
  · cases h
  · split at h
    · cases h
    · simp only [Prod.mk.injEq, and_true] at h
      subst h
      intro x hx
      simp only [List.mem_cons] at hx
      rcases hx with hx | hx
      · exact Or.inl hx
      · unfold latestErase at hx
        exact Or.inr (foldl_removeVersion_sub _ _ x (List.mem_filter.mp hx).1)

/-- inserting a current region keeps the invariant -/
theorem insert_convInv {c : Cache} {pd : PD} (hq0 : QuietPD pd) (hi : ConvInv c pd) {q : PdRegion} (hq : q ∈ pd)
    {n : Entry} (hn : n.r = q.r) : ConvInv (insertRegionToCache c n).1 pd := by
  have hok := insert_ok hi hq hn
  cases hins : insertRegionToCache c n with
  | mk c' ok =>
    rw [hins] at hok
    simp only at hok
    subst hok
    rcases insert_spec hins with ⟨hf, _⟩ | ⟨_, heq, _⟩
    · cases hf
    · obtain ⟨hs, hwf, h1, h2, h3, h4⟩ := hi
      obtain ⟨_, hpwf, hdis, hids⟩ := hq0
      have hmem : ∀ x ∈ c'.sorted, x = n ∨ x ∈ c.sorted := by
        intro x hx
        rw [heq] at hx
        rcases mem_insertSorted hx with h | h
        · exact Or.inl h
        · exact Or.inr (List.mem_filter.mp h).1
      refine ⟨insert_sorted hins hs, ?_, ?_, ?_, ?_, ?_⟩
      rotate_left 4
      · intro x hx p hp hvid
        rcases hmem x hx with rfl | hx
        · rw [hn] at hvid ⊢
          have hid : q.r.id = p.r.id := by
            have := congrArg VerID.id hvid
            simpa [Region.verID] using this
          have := hids q hq p hp hid
          subst this; rfl
        · exact h4 x hx p hp hvid
      · intro x hx
        rcases hmem x hx with rfl | hx
        · unfold Region.wf; rw [hn]; exact hpwf q hq
        · exact hwf x hx
      · intro x hx p hp hov
        rcases hmem x hx with rfl | hx
        · rw [hn] at hov ⊢
          have := hdis q hq p hp hov
          subst this; exact Nat.le_refl _
        · exact h1 x hx p hp hov
      · intro x hx p hp hid
        rcases hmem x hx with rfl | hx
        · rw [hn] at hid ⊢
          have := hids p hp q hq hid
          subst this; exact ⟨Nat.le_refl _, Nat.le_refl _⟩
        · exact h2 x hx p hp hid
      · intro x hx p hp hid
        rcases insert_latest_sub hins x hx with rfl | hx
        · simp only at hid ⊢
          rw [hn] at hid
          have := hids p hp q hq hid
          subst this
          simp [Region.verID, hn]
        · exact h3 x hx p hp hid

theorem update_convInv {c : Cache} {pd : PD} (hi : ConvInv c pd) (v : VerID) (f : Entry → Entry)
    (hf : ∀ e, (f e).r = e.r) : ConvInv (c.update v f) pd := by
  obtain ⟨hs, hwf, h1, h2, h3, h4⟩ := hi
  have hg : ∀ e : Entry, (if e.r.verID == v then f e else e).r = e.r := by
    intro e; split
    · exact hf e
    · rfl
  have hmem : ∀ x ∈ (c.update v f).sorted, ∃ y ∈ c.sorted, x.r = y.r := by
    intro x hx
    unfold Cache.update at hx
    obtain ⟨y, hy, rfl⟩ := List.mem_map.mp hx
    exact ⟨y, hy, hg y⟩
  refine ⟨sorted_map_keep hs _ hg, ?_, ?_, ?_, h3, ?_⟩
  rotate_left 3
  · intro x hx p hp hvid
    obtain ⟨y, hy, hxy⟩ := hmem x hx
    rw [hxy] at hvid ⊢; exact h4 y hy p hp hvid
  · intro x hx
    obtain ⟨y, hy, hxy⟩ := hmem x hx
    unfold Region.wf; rw [hxy]; exact hwf y hy
  · intro x hx p hp hov
    obtain ⟨y, hy, hxy⟩ := hmem x hx
    rw [hxy] at hov ⊢; exact h1 y hy p hp hov
  · intro x hx p hp hid
    obtain ⟨y, hy, hxy⟩ := hmem x hx
    rw [hxy] at hid ⊢; exact h2 y hy p hp hid

end CGV.Region

namespace CGV.Region
open CGV

theorem insert_success_spec {c : Cache} {pd : PD} (hi : ConvInv c pd) {q : PdRegion} (hq : q ∈ pd) {n : Entry}
    (hn : n.r = q.r) :
    (insertRegionToCache c n).1.sorted = insertSorted n (c.sorted.filter (fun e => !inRangeStart n.r e)) := by
  have hok := insert_ok hi hq hn
  cases hins : insertRegionToCache c n with
  | mk c' ok =>
    rw [hins] at hok
    simp only at hok
    subst hok
    rcases insert_spec hins with ⟨hf, _⟩ | ⟨_, heq, _⟩
    · cases hf
    · exact heq

/-- inserting the current region of `k` makes `k` settled -/
theorem insert_settles {c : Cache} {pd : PD} (hq0 : QuietPD pd) (hi : ConvInv c pd) {k : Bytes} {p : PdRegion}
    (hp : pd.getRegion k = some p) {n : Entry} (hn : n.r = p.r) (hv : n.valid = true) (hr : n.reload = false) :
    Settled (insertRegionToCache c n).1 pd k := by
  obtain ⟨hpm, hpk⟩ := getRegion_spec hp
  have hs' := (insert_convInv hq0 hi hpm hn).1
  have heq := insert_success_spec hi hpm hn
  refine ⟨p, n, hp, ?_, hn, hv, hr⟩
  apply search_of_greatest hs'
  · rw [heq]; exact self_mem_insertSorted _ _
  · rw [hn]; exact hpk
  · intro x hx hxk
    rw [heq] at hx
    rcases mem_insertSorted hx with rfl | hx
    · exact le_refl _
    · simp only [List.mem_filter, Bool.not_eq_eq_eq_not, Bool.not_true] at hx
      have hnin := hx.2
      unfold inRangeStart at hnin
      -- x starts at or before k < n.end, so it is not in range only because it starts before n
      have h2 : (n.r.endKey.isEmpty || Bytes.lt x.r.start n.r.endKey) = true := by
        rw [hn]
        unfold Region.contains at hpk
        simp only [Bool.and_eq_true, Bool.or_eq_true] at hpk
        simp only [Bool.or_eq_true]
        rcases hpk.2 with h | h
        · right; exact lt_of_le_of_lt hxk h
        · left; exact h
      rw [h2, Bool.and_true] at hnin
      rcases le_total n.r.start x.r.start with h | h
      · rw [h] at hnin; cases hnin
      · exact le_of_lt h

/-- inserting another current region does not disturb a settled key -/
theorem insert_keeps_settled {c : Cache} {pd : PD} (hq0 : QuietPD pd) (hi : ConvInv c pd) {k : Bytes}
    (hset : Settled c pd k) {q : PdRegion} (hq : q ∈ pd) {n : Entry} (hn : n.r = q.r) (hv : n.valid = true)
    (hr : n.reload = false) : Settled (insertRegionToCache c n).1 pd k := by
  obtain ⟨p, e, hp, hse, her, hev, herl⟩ := hset
  obtain ⟨hpm, hpk⟩ := getRegion_spec hp
  by_cases hqp : q = p
  · subst hqp
    exact insert_settles hq0 hi hp hn hv hr
  · obtain ⟨_, hpwf, hdis, _⟩ := hq0
    have hs' := (insert_convInv ⟨‹_›, hpwf, hdis, ‹_›⟩ hi hq hn).1
    have heq := insert_success_spec hi hq hn
    obtain ⟨hem, hec, heg⟩ := searchByKey_greatest hi.1 hse
    have hnov : overlaps p.r q.r = false := by
      cases h : overlaps p.r q.r with
      | false => rfl
      | true => exact absurd (hdis p hpm q hq h).symm hqp
    -- e is not evicted
    have hnin : inRangeStart n.r e = false := by
      cases h : inRangeStart n.r e with
      | false => rfl
      | true =>
        have := overlaps_of_inRange (hi.2.1 e hem) h
        rw [her, hn, hnov] at this; cases this
    have hne : e.r.start ≠ n.r.start := by
      intro h
      have : inRangeStart n.r e = true := by
        unfold inRangeStart
        rw [h, le_refl]
        rcases wf_lt_end (r := n.r) (by unfold Region.wf; rw [hn]; exact hpwf q hq) with h0 | h0
        · simp [h0]
        · simp [h0]
      rw [hnin] at this; cases this
    refine ⟨p, e, hp, ?_, her, hev, herl⟩
    apply search_of_greatest hs'
    · rw [heq]
      exact mem_insertSorted_of_mem (by simp [List.mem_filter, hem, hnin]) hne
    · exact hec
    · intro x hx hxk
      rw [heq] at hx
      rcases mem_insertSorted hx with rfl | hx
      · -- the new region starts at or before k but does not contain it: it starts before p
        rcases le_total x.r.start e.r.start with h | h
        · exact h
        · exfalso
          have hov : overlaps p.r q.r = true := by
            unfold overlaps
            simp only [Bool.and_eq_true, Bool.or_eq_true]
            rw [← hn, ← her]
            constructor
            · unfold Region.contains at hec
              simp only [Bool.and_eq_true, Bool.or_eq_true] at hec
              rcases hec.2 with h' | h'
              · right; exact lt_of_le_of_lt hxk h'
              · left; exact h'
            · rcases wf_lt_end (r := x.r) (by unfold Region.wf; rw [hn]; exact hpwf q hq) with h0 | h0
              · left; simp [h0]
              · right; exact lt_trans h h0
          rw [hnov] at hov; cases hov
      · exact heg x (List.mem_filter.mp hx).1 hxk

end CGV.Region

namespace CGV.Region
open CGV

theorem loadRegion_cur {pd : PD} {k : Bytes} {p : PdRegion} (hp : pd.getRegion k = some p) :
    loadRegion pd k false = .ok p.toEntry := by
  simp [loadRegion, hp]

theorem loadAndInsert_cur {c : Cache} {pd : PD} (hi : ConvInv c pd) {k : Bytes} {p : PdRegion}
    (hp : pd.getRegion k = some p) :
    findRegionByKey.loadAndInsert pd k false c = ((insertRegionToCache c p.toEntry).1, .ok p.toEntry) := by
  have hok := insert_ok hi (getRegion_spec hp).1 (n := p.toEntry) rfl
  unfold findRegionByKey.loadAndInsert
  rw [loadRegion_cur hp]
  cases hins : insertRegionToCache c p.toEntry with
  | mk c1 ok =>
    rw [hins] at hok
    simp only at hok
    subst hok
    simp [hins]

/-- the four ways LocateKey goes, in the quiet situation -/
theorem locateKey_cases {c : Cache} {pd : PD} (hi : ConvInv c pd) {k : Bytes} {p : PdRegion}
    (hp : pd.getRegion k = some p) :
    (((searchByKey c.sorted k false = none) ∨ (∃ e, searchByKey c.sorted k false = some e ∧ e.valid = false)) ∧
        locateKey c pd k = ((insertRegionToCache c p.toEntry).1, .ok p.r)) ∨
    (∃ e, searchByKey c.sorted k false = some e ∧ e.valid = true ∧ e.reload = true ∧
        locateKey c pd k = ((insertRegionToCache (c.update e.r.verID (fun x => { x with reload := false, delayedOnly := false })) p.toEntry).1,
          .ok p.r)) ∨
    (∃ e, searchByKey c.sorted k false = some e ∧ e.valid = true ∧ e.reload = false ∧
        locateKey c pd k = (c, .ok e.r)) := by
  unfold locateKey findRegionByKey
  cases hs : searchByKey c.sorted k false with
  | none =>
    left
    refine ⟨Or.inl rfl, ?_⟩
    simp only [loadAndInsert_cur hi hp, Except.map, toEntry_r]
  | some e =>
    by_cases hv : e.valid = true
    · by_cases hr : e.reload = true
      · right; left
        refine ⟨e, rfl, hv, hr, ?_⟩
        simp only [hv, hr, Bool.not_true, Bool.false_eq_true, if_false, if_true, loadRegion_cur hp, Except.map,
          toEntry_r]
      · right; right
        have hr' : e.reload = false := by simpa using hr
        refine ⟨e, rfl, hv, hr', ?_⟩
        simp only [hv, hr', Bool.not_true, Bool.false_eq_true, if_false, Except.map]
    · left
      have hv' : e.valid = false := by simpa using hv
      refine ⟨Or.inr ⟨e, rfl, hv'⟩, ?_⟩
      simp only [hv', Bool.not_false, if_true, loadAndInsert_cur hi hp, Except.map, toEntry_r]

theorem toEntry_valid (p : PdRegion) : p.toEntry.valid = true ∧ p.toEntry.reload = false := ⟨rfl, rfl⟩

/-- a settled key is answered from the cache alone (whatever PD would say), unchanged, and accepted -/
theorem settled_served {c : Cache} {pd : PD} {k : Bytes} (hset : Settled c pd k) :
    ∃ p, pd.getRegion k = some p ∧ (∀ pd', locateKey c pd' k = (c, .ok p.r)) ∧
      ∀ fb, attempt c pd k fb = (c, true) := by
  obtain ⟨p, e, hp, hse, her, hev, herl⟩ := hset
  have hloc : ∀ pd', locateKey c pd' k = (c, .ok p.r) := by
    intro pd'
    unfold locateKey findRegionByKey
    simp only [hse, hev, herl, Bool.not_true, Bool.false_eq_true, if_false, Except.map, her]
  refine ⟨p, hp, hloc, ?_⟩
  intro fb
  unfold attempt
  rw [hloc pd, hp]
  simp

end CGV.Region

namespace CGV.Region
open CGV

/-- the key finds an entry that the next lookup will not use as it is (invalidated or marked for reload) -/
def Pending (c : Cache) (k : Bytes) : Prop :=
  ∃ e, searchByKey c.sorted k false = some e ∧ (e.valid = false ∨ e.reload = true)

theorem foldl_insert_settles {pd : PD} (hq0 : QuietPD pd) {k : Bytes} {p : PdRegion} (hp : pd.getRegion k = some p)
    (ns : List Entry) (hns : ∀ n ∈ ns, n.valid = true ∧ n.reload = false ∧ ∃ m ∈ pd, n.r = m.r) {c : Cache}
    (hi : ConvInv c pd) (h : Settled c pd k ∨ ∃ n ∈ ns, n.r = p.r) :
    ConvInv (ns.foldl (fun c e => (insertRegionToCache c e).1) c) pd ∧
      Settled (ns.foldl (fun c e => (insertRegionToCache c e).1) c) pd k := by
  induction ns generalizing c with
  | nil =>
    rcases h with h | ⟨n, hn, _⟩
    · exact ⟨hi, h⟩
    · cases hn
  | cons n ns ih =>
    simp only [List.foldl_cons]
    obtain ⟨hv, hr, m, hm, hnm⟩ := hns n (List.mem_cons_self ..)
    have hi' := insert_convInv hq0 hi hm hnm
    apply ih (fun x hx => hns x (List.mem_cons_of_mem _ hx)) hi'
    rcases h with h | ⟨n', hn', hn'p⟩
    · exact Or.inl (insert_keeps_settled hq0 hi h hm hnm hv hr)
    · rcases List.mem_cons.mp hn' with rfl | hn'
      · exact Or.inl (insert_settles hq0 hi hp hn'p hv hr)
      · exact Or.inr ⟨n', hn', hn'p⟩

theorem byVerID_some_of_mem {c : Cache} {e : Entry} (he : e ∈ c.sorted) : ∃ e0, c.byVerID e.r.verID = some e0 := by
  unfold Cache.byVerID
  cases h : c.sorted.find? (fun x => x.r.verID == e.r.verID) with
  | some e0 => exact ⟨e0, rfl⟩
  | none =>
    have := List.find?_eq_none.mp h e he
    simp at this

/-- one attempt in the quiet situation: the invariant is kept, and the key is settled or pending afterwards -/
theorem attempt_progress {c : Cache} {pd : PD} (hq0 : QuietPD pd) (hi : ConvInv c pd) (k : Bytes) (fb : Feedback) :
    ConvInv (attempt c pd k fb).1 pd ∧ (Settled (attempt c pd k fb).1 pd k ∨ Pending (attempt c pd k fb).1 k) ∧
      ((attempt c pd k fb).2 = true → Settled (attempt c pd k fb).1 pd k) := by
  obtain ⟨p, hp⟩ := hq0.1 k
  obtain ⟨hpm, hpk⟩ := getRegion_spec hp
  rcases locateKey_cases hi hp with ⟨_, hloc⟩ | ⟨e, hse, hv, hr, hloc⟩ | ⟨e, hse, hv, hr, hloc⟩
  · -- loaded from PD
    have : attempt c pd k fb = ((insertRegionToCache c p.toEntry).1, true) := by
      unfold attempt; rw [hloc, hp]; simp
    rw [this]
    exact ⟨insert_convInv hq0 hi hpm rfl, Or.inl (insert_settles hq0 hi hp rfl rfl rfl),
      fun _ => insert_settles hq0 hi hp rfl rfl rfl⟩
  · -- reloaded because of the flag
    have hi1 := update_convInv hi e.r.verID (fun x => { x with reload := false, delayedOnly := false }) (fun _ => rfl)
    have : attempt c pd k fb =
        ((insertRegionToCache (c.update e.r.verID (fun x => { x with reload := false, delayedOnly := false })) p.toEntry).1, true) := by
      unfold attempt; rw [hloc, hp]; simp
    rw [this]
    exact ⟨insert_convInv hq0 hi1 hpm rfl, Or.inl (insert_settles hq0 hi1 hp rfl rfl rfl),
      fun _ => insert_settles hq0 hi1 hp rfl rfl rfl⟩
  · -- served from the cache
    obtain ⟨hem, hec, _⟩ := searchByKey_greatest hi.1 hse
    by_cases heq : p.r = e.r
    · have : attempt c pd k fb = (c, true) := by
        unfold attempt; rw [hloc, hp]; simp [heq]
      rw [this]
      exact ⟨hi, Or.inl ⟨p, e, hp, hse, heq.symm, hv, hr⟩, fun _ => ⟨p, e, hp, hse, heq.symm, hv, hr⟩⟩
    · have hatt : attempt c pd k fb = (applyFeedback c pd e.r fb, false) := by
        unfold attempt; rw [hloc, hp]; simp [heq]
      rw [hatt]
      cases fb with
      | invalidate =>
        simp only [applyFeedback]
        refine ⟨update_convInv hi _ _ (fun _ => rfl), Or.inr ?_, (by intro h; cases h)⟩
        unfold Pending Cache.invalidate Cache.update
        simp only
        rw [searchByKey_map _ (by intro x; split <;> rfl), hse]
        exact ⟨_, rfl, Or.inl (by simp)⟩
      | needReload =>
        simp only [applyFeedback]
        refine ⟨update_convInv hi _ _ (fun _ => rfl), Or.inr ?_, (by intro h; cases h)⟩
        unfold Pending Cache.update
        simp only
        rw [searchByKey_map _ (by intro x; split <;> rfl), hse]
        exact ⟨_, rfl, Or.inr (by simp)⟩
      | epochNotMatch =>
        obtain ⟨e0, he0⟩ := byVerID_some_of_mem hem
        simp only [applyFeedback, he0]
        have hpcur : p ∈ pd.filter (fun q => overlaps e.r q.r) := by
          simp only [List.mem_filter]
          exact ⟨hpm, overlaps_of_contains hec hpk⟩
        unfold onRegionEpochNotMatch
        have hne : (pd.filter (fun q => overlaps e.r q.r)).isEmpty = false := by
          cases hl : pd.filter (fun q => overlaps e.r q.r) with
          | nil => rw [hl] at hpcur; cases hpcur
          | cons a as => rfl
        have hahead : (pd.filter (fun q => overlaps e.r q.r)).any (fun m => m.r.id == e.r.verID.id &&
            (decide (m.r.confVer < e.r.verID.confVer) || decide (m.r.ver < e.r.verID.ver))) = false := by
          rw [List.any_eq_false]
          intro m hm
          simp only [Bool.and_eq_true, beq_iff_eq, Bool.or_eq_true, decide_eq_true_eq, not_and, not_or]
          intro hid
          have := hi.2.2.2.1 e hem m (List.mem_filter.mp hm).1 hid
          simp only [Region.verID]
          omega
        simp only [hne, Bool.false_eq_true, if_false, hahead]
        have hbase : ConvInv (if (!((epochNews e0.leader (pd.filter (fun q => overlaps e.r q.r))).any
            (fun x => x.r.verID == e.r.verID))) = true then c.invalidate e.r.verID else c) pd := by
          split
          · exact update_convInv hi _ _ (fun _ => rfl)
          · exact hi
        have := foldl_insert_settles hq0 hp (epochNews e0.leader (pd.filter (fun q => overlaps e.r q.r)))
          (by
            intro n hn
            unfold epochNews at hn
            obtain ⟨m, hm, rfl⟩ := List.mem_map.mp hn
            exact ⟨rfl, rfl, m, (List.mem_filter.mp hm).1, rfl⟩)
          hbase (Or.inr ⟨_, List.mem_map.mpr ⟨p, hpcur, rfl⟩, rfl⟩)
        exact ⟨this.1, Or.inl this.2, fun _ => this.2⟩

/-- a pending (or uncached) key is settled by the next attempt -/
theorem attempt_settles_pending {c : Cache} {pd : PD} (hq0 : QuietPD pd) (hi : ConvInv c pd) {k : Bytes}
    (hpend : Pending c k ∨ searchByKey c.sorted k false = none) (fb : Feedback) :
    ConvInv (attempt c pd k fb).1 pd ∧ Settled (attempt c pd k fb).1 pd k ∧ (attempt c pd k fb).2 = true := by
  obtain ⟨p, hp⟩ := hq0.1 k
  obtain ⟨hpm, _⟩ := getRegion_spec hp
  rcases locateKey_cases hi hp with ⟨_, hloc⟩ | ⟨e, hse, hv, hr, hloc⟩ | ⟨e, hse, hv, hr, hloc⟩
  · have : attempt c pd k fb = ((insertRegionToCache c p.toEntry).1, true) := by
      unfold attempt; rw [hloc, hp]; simp
    rw [this]
    exact ⟨insert_convInv hq0 hi hpm rfl, insert_settles hq0 hi hp rfl rfl rfl, rfl⟩
  · have hi1 := update_convInv hi e.r.verID (fun x => { x with reload := false, delayedOnly := false }) (fun _ => rfl)
    have : attempt c pd k fb =
        ((insertRegionToCache (c.update e.r.verID (fun x => { x with reload := false, delayedOnly := false })) p.toEntry).1, true) := by
      unfold attempt; rw [hloc, hp]; simp
    rw [this]
    exact ⟨insert_convInv hq0 hi1 hpm rfl, insert_settles hq0 hi1 hp rfl rfl rfl, rfl⟩
  · exfalso
    rcases hpend with ⟨e', hse', hbad⟩ | hnone
    · rw [hse] at hse'
      cases hse'
      rcases hbad with h | h
      · rw [hv] at h; cases h
      · rw [hr] at h; cases h
    · rw [hse] at hnone; cases hnone

end CGV.Region

namespace CGV.Region
open CGV

/-- at most one rejected attempt: the second attempt at the latest is accepted and leaves the key settled -/
theorem attempts_bound {c : Cache} {pd : PD} (hq0 : QuietPD pd) (hi : ConvInv c pd) (k : Bytes) (fb : Feedback)
    (n : Nat) : ∃ c' failed, attempts (n + 2) c pd k fb 0 = (c', some failed) ∧ failed ≤ 1 ∧
      Settled c' pd k ∧ ConvInv c' pd := by
  obtain ⟨hi1, hsp, hacc⟩ := attempt_progress hq0 hi k fb
  cases h1 : attempt c pd k fb with
  | mk c1 b1 =>
    rw [h1] at hi1 hsp hacc
    cases b1 with
    | true =>
      refine ⟨c1, 0, ?_, Nat.zero_le _, hacc rfl, hi1⟩
      simp [attempts, h1]
    | false =>
      have h2 : ∃ c2, attempt c1 pd k fb = (c2, true) ∧ Settled c2 pd k ∧ ConvInv c2 pd := by
        rcases hsp with hs | hpend
        · obtain ⟨_, _, _, hfix⟩ := settled_served hs
          exact ⟨c1, hfix fb, hs, hi1⟩
        · obtain ⟨a, b, d⟩ := attempt_settles_pending hq0 hi1 (Or.inl hpend) fb
          cases h : attempt c1 pd k fb with
          | mk c2 b2 =>
            rw [h] at a b d
            simp only at d
            subst d
            exact ⟨c2, rfl, b, a⟩
      obtain ⟨c2, h2a, h2b, h2c⟩ := h2
      refine ⟨c2, 1, ?_, Nat.le_refl _, h2b, h2c⟩
      simp [attempts, h1, h2a]

end CGV.Region

namespace CGV.Region
open CGV

/-! ## several keys: what is settled stays settled while other keys are being driven -/

/-- changing mutable bits keeps a key settled as long as its entry stays valid and unflagged -/
theorem update_keeps_settled {c : Cache} {pd : PD} {k : Bytes} (hset : Settled c pd k) (v : VerID) (f : Entry → Entry)
    (hf : ∀ e, (f e).r = e.r)
    (hgood : ∀ e, searchByKey c.sorted k false = some e → e.r.verID = v → (f e).valid = true ∧ (f e).reload = false) :
    Settled (c.update v f) pd k := by
  obtain ⟨p, e, hp, hse, her, hev, herl⟩ := hset
  have hg : ∀ x : Entry, (if x.r.verID == v then f x else x).r = x.r := by
    intro x; split
    · exact hf x
    · rfl
  refine ⟨p, if e.r.verID == v then f e else e, hp, ?_, ?_, ?_, ?_⟩
  · unfold Cache.update
    simp only
    rw [searchByKey_map _ hg, hse]; rfl
  · rw [hg e]; exact her
  · split
    · rename_i h; exact (hgood e hse (by simpa using h)).1
    · exact hev
  · split
    · rename_i h; exact (hgood e hse (by simpa using h)).2
    · exact herl

theorem getRegion_unique {pd : PD} (hq0 : QuietPD pd) {k : Bytes} {p q : PdRegion} (hp : pd.getRegion k = some p)
    (hq : q ∈ pd) (hqk : q.r.contains k = true) : q = p := by
  obtain ⟨hpm, hpk⟩ := getRegion_spec hp
  exact hq0.2.2.1 q hq p hpm (overlaps_of_contains hqk hpk)

/-- an attempt for another key keeps a settled key settled -/
theorem attempt_keeps_settled {c : Cache} {pd : PD} (hq0 : QuietPD pd) (hi : ConvInv c pd) {k : Bytes}
    (hset : Settled c pd k) (k' : Bytes) (fb : Feedback) : Settled (attempt c pd k' fb).1 pd k := by
  obtain ⟨p', hp'⟩ := hq0.1 k'
  obtain ⟨hp'm, hp'k⟩ := getRegion_spec hp'
  rcases locateKey_cases hi hp' with ⟨_, hloc⟩ | ⟨e', hse', hv', hr', hloc⟩ | ⟨e', hse', hv', hr', hloc⟩
  · have : attempt c pd k' fb = ((insertRegionToCache c p'.toEntry).1, true) := by
      unfold attempt; rw [hloc, hp']; simp
    rw [this]
    exact insert_keeps_settled hq0 hi hset hp'm rfl rfl rfl
  · have hi1 := update_convInv hi e'.r.verID (fun x => { x with reload := false, delayedOnly := false }) (fun _ => rfl)
    have hs1 : Settled (c.update e'.r.verID (fun x => { x with reload := false, delayedOnly := false })) pd k := by
      apply update_keeps_settled hset e'.r.verID (fun x => { x with reload := false, delayedOnly := false }) (fun _ => rfl)
      intro e hse _
      obtain ⟨p, e0, _, hse0, _, hev, _⟩ := hset
      rw [hse] at hse0; cases hse0
      exact ⟨hev, rfl⟩
    have : attempt c pd k' fb =
        ((insertRegionToCache (c.update e'.r.verID (fun x => { x with reload := false, delayedOnly := false })) p'.toEntry).1, true) := by
      unfold attempt; rw [hloc, hp']; simp
    rw [this]
    exact insert_keeps_settled hq0 hi1 hs1 hp'm rfl rfl rfl
  · obtain ⟨he'm, he'c, _⟩ := searchByKey_greatest hi.1 hse'
    by_cases heq : p'.r = e'.r
    · have : attempt c pd k' fb = (c, true) := by
        unfold attempt; rw [hloc, hp']; simp [heq]
      rw [this]; exact hset
    · have hatt : attempt c pd k' fb = (applyFeedback c pd e'.r fb, false) := by
        unfold attempt; rw [hloc, hp']; simp [heq]
      rw [hatt]
      -- the settled entry does not carry the stale location's VerID
      have hdiff : ∀ e, searchByKey c.sorted k false = some e → e.r.verID = e'.r.verID → False := by
        intro e hse hvid
        obtain ⟨p, e0, hp, hse0, her, _, _⟩ := hset
        rw [hse] at hse0; cases hse0
        obtain ⟨hpm, _⟩ := getRegion_spec hp
        have h1 : e'.r = p.r := hi.2.2.2.2.2 e' he'm p hpm (by rw [← hvid, her])
        have h2 : p = p' := getRegion_unique hq0 hp' hpm (by rw [← h1]; exact he'c)
        subst h2
        exact heq h1.symm
      cases fb with
      | invalidate =>
        simp only [applyFeedback, Cache.invalidate]
        exact update_keeps_settled hset _ _ (fun _ => rfl) (fun e hse hvid => absurd hvid (fun h => hdiff e hse h))
      | needReload =>
        simp only [applyFeedback]
        exact update_keeps_settled hset _ _ (fun _ => rfl) (fun e hse hvid => absurd hvid (fun h => hdiff e hse h))
      | epochNotMatch =>
        simp only [applyFeedback]
        split
        · exact hset
        · rename_i e0 _
          unfold onRegionEpochNotMatch
          split
          · exact update_keeps_settled hset _ _ (fun _ => rfl)
              (fun e hse hvid => absurd hvid (fun h => hdiff e hse h))
          · split
            · exact hset
            · simp only
              obtain ⟨p, hp⟩ := hq0.1 k
              have hbase : ConvInv (if (!((epochNews e0.leader (pd.filter (fun q => overlaps e'.r q.r))).any
                    (fun x => x.r.verID == e'.r.verID))) = true then c.invalidate e'.r.verID else c) pd ∧
                  Settled (if (!((epochNews e0.leader (pd.filter (fun q => overlaps e'.r q.r))).any
                    (fun x => x.r.verID == e'.r.verID))) = true then c.invalidate e'.r.verID else c) pd k := by
                split
                · exact ⟨update_convInv hi _ _ (fun _ => rfl),
                    update_keeps_settled hset _ _ (fun _ => rfl)
                      (fun e hse hvid => absurd hvid (fun h => hdiff e hse h))⟩
                · exact ⟨hi, hset⟩
              exact (foldl_insert_settles hq0 hp (epochNews e0.leader (pd.filter (fun q => overlaps e'.r q.r)))
                (by
                  intro n hn
                  unfold epochNews at hn
                  obtain ⟨m, hm, rfl⟩ := List.mem_map.mp hn
                  exact ⟨rfl, rfl, m, (List.mem_filter.mp hm).1, rfl⟩)
                hbase.1 (Or.inl hbase.2)).2

theorem attempts_keeps_settled {c : Cache} {pd : PD} (hq0 : QuietPD pd) (hi : ConvInv c pd) {k : Bytes}
    (hset : Settled c pd k) (n : Nat) (k' : Bytes) (fb : Feedback) (failed : Nat) :
    Settled (attempts n c pd k' fb failed).1 pd k := by
  induction n generalizing c failed with
  | zero => exact hset
  | succ n ih =>
    simp only [attempts]
    have h1 := attempt_keeps_settled hq0 hi hset k' fb
    have h2 := (attempt_progress hq0 hi k' fb).1
    cases ha : attempt c pd k' fb with
    | mk c1 b =>
      rw [ha] at h1 h2
      cases b with
      | true => exact h1
      | false => exact ih h2 h1 _

/-- drive a list of keys one after the other (at least two attempts allowed per key) -/
def driveKeys (n : Nat) (pd : PD) (fb : Feedback) : List Bytes → Cache → Nat → Cache × Nat
  | [], c, rejected => (c, rejected)
  | k :: ks, c, rejected =>
    match attempts (n + 2) c pd k fb 0 with
    | (c1, some f) => driveKeys n pd fb ks c1 (rejected + f)
    | (c1, none) => driveKeys n pd fb ks c1 (rejected + n + 2)

theorem driveKeys_spec {pd : PD} (hq0 : QuietPD pd) (n : Nat) (fb : Feedback) (keys : List Bytes) {c : Cache}
    (hi : ConvInv c pd) (rejected : Nat) (done : List Bytes) (hdone : ∀ k ∈ done, Settled c pd k) :
    ConvInv (driveKeys n pd fb keys c rejected).1 pd ∧
      (∀ k ∈ done ++ keys, Settled (driveKeys n pd fb keys c rejected).1 pd k) ∧
      (driveKeys n pd fb keys c rejected).2 ≤ rejected + keys.length := by
  induction keys generalizing c rejected done with
  | nil => exact ⟨hi, (by simpa [driveKeys] using hdone), (by simp [driveKeys])⟩
  | cons k ks ih =>
    obtain ⟨c1, f, hatt, hf, hs1, hi1⟩ := attempts_bound hq0 hi k fb n
    have hkeep : ∀ k0 ∈ done, Settled c1 pd k0 := by
      intro k0 hk0
      have := attempts_keeps_settled hq0 hi (hdone k0 hk0) (n + 2) k fb 0
      rw [hatt] at this; exact this
    simp only [driveKeys, hatt]
    have := ih hi1 (rejected + f) (done ++ [k]) (by
      intro k0 hk0
      rcases List.mem_append.mp hk0 with h | h
      · exact hkeep k0 h
      · simp only [List.mem_singleton] at h; subst h; exact hs1)
    refine ⟨this.1, ?_, ?_⟩
    · intro k0 hk0
      apply this.2.1
      simpa using hk0
    · have h3 := this.2.2
      simp only [List.length_cons]
      omega

end CGV.Region
