/-
  C08 helper lemmas, part 7: op sequences; what a stage / a checkpoint preserves.
-/
import ClientGoVerif.Proofs.VLogFrame
namespace CGV.MemBuf
open CGV

def VLog.run (m : VLog) : List Op → VLog × List Out
  | [] => (m, [])
  | op :: rest =>
    let r := m.step op
    let r' := VLog.run r.1 rest
    (r'.1, r.2 :: r'.2)

def Spec.run (s : Spec) : List Op → Spec × List Out
  | [] => (s, [])
  | op :: rest =>
    let r := s.step op
    let r' := Spec.run r.1 rest
    (r'.1, r.2 :: r'.2)

theorem run_refines {m : VLog} (hi : Inv m) (ops : List Op) :
    (abs m).run ops = (abs (m.run ops).1, (m.run ops).2) ∧ Inv (m.run ops).1 := by
  induction ops generalizing m with
  | nil => exact ⟨rfl, hi⟩
  | cons op rest ih =>
    obtain ⟨h1, h2⟩ := step_refines hi op
    obtain ⟨h3, h4⟩ := ih h2
    refine ⟨?_, h4⟩
    show ((Spec.run ((abs m).step op).1 rest).1, ((abs m).step op).2 :: (Spec.run ((abs m).step op).1 rest).2) = _
    rw [h1]
    show ((Spec.run (abs (m.step op).1) rest).1, (m.step op).2 :: (Spec.run (abs (m.step op).1) rest).2) = _
    rw [h3]
    rfl

/-- every call of the sequence is `Allowed` in the state it is issued in -/
def Respects (mark : Nat) (pre : List Nat) : Spec → List Op → Prop
  | _, [] => True
  | s, op :: rest => Allowed mark pre s op ∧ Respects mark pre (s.step op).1 rest

theorem frame_run {mark : Nat} {pre : List Nat} {old : Bytes → List Version} :
    ∀ (ops : List Op) (s : Spec), Frame mark pre old s → Respects mark pre s ops → Frame mark pre old (s.run ops).1 := by
  intro ops
  induction ops with
  | nil => intro s hf _; exact hf
  | cons op rest ih =>
    intro s hf hr
    simp only [Spec.run]
    exact ih _ (frame_step hf op hr.1) hr.2

/-- the sequence never releases or cleans up a stage with handle ≤ `base` -/
def KeepsStage (base : Nat) : Spec → List Op → Prop
  | _, [] => True
  | s, op :: rest =>
    (match op with
     | .release h => h = 0 ∨ h ≠ s.marks.length ∨ base < s.marks.length
     | .cleanup h => h = 0 ∨ h ≠ s.marks.length ∨ base < s.marks.length
     | _ => True) ∧ KeepsStage base (s.step op).1 rest

theorem getLast_ge_mark (pre0 : List Nat) (mark : Nat) (ext : List Nat) (hext : ∀ c ∈ ext, mark ≤ c) :
    ∃ m, (pre0 ++ [mark] ++ ext).getLast? = some m ∧ mark ≤ m := by
  cases hl : ext.getLast? with
  | none =>
    have : ext = [] := by simpa using hl
    subst this
    exact ⟨mark, by simp, Nat.le_refl _⟩
  | some x =>
    have hne : ext ≠ [] := by intro h; rw [h] at hl; simp at hl
    refine ⟨x, ?_, hext x (List.mem_of_getLast? hl)⟩
    rw [getLast_append_ne_nil _ _ hne]; exact hl

/-- inside an open stage every call that does not pop the stage is `Allowed` -/
theorem allowed_of_stage {mark : Nat} {pre0 : List Nat} {old : Bytes → List Version} {s : Spec}
    (hf : Frame mark (pre0 ++ [mark]) old s) (op : Op)
    (hk : match op with
      | .release h => h = 0 ∨ h ≠ s.marks.length ∨ (pre0 ++ [mark]).length < s.marks.length
      | .cleanup h => h = 0 ∨ h ≠ s.marks.length ∨ (pre0 ++ [mark]).length < s.marks.length
      | _ => True) : Allowed mark (pre0 ++ [mark]) s op := by
  obtain ⟨ext, hm, hext⟩ := hf.marks
  obtain ⟨mk, hmk, hle⟩ := getLast_ge_mark pre0 mark ext hext
  rw [← hm] at hmk
  cases op with
  | release h => exact hk
  | cleanup h => exact hk
  | set k v ops =>
    simp only [Allowed, SafeSwap]
    split
    · rename_i a old' rest' _
      intro hbad
      have hcm := hbad.2.1
      simp only [Spec.canModify, hmk, decide_eq_true_eq] at hcm
      omega
    · trivial
  | revert cp =>
    simp only [Allowed, hmk, Bool.and_eq_true, decide_eq_true_eq]
    intro hc; omega
  | _ => trivial

theorem respects_of_keepsStage {mark : Nat} {pre0 : List Nat} {old : Bytes → List Version} :
    ∀ (ops : List Op) (s : Spec), Frame mark (pre0 ++ [mark]) old s → KeepsStage (pre0.length + 1) s ops →
      Respects mark (pre0 ++ [mark]) s ops := by
  intro ops
  induction ops with
  | nil => intro _ _ _; trivial
  | cons op rest ih =>
    intro s hf hk
    have ha : Allowed mark (pre0 ++ [mark]) s op := by
      apply allowed_of_stage hf
      have := hk.1
      cases op <;> simp_all
    exact ⟨ha, ih _ (frame_step hf op ha) hk.2⟩

end CGV.MemBuf
