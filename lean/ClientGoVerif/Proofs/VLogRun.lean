/-
  C08 helper lemmas, part 7: op sequences; what a stage / a checkpoint preserves.
-/
import ClientGoVerif.Proofs.VLogFrame
namespace CGV.MemBuf
open CGV

def VLog.run (m : VLog) : List Op → VLog × List Out
  | [] => (m, [])
  | op :: rest =>
    let r := m.step op
    let r' := VLog.run r.1 rest
    (r'.1, r.2 :: r'.2)

def Spec.run (s : Spec) : List Op → Spec × List Out
  | [] => (s, [])
  | op :: rest =>
    let r := s.step op
    let r' := Spec.run r.1 rest
    (r'.1, r.2 :: r'.2)

theorem run_refines {m : VLog} (hi : Inv m) (ops : List Op) :
    (abs m).run ops = (abs (m.run ops).1, (m.run ops).2) ∧ Inv (m.run ops).1 := by
  induction ops generalizing m with
  | nil => exact ⟨rfl, hi⟩
  | cons op rest ih =>
    obtain ⟨h1, h2⟩ := step_refines hi op
    obtain ⟨h3, h4⟩ := ih h2
    refine ⟨?_, h4⟩
    show ((Spec.run ((abs m).step op).1 rest).1, ((abs m).step op).2 :: (Spec.run ((abs m).step op).1 rest).2) = _
    rw [h1]
    show ((Spec.run (abs (m.step op).1) rest).1, (m.step op).2 :: (Spec.run (abs (m.step op).1) rest).2) = _
    rw [h3]
    rfl

/-- every call of the sequence is `Allowed` in the state it is issued in -/
def Respects (mark : Nat) (pre : List Nat) : Spec → List Op → Prop
  | _, [] => True
  | s, op :: rest => Allowed mark pre s op ∧ Respects mark pre (s.step op).1 rest

theorem frame_run {mark : Nat} {pre : List Nat} {old : Bytes → List Version} :
    ∀ (ops : List Op) (s : Spec), Frame mark pre old s → Respects mark pre s ops → Frame mark pre old (s.run ops).1 := by
  intro ops
  induction ops with
  | nil => intro s hf _; exact hf
  | cons op rest ih =>
    intro s hf hr
    simp only [Spec.run]
    exact ih _ (frame_step hf op hr.1) hr.2

/-- calls that never revert to a checkpoint older than `cp` -/
def NoRevertBelow (cp : Nat) (ops : List Op) : Prop :=
  ∀ op ∈ ops, match op with | .revert c => cp ≤ c | _ => True

/-- the sequence never releases or cleans up a stage with handle ≤ `base` -/
def KeepsStage (base : Nat) : Spec → List Op → Prop
  | _, [] => True
  | s, op :: rest =>
    (match op with
     | .release h => h = 0 ∨ h ≠ s.marks.length ∨ base < s.marks.length
     | .cleanup h => h = 0 ∨ h ≠ s.marks.length ∨ base < s.marks.length
     | _ => True) ∧ KeepsStage base (s.step op).1 rest

theorem getLast_ge_mark (pre0 : List Nat) (mark : Nat) (ext : List Nat) (hext : ∀ c ∈ ext, mark ≤ c) :
    ∃ m, (pre0 ++ [mark] ++ ext).getLast? = some m ∧ mark ≤ m := by
  cases hl : ext.getLast? with
  | none =>
    have : ext = [] := by simpa using hl
    subst this
    exact ⟨mark, by simp, Nat.le_refl _⟩
  | some x =>
    have hne : ext ≠ [] := by intro h; rw [h] at hl; simp at hl
    refine ⟨x, ?_, hext x (List.mem_of_getLast? hl)⟩
    rw [getLast_append_ne_nil _ _ hne]; exact hl

/-- inside an open stage every call that does not pop the stage is `Allowed` -/
theorem allowed_of_stage {mark : Nat} {pre0 : List Nat} {old : Bytes → List Version} {s : Spec}
    (hf : Frame mark (pre0 ++ [mark]) old s) (op : Op)
    (hk : match op with
      | .release h => h = 0 ∨ h ≠ s.marks.length ∨ (pre0 ++ [mark]).length < s.marks.length
      | .cleanup h => h = 0 ∨ h ≠ s.marks.length ∨ (pre0 ++ [mark]).length < s.marks.length
      | _ => True) : Allowed mark (pre0 ++ [mark]) s op := by
  obtain ⟨ext, hm, hext⟩ := hf.marks
  obtain ⟨mk, hmk, hle⟩ := getLast_ge_mark pre0 mark ext hext
  rw [← hm] at hmk
  cases op with
  | release h => exact hk
  | cleanup h => exact hk
  | set k v ops =>
    simp only [Allowed, SafeSwap]
    split
    · rename_i a old' rest' _
      intro hbad
      have hcm := hbad.2.1
      simp only [Spec.canModify, hmk, decide_eq_true_eq] at hcm
      omega
    · trivial
  | revert cp =>
    simp only [Allowed, hmk, Bool.and_eq_true, decide_eq_true_eq]
    intro hc; omega
  | _ => trivial

theorem respects_of_keepsStage {mark : Nat} {pre0 : List Nat} {old : Bytes → List Version} :
    ∀ (ops : List Op) (s : Spec), Frame mark (pre0 ++ [mark]) old s → KeepsStage (pre0.length + 1) s ops →
      Respects mark (pre0 ++ [mark]) s ops := by
  intro ops
  induction ops with
  | nil => intro _ _ _; trivial
  | cons op rest ih =>
    intro s hf hk
    have ha : Allowed mark (pre0 ++ [mark]) s op := by
      apply allowed_of_stage hf
      have := hk.1
      cases op <;> simp_all
    exact ⟨ha, ih _ (frame_step hf op ha) hk.2⟩

/-! ## sorted histories: forgetting = filtering -/

theorem versionsOf_sorted (k : Bytes) (log : List Entry) : (versionsOf k log).Pairwise (fun x y => x.1 > y.1) := by
  induction log with
  | nil => simp [versionsOf]
  | cons e tl ih =>
    simp only [versionsOf]
    split
    · rw [List.pairwise_cons]
      refine ⟨?_, ih⟩
      intro y hy
      have := versionsOf_addr_le k tl y hy
      show tl.length + 1 > y.1
      omega
    · exact ih

theorem dropWhile_eq_filter (mark : Nat) (vs : List Version) (hs : vs.Pairwise (fun x y => x.1 > y.1)) :
    vs.dropWhile (fun x => x.1 > mark) = oldPart mark vs := by
  induction vs with
  | nil => rfl
  | cons x xs ih =>
    have hs' := List.pairwise_cons.mp hs
    by_cases hx : x.1 > mark
    · have h1 : ¬ x.1 ≤ mark := by omega
      simp only [List.dropWhile_cons, hx, decide_true, if_true, oldPart, List.filter_cons, h1, decide_false]
      exact ih hs'.2
    · have h1 : x.1 ≤ mark := by omega
      have hall : ∀ y ∈ xs, decide (y.1 ≤ mark) = true := by
        intro y hy; have := hs'.1 y hy; simp; omega
      simp only [List.dropWhile_cons, hx, decide_false, oldPart, List.filter_cons, h1, decide_true, if_true]
      simp only [Bool.false_eq_true, if_false]
      congr 1
      exact (List.filter_eq_self.mpr hall).symm

theorem undoCell_versions_sorted (mark : Nat) (c : Cell) (hs : c.versions.Pairwise (fun x y => x.1 > y.1)) :
    (Spec.undoCell mark c).versions = oldPart mark c.versions := by
  have hd := dropWhile_eq_filter mark c.versions hs
  simp only [Spec.undoCell]
  split
  · rename_i hnil; rw [hnil]; rfl
  · rename_i a v rest hv
    split
    · rename_i ha
      rw [← hd, hv]
      have : ¬ a > mark := by omega
      simp [List.dropWhile_cons, this]
    · split
      · rename_i hemp
        have hfr : (Spec.flagsRule c).versions = [] := by simp only [Spec.flagsRule]; split <;> rfl
        rw [hfr, ← hd]
        exact (by simpa using hemp : c.versions.dropWhile (fun x => decide (x.1 > mark)) = []).symm
      · exact hd

theorem vers_abs (m : VLog) (k : Bytes) : (abs m).vers k = ((m.findNode k).map (fun n => versionsOf n.key m.log)).getD [] := by
  simp only [Spec.vers, abs_find]
  cases m.findNode k <;> rfl

theorem vers_abs_sorted (m : VLog) (k : Bytes) : ((abs m).vers k).Pairwise (fun x y => x.1 > y.1) := by
  rw [vers_abs]
  cases m.findNode k with
  | none => simp
  | some n => exact versionsOf_sorted n.key m.log

theorem vers_abs_le (m : VLog) (k : Bytes) : ∀ x ∈ (abs m).vers k, x.1 ≤ m.log.length := by
  rw [vers_abs]
  cases m.findNode k with
  | none => simp
  | some n => intro x hx; exact (versionsOf_addr_le n.key m.log x hx).2

theorem vers_undoTo_abs (m : VLog) (mark : Nat) (k : Bytes) : ((abs m).undoTo mark).vers k = oldPart mark ((abs m).vers k) := by
  have hs := vers_abs_sorted m k
  simp only [Spec.vers, Spec.find, Spec.undoTo, find_map_undoCell] at hs ⊢
  cases hf : (abs m).cells.find? (fun c => c.key = k) with
  | none => rfl
  | some c =>
    rw [hf] at hs
    simp only [Option.map_some, Option.getD_some] at hs ⊢
    exact undoCell_versions_sorted mark c hs

theorem oldPart_self (mark : Nat) (vs : List Version) (h : ∀ x ∈ vs, x.1 ≤ mark) : oldPart mark vs = vs := by
  simp only [oldPart]
  exact List.filter_eq_self.mpr (fun x hx => by simpa using h x hx)

/-! ## answers expressed through the history -/

theorem get_out (s : Spec) (k : Bytes) :
    (s.step (.get k)).2 = (match (s.vers k).head? with | some x => Out.val x.2 | none => Out.notFound) := by
  simp only [Spec.step, Spec.vers]
  cases s.find k with
  | none => rfl
  | some c =>
    simp only [Cell.value, Option.map_some, Option.getD_some]
    cases c.versions.head? <;> rfl

theorem find?_oldPart (mark : Nat) (vs : List Version) : vs.find? (fun x => x.1 ≤ mark) = (oldPart mark vs).head? := by
  induction vs with
  | nil => rfl
  | cons x xs ih =>
    by_cases h : x.1 ≤ mark
    · simp [oldPart, List.find?_cons, h]
    · simp only [oldPart, List.find?_cons, h, decide_false, List.filter_cons]
      exact ih

theorem snapGet_out (s : Spec) (k : Bytes) :
    (s.step (.snapGet k)).2 = (match (oldPart s.snapMark (s.vers k)).head? with | some x => Out.val x.2 | none => Out.notFound) := by
  rw [← find?_oldPart]
  simp only [Spec.step, Spec.vers]
  cases s.find k with
  | none => rfl
  | some c =>
    simp only [Cell.snapValue, Option.map_some, Option.getD_some]
    cases c.versions.find? (fun x => x.1 ≤ s.snapMark) <;> rfl

/-- Cleanup of the top stage = forget everything newer than its mark, pop the mark -/
theorem cleanup_top_refines (m2 : VLog) (hi2 : Inv m2) (pre : List Nat) (mark : Nat) (hst : m2.stages = pre ++ [mark]) :
    abs (m2.step (.cleanup (pre.length + 1))).1 = { (abs m2).undoTo mark with marks := pre } := by
  have hlen : m2.stages.length = pre.length + 1 := by rw [hst]; simp
  have hlast : m2.stages.getLast? = some mark := by rw [hst]; simp
  have hdrop : m2.stages.dropLast = pre := by rw [hst]; simp
  have hstep : (m2.step (.cleanup (pre.length + 1))).1 = { (m2.revertTo mark) with stages := pre } := by
    simp only [VLog.step, hlen, hlast, hdrop]
    simp
  rw [hstep]
  have hmark : mark ≤ m2.log.length := hi2.stagesLe mark (by rw [hst]; simp)
  have hle := sorted_le_last m2.stages hi2.stagesSorted mark hlast
  have hsorted : pre.Pairwise (· ≤ ·) := by
    have := hi2.stagesSorted
    rw [hst, List.pairwise_append] at this
    exact this.1
  exact (revertTo_refines hi2 mark hmark pre (fun c hc => hle c (by rw [hst]; simp [hc])) hsorted).1

theorem staging_abs (m : VLog) : abs (m.step .staging).1 = { abs m with marks := m.stages ++ [m.log.length] } := rfl

theorem stage_frame (m : VLog) :
    Frame m.log.length (m.stages ++ [m.log.length]) (fun k => (abs m).vers k) (abs (m.step .staging).1) := by
  refine ⟨⟨[], by rw [staging_abs]; simp, by simp⟩, Nat.le_refl _, ?_⟩
  intro k
  have : (abs (m.step .staging).1).vers k = (abs m).vers k := rfl
  rw [this]
  exact oldPart_self _ _ (vers_abs_le m k)

theorem get_eq_of_vers (m m' : VLog) (hi : Inv m) (hi' : Inv m') (k : Bytes) (h : (abs m').vers k = (abs m).vers k) :
    (m'.step (.get k)).2 = (m.step (.get k)).2 := by
  have e := (step_refines hi (.get k)).1
  have e' := (step_refines hi' (.get k)).1
  have h1 : (m.step (.get k)).2 = ((abs m).step (.get k)).2 := by rw [e]
  have h2 : (m'.step (.get k)).2 = ((abs m').step (.get k)).2 := by rw [e']
  rw [h1, h2, get_out, get_out, h]

theorem set_ok_state (s : Spec) (k v : Bytes) (ops : List Nat) (hok : (s.step (.set k v ops)).2 = .ok) :
    (s.step (.set k v ops)).1 = s.writeCore k (some v) ops := by
  simp only [Spec.step] at hok ⊢
  by_cases hv : v.isEmpty = true
  · rw [if_pos hv] at hok; cases hok
  · rw [if_neg hv] at hok ⊢
    simp only [Spec.write] at hok ⊢
    by_cases h1 : k.length > Gen.MemLimits.maxKeyLen
    · rw [if_pos h1] at hok; cases hok
    · rw [if_neg h1] at hok ⊢
      by_cases h2 : Spec.entryTooLarge k (some v) s.entryLimit = true
      · rw [if_pos h2] at hok; cases hok
      · rw [if_neg h2] at hok ⊢
        split <;> rfl

/-- the reference computation behind `flags_survive_iff_persistent` -/
theorem flags_after_undo (s0 : Spec) (k v : Bytes) (ops : List Nat) (hv0 : s0.vers k = []) :
    let s1 : Spec := { s0 with marks := s0.marks ++ [s0.clock] }
    let s2 := s1.writeCore k (some v) ops
    let s3 : Spec := { s2.undoTo s0.clock with marks := s0.marks }
    let f2 := Spec.writeFlags ((s0.find k).getD (Spec.fresh k)).flags (some v) ops
    (s2.step (.getFlags k)).2 = .flags f2 ∧
    (s3.step (.getFlags k)).2 = (if KeyFlags.andPersistent f2 = 0 then Out.notFound else Out.flags (KeyFlags.andPersistent f2)) := by
  intro s1 s2 s3 f2
  have hvers0 : ((s0.find k).getD (Spec.fresh k)).versions = [] := by rw [vers_getD]; exact hv0
  have hkey0 : ((s0.find k).getD (Spec.fresh k)).key = k := by
    simp only [Spec.find]
    cases hf : s0.cells.find? (fun c => c.key = k) with
    | none => rfl
    | some c => simpa using List.find?_some hf
  have hfind2 : s2.find k = some { key := k, present := true, flags := f2, versions := [(s0.clock + 1, v)] } := by
    simp only [s2, Spec.writeCore, Spec.find]
    rw [find_upsert_same _ _ _ ?_]
    · have hc : (s1.cells.find? (fun c => c.key = k)).getD (Spec.fresh k) = (s0.find k).getD (Spec.fresh k) := rfl
      rw [hc, hvers0]
      simp only [Spec.pushOrSwap, hkey0]
      rfl
    · intro c; rfl
  constructor
  · simp only [Spec.step, hfind2]
    rfl
  · have hfind3 : s3.find k = (s2.find k).map (Spec.undoCell s0.clock) := by
      simp only [s3, Spec.find, Spec.undoTo, find_map_undoCell]
    simp only [Spec.step, hfind3, hfind2, Option.map_some]
    have hnle : ¬ s0.clock + 1 ≤ s0.clock := by omega
    have hgt : decide (s0.clock + 1 > s0.clock) = true := by simp
    simp only [Spec.undoCell, hnle, if_false, List.dropWhile_cons, hgt, if_true, List.dropWhile_nil, List.isEmpty_nil,
      Spec.flagsRule]
    by_cases hk0 : KeyFlags.andPersistent f2 = 0
    · simp [hk0]
    · simp [hk0]

theorem revert_ok_state (m2 : VLog) (cp : Nat) (hok : (m2.step (.revert cp)).2 = .ok) :
    (m2.step (.revert cp)).1 = m2.revertTo cp ∧ cp ≤ m2.checkpoint ∧ (∀ c, m2.stages.getLast? = some c → c ≤ cp) := by
  cases hl : m2.stages.getLast? with
  | none =>
    simp only [VLog.step, hl, Bool.and_true] at hok ⊢
    by_cases h : cp ≤ m2.checkpoint
    · simp [h]
    · simp [h] at hok
  | some x =>
    simp only [VLog.step, hl] at hok ⊢
    by_cases h : cp ≤ m2.checkpoint
    · by_cases h' : x ≤ cp
      · simp [h, h']
      · simp [h, h'] at hok
    · simp [h] at hok

/-! ## the remembered checkpoint (`guard`) makes every write safe -/

theorem guard_write (s : Spec) (k : Bytes) (v : Option Bytes) (ops : List Nat) : (s.write k v ops).1.guard = s.guard := by
  have hcore : (s.writeCore k v ops).guard = s.guard := by cases v <;> rfl
  simp only [Spec.write]
  split
  · rfl
  · split
    · rfl
    · split <;> exact hcore

theorem guard_step {mark : Nat} {pre : List Nat} {old : Bytes → List Version} {s : Spec} (hf : Frame mark pre old s)
    (hg : mark ≤ s.guard) (op : Op) (ha : Allowed mark pre s op) : mark ≤ (s.step op).1.guard := by
  obtain ⟨ext, hm, hext⟩ := hf.marks
  cases op with
  | set k v ops =>
    simp only [Spec.step]
    split
    · exact hg
    · rw [guard_write]; exact hg
  | del k ops => simp only [Spec.step]; rw [guard_write]; exact hg
  | upd k ops => simp only [Spec.step]; rw [guard_write]; exact hg
  | get k => simp only [Spec.step]; split <;> (try split) <;> exact hg
  | getFlags k => simp only [Spec.step]; split <;> (try split) <;> exact hg
  | iter lo hi rev wf => exact hg
  | snapGet k => simp only [Spec.step]; split <;> (try split) <;> exact hg
  | snapIter lo hi rev => exact hg
  | len => exact hg
  | size => exact hg
  | dirty => exact hg
  | staging => exact hg
  | release h =>
    simp only [Spec.step]
    split
    · exact hg
    · split <;> exact hg
  | cleanup h =>
    simp only [Spec.step]
    by_cases h0 : h = 0
    · rw [if_pos h0]; exact hg
    · rw [if_neg h0]
      by_cases h1 : h > s.marks.length
      · rw [if_pos h1]; exact hg
      · rw [if_neg h1]
        by_cases h2 : h < s.marks.length
        · rw [if_pos h2]; exact hg
        · rw [if_neg h2]
          have heq : h = s.marks.length := by omega
          have hlen : pre.length < s.marks.length := by
            rcases ha with h | h | h
            · exact absurd h h0
            · exact absurd heq h
            · exact h
          have hne : ext ≠ [] := by
            intro he; rw [hm, he] at hlen; simp at hlen
          cases hl : s.marks.getLast? with
          | none => exact hg
          | some mk =>
            have hmk : mark ≤ mk := by
              rw [hm, getLast_append_ne_nil pre ext hne] at hl
              exact hext mk (List.mem_of_getLast? hl)
            show mark ≤ min s.guard mk
            omega
  | checkpoint => exact hf.clock
  | revert cp =>
    simp only [Spec.step]
    cases hc : (decide (cp ≤ s.clock) && (match s.marks.getLast? with | some m => decide (m ≤ cp) | none => true)) with
    | true =>
      rw [if_pos rfl]
      have hcp : mark ≤ cp := ha hc
      show mark ≤ min s.guard cp
      omega
    | false => rw [if_neg (by simp)]; exact hg
  | inspect h => simp only [Spec.step]; split <;> (try split) <;> exact hg
  | hist k p => simp only [Spec.step]; split <;> (try split) <;> (try split) <;> exact hg
  | setLimits e b => exact hg

/-- once the checkpoint is remembered, calls that neither pop the stack below it nor revert below it are `Allowed` -/
theorem allowed_of_guard {mark : Nat} {pre : List Nat} {s : Spec} (hg : mark ≤ s.guard) (op : Op)
    (hk : match op with
      | .release h => h = 0 ∨ h ≠ s.marks.length ∨ pre.length < s.marks.length
      | .cleanup h => h = 0 ∨ h ≠ s.marks.length ∨ pre.length < s.marks.length
      | .revert c => mark ≤ c
      | _ => True) : Allowed mark pre s op := by
  cases op with
  | release h => exact hk
  | cleanup h => exact hk
  | set k v ops =>
    simp only [Allowed, SafeSwap]
    split
    · intro hbad
      have h1 := hbad.1
      have h2 := hbad.2.2.1
      omega
    · trivial
  | revert cp => intro _; exact hk
  | _ => trivial

theorem respects_of_guard {mark : Nat} {pre : List Nat} {old : Bytes → List Version} :
    ∀ (ops : List Op) (s : Spec), Frame mark pre old s → mark ≤ s.guard → KeepsStage pre.length s ops →
      NoRevertBelow mark ops → Respects mark pre s ops := by
  intro ops
  induction ops with
  | nil => intro _ _ _ _ _; trivial
  | cons op rest ih =>
    intro s hf hg hk hn
    have ha : Allowed mark pre s op := by
      apply allowed_of_guard hg
      have h1 := hk.1
      have h2 := hn op (by simp)
      cases op <;> simp_all
    exact ⟨ha, ih _ (frame_step hf op ha) (guard_step hf hg op ha) hk.2 (fun o ho => hn o (by simp [ho]))⟩

end CGV.MemBuf
