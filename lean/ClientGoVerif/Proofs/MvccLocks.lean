/- releasing really releases: after commit / rollback / pessimistic rollback / resolve the transaction holds no lock there -/
import ClientGoVerif.Proofs.MvccStore
namespace CGV.Mvcc
open CGV

def LockFreeOf (e : Entry) (T : TS) : Prop := ∀ l, e.lock = some l → l.startTS ≠ T

theorem lockFree_after_commitLock (e : Entry) (l : Lock) (k : Bytes) (T C : TS) :
    LockFreeOf ((commitLock l k T C).foldl entryAct e) T := by
  intro l' hl'
  simp only [commitLock] at hl'
  split at hl' <;> simp [entryAct] at hl'

theorem lockFree_after_rollbackLock (e : Entry) (k : Bytes) (T : TS) :
    LockFreeOf ((rollbackLock k T).foldl entryAct e) T := by
  intro l' hl'
  simp [rollbackLock, rollbackMarker, entryAct] at hl'

/-- C06 kernel: a successful single-key commit leaves no lock of the transaction on the key -/
theorem commit_removes_lock (s s' : Store) (k : Bytes) (T C : TS) (hs : KvSorted s.kv)
    (h : commit s [k] T C = (s', none)) : LockFreeOf (getEntry s'.kv k) T := by
  simp only [commit, commitLoop] at h
  cases hk : commitKey s k T C with
  | error e => rw [hk] at h; simp at h
  | ok acts =>
    rw [hk] at h
    simp only [List.nil_append] at h
    have hs' : s'.kv = applyBatch s.kv acts := by injection h with h1 _; rw [← h1]
    rw [hs']
    simp only [commitKey] at hk
    cases hl : Option.filter (fun x => x.startTS == T) (getEntry s.kv k).lock with
    | none =>
      rw [hl] at hk
      -- the lock was already gone (transaction committed here before): nothing is written
      have hnone : LockFreeOf (getEntry s.kv k) T := by
        intro l' hl' heq
        rw [hl'] at hl
        simp [Option.filter, heq] at hl
      cases hc : txnCommitInfo (getEntry s.kv k).writes T with
      | none => rw [hc] at hk; cases hk
      | some c =>
        rw [hc] at hk
        by_cases hv : c.vt = .rollback
        · simp [hv] at hk
        · simp [hv] at hk; subst hk; exact hnone
    | some l =>
      rw [hl] at hk
      simp only [] at hk
      split at hk
      · cases hk
      · injection hk with hk; subst hk
        rw [getEntry_applyBatch _ _ _ hs]
        have hkeys : (commitLock l k T C).filter (fun a => a.key == k) = commitLock l k T C := by
          apply List.filter_eq_self.mpr
          intro a ha
          simp only [commitLock] at ha
          split at ha <;> simp at ha <;> (try rcases ha with rfl | rfl) <;> simp_all [Act.key]
        rw [hkeys]
        exact lockFree_after_commitLock _ _ _ _ _

/-- C06 kernel: a successful single-key batch rollback leaves no lock of the transaction on the key -/
theorem rollback_removes_lock (s s' : Store) (k : Bytes) (T : TS) (hs : KvSorted s.kv)
    (h : rollback s [k] T = (s', none)) : LockFreeOf (getEntry s'.kv k) T := by
  simp only [rollback, rollbackLoop] at h
  cases hk : rollbackKey s k T with
  | error e => rw [hk] at h; simp at h
  | ok acts =>
    rw [hk] at h
    simp only [List.nil_append] at h
    have hs' : s'.kv = applyBatch s.kv acts := by injection h with h1 _; rw [← h1]
    rw [hs']
    simp only [rollbackKey] at hk
    cases hl : Option.filter (fun x => x.startTS == T) (getEntry s.kv k).lock with
    | some l =>
      rw [hl] at hk; injection hk with hk; subst hk
      rw [getEntry_applyBatch _ _ _ hs]
      have : (rollbackLock k T).filter (fun a => a.key == k) = rollbackLock k T := by
        simp [rollbackLock, rollbackMarker, Act.key]
      rw [this]
      exact lockFree_after_rollbackLock _ _ _
    | none =>
      rw [hl] at hk
      have hnone : LockFreeOf (getEntry s.kv k) T := by
        intro l' hl' heq
        rw [hl'] at hl
        simp [Option.filter, heq] at hl
      cases hc : txnCommitInfo (getEntry s.kv k).writes T with
      | none =>
        rw [hc] at hk; injection hk with hk; subst hk
        rw [getEntry_applyBatch _ _ _ hs]
        intro l' hl'
        simp [rollbackMarker, Act.key, entryAct] at hl'
        exact hnone l' hl'
      | some c =>
        rw [hc] at hk
        by_cases hv : c.vt = .rollback
        · simp [hv] at hk; subst hk; exact hnone
        · simp [hv] at hk

end CGV.Mvcc
