/- the C03 oracle's notion "the transaction is committed" (`committedAtOf`, used by `toldCheck` in Driver/Hub.lean for the
   answers `err …` and `ok <c>`) is exactly "some key carries a data record of the transaction" -/
import ClientGoVerif.Proofs.Perc
import ClientGoVerif.Proofs.MvccAtomic
namespace CGV.Perc
open CGV CGV.Mvcc

/-- a data record of `T` somewhere in the store -/
def HasDataRec (s : Store) (T : Nat) : Prop := ∃ p ∈ s.kv, ∃ w ∈ p.2.writes, w.startTS = T ∧ w.vt ≠ .rollback

theorem datas_eq (s : Store) (T : Nat) :
    (recsOf s T).filter (·.vt != .rollback) =
      s.kv.flatMap fun p => p.2.writes.filter fun w => w.startTS == T && w.vt != .rollback := by
  unfold recsOf
  induction s.kv with
  | nil => rfl
  | cons p rest ih =>
    simp only [List.flatMap_cons, List.filter_append, ih, List.filter_filter]
    congr 1
    apply List.filter_congr
    intro w _
    exact Bool.and_comm _ _

theorem hasDataRec_iff (s : Store) (T : Nat) :
    HasDataRec s T ↔ (s.kv.flatMap fun p => p.2.writes.filter fun w => w.startTS == T && w.vt != .rollback) ≠ [] := by
  constructor
  · rintro ⟨p, hp, w, hw, hT, hv⟩ hnil
    have : w ∈ s.kv.flatMap fun p => p.2.writes.filter fun w => w.startTS == T && w.vt != .rollback :=
      List.mem_flatMap.mpr ⟨p, hp, List.mem_filter.mpr ⟨hw, by simp [hT, hv]⟩⟩
    rw [hnil] at this; cases this
  · intro hne
    obtain ⟨w, hw⟩ := List.exists_mem_of_ne_nil _ hne
    obtain ⟨p, hp, hwp⟩ := List.mem_flatMap.mp hw
    obtain ⟨hw1, hw2⟩ := List.mem_filter.mp hwp
    simp only [Bool.and_eq_true, beq_iff_eq, bne_iff_ne, ne_eq] at hw2
    exact ⟨p, hp, w, hw1, hw2.1, hw2.2⟩

theorem outcomeOf_data (s : Store) (T : Nat) (d : Write) (ds : List Write)
    (hd : (recsOf s T).filter (·.vt != .rollback) = d :: ds) :
    (∃ c, outcomeOf s T = .committed c) ∨ ∃ why, outcomeOf s T = .mixed why := by
  unfold outcomeOf
  simp only [hd]
  repeat' split
  all_goals first | exact Or.inl ⟨_, rfl⟩ | exact Or.inr ⟨_, rfl⟩ | (simp_all; done)

theorem outcomeOf_nodata (s : Store) (T : Nat) (hd : (recsOf s T).filter (·.vt != .rollback) = []) (c : Nat) :
    outcomeOf s T ≠ .committed c := by
  unfold outcomeOf
  simp only [hd]
  repeat' split
  all_goals first | (intro h; cases h; done) | (simp_all; done)

/-- the oracle says "not committed" exactly when NO key carries a data record of the transaction -/
theorem committedAtOf_none_iff (s : Store) (T : Nat) : committedAtOf s T = none ↔ ¬ HasDataRec s T := by
  rw [hasDataRec_iff, ← datas_eq]
  cases hd : (recsOf s T).filter (·.vt != .rollback) with
  | nil =>
    have hd' : (s.kv.flatMap fun p => p.2.writes.filter fun w => w.startTS == T && w.vt != .rollback) = [] := by
      rw [← datas_eq, hd]
    simp only [ne_eq, not_true_eq_false, not_false_eq_true, iff_true]
    unfold committedAtOf
    split
    · rename_i c ho; exact absurd ho (outcomeOf_nodata s T hd c)
    · rw [hd']; rfl
    · rfl
  | cons d ds =>
    have hd' : (s.kv.flatMap fun p => p.2.writes.filter fun w => w.startTS == T && w.vt != .rollback) = d :: ds := by
      rw [← datas_eq, hd]
    simp only [ne_eq, reduceCtorEq, not_false_eq_true, not_true_eq_false, iff_false]
    unfold committedAtOf
    rcases outcomeOf_data s T d ds hd with ⟨c, ho⟩ | ⟨why, ho⟩
    · rw [ho]; simp
    · rw [ho, hd']; simp

/-- … and when it names a commit ts, a data record of the transaction with that commit ts is in the store -/
theorem committedAtOf_some (s : Store) (T c : Nat) (h : committedAtOf s T = some c) :
    ∃ p ∈ s.kv, ∃ w ∈ p.2.writes, w.startTS = T ∧ w.vt ≠ .rollback ∧ w.commitTS = c := by
  unfold committedAtOf at h
  split at h
  · rename_i c' ho
    injection h with h; subst h
    obtain ⟨hall, hne, _⟩ := outcomeOf_committed s T c' ho
    obtain ⟨w, hw⟩ := List.exists_mem_of_ne_nil _ hne
    obtain ⟨p, hp, hwp⟩ := List.mem_flatMap.mp (by unfold recsOf at hw; exact hw)
    obtain ⟨hw1, hw2⟩ := List.mem_filter.mp hwp
    exact ⟨p, hp, w, hw1, by simpa using hw2, (hall w hw).1, (hall w hw).2⟩
  · cases hh : (s.kv.flatMap fun p => p.2.writes.filter fun w => w.startTS == T && w.vt != .rollback) with
    | nil => rw [hh] at h; cases h
    | cons w rest =>
      rw [hh] at h
      simp only [List.head?_cons, Option.map_some, Option.some.injEq] at h
      have hw : w ∈ s.kv.flatMap fun p => p.2.writes.filter fun w => w.startTS == T && w.vt != .rollback := by
        rw [hh]; exact List.mem_cons_self ..
      obtain ⟨p, hp, hwp⟩ := List.mem_flatMap.mp hw
      obtain ⟨hw1, hw2⟩ := List.mem_filter.mp hwp
      simp only [Bool.and_eq_true, beq_iff_eq, bne_iff_ne, ne_eq] at hw2
      exact ⟨p, hp, w, hw1, hw2.1, hw2.2, h⟩
  · cases h

/-- the oracle's reading and the store theorems' reading of "never committed" agree on every well-formed store -/
theorem noDataRec_iff_neverCommitted (s : Store) (T : Nat) (hs : KvSorted s.kv) : ¬ HasDataRec s T ↔ NeverCommitted T s := by
  constructor
  · intro hno k C hd
    obtain ⟨w, hw, hT, hv, _⟩ := hd
    rw [getEntry_eq_find] at hw
    cases hf : findKey s.kv k with
    | none => rw [hf] at hw; cases hw
    | some p =>
      rw [hf] at hw
      exact hno ⟨p, (findKey_some hf).1, w, hw, hT, hv⟩
  · rintro hn ⟨p, hp, w, hw, hT, hv⟩
    refine hn p.1 w.commitTS ⟨w, ?_, hT, hv, rfl⟩
    rw [getEntry_of_mem hs hp]; exact hw

end CGV.Perc
