/- store-level consequences: GC, rollback markers, resolve — through the per-key view of a batch -/
import ClientGoVerif.Proofs.MvccMap
import ClientGoVerif.Proofs.MvccGC
import ClientGoVerif.Proofs.MvccWrites
namespace CGV.Mvcc
open CGV

def findKey (kv : List (Bytes × Entry)) (k : Bytes) : Option (Bytes × Entry) := kv.find? (·.1 == k)

theorem getEntry_eq_find (kv : List (Bytes × Entry)) (k : Bytes) :
    getEntry kv k = match findKey kv k with | some p => p.2 | none => {} := by
  induction kv with
  | nil => rfl
  | cons q rest ih =>
    obtain ⟨k2, e2⟩ := q
    simp only [getEntry, findKey, List.find?_cons]
    by_cases h : (k2 == k) = true
    · simp [h]
    · simp only [h]; exact ih

theorem findKey_some {kv : List (Bytes × Entry)} {k : Bytes} {p : Bytes × Entry} (h : findKey kv k = some p) :
    p ∈ kv ∧ p.1 = k := by
  have := List.find?_some h
  exact ⟨List.mem_of_find?_eq_some h, by simpa using this⟩

/-- acts generated key by key, each list touching only its own key: the part for key `k` is the list generated for `k` -/
theorem filter_flatMap_key (kv : List (Bytes × Entry)) (g : Bytes → Entry → List Act) (k : Bytes)
    (hs : KvSorted kv) (hg : ∀ k' e', ∀ a ∈ g k' e', a.key = k') :
    ((kv.flatMap fun p => g p.1 p.2).filter fun a => a.key == k) =
      match findKey kv k with | some p => g p.1 p.2 | none => [] := by
  induction kv with
  | nil => rfl
  | cons q rest ih =>
    obtain ⟨k2, e2⟩ := q
    simp only [List.flatMap_cons, List.filter_append, findKey, List.find?_cons]
    by_cases h : (k2 == k) = true
    · have hk : k2 = k := by simpa using h
      subst hk
      simp only [h]
      have h1 : (g k2 e2).filter (fun a => a.key == k2) = g k2 e2 :=
        List.filter_eq_self.mpr (fun a ha => by simp [hg k2 e2 a ha])
      have h2 : ((rest.flatMap fun p => g p.1 p.2).filter fun a => a.key == k2) = [] := by
        rw [ih hs.tail]
        have : findKey rest k2 = none := by
          cases hf : findKey rest k2 with
          | none => rfl
          | some p =>
            obtain ⟨hm, hk⟩ := findKey_some hf
            have := hs.head_lt p hm
            rw [hk, Bytes.cmp_self] at this; cases this
        simp [this]
      rw [h1, h2, List.append_nil]
    · simp only [h]
      have h1 : (g k2 e2).filter (fun a => a.key == k) = [] := by
        apply List.filter_eq_nil_iff.mpr
        intro a ha
        rw [hg k2 e2 a ha]; exact h
      rw [h1, List.nil_append]
      exact ih hs.tail

theorem findKey_filter (kv : List (Bytes × Entry)) (P : Bytes → Bool) (k : Bytes) :
    findKey (kv.filter fun p => P p.1) k = if P k then findKey kv k else none := by
  induction kv with
  | nil => simp [findKey]
  | cons q rest ih =>
    obtain ⟨k2, e2⟩ := q
    simp only [findKey] at ih ⊢
    by_cases hp : P k2 = true
    · simp only [List.filter_cons, hp, if_true, List.find?_cons]
      by_cases h : (k2 == k) = true
      · have : k2 = k := by simpa using h
        subst this; simp [hp]
      · simp only [h]; exact ih
    · simp only [List.filter_cons, hp, Bool.false_eq_true, if_false, List.find?_cons]
      by_cases h : (k2 == k) = true
      · have : k2 = k := by simpa using h
        subst this
        have hpk : P k2 = false := by simpa using hp
        simp [hpk, ih]
      · simp only [h]; exact ih

theorem filter_sorted (kv : List (Bytes × Entry)) (P : Bytes × Entry → Bool) (hs : KvSorted kv) : KvSorted (kv.filter P) := by
  induction kv with
  | nil => trivial
  | cons q rest ih =>
    obtain ⟨k2, e2⟩ := q
    simp only [List.filter_cons]
    split
    · apply KvSorted.cons_iff.mpr
      exact ⟨fun p hp => hs.head_lt p (List.mem_filter.mp hp).1, ih hs.tail⟩
    · exact ih hs.tail

/-! ### GC -/

theorem gcLoop_ok (kv : List (Bytes × Entry)) (sp : TS) (acc acts : List Act) (h : gcLoop kv sp acc = .ok acts) :
    acts = acc ++ kv.flatMap fun p => gcWrites p.1 p.2.writes sp true := by
  induction kv generalizing acc with
  | nil => simp [gcLoop] at h; simp [h]
  | cons q rest ih =>
    obtain ⟨k, e⟩ := q
    simp only [gcLoop] at h
    split at h
    · cases h
    · rw [ih _ h]; simp

theorem gcLoop_blocked (kv : List (Bytes × Entry)) (sp : TS) (acc : List Act)
    (h : ∃ p ∈ kv, ∃ l, p.2.lock = some l ∧ l.startTS ≤ sp) : ∃ k, gcLoop kv sp acc = .error k := by
  induction kv generalizing acc with
  | nil => obtain ⟨p, hp, _⟩ := h; cases hp
  | cons q rest ih =>
    obtain ⟨k, e⟩ := q
    simp only [gcLoop]
    cases hf : Option.filter (fun x => decide (x.startTS ≤ sp)) e.lock with
    | some _ => exact ⟨k, rfl⟩
    | none =>
      simp only []
      apply ih
      obtain ⟨p, hp, l, hl, hle⟩ := h
      cases hp with
      | head =>
        simp only [] at hl
        rw [hl] at hf
        simp [Option.filter, hle] at hf
      | tail _ hp' => exact ⟨p, hp', l, hl, hle⟩

theorem gcWrites_key (k : Bytes) (ws : List Write) (sp : TS) (kn : Bool) : ∀ a ∈ gcWrites k ws sp kn, a.key = k := by
  rw [gcWrites_eq]; intro a ha
  obtain ⟨c, _, rfl⟩ := List.mem_map.mp ha
  rfl

theorem foldl_entryAct_delWrites (e : Entry) (k : Bytes) (cs : List TS) :
    (cs.map (Act.delWrite k)).foldl entryAct e = { e with writes := cs.foldl delWrite e.writes } := by
  induction cs generalizing e with
  | nil => rfl
  | cons c rest ih => simp only [List.map_cons, List.foldl_cons, entryAct]; rw [ih]

end CGV.Mvcc

namespace CGV.Mvcc
open CGV

/-- C12/C14: a GC run that is not refused changes no read at or above the safe point, on any key -/
theorem gc_reads (s s' : Store) (a b : Bytes) (sp ts : TS) (k : Bytes)
    (hgc : gc s a b sp = (s', none)) (hs : KvSorted s.kv) (hd : ∀ p ∈ s.kv, Desc p.2.writes) (hts : sp ≤ ts) :
    firstVisible (getEntry s'.kv k).writes ts = firstVisible (getEntry s.kv k).writes ts ∧
      (getEntry s'.kv k).lock = (getEntry s.kv k).lock := by
  simp only [gc] at hgc
  cases hl : gcLoop (s.kv.filter fun p => inRange a b p.1) sp [] with
  | error e => rw [hl] at hgc; cases hgc
  | ok acts =>
    rw [hl] at hgc
    have hs' : s' = { s with kv := applyBatch s.kv acts } := by injection hgc with h1 _; exact h1.symm
    subst hs'
    have hacts := gcLoop_ok _ _ _ _ hl
    simp only [List.nil_append] at hacts
    simp only []
    rw [getEntry_applyBatch _ _ _ hs, hacts,
      filter_flatMap_key _ (fun k e => gcWrites k e.writes sp true) k (filter_sorted _ _ hs)
        (fun k' e' => gcWrites_key k' e'.writes sp true),
      findKey_filter s.kv (fun k => inRange a b k) k]
    by_cases hin : inRange a b k = true
    · simp only [hin, if_true]
      cases hf : findKey s.kv k with
      | none => simp [getEntry_eq_find, hf]
      | some p =>
        obtain ⟨hm, hk⟩ := findKey_some hf
        have he : getEntry s.kv k = p.2 := by rw [getEntry_eq_find, hf]
        simp only [he, hk]
        rw [gcWrites_eq, foldl_entryAct_delWrites, foldl_delWrite, applyDels_gcDropped _ _ _ (hd p hm)]
        exact ⟨gcKeep_reads _ _ _ (hd p hm) hts, rfl⟩
    · simp [hin]

/-- C12: GC refuses to run over a lock at or below the safe point (and then changes nothing) -/
theorem gc_refuses (s : Store) (a b : Bytes) (sp : TS)
    (h : ∃ p ∈ s.kv, inRange a b p.1 = true ∧ ∃ l, p.2.lock = some l ∧ l.startTS ≤ sp) :
    ∃ k, gc s a b sp = (s, some k) := by
  obtain ⟨p, hp, hin, l, hl, hle⟩ := h
  obtain ⟨k, hk⟩ := gcLoop_blocked (s.kv.filter fun p => inRange a b p.1) sp []
    ⟨p, List.mem_filter.mpr ⟨hp, hin⟩, l, hl, hle⟩
  exact ⟨k, by simp [gc, hk]⟩

/-! ### every rollback path leaves a marker on the key -/

theorem mem_putWrite (ws : List Write) (w : Write) : w ∈ putWrite ws w := by
  induction ws with
  | nil => simp [putWrite]
  | cons x rest ih =>
    simp only [putWrite]
    split
    · exact List.mem_cons_self ..
    · split
      · exact List.mem_cons_self ..
      · exact List.mem_cons_of_mem _ ih

def HasMarker (e : Entry) (T : TS) : Prop := ∃ w ∈ e.writes, w.vt = .rollback ∧ w.startTS = T ∧ w.commitTS = T

theorem marker_after_rollbackLock (kv : List (Bytes × Entry)) (k : Bytes) (T : TS) (hs : KvSorted kv) :
    HasMarker (getEntry (applyBatch kv (rollbackLock k T)) k) T := by
  rw [getEntry_applyBatch _ _ _ hs]
  simp only [rollbackLock, rollbackMarker, List.filter_cons, Act.key, beq_self_eq_true, if_true, List.filter_nil,
    List.foldl_cons, List.foldl_nil, entryAct]
  exact ⟨_, mem_putWrite _ _, rfl, rfl, rfl⟩

theorem marker_after_marker (kv : List (Bytes × Entry)) (k : Bytes) (T : TS) (hs : KvSorted kv) :
    HasMarker (getEntry (applyBatch kv [rollbackMarker k T]) k) T := by
  rw [getEntry_applyBatch _ _ _ hs]
  simp only [rollbackMarker, List.filter_cons, Act.key, beq_self_eq_true, if_true, List.filter_nil,
    List.foldl_cons, List.foldl_nil, entryAct]
  exact ⟨_, mem_putWrite _ _, rfl, rfl, rfl⟩

/-- C12: batch rollback of one key: unless the transaction is committed there, a rollback record of it is on the
    key afterwards (already there, or written now) -/
theorem rollback_leaves_marker (s s' : Store) (k : Bytes) (T : TS) (hs : KvSorted s.kv)
    (hr : rollback s [k] T = (s', none))
    (hpre : ∀ w ∈ (getEntry s.kv k).writes, w.vt = .rollback → w.startTS = T → w.commitTS = T) :
    HasMarker (getEntry s'.kv k) T := by
  simp only [rollback, rollbackLoop] at hr
  cases hk : rollbackKey s k T with
  | error e => rw [hk] at hr; simp at hr
  | ok acts =>
    rw [hk] at hr
    simp only [List.nil_append] at hr
    have hs' : s'.kv = applyBatch s.kv acts := by injection hr with h1 _; rw [← h1]
    rw [hs']
    simp only [rollbackKey] at hk
    cases hl : Option.filter (fun x => x.startTS == T) (getEntry s.kv k).lock with
    | some l =>
      rw [hl] at hk; injection hk with hk; subst hk
      exact marker_after_rollbackLock _ _ _ hs
    | none =>
      rw [hl] at hk
      cases hc : txnCommitInfo (getEntry s.kv k).writes T with
      | none =>
        rw [hc] at hk; injection hk with hk; subst hk
        exact marker_after_marker _ _ _ hs
      | some c =>
        rw [hc] at hk
        by_cases hv : c.vt = .rollback
        · simp [hv] at hk; subst hk
          simp only [applyBatch, List.foldl_nil]
          have hm := List.mem_of_find?_eq_some hc
          have hst : c.startTS = T := by simpa using List.find?_some hc
          exact ⟨c, hm, hv, hst, hpre c hm hv hst⟩
        · simp [hv] at hk

end CGV.Mvcc
