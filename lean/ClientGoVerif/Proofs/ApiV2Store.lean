import ClientGoVerif.Proofs.ApiV2Fields
import ClientGoVerif.Model.ApiV2Store
namespace CGV.ApiV2.Lemmas
open CGV CGV.Codec CGV.ApiV2 CGV.ApiV2.Cat

theorem encodeKey_inj (ks : Keyspace) {a b : Bytes} (h : encodeKey ks a = encodeKey ks b) : a = b :=
  List.append_cancel_left h

theorem encodeKey_ne_foreign {a b : Keyspace} (ha : a.valid = true) (hb : b.valid = true) (hne : a ≠ b) (k k' : Bytes) :
    encodeKey a k ≠ encodeKey b k' := by
  intro h
  have h1 := decodeKey_foreign ha hb hne k
  rw [h, decodeKey_encodeKey] at h1
  cases h1

/-- for well-formed keys the interval `[prefix, endKey)` is exactly the set of keys carrying the prefix -/
theorem keyspace_interval_exact (ks : Keyspace) (hv : ks.valid = true) (x : Bytes) (hx : 4 ≤ x.length) :
    inInterval x ks.pfx ks.endKey = Bytes.isPrefix ks.pfx x := by
  cases hp : Bytes.isPrefix ks.pfx x with
  | true =>
    have hx' := isPrefix_eq_append hp
    rw [hx']
    simp only [inInterval, Bytes.le, Bytes.lt, enc_lt_end ks hv, beq_self_eq_true, Bool.and_true, bne_iff_ne]
    exact pfx_le_enc ks _
  | false =>
    cases hi : inInterval x ks.pfx ks.endKey with
    | false => rfl
    | true =>
      exfalso
      simp only [inInterval, Bool.and_eq_true, Bytes.le, Bytes.lt, bne_iff_ne, beq_iff_eq] at hi
      have := long_lt_pfx ks hv hx hi.2 hp
      have h2 := hi.1
      rw [cmp_swap x ks.pfx, this] at h2
      simp [Ordering.swap] at h2


/-- every non-empty bucket key handed out is the stripped form of an input key carrying this keyspace's prefix -/
theorem decodeBucketKeysAux_sound (ks : Keyspace) (all : List Bytes) (n : Nat) :
    ∀ (rest : List Bytes) (i : Nat) (acc out : List Bytes), (∀ x ∈ rest, x ∈ all) →
      (∀ o ∈ acc, o ≠ [] → ∃ key ∈ all, memDecode key = .ok (encodeKey ks o)) →
      decodeBucketKeysAux ks n i rest acc = .ok out →
      ∀ o ∈ out, o ≠ [] → ∃ key ∈ all, memDecode key = .ok (encodeKey ks o) := by
  intro rest
  induction rest with
  | nil =>
    intro i acc out _ hacc h
    simp only [decodeBucketKeysAux, Except.ok.injEq] at h
    subst h; exact hacc
  | cons key rest ih =>
    intro i acc out hsub hacc h
    have hsub' : ∀ x ∈ rest, x ∈ all := fun x hx => hsub x (by simp [hx])
    have hacc' : ∀ (extra : Bytes), extra = [] → ∀ o ∈ acc ++ [extra], o ≠ [] → ∃ key ∈ all, memDecode key = .ok (encodeKey ks o) := by
      intro extra he o ho hne
      rcases List.mem_append.mp ho with h1 | h1
      · exact hacc o h1 hne
      · simp at h1; rw [h1, he] at hne; exact absurd rfl hne
    unfold decodeBucketKeysAux at h
    cases hk : (if key.isEmpty then (.ok [] : Except Err Bytes) else memDecode key) with
    | error e => rw [hk] at h; cases h
    | ok k =>
      rw [hk] at h
      simp only at h
      split at h
      · exact ih _ _ _ hsub' (hacc' [] rfl) h
      · split at h
        · exact ih _ _ _ hsub' (hacc' [] rfl) h
        · split at h
          · rename_i hp
            by_cases hc : ((k.drop ks.pfx.length).isEmpty && headEmpty acc) = true
            · rw [if_pos hc] at h
              exact ih _ _ _ hsub' hacc h
            · rw [if_neg hc] at h
              apply ih _ _ _ hsub' _ h
              intro o ho hne
              rcases List.mem_append.mp ho with h1 | h1
              · exact hacc o h1 hne
              · simp at h1
                refine ⟨key, hsub key (by simp), ?_⟩
                have hkey : key.isEmpty = false := by
                  cases hke : key.isEmpty with
                  | false => rfl
                  | true =>
                    rw [hke] at hk
                    simp only [if_true, Except.ok.injEq] at hk
                    subst hk
                    rw [isPrefix_nil_false] at hp; cases hp
                rw [hkey] at hk
                simp only [Bool.false_eq_true, if_false] at hk
                rw [hk, h1, encodeKey, ← isPrefix_eq_append hp]
          · exact ih _ _ _ hsub' hacc h

theorem decodeBucketKeys_sound (ks : Keyspace) (keys out : List Bytes) (h : decodeBucketKeys ks keys = .ok out) :
    ∀ o ∈ out, o ≠ [] → ∃ key ∈ keys, memDecode key = .ok (encodeKey ks o) :=
  decodeBucketKeysAux_sound ks keys keys.length keys 0 [] out (fun _ h => h) (by simp) h


end CGV.ApiV2.Lemmas
