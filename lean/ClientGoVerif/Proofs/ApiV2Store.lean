import ClientGoVerif.Proofs.ApiV2Fields
import ClientGoVerif.Model.ApiV2Store
namespace CGV.ApiV2.Lemmas
open CGV CGV.Codec CGV.ApiV2 CGV.ApiV2.Cat

theorem encodeKey_inj (ks : Keyspace) {a b : Bytes} (h : encodeKey ks a = encodeKey ks b) : a = b :=
  List.append_cancel_left h

theorem encodeKey_ne_foreign {a b : Keyspace} (ha : a.valid = true) (hb : b.valid = true) (hne : a ≠ b) (k k' : Bytes) :
    encodeKey a k ≠ encodeKey b k' := by
  intro h
  have h1 := decodeKey_foreign ha hb hne k
  rw [h, decodeKey_encodeKey] at h1
  cases h1

/-- for well-formed keys the interval `[prefix, endKey)` is exactly the set of keys carrying the prefix -/
theorem keyspace_interval_exact (ks : Keyspace) (hv : ks.valid = true) (x : Bytes) (hx : 4 ≤ x.length) :
    inInterval x ks.pfx ks.endKey = Bytes.isPrefix ks.pfx x := by
  cases hp : Bytes.isPrefix ks.pfx x with
  | true =>
    have hx' := isPrefix_eq_append hp
    rw [hx']
    simp only [inInterval, Bytes.le, Bytes.lt, enc_lt_end ks hv, beq_self_eq_true, Bool.and_true, bne_iff_ne]
    exact pfx_le_enc ks _
  | false =>
    cases hi : inInterval x ks.pfx ks.endKey with
    | false => rfl
    | true =>
      exfalso
      simp only [inInterval, Bool.and_eq_true, Bytes.le, Bytes.lt, bne_iff_ne, beq_iff_eq] at hi
      have := long_lt_pfx ks hv hx hi.2 hp
      have h2 := hi.1
      rw [cmp_swap x ks.pfx, this] at h2
      simp [Ordering.swap] at h2

end CGV.ApiV2.Lemmas
