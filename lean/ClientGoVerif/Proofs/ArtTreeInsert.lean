/-
  C08 helper lemmas, part 13: `recursiveInsert` on the radix tree model keeps the invariant and adds exactly the key.
-/
import ClientGoVerif.Proofs.ArtTreeInv
namespace CGV.ArtTree
open CGV

/-! ## more list / lcp arithmetic -/

theorem lcp_drop (a b : Bytes) (n : Nat) (h : n ≤ lcp a b) : lcp a b = n + lcp (a.drop n) (b.drop n) := by
  induction n generalizing a b with
  | zero => simp
  | succ n ih =>
    cases a with
    | nil => simp [lcp] at h
    | cons x xs =>
      cases b with
      | nil => simp [lcp] at h
      | cons y ys =>
        simp only [lcp] at h ⊢
        by_cases e : x = y
        · subst e
          simp only [if_true, Nat.add_le_add_iff_right, List.drop_succ_cons] at h ⊢
          rw [ih xs ys h]; omega
        · simp [e] at h

theorem take_min_length {α} (l : List α) (n : Nat) : l.take (min l.length n) = l.take n := by
  by_cases h : l.length ≤ n
  · rw [Nat.min_eq_left h, List.take_of_length_le h, List.take_of_length_le (Nat.le_refl _)]
  · rw [Nat.min_eq_right (by omega)]

theorem prefix_take_succ (a : Bytes) (n : Nat) (h : n < a.length) : (a.take n ++ [a.getD n 0]) <+: a := by
  refine ⟨a.drop (n + 1), ?_⟩
  have hg : a.getD n 0 = a[n] := by simp [h]
  rw [hg, List.append_assoc, List.singleton_append, List.getElem_cons_drop h, List.take_append_drop]

theorem split_at (f : Bytes) (i : Nat) (h : i < f.length) : f.take i ++ [f.getD i 0] ++ f.drop (i + 1) = f := by
  have hg : f.getD i 0 = f[i] := by simp [h]
  rw [hg, List.append_assoc, List.singleton_append, List.getElem_cons_drop h, List.take_append_drop]

theorem getD_drop' (l : Bytes) (d n : Nat) : (l.drop d).getD n 0 = l.getD (d + n) 0 := by
  simp [List.getD, List.getElem?_drop]

theorem eq_of_prefix_length {q k : Bytes} (h : q <+: k) (hl : k.length ≤ q.length) : k = q := by
  obtain ⟨t, rfl⟩ := h
  simp at hl
  have : t = [] := List.eq_nil_of_length_eq_zero (by omega)
  subst this
  simp

/-! ## a node with content is non-empty in the sense of minimumLeafNode -/

theorem ne_of_content (q : Bytes) (plen : Nat) (pfx : Bytes) (inp : Option Bytes) (kids : Kids) (hk : WFK q kids)
    (h : inp.isSome = true ∨ kids ≠ .nil) : NE (.node plen pfx inp kids) := by
  cases inp with
  | some x => simp [NE, minLeafT]
  | none =>
    cases kids with
    | nil => simp at h
    | cons c t rest =>
      simp only [NE, minLeafT, minLeafK]
      exact hk.2.1

/-! ## a node built from two entries (expandLeafIfNeeded / expandNode) -/

def entryKeys (valid : Bool) (t : Tree) (k : Bytes) : List Bytes := if valid then keysT t else [k]

theorem two_entries (q : Bytes) (v1 v2 : Bool) (c1 c2 : UInt8) (t1 t2 : Tree) (k1 k2 : Bytes)
    (h1 : v1 = true → WFT (q ++ [c1]) t1 ∧ NE t1) (h1' : v1 = false → k1 = q)
    (h2 : v2 = true → WFT (q ++ [c2]) t2 ∧ NE t2) (h2' : v2 = false → k2 = q)
    (hne : v1 = true → v2 = true → c1 ≠ c2) (hnot : ¬ (v1 = false ∧ v2 = false)) :
    let s2 := addEntry (addEntry (none, .nil) v1 c1 t1 k1) v2 c2 t2 k2
    (∀ x, s2.1 = some x → x = q) ∧ WFK q s2.2 ∧ (s2.1.isSome = true ∨ s2.2 ≠ .nil) ∧
    (∀ x, x ∈ (optKey s2.1 ++ keysK s2.2) ↔
      (x ∈ entryKeys v1 t1 k1 ∨ x ∈ entryKeys v2 t2 k2)) := by
  cases v1 <;> cases v2
  · exact absurd ⟨rfl, rfl⟩ hnot
  · -- first in place, second a child
    obtain ⟨w2, n2⟩ := h2 rfl
    have e1 := h1' rfl
    simp only [addEntry, Bool.false_eq_true, if_false, if_true, entryKeys]
    refine ⟨fun x hx => by cases hx; exact e1, ⟨w2, n2, by simp [Kids.bytes], trivial⟩, Or.inl rfl, ?_⟩
    intro x; simp [keysK, optKey]
  · obtain ⟨w1, n1⟩ := h1 rfl
    have e2 := h2' rfl
    simp only [addEntry, Bool.false_eq_true, if_false, if_true, entryKeys]
    refine ⟨fun x hx => by cases hx; exact e2, ⟨w1, n1, by simp [Kids.bytes], trivial⟩, Or.inl rfl, ?_⟩
    intro x; simp [keysK, optKey]; exact Or.comm
  · obtain ⟨w1, n1⟩ := h1 rfl
    obtain ⟨w2, n2⟩ := h2 rfl
    have hc := hne rfl rfl
    simp only [addEntry, if_true, entryKeys]
    by_cases hlt : c2 < c1
    · simp only [hlt, if_true]
      refine ⟨?_, ?_, ?_, ?_⟩
      · intro x hx; cases hx
      · exact ⟨w2, n2, by simp [Kids.bytes, hlt], w1, n1, by simp [Kids.bytes], trivial⟩
      · right; intro h; cases h
      · intro x; simp [keysK, optKey]; exact Or.comm
    · simp only [hlt, if_false]
      have hlt' : c1 < c2 := UInt8.lt_of_le_of_ne (UInt8.not_lt.mp hlt) hc
      refine ⟨?_, ?_, ?_, ?_⟩
      · intro x hx; cases hx
      · exact ⟨w1, n1, by simp [Kids.bytes, hlt'], w2, n2, by simp [Kids.bytes], trivial⟩
      · right; intro h; cases h
      · intro x; simp [keysK, optKey]

/-! ## expandLeafIfNeeded -/

theorem entry_of_key (p a : Bytes) (n : Nat) (k : Bytes) (hk : k = p ++ a) :
    (decide (p.length + n < k.length) = true → (p ++ a.take n ++ [k.getD (p.length + n) 0]) <+: k) ∧
    (decide (p.length + n < k.length) = false → k = p ++ a.take n) := by
  subst hk
  constructor
  · intro h
    have hn : n < a.length := by simpa using h
    have hg : (p ++ a).getD (p.length + n) 0 = a.getD n 0 := by
      simp [List.getD, List.getElem?_append_right]
    rw [hg, List.append_assoc]
    exact (List.prefix_append_right_inj p).mpr (prefix_take_succ a n hn)
  · intro h
    have hn : a.length ≤ n := by simpa using h
    rw [List.take_of_length_le hn]

theorem expandLeaf_spec (p l key : Bytes) (hl : p <+: l) (hk : p <+: key) (hne : l ≠ key) :
    WFT p (.node (lcp (l.drop p.length) (key.drop p.length))
        ((key.drop p.length).take (min (lcp (l.drop p.length) (key.drop p.length)) maxPfx))
        (addEntry (addEntry (none, .nil) (decide (p.length + lcp (l.drop p.length) (key.drop p.length) < l.length))
            (l.getD (p.length + lcp (l.drop p.length) (key.drop p.length)) 0) (.leaf l) l)
          (decide (p.length + lcp (l.drop p.length) (key.drop p.length) < key.length))
          (key.getD (p.length + lcp (l.drop p.length) (key.drop p.length)) 0) (.leaf key) key).1
        (addEntry (addEntry (none, .nil) (decide (p.length + lcp (l.drop p.length) (key.drop p.length) < l.length))
            (l.getD (p.length + lcp (l.drop p.length) (key.drop p.length)) 0) (.leaf l) l)
          (decide (p.length + lcp (l.drop p.length) (key.drop p.length) < key.length))
          (key.getD (p.length + lcp (l.drop p.length) (key.drop p.length)) 0) (.leaf key) key).2) ∧
    ∀ x, x ∈ keysT (.node (lcp (l.drop p.length) (key.drop p.length))
        ((key.drop p.length).take (min (lcp (l.drop p.length) (key.drop p.length)) maxPfx))
        (addEntry (addEntry (none, .nil) (decide (p.length + lcp (l.drop p.length) (key.drop p.length) < l.length))
            (l.getD (p.length + lcp (l.drop p.length) (key.drop p.length)) 0) (.leaf l) l)
          (decide (p.length + lcp (l.drop p.length) (key.drop p.length) < key.length))
          (key.getD (p.length + lcp (l.drop p.length) (key.drop p.length)) 0) (.leaf key) key).1
        (addEntry (addEntry (none, .nil) (decide (p.length + lcp (l.drop p.length) (key.drop p.length) < l.length))
            (l.getD (p.length + lcp (l.drop p.length) (key.drop p.length)) 0) (.leaf l) l)
          (decide (p.length + lcp (l.drop p.length) (key.drop p.length) < key.length))
          (key.getD (p.length + lcp (l.drop p.length) (key.drop p.length)) 0) (.leaf key) key).2) ↔ (x = key ∨ x = l) := by
  generalize ha : l.drop p.length = a
  generalize hb : key.drop p.length = b
  have hla : l = p ++ a := by rw [← ha]; exact (prefix_drop hl).symm
  have hkb : key = p ++ b := by rw [← hb]; exact (prefix_drop hk).symm
  generalize hn : lcp a b = n
  have htake : a.take n = b.take n := by rw [← hn]; exact lcp_take a b
  have hnb : n ≤ b.length := by rw [← hn]; exact lcp_le_right a b
  have hna : n ≤ a.length := by rw [← hn]; exact lcp_le_left a b
  obtain ⟨l1, l2⟩ := entry_of_key p a n l hla
  obtain ⟨k1, k2⟩ := entry_of_key p b n key hkb
  rw [htake] at l1 l2
  have hte := two_entries (p ++ b.take n) (decide (p.length + n < l.length)) (decide (p.length + n < key.length))
    (l.getD (p.length + n) 0) (key.getD (p.length + n) 0) (.leaf l) (.leaf key) l key
    (fun h => ⟨l1 h, rfl⟩) (fun h => l2 h) (fun h => ⟨k1 h, rfl⟩) (fun h => k2 h)
    (by
      intro h1 h2
      have h1' : n < a.length := by rw [hla] at h1; simpa using h1
      have h2' : n < b.length := by rw [hkb] at h2; simpa using h2
      have := lcp_ne a b (by rw [hn]; exact h1') (by rw [hn]; exact h2')
      rw [hn] at this
      have e1 : l.getD (p.length + n) 0 = a.getD n 0 := by rw [hla]; simp [List.getD, List.getElem?_append_right]
      have e2 : key.getD (p.length + n) 0 = b.getD n 0 := by rw [hkb]; simp [List.getD, List.getElem?_append_right]
      rw [e1, e2]; exact this)
    (by
      intro ⟨h1, h2⟩
      exact hne ((l2 h1).trans (k2 h2).symm))
  simp only at hte
  obtain ⟨t1, t2, t3, t4⟩ := hte
  constructor
  · refine ⟨b.take n, by simp [hnb], ?_, t1, t2, fun _ => t3⟩
    rw [List.take_take, Nat.min_comm]
  · intro x
    simp only [keysT]
    rw [t4 x]
    simp only [entryKeys, keysT]
    constructor
    · rintro (h | h)
      · right; split at h <;> simpa using h
      · left; split at h <;> simpa using h
    · rintro (h | h)
      · right; split <;> simp [h]
      · left; split <;> simp [h]

/-! ## matchDeep computes the true mismatch index -/

theorem node_keys_prefix (p f : Bytes) (plen : Nat) (pfx : Bytes) (inp : Option Bytes) (kids : Kids)
    (hinp : ∀ x, inp = some x → x = p ++ f) (hkids : WFK (p ++ f) kids) :
    ∀ k ∈ keysT (.node plen pfx inp kids), (p ++ f) <+: k := by
  intro k hk
  simp only [keysT, List.mem_append] at hk
  rcases hk with h | h
  · cases inp with
    | none => simp [optKey] at h
    | some x =>
      simp only [optKey, List.mem_singleton] at h
      rw [h, hinp x rfl]; exact List.prefix_refl _
  · obtain ⟨c, _, hc⟩ := keysK_prefix (p ++ f) kids hkids k h
    exact prefix_left hc

theorem matchDeep_spec (p f : Bytes) (plen : Nat) (pfx : Bytes) (inp : Option Bytes) (kids : Kids)
    (hfl : f.length = plen) (hpfx : pfx = f.take maxPfx) (hinp : ∀ x, inp = some x → x = p ++ f)
    (hkids : WFK (p ++ f) kids) (hne : plen > 0 → (inp.isSome = true ∨ kids ≠ .nil)) (key : Bytes) :
    (matchDeep plen pfx (.node plen pfx inp kids) key p.length < plen ↔ lcp (key.drop p.length) f < plen) ∧
    (matchDeep plen pfx (.node plen pfx inp kids) key p.length < plen →
      matchDeep plen pfx (.node plen pfx inp kids) key p.length = lcp (key.drop p.length) f) := by
  generalize ha : key.drop p.length = a
  have hL : lcp a f ≤ plen := by rw [← hfl]; exact lcp_le_right a f
  have hm : lcp a pfx = min (lcp a f) maxPfx := by rw [hpfx]; exact lcp_take_right a f maxPfx
  simp only [matchDeep, ha, hm]
  by_cases hc : (decide (min (lcp a f) maxPfx < maxPfx) || decide (plen ≤ maxPfx)) = true
  · rw [if_pos hc]
    simp only [Bool.or_eq_true, decide_eq_true_eq] at hc
    have : min (lcp a f) maxPfx = lcp a f := by
      rcases hc with h | h <;> omega
    rw [this]
    exact ⟨Iff.rfl, fun _ => rfl⟩
  · rw [if_neg hc]
    simp only [Bool.or_eq_true, decide_eq_true_eq, not_or, Nat.not_lt, Nat.not_le] at hc
    obtain ⟨h1, h2⟩ := hc
    have hLge : maxPfx ≤ lcp a f := by omega
    have hpos : plen > 0 := by omega
    have hNE := ne_of_content (p ++ f) plen pfx inp kids hkids (hne hpos)
    simp only [NE] at hNE
    cases hml : minLeafT (.node plen pfx inp kids) with
    | none => rw [hml] at hNE; cases hNE
    | some lk =>
      simp only []
      have hmem := minLeafT_mem _ lk hml
      obtain ⟨tail, htail⟩ := node_keys_prefix p f plen pfx inp kids hinp hkids lk hmem
      have hdrop : lk.drop (p.length + maxPfx) = f.drop maxPfx ++ tail := by
        rw [← htail, List.append_assoc, ← List.drop_drop, List.drop_left,
          List.drop_append_of_le_length (by omega)]
      have hkd : key.drop (p.length + maxPfx) = a.drop maxPfx := by rw [← ha, List.drop_drop]
      rw [hdrop, hkd, lcp_comm, lcp_append_right]
      have hLd := lcp_drop a f maxPfx hLge
      have hfl' : (f.drop maxPfx).length = plen - maxPfx := by simp [hfl]
      have hL' : lcp (a.drop maxPfx) (f.drop maxPfx) ≤ plen - maxPfx := by
        rw [← hfl']; exact lcp_le_right _ _
      rw [hfl']
      by_cases hlt : lcp (a.drop maxPfx) (f.drop maxPfx) < plen - maxPfx
      · rw [if_pos hlt]
        constructor
        · constructor <;> intro _ <;> omega
        · intro _; omega
      · rw [if_neg hlt]
        constructor
        · constructor <;> intro h <;> omega
        · intro h; omega

/-! ## expandNode -/

/-- the full prefix as expandNode reads it: the in-node bytes when they are all there, else from the minimum leaf -/
theorem full_prefix_eq (p f : Bytes) (plen : Nat) (pfx : Bytes) (inp : Option Bytes) (kids : Kids)
    (hfl : f.length = plen) (hpfx : pfx = f.take maxPfx) (hinp : ∀ x, inp = some x → x = p ++ f)
    (hkids : WFK (p ++ f) kids) (hne : plen > 0 → (inp.isSome = true ∨ kids ≠ .nil)) (hpos : plen > 0) :
    fullPrefix plen pfx (.node plen pfx inp kids) p.length = f := by
  simp only [fullPrefix]
  by_cases h : plen ≤ maxPfx
  · rw [if_pos h, hpfx, List.take_of_length_le (by omega)]
  · rw [if_neg h]
    have hNE := ne_of_content (p ++ f) plen pfx inp kids hkids (hne hpos)
    simp only [NE] at hNE
    cases hml : minLeafT (.node plen pfx inp kids) with
    | none => rw [hml] at hNE; cases hNE
    | some lk =>
      simp only []
      obtain ⟨tail, htail⟩ := node_keys_prefix p f plen pfx inp kids hinp hkids lk (minLeafT_mem _ lk hml)
      rw [← htail, List.append_assoc, List.drop_left, ← hfl, List.take_left]

theorem expandNode_spec (p f key : Bytes) (plen : Nat) (pfx : Bytes) (inp : Option Bytes) (kids : Kids)
    (hfl : f.length = plen) (hinp : ∀ x, inp = some x → x = p ++ f)
    (hkids : WFK (p ++ f) kids) (hne : plen > 0 → (inp.isSome = true ∨ kids ≠ .nil)) (hk : p <+: key)
    (mis : Nat) (hmis : mis = lcp (key.drop p.length) f) (hlt : mis < plen) :
    WFT p (.node mis ((key.drop p.length).take (min mis maxPfx))
      (addEntry (addEntry (none, .nil) true (f.getD mis 0)
          (.node (plen - mis - 1) ((f.drop (mis + 1)).take (min (plen - mis - 1) maxPfx)) inp kids) [])
        (decide (p.length + mis < key.length)) (key.getD (p.length + mis) 0) (.leaf key) key).1
      (addEntry (addEntry (none, .nil) true (f.getD mis 0)
          (.node (plen - mis - 1) ((f.drop (mis + 1)).take (min (plen - mis - 1) maxPfx)) inp kids) [])
        (decide (p.length + mis < key.length)) (key.getD (p.length + mis) 0) (.leaf key) key).2) ∧
    ∀ x, x ∈ keysT (.node mis ((key.drop p.length).take (min mis maxPfx))
      (addEntry (addEntry (none, .nil) true (f.getD mis 0)
          (.node (plen - mis - 1) ((f.drop (mis + 1)).take (min (plen - mis - 1) maxPfx)) inp kids) [])
        (decide (p.length + mis < key.length)) (key.getD (p.length + mis) 0) (.leaf key) key).1
      (addEntry (addEntry (none, .nil) true (f.getD mis 0)
          (.node (plen - mis - 1) ((f.drop (mis + 1)).take (min (plen - mis - 1) maxPfx)) inp kids) [])
        (decide (p.length + mis < key.length)) (key.getD (p.length + mis) 0) (.leaf key) key).2) ↔
      (x = key ∨ x ∈ keysT (.node plen pfx inp kids)) := by
  generalize ha : key.drop p.length = a at hmis ⊢
  have hka : key = p ++ a := by rw [← ha]; exact (prefix_drop hk).symm
  have htake : a.take mis = f.take mis := by rw [hmis]; exact lcp_take a f
  have hmf : mis < f.length := by omega
  have hpos : plen > 0 := by omega
  obtain ⟨k1, k2⟩ := entry_of_key p a mis key hka
  rw [htake] at k1 k2
  -- the old node under the new one
  have hpath : (p ++ f.take mis ++ [f.getD mis 0]) ++ f.drop (mis + 1) = p ++ f := by
    rw [List.append_assoc, List.append_assoc, ← List.append_assoc (f.take mis)]
    rw [split_at f mis hmf]
  have hrest : (f.drop (mis + 1)).length = plen - mis - 1 := by simp [hfl]; omega
  have hold : WFT (p ++ f.take mis ++ [f.getD mis 0])
      (.node (plen - mis - 1) ((f.drop (mis + 1)).take (min (plen - mis - 1) maxPfx)) inp kids) := by
    refine ⟨f.drop (mis + 1), hrest, ?_, ?_, ?_, fun _ => hne hpos⟩
    · rw [← hrest, take_min_length]
    · intro x hx; rw [hpath]; exact hinp x hx
    · rw [hpath]; exact hkids
  have holdNE : NE (.node (plen - mis - 1) ((f.drop (mis + 1)).take (min (plen - mis - 1) maxPfx)) inp kids) :=
    ne_of_content (p ++ f) _ _ inp kids hkids (hne hpos)
  have hte := two_entries (p ++ f.take mis) true (decide (p.length + mis < key.length))
    (f.getD mis 0) (key.getD (p.length + mis) 0)
    (.node (plen - mis - 1) ((f.drop (mis + 1)).take (min (plen - mis - 1) maxPfx)) inp kids) (.leaf key) [] key
    (fun _ => ⟨hold, holdNE⟩) (fun h => by cases h) (fun h => ⟨k1 h, rfl⟩) (fun h => k2 h)
    (by
      intro _ h2
      have h2' : mis < a.length := by rw [hka] at h2; simpa using h2
      have := lcp_ne a f (by rw [← hmis]; exact h2') (by rw [← hmis]; exact hmf)
      rw [← hmis] at this
      have e2 : key.getD (p.length + mis) 0 = a.getD mis 0 := by rw [hka]; simp [List.getD, List.getElem?_append_right]
      rw [e2]; exact fun e => this e.symm)
    (by intro ⟨h, _⟩; cases h)
  simp only at hte
  obtain ⟨t1, t2, t3, t4⟩ := hte
  constructor
  · refine ⟨f.take mis, by simp; omega, ?_, t1, t2, fun _ => t3⟩
    rw [← htake, List.take_take, Nat.min_comm]
  · intro x
    simp only [keysT]
    rw [t4 x]
    simp only [entryKeys, if_true, keysT]
    constructor
    · rintro (h | h)
      · exact Or.inr h
      · left; split at h <;> simpa using h
    · rintro (h | h)
      · right; split <;> simp [h]
      · exact Or.inl h

/-! ## recursiveInsert -/

theorem ne_of_keys (p : Bytes) (t : Tree) (h : WFT p t) (x : Bytes) (hx : x ∈ keysT t) : NE t := by
  cases t with
  | leaf l => simp [NE, minLeafT]
  | node plen pfx inp kids =>
    obtain ⟨f, _, _, _, hk, _⟩ := h
    apply ne_of_content (p ++ f) plen pfx inp kids hk
    cases inp with
    | some y => exact Or.inl rfl
    | none =>
      right
      intro e
      subst e
      simp [keysT, optKey, keysK] at hx

theorem drop_pred_eq_iff (p l key : Bytes) (hl : p <+: l) (hk : p <+: key) :
    l.drop (p.length - 1) = key.drop (p.length - 1) ↔ l = key := by
  obtain ⟨a, rfl⟩ := hl
  obtain ⟨b, rfl⟩ := hk
  rw [List.drop_append_of_le_length (by omega), List.drop_append_of_le_length (by omega)]
  constructor
  · intro h; rw [List.append_cancel_left h]
  · intro h; rw [List.append_cancel_left h]

theorem prefix_snoc {q k : Bytes} (h : q <+: k) (hl : q.length < k.length) : (q ++ [k.getD q.length 0]) <+: k := by
  obtain ⟨t, rfl⟩ := h
  cases t with
  | nil => simp at hl
  | cons x xs => exact ⟨xs, by simp⟩

mutual
  theorem insertT_spec (p : Bytes) (t : Tree) (h : WFT p t) (key : Bytes) (hp : p <+: key) :
      WFT p (insertT t key p.length) ∧
      ∀ x, x ∈ keysT (insertT t key p.length) ↔ (x = key ∨ x ∈ keysT t) := by
    cases t with
    | leaf l =>
      have hl : p <+: l := h
      simp only [insertT]
      by_cases he : l.drop (p.length - 1) = key.drop (p.length - 1)
      · have : l = key := (drop_pred_eq_iff p l key hl hp).mp he
        rw [if_pos he]
        exact ⟨h, fun x => by simp [keysT, this]⟩
      · have hne : l ≠ key := fun e => he ((drop_pred_eq_iff p l key hl hp).mpr e)
        rw [if_neg he]
        obtain ⟨w, k⟩ := expandLeaf_spec p l key hl hp hne
        exact ⟨w, fun x => by rw [k x]; simp [keysT]⟩
    | node plen pfx inp kids =>
      obtain ⟨f, hfl, hpfx, hinp, hkids, hne⟩ := h
      obtain ⟨m1, m2⟩ := matchDeep_spec p f plen pfx inp kids hfl hpfx hinp hkids hne key
      simp only [insertT]
      by_cases hlt : matchDeep plen pfx (.node plen pfx inp kids) key p.length < plen
      · have hpos : plen > 0 := by omega
        have hc : (decide (plen > 0) && decide (matchDeep plen pfx (.node plen pfx inp kids) key p.length < plen)) = true := by
          simp [hpos, hlt]
        rw [if_pos hc, full_prefix_eq p f plen pfx inp kids hfl hpfx hinp hkids hne hpos]
        exact expandNode_spec p f key plen pfx inp kids hfl hinp hkids hne hp _ (m2 hlt) hlt
      · have hc : (decide (plen > 0) && decide (matchDeep plen pfx (.node plen pfx inp kids) key p.length < plen)) = false := by
          simp [hlt]
        rw [if_neg (by simp [hc])]
        -- the whole prefix matches
        have hL : lcp (key.drop p.length) f = f.length := by
          have h1 : ¬ lcp (key.drop p.length) f < plen := fun h => hlt (m1.mpr h)
          have h2 := lcp_le_right (key.drop p.length) f
          omega
        have hpf : (p ++ f) <+: key := prefix_of_append_prefix hp ((lcp_eq_length_iff _ _).mp hL)
        have hlen : (p ++ f).length = p.length + plen := by simp [hfl]
        by_cases hd : p.length + plen < key.length
        · rw [if_pos hd]
          have hb := prefix_snoc hpf (by rw [hlen]; exact hd)
          rw [hlen] at hb
          obtain ⟨w, wne, _, wk⟩ := insertK_spec (p ++ f) kids hkids key _ hb
          rw [hlen] at w wne wk
          refine ⟨⟨f, hfl, hpfx, hinp, w, fun _ => Or.inr wne⟩, fun x => ?_⟩
          simp only [keysT, List.mem_append, wk x]
          constructor
          · rintro (h | h | h)
            · exact Or.inr (Or.inl h)
            · exact Or.inl h
            · exact Or.inr (Or.inr h)
          · rintro (h | h | h)
            · exact Or.inr (Or.inl h)
            · exact Or.inl h
            · exact Or.inr (Or.inr h)
        · rw [if_neg hd]
          have hkey : key = p ++ f := eq_of_prefix_length hpf (by rw [hlen]; omega)
          cases inp with
          | some x =>
            have hx := hinp x rfl
            refine ⟨⟨f, hfl, hpfx, hinp, hkids, hne⟩, fun y => ?_⟩
            simp only [keysT, optKey, List.mem_append, List.mem_singleton]
            constructor
            · intro h; exact Or.inr h
            · rintro (h | h)
              · left; rw [h, hkey, hx]
              · exact h
          | none =>
            refine ⟨⟨f, hfl, hpfx, fun x hx => by cases hx; exact hkey, hkids, fun _ => Or.inl rfl⟩, fun y => ?_⟩
            simp [keysT, optKey]
  theorem insertK_spec (q : Bytes) (kids : Kids) (h : WFK q kids) (key : Bytes) (b : UInt8) (hb : (q ++ [b]) <+: key) :
      WFK q (insertK kids b key (q.length + 1)) ∧ insertK kids b key (q.length + 1) ≠ .nil ∧
      (∀ c ∈ (insertK kids b key (q.length + 1)).bytes, c = b ∨ c ∈ kids.bytes) ∧
      ∀ x, x ∈ keysK (insertK kids b key (q.length + 1)) ↔ (x = key ∨ x ∈ keysK kids) := by
    cases kids with
    | nil =>
      simp only [insertK]
      refine ⟨⟨hb, rfl, by simp [Kids.bytes], trivial⟩, (fun e => by cases e), ?_, fun x => by simp [keysK, keysT]⟩
      intro c hc; simp [Kids.bytes] at hc; exact Or.inl hc
    | cons c t rest =>
      obtain ⟨ht, hne, hlt, hr⟩ := h
      simp only [insertK]
      by_cases hcb : c = b
      · rw [if_pos hcb]
        have hlen : (q ++ [c]).length = q.length + 1 := by simp
        have hp' : (q ++ [c]) <+: key := by rw [hcb]; exact hb
        obtain ⟨w, wk⟩ := insertT_spec (q ++ [c]) t ht key hp'
        rw [hlen] at w wk
        have hNE : NE (insertT t key (q.length + 1)) := ne_of_keys _ _ w key ((wk key).mpr (Or.inl rfl))
        refine ⟨⟨w, hNE, hlt, hr⟩, (fun e => by cases e), ?_, fun x => ?_⟩
        · intro c' hc'; exact Or.inr hc'
        · simp only [keysK, List.mem_append, wk x]
          constructor
          · rintro ((h | h) | h)
            · exact Or.inl h
            · exact Or.inr (Or.inl h)
            · exact Or.inr (Or.inr h)
          · rintro (h | h | h)
            · exact Or.inl (Or.inl h)
            · exact Or.inl (Or.inr h)
            · exact Or.inr h
      · rw [if_neg hcb]
        by_cases hbc : b < c
        · rw [if_pos hbc]
          refine ⟨⟨hb, rfl, ?_, ht, hne, hlt, hr⟩, (fun e => by cases e), ?_, fun x => by simp [keysK, keysT]⟩
          · intro c' hc'
            simp only [Kids.bytes, List.mem_cons] at hc'
            rcases hc' with e | e
            · rw [e]; exact hbc
            · exact UInt8.lt_trans hbc (hlt c' e)
          · intro c' hc'
            simp only [Kids.bytes, List.mem_cons] at hc' ⊢
            rcases hc' with e | e | e
            · exact Or.inl e
            · exact Or.inr (Or.inl e)
            · exact Or.inr (Or.inr e)
        · rw [if_neg hbc]
          have hcltb : c < b := UInt8.lt_of_le_of_ne (UInt8.not_lt.mp hbc) hcb
          obtain ⟨w, wne, wb, wk⟩ := insertK_spec q rest hr key b hb
          refine ⟨⟨ht, hne, ?_, w⟩, (fun e => by cases e), ?_, fun x => ?_⟩
          · intro c' hc'
            rcases wb c' hc' with e | e
            · rw [e]; exact hcltb
            · exact hlt c' e
          · intro c' hc'
            simp only [Kids.bytes, List.mem_cons] at hc' ⊢
            rcases hc' with e | e
            · exact Or.inr (Or.inl e)
            · rcases wb c' e with e' | e'
              · exact Or.inl e'
              · exact Or.inr (Or.inr e')
          · simp only [keysK, List.mem_append, wk x]
            constructor
            · rintro (h | h | h)
              · exact Or.inr (Or.inl h)
              · exact Or.inl h
              · exact Or.inr (Or.inr h)
            · rintro (h | h | h)
              · exact Or.inr (Or.inl h)
              · exact Or.inl h
              · exact Or.inr (Or.inr h)
end

end CGV.ArtTree
