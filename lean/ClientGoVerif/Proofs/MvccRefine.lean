/- every store command refines the per-key labelled transition system of MvccKStep -/
import ClientGoVerif.Proofs.MvccKStep
namespace CGV.Mvcc
open CGV

/-- the labels a command may produce on key `k` -/
def Cmd.labels : Cmd → Bytes → KLabel → Prop
  | .prewrite r, _, lab => lab = .same ∨ lab = .locks r.startTS
  | .plock r, _, lab => lab = .same ∨ lab = .locks r.startTS
  | .prollback .., _, lab => lab = .same ∨ lab = .unlock
  | .commit keys T C, k, lab => lab = .same ∨ (k ∈ keys ∧ lab = .commit T C)
  | .rollback keys T, k, lab => lab = .same ∨ (k ∈ keys ∧ (lab = .rollback T ∨ lab = .marker T))
  | .cleanup k0 T _, k, lab => lab = .same ∨ (k = k0 ∧ (lab = .rollback T ∨ lab = .marker T))
  | .status p T _ _ _ _, k, lab =>
      lab = .same ∨ (k = p ∧ (lab = .unlock ∨ lab = .rollback T ∨ lab = .marker T ∨ lab = .touch T))
  | .heartbeat k0 T _, k, lab => lab = .same ∨ (k = k0 ∧ lab = .touch T)
  | .resolve a b T C, k, lab =>
      lab = .same ∨ (inRange a b k = true ∧ ((0 < C ∧ lab = .commit T C) ∨ (C = 0 ∧ lab = .rollback T)))
  | .bresolve a b infos, k, lab =>
      lab = .same ∨ (inRange a b k = true ∧
        ∃ p ∈ infos, (0 < p.2 ∧ lab = .commit p.1 p.2) ∨ (p.2 = 0 ∧ lab = .rollback p.1))
  | .gc a b sp, k, lab => lab = .same ∨ (inRange a b k = true ∧ lab = .gc sp)
  | .deleteRange a b, k, lab => lab = .same ∨ (inRange a b k = true ∧ lab = .wipe)

/-! ### commit -/

theorem KS_commitKernel (s : Store) (T C : TS) (k : Bytes) (hC : T < C) :
    ∃ lab, (lab = .same ∨ lab = .commit T C) ∧
      KStep (getEntry s.kv k) lab ((commitKernel s T C k).foldl entryAct (getEntry s.kv k)) := by
  simp only [commitKernel, commitKey]
  cases hl : Option.filter (fun x => x.startTS == T) (getEntry s.kv k).lock with
  | none =>
    simp only []
    split
    · rename_i acts hk
      split at hk
      · split at hk
        · injection hk with hk; subst hk; exact ⟨.same, Or.inl rfl, KStep.same⟩
        · cases hk
      · cases hk
    · exact ⟨.same, Or.inl rfl, KStep.same⟩
  | some l =>
    simp only []
    obtain ⟨hlk, hT⟩ := lock_of_filter hl
    split
    · rename_i acts hk
      split at hk
      · cases hk
      · injection hk with hk; subst hk
        exact ⟨.commit T C, Or.inr rfl, KStep.commit l k T C hlk hT hC⟩
    · exact ⟨.same, Or.inl rfl, KStep.same⟩

theorem KS_commit (s s' : Store) (keys : List Bytes) (T C : TS) (e : Option KErr) (hs : SInv s)
    (hn : keys.Nodup) (hC : T < C) (h : Mvcc.commit s keys T C = (s', e)) :
    SRel (Cmd.commit keys T C).labels s s' := by
  simp only [Mvcc.commit] at h
  cases hl : commitLoop s keys T C [] with
  | error er =>
    rw [hl] at h; injection h with h1 _; subst h1
    exact SRel.refl _ s _ hs.1 (fun k => Or.inl rfl)
  | ok acts =>
    rw [hl] at h; injection h with h1 _; subst h1
    have ha := commitLoop_acts _ _ _ _ _ _ hl
    simp only [List.nil_append] at ha
    apply SRel_applyBatch _ s acts _ hs.1
    intro k
    rw [ha, filter_flatMap_keys keys (commitKernel s T C) k hn (commitKey_keys s T C)]
    by_cases hk : k ∈ keys
    · simp only [hk, if_true]
      obtain ⟨lab, hlab, hst⟩ := KS_commitKernel s T C k hC
      refine ⟨lab, ?_, hst⟩
      cases hlab with
      | inl h0 => exact Or.inl h0
      | inr h0 => exact Or.inr ⟨hk, h0⟩
    · simp only [hk, if_false, List.foldl_nil]; exact ⟨.same, Or.inl rfl, KStep.same⟩

/-! ### rollback -/

theorem KS_rollbackKernel (s : Store) (T : TS) (k : Bytes) (hi : EInv (getEntry s.kv k)) :
    ∃ lab, (lab = .same ∨ lab = .rollback T ∨ lab = .marker T) ∧
      KStep (getEntry s.kv k) lab ((rollbackKernel s T k).foldl entryAct (getEntry s.kv k)) := by
  rcases rollbackKernel_cases s T k with h | ⟨h, l, hl, hT⟩ | ⟨h, hnl, hf⟩ <;> rw [h]
  · exact ⟨.same, Or.inl rfl, KStep.same⟩
  · exact ⟨.rollback T, Or.inr (Or.inl rfl), KStep.rollback l k T hl hT⟩
  · exact ⟨.marker T, Or.inr (Or.inr rfl), KStep.marker k T hnl hf⟩

theorem KS_rollback (s s' : Store) (keys : List Bytes) (T : TS) (e : Option KErr) (hs : SInv s)
    (hn : keys.Nodup) (h : Mvcc.rollback s keys T = (s', e)) : SRel (Cmd.rollback keys T).labels s s' := by
  simp only [Mvcc.rollback] at h
  cases hl : rollbackLoop s keys T [] with
  | error er => rw [hl] at h; injection h with h1 _; subst h1; exact SRel.refl _ s _ hs.1 (fun k => Or.inl rfl)
  | ok acts =>
    rw [hl] at h; injection h with h1 _; subst h1
    have ha := rollbackLoop_acts _ _ _ _ _ hl
    simp only [List.nil_append] at ha
    apply SRel_applyBatch _ s acts _ hs.1
    intro k
    rw [ha, filter_flatMap_keys keys (rollbackKernel s T) k hn (rollbackKernel_keys s T)]
    by_cases hk : k ∈ keys
    · simp only [hk, if_true]
      obtain ⟨lab, hlab, hst⟩ := KS_rollbackKernel s T k (hs.2 k)
      refine ⟨lab, ?_, hst⟩
      cases hlab with
      | inl h0 => exact Or.inl h0
      | inr h0 => exact Or.inr ⟨hk, h0⟩
    · simp only [hk, if_false, List.foldl_nil]; exact ⟨.same, Or.inl rfl, KStep.same⟩

/-! ### resolve -/

theorem KS_resolveKernel (T C : TS) (k : Bytes) (e : Entry) (hC : C = 0 ∨ T < C) :
    ∃ lab, (lab = .same ∨ ((0 < C ∧ lab = .commit T C) ∨ (C = 0 ∧ lab = .rollback T))) ∧
      KStep e lab ((resolveKernel T C k e).foldl entryAct e) := by
  simp only [resolveKernel]
  cases hl : e.lock with
  | none => exact ⟨.same, Or.inl rfl, KStep.same⟩
  | some l =>
    simp only []
    by_cases ht : (l.startTS == T) = true
    · have hT : l.startTS = T := by simpa using ht
      simp only [ht, if_true]
      by_cases hc : C > 0
      · rw [if_pos hc]
        exact ⟨.commit T C, Or.inr (Or.inl ⟨hc, rfl⟩),
          KStep.commit l k T C hl hT (by cases hC with | inl h => omega | inr h => exact h)⟩
      · rw [if_neg hc]
        exact ⟨.rollback T, Or.inr (Or.inr ⟨by omega, rfl⟩), KStep.rollback l k T hl hT⟩
    · simp only [ht]; exact ⟨.same, Or.inl rfl, KStep.same⟩

theorem KS_resolveLock (s : Store) (a b : Bytes) (T C : TS) (hs : SInv s) (hC : C = 0 ∨ T < C) :
    SRel (Cmd.resolve a b T C).labels s (resolveLock s a b T C) := by
  rw [resolveLock_eq]
  apply SRel_applyBatch _ s _ _ hs.1
  intro k
  rw [filter_flatMap_key (s.kv.filter fun p => inRange a b p.1) (fun k e => resolveKernel T C k e) k
    (filter_sorted _ _ hs.1) (fun k' e' => resolveKernel_keys T C k' e'), findKey_filter s.kv (fun k => inRange a b k) k]
  by_cases hin : inRange a b k = true
  · simp only [hin, if_true]
    cases hf : findKey s.kv k with
    | none => simp only [List.foldl_nil]; exact ⟨.same, Or.inl rfl, KStep.same⟩
    | some p =>
      obtain ⟨_, hk⟩ := findKey_some hf
      have he : getEntry s.kv k = p.2 := by rw [getEntry_eq_find, hf]
      simp only [he, hk]
      obtain ⟨lab, hlab, hst⟩ := KS_resolveKernel T C k p.2 hC
      refine ⟨lab, ?_, hst⟩
      cases hlab with
      | inl h0 => exact Or.inl h0
      | inr h0 => exact Or.inr ⟨hin, h0⟩
  · simp only [hin]; exact ⟨.same, Or.inl rfl, KStep.same⟩

theorem KS_batchResolveLock (s : Store) (a b : Bytes) (infos : List (TS × TS)) (hs : SInv s)
    (hC : ∀ p ∈ infos, p.2 = 0 ∨ p.1 < p.2) : SRel (Cmd.bresolve a b infos).labels s (batchResolveLock s a b infos) := by
  rw [batchResolveLock_eq]
  apply SRel_applyBatch _ s _ _ hs.1
  intro k
  rw [filter_flatMap_key (s.kv.filter fun p => inRange a b p.1) (fun k e => batchKernel infos k e) k
    (filter_sorted _ _ hs.1) (fun k' e' => batchKernel_keys infos k' e'), findKey_filter s.kv (fun k => inRange a b k) k]
  by_cases hin : inRange a b k = true
  · simp only [hin, if_true]
    cases hf : findKey s.kv k with
    | none => simp only [List.foldl_nil]; exact ⟨.same, Or.inl rfl, KStep.same⟩
    | some p =>
      obtain ⟨_, hk⟩ := findKey_some hf
      have he : getEntry s.kv k = p.2 := by rw [getEntry_eq_find, hf]
      simp only [he, hk]
      simp only [batchKernel]
      cases hl : p.2.lock with
      | none => exact ⟨.same, Or.inl rfl, KStep.same⟩
      | some l =>
        simp only []
        cases hlk : lookupTxn infos l.startTS with
        | none => exact ⟨.same, Or.inl rfl, KStep.same⟩
        | some c =>
          simp only []
          have hmem := lookupTxn_mem hlk
          obtain ⟨lab, hlab, hst⟩ := KS_resolveKernel l.startTS c k p.2 (hC _ hmem)
          refine ⟨lab, ?_, hst⟩
          cases hlab with
          | inl h0 => exact Or.inl h0
          | inr h0 => exact Or.inr ⟨hin, (l.startTS, c), hmem, h0⟩
  · simp only [hin]; exact ⟨.same, Or.inl rfl, KStep.same⟩

/-! ### prewrite, pessimistic lock -/

/-- the acts of one key out of a batch of lock writes for transaction T: one `locks` step (or nothing) -/
theorem KS_lockBatch (e : Entry) (k : Bytes) (T : TS) (acts : List Act)
    (h : ∀ a ∈ acts, ∃ l, a = Act.putLock k l ∧ l.startTS = T ∧ Fresh e.writes T) :
    ∃ lab, (lab = .same ∨ lab = .locks T) ∧ KStep e lab (acts.foldl entryAct e) := by
  cases acts with
  | nil => exact ⟨.same, Or.inl rfl, KStep.same⟩
  | cons a rest =>
    obtain ⟨_, _, _, hf⟩ := h a (List.mem_cons_self ..)
    exact ⟨.locks T, Or.inr rfl, KStep.locks k T _ (fun x hx => by
      obtain ⟨l, h1, h2, _⟩ := h x hx; exact ⟨l, h1, h2⟩) hf⟩

theorem KS_prewrite (s s' : Store) (r : PrewriteReq) (errs : List (Option KErr)) (hs : SInv s)
    (h : Mvcc.prewrite s r = (s', errs)) : SRel (Cmd.prewrite r).labels s s' := by
  simp only [Mvcc.prewrite] at h
  cases hp : prewriteLoop s r r.mutations 0 [] [] with
  | mk errs0 acts =>
    rw [hp] at h
    simp only [] at h
    split at h
    · injection h with h1 _; subst h1; exact SRel.refl _ s _ hs.1 (fun k => Or.inl rfl)
    · injection h with h1 _; subst h1
      apply SRel_applyBatch _ s acts _ hs.1
      intro k
      apply KS_lockBatch _ k r.startTS
      intro a ha
      have hmem := (List.mem_filter.mp ha)
      have hk : a.key = k := by simpa using hmem.2
      cases prewriteLoop_acts s r r.mutations 0 [] [] errs0 acts hp a hmem.1 with
      | inl h0 => cases h0
      | inr h1 =>
        obtain ⟨m, _, action, am, hok, ham⟩ := h1
        cases prewriteMutation_ok_shape s r m action am (hs.2 m.key) hok with
        | inl he => rw [he] at ham; cases ham
        | inr hsh =>
          obtain ⟨l, hl, hT, hf⟩ := hsh
          rw [hl] at ham
          simp only [List.mem_singleton] at ham
          subst ham
          have : m.key = k := hk
          subst this
          exact ⟨l, rfl, hT, hf⟩

theorem KS_pessimisticLock (s s' : Store) (r : PLReq) (resp : PLResp) (hs : SInv s)
    (hpre : ∀ m ∈ r.mutations, Fresh (getEntry s.kv m.key).writes r.startTS)
    (h : pessimisticLock s r = (s', resp)) : SRel (Cmd.plock r).labels s s' := by
  simp only [pessimisticLock] at h
  generalize hpl : plLoop s r r.mutations s.waitFor [] [] [] = pl at h
  obtain ⟨errs, results, acts, wf⟩ := pl
  simp only [] at h
  have hs1 : SRel (Cmd.plock r).labels s { s with waitFor := wf } := SRel.refl _ s _ hs.1 (fun k => Or.inl rfl)
  have hacts := plLoop_acts s r r.mutations s.waitFor [] [] []
  rw [hpl] at hacts
  simp only [] at hacts
  have hfinal : SRel (Cmd.plock r).labels s { kv := applyBatch s.kv acts, waitFor := wf } := by
    apply SRel_applyBatch _ s acts _ hs.1
    intro k
    apply KS_lockBatch _ k r.startTS
    intro a ha
    have hmem := List.mem_filter.mp ha
    have hk : a.key = k := by simpa using hmem.2
    cases hacts a hmem.1 with
    | inl h0 => cases h0
    | inr h1 =>
      obtain ⟨m, hm, l, hl, hT⟩ := h1
      subst hl
      have : m.key = k := hk
      subst this
      exact ⟨l, rfl, hT, hpre m hm⟩
  split at h
  · injection h with h1 _; subst h1; exact hs1
  · split at h
    · injection h with h1 _; subst h1; exact hs1
    · split at h
      · injection h with h1 _; subst h1; exact hfinal
      · split at h
        · injection h with h1 _; subst h1; exact hfinal
        · split at h <;> (injection h with h1 _; subst h1; exact hfinal)

theorem KS_pessimisticRollback (s : Store) (a b : Bytes) (keys : List Bytes) (T F : TS) (hs : SInv s) :
    SRel (Cmd.prollback a b keys T F).labels s (pessimisticRollback s a b keys T F) := by
  unfold pessimisticRollback
  apply SRel_applyBatch _ s _ _ hs.1
  intro k
  refine ⟨.unlock, Or.inr rfl, KStep.unlock _ ?_⟩
  intro x hx
  have h1 := (List.mem_filter.mp hx).1
  simp only [List.mem_filterMap] at h1
  obtain ⟨k', _, hk'⟩ := h1
  split at hk'
  · split at hk'
    · injection hk' with hk'; exact ⟨k', hk'.symm⟩
    · cases hk'
  · cases hk'

/-! ### single-key commands: cleanup, status check, heartbeat -/

theorem KS_cleanup (s s' : Store) (k : Bytes) (T cur : TS) (e : Option KErr) (hs : SInv s)
    (h : Mvcc.cleanup s k T cur = (s', e)) : SRel (Cmd.cleanup k T cur).labels s s' := by
  simp only [Mvcc.cleanup] at h
  have hsame : ∀ wf, SRel (Cmd.cleanup k T cur).labels s { s with waitFor := wf } :=
    fun wf => SRel.refl _ s wf hs.1 (fun _ => Or.inl rfl)
  have hL : ∀ k', (Cmd.cleanup k T cur).labels k' .same := fun _ => Or.inl rfl
  cases hl : Option.filter (fun x => x.startTS == T) (getEntry s.kv k).lock with
  | some l =>
    rw [hl] at h
    obtain ⟨hlk, hT⟩ := lock_of_filter hl
    simp only [] at h
    split at h
    · injection h with h1 _; subst h1
      exact SRel_applyKeyed _ s k _ _ hs.1 (rollbackLock_keys k T) hL
        ⟨.rollback T, Or.inr ⟨rfl, Or.inl rfl⟩, KStep.rollback l k T hlk hT⟩
    · injection h with h1 _; subst h1; exact hsame _
  | none =>
    rw [hl] at h
    simp only [] at h
    cases hc : txnCommitInfo (getEntry s.kv k).writes T with
    | some c =>
      rw [hc] at h
      simp only [] at h
      split at h <;> (injection h with h1 _; subst h1; exact hsame _)
    | none =>
      rw [hc] at h
      injection h with h1 _; subst h1
      exact SRel_applyKeyed _ s k _ _ hs.1 (by intro a ha; simp [rollbackMarker] at ha; subst ha; rfl) hL
        ⟨.marker T, Or.inr ⟨rfl, Or.inr rfl⟩, KStep.marker k T (no_lock_of_filter hl) (fresh_of_no_commitInfo hc)⟩

theorem KS_checkTxnStatus (s s' : Store) (p : Bytes) (T caller cur : TS) (rb rp : Bool) (r : StatusResp) (hs : SInv s)
    (h : checkTxnStatus s p T caller cur rb rp = (s', r)) : SRel (Cmd.status p T caller cur rb rp).labels s s' := by
  simp only [checkTxnStatus] at h
  have hsame : SRel (Cmd.status p T caller cur rb rp).labels s s := SRel.refl _ s s.waitFor hs.1 (fun _ => Or.inl rfl)
  have hL : ∀ k', (Cmd.status p T caller cur rb rp).labels k' .same := fun _ => Or.inl rfl
  cases hl : Option.filter (fun x => x.startTS == T) (getEntry s.kv p).lock with
  | some l =>
    rw [hl] at h
    obtain ⟨hlk, hT⟩ := lock_of_filter hl
    simp only [] at h
    split at h
    · split at h
      · injection h with h1 _; subst h1
        exact SRel_applyKeyed _ s p _ _ hs.1 (by intro a ha; simp at ha; subst ha; rfl) hL
          ⟨.unlock, Or.inr ⟨rfl, Or.inl rfl⟩, KStep.unlock [Act.delLock p] (by intro x hx; simp at hx; exact ⟨p, hx⟩)⟩
      · injection h with h1 _; subst h1
        exact SRel_applyKeyed _ s p _ _ hs.1 (rollbackLock_keys p T) hL
          ⟨.rollback T, Or.inr ⟨rfl, Or.inr (Or.inl rfl)⟩, KStep.rollback l p T hlk hT⟩
    · split at h
      · injection h with h1 _; subst h1; exact hsame
      · split at h
        · split at h
          · injection h with h1 _; subst h1
            exact SRel_applyKeyed _ s p _ _ hs.1 (by intro a ha; simp at ha; subst ha; rfl) hL
              ⟨.touch T, Or.inr ⟨rfl, Or.inr (Or.inr (Or.inr rfl))⟩, KStep.touch p T l _ hlk hT hT rfl⟩
          · injection h with h1 _; subst h1; exact hsame
        · injection h with h1 _; subst h1; exact hsame
  | none =>
    rw [hl] at h
    simp only [] at h
    cases hc : txnCommitInfo (getEntry s.kv p).writes T with
    | some c =>
      rw [hc] at h
      simp only [] at h
      split at h <;> (injection h with h1 _; subst h1; exact hsame)
    | none =>
      rw [hc] at h
      simp only [] at h
      split at h
      · split at h
        · injection h with h1 _; subst h1; exact hsame
        · injection h with h1 _; subst h1
          exact SRel_applyKeyed _ s p _ _ hs.1 (by intro a ha; simp [rollbackMarker] at ha; subst ha; rfl) hL
            ⟨.marker T, Or.inr ⟨rfl, Or.inr (Or.inr (Or.inl rfl))⟩,
              KStep.marker p T (no_lock_of_filter hl) (fresh_of_no_commitInfo hc)⟩
      · injection h with h1 _; subst h1; exact hsame

theorem KS_heartBeat (s s' : Store) (k : Bytes) (T adv : TS) (r : Except KErr Nat) (hs : SInv s)
    (h : heartBeat s k T adv = (s', r)) : SRel (Cmd.heartbeat k T adv).labels s s' := by
  simp only [heartBeat] at h
  have hsame : SRel (Cmd.heartbeat k T adv).labels s s := SRel.refl _ s s.waitFor hs.1 (fun _ => Or.inl rfl)
  have hL : ∀ k', (Cmd.heartbeat k T adv).labels k' .same := fun _ => Or.inl rfl
  cases hl : Option.filter (fun x => x.startTS == T) (getEntry s.kv k).lock with
  | none => rw [hl] at h; injection h with h1 _; subst h1; exact hsame
  | some l =>
    rw [hl] at h
    obtain ⟨hlk, hT⟩ := lock_of_filter hl
    simp only [] at h
    split at h
    · injection h with h1 _; subst h1; exact hsame
    · split at h
      · injection h with h1 _; subst h1
        exact SRel_applyKeyed _ s k _ _ hs.1 (by intro a ha; simp at ha; subst ha; rfl) hL
          ⟨.touch T, Or.inr ⟨rfl, rfl⟩, KStep.touch k T l _ hlk hT hT rfl⟩
      · injection h with h1 _; subst h1; exact hsame

/-! ### GC, delete range -/

theorem KS_gc (s s' : Store) (a b : Bytes) (sp : TS) (blocked : Option Bytes) (hs : SInv s)
    (h : Mvcc.gc s a b sp = (s', blocked)) : SRel (Cmd.gc a b sp).labels s s' := by
  simp only [Mvcc.gc] at h
  cases hl : gcLoop (s.kv.filter fun p => inRange a b p.1) sp [] with
  | error e => rw [hl] at h; injection h with h1 _; subst h1; exact SRel.refl _ s s.waitFor hs.1 (fun _ => Or.inl rfl)
  | ok acts =>
    rw [hl] at h; injection h with h1 _; subst h1
    have hacts := gcLoop_ok _ _ _ _ hl
    simp only [List.nil_append] at hacts
    apply SRel_applyBatch _ s acts _ hs.1
    intro k
    rw [hacts, filter_flatMap_key _ (fun k e => gcWrites k e.writes sp true) k (filter_sorted _ _ hs.1)
        (fun k' e' => gcWrites_key k' e'.writes sp true), findKey_filter s.kv (fun k => inRange a b k) k]
    by_cases hin : inRange a b k = true
    · simp only [hin, if_true]
      cases hf : findKey s.kv k with
      | none => simp only [List.foldl_nil]; exact ⟨.same, Or.inl rfl, KStep.same⟩
      | some p =>
        obtain ⟨_, hk⟩ := findKey_some hf
        have he : getEntry s.kv k = p.2 := by rw [getEntry_eq_find, hf]
        simp only [hk, he]
        exact ⟨.gc sp, Or.inr ⟨hin, rfl⟩, KStep.gc k sp⟩
    · simp only [hin]; exact ⟨.same, Or.inl rfl, KStep.same⟩

theorem KS_deleteRange (s : Store) (a b : Bytes) (hs : SInv s) :
    SRel (Cmd.deleteRange a b).labels s (Mvcc.deleteRange s a b) := by
  refine ⟨filter_sorted _ _ hs.1, fun k => ?_⟩
  simp only [Mvcc.deleteRange]
  rw [getEntry_eq_find (List.filter _ _), findKey_filter s.kv (fun k => !(inRange a b k)) k]
  by_cases hin : inRange a b k = true
  · simp only [hin, Bool.not_true, Bool.false_eq_true, if_false]
    exact ⟨.wipe, Or.inr ⟨hin, rfl⟩, KStep.wipe⟩
  · simp only [Bool.not_eq_true] at hin
    simp only [hin, Bool.not_false, if_true]
    rw [← getEntry_eq_find]
    exact ⟨.same, Or.inl rfl, KStep.same⟩

/-! ### every command refines the per-key transition system -/

theorem run_refines (s : Store) (c : Cmd) (hs : SInv s) (hok : c.Ok s) : SRel c.labels s (c.run s) := by
  cases c with
  | prewrite r => exact KS_prewrite s _ r _ hs rfl
  | plock r => exact KS_pessimisticLock s _ r _ hs hok rfl
  | prollback a b keys T F => exact KS_pessimisticRollback s a b keys T F hs
  | commit keys T C => exact KS_commit s _ keys T C _ hs hok.1 hok.2 rfl
  | rollback keys T => exact KS_rollback s _ keys T _ hs hok rfl
  | cleanup k T cur => exact KS_cleanup s _ k T cur _ hs rfl
  | status p T caller cur rb rp => exact KS_checkTxnStatus s _ p T caller cur rb rp _ hs rfl
  | heartbeat k T adv => exact KS_heartBeat s _ k T adv _ hs rfl
  | resolve a b T C => exact KS_resolveLock s a b T C hs hok
  | bresolve a b infos => exact KS_batchResolveLock s a b infos hs hok
  | gc a b sp => exact KS_gc s _ a b sp _ hs rfl
  | deleteRange a b => exact KS_deleteRange s a b hs

end CGV.Mvcc
