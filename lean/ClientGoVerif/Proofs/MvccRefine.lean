/- every store command refines the per-key labelled transition system of MvccKStep -/
import ClientGoVerif.Proofs.MvccKStep
namespace CGV.Mvcc
open CGV

/-- the labels a command may produce on key `k` -/
def Cmd.labels : Cmd → Bytes → KLabel → Prop
  | .prewrite r, _, lab => lab = .same ∨ lab = .locks r.startTS
  | .plock r, _, lab => lab = .same ∨ lab = .locks r.startTS
  | .prollback .., _, lab => lab = .same ∨ lab = .unlock
  | .commit keys T C, k, lab => lab = .same ∨ (k ∈ keys ∧ lab = .commit T C)
  | .rollback keys T, k, lab => lab = .same ∨ (k ∈ keys ∧ (lab = .rollback T ∨ lab = .marker T))
  | .cleanup k0 T _, k, lab => lab = .same ∨ (k = k0 ∧ (lab = .rollback T ∨ lab = .marker T))
  | .status p T _ _ _ _, k, lab =>
      lab = .same ∨ (k = p ∧ (lab = .unlock ∨ lab = .rollback T ∨ lab = .marker T ∨ lab = .locks T))
  | .heartbeat k0 T _, k, lab => lab = .same ∨ (k = k0 ∧ lab = .locks T)
  | .resolve a b T C, k, lab =>
      lab = .same ∨ (inRange a b k = true ∧ ((0 < C ∧ lab = .commit T C) ∨ (C = 0 ∧ lab = .rollback T)))
  | .bresolve a b infos, k, lab =>
      lab = .same ∨ (inRange a b k = true ∧
        ∃ p ∈ infos, (0 < p.2 ∧ lab = .commit p.1 p.2) ∨ (p.2 = 0 ∧ lab = .rollback p.1))
  | .gc a b sp, k, lab => lab = .same ∨ (inRange a b k = true ∧ lab = .gc sp)
  | .deleteRange a b, k, lab => lab = .same ∨ (inRange a b k = true ∧ lab = .wipe)

/-! ### commit -/

theorem KS_commitKernel (s : Store) (T C : TS) (k : Bytes) (hC : T < C) :
    ∃ lab, (lab = .same ∨ lab = .commit T C) ∧
      KStep (getEntry s.kv k) lab ((commitKernel s T C k).foldl entryAct (getEntry s.kv k)) := by
  simp only [commitKernel, commitKey]
  cases hl : Option.filter (fun x => x.startTS == T) (getEntry s.kv k).lock with
  | none =>
    simp only []
    split
    · rename_i acts hk
      split at hk
      · split at hk
        · injection hk with hk; subst hk; exact ⟨.same, Or.inl rfl, KStep.same⟩
        · cases hk
      · cases hk
    · exact ⟨.same, Or.inl rfl, KStep.same⟩
  | some l =>
    simp only []
    obtain ⟨hlk, hT⟩ := lock_of_filter hl
    split
    · rename_i acts hk
      split at hk
      · cases hk
      · injection hk with hk; subst hk
        exact ⟨.commit T C, Or.inr rfl, KStep.commit l k T C hlk hT hC⟩
    · exact ⟨.same, Or.inl rfl, KStep.same⟩

theorem KS_commit (s s' : Store) (keys : List Bytes) (T C : TS) (e : Option KErr) (hs : SInv s)
    (hn : keys.Nodup) (hC : T < C) (h : Mvcc.commit s keys T C = (s', e)) :
    SRel (Cmd.commit keys T C).labels s s' := by
  simp only [Mvcc.commit] at h
  cases hl : commitLoop s keys T C [] with
  | error er =>
    rw [hl] at h; injection h with h1 _; subst h1
    exact SRel.refl _ s _ hs.1 (fun k => Or.inl rfl)
  | ok acts =>
    rw [hl] at h; injection h with h1 _; subst h1
    have ha := commitLoop_acts _ _ _ _ _ _ hl
    simp only [List.nil_append] at ha
    apply SRel_applyBatch _ s acts _ hs.1
    intro k
    rw [ha, filter_flatMap_keys keys (commitKernel s T C) k hn (commitKey_keys s T C)]
    by_cases hk : k ∈ keys
    · simp only [hk, if_true]
      obtain ⟨lab, hlab, hst⟩ := KS_commitKernel s T C k hC
      refine ⟨lab, ?_, hst⟩
      cases hlab with
      | inl h0 => exact Or.inl h0
      | inr h0 => exact Or.inr ⟨hk, h0⟩
    · simp only [hk, if_false, List.foldl_nil]; exact ⟨.same, Or.inl rfl, KStep.same⟩

/-! ### rollback -/

theorem KS_rollbackKernel (s : Store) (T : TS) (k : Bytes) (hi : EInv (getEntry s.kv k)) :
    ∃ lab, (lab = .same ∨ lab = .rollback T ∨ lab = .marker T) ∧
      KStep (getEntry s.kv k) lab ((rollbackKernel s T k).foldl entryAct (getEntry s.kv k)) := by
  rcases rollbackKernel_cases s T k with h | ⟨h, l, hl, hT⟩ | ⟨h, hnl, hf⟩ <;> rw [h]
  · exact ⟨.same, Or.inl rfl, KStep.same⟩
  · exact ⟨.rollback T, Or.inr (Or.inl rfl), KStep.rollback l k T hl hT⟩
  · exact ⟨.marker T, Or.inr (Or.inr rfl), KStep.marker k T hnl hf⟩

theorem KS_rollback (s s' : Store) (keys : List Bytes) (T : TS) (e : Option KErr) (hs : SInv s)
    (hn : keys.Nodup) (h : Mvcc.rollback s keys T = (s', e)) : SRel (Cmd.rollback keys T).labels s s' := by
  simp only [Mvcc.rollback] at h
  cases hl : rollbackLoop s keys T [] with
  | error er => rw [hl] at h; injection h with h1 _; subst h1; exact SRel.refl _ s _ hs.1 (fun k => Or.inl rfl)
  | ok acts =>
    rw [hl] at h; injection h with h1 _; subst h1
    have ha := rollbackLoop_acts _ _ _ _ _ hl
    simp only [List.nil_append] at ha
    apply SRel_applyBatch _ s acts _ hs.1
    intro k
    rw [ha, filter_flatMap_keys keys (rollbackKernel s T) k hn (rollbackKernel_keys s T)]
    by_cases hk : k ∈ keys
    · simp only [hk, if_true]
      obtain ⟨lab, hlab, hst⟩ := KS_rollbackKernel s T k (hs.2 k)
      refine ⟨lab, ?_, hst⟩
      cases hlab with
      | inl h0 => exact Or.inl h0
      | inr h0 => exact Or.inr ⟨hk, h0⟩
    · simp only [hk, if_false, List.foldl_nil]; exact ⟨.same, Or.inl rfl, KStep.same⟩

/-! ### resolve -/

theorem KS_resolveKernel (T C : TS) (k : Bytes) (e : Entry) (hC : C = 0 ∨ T < C) :
    ∃ lab, (lab = .same ∨ ((0 < C ∧ lab = .commit T C) ∨ (C = 0 ∧ lab = .rollback T))) ∧
      KStep e lab ((resolveKernel T C k e).foldl entryAct e) := by
  simp only [resolveKernel]
  cases hl : e.lock with
  | none => exact ⟨.same, Or.inl rfl, KStep.same⟩
  | some l =>
    simp only []
    by_cases ht : (l.startTS == T) = true
    · have hT : l.startTS = T := by simpa using ht
      simp only [ht, if_true]
      by_cases hc : C > 0
      · rw [if_pos hc]
        exact ⟨.commit T C, Or.inr (Or.inl ⟨hc, rfl⟩),
          KStep.commit l k T C hl hT (by cases hC with | inl h => omega | inr h => exact h)⟩
      · rw [if_neg hc]
        exact ⟨.rollback T, Or.inr (Or.inr ⟨by omega, rfl⟩), KStep.rollback l k T hl hT⟩
    · simp only [ht]; exact ⟨.same, Or.inl rfl, KStep.same⟩

theorem KS_resolveLock (s : Store) (a b : Bytes) (T C : TS) (hs : SInv s) (hC : C = 0 ∨ T < C) :
    SRel (Cmd.resolve a b T C).labels s (resolveLock s a b T C) := by
  rw [resolveLock_eq]
  apply SRel_applyBatch _ s _ _ hs.1
  intro k
  rw [filter_flatMap_key (s.kv.filter fun p => inRange a b p.1) (fun k e => resolveKernel T C k e) k
    (filter_sorted _ _ hs.1) (fun k' e' => resolveKernel_keys T C k' e'), findKey_filter s.kv (fun k => inRange a b k) k]
  by_cases hin : inRange a b k = true
  · simp only [hin, if_true]
    cases hf : findKey s.kv k with
    | none => simp only [List.foldl_nil]; exact ⟨.same, Or.inl rfl, KStep.same⟩
    | some p =>
      obtain ⟨_, hk⟩ := findKey_some hf
      have he : getEntry s.kv k = p.2 := by rw [getEntry_eq_find, hf]
      simp only [he, hk]
      obtain ⟨lab, hlab, hst⟩ := KS_resolveKernel T C k p.2 hC
      refine ⟨lab, ?_, hst⟩
      cases hlab with
      | inl h0 => exact Or.inl h0
      | inr h0 => exact Or.inr ⟨hin, h0⟩
  · simp only [hin]; exact ⟨.same, Or.inl rfl, KStep.same⟩

theorem KS_batchResolveLock (s : Store) (a b : Bytes) (infos : List (TS × TS)) (hs : SInv s)
    (hC : ∀ p ∈ infos, p.2 = 0 ∨ p.1 < p.2) : SRel (Cmd.bresolve a b infos).labels s (batchResolveLock s a b infos) := by
  rw [batchResolveLock_eq]
  apply SRel_applyBatch _ s _ _ hs.1
  intro k
  rw [filter_flatMap_key (s.kv.filter fun p => inRange a b p.1) (fun k e => batchKernel infos k e) k
    (filter_sorted _ _ hs.1) (fun k' e' => batchKernel_keys infos k' e'), findKey_filter s.kv (fun k => inRange a b k) k]
  by_cases hin : inRange a b k = true
  · simp only [hin, if_true]
    cases hf : findKey s.kv k with
    | none => simp only [List.foldl_nil]; exact ⟨.same, Or.inl rfl, KStep.same⟩
    | some p =>
      obtain ⟨_, hk⟩ := findKey_some hf
      have he : getEntry s.kv k = p.2 := by rw [getEntry_eq_find, hf]
      simp only [he, hk]
      simp only [batchKernel]
      cases hl : p.2.lock with
      | none => exact ⟨.same, Or.inl rfl, KStep.same⟩
      | some l =>
        simp only []
        cases hlk : lookupTxn infos l.startTS with
        | none => exact ⟨.same, Or.inl rfl, KStep.same⟩
        | some c =>
          simp only []
          have hmem := lookupTxn_mem hlk
          obtain ⟨lab, hlab, hst⟩ := KS_resolveKernel l.startTS c k p.2 (hC _ hmem)
          refine ⟨lab, ?_, hst⟩
          cases hlab with
          | inl h0 => exact Or.inl h0
          | inr h0 => exact Or.inr ⟨hin, (l.startTS, c), hmem, h0⟩
  · simp only [hin]; exact ⟨.same, Or.inl rfl, KStep.same⟩

/-! ### prewrite, pessimistic lock -/

/-- the acts of one key out of a batch of lock writes for transaction T: one `locks` step (or nothing) -/
theorem KS_lockBatch (e : Entry) (k : Bytes) (T : TS) (acts : List Act)
    (h : ∀ a ∈ acts, ∃ l, a = Act.putLock k l ∧ l.startTS = T ∧ Fresh e.writes T) :
    ∃ lab, (lab = .same ∨ lab = .locks T) ∧ KStep e lab (acts.foldl entryAct e) := by
  cases acts with
  | nil => exact ⟨.same, Or.inl rfl, KStep.same⟩
  | cons a rest =>
    obtain ⟨_, _, _, hf⟩ := h a (List.mem_cons_self ..)
    exact ⟨.locks T, Or.inr rfl, KStep.locks k T _ (fun x hx => by
      obtain ⟨l, h1, h2, _⟩ := h x hx; exact ⟨l, h1, h2⟩) hf⟩

theorem KS_prewrite (s s' : Store) (r : PrewriteReq) (errs : List (Option KErr)) (hs : SInv s)
    (h : Mvcc.prewrite s r = (s', errs)) : SRel (Cmd.prewrite r).labels s s' := by
  simp only [Mvcc.prewrite] at h
  cases hp : prewriteLoop s r r.mutations 0 [] [] with
  | mk errs0 acts =>
    rw [hp] at h
    simp only [] at h
    split at h
    · injection h with h1 _; subst h1; exact SRel.refl _ s _ hs.1 (fun k => Or.inl rfl)
    · injection h with h1 _; subst h1
      apply SRel_applyBatch _ s acts _ hs.1
      intro k
      apply KS_lockBatch _ k r.startTS
      intro a ha
      have hmem := (List.mem_filter.mp ha)
      have hk : a.key = k := by simpa using hmem.2
      cases prewriteLoop_acts s r r.mutations 0 [] [] errs0 acts hp a hmem.1 with
      | inl h0 => cases h0
      | inr h1 =>
        obtain ⟨m, _, action, am, hok, ham⟩ := h1
        cases prewriteMutation_ok_shape s r m action am (hs.2 m.key) hok with
        | inl he => rw [he] at ham; cases ham
        | inr hsh =>
          obtain ⟨l, hl, hT, hf⟩ := hsh
          rw [hl] at ham
          simp only [List.mem_singleton] at ham
          subst ham
          have : m.key = k := hk
          subst this
          exact ⟨l, rfl, hT, hf⟩

theorem KS_pessimisticLock (s s' : Store) (r : PLReq) (resp : PLResp) (hs : SInv s)
    (hpre : ∀ m ∈ r.mutations, Fresh (getEntry s.kv m.key).writes r.startTS)
    (h : pessimisticLock s r = (s', resp)) : SRel (Cmd.plock r).labels s s' := by
  simp only [pessimisticLock] at h
  generalize hpl : plLoop s r r.mutations s.waitFor [] [] [] = pl at h
  obtain ⟨errs, results, acts, wf⟩ := pl
  simp only [] at h
  have hs1 : SRel (Cmd.plock r).labels s { s with waitFor := wf } := SRel.refl _ s _ hs.1 (fun k => Or.inl rfl)
  have hacts := plLoop_acts s r r.mutations s.waitFor [] [] []
  rw [hpl] at hacts
  simp only [] at hacts
  have hfinal : SRel (Cmd.plock r).labels s { kv := applyBatch s.kv acts, waitFor := wf } := by
    apply SRel_applyBatch _ s acts _ hs.1
    intro k
    apply KS_lockBatch _ k r.startTS
    intro a ha
    have hmem := List.mem_filter.mp ha
    have hk : a.key = k := by simpa using hmem.2
    cases hacts a hmem.1 with
    | inl h0 => cases h0
    | inr h1 =>
      obtain ⟨m, hm, l, hl, hT⟩ := h1
      subst hl
      have : m.key = k := hk
      subst this
      exact ⟨l, rfl, hT, hpre m hm⟩
  split at h
  · injection h with h1 _; subst h1; exact hs1
  · split at h
    · injection h with h1 _; subst h1; exact hs1
    · split at h
      · injection h with h1 _; subst h1; exact hfinal
      · split at h
        · injection h with h1 _; subst h1; exact hfinal
        · split at h <;> (injection h with h1 _; subst h1; exact hfinal)

theorem KS_pessimisticRollback (s : Store) (a b : Bytes) (keys : List Bytes) (T F : TS) (hs : SInv s) :
    SRel (Cmd.prollback a b keys T F).labels s (pessimisticRollback s a b keys T F) := by
  unfold pessimisticRollback
  apply SRel_applyBatch _ s _ _ hs.1
  intro k
  refine ⟨.unlock, Or.inr rfl, KStep.unlock _ ?_⟩
  intro x hx
  have h1 := (List.mem_filter.mp hx).1
  simp only [List.mem_filterMap] at h1
  obtain ⟨k', _, hk'⟩ := h1
  split at hk'
  · split at hk'
    · injection hk' with hk'; exact ⟨k', hk'.symm⟩
    · cases hk'
  · cases hk'

end CGV.Mvcc
