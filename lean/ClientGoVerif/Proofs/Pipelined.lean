/-
  Helper lemmas for C16 (Model/Pipelined.lean): association lists, the byte-string order, invariants of the machine.
-/
import ClientGoVerif.Model.Pipelined
namespace CGV.Pipelined
open CGV

/-! ## association lists -/

/-- first `some` wins -/
def orE {α} (a b : Option α) : Option α := match a with | some v => some v | none => b

@[simp] theorem orE_some {α} (v : α) (b : Option α) : orE (some v) b = some v := rfl
@[simp] theorem orE_none {α} (b : Option α) : orE none b = b := rfl

@[simp] theorem Buf.get_nil (k : Bytes) : Buf.get [] k = none := rfl
theorem Buf.get_cons (k' v : Bytes) (b : Buf) (k : Bytes) :
    Buf.get ((k', v) :: b) k = if k' = k then some v else Buf.get b k := rfl

theorem Buf.get_erase (b : Buf) (k k' : Bytes) :
    (b.erase k).get k' = if k = k' then none else b.get k' := by
  induction b with
  | nil => simp [Buf.erase]
  | cons e rest ih =>
    obtain ⟨a, v⟩ := e
    unfold Buf.erase at *
    by_cases h : a = k
    · subst h
      simp only [List.filter, beq_self_eq_true, Bool.not_true]
      rw [ih, Buf.get_cons]
      by_cases h2 : a = k' <;> simp [h2]
    · have : (!(a == k)) = true := by simp [h]
      simp only [List.filter, this]
      rw [Buf.get_cons, Buf.get_cons, ih]
      by_cases h2 : a = k'
      · subst h2; simp [Ne.symm h]
      · simp [h2]

theorem Buf.get_put (b : Buf) (k v k' : Bytes) :
    (b.put k v).get k' = if k = k' then some v else b.get k' := by
  unfold Buf.put
  rw [Buf.get_cons, Buf.get_erase]
  by_cases h : k = k' <;> simp [h]

theorem Buf.get_apply (b ms : Buf) (k : Bytes) : (b.apply ms).get k = orE (ms.get k) (b.get k) := by
  induction ms with
  | nil => simp [Buf.apply]
  | cons e rest ih =>
    obtain ⟨a, v⟩ := e
    have : Buf.apply b ((a, v) :: rest) = (Buf.apply b rest).put a v := rfl
    rw [this, Buf.get_put, Buf.get_cons, ih]
    by_cases h : a = k <;> simp [h]

theorem Buf.get_some_mem {b : Buf} {k v : Bytes} (h : b.get k = some v) : (k, v) ∈ b := by
  induction b with
  | nil => simp at h
  | cons e rest ih =>
    obtain ⟨a, w⟩ := e
    rw [Buf.get_cons] at h
    by_cases h2 : a = k
    · simp [h2] at h; subst h2; subst h; simp
    · simp [h2] at h; exact List.mem_cons_of_mem _ (ih h)

theorem Buf.mem_get_ne_none {b : Buf} {k v : Bytes} (h : (k, v) ∈ b) : b.get k ≠ none := by
  induction b with
  | nil => simp at h
  | cons e rest ih =>
    obtain ⟨a, w⟩ := e
    rw [Buf.get_cons]
    by_cases h2 : a = k
    · simp [h2]
    · simp [h2]
      rcases List.mem_cons.mp h with h3 | h3
      · simp at h3; exact absurd h3.1.symm h2
      · exact ih h3

theorem mem_insertSorted {e x : Bytes × Bytes} {b : Buf} : x ∈ insertSorted e b ↔ x = e ∨ x ∈ b := by
  induction b with
  | nil => simp [insertSorted]
  | cons y ys ih =>
    unfold insertSorted
    split
    · simp
    · simp [ih]; constructor
      · rintro (h | h | h) <;> simp [h]
      · rintro (h | h | h) <;> simp [h]

theorem mem_sorted {x : Bytes × Bytes} {b : Buf} : x ∈ b.sorted ↔ x ∈ b := by
  induction b with
  | nil => simp [Buf.sorted]
  | cons y ys ih =>
    have : Buf.sorted (y :: ys) = insertSorted y (Buf.sorted ys) := rfl
    rw [this, mem_insertSorted, ih]; simp

/-! ## the refinement invariant -/

def view (s : PState) (k : Bytes) : Option Bytes := orE (s.mbuf.get k) (below s k)

theorem below_eq (s : PState) (k : Bytes) :
    below s k = orE (s.flushing.bind (·.get k)) (s.store.get k) := by
  unfold below; cases s.flushing.bind (·.get k) <;> rfl

def stagesRel (bl : Bytes → Option Bytes) : List Buf → List Buf → Prop
  | [], [] => True
  | m :: ms, c :: cs => (∀ k, orE (m.get k) (bl k) = c.get k) ∧ stagesRel bl ms cs
  | _, _ => False

theorem stagesRel_congr {bl bl' : Bytes → Option Bytes} (h : ∀ k, bl k = bl' k) :
    ∀ {ms cs}, stagesRel bl ms cs → stagesRel bl' ms cs
  | [], [], _ => trivial
  | _ :: ms, _ :: cs, ⟨h1, h2⟩ => ⟨fun k => by rw [← h k]; exact h1 k, stagesRel_congr h h2⟩
  | [], _ :: _, h0 => h0.elim
  | _ :: _, [], h0 => h0.elim

structure Inv (s : PState) (sp : Spec) : Prop where
  view : ∀ k, view s k = sp.cur.get k
  absorbed : s.errCh = some .ok → ∀ f, s.flushing = some f → ∀ k v, f.get k = some v → s.store.get k = some v
  cache : ∀ c, s.cache = some c → ∀ k e, c.get k = some e → (s.mbuf.get k).isSome ∨ e = below s k
  stages : stagesRel (below s) s.stages sp.curSaved
  coh : s.flushing.isSome → s.running = true ∨ s.errCh.isSome

/-- the flushing buffer and the store as a read sees them do not change when the flush function returns -/
theorem below_complete (s : PState) (c : Completion) (k : Bytes) : below (complete s c) k = below s k := by
  unfold complete
  cases hf : s.flushing with
  | none => simp [hf]
  | some f =>
    simp only [hf]
    rw [below_eq, below_eq]
    simp only [hf, Option.bind_some]
    rw [Buf.get_apply]
    cases hk : f.get k with
    | some v => simp
    | none =>
      simp only [orE_none]
      cases hr : c.res with
      | ok => simp [hk]
      | err =>
        simp only
        generalize (if s.cfg.layer = true then 0 else c.applied) = n
        cases hm : Buf.get (List.take n f.sorted) k with
        | none => simp
        | some v =>
          have h1 := Buf.get_some_mem hm
          have h2 : (k, v) ∈ f := mem_sorted.mp (List.mem_of_mem_take h1)
          exact absurd hk (Buf.mem_get_ne_none h2)

@[simp] theorem complete_mbuf (s c) : (complete s c).mbuf = s.mbuf := by unfold complete; split <;> rfl
@[simp] theorem complete_stages (s c) : (complete s c).stages = s.stages := by unfold complete; split <;> rfl
@[simp] theorem complete_cache (s c) : (complete s c).cache = s.cache := by unfold complete; split <;> rfl
@[simp] theorem complete_flushing (s c) : (complete s c).flushing = s.flushing := by unfold complete; split <;> rfl
@[simp] theorem complete_failed (s c) : (complete s c).failed = s.failed := by unfold complete; split <;> rfl
@[simp] theorem complete_gen (s c) : (complete s c).gen = s.gen := by unfold complete; split <;> rfl
@[simp] theorem complete_hist (s c) : (complete s c).hist = s.hist := by unfold complete; split <;> rfl
@[simp] theorem complete_cfg (s c) : (complete s c).cfg = s.cfg := by unfold complete; split <;> rfl

theorem complete_of_flushing {s : PState} {f : Buf} (c : Completion) (hf : s.flushing = some f) :
    (complete s c).running = false ∧ (complete s c).errCh = some c.res ∧
    (c.res = .ok → (complete s c).store = s.store.apply f) := by
  unfold complete; simp only [hf]
  refine ⟨by simp, by simp, ?_⟩
  intro h; simp [h]

theorem view_complete (s c k) : view (complete s c) k = view s k := by
  unfold view; rw [below_complete, complete_mbuf]

theorem inv_complete {s : PState} {sp : Spec} (c : Completion) (h : Inv s sp) : Inv (complete s c) sp where
  view k := by rw [view_complete]; exact h.view k
  absorbed := by
    intro he f hf k v hk
    rw [complete_flushing] at hf
    obtain ⟨_, h2, h3⟩ := complete_of_flushing c hf
    rw [h2] at he
    have : c.res = .ok := by injection he
    rw [h3 this, Buf.get_apply, hk]; rfl
  cache := by
    intro cc hc k e hk
    rw [complete_cache] at hc
    rw [complete_mbuf, below_complete]; exact h.cache cc hc k e hk
  stages := by
    rw [complete_stages]
    exact stagesRel_congr (fun k => (below_complete s c k).symm) h.stages
  coh := by
    intro hf
    rw [complete_flushing] at hf
    cases hff : s.flushing with
    | none => simp [hff] at hf
    | some f => right; rw [(complete_of_flushing c hff).2.1]; rfl

theorem inv_await {s : PState} {sp : Spec} (c : Completion) (h : Inv s sp) : Inv (await s c) sp := by
  unfold await; split
  · exact inv_complete c h
  · exact h

/-- after the receive from `errCh` a result is there -/
theorem await_result {s : PState} {sp : Spec} (c : Completion) (h : Inv s sp) (hf : s.flushing.isSome) :
    (await s c).running = false ∧ (await s c).errCh.isSome ∧ (await s c).flushing = s.flushing := by
  unfold await
  cases hr : s.running with
  | true =>
    simp only [if_true]
    cases hff : s.flushing with
    | none => simp [hff] at hf
    | some f =>
      obtain ⟨h1, h2, _⟩ := complete_of_flushing c hff
      exact ⟨h1, by rw [h2]; rfl, by rw [complete_flushing, hff]⟩
  | false =>
    simp only [Bool.false_eq_true, if_false]
    rcases h.coh hf with h1 | h1
    · rw [hr] at h1; cases h1
    · exact ⟨hr, h1, trivial⟩

theorem start_fields (s : PState) :
    (start s).1.flushing = some s.mbuf ∧ (start s).1.mbuf = [] ∧ (start s).1.stages = s.stages ∧
    (start s).1.store = s.store ∧ (start s).1.cache = s.cache ∧ (start s).1.failed = s.failed ∧
    ((start s).1.running = true ∨ (start s).1.errCh.isSome) ∧ ((start s).1.errCh = some .ok → s.mbuf = []) ∧
    (start s).1.gen = s.gen + 1 ∧ (start s).1.hist = (s.gen + 1, s.mbuf) :: s.hist ∧ (start s).1.cfg = s.cfg ∧
    (∃ rpc, (start s).2 = .flushed (s.gen + 1) s.mbuf rpc) := by
  unfold start
  by_cases h1 : s.cfg.layer = true
  · by_cases h2 : s.ttl = .closed
    · simp [h1, h2]
    · by_cases h3 : s.mbuf.isEmpty = true
      · simp [h1, h2, h3]; simpa using h3
      · simp [h1, h2, h3]
  · simp [h1]

theorem inv_spec_congr {s : PState} {sp sp' : Spec} (h1 : sp'.cur = sp.cur) (h2 : sp'.curSaved = sp.curSaved)
    (h : Inv s sp) : Inv s sp' where
  view k := by rw [h1]; exact h.view k
  absorbed := h.absorbed
  cache := h.cache
  stages := by rw [h2]; exact h.stages
  coh := h.coh

theorem stagesRel_nil_left {bl cs} (h : stagesRel bl [] cs) : cs = [] := by
  cases cs with
  | nil => rfl
  | cons _ _ => exact h.elim

/-- the swap of the buffers in `Flush`: allowed when no staging handle is open and the previous flushing buffer, if any,
    has been absorbed by the store -/
theorem inv_start {s : PState} {sp : Spec} (h : Inv s sp) (hst : s.stages = [])
    (hcache : s.cache = none)
    (hab : ∀ f, s.flushing = some f → ∀ k v, f.get k = some v → s.store.get k = some v) : Inv (start s).1 sp := by
  obtain ⟨hf, hm, hs, hstore, _, _, hcoh, hok, _⟩ := start_fields s
  have hbelow : ∀ k, below (start s).1 k = view s k := by
    intro k
    rw [below_eq, hf, hstore]; unfold view
    simp only [Option.bind_some]
    cases hk : s.mbuf.get k with
    | some v => simp
    | none =>
      simp only [orE_none]
      rw [below_eq]
      cases hff : s.flushing with
      | none => simp
      | some f =>
        simp only [Option.bind_some]
        cases hfk : f.get k with
        | none => simp
        | some v => rw [hab f hff k v hfk]; rfl
  refine ⟨?_, ?_, ?_, ?_, ?_⟩
  · intro k; unfold view; rw [hm]; simp only [Buf.get_nil, orE_none]; rw [hbelow]; exact h.view k
  · intro he f hff k v hk
    rw [hf] at hff; injection hff with hff; subst hff
    rw [hok he] at hk; simp at hk
  · intro c hc
    rw [(start_fields s).2.2.2.2.1, hcache] at hc; cases hc
  · rw [hs, hst]
    have := h.stages; rw [hst] at this
    rw [stagesRel_nil_left this]; trivial
  · intro _; exact hcoh

theorem inv_cache_none {s : PState} {sp : Spec} (h : Inv s sp) : Inv { s with cache := none } sp where
  view := h.view
  absorbed := h.absorbed
  cache := by intro c hc; cases hc
  stages := h.stages
  coh := h.coh

/-- the result of the previous flush has been received and is not an error: the flushing buffer may be forgotten -/
theorem absorbed_of_not_err {s : PState} {sp : Spec} (h : Inv s sp) (hsome : s.errCh.isSome) (hne : s.errCh ≠ some .err) :
    ∀ f, s.flushing = some f → ∀ k v, f.get k = some v → s.store.get k = some v := by
  apply h.absorbed
  cases he : s.errCh with
  | none => simp [he] at hsome
  | some r => cases r with
    | ok => rfl
    | err => exact absurd he hne


theorem await_stages (s : PState) (c : Completion) : (await s c).stages = s.stages := by unfold await; split <;> simp
theorem await_cache (s : PState) (c : Completion) : (await s c).cache = s.cache := by unfold await; split <;> simp
theorem await_mbuf (s : PState) (c : Completion) : (await s c).mbuf = s.mbuf := by unfold await; split <;> simp
theorem await_hist (s : PState) (c : Completion) : (await s c).hist = s.hist := by unfold await; split <;> simp
theorem await_gen (s : PState) (c : Completion) : (await s c).gen = s.gen := by unfold await; split <;> simp
theorem await_failed (s : PState) (c : Completion) : (await s c).failed = s.failed := by unfold await; split <;> simp
theorem await_cfg (s : PState) (c : Completion) : (await s c).cfg = s.cfg := by unfold await; split <;> simp

theorem inv_flushAfterWait {s : PState} {sp : Spec} (h : Inv s sp) (hst : s.stages = []) (hc : s.cache = none)
    (hres : s.errCh.isSome) (hnf : (flushAfterWait s).1.failed = false) : Inv (flushAfterWait s).1 sp := by
  unfold flushAfterWait at hnf ⊢
  by_cases he : s.errCh = some .err
  · simp [he, failWith] at hnf
  · simp only [he, if_false]
    exact inv_start h hst hc (absorbed_of_not_err h hres he)

theorem inv_waitAfter {s : PState} {sp : Spec} (h : Inv s sp) (hres : s.errCh.isSome)
    (hnf : (waitAfter s).1.failed = false) : Inv (waitAfter s).1 sp := by
  unfold waitAfter at hnf ⊢
  by_cases he : s.errCh = some .err
  · simp [he, failWith] at hnf
  · simp only [he, if_false]
    have hab := absorbed_of_not_err h hres he
    have hbelow : ∀ k, below { s with flushing := none, errCh := none } k = below s k := by
      intro k
      rw [below_eq, below_eq]
      simp only [Option.bind_none, orE_none]
      cases hff : s.flushing with
      | none => simp
      | some f' =>
        simp only [Option.bind_some]
        cases hk : f'.get k with
        | none => simp
        | some v => rw [hab f' hff k v hk]; rfl
    refine ⟨?_, ?_, ?_, ?_, ?_⟩
    · intro k; unfold view; rw [hbelow]; exact h.view k
    · intro he2; cases he2
    · intro c hc k e hk; rw [hbelow]; exact h.cache c hc k e hk
    · exact stagesRel_congr (fun k => (hbelow k).symm) h.stages
    · intro hf2; simp at hf2

theorem flushAfterWait_out (s : PState) :
    ((flushAfterWait s).2 = .errFlush ∧ s.errCh = some .err) ∨
    (s.errCh ≠ some .err ∧ flushAfterWait s = start s) := by
  unfold flushAfterWait
  by_cases he : s.errCh = some .err
  · left; simp [he, failWith]
  · right; simp [he]

theorem inv_doFlush {s : PState} {sp : Spec} (force : Bool) (mem : Nat) (late : Completion) (h : Inv s sp)
    (hnf : (doFlush s force mem late).1.failed = false) :
    Inv (doFlush s force mem late).1 (specStep sp (.flush force mem late) (doFlush s force mem late).2) := by
  apply inv_spec_congr (sp := sp)
  · unfold specStep; simp only; split <;> rfl
  · unfold specStep; simp only; split <;> rfl
  have h1 := inv_cache_none h
  unfold doFlush at hnf ⊢
  simp only at hnf ⊢
  by_cases hst : (!s.stages.isEmpty) = true
  · simp only [hst, if_true]; exact h1
  · simp only [hst, if_false] at hnf ⊢
    have hst' : s.stages = [] := by simpa using hst
    by_cases hn : (!force && !needFlush s.cfg mem s.mbuf.length s.running) = true
    · simp only [hn, if_true]; exact h1
    · simp only [hn, if_false] at hnf ⊢
      by_cases hf : s.flushing.isSome = true
      · simp only [hf, if_true] at hnf ⊢
        have h2 := inv_await late h1
        obtain ⟨_, hres, _⟩ := await_result late h1 hf
        exact inv_flushAfterWait h2 (by rw [await_stages]; exact hst') (by rw [await_cache]) hres hnf
      · simp only [hf] at hnf ⊢
        have hfn : s.flushing = none := by simpa using hf
        exact inv_start h1 hst' rfl (by intro f hff; simp [hfn] at hff)

theorem inv_doFlushWait {s : PState} {sp : Spec} (late : Completion) (h : Inv s sp)
    (hnf : (doFlushWait s late).1.failed = false) : Inv (doFlushWait s late).1 sp := by
  unfold doFlushWait at hnf ⊢
  by_cases hf : s.flushing.isSome = true
  · simp only [hf, if_true] at hnf ⊢
    obtain ⟨_, hres, _⟩ := await_result late h hf
    exact inv_waitAfter (inv_await late h) hres hnf
  · simp only [hf]; exact h

/-! ## BatchGet and its cache -/

theorem Cache.get_cons (k' : Bytes) (v : Option Bytes) (c : Cache) (k : Bytes) :
    Cache.get ((k', v) :: c) k = if k' = k then some v else Cache.get c k := rfl

theorem Cache.get_put (c : Cache) (k : Bytes) (e : Option Bytes) (k' : Bytes) :
    (c.put k e).get k' = if k = k' then some e else c.get k' := by
  unfold Cache.put
  rw [Cache.get_cons]
  by_cases h : k = k'
  · simp [h]
  · simp only [h, if_false]
    induction c with
    | nil => rfl
    | cons x rest ih =>
      obtain ⟨a, w⟩ := x
      by_cases h2 : a = k
      · subst h2
        simp only [List.filter, beq_self_eq_true, Bool.not_true]
        rw [ih, Cache.get_cons]; simp [h]
      · have : (!(a == k)) = true := by simp [h2]
        simp only [List.filter, this]
        rw [Cache.get_cons, Cache.get_cons, ih]

def cacheOK (s : PState) (c : Cache) : Prop :=
  ∀ k e, c.get k = some e → (s.mbuf.get k).isSome ∨ e = below s k

theorem getLocal_some {s : PState} {k v : Bytes} (h : getLocal s k = some v) :
    (s.mbuf.get k).isSome ∨ some v = below s k := by
  unfold getLocal at h
  cases hm : s.mbuf.get k with
  | some w => left; rfl
  | none =>
    right
    simp only [hm] at h
    rw [below_eq, h]; rfl

theorem getLocal_none {s : PState} {k : Bytes} (h : getLocal s k = none) :
    s.mbuf.get k = none ∧ below s k = s.store.get k := by
  unfold getLocal at h
  cases hm : s.mbuf.get k with
  | some w => simp [hm] at h
  | none =>
    simp only [hm] at h
    exact ⟨rfl, by rw [below_eq, h]; rfl⟩

theorem cacheOK_put {s : PState} {c : Cache} {k : Bytes} {e : Option Bytes} (h : cacheOK s c)
    (he : (s.mbuf.get k).isSome ∨ e = below s k) : cacheOK s (c.put k e) := by
  intro k' e' hk
  rw [Cache.get_put] at hk
  by_cases h2 : k = k'
  · subst h2; simp at hk; subst hk; exact he
  · simp [h2] at hk; exact h k' e' hk

theorem bgLocal_ok (s : PState) : ∀ (ks : List Bytes) (m : Buf) (c : Cache) (miss : List Bytes),
    cacheOK s c → (∀ k ∈ miss, getLocal s k = none) →
    cacheOK s (bgLocal s ks m c miss).2.1 ∧ ∀ k ∈ (bgLocal s ks m c miss).2.2, getLocal s k = none
  | [], m, c, miss, hc, hm => by
    unfold bgLocal
    exact ⟨hc, fun k hk => hm k (List.mem_reverse.mp hk)⟩
  | k :: ks, m, c, miss, hc, hm => by
    unfold bgLocal
    cases hg : getLocal s k with
    | some v =>
      simp only
      exact bgLocal_ok s ks _ _ miss (cacheOK_put hc (getLocal_some hg)) hm
    | none =>
      simp only
      refine bgLocal_ok s ks m c (k :: miss) hc ?_
      intro k' hk'
      rcases List.mem_cons.mp hk' with h | h
      · rw [h]; exact hg
      · exact hm k' h

theorem bgRemote_ok (s : PState) : ∀ (ks : List Bytes) (m : Buf) (c : Cache),
    cacheOK s c → (∀ k ∈ ks, getLocal s k = none) → cacheOK s (bgRemote s.store ks m c).2
  | [], m, c, hc, _ => by unfold bgRemote; exact hc
  | k :: ks, m, c, hc, hm => by
    unfold bgRemote
    have hk := getLocal_none (hm k (by simp))
    have hrest : ∀ k' ∈ ks, getLocal s k' = none := fun k' h => hm k' (List.mem_cons_of_mem _ h)
    cases hg : s.store.get k with
    | some v =>
      simp only
      exact bgRemote_ok s ks _ _ (cacheOK_put hc (Or.inr (by rw [hk.2, hg]))) hrest
    | none =>
      simp only
      exact bgRemote_ok s ks _ _ (cacheOK_put hc (Or.inr (by rw [hk.2, hg]))) hrest

theorem batchGet_fields (s : PState) (ks : List Bytes) :
    (batchGet s ks).1 = { s with cache := (batchGet s ks).1.cache } := by
  unfold batchGet; rfl

theorem inv_batchGet {s : PState} {sp : Spec} (ks : List Bytes) (h : Inv s sp) : Inv (batchGet s ks).1 sp := by
  have hc0 : cacheOK s (s.cache.getD []) := by
    intro k e hk
    cases hc : s.cache with
    | none => simp [hc, Cache.get] at hk
    | some c => simp [hc] at hk; exact h.cache c hc k e hk
  have h1 := bgLocal_ok s ks [] (s.cache.getD []) [] hc0 (by simp)
  have h2 := bgRemote_ok s (bgLocal s ks [] (s.cache.getD []) []).2.2 (bgLocal s ks [] (s.cache.getD []) []).1
    (bgLocal s ks [] (s.cache.getD []) []).2.1 h1.1 h1.2
  have hcache : (batchGet s ks).1.cache = some (bgRemote s.store (bgLocal s ks [] (s.cache.getD []) []).2.2
      (bgLocal s ks [] (s.cache.getD []) []).1 (bgLocal s ks [] (s.cache.getD []) []).2.1).2 := by
    unfold batchGet; rfl
  rw [batchGet_fields]
  refine ⟨h.view, h.absorbed, ?_, h.stages, h.coh⟩
  intro c hc k e hk
  simp only at hc
  rw [hcache] at hc
  injection hc with hc; subst hc
  exact h2 k e hk

/-! ## every step keeps the invariant -/

theorem stagesRel_tail {bl ms cs} (h : stagesRel bl ms cs) : stagesRel bl ms.tail cs.tail := by
  cases ms with
  | nil => rw [stagesRel_nil_left h]; trivial
  | cons m ms =>
    cases cs with
    | nil => exact h.elim
    | cons c cs => exact h.2

theorem inv_write {s : PState} {sp : Spec} (k v : Bytes) (h : Inv s sp) :
    Inv { s with mbuf := s.mbuf.put k v } { sp with cur := (k, v) :: sp.cur, pending := (k, v) :: sp.pending } where
  view k' := by
    have := h.view k'
    unfold view at this ⊢
    have hb : below { s with mbuf := s.mbuf.put k v } k' = below s k' := rfl
    rw [hb]; simp only
    rw [Buf.get_put, Buf.get_cons]
    by_cases h2 : k = k'
    · simp [h2]
    · simp only [h2, if_false]; exact this
  absorbed := h.absorbed
  cache := by
    intro c hc k' e hk
    have hb : below { s with mbuf := s.mbuf.put k v } k' = below s k' := rfl
    rw [hb]
    rcases h.cache c hc k' e hk with h1 | h1
    · left; simp only; rw [Buf.get_put]
      by_cases h2 : k = k'
      · simp [h2]
      · simp only [h2, if_false]; exact h1
    · right; exact h1
  stages := h.stages
  coh := h.coh

theorem inv_step {s : PState} {sp : Spec} (op : Op) (h : Inv s sp)
    (hnf : (step s op).1.failed = false) : Inv (step s op).1 (specStep sp op (step s op).2) := by
  cases op with
  | set k v =>
    unfold step specStep
    by_cases hv : v.isEmpty = true
    · simp only [hv, if_true]; exact h
    · simp only [hv]; exact inv_write k v h
  | del k => exact inv_write k [] h
  | get k => exact h
  | batchGet ks => exact inv_batchGet ks h
  | flush force mem late => exact inv_doFlush force mem late h hnf
  | flushDone c =>
    unfold step specStep
    by_cases hr : s.running = true
    · simp only [hr, if_true]; exact inv_complete c h
    · simp only [hr]; exact h
  | flushWait late => exact inv_doFlushWait late h hnf
  | stage =>
    unfold step specStep
    exact ⟨h.view, h.absorbed, h.cache, ⟨h.view, h.stages⟩, h.coh⟩
  | release =>
    unfold step specStep
    exact ⟨h.view, h.absorbed, h.cache, stagesRel_tail h.stages, h.coh⟩
  | cleanup =>
    unfold step specStep
    cases hs : s.stages with
    | nil =>
      have hcs : sp.curSaved = [] := by have := h.stages; rw [hs] at this; exact stagesRel_nil_left this
      simp only [hcs, List.headD_nil, List.tail_nil]
      exact ⟨h.view, h.absorbed, (by intro c hc; cases hc), (by simp [stagesRel]), h.coh⟩
    | cons m rest =>
      cases hcs : sp.curSaved with
      | nil => have := h.stages; rw [hs, hcs] at this; exact this.elim
      | cons c cs =>
        have hrel := h.stages; rw [hs, hcs] at hrel
        simp only [List.headD_cons, List.tail_cons]
        exact ⟨hrel.1, h.absorbed, (by intro c hc; cases hc), hrel.2, h.coh⟩

theorem readValue_eq_view {s : PState} {sp : Spec} (h : Inv s sp) (k : Bytes) : readValue s k = view s k := by
  unfold readValue view
  cases hl : getLocal s k with
  | some v =>
    simp only
    unfold getLocal at hl
    cases hm : s.mbuf.get k with
    | some w => simp [hm] at hl; simp [hl]
    | none =>
      simp only [hm] at hl
      simp only [orE_none]; rw [below_eq, hl]; rfl
  | none =>
    obtain ⟨hm, hb⟩ := getLocal_none hl
    simp only [hm, orE_none]
    cases hc : s.cache with
    | none => simp [hb]
    | some c =>
      simp only [Option.bind_some]
      cases hck : c.get k with
      | none => simp [hb]
      | some e =>
        simp only
        rcases h.cache c hc k e hck with h1 | h1
        · simp [hm] at h1
        · exact h1

theorem failed_mono (s : PState) (op : Op) (h : s.failed = true) : (step s op).1.failed = true := by
  cases op with
  | set k v => simp only [step]; split <;> exact h
  | del k => exact h
  | get k => exact h
  | batchGet ks => simp only [step]; rw [batchGet_fields]; exact h
  | flush force mem late =>
    simp only [step, doFlush]
    split
    · exact h
    · split
      · exact h
      · split
        · unfold flushAfterWait; split
          · rfl
          · rw [(start_fields _).2.2.2.2.2.1, await_failed]; exact h
        · rw [(start_fields _).2.2.2.2.2.1]; exact h
  | flushDone c => simp only [step]; split <;> simp [h]
  | flushWait late =>
    simp only [step, doFlushWait]
    split
    · unfold waitAfter; split
      · rfl
      · simp only; rw [await_failed]; exact h
    · exact h
  | stage => exact h
  | release => exact h
  | cleanup => simp only [step]; split <;> exact h

theorem runBoth_fst (s : PState) (sp : Spec) (ops : List Op) : (runBoth (s, sp) ops).1 = run s ops := by
  induction ops generalizing s sp with
  | nil => rfl
  | cons op ops ih => unfold runBoth run stepBoth; exact ih _ _

theorem failed_run_mono (s : PState) (ops : List Op) (h : s.failed = true) : (run s ops).failed = true := by
  induction ops generalizing s with
  | nil => exact h
  | cons op ops ih => unfold run; exact ih _ (failed_mono s op h)

theorem inv_run {s : PState} {sp : Spec} (ops : List Op) (h : Inv s sp)
    (hnf : (run s ops).failed = false) : Inv (runBoth (s, sp) ops).1 (runBoth (s, sp) ops).2 := by
  induction ops generalizing s sp with
  | nil => exact h
  | cons op ops ih =>
    unfold runBoth stepBoth
    unfold run at hnf
    have hnf1 : (step s op).1.failed = false := by
      cases hf : (step s op).1.failed with
      | false => rfl
      | true => rw [failed_run_mono _ ops hf] at hnf; cases hnf
    exact ih (inv_step op h hnf1) hnf

theorem inv_init (cfg : Cfg) : Inv (init cfg) {} where
  view k := rfl
  absorbed := by intro he; cases he
  cache := by intro c hc; cases hc
  stages := trivial
  coh := by intro hf; cases hf

/-! ## flush discipline: batches, generations, at most one flush function running -/

def bufEq (a b : Buf) : Prop := ∀ k, a.get k = b.get k

def allRel {α β} (R : α → β → Prop) : List α → List β → Prop
  | [], [] => True
  | a :: as, b :: bs => R a b ∧ allRel R as bs
  | _, _ => False

theorem allRel_nil_left {α β} {R : α → β → Prop} {bs : List β} (h : allRel R [] bs) : bs = [] := by
  cases bs with
  | nil => rfl
  | cons _ _ => exact h.elim

theorem allRel_tail {α β} {R : α → β → Prop} {as : List α} {bs : List β} (h : allRel R as bs) :
    allRel R as.tail bs.tail := by
  cases as with
  | nil => rw [allRel_nil_left h]; trivial
  | cons a as =>
    cases bs with
    | nil => exact h.elim
    | cons b bs => exact h.2

/-- n, n-1, …, 1 -/
def down : Nat → List Nat
  | 0 => []
  | n + 1 => (n + 1) :: down n

structure Inv2 (s : PState) (sp : Spec) : Prop where
  mbufEq : bufEq s.mbuf sp.pending
  stagesEq : allRel bufEq s.stages sp.pendSaved
  histEq : allRel bufEq (s.hist.map (·.2)) sp.handed
  gens : s.hist.map (·.1) = down s.gen
  active : s.active = if s.running then [s.gen] else []
  runFl : s.running = true → s.flushing.isSome
  errFl : s.errCh.isSome → s.flushing.isSome ∧ s.running = false

theorem start_cases (s : PState) :
    (start s).1.ttl = s.ttl ∧
    (((start s).1.running = true ∧ (start s).1.errCh = none ∧ (start s).1.active = (s.gen + 1) :: s.active) ∨
     ((start s).1.running = false ∧ (start s).1.errCh.isSome ∧ (start s).1.active = s.active)) ∧
    (s.cfg.layer = true → s.ttl = .closed → (start s).1.running = false ∧ (start s).1.errCh = some .err) := by
  unfold start
  by_cases h1 : s.cfg.layer = true
  · by_cases h2 : s.ttl = .closed
    · simp [h1, h2]
    · by_cases h3 : s.mbuf.isEmpty = true
      · simp [h1, h2, h3]
      · simp [h1, h2, h3]
  · simp [h1]

theorem inv2_start {s : PState} {sp : Spec} (h : Inv2 s sp) (hr : s.running = false) :
    Inv2 (start s).1 { sp with handed := sp.pending :: sp.handed, pending := [] } := by
  obtain ⟨hf, hm, hs, _, _, _, _, _, hg, hh, _, _⟩ := start_fields s
  obtain ⟨_, hc, _⟩ := start_cases s
  have hact : s.active = [] := by have := h.active; simpa [hr] using this
  refine ⟨?_, ?_, ?_, ?_, ?_, ?_, ?_⟩
  · intro k; rw [hm]; try rfl
  · rw [hs]; exact h.stagesEq
  · rw [hh]; exact ⟨h.mbufEq, h.histEq⟩
  · rw [hh, hg]; simp only [List.map_cons, down]; rw [h.gens]
  · rcases hc with ⟨h1, _, h3⟩ | ⟨h1, _, h3⟩
    · rw [h3, h1, hg, hact]; try rfl
    · rw [h3, h1, hact]; try rfl
  · intro _; rw [hf]; rfl
  · intro he
    rcases hc with ⟨_, h2, _⟩ | ⟨h1, _, _⟩
    · rw [h2] at he; cases he
    · exact ⟨by rw [hf]; rfl, h1⟩

theorem complete_active {s : PState} {f : Buf} (c : Completion) (hf : s.flushing = some f) :
    (complete s c).active = s.active.filter (· != s.gen) := by
  unfold complete; simp only [hf]

theorem inv2_complete {s : PState} {sp : Spec} (c : Completion) (h : Inv2 s sp) (hr : s.running = true) :
    Inv2 (complete s c) sp := by
  have hfs := h.runFl hr
  cases hf : s.flushing with
  | none => simp [hf] at hfs
  | some f =>
    obtain ⟨h1, h2, _⟩ := complete_of_flushing c hf
    refine ⟨?_, ?_, ?_, ?_, ?_, ?_, ?_⟩
    · rw [complete_mbuf]; exact h.mbufEq
    · rw [complete_stages]; exact h.stagesEq
    · rw [complete_hist]; exact h.histEq
    · rw [complete_hist, complete_gen]; exact h.gens
    · rw [complete_active c hf, h1, h.active, hr]; simp
    · intro hr'; rw [h1] at hr'; cases hr'
    · intro _; exact ⟨by rw [complete_flushing, hf]; rfl, h1⟩

theorem inv2_await {s : PState} {sp : Spec} (c : Completion) (h : Inv2 s sp) : Inv2 (await s c) sp := by
  unfold await
  by_cases hr : s.running = true
  · simp only [hr, if_true]; exact inv2_complete c h hr
  · simp only [hr]; exact h

theorem await_not_running {s : PState} (c : Completion) (hf : s.flushing.isSome) : (await s c).running = false := by
  unfold await
  by_cases hr : s.running = true
  · simp only [hr, if_true]
    cases hff : s.flushing with
    | none => simp [hff] at hf
    | some f => exact (complete_of_flushing c hff).1
  · simp only [hr]; simpa using hr

theorem inv2_clear {s : PState} {sp : Spec} (h : Inv2 s sp) (hr : s.running = false) (fl : Bool)
    (le : Option Reported) : Inv2 { s with flushing := none, errCh := none, failed := fl, lastErr := le } sp where
  mbufEq := h.mbufEq
  stagesEq := h.stagesEq
  histEq := h.histEq
  gens := h.gens
  active := h.active
  runFl := by intro hr'; simp only at hr'; rw [hr] at hr'; cases hr'
  errFl := by intro he; cases he

theorem inv2_cache {s : PState} {sp : Spec} (h : Inv2 s sp) (c : Option Cache) : Inv2 { s with cache := c } sp :=
  ⟨h.mbufEq, h.stagesEq, h.histEq, h.gens, h.active, h.runFl, h.errFl⟩

theorem inv2_spec_congr {s : PState} {sp sp' : Spec} (h1 : sp'.pending = sp.pending) (h2 : sp'.pendSaved = sp.pendSaved)
    (h3 : sp'.handed = sp.handed) (h : Inv2 s sp) : Inv2 s sp' :=
  ⟨by rw [h1]; exact h.mbufEq, by rw [h2]; exact h.stagesEq, by rw [h3]; exact h.histEq, h.gens, h.active, h.runFl, h.errFl⟩

theorem inv2_write {s : PState} {sp : Spec} (k v : Bytes) (h : Inv2 s sp) :
    Inv2 { s with mbuf := s.mbuf.put k v } { sp with cur := (k, v) :: sp.cur, pending := (k, v) :: sp.pending } :=
  ⟨by intro k'; simp only; rw [Buf.get_put, Buf.get_cons, h.mbufEq k'], h.stagesEq, h.histEq, h.gens, h.active, h.runFl, h.errFl⟩

theorem doFlush_cases (s : PState) (force : Bool) (mem : Nat) (late : Completion) :
    doFlush s force mem late = ({ s with cache := none }, .errStaging) ∨
    (force = false ∧ doFlush s force mem late = ({ s with cache := none }, .notFlushed)) ∨
    (s.flushing.isSome = true ∧ s.stages = [] ∧
      doFlush s force mem late = flushAfterWait (await { s with cache := none } late)) ∨
    (s.flushing = none ∧ s.stages = [] ∧ doFlush s force mem late = start { s with cache := none }) := by
  unfold doFlush
  simp only
  by_cases hst : (!s.stages.isEmpty) = true
  · left; simp [hst]
  · have hst' : s.stages = [] := by simpa using hst
    by_cases hn : (!force && !needFlush s.cfg mem s.mbuf.length s.running) = true
    · right; left
      refine ⟨by cases force <;> simp_all, ?_⟩
      simp only [hst, hn]; simp
    · by_cases hf : s.flushing.isSome = true
      · right; right; left; refine ⟨hf, hst', ?_⟩; simp only [hst, hn, hf]; simp
      · right; right; right; refine ⟨by simpa using hf, hst', ?_⟩; simp only [hst, hn, hf]; simp

theorem doFlushWait_cases (s : PState) (late : Completion) :
    (s.flushing.isSome = true ∧ doFlushWait s late = waitAfter (await s late)) ∨
    (s.flushing = none ∧ doFlushWait s late = (s, .ok)) := by
  unfold doFlushWait
  by_cases hf : s.flushing.isSome = true
  · left; exact ⟨hf, by simp [hf]⟩
  · right; exact ⟨by simpa using hf, by simp [hf]⟩

theorem flushAfterWait_cases (s : PState) :
    (s.errCh = some .err ∧ flushAfterWait s = failWith s) ∨ (s.errCh ≠ some .err ∧ flushAfterWait s = start s) := by
  unfold flushAfterWait
  by_cases he : s.errCh = some .err
  · left; exact ⟨he, by simp [he]⟩
  · right; exact ⟨he, by simp [he]⟩

theorem waitAfter_cases (s : PState) :
    (s.errCh = some .err ∧ waitAfter s = failWith s) ∨
    (s.errCh ≠ some .err ∧ waitAfter s = ({ s with flushing := none, errCh := none }, .ok)) := by
  unfold waitAfter
  by_cases he : s.errCh = some .err
  · left; exact ⟨he, by simp [he]⟩
  · right; exact ⟨he, by simp [he]⟩

theorem inv2_doFlush {s : PState} {sp : Spec} (force : Bool) (mem : Nat) (late : Completion) (h : Inv2 s sp) :
    Inv2 (doFlush s force mem late).1 (specStep sp (.flush force mem late) (doFlush s force mem late).2) := by
  have h1 := inv2_cache h none
  rcases doFlush_cases s force mem late with hd | ⟨_, hd⟩ | ⟨hf, _, hd⟩ | ⟨hf, _, hd⟩
  · rw [hd]; exact h1
  · rw [hd]; exact h1
  · rw [hd]
    have h2 := inv2_await late h1
    have hnr : (await { s with cache := none } late).running = false := await_not_running late hf
    rcases flushAfterWait_cases (await { s with cache := none } late) with ⟨_, he⟩ | ⟨_, he⟩
    · rw [he]; exact inv2_clear h2 hnr true _
    · rw [he]
      obtain ⟨rpc, ho⟩ := (start_fields (await { s with cache := none } late)).2.2.2.2.2.2.2.2.2.2.2
      rw [ho]
      exact inv2_start h2 hnr
  · rw [hd]
    have hnr : s.running = false := by
      cases hr : s.running with
      | false => rfl
      | true => have := h.runFl hr; rw [hf] at this; cases this
    obtain ⟨rpc, ho⟩ := (start_fields { s with cache := none }).2.2.2.2.2.2.2.2.2.2.2
    rw [ho]
    exact inv2_start h1 hnr

theorem inv2_doFlushWait {s : PState} {sp : Spec} (late : Completion) (h : Inv2 s sp) :
    Inv2 (doFlushWait s late).1 sp := by
  rcases doFlushWait_cases s late with ⟨hf, hd⟩ | ⟨_, hd⟩
  · rw [hd]
    have h2 := inv2_await late h
    have hnr := await_not_running (s := s) late hf
    rcases waitAfter_cases (await s late) with ⟨_, he⟩ | ⟨_, he⟩
    · rw [he]; exact inv2_clear h2 hnr true _
    · rw [he]; exact inv2_clear h2 hnr _ _
  · rw [hd]; exact h

theorem inv2_step {s : PState} {sp : Spec} (op : Op) (h : Inv2 s sp) :
    Inv2 (step s op).1 (specStep sp op (step s op).2) := by
  cases op with
  | set k v =>
    simp only [step, specStep]
    by_cases hv : v.isEmpty = true
    · simp only [hv, if_true]; exact h
    · simp only [hv]; exact inv2_write k v h
  | del k => exact inv2_write k [] h
  | get k => exact h
  | batchGet ks => simp only [step, specStep]; rw [batchGet_fields]; exact inv2_cache h _
  | flush force mem late => exact inv2_doFlush force mem late h
  | flushDone c =>
    simp only [step, specStep]
    by_cases hr : s.running = true
    · simp only [hr, if_true]; exact inv2_complete c h hr
    · simp only [hr]; exact h
  | flushWait late => exact inv2_doFlushWait late h
  | stage =>
    simp only [step, specStep]
    exact ⟨h.mbufEq, ⟨h.mbufEq, h.stagesEq⟩, h.histEq, h.gens, h.active, h.runFl, h.errFl⟩
  | release =>
    simp only [step, specStep]
    exact ⟨h.mbufEq, allRel_tail h.stagesEq, h.histEq, h.gens, h.active, h.runFl, h.errFl⟩
  | cleanup =>
    simp only [step, specStep]
    cases hs : s.stages with
    | nil =>
      have hps : sp.pendSaved = [] := by have := h.stagesEq; rw [hs] at this; exact allRel_nil_left this
      simp only [hps, List.headD_nil, List.tail_nil]
      exact ⟨h.mbufEq, (by simp [allRel]), h.histEq, h.gens, h.active, h.runFl, h.errFl⟩
    | cons m rest =>
      cases hps : sp.pendSaved with
      | nil => have := h.stagesEq; rw [hs, hps] at this; exact this.elim
      | cons c cs =>
        have hrel := h.stagesEq; rw [hs, hps] at hrel
        simp only [List.headD_cons, List.tail_cons]
        exact ⟨hrel.1, hrel.2, h.histEq, h.gens, h.active, h.runFl, h.errFl⟩

theorem inv2_init (cfg : Cfg) : Inv2 (init cfg) {} where
  mbufEq k := rfl
  stagesEq := trivial
  histEq := trivial
  gens := rfl
  active := rfl
  runFl := by intro h; cases h
  errFl := by intro h; cases h

theorem inv2_run {s : PState} {sp : Spec} (ops : List Op) (h : Inv2 s sp) :
    Inv2 (runBoth (s, sp) ops).1 (runBoth (s, sp) ops).2 := by
  induction ops generalizing s sp with
  | nil => exact h
  | cons op ops ih => unfold runBoth stepBoth; exact ih (inv2_step op h)

/-! ## flush errors -/

theorem await_of_not_running {s : PState} (c : Completion) (hr : s.running = false) : await s c = s := by
  unfold await; simp [hr]

/-- a failure that sits in `errCh` is returned by the next `Flush(true)` (unless it refuses because of an open staging
    handle) and by the next `FlushWait` -/
theorem err_reported {s : PState} {sp : Spec} (h : Inv2 s sp) (he : s.errCh = some .err) (mem : Nat) (late : Completion) :
    ((doFlush s true mem late).2 = .errFlush ∨ (doFlush s true mem late).2 = .errStaging) ∧
    (doFlushWait s late).2 = .errFlush := by
  obtain ⟨hfl, hr⟩ := h.errFl (by rw [he]; rfl)
  constructor
  · rcases doFlush_cases s true mem late with hd | ⟨hf, _⟩ | ⟨_, _, hd⟩ | ⟨hf, _, _⟩
    · right; rw [hd]
    · cases hf
    · left; rw [hd, await_of_not_running late (by exact hr)]
      unfold flushAfterWait failWith; simp [he]
    · rw [hf] at hfl; cases hfl
  · rcases doFlushWait_cases s late with ⟨_, hd⟩ | ⟨hf, _⟩
    · rw [hd, await_of_not_running late hr]
      unfold waitAfter failWith; simp [he]
    · rw [hf] at hfl; cases hfl

theorem complete_ttl_closed {s : PState} (c : Completion) (h : s.ttl = .closed) : (complete s c).ttl = .closed := by
  unfold complete
  split
  · exact h
  · simp only
    split
    · cases c.res <;> simp [h]
    · exact h

theorem complete_err_closes {s : PState} {f : Buf} (c : Completion) (hl : s.cfg.layer = true) (ht : s.ttl = .running)
    (hf : s.flushing = some f) (hc : c.res = .err) : (complete s c).ttl = .closed := by
  unfold complete; simp [hf, hl, ht, hc]

theorem await_ttl_closed {s : PState} (c : Completion) (h : s.ttl = .closed) : (await s c).ttl = .closed := by
  unfold await; split
  · exact complete_ttl_closed c h
  · exact h

theorem step_cfg (s : PState) (op : Op) : (step s op).1.cfg = s.cfg := by
  cases op with
  | set k v => simp only [step]; split <;> rfl
  | del k => rfl
  | get k => rfl
  | batchGet ks => simp only [step]; rw [batchGet_fields]
  | flush force mem late =>
    simp only [step]
    rcases doFlush_cases s force mem late with hd | ⟨_, hd⟩ | ⟨_, _, hd⟩ | ⟨_, _, hd⟩
    · rw [hd]
    · rw [hd]
    · rw [hd]
      rcases flushAfterWait_cases (await { s with cache := none } late) with ⟨_, he⟩ | ⟨_, he⟩
      · rw [he]; unfold failWith; simp only; rw [await_cfg]
      · rw [he, (start_fields _).2.2.2.2.2.2.2.2.2.2.1, await_cfg]
    · rw [hd, (start_fields _).2.2.2.2.2.2.2.2.2.2.1]
  | flushDone c => simp only [step]; split <;> simp
  | flushWait late =>
    simp only [step]
    rcases doFlushWait_cases s late with ⟨_, hd⟩ | ⟨_, hd⟩
    · rw [hd]
      rcases waitAfter_cases (await s late) with ⟨_, he⟩ | ⟨_, he⟩
      · rw [he]; unfold failWith; simp only; rw [await_cfg]
      · rw [he]; simp only; rw [await_cfg]
    · rw [hd]
  | stage => rfl
  | release => rfl
  | cleanup => simp only [step]; split <;> rfl

theorem step_ttl_closed (s : PState) (op : Op) (h : s.ttl = .closed) : (step s op).1.ttl = .closed := by
  cases op with
  | set k v => simp only [step]; split <;> exact h
  | del k => exact h
  | get k => exact h
  | batchGet ks => simp only [step]; rw [batchGet_fields]; exact h
  | flush force mem late =>
    simp only [step]
    rcases doFlush_cases s force mem late with hd | ⟨_, hd⟩ | ⟨_, _, hd⟩ | ⟨_, _, hd⟩
    · rw [hd]; exact h
    · rw [hd]; exact h
    · rw [hd]
      have h2 : (await { s with cache := none } late).ttl = .closed := await_ttl_closed late h
      rcases flushAfterWait_cases (await { s with cache := none } late) with ⟨_, he⟩ | ⟨_, he⟩
      · rw [he]; exact h2
      · rw [he, (start_cases _).1]; exact h2
    · rw [hd, (start_cases _).1]; exact h
  | flushDone c => simp only [step]; split
                   · exact complete_ttl_closed c h
                   · exact h
  | flushWait late =>
    simp only [step]
    have h2 : (await s late).ttl = .closed := await_ttl_closed late h
    rcases doFlushWait_cases s late with ⟨_, hd⟩ | ⟨_, hd⟩
    · rw [hd]
      rcases waitAfter_cases (await s late) with ⟨_, he⟩ | ⟨_, he⟩
      · rw [he]; exact h2
      · rw [he]; exact h2
    · rw [hd]; exact h
  | stage => exact h
  | release => exact h
  | cleanup => simp only [step]; split <;> exact h

theorem run_cfg (s : PState) (ops : List Op) : (run s ops).cfg = s.cfg := by
  induction ops generalizing s with
  | nil => rfl
  | cons op ops ih => unfold run; rw [ih, step_cfg]

theorem run_ttl_closed (s : PState) (ops : List Op) (h : s.ttl = .closed) : (run s ops).ttl = .closed := by
  induction ops generalizing s with
  | nil => exact h
  | cons op ops ih => unfold run; exact ih _ (step_ttl_closed s op h)

theorem commitOk_iff (s : PState) (mem : Nat) (l1 l2 : Completion) :
    commitOk s mem l1 l2 = true ↔
      (∃ g b r, (doFlush s true mem l1).2 = .flushed g b r) ∧ (doFlushWait (doFlush s true mem l1).1 l2).2 = .ok := by
  unfold commitOk commitOuts
  cases h : (doFlush s true mem l1).2 with
  | flushed g b r => cases h2 : (doFlushWait (doFlush s true mem l1).1 l2).2 <;> simp [h, h2]
  | _ => simp [h]

/-- the callback refuses every flush once the TTL manager is closed: the flush started by commit fails at once and
    `FlushWait` returns its error -/
theorem start_closed_then_wait {s : PState} (hl : s.cfg.layer = true) (ht : s.ttl = .closed) (late : Completion) :
    (doFlushWait (start s).1 late).2 = .errFlush := by
  obtain ⟨hr, he⟩ := (start_cases s).2.2 hl ht
  have hf := (start_fields s).1
  rcases doFlushWait_cases (start s).1 late with ⟨_, hd⟩ | ⟨hn, _⟩
  · rw [hd, await_of_not_running late hr]
    unfold waitAfter failWith; simp [he]
  · rw [hf] at hn; cases hn

theorem commit_fails_closed {s : PState} (hl : s.cfg.layer = true) (ht : s.ttl = .closed) (mem : Nat)
    (l1 l2 : Completion) : commitOk s mem l1 l2 = false := by
  cases hc : commitOk s mem l1 l2 with
  | false => rfl
  | true =>
    obtain ⟨⟨g, b, r, ho⟩, hw⟩ := (commitOk_iff s mem l1 l2).mp hc
    rcases doFlush_cases s true mem l1 with hd | ⟨hf, _⟩ | ⟨_, _, hd⟩ | ⟨_, _, hd⟩
    · rw [hd] at ho; cases ho
    · cases hf
    · rcases flushAfterWait_cases (await { s with cache := none } l1) with ⟨_, he⟩ | ⟨_, he⟩
      · rw [hd, he] at ho; unfold failWith at ho; cases ho
      · rw [hd, he] at hw
        have := start_closed_then_wait (s := await { s with cache := none } l1) (by rw [await_cfg]; exact hl)
          (await_ttl_closed l1 ht) l2
        rw [this] at hw
        cases hw
    · rw [hd] at hw
      have := start_closed_then_wait (s := { s with cache := none }) hl ht l2
      rw [this] at hw
      cases hw

/-! ## the byte-string order -/

theorem cmp_cons (a b : UInt8) (as bs : Bytes) :
    Bytes.cmp (a :: as) (b :: bs) = if a < b then .lt else if b < a then .gt else Bytes.cmp as bs := rfl

theorem cmp_refl : ∀ a : Bytes, Bytes.cmp a a = .eq
  | [] => rfl
  | a :: as => by rw [cmp_cons]; simp [UInt8.lt_irrefl, cmp_refl as]

theorem cmp_eq_iff : ∀ {a b : Bytes}, Bytes.cmp a b = .eq ↔ a = b
  | [], [] => by simp [Bytes.cmp]
  | [], _ :: _ => by simp [Bytes.cmp]
  | _ :: _, [] => by simp [Bytes.cmp]
  | a :: as, b :: bs => by
    rw [cmp_cons]
    by_cases h1 : a < b
    · simp only [h1, if_true]
      constructor
      · intro h; cases h
      · intro h; injection h with h2 _; subst h2; exact absurd h1 (UInt8.lt_irrefl a)
    · by_cases h2 : b < a
      · simp only [h1, h2, if_true, if_false]
        constructor
        · intro h; cases h
        · intro h; injection h with h3 _; subst h3; exact absurd h2 (UInt8.lt_irrefl a)
      · simp only [h1, h2, if_false]
        have hab : a = b := UInt8.le_antisymm (UInt8.not_lt.mp h2) (UInt8.not_lt.mp h1)
        rw [cmp_eq_iff (a := as) (b := bs)]
        constructor
        · intro h; rw [hab, h]
        · intro h; injection h

theorem cmp_lt_gt : ∀ {a b : Bytes}, Bytes.cmp a b = .lt ↔ Bytes.cmp b a = .gt
  | [], [] => by simp [Bytes.cmp]
  | [], _ :: _ => by simp [Bytes.cmp]
  | _ :: _, [] => by simp [Bytes.cmp]
  | a :: as, b :: bs => by
    rw [cmp_cons, cmp_cons]
    by_cases h1 : a < b
    · have h2 : ¬ b < a := UInt8.lt_asymm h1
      simp [h1, h2]
    · by_cases h2 : b < a
      · simp [h1, h2]
      · simp only [h1, h2, if_false]; exact cmp_lt_gt

theorem lt_trans' : ∀ {a b c : Bytes}, Bytes.cmp a b = .lt → Bytes.cmp b c = .lt → Bytes.cmp a c = .lt
  | [], [], _, h, _ => by simp [Bytes.cmp] at h
  | [], _ :: _, [], _, h => by simp [Bytes.cmp] at h
  | [], _ :: _, _ :: _, _, _ => by simp [Bytes.cmp]
  | _ :: _, [], _, h, _ => by simp [Bytes.cmp] at h
  | _ :: _, _ :: _, [], _, h => by simp [Bytes.cmp] at h
  | a :: as, b :: bs, c :: cs, h1, h2 => by
    rw [cmp_cons] at h1 h2 ⊢
    by_cases hab : a < b
    · by_cases hbc : b < c
      · simp [UInt8.lt_trans hab hbc]
      · by_cases hcb : c < b
        · simp [hbc, hcb] at h2
        · have : b = c := UInt8.le_antisymm (UInt8.not_lt.mp hcb) (UInt8.not_lt.mp hbc)
          subst this; simp [hab]
    · by_cases hba : b < a
      · simp [hab, hba] at h1
      · have : a = b := UInt8.le_antisymm (UInt8.not_lt.mp hba) (UInt8.not_lt.mp hab)
        subst this
        simp only [hab, hba, if_false] at h1
        by_cases hac : a < c
        · simp [hac]
        · by_cases hca : c < a
          · simp [hac, hca] at h2
          · simp only [hac, hca, if_false] at h2 ⊢
            exact lt_trans' h1 h2

theorem lt_irrefl' (a : Bytes) : Bytes.lt a a = false := by unfold Bytes.lt; rw [cmp_refl]; rfl

theorem le_refl' (a : Bytes) : Bytes.le a a = true := by unfold Bytes.le; rw [cmp_refl]; rfl

theorem le_iff {a b : Bytes} : Bytes.le a b = true ↔ Bytes.lt a b = true ∨ a = b := by
  unfold Bytes.le Bytes.lt
  cases h : Bytes.cmp a b with
  | lt => simp
  | eq => simp [cmp_eq_iff.mp h]
  | gt =>
    simp only [bne_self_eq_false, Bool.false_eq_true, false_iff]
    intro h2
    rcases h2 with h2 | h2
    · simp at h2
    · rw [h2, cmp_refl] at h; cases h

theorem lt_trans'' {a b c : Bytes} (h1 : Bytes.lt a b = true) (h2 : Bytes.lt b c = true) : Bytes.lt a c = true := by
  unfold Bytes.lt at *
  have h1' : Bytes.cmp a b = .lt := by cases h : Bytes.cmp a b <;> simp [h] at h1 ⊢
  have h2' : Bytes.cmp b c = .lt := by cases h : Bytes.cmp b c <;> simp [h] at h2 ⊢
  rw [lt_trans' h1' h2']; rfl

theorem le_trans' {a b c : Bytes} (h1 : Bytes.le a b = true) (h2 : Bytes.le b c = true) : Bytes.le a c = true := by
  rcases le_iff.mp h1 with h1 | h1
  · rcases le_iff.mp h2 with h2 | h2
    · exact le_iff.mpr (Or.inl (lt_trans'' h1 h2))
    · subst h2; exact le_iff.mpr (Or.inl h1)
  · subst h1; exact h2

theorem lt_le_trans {a b c : Bytes} (h1 : Bytes.lt a b = true) (h2 : Bytes.le b c = true) : Bytes.lt a c = true := by
  rcases le_iff.mp h2 with h2 | h2
  · exact lt_trans'' h1 h2
  · subst h2; exact h1

theorem le_lt_trans {a b c : Bytes} (h1 : Bytes.le a b = true) (h2 : Bytes.lt b c = true) : Bytes.lt a c = true := by
  rcases le_iff.mp h1 with h1 | h1
  · exact lt_trans'' h1 h2
  · subst h1; exact h2

/-- totality -/
theorem le_of_not_lt {a b : Bytes} (h : Bytes.lt a b = false) : Bytes.le b a = true := by
  unfold Bytes.lt at h; unfold Bytes.le
  cases h2 : Bytes.cmp b a with
  | lt => rfl
  | eq => rfl
  | gt => rw [cmp_lt_gt.mpr h2] at h; simp at h

theorem not_lt_of_le {a b : Bytes} (h : Bytes.le a b = true) : Bytes.lt b a = false := by
  cases h2 : Bytes.lt b a with
  | false => rfl
  | true =>
    have := le_lt_trans h h2
    rw [lt_irrefl'] at this; cases this

theorem nil_le (a : Bytes) : Bytes.le [] a = true := by cases a <;> rfl

/-! ## the range bounds -/

theorem minKey_spec : ∀ (ks : List Bytes) (m : Bytes),
    Bytes.le (minKey ks m) m = true ∧ (∀ k ∈ ks, Bytes.le (minKey ks m) k = true) ∧ (minKey ks m = m ∨ minKey ks m ∈ ks)
  | [], m => ⟨le_refl' m, by simp, Or.inl rfl⟩
  | k :: ks, m => by
    unfold minKey
    by_cases h : Bytes.lt k m = true
    · simp only [h, if_true]
      obtain ⟨h1, h2, h3⟩ := minKey_spec ks k
      refine ⟨le_trans' h1 (le_iff.mpr (Or.inl h)), ?_, ?_⟩
      · intro k' hk'
        rcases List.mem_cons.mp hk' with h4 | h4
        · rw [h4]; exact h1
        · exact h2 k' h4
      · right; rcases h3 with h3 | h3
        · rw [h3]; simp
        · exact List.mem_cons_of_mem _ h3
    · simp only [h]
      have h' : Bytes.lt k m = false := by simpa using h
      obtain ⟨h1, h2, h3⟩ := minKey_spec ks m
      refine ⟨h1, ?_, ?_⟩
      · intro k' hk'
        rcases List.mem_cons.mp hk' with h4 | h4
        · rw [h4]; exact le_trans' h1 (le_of_not_lt h')
        · exact h2 k' h4
      · rcases h3 with h3 | h3
        · left; exact h3
        · right; exact List.mem_cons_of_mem _ h3

theorem maxKey_spec : ∀ (ks : List Bytes) (m : Bytes),
    Bytes.le m (maxKey ks m) = true ∧ (∀ k ∈ ks, Bytes.le k (maxKey ks m) = true) ∧ (maxKey ks m = m ∨ maxKey ks m ∈ ks)
  | [], m => ⟨le_refl' m, by simp, Or.inl rfl⟩
  | k :: ks, m => by
    unfold maxKey
    by_cases h : Bytes.lt m k = true
    · simp only [h, if_true]
      obtain ⟨h1, h2, h3⟩ := maxKey_spec ks k
      refine ⟨le_trans' (le_iff.mpr (Or.inl h)) h1, ?_, ?_⟩
      · intro k' hk'
        rcases List.mem_cons.mp hk' with h4 | h4
        · rw [h4]; exact h1
        · exact h2 k' h4
      · right; rcases h3 with h3 | h3
        · rw [h3]; simp
        · exact List.mem_cons_of_mem _ h3
    · simp only [h]
      have h' : Bytes.lt m k = false := by simpa using h
      obtain ⟨h1, h2, h3⟩ := maxKey_spec ks m
      refine ⟨h1, ?_, ?_⟩
      · intro k' hk'
        rcases List.mem_cons.mp hk' with h4 | h4
        · rw [h4]; exact le_trans' (le_of_not_lt h') h1
        · exact h2 k' h4
      · rcases h3 with h3 | h3
        · left; exact h3
        · right; exact List.mem_cons_of_mem _ h3

theorem le_antisymm' {a b : Bytes} (h1 : Bytes.le a b = true) (h2 : Bytes.le b a = true) : a = b := by
  rcases le_iff.mp h1 with h | h
  · have := lt_le_trans h h2; rw [lt_irrefl'] at this; cases this
  · exact h

theorem cmp_nextKey : ∀ g : Bytes, Bytes.cmp g (nextKey g) = .lt
  | [] => rfl
  | a :: as => by
    show Bytes.cmp (a :: as) (a :: (as ++ [0])) = .lt
    rw [cmp_cons]; simp only [UInt8.lt_irrefl, if_false]; exact cmp_nextKey as

theorem lt_nextKey (g : Bytes) : Bytes.lt g (nextKey g) = true := by unfold Bytes.lt; rw [cmp_nextKey]; rfl

theorem uint8_not_lt_zero (a : UInt8) : ¬ a < 0 := by
  intro h
  have := UInt8.lt_iff_toNat_lt.mp h
  simp at this

/-- nothing lies strictly between `g` and `NextKey(g)` -/
theorem cmp_lt_nextKey : ∀ (g x : Bytes), Bytes.cmp x (nextKey g) = .lt → Bytes.cmp x g ≠ .gt
  | [], [], _ => by simp [Bytes.cmp]
  | [], a :: xs, h => by
    exfalso
    have h' : Bytes.cmp (a :: xs) [0] = .lt := h
    rw [cmp_cons] at h'
    by_cases h1 : a < 0
    · exact uint8_not_lt_zero a h1
    · by_cases h2 : (0 : UInt8) < a
      · simp [h1, h2] at h'
      · simp only [h1, h2, if_false] at h'
        cases xs <;> simp [Bytes.cmp] at h'
  | _ :: _, [], _ => by simp [Bytes.cmp]
  | b :: gs, a :: xs, h => by
    have h' : Bytes.cmp (a :: xs) (b :: (gs ++ [0])) = .lt := h
    rw [cmp_cons] at h' ⊢
    by_cases h1 : a < b
    · simp [h1]
    · by_cases h2 : b < a
      · simp [h1, h2] at h'
      · simp only [h1, h2, if_false] at h' ⊢
        exact cmp_lt_nextKey gs xs h'

theorem le_of_lt_nextKey {g x : Bytes} (h : Bytes.lt x (nextKey g) = true) : Bytes.le x g = true := by
  unfold Bytes.lt at h; unfold Bytes.le
  have h' : Bytes.cmp x (nextKey g) = .lt := by cases hc : Bytes.cmp x (nextKey g) <;> simp [hc] at h ⊢
  have := cmp_lt_nextKey g x h'
  cases hc : Bytes.cmp x g <;> simp [hc] at this ⊢

theorem lt_of_not_le {a b : Bytes} (h : Bytes.le a b = false) : Bytes.lt b a = true := by
  cases h2 : Bytes.lt b a with
  | true => rfl
  | false => rw [le_of_not_lt h2] at h; cases h

/-- the bounds describe the key set `K` seen so far: start = least key, end = NextKey(greatest key) -/
def boundsInv (K : List Bytes) (p : Bytes × Bytes) : Prop :=
  (K = [] ∧ p = ([], [])) ∨
  (p.1 ∈ K ∧ ∃ g ∈ K, p.2 = nextKey g ∧ ∀ k ∈ K, Bytes.le p.1 k = true ∧ Bytes.le k g = true)

theorem headD_mem {b : List Bytes} (h : b ≠ []) : b.headD [] ∈ b := by
  cases b with
  | nil => exact absurd rfl h
  | cons x xs => simp

theorem nextKey_isEmpty (g : Bytes) : (nextKey g).isEmpty = false := by cases g <;> rfl

theorem updBounds_inv {K : List Bytes} {p : Bytes × Bytes} (hK : ∀ k ∈ K, k ≠ []) (h : boundsInv K p)
    {b : List Bytes} (hb : b ≠ []) : boundsInv (K ++ b) (updBounds p b) := by
  obtain ⟨lo1, lo2, lo3⟩ := minKey_spec b (b.headD [])
  obtain ⟨hi1, hi2, hi3⟩ := maxKey_spec b (b.headD [])
  have hlo : minKey b (b.headD []) ∈ b := by
    rcases lo3 with h3 | h3
    · rw [h3]; exact headD_mem hb
    · exact h3
  have hhi : maxKey b (b.headD []) ∈ b := by
    rcases hi3 with h3 | h3
    · rw [h3]; exact headD_mem hb
    · exact h3
  right
  unfold updBounds
  simp only
  rcases h with ⟨hK0, hp⟩ | ⟨h1, g, hg, hpe, h3⟩
  · subst hK0; rw [hp]
    simp only [List.isEmpty_nil, Bool.true_or, if_true, List.nil_append]
    exact ⟨hlo, _, hhi, rfl, fun k hk => ⟨lo2 k hk, hi2 k hk⟩⟩
  · have e1 : p.1.isEmpty = false := by
      cases hp1 : p.1 with
      | nil => exact absurd hp1 (hK _ h1)
      | cons _ _ => rfl
    have e2 : p.2.isEmpty = false := by rw [hpe]; exact nextKey_isEmpty g
    simp only [e1, e2, Bool.false_or]
    have hstart : ∀ k ∈ K ++ b,
        Bytes.le (if Bytes.lt (minKey b (b.headD [])) p.1 = true then minKey b (b.headD []) else p.1) k = true := by
      intro k hk
      by_cases hl : Bytes.lt (minKey b (b.headD [])) p.1 = true
      · simp only [hl, if_true]
        rcases List.mem_append.mp hk with hk | hk
        · exact le_trans' (le_iff.mpr (Or.inl hl)) (h3 k hk).1
        · exact lo2 k hk
      · simp only [hl]
        rcases List.mem_append.mp hk with hk | hk
        · exact (h3 k hk).1
        · exact le_trans' (le_of_not_lt (by simpa using hl)) (lo2 k hk)
    have hsm : (if Bytes.lt (minKey b (b.headD [])) p.1 = true then minKey b (b.headD []) else p.1) ∈ K ++ b := by
      by_cases hl : Bytes.lt (minKey b (b.headD [])) p.1 = true
      · simp only [hl, if_true]; exact List.mem_append_right _ hlo
      · simp only [hl]; exact List.mem_append_left _ h1
    refine ⟨hsm, ?_⟩
    by_cases hl : Bytes.le p.2 (maxKey b (b.headD [])) = true
    · simp only [hl, if_true]
      refine ⟨_, List.mem_append_right _ hhi, rfl, ?_⟩
      intro k hk
      refine ⟨hstart k hk, ?_⟩
      rcases List.mem_append.mp hk with hk | hk
      · -- k ≤ g < NextKey g = p.2 ≤ hi
        have : Bytes.lt k p.2 = true := by rw [hpe]; exact le_lt_trans (h3 k hk).2 (lt_nextKey g)
        exact le_iff.mpr (Or.inl (lt_le_trans this hl))
      · exact hi2 k hk
    · simp only [hl]
      have hl' : Bytes.le p.2 (maxKey b (b.headD [])) = false := by simpa using hl
      have hlt : Bytes.lt (maxKey b (b.headD [])) (nextKey g) = true := by rw [← hpe]; exact lt_of_not_le hl'
      have hle : Bytes.le (maxKey b (b.headD [])) g = true := le_of_lt_nextKey hlt
      refine ⟨g, List.mem_append_left _ hg, hpe, ?_⟩
      intro k hk
      refine ⟨hstart k hk, ?_⟩
      rcases List.mem_append.mp hk with hk | hk
      · exact (h3 k hk).2
      · exact le_trans' (hi2 k hk) hle

theorem foldl_updBounds_inv : ∀ (bs : List (List Bytes)) (K : List Bytes) (p : Bytes × Bytes),
    (∀ k ∈ K, k ≠ []) → boundsInv K p → validBatches bs → boundsInv (K ++ bs.flatten) (bs.foldl updBounds p)
  | [], K, p, _, h, _ => by simpa using h
  | b :: bs, K, p, hK, h, hv => by
    have hb := hv b (by simp)
    have h1 := updBounds_inv hK h hb.1
    have hK' : ∀ k ∈ K ++ b, k ≠ [] := by
      intro k hk
      rcases List.mem_append.mp hk with hk | hk
      · exact hK k hk
      · exact hb.2 k hk
    have := foldl_updBounds_inv bs (K ++ b) (updBounds p b) hK' h1 (fun b' hb' => hv b' (List.mem_cons_of_mem _ hb'))
    simpa [List.flatten_cons, List.append_assoc] using this

/-- what the flush callback leaves in pipelinedStart / pipelinedEnd: the least flushed key and NextKey(greatest flushed key) -/
theorem boundsOf_spec {bs : List (List Bytes)} (hv : validBatches bs) (hne : bs ≠ []) :
    (boundsOf bs).1 ∈ bs.flatten ∧ ∃ g ∈ bs.flatten, (boundsOf bs).2 = nextKey g ∧
    ∀ k ∈ bs.flatten, Bytes.le (boundsOf bs).1 k = true ∧ Bytes.le k g = true := by
  have := foldl_updBounds_inv bs [] ([], []) (by simp) (Or.inl ⟨rfl, rfl⟩) hv
  simp only [List.nil_append] at this
  rcases this with ⟨h0, _⟩ | h
  · cases bs with
    | nil => exact absurd rfl hne
    | cons b bs =>
      have hb := (hv b (by simp)).1
      simp only [List.flatten_cons, List.append_eq_nil_iff] at h0
      exact absurd h0.1 hb
  · exact h

/-! ## the regions a range task visits -/

theorem covered_cons (r : Region) (rs : List Region) (k : Bytes) : covered (r :: rs) k = (r.has k || covered rs k) := by
  unfold covered; simp [List.any_cons]

theorem tasks_cover : ∀ (splits : List Bytes) (lo key end_ k : Bytes),
    Bytes.le lo key = true → Bytes.le key k = true → Bytes.le k end_ = true →
    (Bytes.lt k end_ = true ∨ end_ ∉ splits) → covered (tasks key end_ lo splits) k = true
  | [], lo, key, end_, k, h1, h2, _, _ => by
    unfold tasks
    rw [covered_cons]
    simp [Region.has, le_trans' h1 h2]
  | hi :: rest, lo, key, end_, k, h1, h2, h3, h4 => by
    unfold tasks
    by_cases hk : Bytes.lt key hi = true
    · simp only [hk, if_true]
      rw [covered_cons]
      by_cases hkh : Bytes.lt k hi = true
      · simp [Region.has, le_trans' h1 h2, hkh]
      · have hkh' : Bytes.lt k hi = false := by simpa using hkh
        have hle : Bytes.le hi k = true := le_of_not_lt hkh'
        have hne : Bytes.le end_ hi = false := by
          cases he : Bytes.le end_ hi with
          | false => rfl
          | true =>
            have e1 : end_ = k := le_antisymm' (le_trans' he hle) h3
            have e2 : hi = k := le_antisymm' hle (by rw [← e1]; exact he)
            rcases h4 with h4 | h4
            · rw [e1, lt_irrefl'] at h4; cases h4
            · exact absurd (by rw [e1, e2]; simp) h4
        simp only [hne, Bool.false_eq_true, if_false]
        have h4' : Bytes.lt k end_ = true ∨ end_ ∉ rest := by
          rcases h4 with h4 | h4
          · exact Or.inl h4
          · exact Or.inr (fun hm => h4 (List.mem_cons_of_mem _ hm))
        rw [tasks_cover rest hi hi end_ k (le_refl' hi) hle h3 h4']
        simp
    · simp only [hk]
      have hk' : Bytes.lt key hi = false := by simpa using hk
      have h4' : Bytes.lt k end_ = true ∨ end_ ∉ rest := by
        rcases h4 with h4 | h4
        · exact Or.inl h4
        · exact Or.inr (fun hm => h4 (List.mem_cons_of_mem _ hm))
      exact tasks_cover rest hi key end_ k (le_of_not_lt hk') h2 h3 h4'

/-! ## a failure stays in `errCh` until a call returns it -/

theorem step_err_persists {s : PState} {sp : Spec} (op : Op) (h : Inv2 s sp) (he : s.errCh = some .err) :
    (step s op).2 = .errFlush ∨ (step s op).1.errCh = some .err := by
  obtain ⟨hfl, hr⟩ := h.errFl (by rw [he]; rfl)
  cases op with
  | set k v => right; simp only [step]; split <;> exact he
  | del k => right; exact he
  | get k => right; exact he
  | batchGet ks => right; simp only [step]; rw [batchGet_fields]; exact he
  | flush force mem late =>
    simp only [step]
    rcases doFlush_cases s force mem late with hd | ⟨_, hd⟩ | ⟨_, _, hd⟩ | ⟨hf, _, _⟩
    · right; rw [hd]; exact he
    · right; rw [hd]; exact he
    · left; rw [hd, await_of_not_running late (by exact hr)]
      unfold flushAfterWait failWith; simp [he]
    · rw [hf] at hfl; cases hfl
  | flushDone c => right; simp only [step]; simp [hr]; exact he
  | flushWait late =>
    simp only [step]
    rcases doFlushWait_cases s late with ⟨_, hd⟩ | ⟨hf, _⟩
    · left; rw [hd, await_of_not_running late hr]
      unfold waitAfter failWith; simp [he]
    · rw [hf] at hfl; cases hfl
  | stage => right; exact he
  | release => right; exact he
  | cleanup => right; simp only [step]; split <;> exact he

theorem err_never_lost {s : PState} {sp : Spec} (ops : List Op) (h : Inv2 s sp) (he : s.errCh = some .err) :
    .errFlush ∈ runOuts s ops ∨ (run s ops).errCh = some .err := by
  induction ops generalizing s sp with
  | nil => right; exact he
  | cons op ops ih =>
    unfold runOuts run
    rcases step_err_persists op h he with h1 | h1
    · left; rw [h1]; simp
    · rcases ih (inv2_step op h) h1 with h2 | h2
      · left; exact List.mem_cons_of_mem _ h2
      · right; exact h2

/-! ## callback layer: while the TTL manager has not been started the primary holds no lock in the store -/

structure Inv3 (s : PState) : Prop where
  unlocked : s.ttl = .uninit → s.store.get s.primary = none
  noPrimary : s.primary = [] → ∀ k v, s.store.get k = some v → k = []
  batch : s.running = true → s.primary = [] → ∀ f, s.flushing = some f → ∀ k v, f.get k = some v → k = []

theorem inv3_congr {s s' : PState} (h : Inv3 s) (h1 : s'.ttl = s.ttl) (h2 : s'.primary = s.primary)
    (h3 : s'.store = s.store) (h4 : s'.flushing = s.flushing) (h5 : s'.running = s.running) : Inv3 s' :=
  ⟨by rw [h1, h2, h3]; exact h.unlocked, by rw [h2, h3]; exact h.noPrimary, by rw [h2, h4, h5]; exact h.batch⟩

theorem Buf.get_none_of_not_key {b : Buf} {k : Bytes} (h : b.keys.contains k = false) : b.get k = none := by
  cases hg : b.get k with
  | none => rfl
  | some v =>
    have hm := Buf.get_some_mem hg
    have : k ∈ b.keys := List.mem_map.mpr ⟨(k, v), hm, rfl⟩
    have : b.keys.contains k = true := List.contains_iff_mem.mpr this
    rw [h] at this; cases this

theorem inv3_complete {s : PState} (c : Completion) (hl : s.cfg.layer = true) (h : Inv3 s) (hr : s.running = true) :
    Inv3 (complete s c) := by
  cases hf : s.flushing with
  | none =>
    have : complete s c = s := by unfold complete; simp [hf]
    rw [this]; exact h
  | some f =>
    have hrun : (complete s c).running = false := (complete_of_flushing c hf).1
    have hprim : (complete s c).primary = s.primary := by unfold complete; simp [hf]
    cases hres : c.res with
    | ok =>
      have hstore : (complete s c).store = s.store.apply f := (complete_of_flushing c hf).2.2 hres
      have httl : (complete s c).ttl = if (s.ttl == .uninit && f.keys.contains s.primary) = true then .running else s.ttl := by
        unfold complete; simp [hf, hl, hres]
      refine ⟨?_, ?_, ?_⟩
      · intro hu
        by_cases hc : (s.ttl == .uninit && f.keys.contains s.primary) = true
        · rw [httl, if_pos hc] at hu; cases hu
        · rw [httl, if_neg hc] at hu
          have hnc : f.keys.contains s.primary = false := by
            cases hcc : f.keys.contains s.primary with
            | false => rfl
            | true => exact absurd (by rw [hu, hcc]; rfl) hc
          rw [hprim, hstore, Buf.get_apply, Buf.get_none_of_not_key hnc, h.unlocked hu]; rfl
      · intro hp k v hk
        rw [hprim] at hp
        rw [hstore, Buf.get_apply] at hk
        cases hfk : f.get k with
        | some w => exact h.batch hr hp f hf k w hfk
        | none => rw [hfk] at hk; exact h.noPrimary hp k v hk
      · intro hr'; rw [hrun] at hr'; cases hr'
    | err =>
      have hstore : (complete s c).store = s.store := by unfold complete; simp [hf, hl, hres, Buf.apply]
      have httl : (complete s c).ttl = if (s.ttl == .running) = true then .closed else s.ttl := by
        unfold complete; simp [hf, hl, hres]
      refine ⟨?_, ?_, ?_⟩
      · intro hu
        by_cases hc : (s.ttl == .running) = true
        · rw [httl, if_pos hc] at hu; cases hu
        · rw [httl, if_neg hc] at hu
          rw [hprim, hstore]; exact h.unlocked hu
      · intro hp; rw [hprim] at hp; rw [hstore]; exact h.noPrimary hp
      · intro hr'; rw [hrun] at hr'; cases hr'

theorem find_getD_empty {ks : List Bytes} (h : (ks.find? (fun k => !k.isEmpty)).getD [] = []) : ∀ k ∈ ks, k = [] := by
  cases hf : ks.find? (fun k => !k.isEmpty) with
  | none =>
    intro k hk
    have := List.find?_eq_none.mp hf k hk
    simpa using this
  | some x =>
    rw [hf] at h
    have hx := List.find?_some hf
    simp at h; subst h; simp at hx

theorem inv3_start {s : PState} (hl : s.cfg.layer = true) (h : Inv3 s) : Inv3 (start s).1 := by
  unfold start
  by_cases h2 : s.ttl = .closed
  · simp only [hl, h2, if_true, beq_self_eq_true]
    exact ⟨(by intro hu; cases hu), h.noPrimary, (by intro hr'; cases hr')⟩
  · have h2' : (s.ttl == TTL.closed) = false := by simpa using h2
    by_cases h3 : s.mbuf.isEmpty = true
    · simp only [hl, h2', h3, if_true, Bool.false_eq_true, if_false]
      exact ⟨h.unlocked, h.noPrimary, (by intro hr'; cases hr')⟩
    · simp only [hl, h2', h3, if_true, Bool.false_eq_true, if_false]
      by_cases hp : s.primary.isEmpty = true
      · have hp' : s.primary = [] := by simpa using hp
        simp only [hp, if_true]
        refine ⟨?_, ?_, ?_⟩
        · intro hu
          cases hg : s.store.get ((s.mbuf.sorted.keys.find? fun k => !k.isEmpty).getD []) with
          | none => rfl
          | some v =>
            have hk0 := h.noPrimary hp' _ v hg
            have hun := h.unlocked hu
            rw [hp'] at hun
            rw [hk0, hun] at hg; cases hg
        · intro _; exact h.noPrimary hp'
        · intro _ hfirst f hf k v hk
          injection hf with hf; subst hf
          have hall := find_getD_empty hfirst
          have hm : (k, v) ∈ s.mbuf.sorted := mem_sorted.mpr (Buf.get_some_mem hk)
          exact hall k (List.mem_map.mpr ⟨(k, v), hm, rfl⟩)
      · have hp' : s.primary ≠ [] := by simpa using hp
        simp only [hp]
        exact ⟨h.unlocked, h.noPrimary, (by intro _ hpe; exact absurd hpe hp')⟩

theorem inv3_await {s : PState} (c : Completion) (hl : s.cfg.layer = true) (h : Inv3 s) : Inv3 (await s c) := by
  unfold await
  by_cases hr : s.running = true
  · simp only [hr, if_true]; exact inv3_complete c hl h hr
  · simp only [hr]; exact h

theorem inv3_clear {s : PState} (h : Inv3 s) (fl : Bool) (le : Option Reported) :
    Inv3 { s with flushing := none, errCh := none, failed := fl, lastErr := le } :=
  ⟨h.unlocked, h.noPrimary, by intro _ _ f hf; cases hf⟩

theorem inv3_step {s : PState} (op : Op) (hl : s.cfg.layer = true) (h : Inv3 s) : Inv3 (step s op).1 := by
  cases op with
  | set k v => simp only [step]; split
               · exact h
               · exact inv3_congr h rfl rfl rfl rfl rfl
  | del k => exact inv3_congr h rfl rfl rfl rfl rfl
  | get k => exact h
  | batchGet ks => simp only [step]; rw [batchGet_fields]; exact inv3_congr h rfl rfl rfl rfl rfl
  | flush force mem late =>
    simp only [step]
    have h1 : Inv3 { s with cache := none } := inv3_congr h rfl rfl rfl rfl rfl
    rcases doFlush_cases s force mem late with hd | ⟨_, hd⟩ | ⟨_, _, hd⟩ | ⟨_, _, hd⟩
    · rw [hd]; exact h1
    · rw [hd]; exact h1
    · rw [hd]
      have h2 := inv3_await late (s := { s with cache := none }) hl h1
      rcases flushAfterWait_cases (await { s with cache := none } late) with ⟨_, he⟩ | ⟨_, he⟩
      · rw [he]; exact inv3_clear h2 true _
      · rw [he]; exact inv3_start (by rw [await_cfg]; exact hl) h2
    · rw [hd]; exact inv3_start hl h1
  | flushDone c =>
    simp only [step]
    by_cases hr : s.running = true
    · simp only [hr, if_true]; exact inv3_complete c hl h hr
    · simp only [hr]; exact h
  | flushWait late =>
    simp only [step]
    rcases doFlushWait_cases s late with ⟨_, hd⟩ | ⟨_, hd⟩
    · rw [hd]
      have h2 := inv3_await late hl h
      rcases waitAfter_cases (await s late) with ⟨_, he⟩ | ⟨_, he⟩
      · rw [he]; exact inv3_clear h2 true _
      · rw [he]; exact inv3_clear h2 _ _
    · rw [hd]; exact h
  | stage => exact inv3_congr h rfl rfl rfl rfl rfl
  | release => exact inv3_congr h rfl rfl rfl rfl rfl
  | cleanup => simp only [step]; split <;> exact inv3_congr h rfl rfl rfl rfl rfl

theorem inv3_run (s : PState) (ops : List Op) (hl : s.cfg.layer = true) (h : Inv3 s) : Inv3 (run s ops) := by
  induction ops generalizing s with
  | nil => exact h
  | cons op ops ih => unfold run; exact ih _ (by rw [step_cfg]; exact hl) (inv3_step op hl h)

theorem inv3_init (cfg : Cfg) : Inv3 (init cfg) :=
  ⟨fun _ => rfl, fun _ k v hk => (by cases hk), fun hr => (by cases hr)⟩

theorem run_append (s : PState) (a b : List Op) : run s (a ++ b) = run (run s a) b := by
  induction a generalizing s with
  | nil => rfl
  | cons op a ih => simp only [List.cons_append, run]; exact ih _

theorem complete_ttl_started {s : PState} (c : Completion) (h : s.ttl ≠ .uninit) : (complete s c).ttl ≠ .uninit := by
  unfold complete
  split
  · exact h
  · simp only
    split
    · cases hr : c.res with
      | ok =>
        simp only
        have : (s.ttl == TTL.uninit) = false := by simpa using h
        simp [this]; exact h
      | err =>
        simp only
        split
        · intro hc; cases hc
        · exact h
    · exact h

/-- a failing flush function closes the TTL manager exactly when it had been started -/
theorem complete_err_closed_iff {s : PState} {f : Buf} (c : Completion) (hl : s.cfg.layer = true)
    (hf : s.flushing = some f) (hc : c.res = .err) : (complete s c).ttl = .closed ↔ s.ttl ≠ .uninit := by
  unfold complete
  simp only [hf, hl, hc, if_true]
  cases s.ttl <;> simp

/-- the successful flush of the batch that holds the primary starts the TTL manager -/
theorem complete_ok_starts {s : PState} {f : Buf} (c : Completion) (hl : s.cfg.layer = true)
    (hf : s.flushing = some f) (hc : c.res = .ok) (hp : f.keys.contains s.primary = true) :
    (complete s c).ttl ≠ .uninit := by
  unfold complete
  simp only [hf, hl, hc, if_true, hp, Bool.and_true]
  cases s.ttl <;> simp

theorem await_ttl_started {s : PState} (c : Completion) (h : s.ttl ≠ .uninit) : (await s c).ttl ≠ .uninit := by
  unfold await; split
  · exact complete_ttl_started c h
  · exact h

theorem step_ttl_started (s : PState) (op : Op) (h : s.ttl ≠ .uninit) : (step s op).1.ttl ≠ .uninit := by
  cases op with
  | set k v => simp only [step]; split <;> exact h
  | del k => exact h
  | get k => exact h
  | batchGet ks => simp only [step]; rw [batchGet_fields]; exact h
  | flush force mem late =>
    simp only [step]
    rcases doFlush_cases s force mem late with hd | ⟨_, hd⟩ | ⟨_, _, hd⟩ | ⟨_, _, hd⟩
    · rw [hd]; exact h
    · rw [hd]; exact h
    · rw [hd]
      have h2 : (await { s with cache := none } late).ttl ≠ .uninit := await_ttl_started late h
      rcases flushAfterWait_cases (await { s with cache := none } late) with ⟨_, he⟩ | ⟨_, he⟩
      · rw [he]; exact h2
      · rw [he, (start_cases _).1]; exact h2
    · rw [hd, (start_cases _).1]; exact h
  | flushDone c => simp only [step]; split
                   · exact complete_ttl_started c h
                   · exact h
  | flushWait late =>
    simp only [step]
    have h2 : (await s late).ttl ≠ .uninit := await_ttl_started late h
    rcases doFlushWait_cases s late with ⟨_, hd⟩ | ⟨_, hd⟩
    · rw [hd]
      rcases waitAfter_cases (await s late) with ⟨_, he⟩ | ⟨_, he⟩
      · rw [he]; exact h2
      · rw [he]; exact h2
    · rw [hd]; exact h
  | stage => exact h
  | release => exact h
  | cleanup => simp only [step]; split <;> exact h

theorem run_ttl_started (s : PState) (ops : List Op) (h : s.ttl ≠ .uninit) : (run s ops).ttl ≠ .uninit := by
  induction ops generalizing s with
  | nil => exact h
  | cons op ops ih => unfold run; exact ih _ (step_ttl_started s op h)

/-! ## the store tier holds, key by key, the newest flushed generation -/

structure Inv4 (s : PState) : Prop where
  head : s.running = true → s.flushing = s.hist.head?.map (·.2)
  newest : s.failed = false → s.errCh ≠ some .err → ∀ k, s.store.get k = newestFlushed s k

theorem inv4_congr {s s' : PState} (h : Inv4 s) (h1 : s'.running = s.running) (h2 : s'.flushing = s.flushing)
    (h3 : s'.hist = s.hist) (h4 : s'.failed = s.failed) (h5 : s'.errCh = s.errCh) (h6 : s'.store = s.store) : Inv4 s' :=
  ⟨by rw [h1, h2, h3]; exact h.head,
   by unfold newestFlushed; rw [h4, h5, h6, h1, h3]; exact h.newest⟩

theorem inv4_start {s : PState} (h : Inv4 s) (hr : s.running = false) (he : s.errCh ≠ some .err) : Inv4 (start s).1 := by
  obtain ⟨hf, _, _, hstore, _, hfail, _, _, _, hh, _, _⟩ := start_fields s
  obtain ⟨_, hc, _⟩ := start_cases s
  refine ⟨?_, ?_⟩
  · intro _; rw [hf, hh]; rfl
  · intro hnf hne k
    rw [hfail] at hnf
    have hold := h.newest hnf he k
    unfold newestFlushed at hold ⊢
    simp only [hr, Bool.false_eq_true, if_false] at hold
    rw [hstore, hh]
    rcases hc with ⟨h1, _, _⟩ | ⟨h1, _, _⟩
    · simp only [h1, if_true, List.tail_cons]; exact hold
    · simp only [h1, Bool.false_eq_true, if_false, List.map_cons, List.findSome?_cons]
      -- the flush function returned at once: either with an error (excluded by `hne`) or because the buffer is empty
      cases hm : s.mbuf.get k with
      | none => simp only; exact hold
      | some v =>
        exfalso
        have := (start_fields s).2.2.2.2.2.2.2.1
        rcases (start_cases s).2.1 with ⟨h1', _, _⟩ | _
        · rw [h1] at h1'; cases h1'
        · cases hec : (start s).1.errCh with
          | none =>
            have := (start_cases s).2.1
            rcases this with ⟨h1', _, _⟩ | ⟨_, h2', _⟩
            · rw [h1] at h1'; cases h1'
            · rw [hec] at h2'; cases h2'
          | some r =>
            cases r with
            | err => exact hne hec
            | ok => rw [this hec] at hm; simp at hm

theorem inv4_complete {s : PState} {sp : Spec} (c : Completion) (h : Inv4 s) (h2 : Inv2 s sp) (hr : s.running = true) :
    Inv4 (complete s c) := by
  have hfs := h2.runFl hr
  cases hf : s.flushing with
  | none => simp [hf] at hfs
  | some f =>
    obtain ⟨h1, hech, hst⟩ := complete_of_flushing c hf
    refine ⟨(by intro hr'; rw [h1] at hr'; cases hr'), ?_⟩
    intro hnf hne k
    rw [complete_failed] at hnf
    have hok : c.res = .ok := by
      cases hc : c.res with
      | ok => rfl
      | err => rw [hech, hc] at hne; exact absurd rfl hne
    have herr : s.errCh ≠ some .err := by
      intro he
      have := (h2.errFl (by rw [he]; rfl)).2
      rw [hr] at this; cases this
    have hold := h.newest hnf herr k
    have hhead := h.head hr
    rw [hf] at hhead
    unfold newestFlushed at hold ⊢
    simp only [hr, if_true] at hold
    rw [h1, complete_hist, hst hok, Buf.get_apply]
    simp only [Bool.false_eq_true, if_false]
    cases hh : s.hist with
    | nil => rw [hh] at hhead; simp at hhead
    | cons x tl =>
      rw [hh] at hhead hold
      simp only [List.head?_cons, Option.map_some, Option.some.injEq] at hhead
      simp only [List.tail_cons] at hold
      simp only [List.map_cons, List.findSome?_cons, ← hhead]
      cases hfk : f.get k with
      | some v => simp
      | none => simp only [orE_none]; exact hold

theorem inv4_await {s : PState} {sp : Spec} (c : Completion) (h : Inv4 s) (h2 : Inv2 s sp) : Inv4 (await s c) := by
  unfold await
  by_cases hr : s.running = true
  · simp only [hr, if_true]; exact inv4_complete c h h2 hr
  · simp only [hr]; exact h

theorem inv4_clear {s : PState} (h : Inv4 s) (hr : s.running = false) (he : s.errCh ≠ some .err) (le : Option Reported) :
    Inv4 { s with flushing := none, errCh := none, lastErr := le } := by
  refine ⟨(by intro hr'; simp only at hr'; rw [hr] at hr'; cases hr'), ?_⟩
  intro hnf _ k
  exact h.newest hnf he k

theorem inv4_failWith {s : PState} (hr : s.running = false) : Inv4 (failWith s).1 := by
  unfold failWith
  exact ⟨(by intro hr'; simp only at hr'; rw [hr] at hr'; cases hr'), (by intro hnf; cases hnf)⟩

theorem inv4_step {s : PState} {sp : Spec} (op : Op) (h : Inv4 s) (h2 : Inv2 s sp) : Inv4 (step s op).1 := by
  cases op with
  | set k v => simp only [step]; split
               · exact h
               · exact inv4_congr h rfl rfl rfl rfl rfl rfl
  | del k => exact inv4_congr h rfl rfl rfl rfl rfl rfl
  | get k => exact h
  | batchGet ks => simp only [step]; rw [batchGet_fields]; exact inv4_congr h rfl rfl rfl rfl rfl rfl
  | flush force mem late =>
    simp only [step]
    have h1 : Inv4 { s with cache := none } := inv4_congr h rfl rfl rfl rfl rfl rfl
    have h21 := inv2_cache h2 none
    rcases doFlush_cases s force mem late with hd | ⟨_, hd⟩ | ⟨hf, _, hd⟩ | ⟨hf, _, hd⟩
    · rw [hd]; exact h1
    · rw [hd]; exact h1
    · rw [hd]
      have h3 := inv4_await late h1 h21
      have hnr : (await { s with cache := none } late).running = false := await_not_running late hf
      rcases flushAfterWait_cases (await { s with cache := none } late) with ⟨_, he⟩ | ⟨hne, he⟩
      · rw [he]; exact inv4_failWith hnr
      · rw [he]; exact inv4_start h3 hnr hne
    · rw [hd]
      have hnr : s.running = false := by
        cases hr : s.running with
        | false => rfl
        | true => have := h2.runFl hr; rw [hf] at this; cases this
      have hne : s.errCh ≠ some .err := by
        intro he
        have := (h2.errFl (by rw [he]; rfl)).1
        rw [hf] at this; cases this
      exact inv4_start h1 hnr hne
  | flushDone c =>
    simp only [step]
    by_cases hr : s.running = true
    · simp only [hr, if_true]; exact inv4_complete c h h2 hr
    · simp only [hr]; exact h
  | flushWait late =>
    simp only [step]
    rcases doFlushWait_cases s late with ⟨hf, hd⟩ | ⟨_, hd⟩
    · rw [hd]
      have h3 := inv4_await late h h2
      have hnr := await_not_running (s := s) late hf
      rcases waitAfter_cases (await s late) with ⟨_, he⟩ | ⟨hne, he⟩
      · rw [he]; exact inv4_failWith hnr
      · rw [he]; exact inv4_clear h3 hnr hne _
    · rw [hd]; exact h
  | stage => exact inv4_congr h rfl rfl rfl rfl rfl rfl
  | release => exact inv4_congr h rfl rfl rfl rfl rfl rfl
  | cleanup => simp only [step]; split <;> exact inv4_congr h rfl rfl rfl rfl rfl rfl

theorem inv4_init (cfg : Cfg) : Inv4 (init cfg) :=
  ⟨fun hr => (by cases hr), fun _ _ _ => rfl⟩

theorem inv4_run {s : PState} {sp : Spec} (ops : List Op) (h : Inv4 s) (h2 : Inv2 s sp) :
    Inv4 (runBoth (s, sp) ops).1 := by
  induction ops generalizing s sp with
  | nil => exact h
  | cons op ops ih => unfold runBoth stepBoth; exact ih (inv4_step op h h2) (inv2_step op h2)

/-! ## thresholds -/

theorem needFlush_false {cfg : Cfg} {mem len : Nat} {fl : Bool} (h : needFlush cfg mem len fl = false) :
    mem < cfg.minSize ∨ mem < cfg.forceSize := by
  unfold needFlush at h
  by_cases h1 : (decide (mem < cfg.minSize) || (decide (len < cfg.minKeys) && decide (mem < cfg.forceSize))) = true
  · simp only [Bool.or_eq_true, Bool.and_eq_true, decide_eq_true_eq] at h1
    rcases h1 with h1 | ⟨_, h1⟩
    · exact Or.inl h1
    · exact Or.inr h1
  · simp only [h1, Bool.false_eq_true, if_false] at h
    by_cases h2 : (fl && decide (mem < cfg.forceSize)) = true
    · simp only [Bool.and_eq_true, decide_eq_true_eq] at h2; exact Or.inr h2.2
    · simp [h2] at h

theorem needFlush_above {cfg : Cfg} {mem len : Nat} {fl : Bool} (h1 : cfg.minSize ≤ mem) (h2 : cfg.forceSize ≤ mem) :
    needFlush cfg mem len fl = true := by
  cases h : needFlush cfg mem len fl with
  | true => rfl
  | false => rcases needFlush_false h with h3 | h3 <;> omega

theorem doFlush_notFlushed {s : PState} {force : Bool} {mem : Nat} {late : Completion}
    (h : (doFlush s force mem late).2 = .notFlushed) :
    force = false ∧ needFlush s.cfg mem s.mbuf.length s.running = false := by
  unfold doFlush at h
  simp only at h
  by_cases hst : (!s.stages.isEmpty) = true
  · simp [hst] at h
  · simp only [hst, Bool.false_eq_true, if_false] at h
    by_cases hn : (!force && !needFlush s.cfg mem s.mbuf.length s.running) = true
    · simp only [Bool.and_eq_true, Bool.not_eq_true'] at hn; exact hn
    · simp only [hn, Bool.false_eq_true, if_false] at h
      exfalso
      by_cases hf : s.flushing.isSome = true
      · simp only [hf, if_true] at h
        rcases flushAfterWait_cases (await { s with cache := none } late) with ⟨_, he⟩ | ⟨_, he⟩
        · rw [he] at h; unfold failWith at h; cases h
        · rw [he] at h
          obtain ⟨rpc, ho⟩ := (start_fields (await { s with cache := none } late)).2.2.2.2.2.2.2.2.2.2.2
          rw [ho] at h; cases h
      · simp only [hf, Bool.false_eq_true, if_false] at h
        obtain ⟨rpc, ho⟩ := (start_fields { s with cache := none }).2.2.2.2.2.2.2.2.2.2.2
        rw [ho] at h; cases h

theorem doFlush_flushed_empties {s : PState} {force : Bool} {mem : Nat} {late : Completion} {g : Nat} {b : Buf} {rpc : Bool}
    (h : (doFlush s force mem late).2 = .flushed g b rpc) : (doFlush s force mem late).1.mbuf = [] := by
  rcases doFlush_cases s force mem late with hd | ⟨_, hd⟩ | ⟨_, _, hd⟩ | ⟨_, _, hd⟩
  · rw [hd] at h; cases h
  · rw [hd] at h; cases h
  · rcases flushAfterWait_cases (await { s with cache := none } late) with ⟨_, he⟩ | ⟨_, he⟩
    · rw [hd, he] at h; unfold failWith at h; cases h
    · rw [hd, he]; exact (start_fields _).2.1
  · rw [hd]; exact (start_fields _).2.1

/-! ## the bounds kept by the callback describe the keys it has sent (whole op sequences) -/

structure Inv5 (s : PState) : Prop where
  mbufKeys : ∀ e ∈ s.mbuf, e.1 ≠ []
  stageKeys : ∀ m ∈ s.stages, ∀ e ∈ m, e.1 ≠ []
  lockKeysNe : ∀ k ∈ s.lockKeys, k ≠ []
  bounds : boundsInv s.lockKeys (s.pStart, s.pEnd)

theorem inv5_congr {s s' : PState} (h : Inv5 s) (h1 : s'.mbuf = s.mbuf) (h2 : s'.stages = s.stages)
    (h3 : s'.lockKeys = s.lockKeys) (h4 : s'.pStart = s.pStart) (h5 : s'.pEnd = s.pEnd) : Inv5 s' :=
  ⟨by rw [h1]; exact h.mbufKeys, by rw [h2]; exact h.stageKeys, by rw [h3]; exact h.lockKeysNe,
   by rw [h3, h4, h5]; exact h.bounds⟩

theorem boundsInv_perm {K K' : List Bytes} {p : Bytes × Bytes} (hm : ∀ k, k ∈ K ↔ k ∈ K') (h : boundsInv K p) :
    boundsInv K' p := by
  rcases h with ⟨h0, hp⟩ | ⟨h1, g, hg, hpe, h3⟩
  · left
    refine ⟨?_, hp⟩
    apply List.eq_nil_iff_forall_not_mem.mpr
    intro k hk; rw [← hm k, h0] at hk; cases hk
  · right
    exact ⟨(hm _).mp h1, g, (hm _).mp hg, hpe, fun k hk => h3 k ((hm k).mpr hk)⟩

@[simp] theorem complete_lockKeys (s c) : (complete s c).lockKeys = s.lockKeys := by unfold complete; split <;> rfl
@[simp] theorem complete_pStart (s c) : (complete s c).pStart = s.pStart := by unfold complete; split <;> rfl
@[simp] theorem complete_pEnd (s c) : (complete s c).pEnd = s.pEnd := by unfold complete; split <;> rfl

theorem inv5_await {s : PState} (c : Completion) (h : Inv5 s) : Inv5 (await s c) := by
  unfold await; split
  · exact inv5_congr h (by simp) (by simp) (by simp) (by simp) (by simp)
  · exact h

theorem inv5_start {s : PState} (h : Inv5 s) : Inv5 (start s).1 := by
  unfold start
  by_cases h1 : s.cfg.layer = true
  · by_cases h2 : s.ttl = .closed
    · simp only [h1, h2, if_true, beq_self_eq_true]
      exact ⟨(by intro e he; cases he), h.stageKeys, h.lockKeysNe, h.bounds⟩
    · have h2' : (s.ttl == TTL.closed) = false := by simpa using h2
      by_cases h3 : s.mbuf.isEmpty = true
      · simp only [h1, h2', h3, if_true, Bool.false_eq_true, if_false]
        exact ⟨(by intro e he; cases he), h.stageKeys, h.lockKeysNe, h.bounds⟩
      · simp only [h1, h2', h3, if_true, Bool.false_eq_true, if_false]
        have hks : ∀ k ∈ s.mbuf.keys, k ≠ [] := by
          intro k hk
          obtain ⟨e, he, hek⟩ := List.mem_map.mp hk
          rw [← hek]; exact h.mbufKeys e he
        have hne : s.mbuf.keys ≠ [] := by
          intro hnil
          have : s.mbuf = [] := by simpa [Buf.keys] using hnil
          rw [this] at h3; simp at h3
        refine ⟨(by intro e he; cases he), h.stageKeys, ?_, ?_⟩
        · intro k hk
          rcases List.mem_append.mp hk with hk | hk
          · exact hks k hk
          · exact h.lockKeysNe k hk
        · exact boundsInv_perm (fun k => by simp [List.mem_append, or_comm])
            (updBounds_inv h.lockKeysNe h.bounds hne)
  · simp only [h1]
    exact ⟨(by intro e he; cases he), h.stageKeys, h.lockKeysNe, h.bounds⟩

theorem mem_erase {b : Buf} {k : Bytes} {e : Bytes × Bytes} (h : e ∈ b.erase k) : e ∈ b :=
  (List.mem_filter.mp h).1

theorem inv5_write {s : PState} (k v : Bytes) (hk : k ≠ []) (h : Inv5 s) : Inv5 { s with mbuf := s.mbuf.put k v } :=
  ⟨by
    intro e he
    rcases List.mem_cons.mp he with h1 | h1
    · rw [h1]; exact hk
    · exact h.mbufKeys e (mem_erase h1),
   h.stageKeys, h.lockKeysNe, h.bounds⟩

theorem inv5_step {s : PState} (op : Op) (hok : op.keyOk = true) (h : Inv5 s) : Inv5 (step s op).1 := by
  cases op with
  | set k v =>
    simp only [step]; split
    · exact h
    · exact inv5_write k v (by simpa [Op.keyOk] using hok) h
  | del k => exact inv5_write k [] (by simpa [Op.keyOk] using hok) h
  | get k => exact h
  | batchGet ks => simp only [step]; rw [batchGet_fields]; exact inv5_congr h rfl rfl rfl rfl rfl
  | flush force mem late =>
    simp only [step]
    have h1 : Inv5 { s with cache := none } := inv5_congr h rfl rfl rfl rfl rfl
    rcases doFlush_cases s force mem late with hd | ⟨_, hd⟩ | ⟨_, _, hd⟩ | ⟨_, _, hd⟩
    · rw [hd]; exact h1
    · rw [hd]; exact h1
    · rw [hd]
      have h2 := inv5_await late h1
      rcases flushAfterWait_cases (await { s with cache := none } late) with ⟨_, he⟩ | ⟨_, he⟩
      · rw [he]; exact inv5_congr h2 rfl rfl rfl rfl rfl
      · rw [he]; exact inv5_start h2
    · rw [hd]; exact inv5_start h1
  | flushDone c =>
    simp only [step]; split
    · exact inv5_congr h (by simp) (by simp) (by simp) (by simp) (by simp)
    · exact h
  | flushWait late =>
    simp only [step]
    rcases doFlushWait_cases s late with ⟨_, hd⟩ | ⟨_, hd⟩
    · rw [hd]
      have h2 := inv5_await late h
      rcases waitAfter_cases (await s late) with ⟨_, he⟩ | ⟨_, he⟩
      · rw [he]; exact inv5_congr h2 rfl rfl rfl rfl rfl
      · rw [he]; exact inv5_congr h2 rfl rfl rfl rfl rfl
    · rw [hd]; exact h
  | stage =>
    exact ⟨h.mbufKeys, (by
      intro m hm
      rcases List.mem_cons.mp hm with h1 | h1
      · rw [h1]; exact h.mbufKeys
      · exact h.stageKeys m h1), h.lockKeysNe, h.bounds⟩
  | release => exact ⟨h.mbufKeys, fun m hm => h.stageKeys m (List.mem_of_mem_tail hm), h.lockKeysNe, h.bounds⟩
  | cleanup =>
    simp only [step]
    cases hs : s.stages with
    | nil => exact inv5_congr h rfl (by simp [hs]) rfl rfl rfl
    | cons m rest =>
      exact ⟨h.stageKeys m (by rw [hs]; simp), fun m' hm' => h.stageKeys m' (by rw [hs]; exact List.mem_cons_of_mem _ hm'),
        h.lockKeysNe, h.bounds⟩

theorem inv5_run (s : PState) (ops : List Op) (hok : ∀ op ∈ ops, op.keyOk = true) (h : Inv5 s) : Inv5 (run s ops) := by
  induction ops generalizing s with
  | nil => exact h
  | cons op ops ih =>
    unfold run
    exact ih _ (fun o ho => hok o (List.mem_cons_of_mem _ ho)) (inv5_step op (hok op (by simp)) h)

theorem inv5_init (cfg : Cfg) : Inv5 (init cfg) :=
  ⟨fun e he => (by cases he), fun m hm => (by cases hm), fun k hk => (by cases hk), Or.inl ⟨rfl, rfl⟩⟩

/-! ## the result map of BatchGet -/

theorem bgLocal_result (s : PState) : ∀ (ks : List Bytes) (m : Buf) (c : Cache) (miss : List Bytes),
    (∀ k, (bgLocal s ks m c miss).1.get k =
      if k ∈ ks ∧ (getLocal s k).isSome = true then getLocal s k else m.get k) ∧
    (∀ k, k ∈ (bgLocal s ks m c miss).2.2 ↔ k ∈ miss ∨ (k ∈ ks ∧ getLocal s k = none))
  | [], m, c, miss => by
    unfold bgLocal
    exact ⟨fun k => by simp, fun k => by simp⟩
  | x :: xs, m, c, miss => by
    unfold bgLocal
    cases hg : getLocal s x with
    | some v =>
      simp only
      obtain ⟨ih1, ih2⟩ := bgLocal_result s xs (m.put x v) (c.put x (some v)) miss
      refine ⟨fun k => ?_, fun k => ?_⟩
      · rw [ih1 k, Buf.get_put]
        by_cases hkx : x = k
        · subst hkx
          simp [hg]
        · have : (k ∈ x :: xs) ↔ k ∈ xs := by simp [Ne.symm hkx]
          simp only [hkx, if_false, this]
      · rw [ih2 k]
        by_cases hkx : k = x
        · subst hkx; simp [hg]
        · simp [hkx]
    | none =>
      simp only
      obtain ⟨ih1, ih2⟩ := bgLocal_result s xs m c (x :: miss)
      refine ⟨fun k => ?_, fun k => ?_⟩
      · rw [ih1 k]
        by_cases hkx : k = x
        · subst hkx; simp [hg]
        · simp [hkx]
      · rw [ih2 k]
        by_cases hkx : k = x
        · subst hkx; simp [hg]
        · simp [hkx]

theorem bgRemote_result (store : Buf) : ∀ (ks : List Bytes) (m : Buf) (c : Cache) (k : Bytes),
    (bgRemote store ks m c).1.get k = if k ∈ ks ∧ (store.get k).isSome = true then store.get k else m.get k
  | [], m, c, k => by unfold bgRemote; simp
  | x :: xs, m, c, k => by
    unfold bgRemote
    cases hg : store.get x with
    | some v =>
      simp only
      rw [bgRemote_result store xs (m.put x v) (c.put x (some v)) k, Buf.get_put]
      by_cases hkx : x = k
      · subst hkx; simp [hg]
      · have : (k ∈ x :: xs) ↔ k ∈ xs := by simp [Ne.symm hkx]
        simp only [hkx, if_false, this]
    | none =>
      simp only
      rw [bgRemote_result store xs m (c.put x none) k]
      by_cases hkx : k = x
      · subst hkx; simp [hg]
      · simp [hkx]

theorem getLocal_some_view {s : PState} {k v : Bytes} (h : getLocal s k = some v) : view s k = some v := by
  unfold getLocal at h; unfold view
  cases hm : s.mbuf.get k with
  | some w => simp [hm] at h; simp [h]
  | none => simp only [hm] at h; simp only [orE_none]; rw [below_eq, h]; rfl

/-- `BatchGet(ks)` returns, for every requested key, what a read of that key sees below the cache (mutable buffer,
    flushing buffer, store), and nothing for keys that were not requested -/
theorem batchGet_result (s : PState) (ks : List Bytes) (k : Bytes) :
    (batchGet s ks).2.get k = if k ∈ ks then view s k else none := by
  have hb : (batchGet s ks).2 = (bgRemote s.store (bgLocal s ks [] (s.cache.getD []) []).2.2
      (bgLocal s ks [] (s.cache.getD []) []).1 (bgLocal s ks [] (s.cache.getD []) []).2.1).1 := by
    unfold batchGet; rfl
  obtain ⟨h1, h2⟩ := bgLocal_result s ks [] (s.cache.getD []) []
  rw [hb, bgRemote_result, h1 k]
  simp only [h2 k]
  by_cases hk : k ∈ ks
  · cases hg : getLocal s k with
    | some v => simp [hk, hg, getLocal_some_view hg]
    | none =>
      obtain ⟨hm, hbl⟩ := getLocal_none hg
      have hv : view s k = s.store.get k := by unfold view; rw [hm, hbl]; rfl
      simp only [hk, hg, true_and, List.not_mem_nil, false_or, and_self, Option.isSome_none, Bool.false_eq_true,
        and_false, if_false, Buf.get_nil, if_true, hv]
      cases s.store.get k <;> simp
  · simp [hk]

/-! ## the commit point -/

theorem primaryCommit_definite_err : ∀ (s : List Attempt) (c : Bool),
    (primaryCommit s c).2 = .err false → (primaryCommit s c).1 = false
  | [], c, h => by simp [primaryCommit] at h
  | a :: rest, c, h => by
    cases a with
    | execLost => exact primaryCommit_definite_err rest true h
    | lost => exact primaryCommit_definite_err rest c h
    | keyErr =>
      simp only [primaryCommit] at h ⊢
      cases c <;> simp at h ⊢
    | ok => simp [primaryCommit] at h

theorem primaryCommit_ok : ∀ (s : List Attempt) (c : Bool),
    (primaryCommit s c).2 = .ok → (primaryCommit s c).1 = true
  | [], c, h => by simp [primaryCommit] at h
  | a :: rest, c, h => by
    cases a with
    | execLost => exact primaryCommit_ok rest true h
    | lost => exact primaryCommit_ok rest c h
    | keyErr =>
      simp only [primaryCommit] at h ⊢
      cases c <;> simp at h ⊢
    | ok => simp [primaryCommit]

theorem primaryCommit_undetermined : ∀ (s : List Attempt) (c : Bool),
    (primaryCommit s c).2 = .err true → ∀ a ∈ s, a = .execLost ∨ a = .lost
  | [], _, _ => by simp
  | a :: rest, c, h => by
    cases a with
    | execLost =>
      intro x hx
      rcases List.mem_cons.mp hx with h1 | h1
      · exact Or.inl h1
      · exact primaryCommit_undetermined rest true h x h1
    | lost =>
      intro x hx
      rcases List.mem_cons.mp hx with h1 | h1
      · exact Or.inr h1
      · exact primaryCommit_undetermined rest c h x h1
    | keyErr =>
      simp only [primaryCommit] at h
      cases c <;> simp at h
    | ok => simp [primaryCommit] at h

theorem down_pairwise : ∀ n, (down n).Pairwise (· > ·) ∧ ∀ g ∈ down n, 1 ≤ g ∧ g ≤ n
  | 0 => ⟨List.Pairwise.nil, by simp [down]⟩
  | n + 1 => by
    obtain ⟨h1, h2⟩ := down_pairwise n
    refine ⟨List.Pairwise.cons (fun g hg => by have := (h2 g hg).2; omega) h1, ?_⟩
    intro g hg
    simp only [down, List.mem_cons] at hg
    rcases hg with hg | hg
    · omega
    · have := h2 g hg; omega


end CGV.Pipelined
