/-
  Helper lemmas for C16 (Model/Pipelined.lean): association lists, the byte-string order, invariants of the machine.
-/
import ClientGoVerif.Model.Pipelined
namespace CGV.Pipelined
open CGV

/-! ## association lists -/

/-- first `some` wins -/
def orE {α} (a b : Option α) : Option α := match a with | some v => some v | none => b

@[simp] theorem orE_some {α} (v : α) (b : Option α) : orE (some v) b = some v := rfl
@[simp] theorem orE_none {α} (b : Option α) : orE none b = b := rfl

@[simp] theorem Buf.get_nil (k : Bytes) : Buf.get [] k = none := rfl
theorem Buf.get_cons (k' v : Bytes) (b : Buf) (k : Bytes) :
    Buf.get ((k', v) :: b) k = if k' = k then some v else Buf.get b k := rfl

theorem Buf.get_erase (b : Buf) (k k' : Bytes) :
    (b.erase k).get k' = if k = k' then none else b.get k' := by
  induction b with
  | nil => simp [Buf.erase]
  | cons e rest ih =>
    obtain ⟨a, v⟩ := e
    unfold Buf.erase at *
    by_cases h : a = k
    · subst h
      simp only [List.filter, beq_self_eq_true, Bool.not_true]
      rw [ih, Buf.get_cons]
      by_cases h2 : a = k' <;> simp [h2]
    · have : (!(a == k)) = true := by simp [h]
      simp only [List.filter, this]
      rw [Buf.get_cons, Buf.get_cons, ih]
      by_cases h2 : a = k'
      · subst h2; simp [Ne.symm h]
      · simp [h2]

theorem Buf.get_put (b : Buf) (k v k' : Bytes) :
    (b.put k v).get k' = if k = k' then some v else b.get k' := by
  unfold Buf.put
  rw [Buf.get_cons, Buf.get_erase]
  by_cases h : k = k' <;> simp [h]

theorem Buf.get_apply (b ms : Buf) (k : Bytes) : (b.apply ms).get k = orE (ms.get k) (b.get k) := by
  induction ms with
  | nil => simp [Buf.apply]
  | cons e rest ih =>
    obtain ⟨a, v⟩ := e
    have : Buf.apply b ((a, v) :: rest) = (Buf.apply b rest).put a v := rfl
    rw [this, Buf.get_put, Buf.get_cons, ih]
    by_cases h : a = k <;> simp [h]

theorem Buf.get_some_mem {b : Buf} {k v : Bytes} (h : b.get k = some v) : (k, v) ∈ b := by
  induction b with
  | nil => simp at h
  | cons e rest ih =>
    obtain ⟨a, w⟩ := e
    rw [Buf.get_cons] at h
    by_cases h2 : a = k
    · simp [h2] at h; subst h2; subst h; simp
    · simp [h2] at h; exact List.mem_cons_of_mem _ (ih h)

theorem Buf.mem_get_ne_none {b : Buf} {k v : Bytes} (h : (k, v) ∈ b) : b.get k ≠ none := by
  induction b with
  | nil => simp at h
  | cons e rest ih =>
    obtain ⟨a, w⟩ := e
    rw [Buf.get_cons]
    by_cases h2 : a = k
    · simp [h2]
    · simp [h2]
      rcases List.mem_cons.mp h with h3 | h3
      · simp at h3; exact absurd h3.1.symm h2
      · exact ih h3

theorem mem_insertSorted {e x : Bytes × Bytes} {b : Buf} : x ∈ insertSorted e b ↔ x = e ∨ x ∈ b := by
  induction b with
  | nil => simp [insertSorted]
  | cons y ys ih =>
    unfold insertSorted
    split
    · simp
    · simp [ih]; constructor
      · rintro (h | h | h) <;> simp [h]
      · rintro (h | h | h) <;> simp [h]

theorem mem_sorted {x : Bytes × Bytes} {b : Buf} : x ∈ b.sorted ↔ x ∈ b := by
  induction b with
  | nil => simp [Buf.sorted]
  | cons y ys ih =>
    have : Buf.sorted (y :: ys) = insertSorted y (Buf.sorted ys) := rfl
    rw [this, mem_insertSorted, ih]; simp

/-! ## the refinement invariant -/

def view (s : PState) (k : Bytes) : Option Bytes := orE (s.mbuf.get k) (below s k)

theorem below_eq (s : PState) (k : Bytes) :
    below s k = orE (s.flushing.bind (·.get k)) (s.store.get k) := by
  unfold below; cases s.flushing.bind (·.get k) <;> rfl

def stagesRel (bl : Bytes → Option Bytes) : List Buf → List Buf → Prop
  | [], [] => True
  | m :: ms, c :: cs => (∀ k, orE (m.get k) (bl k) = c.get k) ∧ stagesRel bl ms cs
  | _, _ => False

theorem stagesRel_congr {bl bl' : Bytes → Option Bytes} (h : ∀ k, bl k = bl' k) :
    ∀ {ms cs}, stagesRel bl ms cs → stagesRel bl' ms cs
  | [], [], _ => trivial
  | _ :: ms, _ :: cs, ⟨h1, h2⟩ => ⟨fun k => by rw [← h k]; exact h1 k, stagesRel_congr h h2⟩
  | [], _ :: _, h0 => h0.elim
  | _ :: _, [], h0 => h0.elim

structure Inv (s : PState) (sp : Spec) : Prop where
  view : ∀ k, view s k = sp.cur.get k
  absorbed : s.errCh = some .ok → ∀ f, s.flushing = some f → ∀ k v, f.get k = some v → s.store.get k = some v
  cache : ∀ c, s.cache = some c → ∀ k e, c.get k = some e → ∀ m, m ∈ s.mbuf :: s.stages → (m.get k).isSome ∨ e = below s k
  stages : stagesRel (below s) s.stages sp.curSaved
  coh : s.flushing.isSome → s.running = true ∨ s.errCh.isSome

/-- the flushing buffer and the store as a read sees them do not change when the flush function returns -/
theorem below_complete (s : PState) (c : Completion) (k : Bytes) : below (complete s c) k = below s k := by
  unfold complete
  cases hf : s.flushing with
  | none => simp [hf]
  | some f =>
    simp only [hf]
    rw [below_eq, below_eq]
    simp only [hf, Option.bind_some]
    rw [Buf.get_apply]
    cases hk : f.get k with
    | some v => simp
    | none =>
      simp only [orE_none]
      cases hr : c.res with
      | ok => simp [hk]
      | err =>
        simp only
        cases hm : Buf.get (List.take c.applied f.sorted) k with
        | none => simp
        | some v =>
          have h1 := Buf.get_some_mem hm
          have h2 : (k, v) ∈ f := mem_sorted.mp (List.mem_of_mem_take h1)
          exact absurd hk (Buf.mem_get_ne_none h2)

@[simp] theorem complete_mbuf (s c) : (complete s c).mbuf = s.mbuf := by unfold complete; split <;> rfl
@[simp] theorem complete_stages (s c) : (complete s c).stages = s.stages := by unfold complete; split <;> rfl
@[simp] theorem complete_cache (s c) : (complete s c).cache = s.cache := by unfold complete; split <;> rfl
@[simp] theorem complete_flushing (s c) : (complete s c).flushing = s.flushing := by unfold complete; split <;> rfl
@[simp] theorem complete_failed (s c) : (complete s c).failed = s.failed := by unfold complete; split <;> rfl
@[simp] theorem complete_gen (s c) : (complete s c).gen = s.gen := by unfold complete; split <;> rfl
@[simp] theorem complete_hist (s c) : (complete s c).hist = s.hist := by unfold complete; split <;> rfl
@[simp] theorem complete_cfg (s c) : (complete s c).cfg = s.cfg := by unfold complete; split <;> rfl

theorem complete_of_flushing {s : PState} {f : Buf} (c : Completion) (hf : s.flushing = some f) :
    (complete s c).running = false ∧ (complete s c).errCh = some c.res ∧
    (c.res = .ok → (complete s c).store = s.store.apply f) := by
  unfold complete; simp only [hf]
  refine ⟨by simp, by simp, ?_⟩
  intro h; simp [h]

theorem view_complete (s c k) : view (complete s c) k = view s k := by
  unfold view; rw [below_complete, complete_mbuf]

theorem inv_complete {s : PState} {sp : Spec} (c : Completion) (h : Inv s sp) : Inv (complete s c) sp where
  view k := by rw [view_complete]; exact h.view k
  absorbed := by
    intro he f hf k v hk
    rw [complete_flushing] at hf
    obtain ⟨_, h2, h3⟩ := complete_of_flushing c hf
    rw [h2] at he
    have : c.res = .ok := by injection he
    rw [h3 this, Buf.get_apply, hk]; rfl
  cache := by
    intro cc hc k e hk m hm
    rw [complete_cache] at hc; rw [complete_mbuf, complete_stages] at hm
    rw [below_complete]; exact h.cache cc hc k e hk m hm
  stages := by
    rw [complete_stages]
    exact stagesRel_congr (fun k => (below_complete s c k).symm) h.stages
  coh := by
    intro hf
    rw [complete_flushing] at hf
    cases hff : s.flushing with
    | none => simp [hff] at hf
    | some f => right; rw [(complete_of_flushing c hff).2.1]; rfl

theorem inv_await {s : PState} {sp : Spec} (c : Completion) (h : Inv s sp) : Inv (await s c) sp := by
  unfold await; split
  · exact inv_complete c h
  · exact h

/-- after the receive from `errCh` a result is there -/
theorem await_result {s : PState} {sp : Spec} (c : Completion) (h : Inv s sp) (hf : s.flushing.isSome) :
    (await s c).running = false ∧ (await s c).errCh.isSome ∧ (await s c).flushing = s.flushing := by
  unfold await
  cases hr : s.running with
  | true =>
    simp only [if_true]
    cases hff : s.flushing with
    | none => simp [hff] at hf
    | some f =>
      obtain ⟨h1, h2, _⟩ := complete_of_flushing c hff
      exact ⟨h1, by rw [h2]; rfl, by rw [complete_flushing, hff]⟩
  | false =>
    simp only [Bool.false_eq_true, if_false]
    rcases h.coh hf with h1 | h1
    · rw [hr] at h1; cases h1
    · exact ⟨hr, h1, trivial⟩

theorem start_fields (s : PState) :
    (start s).1.flushing = some s.mbuf ∧ (start s).1.mbuf = [] ∧ (start s).1.stages = s.stages ∧
    (start s).1.store = s.store ∧ (start s).1.cache = s.cache ∧ (start s).1.failed = s.failed ∧
    ((start s).1.running = true ∨ (start s).1.errCh.isSome) ∧ ((start s).1.errCh = some .ok → s.mbuf = []) ∧
    (start s).1.gen = s.gen + 1 ∧ (start s).1.hist = (s.gen + 1, s.mbuf) :: s.hist ∧ (start s).1.cfg = s.cfg ∧
    (∃ rpc, (start s).2 = .flushed (s.gen + 1) s.mbuf rpc) := by
  unfold start
  by_cases h1 : s.cfg.layer = true
  · by_cases h2 : s.ttl = .closed
    · simp [h1, h2]
    · by_cases h3 : s.mbuf.isEmpty = true
      · simp [h1, h2, h3]; simpa using h3
      · simp [h1, h2, h3]
  · simp [h1]

theorem inv_spec_congr {s : PState} {sp sp' : Spec} (h1 : sp'.cur = sp.cur) (h2 : sp'.curSaved = sp.curSaved)
    (h : Inv s sp) : Inv s sp' where
  view k := by rw [h1]; exact h.view k
  absorbed := h.absorbed
  cache := h.cache
  stages := by rw [h2]; exact h.stages
  coh := h.coh

theorem stagesRel_nil_left {bl cs} (h : stagesRel bl [] cs) : cs = [] := by
  cases cs with
  | nil => rfl
  | cons _ _ => exact h.elim

/-- the swap of the buffers in `Flush`: allowed when no staging handle is open and the previous flushing buffer, if any,
    has been absorbed by the store -/
theorem inv_start {s : PState} {sp : Spec} (h : Inv s sp) (hst : s.stages = [])
    (hcache : s.cache = none)
    (hab : ∀ f, s.flushing = some f → ∀ k v, f.get k = some v → s.store.get k = some v) : Inv (start s).1 sp := by
  obtain ⟨hf, hm, hs, hstore, _, _, hcoh, hok, _⟩ := start_fields s
  have hbelow : ∀ k, below (start s).1 k = view s k := by
    intro k
    rw [below_eq, hf, hstore]; unfold view
    simp only [Option.bind_some]
    cases hk : s.mbuf.get k with
    | some v => simp
    | none =>
      simp only [orE_none]
      rw [below_eq]
      cases hff : s.flushing with
      | none => simp
      | some f =>
        simp only [Option.bind_some]
        cases hfk : f.get k with
        | none => simp
        | some v => rw [hab f hff k v hfk]; rfl
  refine ⟨?_, ?_, ?_, ?_, ?_⟩
  · intro k; unfold view; rw [hm]; simp only [Buf.get_nil, orE_none]; rw [hbelow]; exact h.view k
  · intro he f hff k v hk
    rw [hf] at hff; injection hff with hff; subst hff
    rw [hok he] at hk; simp at hk
  · intro c hc
    rw [(start_fields s).2.2.2.2.1, hcache] at hc; cases hc
  · rw [hs, hst]
    have := h.stages; rw [hst] at this
    rw [stagesRel_nil_left this]; trivial
  · intro _; exact hcoh

theorem inv_cache_none {s : PState} {sp : Spec} (h : Inv s sp) : Inv { s with cache := none } sp where
  view := h.view
  absorbed := h.absorbed
  cache := by intro c hc; cases hc
  stages := h.stages
  coh := h.coh

/-- the result of the previous flush has been received and is not an error: the flushing buffer may be forgotten -/
theorem absorbed_of_not_err {s : PState} {sp : Spec} (h : Inv s sp) (hsome : s.errCh.isSome) (hne : s.errCh ≠ some .err) :
    ∀ f, s.flushing = some f → ∀ k v, f.get k = some v → s.store.get k = some v := by
  apply h.absorbed
  cases he : s.errCh with
  | none => simp [he] at hsome
  | some r => cases r with
    | ok => rfl
    | err => exact absurd he hne


theorem await_stages (s : PState) (c : Completion) : (await s c).stages = s.stages := by unfold await; split <;> simp
theorem await_cache (s : PState) (c : Completion) : (await s c).cache = s.cache := by unfold await; split <;> simp
theorem await_mbuf (s : PState) (c : Completion) : (await s c).mbuf = s.mbuf := by unfold await; split <;> simp
theorem await_hist (s : PState) (c : Completion) : (await s c).hist = s.hist := by unfold await; split <;> simp
theorem await_gen (s : PState) (c : Completion) : (await s c).gen = s.gen := by unfold await; split <;> simp
theorem await_failed (s : PState) (c : Completion) : (await s c).failed = s.failed := by unfold await; split <;> simp
theorem await_cfg (s : PState) (c : Completion) : (await s c).cfg = s.cfg := by unfold await; split <;> simp

theorem inv_flushAfterWait {s : PState} {sp : Spec} (h : Inv s sp) (hst : s.stages = []) (hc : s.cache = none)
    (hres : s.errCh.isSome) (hnf : (flushAfterWait s).1.failed = false) : Inv (flushAfterWait s).1 sp := by
  unfold flushAfterWait at hnf ⊢
  by_cases he : s.errCh = some .err
  · simp [he, failWith] at hnf
  · simp only [he, if_false]
    exact inv_start h hst hc (absorbed_of_not_err h hres he)

theorem inv_waitAfter {s : PState} {sp : Spec} (h : Inv s sp) (hres : s.errCh.isSome)
    (hnf : (waitAfter s).1.failed = false) : Inv (waitAfter s).1 sp := by
  unfold waitAfter at hnf ⊢
  by_cases he : s.errCh = some .err
  · simp [he, failWith] at hnf
  · simp only [he, if_false]
    have hab := absorbed_of_not_err h hres he
    have hbelow : ∀ k, below { s with flushing := none, errCh := none } k = below s k := by
      intro k
      rw [below_eq, below_eq]
      simp only [Option.bind_none, orE_none]
      cases hff : s.flushing with
      | none => simp
      | some f' =>
        simp only [Option.bind_some]
        cases hk : f'.get k with
        | none => simp
        | some v => rw [hab f' hff k v hk]; rfl
    refine ⟨?_, ?_, ?_, ?_, ?_⟩
    · intro k; unfold view; rw [hbelow]; exact h.view k
    · intro he2; cases he2
    · intro c hc k e hk m hm; rw [hbelow]; exact h.cache c hc k e hk m hm
    · exact stagesRel_congr (fun k => (hbelow k).symm) h.stages
    · intro hf2; simp at hf2

theorem flushAfterWait_out (s : PState) :
    ((flushAfterWait s).2 = .errFlush ∧ s.errCh = some .err) ∨
    (s.errCh ≠ some .err ∧ flushAfterWait s = start s) := by
  unfold flushAfterWait
  by_cases he : s.errCh = some .err
  · left; simp [he, failWith]
  · right; simp [he]

theorem inv_doFlush {s : PState} {sp : Spec} (force : Bool) (mem : Nat) (late : Completion) (h : Inv s sp)
    (hnf : (doFlush s force mem late).1.failed = false) :
    Inv (doFlush s force mem late).1 (specStep sp (.flush force mem late) (doFlush s force mem late).2) := by
  apply inv_spec_congr (sp := sp)
  · unfold specStep; simp only; split <;> rfl
  · unfold specStep; simp only; split <;> rfl
  have h1 := inv_cache_none h
  unfold doFlush at hnf ⊢
  simp only at hnf ⊢
  by_cases hst : (!s.stages.isEmpty) = true
  · simp only [hst, if_true]; exact h1
  · simp only [hst, if_false] at hnf ⊢
    have hst' : s.stages = [] := by simpa using hst
    by_cases hn : (!force && !needFlush s.cfg mem s.mbuf.length s.running) = true
    · simp only [hn, if_true]; exact h1
    · simp only [hn, if_false] at hnf ⊢
      by_cases hf : s.flushing.isSome = true
      · simp only [hf, if_true] at hnf ⊢
        have h2 := inv_await late h1
        obtain ⟨_, hres, _⟩ := await_result late h1 hf
        exact inv_flushAfterWait h2 (by rw [await_stages]; exact hst') (by rw [await_cache]) hres hnf
      · simp only [hf] at hnf ⊢
        have hfn : s.flushing = none := by simpa using hf
        exact inv_start h1 hst' rfl (by intro f hff; simp [hfn] at hff)

theorem inv_doFlushWait {s : PState} {sp : Spec} (late : Completion) (h : Inv s sp)
    (hnf : (doFlushWait s late).1.failed = false) : Inv (doFlushWait s late).1 sp := by
  unfold doFlushWait at hnf ⊢
  by_cases hf : s.flushing.isSome = true
  · simp only [hf, if_true] at hnf ⊢
    obtain ⟨_, hres, _⟩ := await_result late h hf
    exact inv_waitAfter (inv_await late h) hres hnf
  · simp only [hf]; exact h

/-! ## BatchGet and its cache -/

theorem Cache.get_cons (k' : Bytes) (v : Option Bytes) (c : Cache) (k : Bytes) :
    Cache.get ((k', v) :: c) k = if k' = k then some v else Cache.get c k := rfl

theorem Cache.get_put (c : Cache) (k : Bytes) (e : Option Bytes) (k' : Bytes) :
    (c.put k e).get k' = if k = k' then some e else c.get k' := by
  unfold Cache.put
  rw [Cache.get_cons]
  by_cases h : k = k'
  · simp [h]
  · simp only [h, if_false]
    induction c with
    | nil => rfl
    | cons x rest ih =>
      obtain ⟨a, w⟩ := x
      by_cases h2 : a = k
      · subst h2
        simp only [List.filter, beq_self_eq_true, Bool.not_true]
        rw [ih, Cache.get_cons]; simp [h]
      · have : (!(a == k)) = true := by simp [h2]
        simp only [List.filter, this]
        rw [Cache.get_cons, Cache.get_cons, ih]

def cacheOK (s : PState) (c : Cache) : Prop :=
  ∀ k e, c.get k = some e → (s.mbuf.get k).isSome ∨ e = below s k

theorem getLocal_some {s : PState} {k v : Bytes} (h : getLocal s k = some v) :
    (s.mbuf.get k).isSome ∨ some v = below s k := by
  unfold getLocal at h
  cases hm : s.mbuf.get k with
  | some w => left; rfl
  | none =>
    right
    simp only [hm] at h
    rw [below_eq, h]; rfl

theorem getLocal_none {s : PState} {k : Bytes} (h : getLocal s k = none) :
    s.mbuf.get k = none ∧ below s k = s.store.get k := by
  unfold getLocal at h
  cases hm : s.mbuf.get k with
  | some w => simp [hm] at h
  | none =>
    simp only [hm] at h
    exact ⟨rfl, by rw [below_eq, h]; rfl⟩

theorem cacheOK_put {s : PState} {c : Cache} {k : Bytes} {e : Option Bytes} (h : cacheOK s c)
    (he : (s.mbuf.get k).isSome ∨ e = below s k) : cacheOK s (c.put k e) := by
  intro k' e' hk
  rw [Cache.get_put] at hk
  by_cases h2 : k = k'
  · subst h2; simp at hk; subst hk; exact he
  · simp [h2] at hk; exact h k' e' hk

theorem bgLocal_ok (s : PState) : ∀ (ks : List Bytes) (m : Buf) (c : Cache) (miss : List Bytes),
    cacheOK s c → (∀ k ∈ miss, getLocal s k = none) →
    cacheOK s (bgLocal s ks m c miss).2.1 ∧ ∀ k ∈ (bgLocal s ks m c miss).2.2, getLocal s k = none
  | [], m, c, miss, hc, hm => by
    unfold bgLocal
    exact ⟨hc, fun k hk => hm k (List.mem_reverse.mp hk)⟩
  | k :: ks, m, c, miss, hc, hm => by
    unfold bgLocal
    cases hg : getLocal s k with
    | some v =>
      simp only
      exact bgLocal_ok s ks _ _ miss (cacheOK_put hc (getLocal_some hg)) hm
    | none =>
      simp only
      refine bgLocal_ok s ks m c (k :: miss) hc ?_
      intro k' hk'
      rcases List.mem_cons.mp hk' with h | h
      · rw [h]; exact hg
      · exact hm k' h

theorem bgRemote_ok (s : PState) : ∀ (ks : List Bytes) (m : Buf) (c : Cache),
    cacheOK s c → (∀ k ∈ ks, getLocal s k = none) → cacheOK s (bgRemote s.store ks m c).2
  | [], m, c, hc, _ => by unfold bgRemote; exact hc
  | k :: ks, m, c, hc, hm => by
    unfold bgRemote
    have hk := getLocal_none (hm k (by simp))
    have hrest : ∀ k' ∈ ks, getLocal s k' = none := fun k' h => hm k' (List.mem_cons_of_mem _ h)
    cases hg : s.store.get k with
    | some v =>
      simp only
      exact bgRemote_ok s ks _ _ (cacheOK_put hc (Or.inr (by rw [hk.2, hg]))) hrest
    | none =>
      simp only
      exact bgRemote_ok s ks _ _ (cacheOK_put hc (Or.inr (by rw [hk.2, hg]))) hrest

theorem batchGet_fields (s : PState) (ks : List Bytes) :
    (batchGet s ks).1 = { s with cache := (batchGet s ks).1.cache } := by
  unfold batchGet; rfl

theorem inv_batchGet {s : PState} {sp : Spec} (ks : List Bytes) (h : Inv s sp) (hst : s.stages = []) :
    Inv (batchGet s ks).1 sp := by
  have hc0 : cacheOK s (s.cache.getD []) := by
    intro k e hk
    cases hc : s.cache with
    | none => simp [hc, Cache.get] at hk
    | some c => simp [hc] at hk; exact h.cache c hc k e hk s.mbuf (by simp)
  have h1 := bgLocal_ok s ks [] (s.cache.getD []) [] hc0 (by simp)
  have h2 := bgRemote_ok s (bgLocal s ks [] (s.cache.getD []) []).2.2 (bgLocal s ks [] (s.cache.getD []) []).1
    (bgLocal s ks [] (s.cache.getD []) []).2.1 h1.1 h1.2
  have hcache : (batchGet s ks).1.cache = some (bgRemote s.store (bgLocal s ks [] (s.cache.getD []) []).2.2
      (bgLocal s ks [] (s.cache.getD []) []).1 (bgLocal s ks [] (s.cache.getD []) []).2.1).2 := by
    unfold batchGet; rfl
  rw [batchGet_fields]
  refine ⟨h.view, h.absorbed, ?_, h.stages, h.coh⟩
  intro c hc k e hk m hm
  simp only at hc
  rw [hcache] at hc
  injection hc with hc; subst hc
  simp only [hst, List.mem_singleton] at hm
  subst hm
  exact h2 k e hk

/-! ## every step keeps the invariant -/

theorem stagesRel_tail {bl ms cs} (h : stagesRel bl ms cs) : stagesRel bl ms.tail cs.tail := by
  cases ms with
  | nil => rw [stagesRel_nil_left h]; trivial
  | cons m ms =>
    cases cs with
    | nil => exact h.elim
    | cons c cs => exact h.2

theorem inv_write {s : PState} {sp : Spec} (k v : Bytes) (h : Inv s sp) :
    Inv { s with mbuf := s.mbuf.put k v } { sp with cur := (k, v) :: sp.cur, pending := (k, v) :: sp.pending } where
  view k' := by
    have := h.view k'
    unfold view at this ⊢
    have hb : below { s with mbuf := s.mbuf.put k v } k' = below s k' := rfl
    rw [hb]; simp only
    rw [Buf.get_put, Buf.get_cons]
    by_cases h2 : k = k'
    · simp [h2]
    · simp only [h2, if_false]; exact this
  absorbed := h.absorbed
  cache := by
    intro c hc k' e hk m hm
    have hb : below { s with mbuf := s.mbuf.put k v } k' = below s k' := rfl
    rw [hb]
    simp only [List.mem_cons] at hm
    rcases hm with hm | hm
    · rcases h.cache c hc k' e hk s.mbuf (by simp) with h1 | h1
      · left; subst hm; rw [Buf.get_put]
        by_cases h2 : k = k'
        · simp [h2]
        · simp only [h2, if_false]; exact h1
      · right; exact h1
    · exact h.cache c hc k' e hk m (by simp [hm])
  stages := h.stages
  coh := h.coh

theorem inv_step {s : PState} {sp : Spec} (op : Op) (h : Inv s sp) (hok : okOp s op = true)
    (hnf : (step s op).1.failed = false) : Inv (step s op).1 (specStep sp op (step s op).2) := by
  cases op with
  | set k v =>
    unfold step specStep
    by_cases hv : v.isEmpty = true
    · simp only [hv, if_true]; exact h
    · simp only [hv]; exact inv_write k v h
  | del k => exact inv_write k [] h
  | get k => exact h
  | batchGet ks =>
    have hst : s.stages = [] := by simpa [okOp] using hok
    exact inv_batchGet ks h hst
  | flush force mem late => exact inv_doFlush force mem late h hnf
  | flushDone c =>
    unfold step specStep
    by_cases hr : s.running = true
    · simp only [hr, if_true]; exact inv_complete c h
    · simp only [hr]; exact h
  | flushWait late => exact inv_doFlushWait late h hnf
  | stage =>
    unfold step specStep
    refine ⟨h.view, h.absorbed, ?_, ⟨h.view, h.stages⟩, h.coh⟩
    intro c hc k e hk m hm
    simp only [List.mem_cons] at hm
    rcases hm with hm | hm | hm
    · exact h.cache c hc k e hk m (by simp [hm])
    · exact h.cache c hc k e hk m (by simp [hm])
    · exact h.cache c hc k e hk m (by simp [hm])
  | release =>
    unfold step specStep
    refine ⟨h.view, h.absorbed, ?_, stagesRel_tail h.stages, h.coh⟩
    intro c hc k e hk m hm
    simp only [List.mem_cons] at hm
    rcases hm with hm | hm
    · exact h.cache c hc k e hk m (by simp [hm])
    · exact h.cache c hc k e hk m (List.mem_cons_of_mem _ (List.mem_of_mem_tail hm))
  | cleanup =>
    unfold step specStep
    cases hs : s.stages with
    | nil =>
      have hcs : sp.curSaved = [] := by have := h.stages; rw [hs] at this; exact stagesRel_nil_left this
      simp only [hcs, List.headD_nil, List.tail_nil]
      exact ⟨h.view, h.absorbed, h.cache, by rw [hs]; trivial, h.coh⟩
    | cons m rest =>
      cases hcs : sp.curSaved with
      | nil => have := h.stages; rw [hs, hcs] at this; exact this.elim
      | cons c cs =>
        have hrel := h.stages; rw [hs, hcs] at hrel
        simp only [List.headD_cons, List.tail_cons]
        refine ⟨hrel.1, h.absorbed, ?_, hrel.2, h.coh⟩
        intro cc hc k e hk m' hm'
        simp only [List.mem_cons] at hm'
        rcases hm' with hm' | hm'
        · exact h.cache cc hc k e hk m' (by rw [hs]; simp [hm'])
        · exact h.cache cc hc k e hk m' (by rw [hs]; simp [hm'])

theorem readValue_eq_view {s : PState} {sp : Spec} (h : Inv s sp) (k : Bytes) : readValue s k = view s k := by
  unfold readValue view
  cases hl : getLocal s k with
  | some v =>
    simp only
    unfold getLocal at hl
    cases hm : s.mbuf.get k with
    | some w => simp [hm] at hl; simp [hl]
    | none =>
      simp only [hm] at hl
      simp only [orE_none]; rw [below_eq, hl]; rfl
  | none =>
    obtain ⟨hm, hb⟩ := getLocal_none hl
    simp only [hm, orE_none]
    cases hc : s.cache with
    | none => simp [hb]
    | some c =>
      simp only [Option.bind_some]
      cases hck : c.get k with
      | none => simp [hb]
      | some e =>
        simp only
        rcases h.cache c hc k e hck s.mbuf (by simp) with h1 | h1
        · simp [hm] at h1
        · exact h1

theorem failed_mono (s : PState) (op : Op) (h : s.failed = true) : (step s op).1.failed = true := by
  cases op with
  | set k v => simp only [step]; split <;> exact h
  | del k => exact h
  | get k => exact h
  | batchGet ks => simp only [step]; rw [batchGet_fields]; exact h
  | flush force mem late =>
    simp only [step, doFlush]
    split
    · exact h
    · split
      · exact h
      · split
        · unfold flushAfterWait; split
          · rfl
          · rw [(start_fields _).2.2.2.2.2.1, await_failed]; exact h
        · rw [(start_fields _).2.2.2.2.2.1]; exact h
  | flushDone c => simp only [step]; split <;> simp [h]
  | flushWait late =>
    simp only [step, doFlushWait]
    split
    · unfold waitAfter; split
      · rfl
      · simp only; rw [await_failed]; exact h
    · exact h
  | stage => exact h
  | release => exact h
  | cleanup => simp only [step]; split <;> exact h

theorem runBoth_fst (s : PState) (sp : Spec) (ops : List Op) : (runBoth (s, sp) ops).1 = run s ops := by
  induction ops generalizing s sp with
  | nil => rfl
  | cons op ops ih => unfold runBoth run stepBoth; exact ih _ _

theorem failed_run_mono (s : PState) (ops : List Op) (h : s.failed = true) : (run s ops).failed = true := by
  induction ops generalizing s with
  | nil => exact h
  | cons op ops ih => unfold run; exact ih _ (failed_mono s op h)

theorem inv_run {s : PState} {sp : Spec} (ops : List Op) (h : Inv s sp) (hok : RunOk s ops)
    (hnf : (run s ops).failed = false) : Inv (runBoth (s, sp) ops).1 (runBoth (s, sp) ops).2 := by
  induction ops generalizing s sp with
  | nil => exact h
  | cons op ops ih =>
    unfold runBoth stepBoth
    unfold run at hnf
    have hnf1 : (step s op).1.failed = false := by
      cases hf : (step s op).1.failed with
      | false => rfl
      | true => rw [failed_run_mono _ ops hf] at hnf; cases hnf
    exact ih (inv_step op h hok.1 hnf1) hok.2 hnf

theorem inv_init (cfg : Cfg) : Inv (init cfg) {} where
  view k := rfl
  absorbed := by intro he; cases he
  cache := by intro c hc; cases hc
  stages := trivial
  coh := by intro hf; cases hf

end CGV.Pipelined
