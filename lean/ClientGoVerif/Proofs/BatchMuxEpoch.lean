import ClientGoVerif.Proofs.BatchMuxIds
/-! Epoch discipline of recreateStreamingClient and stream generations (C18). -/
namespace CGV.BatchMux
open List

def streamKey (st : Stream) : Nat × Nat := (st.cid, st.fwd)

structure InvG (s : State) : Prop where
  skey : (s.streams.map streamKey).Nodup
  scid : ∀ st ∈ s.streams, st.cid < s.clients.length ∧ st.fwd ≤ s.nfwd
  lep : ∀ st ∈ s.streams, (st.sib = false → st.lep = clientEpoch s.clients st.cid) ∧
          (st.sib = true → st.lep < clientEpoch s.clients st.cid ∧ 0 < s.nfwd)
  gen : s.loserSeen = false → ∀ sl ∈ s.table, (findStream s.streams sl.cid sl.fwd).map (·.gen) = some sl.gen
  loser : s.loserSeen = true → 0 < s.nfwd
  live : ∀ sl ∈ s.table, (findStream s.streams sl.cid sl.fwd).isSome
  sd : ∀ c, s.sending = some c → c < s.clients.length

theorem findStream_spec {ss : List Stream} {c f : Nat} {st : Stream} (h : findStream ss c f = some st) :
    st ∈ ss ∧ st.cid = c ∧ st.fwd = f := by
  unfold findStream at h
  have h1 := List.mem_of_find?_eq_some h
  have h2 := List.find?_some h
  simp at h2
  exact ⟨h1, h2.1, h2.2⟩

theorem findStream_map (ss : List Stream) (F : Stream → Stream) (hF : ∀ x, (F x).cid = x.cid ∧ (F x).fwd = x.fwd) (c f : Nat) :
    findStream (ss.map F) c f = (findStream ss c f).map F := by
  unfold findStream
  induction ss with
  | nil => rfl
  | cons x t ih =>
    simp only [List.map_cons, List.find?_cons, (hF x).1, (hF x).2]
    split
    · rfl
    · exact ih

theorem key_inj {ss : List Stream} (hn : (ss.map streamKey).Nodup) {a b : Stream} (ha : a ∈ ss) (hb : b ∈ ss)
    (h : streamKey a = streamKey b) : a = b := by
  induction ss with
  | nil => simp at ha
  | cons x t ih =>
    simp only [List.map_cons, List.nodup_cons] at hn
    rcases List.mem_cons.mp ha with rfl | ha' <;> rcases List.mem_cons.mp hb with rfl | hb'
    · rfl
    · exact absurd (List.mem_map.mpr ⟨b, hb', h.symm⟩) hn.1
    · exact absurd (List.mem_map.mpr ⟨a, ha', h⟩) hn.1
    · exact ih hn.2 ha' hb'

theorem clientEpoch_updClient (cs : List Client) (cid : Nat) (f : Client → Client) (hf : ∀ c, (f c).epoch = c.epoch) (k : Nat) :
    clientEpoch (updClient cs cid f) k = clientEpoch cs k := by
  unfold clientEpoch updClient
  rw [List.getElem?_mapIdx]
  cases cs[k]? with
  | none => rfl
  | some c => simp only [Option.map_some]; split <;> simp [hf]

theorem length_updClient (cs : List Client) (cid : Nat) (f : Client → Client) : (updClient cs cid f).length = cs.length := by
  simp [updClient]

theorem clientEpoch_bump (cs : List Client) (cid : Nat) (hc : cid < cs.length) (k : Nat) :
    clientEpoch (updClient cs cid fun c => { c with epoch := c.epoch + 1 }) k =
      if k = cid then clientEpoch cs k + 1 else clientEpoch cs k := by
  unfold clientEpoch updClient
  rw [List.getElem?_mapIdx]
  by_cases hk : k = cid
  · subst hk
    rw [List.getElem?_eq_getElem hc]
    simp
  · cases cs[k]? with
    | none => simp [hk]
    | some c => simp [hk]

/-- streams, epochs, nfwd, loserSeen unchanged; the table only shrinks -/
theorem InvG.weaken {s s' : State} (hG : InvG s) (hsd : s'.sending = s.sending) (hs : s'.streams = s.streams) (hn : s'.nfwd = s.nfwd)
    (hl : s'.loserSeen = s.loserSeen) (hlen : s'.clients.length = s.clients.length)
    (he : ∀ k, clientEpoch s'.clients k = clientEpoch s.clients k)
    (ht : ∀ sl ∈ s'.table, sl ∈ s.table) : InvG s' := by
  refine ⟨hs ▸ hG.skey, ?_, ?_, ?_, ?_, ?_, by rw [hsd, hlen]; exact hG.sd⟩
  · rw [hs, hlen, hn]; exact hG.scid
  · rw [hs, hn]; intro st hst; rw [he]; exact hG.lep st hst
  · rw [hs, hl]; intro h sl hsl; exact hG.gen h sl (ht sl hsl)
  · rw [hl, hn]; exact hG.loser
  · rw [hs]; intro sl hsl; exact hG.live sl (ht sl hsl)

theorem InvG.ensureStream {s : State} (hG : InvG s) (cid fwd : Nat) (hc : cid < s.clients.length) (hf : fwd ≤ s.nfwd) :
    InvG (ensureStream s cid fwd) ∧ (findStream (ensureStream s cid fwd).streams cid fwd).isSome := by
  unfold CGV.BatchMux.ensureStream
  split
  · rename_i st hst; exact ⟨hG, by simp [hst]⟩
  · rename_i hnone
    have hno : ∀ x ∈ s.streams, ¬ (x.cid = cid ∧ x.fwd = fwd) := by
      unfold findStream at hnone
      have := List.find?_eq_none.mp hnone
      intro x hx; simpa using this x hx
    refine ⟨⟨?_, ?_, ?_, ?_, hG.loser, ?_, hG.sd⟩, ?_⟩
    · simp only [List.map_append, List.map_cons, List.map_nil]
      refine List.nodup_append.mpr ⟨hG.skey, by simp, ?_⟩
      intro a ha b hb hab
      simp at hb; subst hb; subst hab
      obtain ⟨x, hx, hk⟩ := List.mem_map.mp ha
      simp only [streamKey, Prod.mk.injEq] at hk
      exact hno x hx hk
    · intro st hst
      rcases List.mem_append.mp hst with h | h
      · exact hG.scid st h
      · simp at h; subst h; exact ⟨hc, hf⟩
    · intro st hst
      rcases List.mem_append.mp hst with h | h
      · exact hG.lep st h
      · simp at h; subst h; simp
    · intro hl sl hsl
      have := hG.gen hl sl hsl
      show (findStream (s.streams ++ _) sl.cid sl.fwd).map (·.gen) = some sl.gen
      unfold findStream at this ⊢
      rw [List.find?_append]
      cases hfi : List.find? (fun s => decide (s.cid = sl.cid ∧ s.fwd = sl.fwd)) s.streams with
      | none => rw [hfi] at this; simp at this
      | some x => rw [hfi] at this; simpa using this
    · intro sl hsl
      have := hG.live sl hsl
      show (findStream (s.streams ++ _) sl.cid sl.fwd).isSome
      unfold findStream at this ⊢
      rw [List.find?_append]
      cases hfi : List.find? (fun s => decide (s.cid = sl.cid ∧ s.fwd = sl.fwd)) s.streams with
      | none => rw [hfi] at this; simp at this
      | some x => simp
    · show (findStream (s.streams ++ _) cid fwd).isSome
      unfold findStream at hnone ⊢
      rw [List.find?_append, hnone]
      simp

theorem chooseClient_valid (cs : List Client) (hh : Bool) : ∀ (k idx i c : Nat),
    chooseClient cs hh k idx = (i, some c) → c < cs.length
  | 0, idx, i, c, h => by simp [chooseClient] at h
  | k + 1, idx, i, c, h => by
    unfold chooseClient at h
    simp only at h
    split at h
    · simp at h
    · rename_i cl hcl
      split at h
      · simp at h
        obtain ⟨_, rfl⟩ := h
        exact (List.getElem?_eq_some_iff.mp hcl).1
      · exact chooseClient_valid cs hh k _ i c h

theorem InvG.failSlots {s : State} (hG : InvG s) (cid : Nat) (dead : Slot → Bool) (err : Err) :
    InvG (failSlots s cid dead err) := by
  refine hG.weaken rfl rfl rfl rfl (length_updClient _ _ _) (clientEpoch_updClient _ _ _ (fun _ => rfl)) ?_
  intro sl hsl
  exact (List.mem_filter.mp hsl).1

theorem InvG.track {s : State} (hG : InvG s) (cid fwd gen : Nat)
    (hgen : s.loserSeen = false → (findStream s.streams cid fwd).map (·.gen) = some gen)
    (hlive : (findStream s.streams cid fwd).isSome) :
    InvG (track s cid fwd gen) := by
  refine ⟨hG.skey, ?_, ?_, ?_, hG.loser, ?_, by intro c h; show c < (updClient _ _ _).length; rw [length_updClient]; exact hG.sd c h⟩
  · intro st hst
    have := hG.scid st hst
    exact ⟨by show st.cid < (updClient _ _ _).length; rw [length_updClient]; exact this.1, this.2⟩
  · intro st hst
    show (_ → st.lep = clientEpoch (updClient _ _ _) st.cid) ∧ (_ → st.lep < clientEpoch (updClient _ _ _) st.cid ∧ _)
    rw [clientEpoch_updClient]
    · exact hG.lep st hst
    · intro c; rfl
  · intro hl sl hsl
    have hsl' : sl ∈ s.table ++ (s.built.filter (·.fwd = fwd)).map
        (fun it => ({ cid := cid, id := it.id, h := it.h, fwd := fwd, gen := gen } : Slot)) := hsl
    rcases List.mem_append.mp hsl' with h | h
    · exact hG.gen hl sl h
    · obtain ⟨it, _, rfl⟩ := List.mem_map.mp h
      exact hgen hl
  · intro sl hsl
    have hsl' : sl ∈ s.table ++ (s.built.filter (·.fwd = fwd)).map
        (fun it => ({ cid := cid, id := it.id, h := it.h, fwd := fwd, gen := gen } : Slot)) := hsl
    rcases List.mem_append.mp hsl' with h | h
    · exact hG.live sl h
    · obtain ⟨it, _, rfl⟩ := List.mem_map.mp h
      exact hlive

theorem InvG.sendGroup {s : State} (hG : InvG s) (cid fwd : Nat) (hc : cid < s.clients.length) (hf : fwd ≤ s.nfwd) :
    InvG (sendGroup s cid fwd) ∧ (sendGroup s cid fwd).clients.length = s.clients.length ∧
      (sendGroup s cid fwd).nfwd = s.nfwd := by
  have hlenE : (CGV.BatchMux.ensureStream s cid fwd).clients.length = s.clients.length ∧
      (CGV.BatchMux.ensureStream s cid fwd).nfwd = s.nfwd ∧
      (CGV.BatchMux.ensureStream s cid fwd).loserSeen = s.loserSeen := by
    unfold CGV.BatchMux.ensureStream; split <;> exact ⟨rfl, rfl, rfl⟩
  unfold CGV.BatchMux.sendGroup
  simp only
  split
  · exact ⟨hG, rfl, rfl⟩
  · obtain ⟨hE, hsome⟩ := hG.ensureStream cid fwd hc hf
    generalize hst : findStream (CGV.BatchMux.ensureStream s cid fwd).streams cid fwd = st at hsome
    cases st with
    | none => simp at hsome
    | some x =>
      simp only
      have hT := hE.track cid fwd x.gen (fun _ => by rw [hst]; rfl) (by rw [hst]; rfl)
      have hlenT : (CGV.BatchMux.track (CGV.BatchMux.ensureStream s cid fwd) cid fwd x.gen).clients.length = s.clients.length := by
        show (updClient _ _ _).length = _
        rw [length_updClient]; exact hlenE.1
      split
      · refine ⟨hT.failSlots _ _ _, ?_, hlenE.2.1⟩
        show (updClient _ _ _).length = _
        rw [length_updClient]; exact hlenT
      · exact ⟨hT.weaken rfl rfl rfl rfl rfl (fun _ => rfl) (fun _ h => h), hlenT, hlenE.2.1⟩

theorem InvG.sendAll {s : State} (hG : InvG s) (cid : Nat) (hc : cid < s.clients.length) : ∀ k, k ≤ s.nfwd →
    InvG (sendAll s cid k) ∧ (sendAll s cid k).clients.length = s.clients.length ∧ (sendAll s cid k).nfwd = s.nfwd
  | 0, hk => hG.sendGroup cid 0 hc hk
  | k + 1, hk => by
    obtain ⟨h1, h2, h3⟩ := InvG.sendAll hG cid hc k (by omega)
    obtain ⟨g1, g2, g3⟩ := h1.sendGroup cid (k + 1) (by rw [h2]; exact hc) (by rw [h3]; exact hk)
    exact ⟨g1, g2.trans h2, g3.trans h3⟩

theorem InvG.setSending {s : State} (hG : InvG s) (c : Option Nat) (hc : ∀ x, c = some x → x < s.clients.length) :
    InvG { s with sending := c } :=
  ⟨hG.skey, hG.scid, hG.lep, hG.gen, hG.loser, hG.live, hc⟩

theorem InvG.flushBegin {s : State} (hG : InvG s) : InvG (flushBegin s) := by
  unfold CGV.BatchMux.flushBegin
  split
  · exact hG
  simp only
  generalize hpk : chooseClient s.clients _ s.clients.length s.index = pk
  obtain ⟨idx, pick⟩ := pk
  simp only
  cases pick with
  | none =>
    simp only
    split
    · exact hG.weaken rfl rfl rfl rfl rfl (fun _ => rfl) (fun _ h => h)
    · exact hG.weaken rfl rfl rfl rfl rfl (fun _ => rfl) (fun _ h => h)
  | some cid =>
    simp only
    have hc := chooseClient_valid _ _ _ _ _ _ hpk
    generalize buildLoop s.entries _ (s.heap.length + 1) s.heap { idAlloc := s.idAlloc, count := 0, items := [] } = r
    obtain ⟨hp, bst⟩ := r
    simp only
    have h1 : InvG { s with index := idx, heap := hp, idAlloc := bst.idAlloc, built := bst.items.reverse, breqs := bst.items.reverse.map (·.req), allocLog := bst.items.map (fun it => (it.id, it.h)) ++ s.allocLog } :=
      hG.weaken rfl rfl rfl rfl rfl (fun _ => rfl) (fun _ h => h)
    exact h1.setSending (some cid) (fun x h => by cases h; exact hc)

theorem InvG.flushEnd {s : State} (hG : InvG s) : InvG (flushEnd s) := by
  unfold CGV.BatchMux.flushEnd
  split
  · exact hG
  · rename_i cid hsd
    have h1 := (hG.sendAll cid (hG.sd cid hsd) s.nfwd (Nat.le_refl _)).1
    exact h1.setSending none (fun x h => by cases h)

theorem InvG.flush {s : State} (hG : InvG s) : InvG (flush s) := hG.flushBegin.flushEnd

theorem InvG.recv1 {s : State} (hG : InvG s) (cid : Nat) (r : Nat × Nat) : InvG (recv1 cid s r) := by
  unfold CGV.BatchMux.recv1
  simp only
  split
  · exact hG.weaken rfl rfl rfl rfl rfl (fun _ => rfl) (fun _ h => h)
  · refine hG.weaken rfl rfl rfl rfl (length_updClient _ _ _) (clientEpoch_updClient _ _ _ (fun _ => rfl)) ?_
    intro sl hsl
    exact (List.mem_filter.mp hsl).1

theorem InvG.recvFold (cid : Nat) : ∀ (rs : List (Nat × Nat)) {s : State}, InvG s → InvG (rs.foldl (CGV.BatchMux.recv1 cid) s)
  | [], _, h => h
  | r :: rest, _, h => InvG.recvFold cid rest (h.recv1 cid r)

theorem InvG.kill {s : State} (hG : InvG s) (cid fwd : Nat) : InvG (kill s cid fwd) := by
  unfold CGV.BatchMux.kill
  split
  · exact hG
  · split
    · exact hG
    · rename_i st hst
      obtain ⟨hmem, hcid, hfwd⟩ := findStream_spec hst
      have hcl := (hG.scid st hmem).1
      rw [hcid] at hcl
      have huniq : ∀ x ∈ s.streams, x.cid = cid → x.fwd = fwd → x = st := by
        intro x hx h1 h2
        exact key_inj hG.skey hx hmem (by simp [streamKey, h1, h2, hcid, hfwd])
      split
      · -- CAS winner
        rename_i hwin
        have hF := hG.failSlots cid (fun sl => sl.fwd = fwd) .stream
        refine ⟨?_, ?_, ?_, ?_, hG.loser, ?_, by
          intro c h
          show c < (updClient (updClient _ _ _) _ _).length
          rw [length_updClient, length_updClient]; exact hG.sd c h⟩
        · show (List.map streamKey (s.streams.map _)).Nodup
          rw [List.map_map]
          have : (streamKey ∘ fun x : Stream =>
              if x.cid = cid ∧ x.fwd = fwd then { x with gen := x.gen + 1, lep := x.lep + 1, sib := false }
              else if x.cid = cid then { x with sib := true } else x) = streamKey := by
            funext x; simp only [Function.comp]; split
            · rfl
            · split <;> rfl
          rw [this]; exact hG.skey
        · intro x hx
          obtain ⟨y, hy, rfl⟩ := List.mem_map.mp hx
          have := hG.scid y hy
          show _ < (updClient _ _ _).length ∧ _
          rw [length_updClient]
          show _ < (updClient _ _ _).length ∧ _
          rw [length_updClient]
          split
          · exact this
          · split <;> exact this
        · intro x hx
          obtain ⟨y, hy, rfl⟩ := List.mem_map.mp hx
          have hy' := hG.lep y hy
          have hbump : ∀ k, clientEpoch (updClient (updClient s.clients cid fun c => { c with sent := c.sent -
              ((s.table.filter fun sl => sl.cid = cid ∧ (fun sl : Slot => decide (sl.fwd = fwd)) sl = true).length : Nat) })
              cid fun c => { c with epoch := c.epoch + 1 }) k =
              if k = cid then clientEpoch s.clients k + 1 else clientEpoch s.clients k := by
            intro k
            rw [clientEpoch_bump _ _ (by rw [length_updClient]; exact hcl), clientEpoch_updClient]
            intro c; rfl
          show (_ → _ = clientEpoch (updClient (updClient s.clients cid _) cid _) _) ∧
               (_ → _ < clientEpoch (updClient (updClient s.clients cid _) cid _) _ ∧ _)
          split
          · rename_i hk
            have : y = st := huniq y hy hk.1 hk.2
            subst this
            simp only [hbump, hk.1, if_true]
            constructor
            · intro _; show y.lep + 1 = _; rw [hwin]
            · intro h; simp at h
          · rename_i hk
            split
            · rename_i hc2
              simp only [hbump, hc2, if_true]
              constructor
              · intro h; simp at h
              · intro _
                have hne : y.fwd ≠ fwd := fun h => hk ⟨hc2, h⟩
                have hle : y.lep ≤ clientEpoch s.clients cid := by
                  cases hs : y.sib
                  · have := hy'.1 hs; rw [hc2] at this; omega
                  · have := (hy'.2 hs).1; rw [hc2] at this; omega
                have h1 := (hG.scid y hy).2
                have h2 := (hG.scid st hmem).2
                rw [hfwd] at h2
                have hce : clientEpoch s.clients y.cid = clientEpoch s.clients cid := by rw [hc2]
                refine ⟨?_, ?_⟩
                · show y.lep < _
                  omega
                · show 0 < s.nfwd
                  omega
            · rename_i hc2
              simp only [hbump, hc2, if_false]
              exact hy'
        · intro hl sl hsl
          have hsl' : sl ∈ s.table.filter (fun x => ¬ (x.cid = cid ∧ (fun sl : Slot => decide (sl.fwd = fwd)) x = true)) := hsl
          obtain ⟨hm, hnk⟩ := List.mem_filter.mp hsl'
          have hold := hG.gen hl sl hm
          show (findStream (s.streams.map _) sl.cid sl.fwd).map (·.gen) = some sl.gen
          have hFk : ∀ x : Stream, ((fun x : Stream =>
              if x.cid = cid ∧ x.fwd = fwd then { x with gen := x.gen + 1, lep := x.lep + 1, sib := false }
              else if x.cid = cid then { x with sib := true } else x) x).cid = x.cid ∧ ((fun x : Stream =>
              if x.cid = cid ∧ x.fwd = fwd then { x with gen := x.gen + 1, lep := x.lep + 1, sib := false }
              else if x.cid = cid then { x with sib := true } else x) x).fwd = x.fwd := by
            intro x
            simp only
            split
            · exact ⟨rfl, rfl⟩
            · split <;> exact ⟨rfl, rfl⟩
          rw [findStream_map _ _ hFk]
          cases hfs : findStream s.streams sl.cid sl.fwd with
          | none => rw [hfs] at hold; simp at hold
          | some y =>
            rw [hfs] at hold
            obtain ⟨_, hy1, hy2⟩ := findStream_spec hfs
            have hne : ¬ (y.cid = cid ∧ y.fwd = fwd) := by
              intro ⟨h1, h2⟩
              have h3 : ¬sl.cid = cid ∨ ¬sl.fwd = fwd := by simpa using hnk
              rcases h3 with h3 | h3
              · exact h3 (hy1 ▸ h1)
              · exact h3 (hy2 ▸ h2)
            simp only [Option.map_some, hne, if_false] at hold ⊢
            split <;> exact hold
        · intro sl hsl
          have hsl' : sl ∈ s.table.filter (fun x => ¬ (x.cid = cid ∧ (fun sl : Slot => decide (sl.fwd = fwd)) x = true)) := hsl
          have hold := hG.live sl (List.mem_filter.mp hsl').1
          have hFk : ∀ x : Stream, ((fun x : Stream =>
              if x.cid = cid ∧ x.fwd = fwd then { x with gen := x.gen + 1, lep := x.lep + 1, sib := false }
              else if x.cid = cid then { x with sib := true } else x) x).cid = x.cid ∧ ((fun x : Stream =>
              if x.cid = cid ∧ x.fwd = fwd then { x with gen := x.gen + 1, lep := x.lep + 1, sib := false }
              else if x.cid = cid then { x with sib := true } else x) x).fwd = x.fwd := by
            intro x
            simp only
            split
            · exact ⟨rfl, rfl⟩
            · split <;> exact ⟨rfl, rfl⟩
          show (findStream (s.streams.map _) sl.cid sl.fwd).isSome
          rw [findStream_map _ _ hFk]
          simpa using hold
      · -- CAS loser
        rename_i hlose
        refine ⟨?_, ?_, ?_, ?_, ?_, ?_, hG.sd⟩
        · show (List.map streamKey (s.streams.map _)).Nodup
          rw [List.map_map]
          have : (streamKey ∘ fun x : Stream =>
              if x.cid = cid ∧ x.fwd = fwd then { x with gen := x.gen + 1, lep := clientEpoch s.clients cid, sib := false }
              else x) = streamKey := by
            funext x; simp only [Function.comp]; split <;> rfl
          rw [this]; exact hG.skey
        · intro x hx
          obtain ⟨y, hy, rfl⟩ := List.mem_map.mp hx
          have := hG.scid y hy
          split <;> exact this
        · intro x hx
          obtain ⟨y, hy, rfl⟩ := List.mem_map.mp hx
          split
          · rename_i hk
            constructor
            · intro _; show clientEpoch s.clients cid = clientEpoch s.clients y.cid; rw [hk.1]
            · intro h; simp at h
          · exact hG.lep y hy
        · intro hl; simp at hl
        · intro _
          -- the loser's local epoch is stale: only possible with a sibling, hence nfwd > 0
          cases hs : st.sib
          · exact absurd ((hG.lep st hmem).1 hs ▸ (by rw [hcid])) hlose
          · exact ((hG.lep st hmem).2 hs).2
        · intro sl hsl
          have hold := hG.live sl hsl
          have hFk : ∀ x : Stream, ((fun x : Stream =>
              if x.cid = cid ∧ x.fwd = fwd then { x with gen := x.gen + 1, lep := clientEpoch s.clients cid, sib := false }
              else x) x).cid = x.cid ∧ ((fun x : Stream =>
              if x.cid = cid ∧ x.fwd = fwd then { x with gen := x.gen + 1, lep := clientEpoch s.clients cid, sib := false }
              else x) x).fwd = x.fwd := by
            intro x
            simp only
            split <;> exact ⟨rfl, rfl⟩
          show (findStream (s.streams.map _) sl.cid sl.fwd).isSome
          rw [findStream_map _ _ hFk]
          simpa using hold

theorem InvG.step {s : State} (hG : InvG s) (op : Op) : InvG (step s op) := by
  cases op with
  | submit p pri fwd =>
    show InvG (CGV.BatchMux.submit s p pri fwd)
    unfold CGV.BatchMux.submit; simp only
    split <;> exact hG.weaken rfl rfl rfl rfl rfl (fun _ => rfl) (fun _ h => h)
  | fetch max =>
    show InvG (CGV.BatchMux.fetch s max)
    unfold CGV.BatchMux.fetch
    split
    · exact hG
    · exact hG.weaken rfl rfl rfl rfl rfl (fun _ => rfl) (fun _ h => h)
  | breset => exact hG.weaken rfl rfl rfl rfl rfl (fun _ => rfl) (fun _ h => h)
  | flush => exact hG.flush
  | flushBegin => exact hG.flushBegin
  | flushEnd => exact hG.flushEnd
  | recv cid fwd rs =>
    show InvG (CGV.BatchMux.recv s cid fwd rs)
    unfold CGV.BatchMux.recv
    split
    · exact hG
    · split
      · exact hG
      · exact InvG.recvFold cid rs hG
  | kill cid fwd => exact hG.kill cid fwd
  | cancel h => exact hG.weaken rfl rfl rfl rfl rfl (fun _ => rfl) (fun _ h => h)
  | timeout h => exact hG.weaken rfl rfl rfl rfl rfl (fun _ => rfl) (fun _ h => h)
  | wake h => exact hG.weaken rfl rfl rfl rfl rfl (fun _ => rfl) (fun _ h => h)
  | close => exact hG.weaken rfl rfl rfl rfl rfl (fun _ => rfl) (fun _ h => h)
  | sendfail cid fwd b =>
    have hFk : ∀ x : Stream, ((fun x : Stream => if x.cid = cid ∧ x.fwd = fwd then { x with sendFail := b } else x) x).cid = x.cid ∧
        ((fun x : Stream => if x.cid = cid ∧ x.fwd = fwd then { x with sendFail := b } else x) x).fwd = x.fwd := by
      intro x; simp only; split <;> exact ⟨rfl, rfl⟩
    refine ⟨?_, ?_, ?_, ?_, hG.loser, ?_, hG.sd⟩
    · show (List.map streamKey (s.streams.map _)).Nodup
      rw [List.map_map]
      have : (streamKey ∘ fun x : Stream => if x.cid = cid ∧ x.fwd = fwd then { x with sendFail := b } else x) = streamKey := by
        funext x; simp only [Function.comp]; split <;> rfl
      rw [this]; exact hG.skey
    · intro x hx
      obtain ⟨y, hy, rfl⟩ := List.mem_map.mp hx
      have := hG.scid y hy
      split <;> exact this
    · intro x hx
      obtain ⟨y, hy, rfl⟩ := List.mem_map.mp hx
      have := hG.lep y hy
      split <;> exact this
    · intro hl sl hsl
      have hold := hG.gen hl sl hsl
      show (findStream (s.streams.map _) sl.cid sl.fwd).map (·.gen) = some sl.gen
      rw [findStream_map _ _ hFk]
      cases hfs : findStream s.streams sl.cid sl.fwd with
      | none => rw [hfs] at hold; simp at hold
      | some y =>
        rw [hfs] at hold
        simp only [Option.map_some] at hold ⊢
        split <;> exact hold
    · intro sl hsl
      have hold := hG.live sl hsl
      show (findStream (s.streams.map _) sl.cid sl.fwd).isSome
      rw [findStream_map _ _ hFk]
      simpa using hold
  | lockrec cid b =>
    exact hG.weaken rfl rfl rfl rfl (length_updClient _ _ _) (clientEpoch_updClient _ _ _ (fun _ => rfl)) (fun _ h => h)
  | setlimit cid l =>
    exact hG.weaken rfl rfl rfl rfl (length_updClient _ _ _) (clientEpoch_updClient _ _ _ (fun _ => rfl)) (fun _ h => h)
  | cfgcancel b => exact hG.weaken rfl rfl rfl rfl rfl (fun _ => rfl) (fun _ h => h)
  | panicRecover => exact hG

theorem InvG.init (n limit nfwd : Nat) : InvG (init n limit nfwd) := by
  refine ⟨?_, ?_, ?_, ?_, ?_, ?_, ?_⟩ <;> simp [CGV.BatchMux.init]

theorem InvG.run {s : State} (hG : InvG s) : ∀ ops : List Op, InvG (run s ops) := by
  intro ops
  induction ops generalizing s with
  | nil => exact hG
  | cons op rest ih => exact ih (hG.step op)

/-- a stream whose `sib` flag is clear wins the CAS -/
theorem InvG.wins {s : State} (hG : InvG s) {cid fwd : Nat} {st : Stream}
    (hst : findStream s.streams cid fwd = some st) (hs : st.sib = false) : killWins s cid fwd = true := by
  obtain ⟨hm, hc, _⟩ := findStream_spec hst
  unfold killWins
  rw [hst]
  have := (hG.lep st hm).1 hs
  rw [hc] at this
  simp [this]

/-- without forwarded hosts no stream ever has a sibling -/
theorem InvG.nosib {s : State} (hG : InvG s) (h0 : s.nfwd = 0) : ∀ st ∈ s.streams, st.sib = false := by
  intro st hst
  cases hs : st.sib
  · rfl
  · have := ((hG.lep st hst).2 hs).2; omega

/-- the loser branch leaves table and entries untouched: the survivors are exactly the pending slots of that stream -/
theorem kill_loser_unchanged (s : State) (cid fwd : Nat) (hw : killWins s cid fwd = false) :
    (kill s cid fwd).table = s.table ∧ (kill s cid fwd).entries = s.entries := by
  unfold killWins at hw
  unfold CGV.BatchMux.kill
  split
  · first | exact ⟨rfl, rfl⟩ | simp
  · split
    · first | exact ⟨rfl, rfl⟩ | simp
    · rename_i st hst
      rw [hst] at hw
      have : ¬ st.lep = clientEpoch s.clients cid := by simpa using hw
      simp only [this, if_false]
      first | exact ⟨rfl, rfl⟩ | simp

end CGV.BatchMux
