import ClientGoVerif.Proofs.BatchMuxInv
/-! InvA is preserved by every step of the C18 model. -/
namespace CGV.BatchMux
open List

/-- entries updated at one handle by a benign function, nothing else that matters changes -/
theorem InvA.updAt_benign {s s' : State} (hA : InvA s) (h : Nat) (f : Entry → Entry)
    (hf : ∀ e, Benign e (f e))
    (hent : s'.entries = updAt s.entries h f)
    (hl : locs s' = locs s) (hi : ids s' = ids s) (hia : s'.idAlloc = s.idAlloc)
    (hc : s'.closed = s.closed) (hn : s'.nfwd = s.nfwd) (hb : s'.built = s.built) : InvA s' := by
  refine hA.general (fun i e => if i = h then f e else e) [] ?_ hc hn ?_ ?_ ?_ ?_ ?_ ?_
  · intro i; rw [hent, getElem?_updAt]
  · rw [hb]; exact hA.bfwd
  · rw [hi]; exact hA.idnodup
  · rw [hi, hia]; exact hA.idle
  · rw [hl]; simp
  · intro i e _ _
    by_cases hh : i = h
    · simp [hh]; exact hf e
    · simp [hh]; exact Benign.refl e
  · intro i e _ hr; simp at hr

/-- nothing that the invariant reads changes, except that the queues are permuted -/
theorem InvA.same {s s' : State} (hA : InvA s)
    (hent : s'.entries = s.entries)
    (hl : (locs s).Perm (locs s')) (hi : ids s' = ids s) (hia : s'.idAlloc = s.idAlloc)
    (hc : s'.closed = s.closed) (hn : s'.nfwd = s.nfwd) (hb : s'.built = s.built) : InvA s' := by
  refine hA.general (fun _ e => e) [] ?_ hc hn ?_ ?_ ?_ ?_ ?_ ?_
  · intro i; rw [hent]; simp
  · rw [hb]; exact hA.bfwd
  · rw [hi]; exact hA.idnodup
  · rw [hi, hia]; exact hA.idle
  · simpa using hl
  · intro i e _ _; exact Benign.refl e
  · intro i e _ hr; simp at hr

theorem abandon_ret (e : Entry) (err : Err) : (e.abandon err).ret ≠ none := by
  unfold Entry.abandon; split <;> simp_all

theorem InvA.closeAll {s : State} (hA : InvA s) : InvA (closeAll s) := by
  have h1 : InvA { s with entries := s.entries.mapIdx fun _ e => e.abandon .closed } := by
    refine hA.general (fun _ e => e.abandon .closed) [] ?_ rfl rfl hA.bfwd hA.idnodup hA.idle (by simp [locs]) ?_ ?_
    · intro i; simp [List.getElem?_mapIdx]
    · intro i e _ _; exact Benign.abandon e _
    · intro i e _ hr; simp at hr
  refine ⟨h1.idnodup, h1.idle, h1.nodup, h1.fresh, h1.eok, h1.nodrop, ?_, h1.efwd, h1.bfwd⟩
  intro _ i e he
  simp [CGV.BatchMux.closeAll, List.getElem?_mapIdx] at he
  obtain ⟨e0, _, rfl⟩ := he
  exact abandon_ret e0 _

theorem get_snoc {es : List Entry} {x e : Entry} {i : Nat} (h : (es ++ [x])[i]? = some e) :
    es[i]? = some e ∨ (i = es.length ∧ e = x) := by
  rw [List.getElem?_append] at h
  split at h
  · exact Or.inl h
  · rename_i hlt
    have : i - es.length = 0 := by
      cases hh : i - es.length with
      | zero => rfl
      | succ n => simp [hh] at h
    simp [this] at h
    exact Or.inr ⟨by omega, h.symm⟩

theorem InvA.submit {s : State} (hA : InvA s) (p pri fwd : Nat) : InvA (submit s p pri fwd) := by
  have hlt : ∀ i ∈ locs s, i < s.entries.length := by
    intro i hi
    obtain ⟨e, he, _⟩ := hA.fresh i hi
    exact (List.getElem?_eq_some_iff.mp he).1
  have hfw : (if fwd ≤ s.nfwd then fwd else 0) ≤ s.nfwd := by split <;> omega
  unfold CGV.BatchMux.submit
  simp only
  split
  · -- closed: the caller returns at once, nothing is enqueued
    rename_i hc
    refine ⟨hA.idnodup, hA.idle, hA.nodup, ?_, ?_, ?_, ?_, ?_, hA.bfwd⟩
    · intro i hi
      obtain ⟨e, he, hf⟩ := hA.fresh i hi
      exact ⟨e, by rw [List.getElem?_append_left (hlt i hi)]; exact he, hf⟩
    · intro i e he
      rcases get_snoc he with h | ⟨_, rfl⟩
      · exact hA.eok i e h
      · constructor <;> simp
    · intro i e he
      rcases get_snoc he with h | ⟨_, rfl⟩
      · exact hA.nodrop i e h
      · simp
    · intro _ i e he
      rcases get_snoc he with h | ⟨_, rfl⟩
      · exact hA.closed_ret hc i e h
      · simp
    · intro i e he
      rcases get_snoc he with h | ⟨_, rfl⟩
      · exact hA.efwd i e h
      · exact hfw
  · rename_i hc
    refine ⟨hA.idnodup, hA.idle, ?_, ?_, ?_, ?_, ?_, ?_, hA.bfwd⟩
    · have : (locs { s with entries := s.entries ++ [{ payload := p, pri := pri, fwd := (if fwd ≤ s.nfwd then fwd else 0) }],
                              ch := s.ch ++ [s.entries.length] }).Perm (s.entries.length :: locs s) := by
        apply List.perm_iff_count.mpr; intro a
        simp only [locs, List.count_append, List.count_cons, List.count_nil]; omega
      refine (this.nodup_iff).mpr ?_
      refine List.nodup_cons.mpr ⟨?_, hA.nodup⟩
      intro hm; exact absurd (hlt _ hm) (Nat.lt_irrefl _)
    · intro i hi
      have : i = s.entries.length ∨ i ∈ locs s := by
        simp only [locs, List.mem_append, List.mem_singleton] at hi ⊢; grind
      rcases this with rfl | hi
      · exact ⟨{ payload := p, pri := pri, fwd := (if fwd ≤ s.nfwd then fwd else 0) }, by simp, rfl⟩
      · obtain ⟨e, he, hf⟩ := hA.fresh i hi
        exact ⟨e, by rw [List.getElem?_append_left (hlt i hi)]; exact he, hf⟩
    · intro i e he
      rcases get_snoc he with h | ⟨_, rfl⟩
      · exact hA.eok i e h
      · constructor <;> simp
    · intro i e he
      rcases get_snoc he with h | ⟨rfl, rfl⟩
      · rcases hA.nodrop i e h with h | h | h
        · exact Or.inl h
        · exact Or.inr (Or.inl h)
        · refine Or.inr (Or.inr ?_); simp only [locs, List.mem_append] at h ⊢; grind
      · refine Or.inr (Or.inr ?_); simp [locs]
    · intro hcl; exact absurd hcl hc
    · intro i e he
      rcases get_snoc he with h | ⟨_, rfl⟩
      · exact hA.efwd i e h
      · exact hfw

theorem InvA.fetch {s : State} (hA : InvA s) (max : Nat) : InvA (fetch s max) := by
  unfold CGV.BatchMux.fetch
  split
  · exact hA
  · rename_i x rest hch
    generalize hr : fetchLoop (priOf s.entries) max rest.length rest (heapPush (priOf s.entries) s.heap x) = r
    obtain ⟨ch', hp'⟩ := r
    have h1 := fetchLoop_perm _ _ _ _ _ _ _ hr
    have h2 := heapPush_perm (priOf s.entries) s.heap x
    refine hA.same rfl ?_ rfl rfl rfl rfl rfl
    apply List.perm_iff_count.mpr; intro a
    have c1 := h1.count_eq a
    have c2 := h2.count_eq a
    simp only [locs, hch, List.count_append, List.count_cons] at c1 c2 ⊢
    omega

theorem isCanceled_spec {es : List Entry} {i : Nat} (h : isCanceled es i = true) :
    ∃ e, es[i]? = some e ∧ e.canceled = true := by
  unfold isCanceled at h
  split at h
  · rename_i e he; exact ⟨e, he, h⟩
  · cases h

theorem InvA.breset {s : State} (hA : InvA s) :
    InvA { s with heap := cleanLoop (priOf s.entries) (isCanceled s.entries) (s.heap.length + 1) 0 s.heap } := by
  obtain ⟨rm, hp, hc⟩ := cleanLoop_spec (priOf s.entries) (isCanceled s.entries) (s.heap.length + 1) 0 s.heap
  refine hA.general (fun _ e => e) rm ?_ rfl rfl hA.bfwd hA.idnodup hA.idle ?_ ?_ ?_
  · intro i; simp
  · apply List.perm_iff_count.mpr; intro a
    have c1 := hp.count_eq a
    simp only [locs, List.count_append] at c1 ⊢
    omega
  · intro i e _ _; exact Benign.refl e
  · intro i e he hr
    obtain ⟨e', he', hcc⟩ := isCanceled_spec (hc i hr)
    rw [he] at he'; injection he' with he'; subst he'
    have ok := hA.eok i e he
    exact ⟨ok, rfl, Or.inl (ok.canc hcc), id⟩

theorem fail_done {e : Entry} (hf : e.chan = .fresh) (err : Err) : chanDone (e.fail err) := by
  right; exact ⟨err, by simp [Entry.fail, hf]⟩

theorem fail_ret (e : Entry) (err : Err) : (e.fail err).ret = e.ret := rfl
theorem fail_fwd (e : Entry) (err : Err) : (e.fail err).fwd = e.fwd := rfl

theorem InvA.failSlots {s : State} (hA : InvA s) (cid : Nat) (dead : Slot → Bool) (err : Err) :
    InvA (failSlots s cid dead err) := by
  let gone := s.table.filter fun sl => sl.cid = cid ∧ dead sl
  have hsplit := List.filter_append_perm (fun sl : Slot => decide (sl.cid = cid ∧ dead sl = true)) s.table
  refine hA.general (fun i e => if (gone.map (·.h)).contains i then e.fail err else e) (gone.map (·.h)) ?_ rfl rfl hA.bfwd ?_ ?_ ?_ ?_ ?_
  · intro i
    show (updIn s.entries _ _)[i]? = _
    rw [getElem?_updIn]
  · -- ids: a sublist
    have : (ids (CGV.BatchMux.failSlots s cid dead err)).Sublist (ids s) := by
      simp only [ids, CGV.BatchMux.failSlots]
      exact List.Sublist.append (List.Sublist.refl _) (List.Sublist.map _ List.filter_sublist)
    exact this.nodup hA.idnodup
  · intro id hid
    have : id ∈ ids s := by
      simp only [ids, CGV.BatchMux.failSlots, List.mem_append, List.mem_map, List.mem_filter] at hid ⊢
      rcases hid with h | ⟨sl, ⟨h1, _⟩, h2⟩
      · exact Or.inl h
      · exact Or.inr ⟨sl, h1, h2⟩
    exact hA.idle id this
  · apply List.perm_iff_count.mpr; intro a
    have c1 := (hsplit.map (·.h)).count_eq a
    simp only [locs, CGV.BatchMux.failSlots, List.count_append, List.map_append, gone] at c1 ⊢
    simp only [decide_not] at c1 ⊢
    omega
  · intro i e _ hr
    have : (gone.map (·.h)).contains i = false := by simpa using hr
    simp only [this]; exact Benign.refl e
  · intro i e he hr
    have hc : (gone.map (·.h)).contains i = true := by simpa using hr
    have hloc : i ∈ locs s := by
      simp only [gone, List.mem_map, List.mem_filter] at hr
      obtain ⟨sl, ⟨h1, _⟩, rfl⟩ := hr
      simp only [locs, List.mem_append, List.mem_map]
      exact Or.inr ⟨sl, h1, rfl⟩
    obtain ⟨e', he', hf⟩ := hA.fresh i hloc
    rw [he] at he'; injection he' with he'; subst he'
    simp only [hc, if_true]
    exact ⟨(hA.eok i e he).fail hf err, rfl, Or.inr (fail_done hf err), id⟩

theorem filter_unique : ∀ (t : List Slot), (t.map (·.id)).Nodup → ∀ (sl : Slot), sl ∈ t → ∀ cid, sl.cid = cid →
    t.Perm (sl :: t.filter (fun x => ¬(x.cid = cid ∧ x.id = sl.id)))
  | [], _, sl, hm, _, _ => by simp at hm
  | a :: t', hn, sl, hm, cid, hc => by
    simp only [List.map_cons, List.nodup_cons] at hn
    rcases List.mem_cons.mp hm with rfl | hm'
    · have : t'.filter (fun x => ¬(x.cid = cid ∧ x.id = sl.id)) = t' := by
        apply List.filter_eq_self.mpr
        intro x hx
        have : x.id ≠ sl.id := fun h => hn.1 (List.mem_map.mpr ⟨x, hx, h⟩)
        simp [this]
      rw [List.filter_cons]
      have hd : decide (¬(sl.cid = cid ∧ sl.id = sl.id)) = false := by simp [hc]
      rw [hd]; simp only [Bool.false_eq_true, if_false]
      rw [this]
    · have hne : a.id ≠ sl.id := fun h => hn.1 (List.mem_map.mpr ⟨sl, hm', h.symm⟩)
      have ih := filter_unique t' hn.2 sl hm' cid hc
      simp only [List.filter_cons, hne, and_false, not_false_eq_true, decide_true, if_true]
      exact (Perm.cons a ih).trans (Perm.swap sl a _)

theorem findSlot_spec {t : List Slot} {cid id : Nat} {sl : Slot} (h : findSlot t cid id = some sl) :
    sl ∈ t ∧ sl.cid = cid ∧ sl.id = id := by
  unfold findSlot at h
  have h1 := List.mem_of_find?_eq_some h
  have h2 := List.find?_some h
  simp at h2
  exact ⟨h1, h2.1, h2.2⟩

theorem respond_done {e : Entry} (hf : e.chan = .fresh) (id p : Nat) : chanDone (e.respond id p) := by
  left; exact ⟨p, by simp [Entry.respond, hf]⟩

theorem InvA.recv1 {s : State} (hA : InvA s) (cid : Nat) (r : Nat × Nat) : InvA (recv1 cid s r) := by
  unfold CGV.BatchMux.recv1
  simp only
  split
  · exact hA.same rfl (Perm.refl _) rfl rfl rfl rfl rfl
  · rename_i sl hfind
    obtain ⟨hm, hc, hid⟩ := findSlot_spec hfind
    have htn : (s.table.map (·.id)).Nodup := (List.nodup_append.mp hA.idnodup).2.1
    have hperm := filter_unique s.table htn sl hm cid hc
    rw [hid] at hperm
    have hloc : sl.h ∈ locs s := by
      simp only [locs, List.mem_append, List.mem_map]; exact Or.inr ⟨sl, hm, rfl⟩
    obtain ⟨e0, he0, hf0⟩ := hA.fresh sl.h hloc
    refine hA.general (fun i e => if isCanceled s.entries sl.h then e else if i = sl.h then e.respond r.1 r.2 else e)
      [sl.h] ?_ rfl rfl hA.bfwd ?_ ?_ ?_ ?_ ?_
    · intro i
      show (if isCanceled s.entries sl.h = true then s.entries else updAt s.entries sl.h _)[i]? = _
      split
      · simp
      · rw [getElem?_updAt]
    · have : (ids { s with respLog := r :: s.respLog, table := s.table.filter (fun x => ¬(x.cid = cid ∧ x.id = r.1)) }).Sublist (ids s) := by
        simp only [ids]
        exact List.Sublist.append (List.Sublist.refl _) (List.Sublist.map _ List.filter_sublist)
      exact this.nodup hA.idnodup
    · intro id hid'
      have : id ∈ ids s := by
        simp only [ids, List.mem_append, List.mem_map, List.mem_filter] at hid' ⊢
        rcases hid' with h | ⟨x, ⟨h1, _⟩, h2⟩
        · exact Or.inl h
        · exact Or.inr ⟨x, h1, h2⟩
      exact hA.idle id this
    · apply List.perm_iff_count.mpr; intro a
      have c1 := (hperm.map (·.h)).count_eq a
      simp only [locs, List.count_append, List.map_cons, List.count_cons, List.count_nil] at c1 ⊢
      omega
    · intro i e _ hr
      have : i ≠ sl.h := by simpa using hr
      simp only [this, if_false]
      split <;> exact Benign.refl e
    · intro i e he hr
      have hi : i = sl.h := by simpa using hr
      subst hi
      rw [he0] at he; injection he with he; subst he
      split
      · rename_i hcanc
        obtain ⟨e', he', hcc⟩ := isCanceled_spec hcanc
        rw [he0] at he'; injection he' with he'; subst he'
        have ok := hA.eok _ _ he0
        exact ⟨ok, rfl, Or.inl (ok.canc hcc), id⟩
      · simp only [if_true]
        exact ⟨(hA.eok _ _ he0).respond hf0 _ _, rfl, Or.inr (respond_done hf0 _ _), id⟩

theorem InvA.recvFold (cid : Nat) : ∀ (rs : List (Nat × Nat)) {s : State}, InvA s → InvA (rs.foldl (CGV.BatchMux.recv1 cid) s)
  | [], _, hA => hA
  | r :: rest, _, hA => InvA.recvFold cid rest (hA.recv1 cid r)

theorem InvA.recv {s : State} (hA : InvA s) (cid fwd : Nat) (rs : List (Nat × Nat)) : InvA (recv s cid fwd rs) := by
  unfold CGV.BatchMux.recv
  split
  · exact hA
  · split
    · exact hA
    · exact InvA.recvFold cid rs hA

theorem InvA.kill {s : State} (hA : InvA s) (cid fwd : Nat) : InvA (kill s cid fwd) := by
  unfold CGV.BatchMux.kill
  split
  · exact hA
  · split
    · exact hA
    · split
      · have h1 := hA.failSlots cid (fun sl => sl.fwd = fwd) .stream
        exact h1.same rfl (Perm.refl _) rfl rfl rfl rfl rfl
      · exact hA.same rfl (Perm.refl _) rfl rfl rfl rfl rfl

end CGV.BatchMux
