/-
  Helper lemmas for C09: the byte-string order, the ordered index, coverage chains.
-/
import ClientGoVerif.Model.Region
namespace CGV.Region
open CGV

/-! ## `Bytes.cmp` is a total order -/

theorem u8_lt_irrefl (a : UInt8) : ¬ a < a := by
  simp

theorem u8_eq_of_not_lt {a b : UInt8} (h1 : ¬ a < b) (h2 : ¬ b < a) : a = b := by
  apply UInt8.le_antisymm
  · exact UInt8.not_lt.mp h2
  · exact UInt8.not_lt.mp h1

theorem cmp_refl (a : Bytes) : Bytes.cmp a a = .eq := by
  induction a with
  | nil => rfl
  | cons x xs ih => simp [Bytes.cmp, ih]

theorem cmp_eq_iff {a b : Bytes} : Bytes.cmp a b = .eq ↔ a = b := by
  constructor
  · intro h
    induction a generalizing b with
    | nil => cases b <;> simp_all [Bytes.cmp]
    | cons x xs ih =>
      cases b with
      | nil => simp [Bytes.cmp] at h
      | cons y ys =>
        simp only [Bytes.cmp] at h
        split at h
        · cases h
        · split at h
          · cases h
          · rename_i h1 h2
            have := u8_eq_of_not_lt h1 h2
            subst this
            rw [ih h]
  · intro h; subst h; exact cmp_refl a

theorem cmp_swap (a b : Bytes) : Bytes.cmp b a = (Bytes.cmp a b).swap := by
  induction a generalizing b with
  | nil => cases b <;> rfl
  | cons x xs ih =>
    cases b with
    | nil => rfl
    | cons y ys =>
      simp only [Bytes.cmp]
      by_cases h1 : x < y
      · have h2 : ¬ y < x := fun h => u8_lt_irrefl x (UInt8.lt_trans h1 h)
        simp [h1, h2]
      · by_cases h2 : y < x
        · simp [h1, h2]
        · simp [h1, h2, ih]

theorem lt_irrefl (a : Bytes) : Bytes.lt a a = false := by
  simp [Bytes.lt, cmp_refl]

theorem le_refl (a : Bytes) : Bytes.le a a = true := by
  simp [Bytes.le, cmp_refl]

theorem le_iff_not_lt (a b : Bytes) : Bytes.le a b = !(Bytes.lt b a) := by
  simp only [Bytes.le, Bytes.lt, cmp_swap a b]
  cases Bytes.cmp a b <;> rfl

theorem cmp_lt_trans {a b c : Bytes} (h1 : Bytes.cmp a b = .lt) (h2 : Bytes.cmp b c = .lt) : Bytes.cmp a c = .lt := by
  induction a generalizing b c with
  | nil =>
    cases b with
    | nil => simp [Bytes.cmp] at h1
    | cons y ys => cases c <;> simp_all [Bytes.cmp]
  | cons x xs ih =>
    cases b with
    | nil => simp [Bytes.cmp] at h1
    | cons y ys =>
      cases c with
      | nil => simp [Bytes.cmp] at h2
      | cons z zs =>
        simp only [Bytes.cmp] at h1 h2 ⊢
        by_cases hxy : x < y
        · by_cases hyz : y < z
          · simp [UInt8.lt_trans hxy hyz]
          · by_cases hzy : z < y
            · simp [hyz, hzy] at h2
            · have := u8_eq_of_not_lt hyz hzy
              subst this
              simp [hxy]
        · by_cases hyx : y < x
          · simp [hxy, hyx] at h1
          · have := u8_eq_of_not_lt hxy hyx
            subst this
            simp only [hxy, if_false] at h1
            by_cases hyz : x < z
            · simp [hyz]
            · by_cases hzy : z < x
              · simp [hyz, hzy] at h2
              · simp only [hyz, hzy, if_false] at h2 ⊢
                exact ih h1 h2

theorem lt_trans {a b c : Bytes} (h1 : Bytes.lt a b = true) (h2 : Bytes.lt b c = true) : Bytes.lt a c = true := by
  simp only [Bytes.lt, beq_iff_eq] at *
  exact cmp_lt_trans h1 h2

theorem lt_of_le_of_lt {a b c : Bytes} (h1 : Bytes.le a b = true) (h2 : Bytes.lt b c = true) : Bytes.lt a c = true := by
  by_cases hab : a = b
  · subst hab; exact h2
  · have : Bytes.lt a b = true := by
      simp only [Bytes.le, Bytes.lt, bne_iff_ne, ne_eq, beq_iff_eq] at *
      cases h : Bytes.cmp a b with
      | lt => rfl
      | eq => exact absurd (cmp_eq_iff.mp h) hab
      | gt => exact absurd h h1
    exact lt_trans this h2

theorem lt_of_lt_of_le {a b c : Bytes} (h1 : Bytes.lt a b = true) (h2 : Bytes.le b c = true) : Bytes.lt a c = true := by
  by_cases hbc : b = c
  · subst hbc; exact h1
  · have : Bytes.lt b c = true := by
      simp only [Bytes.le, Bytes.lt, bne_iff_ne, ne_eq, beq_iff_eq] at *
      cases h : Bytes.cmp b c with
      | lt => rfl
      | eq => exact absurd (cmp_eq_iff.mp h) hbc
      | gt => exact absurd h h2
    exact lt_trans h1 this

theorem le_trans {a b c : Bytes} (h1 : Bytes.le a b = true) (h2 : Bytes.le b c = true) : Bytes.le a c = true := by
  rw [le_iff_not_lt] at *
  cases h : Bytes.lt c a with
  | false => rfl
  | true =>
    have := lt_of_lt_of_le h (by rw [le_iff_not_lt]; exact h1)
    have h3 : Bytes.lt c b = true := this
    simp [h3] at h2

theorem le_of_lt {a b : Bytes} (h : Bytes.lt a b = true) : Bytes.le a b = true := by
  rw [le_iff_not_lt]
  cases h' : Bytes.lt b a with
  | false => rfl
  | true => have := lt_trans h h'; rw [lt_irrefl] at this; cases this

theorem le_total (a b : Bytes) : Bytes.le a b = true ∨ Bytes.lt b a = true := by
  rw [le_iff_not_lt]; cases Bytes.lt b a <;> simp

theorem nil_le (a : Bytes) : Bytes.le [] a = true := by
  cases a <;> simp [Bytes.le, Bytes.cmp]

theorem not_lt_nil (a : Bytes) : Bytes.lt a [] = false := by
  cases a <;> simp [Bytes.lt, Bytes.cmp]

end CGV.Region

namespace CGV.Region
open CGV

/-! ## regions -/

/-- well-formed region: start < end (in particular the end is not the empty string) -/
def Region.wf (r : Region) : Prop :=
  match r.end_ with
  | none => True
  | some e => Bytes.lt r.start e = true

/-- the specification-level meaning of "the region contains the key" -/
def Region.Has (r : Region) (k : Bytes) : Prop :=
  Bytes.le r.start k = true ∧ (match r.end_ with | none => True | some e => Bytes.lt k e = true)

theorem Region.contains_iff_has {r : Region} (h : r.wf) (k : Bytes) : r.contains k = true ↔ r.Has k := by
  unfold Region.contains Region.Has Region.endKey
  unfold Region.wf at h
  cases he : r.end_ with
  | none => simp
  | some e =>
    simp only [he] at h
    have : e ≠ [] := by
      intro h0; subst h0; rw [not_lt_nil] at h; cases h
    cases e with
    | nil => exact absurd rfl this
    | cons x xs => simp

/-! ## the ordered index -/

theorem lastLE_mem {p : Entry → Bool} {s : List Entry} {acc : Option Entry} {e : Entry}
    (h : lastLE p s acc = some e) : e ∈ s ∨ acc = some e := by
  induction s generalizing acc with
  | nil => right; simpa [lastLE] using h
  | cons x xs ih =>
    simp only [lastLE] at h
    split at h
    · rcases ih h with h1 | h1
      · left; exact List.mem_cons_of_mem _ h1
      · left; cases h1; exact List.mem_cons_self ..
    · rcases ih h with h1 | h1
      · left; exact List.mem_cons_of_mem _ h1
      · right; exact h1

theorem searchByKey_spec {s : List Entry} {key : Bytes} {isEnd : Bool} {e : Entry}
    (h : searchByKey s key isEnd = some e) : e ∈ s ∧ inRegion isEnd e.r key = true := by
  unfold searchByKey at h
  split at h
  · cases h
  · rename_i e' he'
    by_cases hc : inRegion isEnd e'.r key = true
    · simp only [hc, if_true, Option.some.injEq] at h
      subst h
      refine ⟨?_, hc⟩
      rcases lastLE_mem he' with h1 | h1
      · exact h1
      · cases h1
    · simp [hc] at h

/-! ## PD answers -/

theorem toEntry_r (p : PdRegion) : p.toEntry.r = p.r := rfl

theorem loadRegion_contains {pd : PD} {key : Bytes} {e : Entry}
    (h : loadRegion pd key false = .ok e) : e.r.contains key = true := by
  unfold loadRegion at h
  split at h
  · cases h
  · rename_i reg hreg
    simp only [Bool.false_and, Bool.false_eq_true, if_false] at h
    cases h
    have := List.find?_some hreg
    simpa [toEntry_r] using this

theorem loadRegion_containsByEnd {pd : PD} (hwf : ∀ p ∈ pd, p.r.wf) {key : Bytes} (hk : key ≠ []) {e : Entry}
    (h : loadRegion pd key true = .ok e) : e.r.containsByEnd key = true := by
  unfold loadRegion at h
  split at h
  · cases h
  · rename_i reg hreg
    have hc : reg.r.contains key = true := by simpa using List.find?_some hreg
    have hkne : key.isEmpty = false := by cases key <;> simp_all
    split at h
    · rename_i hcond
      split at h
      · cases h
      · rename_i p hp
        cases h
        -- p is the region whose end is the start of `reg`, and reg.start = key
        simp only [Bool.true_and, Bool.and_eq_true, beq_iff_eq, Bool.not_eq_eq_eq_not, Bool.not_true] at hcond
        obtain ⟨hs, _⟩ := hcond
        unfold PD.getPrevRegion at hp
        rw [hreg] at hp
        simp only at hp
        split at hp
        · cases hp
        · have hp' := List.find?_some hp
          have hmem := List.mem_of_find?_eq_some hp
          simp only [beq_iff_eq] at hp'
          have hpe : p.r.endKey = key := by rw [hp', hs]
          have hwfp := hwf p hmem
          unfold Region.wf at hwfp
          unfold Region.endKey at hpe
          simp only [toEntry_r, Region.containsByEnd, hkne, Bool.false_eq_true, if_false]
          cases hend : p.r.end_ with
          | none => simp [hend] at hpe; subst hpe; simp at hkne
          | some e' =>
            simp only [hend] at hpe hwfp
            subst hpe
            simp [Region.endKey, hend, hwfp, le_refl]
    · rename_i hcond
      cases h
      simp only [toEntry_r, Region.containsByEnd, hkne, Bool.false_eq_true, if_false]
      unfold Region.contains at hc
      simp only [Bool.and_eq_true, Bool.or_eq_true] at hc
      obtain ⟨h1, h2⟩ := hc
      have hne : reg.r.start ≠ key := by
        intro heq
        apply hcond
        simp [heq, hkne]
      have hlt : Bytes.lt reg.r.start key = true := by
        simp only [Bytes.le, Bytes.lt, bne_iff_ne, ne_eq, beq_iff_eq] at *
        cases hh : Bytes.cmp reg.r.start key with
        | lt => rfl
        | eq => exact absurd (cmp_eq_iff.mp hh) hne
        | gt => exact absurd hh h1
      simp only [hlt, Bool.true_and, Bool.or_eq_true]
      rcases h2 with h2 | h2
      · left; exact le_of_lt h2
      · right; exact h2

theorem loadRegionByID_id {pd : PD} {id : Nat} {e : Entry} (h : loadRegionByID pd id = .ok e) : e.r.id = id := by
  unfold loadRegionByID at h
  split at h
  · cases h
  · rename_i p hp
    cases h
    have := List.find?_some hp
    simpa [PD.getRegionByID, toEntry_r] using this

end CGV.Region

namespace CGV.Region
open CGV

/-! ## findRegionByKey -/

theorem loadAndInsert_spec {pd : PD} {key : Bytes} {isEnd : Bool} {c c' : Cache} {e : Entry}
    (hload : ∀ e, loadRegion pd key isEnd = .ok e → inRegion isEnd e.r key = true)
    (h : findRegionByKey.loadAndInsert pd key isEnd c = (c', .ok e)) : inRegion isEnd e.r key = true := by
  unfold findRegionByKey.loadAndInsert at h
  repeat' (split at h)
  all_goals
    injection h with _ h2
    first
      | (injection h2 with h3; subst h3; apply hload; assumption)
      | (injection h2 with h3; subst h3; apply hload; simp_all)
      | (injection h2)

theorem findRegionByKey_spec {pd : PD} {key : Bytes} {isEnd : Bool} {c c' : Cache} {e : Entry}
    (hload : ∀ e, loadRegion pd key isEnd = .ok e → inRegion isEnd e.r key = true)
    (h : findRegionByKey c pd key isEnd = (c', .ok e)) : inRegion isEnd e.r key = true := by
  unfold findRegionByKey at h
  split at h
  · rename_i e0 he0
    have hs := (searchByKey_spec he0).2
    split at h
    · exact loadAndInsert_spec hload h
    · repeat' (split at h)
      all_goals
        injection h with _ h2
        first
          | (injection h2 with h3; subst h3; first | exact hs | (apply hload; assumption))
          | (injection h2)
  · exact loadAndInsert_spec hload h

end CGV.Region

namespace CGV.Region
open CGV

/-! ## insertRegionToCache -/

theorem mem_insertSorted_of_mem {n e : Entry} {xs : List Entry} (he : e ∈ xs) (hne : e.r.start ≠ n.r.start) :
    e ∈ insertSorted n xs := by
  induction xs with
  | nil => cases he
  | cons x xs ih =>
    simp only [insertSorted]
    split
    · exact List.mem_cons_of_mem _ he
    · split
      · rename_i heq
        simp only [beq_iff_eq] at heq
        rcases List.mem_cons.mp he with h | h
        · subst h; exact absurd heq.symm hne
        · exact List.mem_cons_of_mem _ h
      · rcases List.mem_cons.mp he with h | h
        · subst h; exact List.mem_cons_self ..
        · exact List.mem_cons_of_mem _ (ih h)

theorem mem_insertSorted {n y : Entry} {xs : List Entry} (h : y ∈ insertSorted n xs) : y = n ∨ y ∈ xs := by
  induction xs with
  | nil => simp [insertSorted] at h; left; exact h
  | cons x xs ih =>
    simp only [insertSorted] at h
    split at h
    · rcases List.mem_cons.mp h with h | h
      · left; exact h
      · right; exact h
    · split at h
      · rcases List.mem_cons.mp h with h | h
        · left; exact h
        · right; exact List.mem_cons_of_mem _ h
      · rcases List.mem_cons.mp h with h | h
        · right; subst h; exact List.mem_cons_self ..
        · rcases ih h with h | h
          · left; exact h
          · right; exact List.mem_cons_of_mem _ h

theorem self_mem_insertSorted (n : Entry) (xs : List Entry) : n ∈ insertSorted n xs := by
  induction xs with
  | nil => simp [insertSorted]
  | cons x xs ih =>
    simp only [insertSorted]
    split
    · exact List.mem_cons_self ..
    · split
      · exact List.mem_cons_self ..
      · exact List.mem_cons_of_mem _ ih

/-- strictly ascending start keys -/
def Sorted (s : List Entry) : Prop := s.Pairwise (fun a b => Bytes.lt a.r.start b.r.start = true)

theorem sorted_insertSorted {n : Entry} {xs : List Entry} (h : Sorted xs) : Sorted (insertSorted n xs) := by
  unfold Sorted at *
  induction xs with
  | nil => simp [insertSorted]
  | cons x xs ih =>
    rw [List.pairwise_cons] at h
    simp only [insertSorted]
    split
    · rename_i hlt
      rw [List.pairwise_cons]
      refine ⟨?_, List.pairwise_cons.mpr h⟩
      intro y hy
      rcases List.mem_cons.mp hy with hy | hy
      · subst hy; exact hlt
      · exact lt_trans hlt (h.1 y hy)
    · split
      · rename_i heq
        simp only [beq_iff_eq] at heq
        rw [List.pairwise_cons]
        refine ⟨?_, h.2⟩
        intro y hy
        rw [heq]; exact h.1 y hy
      · rename_i hnlt hneq
        simp only [beq_iff_eq] at hneq
        have hxn : Bytes.lt x.r.start n.r.start = true := by
          rcases le_total n.r.start x.r.start with hle | hlt
          · -- n.start <= x.start, not <, hence equal: contradiction
            simp only [Bytes.le, Bytes.lt, bne_iff_ne, ne_eq, beq_iff_eq] at hle hnlt
            cases hc : Bytes.cmp n.r.start x.r.start with
            | lt => exact absurd hc hnlt
            | eq => exact absurd (cmp_eq_iff.mp hc) hneq
            | gt => exact absurd hc hle
          · exact hlt
        rw [List.pairwise_cons]
        refine ⟨?_, ih h.2⟩
        intro y hy
        rcases mem_insertSorted hy with hy | hy
        · subst hy; exact hxn
        · exact h.1 y hy

theorem insert_stale_latest {c : Cache} {n : Entry} {old : VerID} (h : latestGet c.latest n.r.id = some old)
    (ho : old.ver > n.r.ver ∨ old.confVer > n.r.confVer) : insertRegionToCache c n = (c, false) := by
  have : staleByLatest c.latest n.r = true := by
    unfold staleByLatest
    rw [h]
    rcases ho with ho | ho <;> simp [ho]
  simp [insertRegionToCache, this]

theorem insert_stale_inside {c : Cache} {n e : Entry} (he : e ∈ c.sorted) (hin : inRangeStart n.r e = true)
    (hv : e.r.ver > n.r.ver) : insertRegionToCache c n = (c, false) := by
  unfold insertRegionToCache
  by_cases hs : staleByLatest c.latest n.r = true
  · simp [hs]
  · have hany : (c.sorted.any fun e => inRangeStart n.r e && decide (e.r.ver > n.r.ver)) = true := by
      rw [List.any_eq_true]
      exact ⟨e, he, by simp [hin, hv]⟩
    simp [hs, removeIntersecting, hany]

theorem insert_spec {c c' : Cache} {n : Entry} {ok : Bool} (h : insertRegionToCache c n = (c', ok)) :
    (ok = false ∧ c' = c) ∨
    (ok = true ∧ c'.sorted = insertSorted n (c.sorted.filter (fun e => !inRangeStart n.r e)) ∧
      ∀ e ∈ c.sorted, inRangeStart n.r e = true → e.r.ver ≤ n.r.ver) := by
  unfold insertRegionToCache at h
  by_cases hs : staleByLatest c.latest n.r = true
  · simp only [hs, if_true, Prod.mk.injEq] at h
    left; exact ⟨h.2.symm, h.1.symm⟩
  · simp only [hs, Bool.false_eq_true, if_false] at h
    unfold removeIntersecting at h
    by_cases hany : (c.sorted.any fun e => inRangeStart n.r e && decide (e.r.ver > n.r.ver)) = true
    · simp only [hany, if_true, Prod.mk.injEq] at h
      left; exact ⟨h.2.symm, h.1.symm⟩
    · simp only [hany, Bool.false_eq_true, if_false, Prod.mk.injEq] at h
      right
      obtain ⟨h1, h2⟩ := h
      refine ⟨h2.symm, by rw [← h1], ?_⟩
      intro e he hin
      rw [Bool.not_eq_true, List.any_eq_false] at hany
      have := hany e he
      simp only [hin, Bool.true_and, decide_eq_true_eq] at this
      omega

theorem insert_sorted {c c' : Cache} {n : Entry} {ok : Bool} (h : insertRegionToCache c n = (c', ok))
    (hs : Sorted c.sorted) : Sorted c'.sorted := by
  rcases insert_spec h with ⟨_, rfl⟩ | ⟨_, heq, _⟩
  · exact hs
  · rw [heq]; exact sorted_insertSorted (List.Pairwise.filter _ hs)

end CGV.Region

namespace CGV.Region
open CGV

/-! ## coverage -/

/-- `k` lies below the raw end key `e` (empty = +∞) -/
def InR (e k : Bytes) : Prop := e = [] ∨ Bytes.lt k e = true

/-- every key of [s, e) is contained in some location -/
def Covers (ls : List Region) (s e : Bytes) : Prop :=
  ∀ k, Bytes.le s k = true → InR e k → ∃ l ∈ ls, l.contains k = true

/-- every key of [s0, e) below `cur` is contained in some location -/
def CovUpTo (ls : List Region) (s0 e cur : Bytes) : Prop :=
  ∀ k, Bytes.le s0 k = true → Bytes.lt k cur = true → InR e k → ∃ l ∈ ls, l.contains k = true

theorem covUpTo_init (s0 e : Bytes) : CovUpTo [] s0 e s0 := by
  intro k h1 h2 _
  rw [le_iff_not_lt, h2] at h1; cases h1

theorem CovUpTo.mono {ls ls' : List Region} {s0 e cur : Bytes} (h : CovUpTo ls s0 e cur) (hs : ∀ l ∈ ls, l ∈ ls') :
    CovUpTo ls' s0 e cur := by
  intro k h1 h2 h3
  obtain ⟨l, hl, hc⟩ := h k h1 h2 h3
  exact ⟨l, hs l hl, hc⟩

theorem contains_of_le {r : Region} {cur k : Bytes} (hc : r.contains cur = true) (hk : Bytes.le cur k = true)
    (hend : r.endKey = [] ∨ Bytes.lt k r.endKey = true) : r.contains k = true := by
  unfold Region.contains at *
  simp only [Bool.and_eq_true, Bool.or_eq_true] at *
  refine ⟨le_trans hc.1 hk, ?_⟩
  rcases hend with h | h
  · right; simp [h]
  · left; exact h

theorem covUpTo_step {ls : List Region} {s0 e cur : Bytes} {r : Region} (h : CovUpTo ls s0 e cur)
    (hc : r.contains cur = true) : CovUpTo (r :: ls) s0 e r.endKey := by
  intro k h1 h2 h3
  rcases le_total cur k with hk | hk
  · exact ⟨r, List.mem_cons_self .., contains_of_le hc hk (Or.inr h2)⟩
  · obtain ⟨l, hl, hlc⟩ := h k h1 hk h3
    exact ⟨l, List.mem_cons_of_mem _ hl, hlc⟩

theorem below_end_of_containsByEnd {r : Region} {e k : Bytes} (hce : r.containsByEnd e = true) (hk : InR e k) :
    r.endKey = [] ∨ Bytes.lt k r.endKey = true := by
  unfold Region.containsByEnd at hce
  cases e with
  | nil =>
    simp only [List.isEmpty_nil, if_true] at hce
    left; simpa using hce
  | cons x xs =>
    simp only [List.isEmpty_cons, Bool.false_eq_true, if_false, Bool.and_eq_true, Bool.or_eq_true] at hce
    rcases hk with hk | hk
    · cases hk
    · rcases hce.2 with h | h
      · right; exact lt_of_lt_of_le hk h
      · left; simpa using h

theorem covers_done {ls : List Region} {s0 e cur : Bytes} {r : Region} (h : CovUpTo ls s0 e cur)
    (hc : r.contains cur = true) (hce : r.containsByEnd e = true) : Covers (r :: ls) s0 e := by
  intro k h1 h3
  rcases le_total cur k with hk | hk
  · exact ⟨r, List.mem_cons_self .., contains_of_le hc hk (below_end_of_containsByEnd hce h3)⟩
  · obtain ⟨l, hl, hlc⟩ := h k h1 hk h3
    exact ⟨l, List.mem_cons_of_mem _ hl, hlc⟩

theorem tryFind_contains {c : Cache} {k : Bytes} {e : Entry} (h : tryFindRegionByKey c k false = some e) :
    e.r.contains k = true := by
  unfold tryFindRegionByKey at h
  split at h
  · rename_i e0 he0
    split at h
    · cases h
    · cases h
      simpa [inRegion] using (searchByKey_spec he0).2
  · cases h

theorem cachedChain_spec {fuel : Nat} {c : Cache} {s e s0 : Bytes} {acc acc' : List Region} {done : Bool} {s' : Bytes}
    (h : cachedChain fuel c s e acc = (acc', done, s')) (hcov : CovUpTo acc s0 e s) :
    (done = true → Covers acc' s0 e) ∧ (done = false → CovUpTo acc' s0 e s') := by
  induction fuel generalizing s acc with
  | zero =>
    simp only [cachedChain, Prod.mk.injEq] at h
    obtain ⟨rfl, rfl, rfl⟩ := h
    exact ⟨(by intro h; cases h), fun _ => hcov⟩
  | succ n ih =>
    simp only [cachedChain] at h
    split at h
    · simp only [Prod.mk.injEq] at h
      obtain ⟨rfl, rfl, rfl⟩ := h
      exact ⟨(by intro h; cases h), fun _ => hcov⟩
    · rename_i en hen
      have hc := tryFind_contains hen
      split at h
      · rename_i hce
        simp only [Prod.mk.injEq] at h
        obtain ⟨rfl, rfl, rfl⟩ := h
        exact ⟨fun _ => covers_done hcov hc hce, (by intro h; cases h)⟩
      · exact ih h (covUpTo_step hcov hc)

/-! ## regionsHaveGapInRanges, single range -/

theorem gapLoop_single {limit n : Nat} {infos : List Region} {cur : KeyRange} {ck : Bytes}
    (h : gapLoop limit n infos cur [] ck = false) :
    ∀ k, Bytes.le ck k = true → Bytes.le cur.start k = true → InR cur.end_ k →
      (∃ l ∈ infos, l.contains k = true) ∨ (∀ l ∈ infos, l.endKey ≠ [] ∧ Bytes.le l.endKey k = true) := by
  induction infos generalizing ck with
  | nil => intro k _ _ _; right; intro l hl; cases hl
  | cons r rs ih =>
    intro k hck hstart hin
    simp only [gapLoop] at h
    split at h
    · cases h
    · rename_i hnlt
      have hrs : Bytes.le r.start ck = true := by rw [le_iff_not_lt]; simpa using hnlt
      have hrk : Bytes.le r.start k = true := le_trans hrs hck
      split at h
      · rename_i hunb
        left
        refine ⟨r, List.mem_cons_self .., ?_⟩
        unfold Region.contains
        simp [hrk, hunb]
      · rename_i hb
        -- bounded region: either k is below its end, or we go on
        rcases le_total r.endKey k with hge | hlt
        · by_cases hadv : (!cur.end_.isEmpty && Bytes.le cur.end_ r.endKey) = true
          · -- the range ends at or before the region's end: k < cur.end <= r.end <= k, impossible
            simp only [Bool.and_eq_true, Bool.not_eq_eq_eq_not, Bool.not_true] at hadv
            rcases hin with hin | hin
            · rw [hin] at hadv; simp at hadv
            · have := lt_of_lt_of_le (lt_of_lt_of_le hin hadv.2) hge
              rw [lt_irrefl] at this; cases this
          · have hadv' : gapLoop.advance r.endKey cur [] = some (cur, []) := by
              unfold gapLoop.advance
              simp only [hadv, Bool.false_eq_true, if_false]
            rw [hadv'] at h
            simp only at h
            have hck' : Bytes.le (if Bytes.lt r.endKey cur.start = true then cur.start else r.endKey) k = true := by
              split
              · exact hstart
              · exact hge
            rcases ih h k hck' hstart hin with ⟨l, hl, hlc⟩ | hall
            · left; exact ⟨l, List.mem_cons_of_mem _ hl, hlc⟩
            · right
              intro l hl
              rcases List.mem_cons.mp hl with rfl | hl
              · exact ⟨by intro h0; simp [h0] at hb, hge⟩
              · exact hall l hl
        · left
          refine ⟨r, List.mem_cons_self .., ?_⟩
          unfold Region.contains
          simp [hrk, hlt]

theorem batchLoad_single_spec {c c1 : Cache} {pd : PD} {kr : KeyRange} {limit : Nat} {batch : List Entry}
    (h : batchLoadRegionsWithKeyRanges c pd [kr] limit = (c1, .ok batch)) :
    gapLoop limit (batch.map (·.r)).length (batch.map (·.r)) kr [] kr.start = false := by
  unfold batchLoadRegionsWithKeyRanges at h
  simp only at h
  split at h
  · cases h
  · rename_i rs hrs
    simp only [Prod.mk.injEq, Except.ok.injEq] at h
    obtain ⟨_, rfl⟩ := h
    unfold batchScanRegions at hrs
    simp only at hrs
    split at hrs
    · cases hrs
    · split at hrs
      · cases hrs
      · rename_i hne hgap
        cases hrs
        simp only [List.map_map, Function.comp_def, toEntry_r] at *
        unfold regionsHaveGapInRanges at hgap
        simp only [Bool.not_eq_true] at hgap
        have hne' : (List.map (fun x => x.r) (pd.batchScanRegions [kr] limit)).isEmpty = false := by
          simpa using hne
        simpa [hne'] using hgap

end CGV.Region

namespace CGV.Region
open CGV

theorem Covers.reverse {ls : List Region} {s e : Bytes} (h : Covers ls s e) : Covers ls.reverse s e := by
  intro k h1 h2
  obtain ⟨l, hl, hc⟩ := h k h1 h2
  exact ⟨l, List.mem_reverse.mpr hl, hc⟩

theorem getLast?_mem {α} {l : List α} {x : α} (h : l.getLast? = some x) : x ∈ l := by
  exact List.mem_of_getLast? h

theorem locateKeyRangeLoop_spec {fuel : Nat} {c c' : Cache} {pd : PD} {s e s0 : Bytes} {acc ls : List Region}
    (h : locateKeyRangeLoop fuel c pd s e acc = (c', .ok ls)) (hcov : CovUpTo acc s0 e s) : Covers ls s0 e := by
  induction fuel generalizing c s acc with
  | zero => simp [locateKeyRangeLoop] at h
  | succ n ih =>
    simp only [locateKeyRangeLoop] at h
    cases hcc : cachedChain (n + 1) c s e acc with
    | mk acc1 rest =>
      cases rest with
      | mk done s1 =>
        rw [hcc] at h
        simp only at h
        have hspec := cachedChain_spec hcc hcov
        cases done with
        | true =>
          simp only [if_true, Prod.mk.injEq, Except.ok.injEq] at h
          rw [← h.2]
          exact (hspec.1 rfl).reverse
        | false =>
          simp only [Bool.false_eq_true, if_false] at h
          have hcov1 := hspec.2 rfl
          cases hb : batchLoadRegionsWithKeyRanges c pd [⟨s1, e⟩] limitPerBatch with
          | mk c1 res =>
            rw [hb] at h
            cases res with
            | error x => simp at h
            | ok batch =>
              simp only at h
              have hgap := gapLoop_single (batchLoad_single_spec hb)
              cases hl : batch.getLast? with
              | none => rw [hl] at h; simp at h
              | some endRegion =>
                rw [hl] at h
                simp only at h
                have hmem : endRegion.r ∈ batch.map (·.r) := List.mem_map.mpr ⟨endRegion, getLast?_mem hl, rfl⟩
                -- coverage of the keys at or after s1 by the batch, or beyond every end
                have hstep : ∀ k, Bytes.le s0 k = true → InR e k →
                    (endRegion.r.endKey = [] ∨ Bytes.lt k endRegion.r.endKey = true) →
                    ∃ l ∈ (batch.map (·.r)).reverse ++ acc1, l.contains k = true := by
                  intro k h1 h3 hbelow
                  rcases le_total s1 k with hk | hk
                  · rcases hgap k hk hk h3 with ⟨l, hl', hlc⟩ | hall
                    · exact ⟨l, List.mem_append_left _ (List.mem_reverse.mpr hl'), hlc⟩
                    · have := hall _ hmem
                      rcases hbelow with hb' | hb'
                      · exact absurd hb' this.1
                      · have := lt_of_lt_of_le hb' this.2
                        rw [lt_irrefl] at this; cases this
                  · obtain ⟨l, hl', hlc⟩ := hcov1 k h1 hk h3
                    exact ⟨l, List.mem_append_right _ hl', hlc⟩
                split at h
                · rename_i hce
                  simp only [Prod.mk.injEq, Except.ok.injEq] at h
                  rw [← h.2]
                  apply Covers.reverse
                  intro k h1 h3
                  exact hstep k h1 h3 (below_end_of_containsByEnd hce h3)
                · apply ih h
                  intro k h1 h2 h3
                  exact hstep k h1 h3 (Or.inr h2)

end CGV.Region

namespace CGV.Region
open CGV

/-! ## GroupKeysByRegion -/

def groupTotal (g : List (VerID × List Bytes)) : Nat := (g.map (·.2.length)).sum

theorem groupAdd_total (g : List (VerID × List Bytes)) (v : VerID) (k : Bytes) :
    groupTotal (groupAdd g v k) = groupTotal g + 1 := by
  induction g with
  | nil => simp [groupAdd, groupTotal]
  | cons x xs ih =>
    obtain ⟨v', ks⟩ := x
    simp only [groupAdd]
    split
    · simp [groupTotal]; omega
    · simp only [groupTotal, List.map_cons, List.sum_cons] at *
      omega

theorem groupAdd_self (g : List (VerID × List Bytes)) (v : VerID) (k : Bytes) :
    ∃ ks, (v, ks) ∈ groupAdd g v k ∧ k ∈ ks := by
  induction g with
  | nil => exact ⟨[k], by simp [groupAdd], by simp⟩
  | cons x xs ih =>
    obtain ⟨v', ks⟩ := x
    simp only [groupAdd]
    split
    · rename_i heq
      subst heq
      exact ⟨ks ++ [k], List.mem_cons_self .., by simp⟩
    · obtain ⟨ks', h1, h2⟩ := ih
      exact ⟨ks', List.mem_cons_of_mem _ h1, h2⟩

theorem groupAdd_mono {g : List (VerID × List Bytes)} {v v' : VerID} {k : Bytes} {ks : List Bytes}
    (h : (v', ks) ∈ g) : ∃ ks', (v', ks') ∈ groupAdd g v k ∧ ∀ x ∈ ks, x ∈ ks' := by
  induction g with
  | nil => cases h
  | cons x xs ih =>
    obtain ⟨v0, ks0⟩ := x
    simp only [groupAdd]
    split
    · rename_i heq
      subst heq
      rcases List.mem_cons.mp h with h | h
      · cases h
        exact ⟨ks ++ [k], List.mem_cons_self .., fun x hx => List.mem_append_left _ hx⟩
      · exact ⟨ks, List.mem_cons_of_mem _ h, fun x hx => hx⟩
    · rcases List.mem_cons.mp h with h | h
      · cases h
        exact ⟨ks, List.mem_cons_self .., fun x hx => hx⟩
      · obtain ⟨ks', h1, h2⟩ := ih h
        exact ⟨ks', List.mem_cons_of_mem _ h1, h2⟩

theorem groupAdd_nodup {g : List (VerID × List Bytes)} (v : VerID) (k : Bytes) (h : (g.map (·.1)).Nodup) :
    ((groupAdd g v k).map (·.1)).Nodup := by
  induction g with
  | nil => simp [groupAdd]
  | cons x xs ih =>
    obtain ⟨v0, ks0⟩ := x
    simp only [List.map_cons, List.nodup_cons] at h
    simp only [groupAdd]
    split
    · simpa using h
    · rename_i hne
      simp only [List.map_cons, List.nodup_cons]
      refine ⟨?_, ih h.2⟩
      intro hmem
      obtain ⟨⟨v1, ks1⟩, h1, h2⟩ := List.mem_map.mp hmem
      simp only at h2
      subst h2
      -- a group of groupAdd xs v k either is the new one (v) or comes from xs
      have : v1 = v ∨ v1 ∈ xs.map (·.1) := by
        clear ih h hmem hne
        induction xs with
        | nil => simp [groupAdd] at h1; left; exact h1.1
        | cons y ys ihy =>
          obtain ⟨vy, ky⟩ := y
          simp only [groupAdd] at h1
          split at h1
          · rcases List.mem_cons.mp h1 with h1 | h1
            · cases h1; right; simp
            · right; exact List.mem_map.mpr ⟨_, List.mem_cons_of_mem _ h1, rfl⟩
          · rcases List.mem_cons.mp h1 with h1 | h1
            · cases h1; right; simp
            · rcases ihy h1 with h | h
              · left; exact h
              · right; simp only [List.map_cons, List.mem_cons]; right; exact h
      rcases this with h3 | h3
      · exact hne h3
      · exact h.1 h3

/-- what GroupKeysByRegion guarantees for a key: a location used for it contains it and the key sits in the group
    of that location's VerID -/
def Grouped (g : List (VerID × List Bytes)) (locs : List Region) (k : Bytes) : Prop :=
  ∃ l ∈ locs, l.contains k = true ∧ ∃ ks, (l.verID, ks) ∈ g ∧ k ∈ ks

theorem Grouped.step {g : List (VerID × List Bytes)} {locs : List Region} {k : Bytes} (h : Grouped g locs k)
    (v : VerID) (k' : Bytes) (l' : Region) : Grouped (groupAdd g v k') (l' :: locs) k := by
  obtain ⟨l, hl, hc, ks, hks, hk⟩ := h
  obtain ⟨ks', h1, h2⟩ := groupAdd_mono (v := v) (k := k') hks
  exact ⟨l, List.mem_cons_of_mem _ hl, hc, ks', h1, h2 k hk⟩

theorem locateKey_contains {c c' : Cache} {pd : PD} {key : Bytes} {r : Region}
    (h : locateKey c pd key = (c', .ok r)) : r.contains key = true := by
  unfold locateKey at h
  cases hf : findRegionByKey c pd key false with
  | mk c1 res =>
    rw [hf] at h
    cases res with
    | error x => simp [Except.map] at h
    | ok e =>
      simp only [Except.map, Prod.mk.injEq, Except.ok.injEq] at h
      rw [← h.2]
      exact findRegionByKey_spec (isEnd := false) (fun e he => by simpa [inRegion] using loadRegion_contains he) hf

theorem groupKeysLoop_spec {pd : PD} {keys : List Bytes} {c c' : Cache} {lastLoc : Option Region}
    {g g' : List (VerID × List Bytes)} {locs locs' : List Region} {done : List Bytes}
    (h : groupKeysLoop pd keys c lastLoc g locs = (c', .ok (g', locs')))
    (hinv : ∀ k ∈ done, Grouped g locs k) (hnd : (g.map (·.1)).Nodup) :
    (∀ k ∈ done ++ keys, Grouped g' locs'.reverse k) ∧ groupTotal g' = groupTotal g + keys.length ∧
      (g'.map (·.1)).Nodup := by
  induction keys generalizing c lastLoc g locs done with
  | nil =>
    simp only [groupKeysLoop, Prod.mk.injEq, Except.ok.injEq] at h
    obtain ⟨_, rfl, rfl⟩ := h
    simp only [List.append_nil, List.reverse_reverse, List.length_nil, Nat.add_zero]
    exact ⟨hinv, trivial, hnd⟩
  | cons k ks ih =>
    simp only [groupKeysLoop] at h
    have key : ∀ (c1 : Cache) (l : Region), l.contains k = true →
        groupKeysLoop pd ks c1 (some l) (groupAdd g l.verID k) (l :: locs) = (c', .ok (g', locs')) →
        (∀ k' ∈ done ++ k :: ks, Grouped g' locs'.reverse k') ∧ groupTotal g' = groupTotal g + (k :: ks).length ∧
          (g'.map (·.1)).Nodup := by
      intro c1 l hc h'
      have hinv' : ∀ k' ∈ done ++ [k], Grouped (groupAdd g l.verID k) (l :: locs) k' := by
        intro k' hk'
        rcases List.mem_append.mp hk' with hk' | hk'
        · exact (hinv k' hk').step _ _ _
        · simp only [List.mem_singleton] at hk'
          subst hk'
          obtain ⟨ks', h1, h2⟩ := groupAdd_self g l.verID k'
          exact ⟨l, List.mem_cons_self .., hc, ks', h1, h2⟩
      have := ih h' hinv' (groupAdd_nodup _ _ hnd)
      rw [groupAdd_total] at this
      refine ⟨?_, ?_, this.2.2⟩
      · simpa using this.1
      · simp only [List.length_cons]; omega
    split at h
    · rename_i l hl
      have hc : l.contains k = true := by
        split at hl
        · split at hl
          · rename_i l0 _ hcl; cases hl; exact hcl
          · cases hl
        · cases hl
      exact key c l hc h
    · cases hloc : locateKey c pd k with
      | mk c1 res =>
        rw [hloc] at h
        cases res with
        | error x => simp at h
        | ok l => exact key c1 l (locateKey_contains hloc) h

end CGV.Region
