/-
  Helper lemmas for C09: the byte-string order, the ordered index, coverage chains.
-/
import ClientGoVerif.Model.Region
namespace CGV.Region
open CGV

/-! ## `Bytes.cmp` is a total order -/

theorem u8_lt_irrefl (a : UInt8) : ¬ a < a := by
  simp

theorem u8_eq_of_not_lt {a b : UInt8} (h1 : ¬ a < b) (h2 : ¬ b < a) : a = b := by
  apply UInt8.le_antisymm
  · exact UInt8.not_lt.mp h2
  · exact UInt8.not_lt.mp h1

theorem cmp_refl (a : Bytes) : Bytes.cmp a a = .eq := by
  induction a with
  | nil => rfl
  | cons x xs ih => simp [Bytes.cmp, ih]

theorem cmp_eq_iff {a b : Bytes} : Bytes.cmp a b = .eq ↔ a = b := by
  constructor
  · intro h
    induction a generalizing b with
    | nil => cases b <;> simp_all [Bytes.cmp]
    | cons x xs ih =>
      cases b with
      | nil => simp [Bytes.cmp] at h
      | cons y ys =>
        simp only [Bytes.cmp] at h
        split at h
        · cases h
        · split at h
          · cases h
          · rename_i h1 h2
            have := u8_eq_of_not_lt h1 h2
            subst this
            rw [ih h]
  · intro h; subst h; exact cmp_refl a

theorem cmp_swap (a b : Bytes) : Bytes.cmp b a = (Bytes.cmp a b).swap := by
  induction a generalizing b with
  | nil => cases b <;> rfl
  | cons x xs ih =>
    cases b with
    | nil => rfl
    | cons y ys =>
      simp only [Bytes.cmp]
      by_cases h1 : x < y
      · have h2 : ¬ y < x := fun h => u8_lt_irrefl x (UInt8.lt_trans h1 h)
        simp [h1, h2]
      · by_cases h2 : y < x
        · simp [h1, h2]
        · simp [h1, h2, ih]

theorem lt_irrefl (a : Bytes) : Bytes.lt a a = false := by
  simp [Bytes.lt, cmp_refl]

theorem le_refl (a : Bytes) : Bytes.le a a = true := by
  simp [Bytes.le, cmp_refl]

theorem le_iff_not_lt (a b : Bytes) : Bytes.le a b = !(Bytes.lt b a) := by
  simp only [Bytes.le, Bytes.lt, cmp_swap a b]
  cases Bytes.cmp a b <;> rfl

theorem cmp_lt_trans {a b c : Bytes} (h1 : Bytes.cmp a b = .lt) (h2 : Bytes.cmp b c = .lt) : Bytes.cmp a c = .lt := by
  induction a generalizing b c with
  | nil =>
    cases b with
    | nil => simp [Bytes.cmp] at h1
    | cons y ys => cases c <;> simp_all [Bytes.cmp]
  | cons x xs ih =>
    cases b with
    | nil => simp [Bytes.cmp] at h1
    | cons y ys =>
      cases c with
      | nil => simp [Bytes.cmp] at h2
      | cons z zs =>
        simp only [Bytes.cmp] at h1 h2 ⊢
        by_cases hxy : x < y
        · by_cases hyz : y < z
          · simp [UInt8.lt_trans hxy hyz]
          · by_cases hzy : z < y
            · simp [hyz, hzy] at h2
            · have := u8_eq_of_not_lt hyz hzy
              subst this
              simp [hxy]
        · by_cases hyx : y < x
          · simp [hxy, hyx] at h1
          · have := u8_eq_of_not_lt hxy hyx
            subst this
            simp only [hxy, if_false] at h1
            by_cases hyz : x < z
            · simp [hyz]
            · by_cases hzy : z < x
              · simp [hyz, hzy] at h2
              · simp only [hyz, hzy, if_false] at h2 ⊢
                exact ih h1 h2

theorem lt_trans {a b c : Bytes} (h1 : Bytes.lt a b = true) (h2 : Bytes.lt b c = true) : Bytes.lt a c = true := by
  simp only [Bytes.lt, beq_iff_eq] at *
  exact cmp_lt_trans h1 h2

theorem lt_of_le_of_lt {a b c : Bytes} (h1 : Bytes.le a b = true) (h2 : Bytes.lt b c = true) : Bytes.lt a c = true := by
  by_cases hab : a = b
  · subst hab; exact h2
  · have : Bytes.lt a b = true := by
      simp only [Bytes.le, Bytes.lt, bne_iff_ne, ne_eq, beq_iff_eq] at *
      cases h : Bytes.cmp a b with
      | lt => rfl
      | eq => exact absurd (cmp_eq_iff.mp h) hab
      | gt => exact absurd h h1
    exact lt_trans this h2

theorem lt_of_lt_of_le {a b c : Bytes} (h1 : Bytes.lt a b = true) (h2 : Bytes.le b c = true) : Bytes.lt a c = true := by
  by_cases hbc : b = c
  · subst hbc; exact h1
  · have : Bytes.lt b c = true := by
      simp only [Bytes.le, Bytes.lt, bne_iff_ne, ne_eq, beq_iff_eq] at *
      cases h : Bytes.cmp b c with
      | lt => rfl
      | eq => exact absurd (cmp_eq_iff.mp h) hbc
      | gt => exact absurd h h2
    exact lt_trans h1 this

theorem le_trans {a b c : Bytes} (h1 : Bytes.le a b = true) (h2 : Bytes.le b c = true) : Bytes.le a c = true := by
  rw [le_iff_not_lt] at *
  cases h : Bytes.lt c a with
  | false => rfl
  | true =>
    have := lt_of_lt_of_le h (by rw [le_iff_not_lt]; exact h1)
    have h3 : Bytes.lt c b = true := this
    simp [h3] at h2

theorem le_of_lt {a b : Bytes} (h : Bytes.lt a b = true) : Bytes.le a b = true := by
  rw [le_iff_not_lt]
  cases h' : Bytes.lt b a with
  | false => rfl
  | true => have := lt_trans h h'; rw [lt_irrefl] at this; cases this

theorem le_total (a b : Bytes) : Bytes.le a b = true ∨ Bytes.lt b a = true := by
  rw [le_iff_not_lt]; cases Bytes.lt b a <;> simp

theorem nil_le (a : Bytes) : Bytes.le [] a = true := by
  cases a <;> simp [Bytes.le, Bytes.cmp]

theorem not_lt_nil (a : Bytes) : Bytes.lt a [] = false := by
  cases a <;> simp [Bytes.lt, Bytes.cmp]

end CGV.Region

namespace CGV.Region
open CGV

/-! ## regions -/

/-- well-formed region: start < end (in particular the end is not the empty string) -/
def Region.wf (r : Region) : Prop :=
  match r.end_ with
  | none => True
  | some e => Bytes.lt r.start e = true

/-- the specification-level meaning of "the region contains the key" -/
def Region.Has (r : Region) (k : Bytes) : Prop :=
  Bytes.le r.start k = true ∧ (match r.end_ with | none => True | some e => Bytes.lt k e = true)

theorem Region.contains_iff_has {r : Region} (h : r.wf) (k : Bytes) : r.contains k = true ↔ r.Has k := by
  unfold Region.contains Region.Has Region.endKey
  unfold Region.wf at h
  cases he : r.end_ with
  | none => simp
  | some e =>
    simp only [he] at h
    have : e ≠ [] := by
      intro h0; subst h0; rw [not_lt_nil] at h; cases h
    cases e with
    | nil => exact absurd rfl this
    | cons x xs => simp

/-! ## the ordered index -/

theorem lastLE_mem {p : Entry → Bool} {s : List Entry} {acc : Option Entry} {e : Entry}
    (h : lastLE p s acc = some e) : e ∈ s ∨ acc = some e := by
  induction s generalizing acc with
  | nil => right; simpa [lastLE] using h
  | cons x xs ih =>
    simp only [lastLE] at h
    split at h
    · rcases ih h with h1 | h1
      · left; exact List.mem_cons_of_mem _ h1
      · left; cases h1; exact List.mem_cons_self ..
    · rcases ih h with h1 | h1
      · left; exact List.mem_cons_of_mem _ h1
      · right; exact h1

theorem searchByKey_spec {s : List Entry} {key : Bytes} {isEnd : Bool} {e : Entry}
    (h : searchByKey s key isEnd = some e) : e ∈ s ∧ inRegion isEnd e.r key = true := by
  unfold searchByKey at h
  split at h
  · cases h
  · rename_i e' he'
    by_cases hc : inRegion isEnd e'.r key = true
    · simp only [hc, if_true, Option.some.injEq] at h
      subst h
      refine ⟨?_, hc⟩
      rcases lastLE_mem he' with h1 | h1
      · exact h1
      · cases h1
    · simp [hc] at h

/-! ## PD answers -/

theorem toEntry_r (p : PdRegion) : p.toEntry.r = p.r := rfl

theorem loadRegion_contains {pd : PD} {key : Bytes} {e : Entry}
    (h : loadRegion pd key false = .ok e) : e.r.contains key = true := by
  unfold loadRegion at h
  split at h
  · cases h
  · rename_i reg hreg
    simp only [Bool.false_and, Bool.false_eq_true, if_false] at h
    cases h
    have := List.find?_some hreg
    simpa [toEntry_r] using this

theorem loadRegion_containsByEnd {pd : PD} (hwf : ∀ p ∈ pd, p.r.wf) {key : Bytes} (hk : key ≠ []) {e : Entry}
    (h : loadRegion pd key true = .ok e) : e.r.containsByEnd key = true := by
  unfold loadRegion at h
  split at h
  · cases h
  · rename_i reg hreg
    have hc : reg.r.contains key = true := by simpa using List.find?_some hreg
    have hkne : key.isEmpty = false := by cases key <;> simp_all
    split at h
    · rename_i hcond
      split at h
      · cases h
      · rename_i p hp
        cases h
        -- p is the region whose end is the start of `reg`, and reg.start = key
        simp only [Bool.true_and, Bool.and_eq_true, beq_iff_eq, Bool.not_eq_eq_eq_not, Bool.not_true] at hcond
        obtain ⟨hs, _⟩ := hcond
        unfold PD.getPrevRegion at hp
        rw [hreg] at hp
        simp only at hp
        split at hp
        · cases hp
        · have hp' := List.find?_some hp
          have hmem := List.mem_of_find?_eq_some hp
          simp only [beq_iff_eq] at hp'
          have hpe : p.r.endKey = key := by rw [hp', hs]
          have hwfp := hwf p hmem
          unfold Region.wf at hwfp
          unfold Region.endKey at hpe
          simp only [toEntry_r, Region.containsByEnd, hkne, Bool.false_eq_true, if_false]
          cases hend : p.r.end_ with
          | none => simp [hend] at hpe; subst hpe; simp at hkne
          | some e' =>
            simp only [hend] at hpe hwfp
            subst hpe
            simp [Region.endKey, hend, hwfp, le_refl]
    · rename_i hcond
      cases h
      simp only [toEntry_r, Region.containsByEnd, hkne, Bool.false_eq_true, if_false]
      unfold Region.contains at hc
      simp only [Bool.and_eq_true, Bool.or_eq_true] at hc
      obtain ⟨h1, h2⟩ := hc
      have hne : reg.r.start ≠ key := by
        intro heq
        apply hcond
        simp [heq, hkne]
      have hlt : Bytes.lt reg.r.start key = true := by
        simp only [Bytes.le, Bytes.lt, bne_iff_ne, ne_eq, beq_iff_eq] at *
        cases hh : Bytes.cmp reg.r.start key with
        | lt => rfl
        | eq => exact absurd (cmp_eq_iff.mp hh) hne
        | gt => exact absurd hh h1
      simp only [hlt, Bool.true_and, Bool.or_eq_true]
      rcases h2 with h2 | h2
      · left; exact le_of_lt h2
      · right; exact h2

theorem loadRegionByID_id {pd : PD} {id : Nat} {e : Entry} (h : loadRegionByID pd id = .ok e) : e.r.id = id := by
  unfold loadRegionByID at h
  split at h
  · cases h
  · rename_i p hp
    cases h
    have := List.find?_some hp
    simpa [PD.getRegionByID, toEntry_r] using this

end CGV.Region

namespace CGV.Region
open CGV

/-! ## findRegionByKey -/

theorem loadAndInsert_spec {pd : PD} {key : Bytes} {isEnd : Bool} {c c' : Cache} {e : Entry}
    (hload : ∀ e, loadRegion pd key isEnd = .ok e → inRegion isEnd e.r key = true)
    (h : findRegionByKey.loadAndInsert pd key isEnd c = (c', .ok e)) : inRegion isEnd e.r key = true := by
  unfold findRegionByKey.loadAndInsert at h
  repeat' (split at h)
  all_goals
    injection h with _ h2
    first
      | (injection h2 with h3; subst h3; apply hload; assumption)
      | (injection h2 with h3; subst h3; apply hload; simp_all)
      | (injection h2)

theorem findRegionByKey_spec {pd : PD} {key : Bytes} {isEnd : Bool} {c c' : Cache} {e : Entry}
    (hload : ∀ e, loadRegion pd key isEnd = .ok e → inRegion isEnd e.r key = true)
    (h : findRegionByKey c pd key isEnd = (c', .ok e)) : inRegion isEnd e.r key = true := by
  unfold findRegionByKey at h
  split at h
  · rename_i e0 he0
    have hs := (searchByKey_spec he0).2
    split at h
    · exact loadAndInsert_spec hload h
    · repeat' (split at h)
      all_goals
        injection h with _ h2
        first
          | (injection h2 with h3; subst h3; first | exact hs | (apply hload; assumption))
          | (injection h2)
  · exact loadAndInsert_spec hload h

end CGV.Region

namespace CGV.Region
open CGV

/-! ## insertRegionToCache -/

theorem mem_insertSorted_of_mem {n e : Entry} {xs : List Entry} (he : e ∈ xs) (hne : e.r.start ≠ n.r.start) :
    e ∈ insertSorted n xs := by
  induction xs with
  | nil => cases he
  | cons x xs ih =>
    simp only [insertSorted]
    split
    · exact List.mem_cons_of_mem _ he
    · split
      · rename_i heq
        simp only [beq_iff_eq] at heq
        rcases List.mem_cons.mp he with h | h
        · subst h; exact absurd heq.symm hne
        · exact List.mem_cons_of_mem _ h
      · rcases List.mem_cons.mp he with h | h
        · subst h; exact List.mem_cons_self ..
        · exact List.mem_cons_of_mem _ (ih h)

theorem mem_insertSorted {n y : Entry} {xs : List Entry} (h : y ∈ insertSorted n xs) : y = n ∨ y ∈ xs := by
  induction xs with
  | nil => simp [insertSorted] at h; left; exact h
  | cons x xs ih =>
    simp only [insertSorted] at h
    split at h
    · rcases List.mem_cons.mp h with h | h
      · left; exact h
      · right; exact h
    · split at h
      · rcases List.mem_cons.mp h with h | h
        · left; exact h
        · right; exact List.mem_cons_of_mem _ h
      · rcases List.mem_cons.mp h with h | h
        · right; subst h; exact List.mem_cons_self ..
        · rcases ih h with h | h
          · left; exact h
          · right; exact List.mem_cons_of_mem _ h

theorem self_mem_insertSorted (n : Entry) (xs : List Entry) : n ∈ insertSorted n xs := by
  induction xs with
  | nil => simp [insertSorted]
  | cons x xs ih =>
    simp only [insertSorted]
    split
    · exact List.mem_cons_self ..
    · split
      · exact List.mem_cons_self ..
      · exact List.mem_cons_of_mem _ ih

/-- strictly ascending start keys -/
def Sorted (s : List Entry) : Prop := s.Pairwise (fun a b => Bytes.lt a.r.start b.r.start = true)

theorem sorted_insertSorted {n : Entry} {xs : List Entry} (h : Sorted xs) : Sorted (insertSorted n xs) := by
  unfold Sorted at *
  induction xs with
  | nil => simp [insertSorted]
  | cons x xs ih =>
    rw [List.pairwise_cons] at h
    simp only [insertSorted]
    split
    · rename_i hlt
      rw [List.pairwise_cons]
      refine ⟨?_, List.pairwise_cons.mpr h⟩
      intro y hy
      rcases List.mem_cons.mp hy with hy | hy
      · subst hy; exact hlt
      · exact lt_trans hlt (h.1 y hy)
    · split
      · rename_i heq
        simp only [beq_iff_eq] at heq
        rw [List.pairwise_cons]
        refine ⟨?_, h.2⟩
        intro y hy
        rw [heq]; exact h.1 y hy
      · rename_i hnlt hneq
        simp only [beq_iff_eq] at hneq
        have hxn : Bytes.lt x.r.start n.r.start = true := by
          rcases le_total n.r.start x.r.start with hle | hlt
          · -- n.start <= x.start, not <, hence equal: contradiction
            simp only [Bytes.le, Bytes.lt, bne_iff_ne, ne_eq, beq_iff_eq] at hle hnlt
            cases hc : Bytes.cmp n.r.start x.r.start with
            | lt => exact absurd hc hnlt
            | eq => exact absurd (cmp_eq_iff.mp hc) hneq
            | gt => exact absurd hc hle
          · exact hlt
        rw [List.pairwise_cons]
        refine ⟨?_, ih h.2⟩
        intro y hy
        rcases mem_insertSorted hy with hy | hy
        · subst hy; exact hxn
        · exact h.1 y hy

theorem insert_stale_latest {c : Cache} {n : Entry} {old : VerID} (h : latestGet c.latest n.r.id = some old)
    (ho : old.ver > n.r.ver ∨ old.confVer > n.r.confVer) : insertRegionToCache c n = (c, false) := by
  have : staleByLatest c.latest n.r = true := by
    unfold staleByLatest
    rw [h]
    rcases ho with ho | ho <;> simp [ho]
  simp [insertRegionToCache, this]

theorem insert_stale_inside {c : Cache} {n e : Entry} (he : e ∈ c.sorted) (hin : inRangeStart n.r e = true)
    (hv : e.r.ver > n.r.ver) : insertRegionToCache c n = (c, false) := by
  unfold insertRegionToCache
  by_cases hs : staleByLatest c.latest n.r = true
  · simp [hs]
  · have hany : (c.sorted.any fun e => inRangeStart n.r e && decide (e.r.ver > n.r.ver)) = true := by
      rw [List.any_eq_true]
      exact ⟨e, he, by simp [hin, hv]⟩
    simp [hs, removeIntersecting, hany]

theorem insert_spec {c c' : Cache} {n : Entry} {ok : Bool} (h : insertRegionToCache c n = (c', ok)) :
    (ok = false ∧ c' = c) ∨
    (ok = true ∧ c'.sorted = insertSorted n (c.sorted.filter (fun e => !inRangeStart n.r e)) ∧
      ∀ e ∈ c.sorted, inRangeStart n.r e = true → e.r.ver ≤ n.r.ver) := by
  unfold insertRegionToCache at h
  by_cases hs : staleByLatest c.latest n.r = true
  · simp only [hs, if_true, Prod.mk.injEq] at h
    left; exact ⟨h.2.symm, h.1.symm⟩
  · simp only [hs, Bool.false_eq_true, if_false] at h
    unfold removeIntersecting at h
    by_cases hany : (c.sorted.any fun e => inRangeStart n.r e && decide (e.r.ver > n.r.ver)) = true
    · simp only [hany, if_true, Prod.mk.injEq] at h
      left; exact ⟨h.2.symm, h.1.symm⟩
    · simp only [hany, Bool.false_eq_true, if_false, Prod.mk.injEq] at h
      right
      obtain ⟨h1, h2⟩ := h
      refine ⟨h2.symm, by rw [← h1], ?_⟩
      intro e he hin
      rw [Bool.not_eq_true, List.any_eq_false] at hany
      have := hany e he
      simp only [hin, Bool.true_and, decide_eq_true_eq] at this
      omega

theorem insert_sorted {c c' : Cache} {n : Entry} {ok : Bool} (h : insertRegionToCache c n = (c', ok))
    (hs : Sorted c.sorted) : Sorted c'.sorted := by
  rcases insert_spec h with ⟨_, rfl⟩ | ⟨_, heq, _⟩
  · exact hs
  · rw [heq]; exact sorted_insertSorted (List.Pairwise.filter _ hs)

end CGV.Region

namespace CGV.Region
open CGV

/-! ## coverage -/

/-- `k` lies below the raw end key `e` (empty = +∞) -/
def InR (e k : Bytes) : Prop := e = [] ∨ Bytes.lt k e = true

/-- every key of [s, e) is contained in some location -/
def Covers (ls : List Region) (s e : Bytes) : Prop :=
  ∀ k, Bytes.le s k = true → InR e k → ∃ l ∈ ls, l.contains k = true

/-- every key of [s0, e) below `cur` is contained in some location -/
def CovUpTo (ls : List Region) (s0 e cur : Bytes) : Prop :=
  ∀ k, Bytes.le s0 k = true → Bytes.lt k cur = true → InR e k → ∃ l ∈ ls, l.contains k = true

theorem covUpTo_init (s0 e : Bytes) : CovUpTo [] s0 e s0 := by
  intro k h1 h2 _
  rw [le_iff_not_lt, h2] at h1; cases h1

theorem CovUpTo.mono {ls ls' : List Region} {s0 e cur : Bytes} (h : CovUpTo ls s0 e cur) (hs : ∀ l ∈ ls, l ∈ ls') :
    CovUpTo ls' s0 e cur := by
  intro k h1 h2 h3
  obtain ⟨l, hl, hc⟩ := h k h1 h2 h3
  exact ⟨l, hs l hl, hc⟩

theorem contains_of_le {r : Region} {cur k : Bytes} (hc : r.contains cur = true) (hk : Bytes.le cur k = true)
    (hend : r.endKey = [] ∨ Bytes.lt k r.endKey = true) : r.contains k = true := by
  unfold Region.contains at *
  simp only [Bool.and_eq_true, Bool.or_eq_true] at *
  refine ⟨le_trans hc.1 hk, ?_⟩
  rcases hend with h | h
  · right; simp [h]
  · left; exact h

theorem covUpTo_step {ls : List Region} {s0 e cur : Bytes} {r : Region} (h : CovUpTo ls s0 e cur)
    (hc : r.contains cur = true) : CovUpTo (r :: ls) s0 e r.endKey := by
  intro k h1 h2 h3
  rcases le_total cur k with hk | hk
  · exact ⟨r, List.mem_cons_self .., contains_of_le hc hk (Or.inr h2)⟩
  · obtain ⟨l, hl, hlc⟩ := h k h1 hk h3
    exact ⟨l, List.mem_cons_of_mem _ hl, hlc⟩

theorem below_end_of_containsByEnd {r : Region} {e k : Bytes} (hce : r.containsByEnd e = true) (hk : InR e k) :
    r.endKey = [] ∨ Bytes.lt k r.endKey = true := by
  unfold Region.containsByEnd at hce
  cases e with
  | nil =>
    simp only [List.isEmpty_nil, if_true] at hce
    left; simpa using hce
  | cons x xs =>
    simp only [List.isEmpty_cons, Bool.false_eq_true, if_false, Bool.and_eq_true, Bool.or_eq_true] at hce
    rcases hk with hk | hk
    · cases hk
    · rcases hce.2 with h | h
      · right; exact lt_of_lt_of_le hk h
      · left; simpa using h

theorem covers_done {ls : List Region} {s0 e cur : Bytes} {r : Region} (h : CovUpTo ls s0 e cur)
    (hc : r.contains cur = true) (hce : r.containsByEnd e = true) : Covers (r :: ls) s0 e := by
  intro k h1 h3
  rcases le_total cur k with hk | hk
  · exact ⟨r, List.mem_cons_self .., contains_of_le hc hk (below_end_of_containsByEnd hce h3)⟩
  · obtain ⟨l, hl, hlc⟩ := h k h1 hk h3
    exact ⟨l, List.mem_cons_of_mem _ hl, hlc⟩

theorem tryFind_contains {c : Cache} {k : Bytes} {e : Entry} (h : tryFindRegionByKey c k false = some e) :
    e.r.contains k = true := by
  unfold tryFindRegionByKey at h
  split at h
  · rename_i e0 he0
    split at h
    · cases h
    · cases h
      simpa [inRegion] using (searchByKey_spec he0).2
  · cases h

theorem cachedChain_spec {fuel : Nat} {c : Cache} {s e s0 : Bytes} {acc acc' : List Region} {done : Bool} {s' : Bytes}
    (h : cachedChain fuel c s e acc = (acc', done, s')) (hcov : CovUpTo acc s0 e s) :
    (done = true → Covers acc' s0 e) ∧ (done = false → CovUpTo acc' s0 e s') := by
  induction fuel generalizing s acc with
  | zero =>
    simp only [cachedChain, Prod.mk.injEq] at h
    obtain ⟨rfl, rfl, rfl⟩ := h
    exact ⟨(by intro h; cases h), fun _ => hcov⟩
  | succ n ih =>
    simp only [cachedChain] at h
    split at h
    · simp only [Prod.mk.injEq] at h
      obtain ⟨rfl, rfl, rfl⟩ := h
      exact ⟨(by intro h; cases h), fun _ => hcov⟩
    · rename_i en hen
      have hc := tryFind_contains hen
      split at h
      · rename_i hce
        simp only [Prod.mk.injEq] at h
        obtain ⟨rfl, rfl, rfl⟩ := h
        exact ⟨fun _ => covers_done hcov hc hce, (by intro h; cases h)⟩
      · exact ih h (covUpTo_step hcov hc)

/-! ## regionsHaveGapInRanges, single range -/

theorem gapLoop_single {limit n : Nat} {infos : List Region} {cur : KeyRange} {ck : Bytes}
    (h : gapLoop limit n infos cur [] ck = false) :
    ∀ k, Bytes.le ck k = true → Bytes.le cur.start k = true → InR cur.end_ k →
      (∃ l ∈ infos, l.contains k = true) ∨ (∀ l ∈ infos, l.endKey ≠ [] ∧ Bytes.le l.endKey k = true) := by
  induction infos generalizing ck with
  | nil => intro k _ _ _; right; intro l hl; cases hl
  | cons r rs ih =>
    intro k hck hstart hin
    simp only [gapLoop] at h
    split at h
    · cases h
    · rename_i hnlt
      have hrs : Bytes.le r.start ck = true := by rw [le_iff_not_lt]; simpa using hnlt
      have hrk : Bytes.le r.start k = true := le_trans hrs hck
      split at h
      · rename_i hunb
        left
        refine ⟨r, List.mem_cons_self .., ?_⟩
        unfold Region.contains
        simp [hrk, hunb]
      · rename_i hb
        -- bounded region: either k is below its end, or we go on
        rcases le_total r.endKey k with hge | hlt
        · by_cases hadv : (!cur.end_.isEmpty && Bytes.le cur.end_ r.endKey) = true
          · -- the range ends at or before the region's end: k < cur.end <= r.end <= k, impossible
            simp only [Bool.and_eq_true, Bool.not_eq_eq_eq_not, Bool.not_true] at hadv
            rcases hin with hin | hin
            · rw [hin] at hadv; simp at hadv
            · have := lt_of_lt_of_le (lt_of_lt_of_le hin hadv.2) hge
              rw [lt_irrefl] at this; cases this
          · have hadv' : gapLoop.advance r.endKey cur [] = some (cur, []) := by
              unfold gapLoop.advance
              simp only [hadv, Bool.false_eq_true, if_false]
            rw [hadv'] at h
            simp only at h
            have hck' : Bytes.le (if Bytes.lt r.endKey cur.start = true then cur.start else r.endKey) k = true := by
              split
              · exact hstart
              · exact hge
            rcases ih h k hck' hstart hin with ⟨l, hl, hlc⟩ | hall
            · left; exact ⟨l, List.mem_cons_of_mem _ hl, hlc⟩
            · right
              intro l hl
              rcases List.mem_cons.mp hl with rfl | hl
              · exact ⟨by intro h0; simp [h0] at hb, hge⟩
              · exact hall l hl
        · left
          refine ⟨r, List.mem_cons_self .., ?_⟩
          unfold Region.contains
          simp [hrk, hlt]

theorem batchLoad_single_spec {c c1 : Cache} {pd : PD} {kr : KeyRange} {limit : Nat} {batch : List Entry}
    (h : batchLoadRegionsWithKeyRanges c pd [kr] limit = (c1, .ok batch)) :
    gapLoop limit (batch.map (·.r)).length (batch.map (·.r)) kr [] kr.start = false := by
  unfold batchLoadRegionsWithKeyRanges at h
  simp only at h
  split at h
  · cases h
  · rename_i rs hrs
    simp only [Prod.mk.injEq, Except.ok.injEq] at h
    obtain ⟨_, rfl⟩ := h
    unfold batchScanRegions at hrs
    simp only at hrs
    split at hrs
    · cases hrs
    · split at hrs
      · cases hrs
      · rename_i hne hgap
        cases hrs
        simp only [List.map_map, Function.comp_def, toEntry_r] at *
        unfold regionsHaveGapInRanges at hgap
        simp only [Bool.not_eq_true] at hgap
        have hne' : (List.map (fun x => x.r) (pd.batchScanRegions [kr] limit)).isEmpty = false := by
          simpa using hne
        simpa [hne'] using hgap

end CGV.Region

namespace CGV.Region
open CGV

theorem Covers.reverse {ls : List Region} {s e : Bytes} (h : Covers ls s e) : Covers ls.reverse s e := by
  intro k h1 h2
  obtain ⟨l, hl, hc⟩ := h k h1 h2
  exact ⟨l, List.mem_reverse.mpr hl, hc⟩

theorem getLast?_mem {α} {l : List α} {x : α} (h : l.getLast? = some x) : x ∈ l := by
  exact List.mem_of_getLast? h

theorem locateKeyRangeLoop_spec {fuel : Nat} {c c' : Cache} {pd : PD} {s e s0 : Bytes} {acc ls : List Region}
    (h : locateKeyRangeLoop fuel c pd s e acc = (c', .ok ls)) (hcov : CovUpTo acc s0 e s) : Covers ls s0 e := by
  induction fuel generalizing c s acc with
  | zero => simp [locateKeyRangeLoop] at h
  | succ n ih =>
    simp only [locateKeyRangeLoop] at h
    cases hcc : cachedChain (n + 1) c s e acc with
    | mk acc1 rest =>
      cases rest with
      | mk done s1 =>
        rw [hcc] at h
        simp only at h
        have hspec := cachedChain_spec hcc hcov
        cases done with
        | true =>
          simp only [if_true, Prod.mk.injEq, Except.ok.injEq] at h
          rw [← h.2]
          exact (hspec.1 rfl).reverse
        | false =>
          simp only [Bool.false_eq_true, if_false] at h
          have hcov1 := hspec.2 rfl
          cases hb : batchLoadRegionsWithKeyRanges c pd [⟨s1, e⟩] limitPerBatch with
          | mk c1 res =>
            rw [hb] at h
            cases res with
            | error x => simp at h
            | ok batch =>
              simp only at h
              have hgap := gapLoop_single (batchLoad_single_spec hb)
              cases hl : batch.getLast? with
              | none => rw [hl] at h; simp at h
              | some endRegion =>
                rw [hl] at h
                simp only at h
                have hmem : endRegion.r ∈ batch.map (·.r) := List.mem_map.mpr ⟨endRegion, getLast?_mem hl, rfl⟩
                -- coverage of the keys at or after s1 by the batch, or beyond every end
                have hstep : ∀ k, Bytes.le s0 k = true → InR e k →
                    (endRegion.r.endKey = [] ∨ Bytes.lt k endRegion.r.endKey = true) →
                    ∃ l ∈ (batch.map (·.r)).reverse ++ acc1, l.contains k = true := by
                  intro k h1 h3 hbelow
                  rcases le_total s1 k with hk | hk
                  · rcases hgap k hk hk h3 with ⟨l, hl', hlc⟩ | hall
                    · exact ⟨l, List.mem_append_left _ (List.mem_reverse.mpr hl'), hlc⟩
                    · have := hall _ hmem
                      rcases hbelow with hb' | hb'
                      · exact absurd hb' this.1
                      · have := lt_of_lt_of_le hb' this.2
                        rw [lt_irrefl] at this; cases this
                  · obtain ⟨l, hl', hlc⟩ := hcov1 k h1 hk h3
                    exact ⟨l, List.mem_append_right _ hl', hlc⟩
                split at h
                · rename_i hce
                  simp only [Prod.mk.injEq, Except.ok.injEq] at h
                  rw [← h.2]
                  apply Covers.reverse
                  intro k h1 h3
                  exact hstep k h1 h3 (below_end_of_containsByEnd hce h3)
                · apply ih h
                  intro k h1 h2 h3
                  exact hstep k h1 h3 (Or.inr h2)

end CGV.Region

namespace CGV.Region
open CGV

/-! ## GroupKeysByRegion -/

def groupTotal (g : List (VerID × List Bytes)) : Nat := (g.map (·.2.length)).sum

theorem groupAdd_total (g : List (VerID × List Bytes)) (v : VerID) (k : Bytes) :
    groupTotal (groupAdd g v k) = groupTotal g + 1 := by
  induction g with
  | nil => simp [groupAdd, groupTotal]
  | cons x xs ih =>
    obtain ⟨v', ks⟩ := x
    simp only [groupAdd]
    split
    · simp [groupTotal]; omega
    · simp only [groupTotal, List.map_cons, List.sum_cons] at *
      omega

theorem groupAdd_self (g : List (VerID × List Bytes)) (v : VerID) (k : Bytes) :
    ∃ ks, (v, ks) ∈ groupAdd g v k ∧ k ∈ ks := by
  induction g with
  | nil => exact ⟨[k], by simp [groupAdd], by simp⟩
  | cons x xs ih =>
    obtain ⟨v', ks⟩ := x
    simp only [groupAdd]
    split
    · rename_i heq
      subst heq
      exact ⟨ks ++ [k], List.mem_cons_self .., by simp⟩
    · obtain ⟨ks', h1, h2⟩ := ih
      exact ⟨ks', List.mem_cons_of_mem _ h1, h2⟩

theorem groupAdd_mono {g : List (VerID × List Bytes)} {v v' : VerID} {k : Bytes} {ks : List Bytes}
    (h : (v', ks) ∈ g) : ∃ ks', (v', ks') ∈ groupAdd g v k ∧ ∀ x ∈ ks, x ∈ ks' := by
  induction g with
  | nil => cases h
  | cons x xs ih =>
    obtain ⟨v0, ks0⟩ := x
    simp only [groupAdd]
    split
    · rename_i heq
      subst heq
      rcases List.mem_cons.mp h with h | h
      · cases h
        exact ⟨ks ++ [k], List.mem_cons_self .., fun x hx => List.mem_append_left _ hx⟩
      · exact ⟨ks, List.mem_cons_of_mem _ h, fun x hx => hx⟩
    · rcases List.mem_cons.mp h with h | h
      · cases h
        exact ⟨ks, List.mem_cons_self .., fun x hx => hx⟩
      · obtain ⟨ks', h1, h2⟩ := ih h
        exact ⟨ks', List.mem_cons_of_mem _ h1, h2⟩

theorem groupAdd_nodup {g : List (VerID × List Bytes)} (v : VerID) (k : Bytes) (h : (g.map (·.1)).Nodup) :
    ((groupAdd g v k).map (·.1)).Nodup := by
  induction g with
  | nil => simp [groupAdd]
  | cons x xs ih =>
    obtain ⟨v0, ks0⟩ := x
    simp only [List.map_cons, List.nodup_cons] at h
    simp only [groupAdd]
    split
    · simpa using h
    · rename_i hne
      simp only [List.map_cons, List.nodup_cons]
      refine ⟨?_, ih h.2⟩
      intro hmem
      obtain ⟨⟨v1, ks1⟩, h1, h2⟩ := List.mem_map.mp hmem
      simp only at h2
      subst h2
      -- a group of groupAdd xs v k either is the new one (v) or comes from xs
      have : v1 = v ∨ v1 ∈ xs.map (·.1) := by
        clear ih h hmem hne
        induction xs with
        | nil => simp [groupAdd] at h1; left; exact h1.1
        | cons y ys ihy =>
          obtain ⟨vy, ky⟩ := y
          simp only [groupAdd] at h1
          split at h1
          · rcases List.mem_cons.mp h1 with h1 | h1
            · cases h1; right; simp
            · right; exact List.mem_map.mpr ⟨_, List.mem_cons_of_mem _ h1, rfl⟩
          · rcases List.mem_cons.mp h1 with h1 | h1
            · cases h1; right; simp
            · rcases ihy h1 with h | h
              · left; exact h
              · right; simp only [List.map_cons, List.mem_cons]; right; exact h
      rcases this with h3 | h3
      · exact hne h3
      · exact h.1 h3

/-- what GroupKeysByRegion guarantees for a key: a location used for it contains it and the key sits in the group
    of that location's VerID -/
def Grouped (g : List (VerID × List Bytes)) (locs : List Region) (k : Bytes) : Prop :=
  ∃ l ∈ locs, l.contains k = true ∧ ∃ ks, (l.verID, ks) ∈ g ∧ k ∈ ks

theorem Grouped.step {g : List (VerID × List Bytes)} {locs : List Region} {k : Bytes} (h : Grouped g locs k)
    (v : VerID) (k' : Bytes) (l' : Region) : Grouped (groupAdd g v k') (l' :: locs) k := by
  obtain ⟨l, hl, hc, ks, hks, hk⟩ := h
  obtain ⟨ks', h1, h2⟩ := groupAdd_mono (v := v) (k := k') hks
  exact ⟨l, List.mem_cons_of_mem _ hl, hc, ks', h1, h2 k hk⟩

theorem locateKey_contains {c c' : Cache} {pd : PD} {key : Bytes} {r : Region}
    (h : locateKey c pd key = (c', .ok r)) : r.contains key = true := by
  unfold locateKey at h
  cases hf : findRegionByKey c pd key false with
  | mk c1 res =>
    rw [hf] at h
    cases res with
    | error x => simp [Except.map] at h
    | ok e =>
      simp only [Except.map, Prod.mk.injEq, Except.ok.injEq] at h
      rw [← h.2]
      exact findRegionByKey_spec (isEnd := false) (fun e he => by simpa [inRegion] using loadRegion_contains he) hf

theorem groupKeysLoop_spec {pd : PD} {keys : List Bytes} {c c' : Cache} {lastLoc : Option Region}
    {g g' : List (VerID × List Bytes)} {locs locs' : List Region} {done : List Bytes}
    (h : groupKeysLoop pd keys c lastLoc g locs = (c', .ok (g', locs')))
    (hinv : ∀ k ∈ done, Grouped g locs k) (hnd : (g.map (·.1)).Nodup) :
    (∀ k ∈ done ++ keys, Grouped g' locs'.reverse k) ∧ groupTotal g' = groupTotal g + keys.length ∧
      (g'.map (·.1)).Nodup := by
  induction keys generalizing c lastLoc g locs done with
  | nil =>
    simp only [groupKeysLoop, Prod.mk.injEq, Except.ok.injEq] at h
    obtain ⟨_, rfl, rfl⟩ := h
    simp only [List.append_nil, List.reverse_reverse, List.length_nil, Nat.add_zero]
    exact ⟨hinv, trivial, hnd⟩
  | cons k ks ih =>
    simp only [groupKeysLoop] at h
    have key : ∀ (c1 : Cache) (l : Region), l.contains k = true →
        groupKeysLoop pd ks c1 (some l) (groupAdd g l.verID k) (l :: locs) = (c', .ok (g', locs')) →
        (∀ k' ∈ done ++ k :: ks, Grouped g' locs'.reverse k') ∧ groupTotal g' = groupTotal g + (k :: ks).length ∧
          (g'.map (·.1)).Nodup := by
      intro c1 l hc h'
      have hinv' : ∀ k' ∈ done ++ [k], Grouped (groupAdd g l.verID k) (l :: locs) k' := by
        intro k' hk'
        rcases List.mem_append.mp hk' with hk' | hk'
        · exact (hinv k' hk').step _ _ _
        · simp only [List.mem_singleton] at hk'
          subst hk'
          obtain ⟨ks', h1, h2⟩ := groupAdd_self g l.verID k'
          exact ⟨l, List.mem_cons_self .., hc, ks', h1, h2⟩
      have := ih h' hinv' (groupAdd_nodup _ _ hnd)
      rw [groupAdd_total] at this
      refine ⟨?_, ?_, this.2.2⟩
      · simpa using this.1
      · simp only [List.length_cons]; omega
    split at h
    · rename_i l hl
      have hc : l.contains k = true := by
        split at hl
        · split at hl
          · rename_i l0 _ hcl; cases hl; exact hcl
          · cases hl
        · cases hl
      exact key c l hc h
    · cases hloc : locateKey c pd k with
      | mk c1 res =>
        rw [hloc] at h
        cases res with
        | error x => simp at h
        | ok l => exact key c1 l (locateKey_contains hloc) h

end CGV.Region

namespace CGV.Region
open CGV

/-! ## BatchLocateKeyRanges, step 1: every key of every range is in a gathered cached region or in an uncached range -/

def ServedBy (cached : List Entry) (uncached : List KeyRange) (kr : KeyRange) : Prop :=
  ∀ k, Bytes.le kr.start k = true → InR kr.end_ k →
    (∃ c ∈ cached, c.r.contains k = true) ∨ (∃ u ∈ uncached, Bytes.le u.start k = true ∧ InR u.end_ k)

def CovE (cached : List Entry) (s0 e cur : Bytes) : Prop := CovUpTo (cached.map (·.r)) s0 e cur

def LastOK (st : Step1) (e : Bytes) : Prop :=
  ∀ l, st.last = some l → l ∈ st.cached ∧ ∃ x, Bytes.le l.r.start x = true ∧ InR e x

def Grows (st st' : Step1) : Prop := (∀ x ∈ st.cached, x ∈ st'.cached) ∧ (∀ x ∈ st.uncached, x ∈ st'.uncached)

theorem Grows.refl (st : Step1) : Grows st st := ⟨fun _ h => h, fun _ h => h⟩
theorem Grows.trans {a b c : Step1} (h1 : Grows a b) (h2 : Grows b c) : Grows a c :=
  ⟨fun x h => h2.1 x (h1.1 x h), fun x h => h2.2 x (h1.2 x h)⟩

theorem ServedBy.mono {c c' : List Entry} {u u' : List KeyRange} {kr : KeyRange} (h : ServedBy c u kr)
    (hc : ∀ x ∈ c, x ∈ c') (hu : ∀ x ∈ u, x ∈ u') : ServedBy c' u' kr := by
  intro k h1 h2
  rcases h k h1 h2 with ⟨x, hx, hxc⟩ | ⟨x, hx, hxc⟩
  · exact Or.inl ⟨x, hc x hx, hxc⟩
  · exact Or.inr ⟨x, hu x hx, hxc⟩

theorem next_inR {r : Region} {s e : Bytes} (hc : r.contains s = true) (hin : InR e s)
    (hce : ¬ r.containsByEnd e = true) : InR e r.endKey := by
  cases e with
  | nil => left; rfl
  | cons x xs =>
    right
    rcases hin with hin | hin
    · cases hin
    · unfold Region.contains at hc
      simp only [Bool.and_eq_true] at hc
      have hlt : Bytes.lt r.start (x :: xs) = true := lt_of_le_of_lt hc.1 hin
      unfold Region.containsByEnd at hce
      simp only [List.isEmpty_cons, Bool.false_eq_true, if_false, hlt, Bool.true_and, Bool.or_eq_true, not_or] at hce
      rcases le_total (x :: xs) r.endKey with h | h
      · exact absurd h hce.1
      · exact h

theorem covE_snoc {cached : List Entry} {s0 e cur : Bytes} {r : Entry} (h : CovE cached s0 e cur)
    (hc : r.r.contains cur = true) : CovE (cached ++ [r]) s0 e r.r.endKey := by
  unfold CovE at *
  apply (covUpTo_step h hc).mono
  intro l hl
  simp only [List.map_append, List.map_cons, List.map_nil, List.mem_append, List.mem_singleton]
  rcases List.mem_cons.mp hl with h | h
  · right; exact h
  · left; exact h

theorem covers_snoc {cached : List Entry} {s0 e cur : Bytes} {r : Entry} (h : CovE cached s0 e cur)
    (hc : r.r.contains cur = true) (hce : r.r.containsByEnd e = true) :
    Covers ((cached ++ [r]).map (·.r)) s0 e := by
  intro k h1 h2
  obtain ⟨l, hl, hlc⟩ := covers_done h hc hce k h1 h2
  refine ⟨l, ?_, hlc⟩
  simp only [List.map_append, List.map_cons, List.map_nil, List.mem_append, List.mem_singleton]
  rcases List.mem_cons.mp hl with h | h
  · right; exact h
  · left; exact h

theorem step1Batch_spec {e s0 : Bytes} {batch : List Entry} {st st' : Step1} {s s' : Bytes} {stop all : Bool}
    (h : step1Batch e batch st s = (st', s', stop, all)) (hcov : CovE st.cached s0 e s) (hin : InR e s)
    (hl : LastOK st e) :
    Grows st st' ∧ st'.uncached = st.uncached ∧ LastOK st' e ∧ (stop = false → all = false) ∧
      (all = true → Covers (st'.cached.map (·.r)) s0 e) ∧ (all = false → CovE st'.cached s0 e s' ∧ InR e s') := by
  induction batch generalizing st s with
  | nil =>
    simp only [step1Batch, Prod.mk.injEq] at h
    obtain ⟨rfl, rfl, rfl, rfl⟩ := h
    exact ⟨Grows.refl _, rfl, hl, fun _ => rfl, (by intro h; cases h), fun _ => ⟨hcov, hin⟩⟩
  | cons r rs ih =>
    simp only [step1Batch] at h
    by_cases hc : r.r.contains s = true
    · simp only [hc, Bool.not_true, Bool.false_eq_true, if_false] at h
      have hl1 : LastOK { st with cached := st.cached ++ [r], last := some r } e := by
        intro l hl'
        simp only [Option.some.injEq] at hl'
        subst hl'
        refine ⟨by simp, s, ?_, hin⟩
        unfold Region.contains at hc
        simp only [Bool.and_eq_true] at hc
        exact hc.1
      have hg1 : Grows st { st with cached := st.cached ++ [r], last := some r } :=
        ⟨fun x hx => by simp [hx], fun x hx => hx⟩
      by_cases hce : r.r.containsByEnd e = true
      · simp only [hce, if_true, Prod.mk.injEq] at h
        obtain ⟨rfl, rfl, rfl, rfl⟩ := h
        exact ⟨hg1, rfl, hl1, (by intro h; cases h), fun _ => covers_snoc hcov hc hce, (by intro h; cases h)⟩
      · simp only [hce, Bool.false_eq_true, if_false] at h
        have := ih h (covE_snoc hcov hc) (next_inR hc hin hce) hl1
        exact ⟨hg1.trans this.1, this.2.1, this.2.2⟩
    · simp only [hc, Bool.not_false, if_true, Prod.mk.injEq] at h
      obtain ⟨rfl, rfl, rfl, rfl⟩ := h
      exact ⟨Grows.refl _, rfl, hl, (by intro h; cases h), (by intro h; cases h), fun _ => ⟨hcov, hin⟩⟩

theorem step1Scan_spec {fuel : Nat} {c : Cache} {e s0 : Bytes} {st st' : Step1} {s s' : Bytes} {all : Bool}
    (h : step1Scan fuel c e st s = (st', s', all)) (hcov : CovE st.cached s0 e s) (hin : InR e s)
    (hl : LastOK st e) :
    Grows st st' ∧ st'.uncached = st.uncached ∧ LastOK st' e ∧
      (all = true → Covers (st'.cached.map (·.r)) s0 e) ∧ (all = false → CovE st'.cached s0 e s' ∧ InR e s') := by
  induction fuel generalizing st s with
  | zero =>
    simp only [step1Scan, Prod.mk.injEq] at h
    obtain ⟨rfl, rfl, rfl⟩ := h
    exact ⟨Grows.refl _, rfl, hl, (by intro h; cases h), fun _ => ⟨hcov, hin⟩⟩
  | succ n ih =>
    simp only [step1Scan] at h
    cases hb : step1Batch e (scanRegionsFromCache c s e limitPerBatch) st s with
    | mk st1 rest =>
      obtain ⟨s1, stop, all1⟩ := rest
      rw [hb] at h
      simp only at h
      have hs := step1Batch_spec hb hcov hin hl
      cases stop with
      | true =>
        simp only [if_true, Prod.mk.injEq] at h
        obtain ⟨rfl, rfl, rfl⟩ := h
        exact ⟨hs.1, hs.2.1, hs.2.2.1, hs.2.2.2.2⟩
      | false =>
        have hall : all1 = false := hs.2.2.2.1 rfl
        subst hall
        have hf := hs.2.2.2.2.2 rfl
        simp only [Bool.false_eq_true, if_false] at h
        split at h
        · simp only [Prod.mk.injEq] at h
          obtain ⟨rfl, rfl, rfl⟩ := h
          exact ⟨hs.1, hs.2.1, hs.2.2.1, (by intro h; cases h), fun _ => hf⟩
        · have := ih h hf.1 hf.2 hs.2.2.1
          exact ⟨hs.1.trans this.1, by rw [this.2.1, hs.2.1], this.2.2⟩

end CGV.Region

namespace CGV.Region
open CGV

/-- sorted, pairwise disjoint request ranges with start < end; only the last one may be unbounded -/
def ValidRangesP : List KeyRange → Prop
  | [] => True
  | [r] => InR r.end_ r.start
  | r :: r' :: rest => Bytes.lt r.start r.end_ = true ∧ Bytes.le r.end_ r'.start = true ∧ ValidRangesP (r' :: rest)

theorem served_of_cov_uncached {cached : List Entry} {uncached : List KeyRange} {kr : KeyRange} {s : Bytes}
    (hcov : CovE cached kr.start kr.end_ s) : ServedBy cached (uncached ++ [⟨s, kr.end_⟩]) kr := by
  intro k h1 h2
  rcases le_total s k with hk | hk
  · exact Or.inr ⟨⟨s, kr.end_⟩, by simp, hk, h2⟩
  · obtain ⟨l, hl, hlc⟩ := hcov k h1 hk h2
    obtain ⟨c, hc, rfl⟩ := List.mem_map.mp hl
    exact Or.inl ⟨c, hc, hlc⟩

theorem served_of_covers {cached : List Entry} {uncached : List KeyRange} {kr : KeyRange}
    (hcov : Covers (cached.map (·.r)) kr.start kr.end_) : ServedBy cached uncached kr := by
  intro k h1 h2
  obtain ⟨l, hl, hlc⟩ := hcov k h1 h2
  obtain ⟨c, hc, rfl⟩ := List.mem_map.mp hl
  exact Or.inl ⟨c, hc, hlc⟩

theorem step1From_spec {fuel : Nat} {c : Cache} {st : Step1} {kr : KeyRange} {s : Bytes}
    (hcov : CovE st.cached kr.start kr.end_ s) (hin : InR kr.end_ s) :
    Grows st (step1From fuel c st kr.end_ s) ∧
      ServedBy (step1From fuel c st kr.end_ s).cached (step1From fuel c st kr.end_ s).uncached kr ∧
      LastOK (step1From fuel c st kr.end_ s) kr.end_ := by
  unfold step1From
  split
  · refine ⟨⟨fun x hx => hx, fun x hx => by simp [hx]⟩, served_of_cov_uncached hcov, ?_⟩
    intro l hl; cases hl
  · rename_i r hr
    have hc := tryFind_contains hr
    have hg1 : Grows st { st with last := some r, cached := st.cached ++ [r] } :=
      ⟨fun x hx => by simp [hx], fun x hx => hx⟩
    have hl1 : LastOK { st with last := some r, cached := st.cached ++ [r] } kr.end_ := by
      intro l hl'
      simp only [Option.some.injEq] at hl'
      subst hl'
      refine ⟨by simp, s, ?_, hin⟩
      unfold Region.contains at hc
      simp only [Bool.and_eq_true] at hc
      exact hc.1
    simp only
    by_cases hce : r.r.containsByEnd kr.end_ = true
    · simp only [hce, if_true]
      exact ⟨hg1, served_of_covers (covers_snoc hcov hc hce), hl1⟩
    · simp only [hce, Bool.false_eq_true, if_false]
      cases hsc : step1Scan fuel c kr.end_ { st with last := some r, cached := st.cached ++ [r] } r.r.endKey with
      | mk st2 rest =>
        obtain ⟨s2, all⟩ := rest
        have hs := step1Scan_spec hsc (covE_snoc hcov hc) (next_inR hc hin hce) hl1
        simp only
        cases all with
        | true =>
          simp only [if_true]
          exact ⟨hg1.trans hs.1, served_of_covers (hs.2.2.2.1 rfl), hs.2.2.1⟩
        | false =>
          simp only [Bool.false_eq_true, if_false]
          refine ⟨hg1.trans ⟨hs.1.1, fun x hx => by simp [hs.1.2 x hx]⟩, served_of_cov_uncached (hs.2.2.2.2 rfl).1, ?_⟩
          intro l hl'
          exact hs.2.2.1 l hl'

theorem step1Range_spec {fuel : Nat} {c : Cache} {st : Step1} {kr : KeyRange}
    (hv : InR kr.end_ kr.start)
    (hlast : ∀ l, st.last = some l → l ∈ st.cached ∧ Bytes.le l.r.start kr.start = true) :
    Grows st (step1Range fuel c st kr) ∧
      ServedBy (step1Range fuel c st kr).cached (step1Range fuel c st kr).uncached kr ∧
      LastOK (step1Range fuel c st kr) kr.end_ := by
  have hinit : CovE st.cached kr.start kr.end_ kr.start :=
    (covUpTo_init kr.start kr.end_).mono (by intro l hl; cases hl)
  unfold step1Range
  split
  · rename_i l hl
    obtain ⟨hlm, hls⟩ := hlast l hl
    by_cases hce : l.r.containsByEnd kr.end_ = true
    · simp only [hce, if_true]
      refine ⟨Grows.refl _, ?_, ?_⟩
      · intro k h1 h2
        refine Or.inl ⟨l, hlm, ?_⟩
        unfold Region.contains
        simp only [Bool.and_eq_true, Bool.or_eq_true]
        refine ⟨le_trans hls h1, ?_⟩
        rcases below_end_of_containsByEnd hce h2 with h | h
        · right; simp [h]
        · left; exact h
      · intro l' hl'
        rw [hl] at hl'
        cases hl'
        exact ⟨hlm, kr.start, hls, hv⟩
    · simp only [hce, Bool.false_eq_true, if_false]
      by_cases hc : l.r.contains kr.start = true
      · simp only [hc, if_true]
        apply step1From_spec
        · unfold CovE
          apply (covUpTo_step (covUpTo_init kr.start kr.end_) hc).mono
          intro x hx
          simp only [List.mem_singleton] at hx
          subst hx
          exact List.mem_map.mpr ⟨l, hlm, rfl⟩
        · exact next_inR hc hv hce
      · simp only [hc, Bool.false_eq_true, if_false]
        exact step1From_spec hinit hv
  · exact step1From_spec hinit hv

theorem validRanges_head {kr : KeyRange} {rest : List KeyRange} (h : ValidRangesP (kr :: rest)) :
    InR kr.end_ kr.start ∧ ∀ kr' ∈ rest, kr.end_ ≠ [] ∧ Bytes.le kr.end_ kr'.start = true := by
  induction rest generalizing kr with
  | nil =>
    simp only [ValidRangesP] at h
    exact ⟨h, by intro _ h; cases h⟩
  | cons r2 rest ih =>
    simp only [ValidRangesP] at h
    obtain ⟨h1, h2, h3⟩ := h
    have hne : kr.end_ ≠ [] := by
      intro h0; rw [h0, not_lt_nil] at h1; cases h1
    refine ⟨Or.inr h1, ?_⟩
    intro kr' hkr'
    rcases List.mem_cons.mp hkr' with rfl | hkr'
    · exact ⟨hne, h2⟩
    · have := (ih h3).2 kr' hkr'
      have hv2 := (ih h3).1
      rcases hv2 with hv2 | hv2
      · exact absurd hv2 this.1
      · exact ⟨hne, le_trans h2 (le_trans (le_of_lt hv2) this.2)⟩

theorem batchStep1_spec {fuel : Nat} {c : Cache} {ranges : List KeyRange} {st : Step1}
    (hv : ValidRangesP ranges)
    (hlast : ∀ l, st.last = some l → l ∈ st.cached ∧ ∀ kr ∈ ranges, Bytes.le l.r.start kr.start = true) :
    Grows st (ranges.foldl (step1Range fuel c) st) ∧
      ∀ kr ∈ ranges, ServedBy (ranges.foldl (step1Range fuel c) st).cached
        (ranges.foldl (step1Range fuel c) st).uncached kr := by
  induction ranges generalizing st with
  | nil => exact ⟨Grows.refl _, by intro _ h; cases h⟩
  | cons kr rest ih =>
    simp only [List.foldl_cons]
    have hh := validRanges_head hv
    have hs := step1Range_spec (fuel := fuel) (c := c) (st := st) hh.1
      (fun l hl => ⟨(hlast l hl).1, (hlast l hl).2 kr (List.mem_cons_self ..)⟩)
    have hvr : ValidRangesP rest := by
      cases rest with
      | nil => simp [ValidRangesP]
      | cons r2 rest' => simp only [ValidRangesP] at hv; exact hv.2.2
    have hlast' : ∀ l, (step1Range fuel c st kr).last = some l →
        l ∈ (step1Range fuel c st kr).cached ∧ ∀ kr' ∈ rest, Bytes.le l.r.start kr'.start = true := by
      intro l hl
      obtain ⟨hm, x, hx1, hx2⟩ := hs.2.2 l hl
      refine ⟨hm, ?_⟩
      intro kr' hkr'
      obtain ⟨hne, hle⟩ := hh.2 kr' hkr'
      rcases hx2 with hx2 | hx2
      · exact absurd hx2 hne
      · exact le_trans hx1 (le_of_lt (lt_of_lt_of_le hx2 hle))
    have hi := ih hvr hlast'
    refine ⟨hs.1.trans hi.1, ?_⟩
    intro kr' hkr'
    rcases List.mem_cons.mp hkr' with rfl | hkr'
    · exact hs.2.1.mono hi.1.1 hi.1.2
    · exact hi.2 kr' hkr'

end CGV.Region

namespace CGV.Region
open CGV

/-! ## the merger (after /repo 5462de8) -/

/-- every key of `c` is contained in some location of `ls` -/
def KeysCovered (ls : List Region) (c : Region) : Prop := ∀ k, c.contains k = true → ∃ l ∈ ls, l.contains k = true

/-- non-decreasing start keys -/
def StartsSorted (cs : List Region) : Prop := cs.Pairwise (fun a b => Bytes.le a.start b.start = true)

/-- what `lastEndKey = E` stands for: the merged locations cover [S, E) for some S at or below every cached
    region still waiting -/
def MergerJ (m : Merger) : Prop :=
  ∀ E, m.lastEndKey = some E →
    ∃ S, (∀ k, Bytes.le S k = true → Bytes.lt k E = true → ∃ l ∈ m.merged, l.contains k = true) ∧
      ∀ c ∈ m.cached, Bytes.le S c.start = true

theorem skipped_covered {m : Merger} (hj : MergerJ m) {c : Region} (hc : c ∈ m.cached)
    (hs : skipTest m.lastEndKey c = true) : KeysCovered m.merged c := by
  unfold skipTest at hs
  cases hE : m.lastEndKey with
  | none => simp [hE] at hs
  | some E =>
    simp only [hE, Bool.and_eq_true, Bool.not_eq_eq_eq_not, Bool.not_true] at hs
    obtain ⟨S, hcov, hS⟩ := hj E hE
    intro k hk
    unfold Region.contains at hk
    simp only [Bool.and_eq_true, Bool.or_eq_true] at hk
    rcases hk.2 with h | h
    · exact hcov k (le_trans (hS c hc) hk.1) (lt_of_lt_of_le h hs.2)
    · rw [hs.1] at h; cases h

theorem flushBefore_spec (le : Option Bytes) (us : Bytes) (cs merged : List Region) :
    (∀ x ∈ merged, x ∈ (mergerFlushBefore le us cs merged).2) ∧
    (∃ pre, cs = pre ++ (mergerFlushBefore le us cs merged).1) ∧
    (∀ c, (mergerFlushBefore le us cs merged).1.head? = some c → Bytes.le us c.start = true) ∧
    (∀ c ∈ cs, c ∈ (mergerFlushBefore le us cs merged).1 ∨ c ∈ (mergerFlushBefore le us cs merged).2 ∨
      skipTest le c = true) := by
  induction cs generalizing merged with
  | nil =>
    simp only [mergerFlushBefore]
    exact ⟨fun x hx => hx, ⟨[], rfl⟩, (by intro c h; cases h), (by intro c h; cases h)⟩
  | cons c cs ih =>
    simp only [mergerFlushBefore]
    by_cases h1 : skipTest le c = true
    · simp only [h1, if_true]
      obtain ⟨a, ⟨pre, b⟩, c3, d⟩ := ih merged
      refine ⟨a, ⟨c :: pre, by rw [List.cons_append, ← b]⟩, c3, ?_⟩
      intro x hx
      rcases List.mem_cons.mp hx with rfl | hx
      · exact Or.inr (Or.inr h1)
      · exact d x hx
    · simp only [h1, Bool.false_eq_true, if_false]
      by_cases h2 : Bytes.le us c.start = true
      · simp only [h2, if_true]
        refine ⟨fun x hx => hx, ⟨[], rfl⟩, ?_, fun x hx => Or.inl hx⟩
        intro c' hc'
        simp only [List.head?_cons, Option.some.injEq] at hc'
        subst hc'; exact h2
      · simp only [h2, Bool.false_eq_true, if_false]
        obtain ⟨a, ⟨pre, b⟩, c3, d⟩ := ih (c :: merged)
        refine ⟨fun x hx => a x (List.mem_cons_of_mem _ hx), ⟨c :: pre, by rw [List.cons_append, ← b]⟩, c3, ?_⟩
        intro x hx
        rcases List.mem_cons.mp hx with rfl | hx
        · exact Or.inr (Or.inl (a _ (List.mem_cons_self ..)))
        · exact d x hx

theorem flushRest_spec (le : Option Bytes) (cs merged : List Region) :
    (∀ x ∈ merged, x ∈ mergerFlushRest le cs merged) ∧
    (∀ c ∈ cs, c ∈ mergerFlushRest le cs merged ∨ skipTest le c = true) := by
  induction cs generalizing merged with
  | nil => simp only [mergerFlushRest]; exact ⟨fun x hx => hx, by intro c h; cases h⟩
  | cons c cs ih =>
    simp only [mergerFlushRest]
    by_cases h1 : skipTest le c = true
    · simp only [h1, if_true]
      obtain ⟨a, d⟩ := ih merged
      refine ⟨a, ?_⟩
      intro x hx
      rcases List.mem_cons.mp hx with rfl | hx
      · exact Or.inr h1
      · exact d x hx
    · simp only [h1, Bool.false_eq_true, if_false]
      obtain ⟨a, d⟩ := ih (c :: merged)
      refine ⟨fun x hx => a x (List.mem_cons_of_mem _ hx), ?_⟩
      intro x hx
      rcases List.mem_cons.mp hx with rfl | hx
      · exact Or.inl (a _ (List.mem_cons_self ..))
      · exact d x hx

/-- the invariant of the merger with respect to the cached regions `C0` it started with -/
structure MergerInv (C0 : List Region) (m : Merger) : Prop where
  sorted : StartsSorted m.cached
  j : MergerJ m
  k : ∀ c ∈ C0, c ∈ m.cached ∨ KeysCovered m.merged c

theorem KeysCovered.mono {ls ls' : List Region} {c : Region} (h : KeysCovered ls c) (hs : ∀ l ∈ ls, l ∈ ls') :
    KeysCovered ls' c := by
  intro k hk
  obtain ⟨l, hl, hlc⟩ := h k hk
  exact ⟨l, hs l hl, hlc⟩

theorem keysCovered_self {ls : List Region} {c : Region} (h : c ∈ ls) : KeysCovered ls c :=
  fun _ hk => ⟨c, h, hk⟩

theorem contains_unbounded {u : Region} {k : Bytes} (hu : u.endKey = []) (hk : Bytes.le u.start k = true) :
    u.contains k = true := by
  unfold Region.contains; simp [hk, hu]

theorem contains_of_bounds {u : Region} {k : Bytes} (h1 : Bytes.le u.start k = true)
    (h2 : u.endKey = [] ∨ Bytes.lt k u.endKey = true) : u.contains k = true := by
  unfold Region.contains
  simp only [Bool.and_eq_true, Bool.or_eq_true]
  refine ⟨h1, ?_⟩
  rcases h2 with h | h
  · right; simp [h]
  · left; exact h

end CGV.Region

namespace CGV.Region
open CGV

/-- what the body of appendRegion establishes -/
structure CoreFacts (C0 : List Region) (m m1 : Merger) (u : Region) : Prop where
  grow : ∀ x ∈ m.merged, x ∈ m1.merged
  self : u ∈ m1.merged
  sorted : StartsSorted m1.cached
  k : ∀ c ∈ C0, c ∈ m1.cached ∨ KeysCovered m1.merged c
  leq : m1.lastEndKey = m.lastEndKey
  j : MergerJ m1
  e : ∃ S, (∀ k, Bytes.le S k = true → (u.endKey = [] ∨ Bytes.lt k u.endKey = true) → ∃ l ∈ m1.merged, l.contains k = true) ∧
        ∀ c ∈ m1.cached, Bytes.le S c.start = true

theorem appendCore_facts {C0 : List Region} {m : Merger} (h : MergerInv C0 m) (u : Region) :
    CoreFacts C0 m (m.appendCore u) u := by
  unfold Merger.appendCore
  by_cases h1 : u.start.isEmpty = true
  · simp only [h1, if_true]
    have hs : u.start = [] := by simpa using h1
    refine ⟨fun x hx => List.mem_cons_of_mem _ hx, List.mem_cons_self .., h.sorted, ?_, rfl, ?_, ?_⟩
    · intro c hc
      rcases h.k c hc with hk | hk
      · exact Or.inl hk
      · exact Or.inr (hk.mono fun l hl => List.mem_cons_of_mem _ hl)
    · intro E hE
      obtain ⟨S, h1', h2'⟩ := h.j E hE
      refine ⟨S, ?_, h2'⟩
      intro k hk1 hk2
      obtain ⟨l, hl, hlc⟩ := h1' k hk1 hk2
      exact ⟨l, List.mem_cons_of_mem _ hl, hlc⟩
    · refine ⟨[], ?_, fun c _ => nil_le _⟩
      intro k _ hk
      exact ⟨u, List.mem_cons_self .., contains_of_bounds (by rw [hs]; exact nil_le k) hk⟩
  · simp only [h1, Bool.false_eq_true, if_false]
    by_cases h2 : m.coveredUpTo u.start = true
    · simp only [h2, if_true]
      refine ⟨fun x hx => List.mem_cons_of_mem _ hx, List.mem_cons_self .., h.sorted, ?_, rfl, ?_, ?_⟩
      · intro c hc
        rcases h.k c hc with hk | hk
        · exact Or.inl hk
        · exact Or.inr (hk.mono fun l hl => List.mem_cons_of_mem _ hl)
      · intro E hE
        obtain ⟨S, h1', h2'⟩ := h.j E hE
        refine ⟨S, ?_, h2'⟩
        intro k hk1 hk2
        obtain ⟨l, hl, hlc⟩ := h1' k hk1 hk2
        exact ⟨l, List.mem_cons_of_mem _ hl, hlc⟩
      · unfold Merger.coveredUpTo at h2
        cases hE : m.lastEndKey with
        | none => simp [hE] at h2
        | some E =>
          simp only [hE] at h2
          obtain ⟨S, h1', h2'⟩ := h.j E hE
          refine ⟨S, ?_, h2'⟩
          intro k hk1 hk2
          rcases le_total E k with hEk | hEk
          · exact ⟨u, List.mem_cons_self .., contains_of_bounds (le_trans h2 hEk) hk2⟩
          · obtain ⟨l, hl, hlc⟩ := h1' k hk1 hEk
            exact ⟨l, List.mem_cons_of_mem _ hl, hlc⟩
    · simp only [h2, Bool.false_eq_true, if_false]
      obtain ⟨fa, ⟨pre, fb⟩, fc, fd⟩ := flushBefore_spec m.lastEndKey u.start m.cached m.merged
      have hsub : ∀ c ∈ (mergerFlushBefore m.lastEndKey u.start m.cached m.merged).1, c ∈ m.cached := by
        intro c hc; rw [fb]; exact List.mem_append_right _ hc
      have hsorted : StartsSorted (mergerFlushBefore m.lastEndKey u.start m.cached m.merged).1 := by
        have := h.sorted
        unfold StartsSorted at *
        rw [fb] at this
        exact (List.pairwise_append.mp this).2.1
      refine ⟨fun x hx => List.mem_cons_of_mem _ (fa x hx), List.mem_cons_self .., hsorted, ?_, rfl, ?_, ?_⟩
      · intro c hc
        rcases h.k c hc with hk | hk
        · rcases fd c hk with h' | h' | h'
          · exact Or.inl h'
          · exact Or.inr (keysCovered_self (List.mem_cons_of_mem _ h'))
          · exact Or.inr ((skipped_covered h.j hk h').mono fun l hl => List.mem_cons_of_mem _ (fa l hl))
        · exact Or.inr (hk.mono fun l hl => List.mem_cons_of_mem _ (fa l hl))
      · intro E hE
        obtain ⟨S, h1', h2'⟩ := h.j E hE
        refine ⟨S, ?_, fun c hc => h2' c (hsub c hc)⟩
        intro k hk1 hk2
        obtain ⟨l, hl, hlc⟩ := h1' k hk1 hk2
        exact ⟨l, List.mem_cons_of_mem _ (fa l hl), hlc⟩
      · refine ⟨u.start, ?_, ?_⟩
        · intro k hk1 hk2
          exact ⟨u, List.mem_cons_self .., contains_of_bounds hk1 hk2⟩
        · intro c hc
          cases hcs : (mergerFlushBefore m.lastEndKey u.start m.cached m.merged).1 with
          | nil => rw [hcs] at hc; cases hc
          | cons c0 rest =>
            have h0 : Bytes.le u.start c0.start = true := fc c0 (by rw [hcs]; rfl)
            rw [hcs] at hc hsorted
            rcases List.mem_cons.mp hc with rfl | hc
            · exact h0
            · unfold StartsSorted at hsorted
              exact le_trans h0 ((List.pairwise_cons.mp hsorted).1 c hc)

theorem appendRegion_inv {C0 : List Region} {m : Merger} (h : MergerInv C0 m) (u : Region) :
    MergerInv C0 (m.appendRegion u) ∧ (∀ x ∈ m.merged, x ∈ (m.appendRegion u).merged) ∧
      u ∈ (m.appendRegion u).merged := by
  have f := appendCore_facts h u
  unfold Merger.appendRegion
  by_cases hu : u.endKey.isEmpty = true
  · simp only [hu, if_true]
    have hu' : u.endKey = [] := by simpa using hu
    refine ⟨⟨by simp [StartsSorted], ?_, ?_⟩, f.grow, f.self⟩
    · intro E hE
      obtain ⟨S, h1, _⟩ := f.j E hE
      exact ⟨S, h1, by intro c hc; cases hc⟩
    · intro c hc
      rcases f.k c hc with hk | hk
      · right
        obtain ⟨S, h1, h2⟩ := f.e
        intro k hk'
        unfold Region.contains at hk'
        simp only [Bool.and_eq_true] at hk'
        exact h1 k (le_trans (h2 c hk) hk'.1) (Or.inl hu')
      · exact Or.inr hk
  · simp only [hu, Bool.false_eq_true, if_false]
    have hu' : u.endKey ≠ [] := by simpa using hu
    refine ⟨⟨f.sorted, ?_, f.k⟩, f.grow, f.self⟩
    intro E hE
    simp only [Option.some.injEq] at hE
    subst hE
    obtain ⟨S, h1, h2⟩ := f.e
    exact ⟨S, fun k hk1 hk2 => h1 k hk1 (Or.inr hk2), h2⟩

theorem foldl_appendRegion_inv {C0 : List Region} (us : List Region) {m : Merger} (h : MergerInv C0 m) :
    MergerInv C0 (us.foldl Merger.appendRegion m) ∧ (∀ x ∈ m.merged, x ∈ (us.foldl Merger.appendRegion m).merged) ∧
      ∀ u ∈ us, u ∈ (us.foldl Merger.appendRegion m).merged := by
  induction us generalizing m with
  | nil => exact ⟨h, fun x hx => hx, by intro u hu; cases hu⟩
  | cons u us ih =>
    simp only [List.foldl_cons]
    obtain ⟨h1, h2, h3⟩ := appendRegion_inv h u
    obtain ⟨i1, i2, i3⟩ := ih h1
    refine ⟨i1, fun x hx => i2 x (h2 x hx), ?_⟩
    intro v hv
    rcases List.mem_cons.mp hv with rfl | hv
    · exact i2 _ h3
    · exact i3 v hv

theorem build_covers {C0 : List Region} {m : Merger} (h : MergerInv C0 m) :
    (∀ x ∈ m.merged, x ∈ m.build) ∧ ∀ c ∈ C0, KeysCovered m.build c := by
  unfold Merger.build
  obtain ⟨a, d⟩ := flushRest_spec m.lastEndKey m.cached m.merged
  refine ⟨fun x hx => List.mem_reverse.mpr (a x hx), ?_⟩
  intro c hc
  rcases h.k c hc with hk | hk
  · rcases d c hk with h' | h'
    · exact keysCovered_self (List.mem_reverse.mpr h')
    · exact (skipped_covered h.j hk h').mono fun l hl => List.mem_reverse.mpr (a l hl)
  · exact hk.mono fun l hl => List.mem_reverse.mpr (a l hl)

theorem mergerInv_init {C : List Region} (hs : StartsSorted C) : MergerInv C ⟨none, C, []⟩ :=
  ⟨hs, (by intro E hE; cases hE), fun c hc => Or.inl hc⟩

end CGV.Region

namespace CGV.Region
open CGV

/-! ## step 2 of BatchLocateKeyRanges with at most one uncached range -/

theorem rangesAfterKey_single (cur e sk : Bytes) :
    (rangesAfterKey [⟨cur, e⟩] sk = [] ∧ (sk = [] ∨ (e ≠ [] ∧ Bytes.le e sk = true))) ∨
    (sk ≠ [] ∧ ∃ cur', rangesAfterKey [⟨cur, e⟩] sk = [⟨cur', e⟩] ∧
      ((cur' = sk ∧ Bytes.lt cur sk = true) ∨ (cur' = cur ∧ Bytes.lt cur sk = false))) := by
  unfold rangesAfterKey
  simp only [List.getLast?_singleton]
  by_cases h1 : (sk.isEmpty || (!e.isEmpty && Bytes.le e sk)) = true
  · simp only [h1, if_true]
    left
    refine ⟨trivial, ?_⟩
    simp only [Bool.or_eq_true, Bool.and_eq_true, Bool.not_eq_eq_eq_not, Bool.not_true] at h1
    rcases h1 with h | h
    · left; simpa using h
    · right; exact ⟨by intro h0; simp [h0] at h, h.2⟩
  · simp only [h1, Bool.false_eq_true, if_false]
    right
    simp only [Bool.or_eq_true, Bool.and_eq_true, not_or, not_and, Bool.not_eq_true] at h1
    have hsk : sk ≠ [] := by intro h0; simp [h0] at h1
    refine ⟨hsk, ?_⟩
    have hkeep : (!(e.isEmpty || Bytes.lt sk e)) = false := by
      cases he : e.isEmpty with
      | true => simp
      | false =>
        have := h1.2 (by simp [he])
        rcases le_total e sk with h | h
        · rw [h] at this; cases this
        · simp [h]
    simp only [List.dropWhile_cons, hkeep, Bool.false_eq_true, if_false]
    by_cases hlt : Bytes.lt cur sk = true
    · exact ⟨sk, by simp [hlt], Or.inl ⟨rfl, hlt⟩⟩
    · have hlt' : Bytes.lt cur sk = false := by simpa using hlt
      exact ⟨cur, by simp [hlt'], Or.inr ⟨rfl, hlt'⟩⟩

theorem batchStep2_nil (fuel : Nat) (c : Cache) (pd : PD) (m : Merger) : batchStep2 fuel c pd [] m = (c, .ok m) := by
  cases fuel <;> simp [batchStep2]

theorem foldl_appendRegion_entries (rs : List Entry) (m : Merger) :
    rs.foldl (fun m r => m.appendRegion r.r) m = (rs.map (·.r)).foldl Merger.appendRegion m := by
  rw [List.foldl_map]

theorem batchStep2_single {fuel : Nat} {c c' : Cache} {pd : PD} {cur e s0 : Bytes} {m m' : Merger} {C0 : List Region}
    (h : batchStep2 fuel c pd [⟨cur, e⟩] m = (c', .ok m')) (hinv : MergerInv C0 m)
    (hcov : CovUpTo m.merged s0 e cur) : MergerInv C0 m' ∧ Covers m'.merged s0 e := by
  induction fuel generalizing c cur m with
  | zero => simp [batchStep2] at h
  | succ n ih =>
    simp only [batchStep2, List.isEmpty_cons, Bool.false_eq_true, if_false, List.length_singleton] at h
    have hlen : ¬ (1 > 16 * limitPerBatch) := by
      simp [limitPerBatch, Gen.defaultRegionsPerBatch]
    simp only [hlen, if_false] at h
    cases hb : batchLoadRegionsWithKeyRanges c pd [⟨cur, e⟩] limitPerBatch with
    | mk c1 res =>
      rw [hb] at h
      cases res with
      | error x => simp at h
      | ok batch =>
        simp only at h
        have hgap := gapLoop_single (batchLoad_single_spec hb)
        cases hl : batch.getLast? with
        | none => rw [hl] at h; simp at h
        | some lastR =>
          rw [hl] at h
          simp only at h
          rw [foldl_appendRegion_entries] at h
          obtain ⟨i1, i2, i3⟩ := foldl_appendRegion_inv (batch.map (·.r)) hinv
          have hmem : lastR.r ∈ batch.map (·.r) := List.mem_map.mpr ⟨lastR, getLast?_mem hl, rfl⟩
          -- keys at or after `cur`: in a loaded region, or at/after the end of the last loaded region
          have hstep : ∀ k, Bytes.le s0 k = true → InR e k →
              (lastR.r.endKey = [] ∨ Bytes.lt k lastR.r.endKey = true) →
              ∃ l ∈ ((batch.map (·.r)).foldl Merger.appendRegion m).merged, l.contains k = true := by
            intro k hk1 hk3 hbelow
            rcases le_total cur k with hk | hk
            · rcases hgap k hk hk hk3 with ⟨l, hl', hlc⟩ | hall
              · exact ⟨l, i3 l hl', hlc⟩
              · have := hall _ hmem
                rcases hbelow with hb' | hb'
                · exact absurd hb' this.1
                · have := lt_of_lt_of_le hb' this.2
                  rw [lt_irrefl] at this; cases this
            · obtain ⟨l, hl', hlc⟩ := hcov k hk1 hk hk3
              exact ⟨l, i2 l hl', hlc⟩
          rcases rangesAfterKey_single cur e lastR.r.endKey with ⟨hr, hwhy⟩ | ⟨hne, cur', hr, hcur'⟩
          · rw [hr, batchStep2_nil] at h
            simp only [Prod.mk.injEq, Except.ok.injEq] at h
            rw [← h.2]
            refine ⟨i1, ?_⟩
            intro k hk1 hk3
            apply hstep k hk1 hk3
            rcases hwhy with hw | hw
            · exact Or.inl hw
            · rcases hk3 with hk3 | hk3
              · exact absurd hk3 hw.1
              · exact Or.inr (lt_of_lt_of_le hk3 hw.2)
          · rw [hr] at h
            apply ih h i1
            intro k hk1 hk2 hk3
            rcases hcur' with ⟨rfl, _⟩ | ⟨rfl, hnlt⟩
            · exact hstep k hk1 hk3 (Or.inr hk2)
            · -- cur was not below the last end: nothing new is needed below cur
              obtain ⟨l, hl', hlc⟩ := hcov k hk1 hk2 hk3
              exact ⟨l, i2 l hl', hlc⟩

end CGV.Region

namespace CGV.Region
open CGV

/-! ## findLastRegion (/repo f67ac70) -/

theorem findLastLoop_spec {fuel : Nat} {c c' : Cache} {pd : PD} {s : Bytes} {e : Entry}
    (h : findLastLoop fuel c pd s = (c', .ok e)) : e.r.endKey.isEmpty = true := by
  induction fuel generalizing c s with
  | zero => simp [findLastLoop] at h
  | succ n ih =>
    simp only [findLastLoop] at h
    split at h
    · simp at h
    · rename_i c1 rs _
      split at h
      · simp at h
      · rename_i last _
        by_cases hl : last.r.endKey.isEmpty = true
        · simp only [hl, if_true, Prod.mk.injEq, Except.ok.injEq] at h
          rw [← h.2]; exact hl
        · simp only [hl, Bool.false_eq_true, if_false] at h
          exact ih h

theorem findLastRegion_spec {fuel : Nat} {c c' : Cache} {pd : PD} {e : Entry}
    (h : findLastRegion fuel c pd = (c', .ok e)) : e.r.endKey.isEmpty = true := by
  unfold findLastRegion at h
  split at h
  · rename_i e0 _
    by_cases hc : (e0.r.endKey.isEmpty && !(e0.reload && !e0.delayedOnly) && e0.valid) = true
    · simp only [hc, if_true, Prod.mk.injEq, Except.ok.injEq] at h
      rw [← h.2]
      simp only [Bool.and_eq_true] at hc
      exact hc.1.1
    · simp only [hc, Bool.false_eq_true, if_false] at h
      exact findLastLoop_spec h
  · exact findLastLoop_spec h

end CGV.Region
