/-
  C17: the Commit wrapper (`nextAction`/`driveLock`/`commitTxn`) finishes its lock, and finished locks leave
  all latches free.
-/
import ClientGoVerif.Proofs.LatchTerm
namespace CGV.Latch
open CGV

/-- a finished lock is never touched again -/
theorem done_stable {cfg : Cfg} {s s' : State} (h1 : Inv1 cfg s) (h2 : Inv2 cfg s) {o : Option LockId}
    (e : Eff cfg s o s') {l' : LockId} {lk' : Lock} (hl : s.locks l' = some lk') (hd : lk'.phase = .done) :
    s'.locks l' = some lk' := by
  have one : ∀ (l0 : LockId) (lk0 x : Lock), s.locks l0 = some lk0 → lk0.phase ≠ .done →
      upd s.locks l0 (some x) l' = some lk' := by
    intro l0 lk0 x h0 hp
    have : l' ≠ l0 := by intro e; subst e; rw [hl] at h0; cases h0; exact hp hd
    rw [upd_ne _ _ this]; exact hl
  have two : ∀ (l0 w0 : LockId) (lk0 x lkw y : Lock), s.locks l0 = some lk0 → lk0.phase ≠ .done →
      s.locks w0 = some lkw → lkw.phase ≠ .done →
      upd (upd s.locks l0 (some x)) w0 (some y) l' = some lk' := by
    intro l0 w0 lk0 x lkw y h0 hp hw hpw
    have : l' ≠ w0 := by intro e; subst e; rw [hl] at hw; cases hw; exact hpw hd
    rw [upd_ne _ _ this]; exact one l0 lk0 x h0 hp
  have acq : ∀ (lk : Lock), (lk.phase = .acquiring ∨ lk.phase = .woken) → lk.phase ≠ .done := by
    intro lk hp; rcases hp with h | h <;> simp [h]
  cases e with
  | gen ts keys hnd =>
    have := h1.fresh _ _ hl
    show upd s.locks s.nlocks _ l' = some lk'
    rw [upd_ne _ _ (Nat.ne_of_lt this)]; exact hl
  | recycle i ts => exact hl
  | staleRet l0 lk h0 hp hst => exact one l0 lk _ h0 (acq lk hp)
  | acqNew l0 lk key slotID h0 hp hst hk hs hf => exact one l0 lk _ h0 (acq lk hp)
  | acqStale l0 lk key slotID n h0 hp hst hk hs hf hgt => exact one l0 lk _ h0 (acq lk hp)
  | acqFree l0 lk key slotID n h0 hp hst hk hs hf hle hh => exact one l0 lk _ h0 (acq lk hp)
  | acqLocked l0 lk key slotID n o h0 hp hst hk hs hf hle hh => exact one l0 lk _ h0 (acq lk hp)
  | unlock l0 lk c h0 hp => exact one l0 lk _ h0 (by simp [hp])
  | relNone l0 lk key slotID n h0 hp hc hk hs hf hh hw => exact one l0 lk _ h0 (by simp [hp])
  | relStale l0 lk key slotID n w lkw h0 hp hc hk hs hf hh hw hlw hgt =>
    obtain ⟨_, hwm⟩ := awaits_key hw hlw
    obtain ⟨x, _, hx, hpx, _, _⟩ := (h2.wok.mem slotID w).mp hwm
    rw [hlw] at hx; cases hx
    exact two l0 w lk _ lkw _ h0 (by simp [hp]) hlw (by simp [hpx])
  | relWake l0 lk key slotID n w lkw h0 hp hc hk hs hf hh hw hlw hle =>
    obtain ⟨_, hwm⟩ := awaits_key hw hlw
    obtain ⟨x, _, hx, hpx, _, _⟩ := (h2.wok.mem slotID w).mp hwm
    rw [hlw] at hx; cases hx
    exact two l0 w lk _ lkw _ h0 (by simp [hp]) hlw (by simp [hpx])

/-- a step of lock `l` lowers `l`'s own measure -/
theorem own_measure_eff {cfg : Cfg} {s s' : State} {l : LockId} (h1 : Inv1 cfg s)
    (e : Eff cfg s (some l) s') {lk : Lock} (hl : s.locks l = some lk) :
    ∃ lk', s'.locks l = some lk' ∧ lockMeasure (some lk') < lockMeasure (some lk) := by
  cases e with
  | staleRet _ lk0 h0 hp hst =>
    rw [hl] at h0; cases h0
    refine ⟨_, upd_same _ _ _, ?_⟩
    rcases hp with h | h <;> simp [lockMeasure, h] <;> omega
  | acqNew _ lk0 key slotID h0 hp hst hk hs hf =>
    rw [hl] at h0; cases h0
    refine ⟨_, upd_same _ _ _, ?_⟩
    have := measure_succ hp (count_lt_of_acq (h1.phase _ _ hl) hp hst) (req_len (h1.wf _ _ hl)); omega
  | acqStale _ lk0 key slotID n h0 hp hst hk hs hf hgt =>
    rw [hl] at h0; cases h0
    refine ⟨_, upd_same _ _ _, ?_⟩
    have := count_lt_of_acq (h1.phase _ _ hl) hp hst
    rcases hp with h | h <;> simp [lockMeasure, h] <;> omega
  | acqFree _ lk0 key slotID n h0 hp hst hk hs hf hle hh =>
    rw [hl] at h0; cases h0
    refine ⟨_, upd_same _ _ _, ?_⟩
    have := measure_succ hp (count_lt_of_acq (h1.phase _ _ hl) hp hst) (req_len (h1.wf _ _ hl)); omega
  | acqLocked _ lk0 key slotID n o h0 hp hst hk hs hf hle hh =>
    rw [hl] at h0; cases h0
    refine ⟨_, upd_same _ _ _, ?_⟩
    rcases hp with h | h <;> simp [lockMeasure, h]
  | unlock _ lk0 c h0 hp =>
    rw [hl] at h0; cases h0
    refine ⟨_, upd_same _ _ _, ?_⟩
    simp only [lockMeasure, hp]
    by_cases e : lk.acquiredCount = 0 <;> simp [e]
  | relNone _ lk0 key slotID n h0 hp hc hk hs hf hh hw =>
    rw [hl] at h0; cases h0
    refine ⟨_, upd_same _ _ _, ?_⟩
    have := measure_rel hp hc; omega
  | relStale _ lk0 key slotID n w lkw h0 hp hc hk hs hf hh hw hlw hgt =>
    rw [hl] at h0; cases h0
    obtain ⟨hkw, _⟩ := awaits_key hw hlw
    have hwl : l ≠ w := by
      intro e; subst e; rw [hl] at hlw; cases hlw; exact woken_ne (h1.wf _ _ hl) hc hk hkw
    refine ⟨relLock lk, by show upd (upd s.locks l _) w _ l = _; rw [upd_ne _ _ hwl, upd_same], ?_⟩
    have := measure_rel hp hc; omega
  | relWake _ lk0 key slotID n w lkw h0 hp hc hk hs hf hh hw hlw hle =>
    rw [hl] at h0; cases h0
    obtain ⟨hkw, _⟩ := awaits_key hw hlw
    have hwl : l ≠ w := by
      intro e; subst e; rw [hl] at hlw; cases hlw; exact woken_ne (h1.wf _ _ hl) hc hk hkw
    refine ⟨relLock lk, by show upd (upd s.locks l _) w _ l = _; rw [upd_ne _ _ hwl, upd_same], ?_⟩
    have := measure_rel hp hc; omega

/-- one step of lock `l` from a reachable state: own measure drops, finished locks stay, no lock appears -/
theorem lock_step_frame {cfg : Cfg} {s s' : State} {a : Action} {l : LockId} (hr : Reachable cfg s)
    (hs : step cfg s a = some s') (ha : a.lockStep = some l) {lk : Lock} (hl : s.locks l = some lk) :
    (∃ lk', s'.locks l = some lk' ∧ lockMeasure (some lk') < lockMeasure (some lk)) ∧
    (∀ l' x, s.locks l' = some x → x.phase = .done → s'.locks l' = some x) ∧
    (∀ l' x, s'.locks l' = some x → ∃ y, s.locks l' = some y) := by
  obtain ⟨s1, h1, e⟩ := step_eff hs
  rw [ha] at e
  have key : ∀ s1 : State, Reachable cfg s1 → s1.locks = s.locks → Eff cfg s1 (some l) s' →
      (∃ lk', s'.locks l = some lk' ∧ lockMeasure (some lk') < lockMeasure (some lk)) ∧
      (∀ l' x, s.locks l' = some x → x.phase = .done → s'.locks l' = some x) ∧
      (∀ l' x, s'.locks l' = some x → ∃ y, s.locks l' = some y) := by
    intro s1 hr1 hlocks e
    refine ⟨own_measure_eff hr1.inv12.1 e (by rw [hlocks]; exact hl), ?_, ?_⟩
    · intro l' x hx hd
      exact done_stable hr1.inv12.1 hr1.inv12.2 e (by rw [hlocks]; exact hx) hd
    · intro l' x hx
      rcases eff_keys e l' x hx with ⟨y, hy, _⟩ | ⟨h0, _⟩
      · exact ⟨y, by rw [← hlocks]; exact hy⟩
      · cases h0
  rcases h1 with rfl | ⟨i, ts, rfl⟩
  · exact key s1 hr rfl e
  · exact key _ (Reachable.step (.recycle i ts) hr rfl) rfl e

theorem nextAction_lockStep {l : LockId} {lk : Lock} {c : Nat} {a : Action} (h : nextAction l lk c = some a) :
    a.lockStep = some l := by
  unfold nextAction at h
  split at h
  · cases h; rfl
  · cases h; rfl
  · split at h
    · split at h
      · cases h; rfl
      · cases h
    · cases h; rfl
  · cases h; rfl
  · cases h
  · cases h

theorem nextAction_enabled {cfg : Cfg} {s : State} (hr : Reachable cfg s) {l : LockId} {lk : Lock} {c : Nat}
    {a : Action} (hl : s.locks l = some lk) (h : nextAction l lk c = some a) : ∃ s', step cfg s a = some s' := by
  obtain ⟨h1, h2⟩ := hr.inv12
  unfold nextAction at h
  split at h
  · next hp => cases h; exact acquire_enabled h1 hl (.inl hp)
  · next hp => cases h; exact acquire_enabled h1 hl (.inr hp)
  · next hp =>
    split at h
    · split at h
      · cases h; exact unlock_enabled hl hp 0
      · cases h
    · cases h; exact unlock_enabled hl hp c
  · next hp => cases h; exact release_enabled h1 h2 hl hp
  · cases h
  · cases h

/-- with the unlock deferred before every return (the fact read from the source), a lock whose program has no
    next step is blocked or finished -/
theorem nextAction_none {l : LockId} {lk : Lock} {c : Nat} (h : nextAction l lk c = none) :
    lk.phase = .waiting ∨ lk.phase = .done := by
  have hg : Gen.commitUnlockOnEveryExit = true := rfl
  unfold nextAction at h
  split at h
  · cases h
  · cases h
  · split at h
    · first | cases h | (rw [hg] at h; cases h)
    · cases h
  · cases h
  · next hp => exact .inl hp
  · next hp => exact .inr hp

theorem drive_spec {cfg : Cfg} (l : LockId) (c : Nat) : ∀ (fuel : Nat) (s : State) (lk : Lock), Reachable cfg s →
    s.locks l = some lk → lockMeasure (some lk) < fuel →
    Reachable cfg (driveLock cfg fuel s l c) ∧
    (∃ lk', (driveLock cfg fuel s l c).locks l = some lk' ∧ (lk'.phase = .waiting ∨ lk'.phase = .done)) ∧
    (∀ l' x, s.locks l' = some x → x.phase = .done → (driveLock cfg fuel s l c).locks l' = some x) ∧
    (∀ l' x, (driveLock cfg fuel s l c).locks l' = some x → ∃ y, s.locks l' = some y)
  | 0, _, _, _, _, h => by omega
  | fuel + 1, s, lk, hr, hl, hm => by
    simp only [driveLock, hl]
    cases hn : nextAction l lk c with
    | none => exact ⟨hr, ⟨lk, hl, nextAction_none hn⟩, fun _ x hx _ => hx, fun _ x hx => ⟨x, hx⟩⟩
    | some a =>
      obtain ⟨s1, hs⟩ := nextAction_enabled hr hl hn
      simp only [hs]
      obtain ⟨⟨lk1, hl1, hm1⟩, hdone, hback⟩ := lock_step_frame hr hs (nextAction_lockStep hn) hl
      obtain ⟨r1, r2, r3, r4⟩ := drive_spec l c fuel s1 lk1 (Reachable.step a hr hs) hl1 (by omega)
      refine ⟨r1, r2, ?_, ?_⟩
      · intro l' x hx hd; exact r3 l' x (hdone l' x hx hd) hd
      · intro l' x hx
        obtain ⟨y, hy⟩ := r4 l' x hx
        exact hback l' y hy

theorem measure_le {cfg : Cfg} {lk : Lock} (w : LockWF cfg lk) : lockMeasure (some lk) < 3 * lk.keys.length + 4 := by
  have := w.count_le
  simp only [lockMeasure]
  split <;> omega

/-- a transaction committing while every other request is finished: its lock gets finished too -/
theorem commitTxn_finishes {cfg : Cfg} {s : State} (hr : Reachable cfg s) {l : LockId} {lk : Lock} (c : Nat)
    (hl : s.locks l = some lk) (hothers : ∀ l' x, l' ≠ l → s.locks l' = some x → x.phase = .done) :
    Reachable cfg (commitTxn cfg s l c) ∧ AllDone (commitTxn cfg s l c) := by
  simp only [commitTxn, hl]
  obtain ⟨r1, ⟨lk', hl', hp'⟩, r3, r4⟩ :=
    drive_spec l c (3 * lk.keys.length + 4) s lk hr hl (measure_le (hr.inv12.1.wf _ _ hl))
  refine ⟨r1, ?_⟩
  have hall : ∀ l0 x, (driveLock cfg (3 * lk.keys.length + 4) s l c).locks l0 = some x →
      x.phase = .done ∨ x.phase = .waiting := by
    intro l0 x hx
    by_cases e : l0 = l
    · subst e; rw [hl'] at hx; cases hx; exact hp'.symm
    · obtain ⟨y, hy⟩ := r4 l0 x hx
      have hd := hothers l0 y e hy
      rw [r3 l0 y hy hd] at hx; cases hx; exact .inl hd
  intro l0 x hx
  apply Classical.byContradiction
  intro hnd
  exact not_all_waiting r1.inv12.1 r1.inv12.2 hx hnd hall

/-- when every request is finished, no node has an owner and no waiting list has a member -/
theorem allDone_free {cfg : Cfg} {s : State} (hr : Reachable cfg s) (hd : AllDone s) : LatchesFree s := by
  obtain ⟨h1, h2⟩ := hr.inv12
  constructor
  · intro i n hn
    cases ho : n.holder with
    | none => rfl
    | some o =>
      obtain ⟨lk, hl, hh⟩ := h1.holder i n o hn ho
      have := h1.phase _ _ hl
      unfold PhaseOK at this; rw [hd o lk hl] at this
      have := Lock.holds_lt hh; omega
  · intro i
    apply List.eq_nil_iff_forall_not_mem.mpr
    intro l hm
    obtain ⟨lk, _, hl, hp, _⟩ := (h2.wok.mem i l).mp hm
    rw [hd l lk hl] at hp; cases hp

theorem commitSeq_finishes {cfg : Cfg} : ∀ (txns : List (Nat × List Key × Nat)) (s : State), Reachable cfg s →
    AllDone s → (∀ t, t ∈ txns → t.2.1.Nodup) →
    Reachable cfg (commitSeq cfg s txns) ∧ AllDone (commitSeq cfg s txns)
  | [], s, hr, hd, _ => ⟨hr, hd⟩
  | (ts, keys, c) :: rest, s, hr, hd, hnd => by
    simp only [commitSeq]
    have hk : keys.Nodup := hnd (ts, keys, c) (by simp)
    have hr1 : Reachable cfg (genLock cfg s ts keys) :=
      Reachable.step (.genLock ts keys) hr (by simp [step, hk])
    have hl : ∃ lk, (genLock cfg s ts keys).locks s.nlocks = some lk := ⟨_, upd_same _ _ _⟩
    obtain ⟨lk, hl⟩ := hl
    have hothers : ∀ l' x, l' ≠ s.nlocks → (genLock cfg s ts keys).locks l' = some x → x.phase = .done := by
      intro l' x hne hx
      have hx : upd s.locks s.nlocks _ l' = some x := hx
      rw [upd_ne _ _ hne] at hx
      exact hd l' x hx
    obtain ⟨r1, r2⟩ := commitTxn_finishes hr1 c hl hothers
    exact commitSeq_finishes rest _ r1 r2 (fun t ht => hnd t (List.mem_cons_of_mem _ ht))

end CGV.Latch
