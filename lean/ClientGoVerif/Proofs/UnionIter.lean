/-
  C07 — helper lemmas: the byte-string order, the union iterator as a two-way merge, the merge against the
  declarative view, batch get, and the abstract write buffer against the write-log semantics.
-/
import ClientGoVerif.Model.UnionIter
namespace CGV.UnionIter
open CGV CGV.Overlay

/-! ## `Bytes.cmp` is a strict total order -/

theorem cmp_eq_iff (a b : Bytes) : Bytes.cmp a b = .eq ↔ a = b := by
  induction a generalizing b with
  | nil => cases b <;> simp [Bytes.cmp]
  | cons x xs ih =>
    cases b with
    | nil => simp [Bytes.cmp]
    | cons y ys =>
      simp only [Bytes.cmp]
      split
      · rename_i h; simp; intro e; subst e; exact absurd h (UInt8.lt_irrefl _)
      · split
        · rename_i h; simp; intro e; subst e; exact absurd h (UInt8.lt_irrefl _)
        · rename_i h1 h2
          have : x = y := UInt8.le_antisymm (UInt8.not_lt.mp h2) (UInt8.not_lt.mp h1)
          subst this; simp [ih]

theorem cmp_swap (a b : Bytes) : (Bytes.cmp a b).swap = Bytes.cmp b a := by
  induction a generalizing b with
  | nil => cases b <;> simp [Bytes.cmp]
  | cons x xs ih =>
    cases b with
    | nil => simp [Bytes.cmp]
    | cons y ys =>
      simp only [Bytes.cmp]
      by_cases h1 : x < y
      · have h2 : ¬ y < x := UInt8.lt_asymm h1
        simp [h1, h2]
      · by_cases h2 : y < x
        · simp [h1, h2]
        · simp [h1, h2, ih]

theorem cmp_lt_trans {a b c : Bytes} : Bytes.cmp a b = .lt → Bytes.cmp b c = .lt → Bytes.cmp a c = .lt := by
  induction a generalizing b c with
  | nil => cases b <;> cases c <;> simp [Bytes.cmp]
  | cons x xs ih =>
    cases b with
    | nil => simp [Bytes.cmp]
    | cons y ys =>
      cases c with
      | nil => simp [Bytes.cmp]
      | cons z zs =>
        simp only [Bytes.cmp]
        intro h1 h2
        by_cases xy : x < y
        · by_cases yz : y < z
          · simp [UInt8.lt_trans xy yz]
          · by_cases zy : z < y
            · simp [yz, zy] at h2
            · have : y = z := UInt8.le_antisymm (UInt8.not_lt.mp zy) (UInt8.not_lt.mp yz)
              subst this; simp [xy]
        · by_cases yx : y < x
          · simp [xy, yx] at h1
          · have : x = y := UInt8.le_antisymm (UInt8.not_lt.mp yx) (UInt8.not_lt.mp xy)
            subst this
            by_cases yz : x < z
            · simp [yz]
            · by_cases zy : z < x
              · simp [yz, zy] at h2
              · simp [xy, yz, zy] at h1 h2 ⊢
                exact ih h1 h2

theorem cmp_self (a : Bytes) : Bytes.cmp a a = .eq := (cmp_eq_iff a a).2 rfl

theorem cmp_gt_iff (a b : Bytes) : Bytes.cmp a b = .gt ↔ Bytes.cmp b a = .lt := by
  rw [← cmp_swap a b]; cases Bytes.cmp a b <;> simp [Ordering.swap]

theorem cmp_lt_ne {a b : Bytes} (h : Bytes.cmp a b = .lt) : a ≠ b := by
  intro e; subst e; simp [cmp_self] at h

theorem cmp_lt_asymm {a b : Bytes} (h : Bytes.cmp a b = .lt) : Bytes.cmp b a ≠ .lt := by
  intro h'; have := cmp_lt_trans h h'; simp [cmp_self] at this

/-! ### the same facts in the direction of an iterator -/

theorem cmpDir_lt_iff (rev : Bool) (a b : KV) : cmpDir rev a.1 b.1 = .lt ↔ KeyBefore rev a b := by
  cases rev
  · simp [cmpDir, KeyBefore]
  · simp only [cmpDir, KeyBefore, if_true, cmp_swap]

theorem cmpDir_gt_iff (rev : Bool) (a b : KV) : cmpDir rev a.1 b.1 = .gt ↔ KeyBefore rev b a := by
  cases rev
  · simp [cmpDir, KeyBefore, cmp_gt_iff]
  · simp only [cmpDir, KeyBefore, if_true, cmp_swap, cmp_gt_iff]

theorem cmpDir_eq_iff (rev : Bool) (a b : Bytes) : cmpDir rev a b = .eq ↔ a = b := by
  cases rev
  · simp [cmpDir, cmp_eq_iff]
  · simp only [cmpDir, if_true, cmp_swap, cmp_eq_iff]; exact eq_comm

theorem KeyBefore.trans {rev : Bool} {a b c : KV} : KeyBefore rev a b → KeyBefore rev b c → KeyBefore rev a c := by
  cases rev
  · simp only [KeyBefore]; exact cmp_lt_trans
  · simp only [KeyBefore, if_true]; exact fun h1 h2 => cmp_lt_trans h2 h1

theorem KeyBefore.ne {rev : Bool} {a b : KV} : KeyBefore rev a b → a.1 ≠ b.1 := by
  cases rev
  · simp only [KeyBefore]; exact cmp_lt_ne
  · simp only [KeyBefore, if_true]; exact fun h e => cmp_lt_ne h e.symm

theorem KeyBefore.asymm {rev : Bool} {a b : KV} : KeyBefore rev a b → ¬ KeyBefore rev b a := by
  cases rev
  · simp only [KeyBefore]; exact cmp_lt_asymm
  · simp only [KeyBefore, if_true]; exact cmp_lt_asymm

theorem KeyBefore.congr_left {rev : Bool} {a a' b : KV} (e : a.1 = a'.1) : KeyBefore rev a b → KeyBefore rev a' b := by
  cases rev <;> simp [KeyBefore, e]

/-! ## the union iterator is a two-way merge -/

/-- the functional program `updateCur`/`Next` implement -/
def merge (rev : Bool) : List KV → List KV → List KV
  | [], s => s
  | d :: ds, [] => if d.2.isEmpty then merge rev ds [] else d :: merge rev ds []
  | d :: ds, s :: ss =>
    match cmpDir rev d.1 s.1 with
    | .eq => if d.2.isEmpty then merge rev ds ss else d :: merge rev ds ss
    | .gt => s :: merge rev (d :: ds) ss
    | .lt => if d.2.isEmpty then merge rev ds (s :: ss) else d :: merge rev ds (s :: ss)
termination_by d s => d.length + s.length

theorem collect_updateCur (rev : Bool) (d s : List KV) :
    ∀ (cur : Bool) (fuel : Nat), d.length + s.length + 1 ≤ fuel →
      collect fuel (updateCur rev cur d s) = merge rev d s := by
  fun_induction merge rev d s with
  | case1 s =>
    intro cur fuel hf
    induction s generalizing cur fuel with
    | nil => cases fuel <;> simp [updateCur, collect]
    | cons x xs ih =>
      cases fuel with
      | zero => simp at hf
      | succ n =>
        simp only [updateCur, collect, UIter.cur?, UIter.next]
        simp
        exact ih false n (by simp at hf ⊢; omega)
  | case2 d ds htomb ih =>
    intro cur fuel hf
    simp only [updateCur, htomb, if_true]
    exact ih true fuel (by simp at hf ⊢; omega)
  | case3 d ds htomb ih =>
    intro cur fuel hf
    cases fuel with
    | zero => simp at hf
    | succ n =>
      simp only [updateCur, htomb, collect, UIter.cur?, UIter.next]
      simp
      exact ih true n (by simp at hf ⊢; omega)
  | case4 d ds s ss hc htomb ih =>
    intro cur fuel hf
    simp only [updateCur, hc, htomb, if_true]
    exact ih cur fuel (by simp at hf ⊢; omega)
  | case5 d ds s ss hc htomb ih =>
    intro cur fuel hf
    cases fuel with
    | zero => simp at hf
    | succ n =>
      simp only [updateCur, hc, htomb, collect, UIter.cur?, UIter.next]
      simp
      exact ih true n (by simp at hf ⊢; omega)
  | case6 d ds s ss hc ih =>
    intro cur fuel hf
    cases fuel with
    | zero => simp at hf
    | succ n =>
      simp only [updateCur, hc, collect, UIter.cur?, UIter.next]
      simp
      exact ih false n (by simp at hf ⊢; omega)
  | case7 d ds s ss hc htomb ih =>
    intro cur fuel hf
    simp only [updateCur, hc, htomb, if_true]
    exact ih cur fuel (by simp at hf ⊢; omega)
  | case8 d ds s ss hc htomb ih =>
    intro cur fuel hf
    cases fuel with
    | zero => simp at hf
    | succ n =>
      simp only [updateCur, hc, htomb, collect, UIter.cur?, UIter.next]
      simp
      exact ih true n (by simp at hf ⊢; omega)

theorem iterAll_eq_merge (rev : Bool) (d s : List KV) : iterAll rev d s = merge rev d s :=
  collect_updateCur rev d s false _ (Nat.le_refl _)

/-! ## the merge against sorted inputs -/

theorem merge_mem_sub (rev : Bool) (d s : List KV) : ∀ x, x ∈ merge rev d s → x ∈ d ∨ x ∈ s := by
  fun_induction merge rev d s <;> intro x hx <;> simp_all <;> grind

theorem merge_sorted (rev : Bool) (d s : List KV) :
    StrictlyOrdered rev d → StrictlyOrdered rev s → StrictlyOrdered rev (merge rev d s) := by
  unfold StrictlyOrdered
  fun_induction merge rev d s with
  | case1 s => intro _ h; exact h
  | case2 d ds htomb ih => intro hd hs; exact ih (List.Pairwise.of_cons hd) hs
  | case3 d ds htomb ih =>
    intro hd hs
    rw [List.pairwise_cons] at hd ⊢
    refine ⟨fun x hx => ?_, ih hd.2 hs⟩
    rcases merge_mem_sub rev ds [] x hx with h | h
    · exact hd.1 x h
    · simp at h
  | case4 d ds s ss hc htomb ih => intro hd hs; exact ih (List.Pairwise.of_cons hd) (List.Pairwise.of_cons hs)
  | case5 d ds s ss hc htomb ih =>
    intro hd hs
    rw [List.pairwise_cons] at hd hs ⊢
    refine ⟨fun x hx => ?_, ih hd.2 hs.2⟩
    rcases merge_mem_sub rev ds ss x hx with h | h
    · exact hd.1 x h
    · have e := (cmpDir_eq_iff rev d.1 s.1).1 hc
      exact KeyBefore.congr_left e.symm (hs.1 x h)
  | case6 d ds s ss hc ih =>
    intro hd hs
    have hsd : KeyBefore rev s d := (cmpDir_gt_iff rev d s).1 hc
    rw [List.pairwise_cons] at hs ⊢
    refine ⟨fun x hx => ?_, ih hd hs.2⟩
    rcases merge_mem_sub rev (d :: ds) ss x hx with h | h
    · rw [List.pairwise_cons] at hd
      rcases List.mem_cons.1 h with rfl | h
      · exact hsd
      · exact KeyBefore.trans hsd (hd.1 x h)
    · exact hs.1 x h
  | case7 d ds s ss hc htomb ih => intro hd hs; exact ih (List.Pairwise.of_cons hd) hs
  | case8 d ds s ss hc htomb ih =>
    intro hd hs
    have hds : KeyBefore rev d s := (cmpDir_lt_iff rev d s).1 hc
    rw [List.pairwise_cons] at hd ⊢
    refine ⟨fun x hx => ?_, ih hd.2 hs⟩
    rcases merge_mem_sub rev ds (s :: ss) x hx with h | h
    · exact hd.1 x h
    · rw [List.pairwise_cons] at hs
      rcases List.mem_cons.1 h with rfl | h
      · exact hds
      · exact KeyBefore.trans hds (hs.1 x h)

theorem merge_mem_iff (rev : Bool) (d s : List KV) :
    StrictlyOrdered rev d → StrictlyOrdered rev s →
    ∀ x, x ∈ merge rev d s ↔ (x ∈ d ∧ x.2 ≠ []) ∨ (x ∈ s ∧ ∀ y ∈ d, y.1 ≠ x.1) := by
  unfold StrictlyOrdered
  fun_induction merge rev d s with
  | case1 s => intro _ _ x; simp
  | case2 d ds htomb ih =>
    intro hd hs x
    rw [ih (List.Pairwise.of_cons hd) hs x]
    have : d.2 = [] := List.isEmpty_iff.1 htomb
    constructor
    · rintro (⟨h1, h2⟩ | ⟨h1, _⟩)
      · exact Or.inl ⟨List.mem_cons_of_mem _ h1, h2⟩
      · simp at h1
    · rintro (⟨h1, h2⟩ | ⟨h1, _⟩)
      · rcases List.mem_cons.1 h1 with rfl | h1
        · exact absurd this h2
        · exact Or.inl ⟨h1, h2⟩
      · simp at h1
  | case3 d ds htomb ih =>
    intro hd hs x
    have hne : d.2 ≠ [] := fun e => htomb (List.isEmpty_iff.2 e)
    rw [List.mem_cons, ih (List.Pairwise.of_cons hd) hs x]
    constructor
    · rintro (rfl | ⟨h1, h2⟩ | ⟨h1, _⟩)
      · exact Or.inl ⟨List.mem_cons_self, hne⟩
      · exact Or.inl ⟨List.mem_cons_of_mem _ h1, h2⟩
      · simp at h1
    · rintro (⟨h1, h2⟩ | ⟨h1, _⟩)
      · rcases List.mem_cons.1 h1 with rfl | h1
        · exact Or.inl rfl
        · exact Or.inr (Or.inl ⟨h1, h2⟩)
      · simp at h1
  | case4 d ds s ss hc htomb ih =>
    intro hd hs x
    have e := (cmpDir_eq_iff rev d.1 s.1).1 hc
    have : d.2 = [] := List.isEmpty_iff.1 htomb
    rw [ih (List.Pairwise.of_cons hd) (List.Pairwise.of_cons hs) x]
    rw [List.pairwise_cons] at hd hs
    constructor
    · rintro (⟨h1, h2⟩ | ⟨h1, h2⟩)
      · exact Or.inl ⟨List.mem_cons_of_mem _ h1, h2⟩
      · refine Or.inr ⟨List.mem_cons_of_mem _ h1, fun y hy => ?_⟩
        rcases List.mem_cons.1 hy with rfl | hy
        · rw [e]; exact KeyBefore.ne (hs.1 x h1)
        · exact h2 y hy
    · rintro (⟨h1, h2⟩ | ⟨h1, h2⟩)
      · rcases List.mem_cons.1 h1 with rfl | h1
        · exact absurd this h2
        · exact Or.inl ⟨h1, h2⟩
      · rcases List.mem_cons.1 h1 with rfl | h1
        · exact absurd e (h2 d List.mem_cons_self)
        · exact Or.inr ⟨h1, fun y hy => h2 y (List.mem_cons_of_mem _ hy)⟩
  | case5 d ds s ss hc htomb ih =>
    intro hd hs x
    have e := (cmpDir_eq_iff rev d.1 s.1).1 hc
    have hne : d.2 ≠ [] := fun e => htomb (List.isEmpty_iff.2 e)
    rw [List.mem_cons, ih (List.Pairwise.of_cons hd) (List.Pairwise.of_cons hs) x]
    rw [List.pairwise_cons] at hd hs
    constructor
    · rintro (rfl | ⟨h1, h2⟩ | ⟨h1, h2⟩)
      · exact Or.inl ⟨List.mem_cons_self, hne⟩
      · exact Or.inl ⟨List.mem_cons_of_mem _ h1, h2⟩
      · refine Or.inr ⟨List.mem_cons_of_mem _ h1, fun y hy => ?_⟩
        rcases List.mem_cons.1 hy with rfl | hy
        · rw [e]; exact KeyBefore.ne (hs.1 x h1)
        · exact h2 y hy
    · rintro (⟨h1, h2⟩ | ⟨h1, h2⟩)
      · rcases List.mem_cons.1 h1 with rfl | h1
        · exact Or.inl rfl
        · exact Or.inr (Or.inl ⟨h1, h2⟩)
      · rcases List.mem_cons.1 h1 with rfl | h1
        · exact absurd e (h2 d List.mem_cons_self)
        · exact Or.inr (Or.inr ⟨h1, fun y hy => h2 y (List.mem_cons_of_mem _ hy)⟩)
  | case6 d ds s ss hc ih =>
    intro hd hs x
    have hsd : KeyBefore rev s d := (cmpDir_gt_iff rev d s).1 hc
    rw [List.mem_cons, ih hd (List.Pairwise.of_cons hs) x]
    rw [List.pairwise_cons] at hd hs
    constructor
    · rintro (rfl | ⟨h1, h2⟩ | ⟨h1, h2⟩)
      · refine Or.inr ⟨List.mem_cons_self, fun y hy => ?_⟩
        rcases List.mem_cons.1 hy with rfl | hy
        · exact (KeyBefore.ne hsd).symm
        · exact (KeyBefore.ne (KeyBefore.trans hsd (hd.1 y hy))).symm
      · exact Or.inl ⟨h1, h2⟩
      · exact Or.inr ⟨List.mem_cons_of_mem _ h1, h2⟩
    · rintro (⟨h1, h2⟩ | ⟨h1, h2⟩)
      · exact Or.inr (Or.inl ⟨h1, h2⟩)
      · rcases List.mem_cons.1 h1 with rfl | h1
        · exact Or.inl rfl
        · exact Or.inr (Or.inr ⟨h1, h2⟩)
  | case7 d ds s ss hc htomb ih =>
    intro hd hs x
    have hds : KeyBefore rev d s := (cmpDir_lt_iff rev d s).1 hc
    have : d.2 = [] := List.isEmpty_iff.1 htomb
    rw [ih (List.Pairwise.of_cons hd) hs x]
    rw [List.pairwise_cons] at hd hs
    constructor
    · rintro (⟨h1, h2⟩ | ⟨h1, h2⟩)
      · exact Or.inl ⟨List.mem_cons_of_mem _ h1, h2⟩
      · refine Or.inr ⟨h1, fun y hy => ?_⟩
        rcases List.mem_cons.1 hy with rfl | hy
        · rcases List.mem_cons.1 h1 with rfl | h1
          · exact KeyBefore.ne hds
          · exact KeyBefore.ne (KeyBefore.trans hds (hs.1 x h1))
        · exact h2 y hy
    · rintro (⟨h1, h2⟩ | ⟨h1, h2⟩)
      · rcases List.mem_cons.1 h1 with rfl | h1
        · exact absurd this h2
        · exact Or.inl ⟨h1, h2⟩
      · exact Or.inr ⟨h1, fun y hy => h2 y (List.mem_cons_of_mem _ hy)⟩
  | case8 d ds s ss hc htomb ih =>
    intro hd hs x
    have hds : KeyBefore rev d s := (cmpDir_lt_iff rev d s).1 hc
    have hne : d.2 ≠ [] := fun e => htomb (List.isEmpty_iff.2 e)
    rw [List.mem_cons, ih (List.Pairwise.of_cons hd) hs x]
    rw [List.pairwise_cons] at hd hs
    constructor
    · rintro (rfl | ⟨h1, h2⟩ | ⟨h1, h2⟩)
      · exact Or.inl ⟨List.mem_cons_self, hne⟩
      · exact Or.inl ⟨List.mem_cons_of_mem _ h1, h2⟩
      · refine Or.inr ⟨h1, fun y hy => ?_⟩
        rcases List.mem_cons.1 hy with rfl | hy
        · rcases List.mem_cons.1 h1 with rfl | h1
          · exact KeyBefore.ne hds
          · exact KeyBefore.ne (KeyBefore.trans hds (hs.1 x h1))
        · exact h2 y hy
    · rintro (⟨h1, h2⟩ | ⟨h1, h2⟩)
      · rcases List.mem_cons.1 h1 with rfl | h1
        · exact Or.inl rfl
        · exact Or.inr (Or.inl ⟨h1, h2⟩)
      · exact Or.inr (Or.inr ⟨h1, fun y hy => h2 y (List.mem_cons_of_mem _ hy)⟩)
end CGV.UnionIter
