/-
  C07 — helper lemmas: the byte-string order, the union iterator as a two-way merge, the merge against the
  declarative view, batch get, and the abstract write buffer against the write-log semantics.
-/
import ClientGoVerif.Model.UnionIter
namespace CGV.UnionIter
open CGV CGV.Overlay

/-! ## `Bytes.cmp` is a strict total order -/

theorem cmp_eq_iff (a b : Bytes) : Bytes.cmp a b = .eq ↔ a = b := by
  induction a generalizing b with
  | nil => cases b <;> simp [Bytes.cmp]
  | cons x xs ih =>
    cases b with
    | nil => simp [Bytes.cmp]
    | cons y ys =>
      simp only [Bytes.cmp]
      split
      · rename_i h; simp; intro e; subst e; exact absurd h (UInt8.lt_irrefl _)
      · split
        · rename_i h; simp; intro e; subst e; exact absurd h (UInt8.lt_irrefl _)
        · rename_i h1 h2
          have : x = y := UInt8.le_antisymm (UInt8.not_lt.mp h2) (UInt8.not_lt.mp h1)
          subst this; simp [ih]

theorem cmp_swap (a b : Bytes) : (Bytes.cmp a b).swap = Bytes.cmp b a := by
  induction a generalizing b with
  | nil => cases b <;> simp [Bytes.cmp]
  | cons x xs ih =>
    cases b with
    | nil => simp [Bytes.cmp]
    | cons y ys =>
      simp only [Bytes.cmp]
      by_cases h1 : x < y
      · have h2 : ¬ y < x := UInt8.lt_asymm h1
        simp [h1, h2]
      · by_cases h2 : y < x
        · simp [h1, h2]
        · simp [h1, h2, ih]

theorem cmp_lt_trans {a b c : Bytes} : Bytes.cmp a b = .lt → Bytes.cmp b c = .lt → Bytes.cmp a c = .lt := by
  induction a generalizing b c with
  | nil => cases b <;> cases c <;> simp [Bytes.cmp]
  | cons x xs ih =>
    cases b with
    | nil => simp [Bytes.cmp]
    | cons y ys =>
      cases c with
      | nil => simp [Bytes.cmp]
      | cons z zs =>
        simp only [Bytes.cmp]
        intro h1 h2
        by_cases xy : x < y
        · by_cases yz : y < z
          · simp [UInt8.lt_trans xy yz]
          · by_cases zy : z < y
            · simp [yz, zy] at h2
            · have : y = z := UInt8.le_antisymm (UInt8.not_lt.mp zy) (UInt8.not_lt.mp yz)
              subst this; simp [xy]
        · by_cases yx : y < x
          · simp [xy, yx] at h1
          · have : x = y := UInt8.le_antisymm (UInt8.not_lt.mp yx) (UInt8.not_lt.mp xy)
            subst this
            by_cases yz : x < z
            · simp [yz]
            · by_cases zy : z < x
              · simp [yz, zy] at h2
              · simp [xy, yz, zy] at h1 h2 ⊢
                exact ih h1 h2

theorem cmp_self (a : Bytes) : Bytes.cmp a a = .eq := (cmp_eq_iff a a).2 rfl

theorem cmp_gt_iff (a b : Bytes) : Bytes.cmp a b = .gt ↔ Bytes.cmp b a = .lt := by
  rw [← cmp_swap a b]; cases Bytes.cmp a b <;> simp [Ordering.swap]

theorem cmp_lt_ne {a b : Bytes} (h : Bytes.cmp a b = .lt) : a ≠ b := by
  intro e; subst e; simp [cmp_self] at h

theorem cmp_lt_asymm {a b : Bytes} (h : Bytes.cmp a b = .lt) : Bytes.cmp b a ≠ .lt := by
  intro h'; have := cmp_lt_trans h h'; simp [cmp_self] at this

/-! ### the same facts in the direction of an iterator -/

theorem cmpDir_lt_iff (rev : Bool) (a b : KV) : cmpDir rev a.1 b.1 = .lt ↔ KeyBefore rev a b := by
  cases rev
  · simp [cmpDir, KeyBefore]
  · simp only [cmpDir, KeyBefore, if_true, cmp_swap]

theorem cmpDir_gt_iff (rev : Bool) (a b : KV) : cmpDir rev a.1 b.1 = .gt ↔ KeyBefore rev b a := by
  cases rev
  · simp [cmpDir, KeyBefore, cmp_gt_iff]
  · simp only [cmpDir, KeyBefore, if_true, cmp_swap, cmp_gt_iff]

theorem cmpDir_eq_iff (rev : Bool) (a b : Bytes) : cmpDir rev a b = .eq ↔ a = b := by
  cases rev
  · simp [cmpDir, cmp_eq_iff]
  · simp only [cmpDir, if_true, cmp_swap, cmp_eq_iff]; exact eq_comm

theorem KeyBefore.trans {rev : Bool} {a b c : KV} : KeyBefore rev a b → KeyBefore rev b c → KeyBefore rev a c := by
  cases rev
  · simp only [KeyBefore]; exact cmp_lt_trans
  · simp only [KeyBefore, if_true]; exact fun h1 h2 => cmp_lt_trans h2 h1

theorem KeyBefore.ne {rev : Bool} {a b : KV} : KeyBefore rev a b → a.1 ≠ b.1 := by
  cases rev
  · simp only [KeyBefore]; exact cmp_lt_ne
  · simp only [KeyBefore, if_true]; exact fun h e => cmp_lt_ne h e.symm

theorem KeyBefore.asymm {rev : Bool} {a b : KV} : KeyBefore rev a b → ¬ KeyBefore rev b a := by
  cases rev
  · simp only [KeyBefore]; exact cmp_lt_asymm
  · simp only [KeyBefore, if_true]; exact cmp_lt_asymm

theorem KeyBefore.congr_left {rev : Bool} {a a' b : KV} (e : a.1 = a'.1) : KeyBefore rev a b → KeyBefore rev a' b := by
  cases rev <;> simp [KeyBefore, e]

/-! ## the union iterator is a two-way merge -/

/-- the functional program `updateCur`/`Next` implement -/
def merge (rev : Bool) : List KV → List KV → List KV
  | [], s => s
  | d :: ds, [] => if d.2.isEmpty then merge rev ds [] else d :: merge rev ds []
  | d :: ds, s :: ss =>
    match cmpDir rev d.1 s.1 with
    | .eq => if d.2.isEmpty then merge rev ds ss else d :: merge rev ds ss
    | .gt => s :: merge rev (d :: ds) ss
    | .lt => if d.2.isEmpty then merge rev ds (s :: ss) else d :: merge rev ds (s :: ss)
termination_by d s => d.length + s.length

theorem collect_updateCur (rev : Bool) (d s : List KV) :
    ∀ (cur : Bool) (fuel : Nat), d.length + s.length + 1 ≤ fuel →
      collect fuel (updateCur rev cur d s) = merge rev d s := by
  fun_induction merge rev d s with
  | case1 s =>
    intro cur fuel hf
    induction s generalizing cur fuel with
    | nil => cases fuel <;> simp [updateCur, collect]
    | cons x xs ih =>
      cases fuel with
      | zero => simp at hf
      | succ n =>
        simp only [updateCur, collect, UIter.cur?, UIter.next]
        simp
        exact ih false n (by simp at hf ⊢; omega)
  | case2 d ds htomb ih =>
    intro cur fuel hf
    simp only [updateCur, htomb, if_true]
    exact ih true fuel (by simp at hf ⊢; omega)
  | case3 d ds htomb ih =>
    intro cur fuel hf
    cases fuel with
    | zero => simp at hf
    | succ n =>
      simp only [updateCur, htomb, collect, UIter.cur?, UIter.next]
      simp
      exact ih true n (by simp at hf ⊢; omega)
  | case4 d ds s ss hc htomb ih =>
    intro cur fuel hf
    simp only [updateCur, hc, htomb, if_true]
    exact ih cur fuel (by simp at hf ⊢; omega)
  | case5 d ds s ss hc htomb ih =>
    intro cur fuel hf
    cases fuel with
    | zero => simp at hf
    | succ n =>
      simp only [updateCur, hc, htomb, collect, UIter.cur?, UIter.next]
      simp
      exact ih true n (by simp at hf ⊢; omega)
  | case6 d ds s ss hc ih =>
    intro cur fuel hf
    cases fuel with
    | zero => simp at hf
    | succ n =>
      simp only [updateCur, hc, collect, UIter.cur?, UIter.next]
      simp
      exact ih false n (by simp at hf ⊢; omega)
  | case7 d ds s ss hc htomb ih =>
    intro cur fuel hf
    simp only [updateCur, hc, htomb, if_true]
    exact ih cur fuel (by simp at hf ⊢; omega)
  | case8 d ds s ss hc htomb ih =>
    intro cur fuel hf
    cases fuel with
    | zero => simp at hf
    | succ n =>
      simp only [updateCur, hc, htomb, collect, UIter.cur?, UIter.next]
      simp
      exact ih true n (by simp at hf ⊢; omega)

theorem iterAll_eq_merge (rev : Bool) (d s : List KV) : iterAll rev d s = merge rev d s :=
  collect_updateCur rev d s false _ (Nat.le_refl _)

/-! ## the merge against sorted inputs -/

theorem merge_mem_sub (rev : Bool) (d s : List KV) : ∀ x, x ∈ merge rev d s → x ∈ d ∨ x ∈ s := by
  fun_induction merge rev d s <;> intro x hx <;> simp_all <;> grind

theorem merge_sorted (rev : Bool) (d s : List KV) :
    StrictlyOrdered rev d → StrictlyOrdered rev s → StrictlyOrdered rev (merge rev d s) := by
  unfold StrictlyOrdered
  fun_induction merge rev d s with
  | case1 s => intro _ h; exact h
  | case2 d ds htomb ih => intro hd hs; exact ih (List.Pairwise.of_cons hd) hs
  | case3 d ds htomb ih =>
    intro hd hs
    rw [List.pairwise_cons] at hd ⊢
    refine ⟨fun x hx => ?_, ih hd.2 hs⟩
    rcases merge_mem_sub rev ds [] x hx with h | h
    · exact hd.1 x h
    · simp at h
  | case4 d ds s ss hc htomb ih => intro hd hs; exact ih (List.Pairwise.of_cons hd) (List.Pairwise.of_cons hs)
  | case5 d ds s ss hc htomb ih =>
    intro hd hs
    rw [List.pairwise_cons] at hd hs ⊢
    refine ⟨fun x hx => ?_, ih hd.2 hs.2⟩
    rcases merge_mem_sub rev ds ss x hx with h | h
    · exact hd.1 x h
    · have e := (cmpDir_eq_iff rev d.1 s.1).1 hc
      exact KeyBefore.congr_left e.symm (hs.1 x h)
  | case6 d ds s ss hc ih =>
    intro hd hs
    have hsd : KeyBefore rev s d := (cmpDir_gt_iff rev d s).1 hc
    rw [List.pairwise_cons] at hs ⊢
    refine ⟨fun x hx => ?_, ih hd hs.2⟩
    rcases merge_mem_sub rev (d :: ds) ss x hx with h | h
    · rw [List.pairwise_cons] at hd
      rcases List.mem_cons.1 h with rfl | h
      · exact hsd
      · exact KeyBefore.trans hsd (hd.1 x h)
    · exact hs.1 x h
  | case7 d ds s ss hc htomb ih => intro hd hs; exact ih (List.Pairwise.of_cons hd) hs
  | case8 d ds s ss hc htomb ih =>
    intro hd hs
    have hds : KeyBefore rev d s := (cmpDir_lt_iff rev d s).1 hc
    rw [List.pairwise_cons] at hd ⊢
    refine ⟨fun x hx => ?_, ih hd.2 hs⟩
    rcases merge_mem_sub rev ds (s :: ss) x hx with h | h
    · exact hd.1 x h
    · rw [List.pairwise_cons] at hs
      rcases List.mem_cons.1 h with rfl | h
      · exact hds
      · exact KeyBefore.trans hds (hs.1 x h)

theorem merge_mem_iff (rev : Bool) (d s : List KV) :
    StrictlyOrdered rev d → StrictlyOrdered rev s →
    ∀ x, x ∈ merge rev d s ↔ (x ∈ d ∧ x.2 ≠ []) ∨ (x ∈ s ∧ ∀ y ∈ d, y.1 ≠ x.1) := by
  unfold StrictlyOrdered
  fun_induction merge rev d s with
  | case1 s => intro _ _ x; simp
  | case2 d ds htomb ih =>
    intro hd hs x
    rw [ih (List.Pairwise.of_cons hd) hs x]
    have : d.2 = [] := List.isEmpty_iff.1 htomb
    constructor
    · rintro (⟨h1, h2⟩ | ⟨h1, _⟩)
      · exact Or.inl ⟨List.mem_cons_of_mem _ h1, h2⟩
      · simp at h1
    · rintro (⟨h1, h2⟩ | ⟨h1, _⟩)
      · rcases List.mem_cons.1 h1 with rfl | h1
        · exact absurd this h2
        · exact Or.inl ⟨h1, h2⟩
      · simp at h1
  | case3 d ds htomb ih =>
    intro hd hs x
    have hne : d.2 ≠ [] := fun e => htomb (List.isEmpty_iff.2 e)
    rw [List.mem_cons, ih (List.Pairwise.of_cons hd) hs x]
    constructor
    · rintro (rfl | ⟨h1, h2⟩ | ⟨h1, _⟩)
      · exact Or.inl ⟨List.mem_cons_self, hne⟩
      · exact Or.inl ⟨List.mem_cons_of_mem _ h1, h2⟩
      · simp at h1
    · rintro (⟨h1, h2⟩ | ⟨h1, _⟩)
      · rcases List.mem_cons.1 h1 with rfl | h1
        · exact Or.inl rfl
        · exact Or.inr (Or.inl ⟨h1, h2⟩)
      · simp at h1
  | case4 d ds s ss hc htomb ih =>
    intro hd hs x
    have e := (cmpDir_eq_iff rev d.1 s.1).1 hc
    have : d.2 = [] := List.isEmpty_iff.1 htomb
    rw [ih (List.Pairwise.of_cons hd) (List.Pairwise.of_cons hs) x]
    rw [List.pairwise_cons] at hd hs
    constructor
    · rintro (⟨h1, h2⟩ | ⟨h1, h2⟩)
      · exact Or.inl ⟨List.mem_cons_of_mem _ h1, h2⟩
      · refine Or.inr ⟨List.mem_cons_of_mem _ h1, fun y hy => ?_⟩
        rcases List.mem_cons.1 hy with rfl | hy
        · rw [e]; exact KeyBefore.ne (hs.1 x h1)
        · exact h2 y hy
    · rintro (⟨h1, h2⟩ | ⟨h1, h2⟩)
      · rcases List.mem_cons.1 h1 with rfl | h1
        · exact absurd this h2
        · exact Or.inl ⟨h1, h2⟩
      · rcases List.mem_cons.1 h1 with rfl | h1
        · exact absurd e (h2 d List.mem_cons_self)
        · exact Or.inr ⟨h1, fun y hy => h2 y (List.mem_cons_of_mem _ hy)⟩
  | case5 d ds s ss hc htomb ih =>
    intro hd hs x
    have e := (cmpDir_eq_iff rev d.1 s.1).1 hc
    have hne : d.2 ≠ [] := fun e => htomb (List.isEmpty_iff.2 e)
    rw [List.mem_cons, ih (List.Pairwise.of_cons hd) (List.Pairwise.of_cons hs) x]
    rw [List.pairwise_cons] at hd hs
    constructor
    · rintro (rfl | ⟨h1, h2⟩ | ⟨h1, h2⟩)
      · exact Or.inl ⟨List.mem_cons_self, hne⟩
      · exact Or.inl ⟨List.mem_cons_of_mem _ h1, h2⟩
      · refine Or.inr ⟨List.mem_cons_of_mem _ h1, fun y hy => ?_⟩
        rcases List.mem_cons.1 hy with rfl | hy
        · rw [e]; exact KeyBefore.ne (hs.1 x h1)
        · exact h2 y hy
    · rintro (⟨h1, h2⟩ | ⟨h1, h2⟩)
      · rcases List.mem_cons.1 h1 with rfl | h1
        · exact Or.inl rfl
        · exact Or.inr (Or.inl ⟨h1, h2⟩)
      · rcases List.mem_cons.1 h1 with rfl | h1
        · exact absurd e (h2 d List.mem_cons_self)
        · exact Or.inr (Or.inr ⟨h1, fun y hy => h2 y (List.mem_cons_of_mem _ hy)⟩)
  | case6 d ds s ss hc ih =>
    intro hd hs x
    have hsd : KeyBefore rev s d := (cmpDir_gt_iff rev d s).1 hc
    rw [List.mem_cons, ih hd (List.Pairwise.of_cons hs) x]
    rw [List.pairwise_cons] at hd hs
    constructor
    · rintro (rfl | ⟨h1, h2⟩ | ⟨h1, h2⟩)
      · refine Or.inr ⟨List.mem_cons_self, fun y hy => ?_⟩
        rcases List.mem_cons.1 hy with rfl | hy
        · exact (KeyBefore.ne hsd).symm
        · exact (KeyBefore.ne (KeyBefore.trans hsd (hd.1 y hy))).symm
      · exact Or.inl ⟨h1, h2⟩
      · exact Or.inr ⟨List.mem_cons_of_mem _ h1, h2⟩
    · rintro (⟨h1, h2⟩ | ⟨h1, h2⟩)
      · exact Or.inr (Or.inl ⟨h1, h2⟩)
      · rcases List.mem_cons.1 h1 with rfl | h1
        · exact Or.inl rfl
        · exact Or.inr (Or.inr ⟨h1, h2⟩)
  | case7 d ds s ss hc htomb ih =>
    intro hd hs x
    have hds : KeyBefore rev d s := (cmpDir_lt_iff rev d s).1 hc
    have : d.2 = [] := List.isEmpty_iff.1 htomb
    rw [ih (List.Pairwise.of_cons hd) hs x]
    rw [List.pairwise_cons] at hd hs
    constructor
    · rintro (⟨h1, h2⟩ | ⟨h1, h2⟩)
      · exact Or.inl ⟨List.mem_cons_of_mem _ h1, h2⟩
      · refine Or.inr ⟨h1, fun y hy => ?_⟩
        rcases List.mem_cons.1 hy with rfl | hy
        · rcases List.mem_cons.1 h1 with rfl | h1
          · exact KeyBefore.ne hds
          · exact KeyBefore.ne (KeyBefore.trans hds (hs.1 x h1))
        · exact h2 y hy
    · rintro (⟨h1, h2⟩ | ⟨h1, h2⟩)
      · rcases List.mem_cons.1 h1 with rfl | h1
        · exact absurd this h2
        · exact Or.inl ⟨h1, h2⟩
      · exact Or.inr ⟨h1, fun y hy => h2 y (List.mem_cons_of_mem _ hy)⟩
  | case8 d ds s ss hc htomb ih =>
    intro hd hs x
    have hds : KeyBefore rev d s := (cmpDir_lt_iff rev d s).1 hc
    have hne : d.2 ≠ [] := fun e => htomb (List.isEmpty_iff.2 e)
    rw [List.mem_cons, ih (List.Pairwise.of_cons hd) hs x]
    rw [List.pairwise_cons] at hd hs
    constructor
    · rintro (rfl | ⟨h1, h2⟩ | ⟨h1, h2⟩)
      · exact Or.inl ⟨List.mem_cons_self, hne⟩
      · exact Or.inl ⟨List.mem_cons_of_mem _ h1, h2⟩
      · refine Or.inr ⟨h1, fun y hy => ?_⟩
        rcases List.mem_cons.1 hy with rfl | hy
        · rcases List.mem_cons.1 h1 with rfl | h1
          · exact KeyBefore.ne hds
          · exact KeyBefore.ne (KeyBefore.trans hds (hs.1 x h1))
        · exact h2 y hy
    · rintro (⟨h1, h2⟩ | ⟨h1, h2⟩)
      · rcases List.mem_cons.1 h1 with rfl | h1
        · exact Or.inl rfl
        · exact Or.inr (Or.inl ⟨h1, h2⟩)
      · exact Or.inr (Or.inr ⟨h1, fun y hy => h2 y (List.mem_cons_of_mem _ hy)⟩)

/-! ## association lists -/

theorem lookup_some_mem {l : List KV} {k v : Bytes} : lookup l k = some v → (k, v) ∈ l := by
  induction l with
  | nil => simp [lookup]
  | cons h t ih =>
    obtain ⟨k', v'⟩ := h
    simp only [lookup]
    split
    · rename_i e; subst e; intro h; cases h; exact List.mem_cons_self
    · intro h; exact List.mem_cons_of_mem _ (ih h)

theorem lookup_none_iff {l : List KV} {k : Bytes} : lookup l k = none ↔ ∀ kv ∈ l, kv.1 ≠ k := by
  induction l with
  | nil => simp [lookup]
  | cons h t ih =>
    obtain ⟨k', v'⟩ := h
    simp only [lookup]
    split
    · rename_i e; subst e; simp
    · rename_i ne; simp [ih, ne]

theorem lookup_of_mem {rev : Bool} {l : List KV} {k v : Bytes} :
    StrictlyOrdered rev l → (k, v) ∈ l → lookup l k = some v := by
  unfold StrictlyOrdered
  induction l with
  | nil => simp
  | cons h t ih =>
    obtain ⟨k', v'⟩ := h
    intro hs hm
    rw [List.pairwise_cons] at hs
    simp only [lookup]
    rcases List.mem_cons.1 hm with e | hm
    · cases e; simp
    · have : k' ≠ k := KeyBefore.ne (hs.1 _ hm)
      simp [this, ih hs.2 hm]

theorem mem_iff_lookup {rev : Bool} {l : List KV} (hs : StrictlyOrdered rev l) (k v : Bytes) :
    (k, v) ∈ l ↔ lookup l k = some v := ⟨lookup_of_mem hs, lookup_some_mem⟩

/-! ## cursors -/

theorem mem_cursor (rev : Bool) (m : List KV) (lo hi : Bytes) (x : KV) :
    x ∈ cursor rev m lo hi ↔ x ∈ m ∧ inRange lo hi x.1 = true := by
  cases rev <;> simp [cursor]

theorem keyBefore_true (a b : KV) : KeyBefore true a b ↔ KeyBefore false b a := by simp [KeyBefore]

theorem cursor_sorted (rev : Bool) (m : List KV) (lo hi : Bytes) (h : IsMap m) :
    StrictlyOrdered rev (cursor rev m lo hi) := by
  unfold IsMap StrictlyOrdered at *
  cases rev
  · simp only [cursor]; exact h.filter _
  · simp only [cursor, if_true, List.pairwise_reverse]
    exact (h.filter _).imp (fun {a b} hab => (keyBefore_true b a).2 hab)

/-! ## everything the store iterator yields, pointwise -/

theorem visible_eq_some {o : Option Bytes} {v : Bytes} : visible o = some v ↔ o = some v ∧ v ≠ [] := by
  cases o with
  | none => simp [visible]
  | some w =>
    simp only [visible]
    split
    · rename_i e; subst e; simp
    · rename_i ne; simp; intro e; subst e; exact ne

theorem storeIter_mem_iff (snap buf : List KV) (lo hi : Bytes) (rev : Bool)
    (hsnap : IsMap snap) (hbuf : IsMap buf) (hne : NoEmpty snap) (k v : Bytes) :
    (k, v) ∈ storeIter snap buf lo hi rev ↔ inRange lo hi k = true ∧ viewGet snap buf k = some v := by
  unfold storeIter
  rw [iterAll_eq_merge, merge_mem_iff rev _ _ (cursor_sorted rev buf lo hi hbuf) (cursor_sorted rev snap lo hi hsnap)]
  simp only [mem_cursor, viewGet]
  cases hl : lookup buf k with
  | some w =>
    have hw := lookup_some_mem hl
    simp only [visible_eq_some]
    constructor
    · rintro (⟨⟨h1, h2⟩, h3⟩ | ⟨⟨_, h2⟩, h3⟩)
      · have := lookup_of_mem hbuf h1
        rw [hl] at this; cases this
        exact ⟨h2, rfl, h3⟩
      · exact absurd rfl (h3 (k, w) ⟨hw, h2⟩)
    · rintro ⟨h1, h2, h3⟩
      cases h2
      exact Or.inl ⟨⟨hw, h1⟩, h3⟩
  | none =>
    have hn := lookup_none_iff.1 hl
    simp only [visible_eq_some]
    constructor
    · rintro (⟨⟨h1, _⟩, _⟩ | ⟨⟨h1, h2⟩, _⟩)
      · exact absurd rfl (hn _ h1)
      · exact ⟨h2, lookup_of_mem hsnap h1, hne _ h1⟩
    · rintro ⟨h1, h2, _⟩
      exact Or.inr ⟨⟨lookup_some_mem h2, h1⟩, fun y hy => hn y hy.1⟩

theorem storeIter_sorted (snap buf : List KV) (lo hi : Bytes) (rev : Bool)
    (hsnap : IsMap snap) (hbuf : IsMap buf) : StrictlyOrdered rev (storeIter snap buf lo hi rev) := by
  unfold storeIter
  rw [iterAll_eq_merge]
  exact merge_sorted rev _ _ (cursor_sorted rev buf lo hi hbuf) (cursor_sorted rev snap lo hi hsnap)

/-! ## the declarative view -/

def SortedKeys (l : List Bytes) : Prop := l.Pairwise fun a b => Bytes.cmp a b = .lt

theorem mem_insertKey (k : Bytes) (l : List Bytes) (x : Bytes) : x ∈ insertKey k l ↔ x = k ∨ x ∈ l := by
  induction l with
  | nil => simp [insertKey]
  | cons y ys ih =>
    simp only [insertKey]
    split
    · simp
    · rename_i e; have := (cmp_eq_iff k y).1 e; subst this; simp
    · simp [ih]; grind

theorem insertKey_sorted (k : Bytes) (l : List Bytes) : SortedKeys l → SortedKeys (insertKey k l) := by
  unfold SortedKeys
  induction l with
  | nil => simp [insertKey]
  | cons y ys ih =>
    intro h
    simp only [insertKey]
    split
    · rename_i e
      rw [List.pairwise_cons]
      refine ⟨fun z hz => ?_, h⟩
      rw [List.pairwise_cons] at h
      rcases List.mem_cons.1 hz with rfl | hz
      · exact e
      · exact cmp_lt_trans e (h.1 z hz)
    · exact h
    · rename_i e
      rw [List.pairwise_cons] at h ⊢
      refine ⟨fun z hz => ?_, ih h.2⟩
      rcases (mem_insertKey k ys z).1 hz with rfl | hz
      · exact (cmp_gt_iff _ _).1 e
      · exact h.1 z hz

theorem mem_sortKeys (l : List Bytes) (x : Bytes) : x ∈ sortKeys l ↔ x ∈ l := by
  induction l with
  | nil => simp [sortKeys]
  | cons y ys ih =>
    have : sortKeys (y :: ys) = insertKey y (sortKeys ys) := rfl
    rw [this, mem_insertKey, ih]; simp

theorem sortKeys_sorted (l : List Bytes) : SortedKeys (sortKeys l) := by
  induction l with
  | nil => simp [sortKeys, SortedKeys]
  | cons y ys ih => exact insertKey_sorted y _ ih

theorem lookup_some_key {l : List KV} {k v : Bytes} (h : lookup l k = some v) : k ∈ l.map (·.1) :=
  List.mem_map.2 ⟨(k, v), lookup_some_mem h, rfl⟩

theorem viewGet_some_universe {snap buf : List KV} {k v : Bytes} (h : viewGet snap buf k = some v) :
    k ∈ keyUniverse snap buf := by
  unfold keyUniverse
  rw [mem_sortKeys, List.mem_append]
  unfold viewGet at h
  cases hl : lookup buf k with
  | some w => exact Or.inl (lookup_some_key hl)
  | none =>
    rw [hl] at h
    simp only [visible_eq_some] at h
    exact Or.inr (lookup_some_key h.1)

theorem view_mem_iff (snap buf : List KV) (lo hi : Bytes) (k v : Bytes) :
    (k, v) ∈ view snap buf lo hi ↔ inRange lo hi k = true ∧ viewGet snap buf k = some v := by
  unfold view
  rw [List.mem_filterMap]
  constructor
  · rintro ⟨a, _, h⟩
    split at h
    · rename_i hr
      cases hv : viewGet snap buf a with
      | none => simp [hv] at h
      | some w => simp [hv] at h; obtain ⟨rfl, rfl⟩ := h; exact ⟨hr, hv⟩
    · simp at h
  · rintro ⟨h1, h2⟩
    exact ⟨k, viewGet_some_universe h2, by simp [h1, h2]⟩

theorem view_sorted (snap buf : List KV) (lo hi : Bytes) : StrictlyOrdered false (view snap buf lo hi) := by
  unfold view StrictlyOrdered
  refine List.Pairwise.filterMap _ ?_ (sortKeys_sorted _)
  intro a a' haa b hb b' hb'
  have e1 : b.1 = a := by
    split at hb
    · cases hv : viewGet snap buf a with
      | none => simp [hv] at hb
      | some w => simp [hv] at hb; rw [← hb]
    · simp at hb
  have e2 : b'.1 = a' := by
    split at hb'
    · cases hv : viewGet snap buf a' with
      | none => simp [hv] at hb'
      | some w => simp [hv] at hb'; rw [← hb']
    · simp at hb'
  simp [KeyBefore, e1, e2, haa]

theorem viewDir_mem_iff (snap buf : List KV) (lo hi : Bytes) (rev : Bool) (k v : Bytes) :
    (k, v) ∈ viewDir snap buf lo hi rev ↔ inRange lo hi k = true ∧ viewGet snap buf k = some v := by
  cases rev <;> simp [viewDir, view_mem_iff]

theorem viewDir_sorted (snap buf : List KV) (lo hi : Bytes) (rev : Bool) :
    StrictlyOrdered rev (viewDir snap buf lo hi rev) := by
  cases rev
  · simp only [viewDir]; exact view_sorted snap buf lo hi
  · simp only [viewDir, if_true, StrictlyOrdered, List.pairwise_reverse]
    exact (view_sorted snap buf lo hi).imp (fun {a b} hab => (keyBefore_true b a).2 hab)

/-! ## a strictly ordered listing is determined by its entries -/

theorem ordered_ext (rev : Bool) : ∀ (l₁ l₂ : List KV), StrictlyOrdered rev l₁ → StrictlyOrdered rev l₂ →
    (∀ x, x ∈ l₁ ↔ x ∈ l₂) → l₁ = l₂ := by
  unfold StrictlyOrdered
  intro l₁
  induction l₁ with
  | nil =>
    intro l₂ _ _ h
    cases l₂ with
    | nil => rfl
    | cons y ys => exact absurd ((h y).2 List.mem_cons_self) (by simp)
  | cons x xs ih =>
    intro l₂ h1 h2 h
    cases l₂ with
    | nil => exact absurd ((h x).1 List.mem_cons_self) (by simp)
    | cons y ys =>
      rw [List.pairwise_cons] at h1 h2
      have hxy : x = y := by
        rcases List.mem_cons.1 ((h x).1 List.mem_cons_self) with e | hx
        · exact e
        · rcases List.mem_cons.1 ((h y).2 List.mem_cons_self) with e | hy
          · exact e.symm
          · exact absurd (h1.1 y hy) (KeyBefore.asymm (h2.1 x hx))
      subst hxy
      congr 1
      refine ih ys h1.2 h2.2 fun z => ⟨fun hz => ?_, fun hz => ?_⟩
      · rcases List.mem_cons.1 ((h z).1 (List.mem_cons_of_mem _ hz)) with e | hz'
        · subst e; exact absurd rfl (KeyBefore.ne (h1.1 z hz))
        · exact hz'
      · rcases List.mem_cons.1 ((h z).2 (List.mem_cons_of_mem _ hz)) with e | hz'
        · subst e; exact absurd rfl (KeyBefore.ne (h2.1 z hz))
        · exact hz'

theorem storeIter_eq_viewDir (snap buf : List KV) (lo hi : Bytes) (rev : Bool)
    (hsnap : IsMap snap) (hbuf : IsMap buf) (hne : NoEmpty snap) :
    storeIter snap buf lo hi rev = viewDir snap buf lo hi rev := by
  refine ordered_ext rev _ _ (storeIter_sorted snap buf lo hi rev hsnap hbuf) (viewDir_sorted snap buf lo hi rev) ?_
  rintro ⟨k, v⟩
  rw [storeIter_mem_iff snap buf lo hi rev hsnap hbuf hne, viewDir_mem_iff]

end CGV.UnionIter
