/-
  C07 — helper lemmas: the byte-string order, the union iterator as a two-way merge, the merge against the
  declarative view, batch get, and the abstract write buffer against the write-log semantics.
-/
import ClientGoVerif.Model.UnionIter
namespace CGV.UnionIter
open CGV CGV.Overlay

/-! ## `Bytes.cmp` is a strict total order -/

theorem cmp_eq_iff (a b : Bytes) : Bytes.cmp a b = .eq ↔ a = b := by
  induction a generalizing b with
  | nil => cases b <;> simp [Bytes.cmp]
  | cons x xs ih =>
    cases b with
    | nil => simp [Bytes.cmp]
    | cons y ys =>
      simp only [Bytes.cmp]
      split
      · rename_i h; simp; intro e; subst e; exact absurd h (UInt8.lt_irrefl _)
      · split
        · rename_i h; simp; intro e; subst e; exact absurd h (UInt8.lt_irrefl _)
        · rename_i h1 h2
          have : x = y := UInt8.le_antisymm (UInt8.not_lt.mp h2) (UInt8.not_lt.mp h1)
          subst this; simp [ih]

theorem cmp_swap (a b : Bytes) : (Bytes.cmp a b).swap = Bytes.cmp b a := by
  induction a generalizing b with
  | nil => cases b <;> simp [Bytes.cmp]
  | cons x xs ih =>
    cases b with
    | nil => simp [Bytes.cmp]
    | cons y ys =>
      simp only [Bytes.cmp]
      by_cases h1 : x < y
      · have h2 : ¬ y < x := UInt8.lt_asymm h1
        simp [h1, h2]
      · by_cases h2 : y < x
        · simp [h1, h2]
        · simp [h1, h2, ih]

theorem cmp_lt_trans {a b c : Bytes} : Bytes.cmp a b = .lt → Bytes.cmp b c = .lt → Bytes.cmp a c = .lt := by
  induction a generalizing b c with
  | nil => cases b <;> cases c <;> simp [Bytes.cmp]
  | cons x xs ih =>
    cases b with
    | nil => simp [Bytes.cmp]
    | cons y ys =>
      cases c with
      | nil => simp [Bytes.cmp]
      | cons z zs =>
        simp only [Bytes.cmp]
        intro h1 h2
        by_cases xy : x < y
        · by_cases yz : y < z
          · simp [UInt8.lt_trans xy yz]
          · by_cases zy : z < y
            · simp [yz, zy] at h2
            · have : y = z := UInt8.le_antisymm (UInt8.not_lt.mp zy) (UInt8.not_lt.mp yz)
              subst this; simp [xy]
        · by_cases yx : y < x
          · simp [xy, yx] at h1
          · have : x = y := UInt8.le_antisymm (UInt8.not_lt.mp yx) (UInt8.not_lt.mp xy)
            subst this
            by_cases yz : x < z
            · simp [yz]
            · by_cases zy : z < x
              · simp [yz, zy] at h2
              · simp [xy, yz, zy] at h1 h2 ⊢
                exact ih h1 h2

theorem cmp_self (a : Bytes) : Bytes.cmp a a = .eq := (cmp_eq_iff a a).2 rfl

theorem cmp_gt_iff (a b : Bytes) : Bytes.cmp a b = .gt ↔ Bytes.cmp b a = .lt := by
  rw [← cmp_swap a b]; cases Bytes.cmp a b <;> simp [Ordering.swap]

theorem cmp_lt_ne {a b : Bytes} (h : Bytes.cmp a b = .lt) : a ≠ b := by
  intro e; subst e; simp [cmp_self] at h

theorem cmp_lt_asymm {a b : Bytes} (h : Bytes.cmp a b = .lt) : Bytes.cmp b a ≠ .lt := by
  intro h'; have := cmp_lt_trans h h'; simp [cmp_self] at this

/-! ### the same facts in the direction of an iterator -/

theorem cmpDir_lt_iff (rev : Bool) (a b : KV) : cmpDir rev a.1 b.1 = .lt ↔ KeyBefore rev a b := by
  cases rev
  · simp [cmpDir, KeyBefore]
  · simp only [cmpDir, KeyBefore, if_true, cmp_swap]

theorem cmpDir_gt_iff (rev : Bool) (a b : KV) : cmpDir rev a.1 b.1 = .gt ↔ KeyBefore rev b a := by
  cases rev
  · simp [cmpDir, KeyBefore, cmp_gt_iff]
  · simp only [cmpDir, KeyBefore, if_true, cmp_swap, cmp_gt_iff]

theorem cmpDir_eq_iff (rev : Bool) (a b : Bytes) : cmpDir rev a b = .eq ↔ a = b := by
  cases rev
  · simp [cmpDir, cmp_eq_iff]
  · simp only [cmpDir, if_true, cmp_swap, cmp_eq_iff]; exact eq_comm

theorem KeyBefore.trans {rev : Bool} {a b c : KV} : KeyBefore rev a b → KeyBefore rev b c → KeyBefore rev a c := by
  cases rev
  · simp only [KeyBefore]; exact cmp_lt_trans
  · simp only [KeyBefore, if_true]; exact fun h1 h2 => cmp_lt_trans h2 h1

theorem KeyBefore.ne {rev : Bool} {a b : KV} : KeyBefore rev a b → a.1 ≠ b.1 := by
  cases rev
  · simp only [KeyBefore]; exact cmp_lt_ne
  · simp only [KeyBefore, if_true]; exact fun h e => cmp_lt_ne h e.symm

theorem KeyBefore.asymm {rev : Bool} {a b : KV} : KeyBefore rev a b → ¬ KeyBefore rev b a := by
  cases rev
  · simp only [KeyBefore]; exact cmp_lt_asymm
  · simp only [KeyBefore, if_true]; exact cmp_lt_asymm

theorem KeyBefore.congr_left {rev : Bool} {a a' b : KV} (e : a.1 = a'.1) : KeyBefore rev a b → KeyBefore rev a' b := by
  cases rev <;> simp [KeyBefore, e]

/-! ## the union iterator is a two-way merge -/

/-- the functional program `updateCur`/`Next` implement -/
def merge (rev : Bool) : List KV → List KV → List KV
  | [], s => s
  | d :: ds, [] => if d.2.isEmpty then merge rev ds [] else d :: merge rev ds []
  | d :: ds, s :: ss =>
    match cmpDir rev d.1 s.1 with
    | .eq => if d.2.isEmpty then merge rev ds ss else d :: merge rev ds ss
    | .gt => s :: merge rev (d :: ds) ss
    | .lt => if d.2.isEmpty then merge rev ds (s :: ss) else d :: merge rev ds (s :: ss)
termination_by d s => d.length + s.length

theorem collect_updateCur (rev : Bool) (d s : List KV) :
    ∀ (cur : Bool) (fuel : Nat), d.length + s.length + 1 ≤ fuel →
      collect fuel (updateCur rev cur d s) = merge rev d s := by
  fun_induction merge rev d s with
  | case1 s =>
    intro cur fuel hf
    induction s generalizing cur fuel with
    | nil => cases fuel <;> simp [updateCur, collect]
    | cons x xs ih =>
      cases fuel with
      | zero => simp at hf
      | succ n =>
        simp only [updateCur, collect, UIter.cur?, UIter.next]
        simp
        exact ih false n (by simp at hf ⊢; omega)
  | case2 d ds htomb ih =>
    intro cur fuel hf
    simp only [updateCur, htomb, if_true]
    exact ih true fuel (by simp at hf ⊢; omega)
  | case3 d ds htomb ih =>
    intro cur fuel hf
    cases fuel with
    | zero => simp at hf
    | succ n =>
      simp only [updateCur, htomb, collect, UIter.cur?, UIter.next]
      simp
      exact ih true n (by simp at hf ⊢; omega)
  | case4 d ds s ss hc htomb ih =>
    intro cur fuel hf
    simp only [updateCur, hc, htomb, if_true]
    exact ih cur fuel (by simp at hf ⊢; omega)
  | case5 d ds s ss hc htomb ih =>
    intro cur fuel hf
    cases fuel with
    | zero => simp at hf
    | succ n =>
      simp only [updateCur, hc, htomb, collect, UIter.cur?, UIter.next]
      simp
      exact ih true n (by simp at hf ⊢; omega)
  | case6 d ds s ss hc ih =>
    intro cur fuel hf
    cases fuel with
    | zero => simp at hf
    | succ n =>
      simp only [updateCur, hc, collect, UIter.cur?, UIter.next]
      simp
      exact ih false n (by simp at hf ⊢; omega)
  | case7 d ds s ss hc htomb ih =>
    intro cur fuel hf
    simp only [updateCur, hc, htomb, if_true]
    exact ih cur fuel (by simp at hf ⊢; omega)
  | case8 d ds s ss hc htomb ih =>
    intro cur fuel hf
    cases fuel with
    | zero => simp at hf
    | succ n =>
      simp only [updateCur, hc, htomb, collect, UIter.cur?, UIter.next]
      simp
      exact ih true n (by simp at hf ⊢; omega)

theorem iterAll_eq_merge (rev : Bool) (d s : List KV) : iterAll rev d s = merge rev d s :=
  collect_updateCur rev d s false _ (Nat.le_refl _)

/-! ## the merge against sorted inputs -/

theorem merge_mem_sub (rev : Bool) (d s : List KV) : ∀ x, x ∈ merge rev d s → x ∈ d ∨ x ∈ s := by
  fun_induction merge rev d s <;> intro x hx <;> simp_all <;> grind

theorem merge_sorted (rev : Bool) (d s : List KV) :
    StrictlyOrdered rev d → StrictlyOrdered rev s → StrictlyOrdered rev (merge rev d s) := by
  unfold StrictlyOrdered
  fun_induction merge rev d s with
  | case1 s => intro _ h; exact h
  | case2 d ds htomb ih => intro hd hs; exact ih (List.Pairwise.of_cons hd) hs
  | case3 d ds htomb ih =>
    intro hd hs
    rw [List.pairwise_cons] at hd ⊢
    refine ⟨fun x hx => ?_, ih hd.2 hs⟩
    rcases merge_mem_sub rev ds [] x hx with h | h
    · exact hd.1 x h
    · simp at h
  | case4 d ds s ss hc htomb ih => intro hd hs; exact ih (List.Pairwise.of_cons hd) (List.Pairwise.of_cons hs)
  | case5 d ds s ss hc htomb ih =>
    intro hd hs
    rw [List.pairwise_cons] at hd hs ⊢
    refine ⟨fun x hx => ?_, ih hd.2 hs.2⟩
    rcases merge_mem_sub rev ds ss x hx with h | h
    · exact hd.1 x h
    · have e := (cmpDir_eq_iff rev d.1 s.1).1 hc
      exact KeyBefore.congr_left e.symm (hs.1 x h)
  | case6 d ds s ss hc ih =>
    intro hd hs
    have hsd : KeyBefore rev s d := (cmpDir_gt_iff rev d s).1 hc
    rw [List.pairwise_cons] at hs ⊢
    refine ⟨fun x hx => ?_, ih hd hs.2⟩
    rcases merge_mem_sub rev (d :: ds) ss x hx with h | h
    · rw [List.pairwise_cons] at hd
      rcases List.mem_cons.1 h with rfl | h
      · exact hsd
      · exact KeyBefore.trans hsd (hd.1 x h)
    · exact hs.1 x h
  | case7 d ds s ss hc htomb ih => intro hd hs; exact ih (List.Pairwise.of_cons hd) hs
  | case8 d ds s ss hc htomb ih =>
    intro hd hs
    have hds : KeyBefore rev d s := (cmpDir_lt_iff rev d s).1 hc
    rw [List.pairwise_cons] at hd ⊢
    refine ⟨fun x hx => ?_, ih hd.2 hs⟩
    rcases merge_mem_sub rev ds (s :: ss) x hx with h | h
    · exact hd.1 x h
    · rw [List.pairwise_cons] at hs
      rcases List.mem_cons.1 h with rfl | h
      · exact hds
      · exact KeyBefore.trans hds (hs.1 x h)

theorem merge_mem_iff (rev : Bool) (d s : List KV) :
    StrictlyOrdered rev d → StrictlyOrdered rev s →
    ∀ x, x ∈ merge rev d s ↔ (x ∈ d ∧ x.2 ≠ []) ∨ (x ∈ s ∧ ∀ y ∈ d, y.1 ≠ x.1) := by
  unfold StrictlyOrdered
  fun_induction merge rev d s with
  | case1 s => intro _ _ x; simp
  | case2 d ds htomb ih =>
    intro hd hs x
    rw [ih (List.Pairwise.of_cons hd) hs x]
    have : d.2 = [] := List.isEmpty_iff.1 htomb
    constructor
    · rintro (⟨h1, h2⟩ | ⟨h1, _⟩)
      · exact Or.inl ⟨List.mem_cons_of_mem _ h1, h2⟩
      · simp at h1
    · rintro (⟨h1, h2⟩ | ⟨h1, _⟩)
      · rcases List.mem_cons.1 h1 with rfl | h1
        · exact absurd this h2
        · exact Or.inl ⟨h1, h2⟩
      · simp at h1
  | case3 d ds htomb ih =>
    intro hd hs x
    have hne : d.2 ≠ [] := fun e => htomb (List.isEmpty_iff.2 e)
    rw [List.mem_cons, ih (List.Pairwise.of_cons hd) hs x]
    constructor
    · rintro (rfl | ⟨h1, h2⟩ | ⟨h1, _⟩)
      · exact Or.inl ⟨List.mem_cons_self, hne⟩
      · exact Or.inl ⟨List.mem_cons_of_mem _ h1, h2⟩
      · simp at h1
    · rintro (⟨h1, h2⟩ | ⟨h1, _⟩)
      · rcases List.mem_cons.1 h1 with rfl | h1
        · exact Or.inl rfl
        · exact Or.inr (Or.inl ⟨h1, h2⟩)
      · simp at h1
  | case4 d ds s ss hc htomb ih =>
    intro hd hs x
    have e := (cmpDir_eq_iff rev d.1 s.1).1 hc
    have : d.2 = [] := List.isEmpty_iff.1 htomb
    rw [ih (List.Pairwise.of_cons hd) (List.Pairwise.of_cons hs) x]
    rw [List.pairwise_cons] at hd hs
    constructor
    · rintro (⟨h1, h2⟩ | ⟨h1, h2⟩)
      · exact Or.inl ⟨List.mem_cons_of_mem _ h1, h2⟩
      · refine Or.inr ⟨List.mem_cons_of_mem _ h1, fun y hy => ?_⟩
        rcases List.mem_cons.1 hy with rfl | hy
        · rw [e]; exact KeyBefore.ne (hs.1 x h1)
        · exact h2 y hy
    · rintro (⟨h1, h2⟩ | ⟨h1, h2⟩)
      · rcases List.mem_cons.1 h1 with rfl | h1
        · exact absurd this h2
        · exact Or.inl ⟨h1, h2⟩
      · rcases List.mem_cons.1 h1 with rfl | h1
        · exact absurd e (h2 d List.mem_cons_self)
        · exact Or.inr ⟨h1, fun y hy => h2 y (List.mem_cons_of_mem _ hy)⟩
  | case5 d ds s ss hc htomb ih =>
    intro hd hs x
    have e := (cmpDir_eq_iff rev d.1 s.1).1 hc
    have hne : d.2 ≠ [] := fun e => htomb (List.isEmpty_iff.2 e)
    rw [List.mem_cons, ih (List.Pairwise.of_cons hd) (List.Pairwise.of_cons hs) x]
    rw [List.pairwise_cons] at hd hs
    constructor
    · rintro (rfl | ⟨h1, h2⟩ | ⟨h1, h2⟩)
      · exact Or.inl ⟨List.mem_cons_self, hne⟩
      · exact Or.inl ⟨List.mem_cons_of_mem _ h1, h2⟩
      · refine Or.inr ⟨List.mem_cons_of_mem _ h1, fun y hy => ?_⟩
        rcases List.mem_cons.1 hy with rfl | hy
        · rw [e]; exact KeyBefore.ne (hs.1 x h1)
        · exact h2 y hy
    · rintro (⟨h1, h2⟩ | ⟨h1, h2⟩)
      · rcases List.mem_cons.1 h1 with rfl | h1
        · exact Or.inl rfl
        · exact Or.inr (Or.inl ⟨h1, h2⟩)
      · rcases List.mem_cons.1 h1 with rfl | h1
        · exact absurd e (h2 d List.mem_cons_self)
        · exact Or.inr (Or.inr ⟨h1, fun y hy => h2 y (List.mem_cons_of_mem _ hy)⟩)
  | case6 d ds s ss hc ih =>
    intro hd hs x
    have hsd : KeyBefore rev s d := (cmpDir_gt_iff rev d s).1 hc
    rw [List.mem_cons, ih hd (List.Pairwise.of_cons hs) x]
    rw [List.pairwise_cons] at hd hs
    constructor
    · rintro (rfl | ⟨h1, h2⟩ | ⟨h1, h2⟩)
      · refine Or.inr ⟨List.mem_cons_self, fun y hy => ?_⟩
        rcases List.mem_cons.1 hy with rfl | hy
        · exact (KeyBefore.ne hsd).symm
        · exact (KeyBefore.ne (KeyBefore.trans hsd (hd.1 y hy))).symm
      · exact Or.inl ⟨h1, h2⟩
      · exact Or.inr ⟨List.mem_cons_of_mem _ h1, h2⟩
    · rintro (⟨h1, h2⟩ | ⟨h1, h2⟩)
      · exact Or.inr (Or.inl ⟨h1, h2⟩)
      · rcases List.mem_cons.1 h1 with rfl | h1
        · exact Or.inl rfl
        · exact Or.inr (Or.inr ⟨h1, h2⟩)
  | case7 d ds s ss hc htomb ih =>
    intro hd hs x
    have hds : KeyBefore rev d s := (cmpDir_lt_iff rev d s).1 hc
    have : d.2 = [] := List.isEmpty_iff.1 htomb
    rw [ih (List.Pairwise.of_cons hd) hs x]
    rw [List.pairwise_cons] at hd hs
    constructor
    · rintro (⟨h1, h2⟩ | ⟨h1, h2⟩)
      · exact Or.inl ⟨List.mem_cons_of_mem _ h1, h2⟩
      · refine Or.inr ⟨h1, fun y hy => ?_⟩
        rcases List.mem_cons.1 hy with rfl | hy
        · rcases List.mem_cons.1 h1 with rfl | h1
          · exact KeyBefore.ne hds
          · exact KeyBefore.ne (KeyBefore.trans hds (hs.1 x h1))
        · exact h2 y hy
    · rintro (⟨h1, h2⟩ | ⟨h1, h2⟩)
      · rcases List.mem_cons.1 h1 with rfl | h1
        · exact absurd this h2
        · exact Or.inl ⟨h1, h2⟩
      · exact Or.inr ⟨h1, fun y hy => h2 y (List.mem_cons_of_mem _ hy)⟩
  | case8 d ds s ss hc htomb ih =>
    intro hd hs x
    have hds : KeyBefore rev d s := (cmpDir_lt_iff rev d s).1 hc
    have hne : d.2 ≠ [] := fun e => htomb (List.isEmpty_iff.2 e)
    rw [List.mem_cons, ih (List.Pairwise.of_cons hd) hs x]
    rw [List.pairwise_cons] at hd hs
    constructor
    · rintro (rfl | ⟨h1, h2⟩ | ⟨h1, h2⟩)
      · exact Or.inl ⟨List.mem_cons_self, hne⟩
      · exact Or.inl ⟨List.mem_cons_of_mem _ h1, h2⟩
      · refine Or.inr ⟨h1, fun y hy => ?_⟩
        rcases List.mem_cons.1 hy with rfl | hy
        · rcases List.mem_cons.1 h1 with rfl | h1
          · exact KeyBefore.ne hds
          · exact KeyBefore.ne (KeyBefore.trans hds (hs.1 x h1))
        · exact h2 y hy
    · rintro (⟨h1, h2⟩ | ⟨h1, h2⟩)
      · rcases List.mem_cons.1 h1 with rfl | h1
        · exact Or.inl rfl
        · exact Or.inr (Or.inl ⟨h1, h2⟩)
      · exact Or.inr (Or.inr ⟨h1, fun y hy => h2 y (List.mem_cons_of_mem _ hy)⟩)

/-! ## association lists -/

theorem lookup_some_mem {l : List KV} {k v : Bytes} : lookup l k = some v → (k, v) ∈ l := by
  induction l with
  | nil => simp [lookup]
  | cons h t ih =>
    obtain ⟨k', v'⟩ := h
    simp only [lookup]
    split
    · rename_i e; subst e; intro h; cases h; exact List.mem_cons_self
    · intro h; exact List.mem_cons_of_mem _ (ih h)

theorem lookup_none_iff {l : List KV} {k : Bytes} : lookup l k = none ↔ ∀ kv ∈ l, kv.1 ≠ k := by
  induction l with
  | nil => simp [lookup]
  | cons h t ih =>
    obtain ⟨k', v'⟩ := h
    simp only [lookup]
    split
    · rename_i e; subst e; simp
    · rename_i ne; simp [ih, ne]

theorem lookup_of_mem {rev : Bool} {l : List KV} {k v : Bytes} :
    StrictlyOrdered rev l → (k, v) ∈ l → lookup l k = some v := by
  unfold StrictlyOrdered
  induction l with
  | nil => simp
  | cons h t ih =>
    obtain ⟨k', v'⟩ := h
    intro hs hm
    rw [List.pairwise_cons] at hs
    simp only [lookup]
    rcases List.mem_cons.1 hm with e | hm
    · cases e; simp
    · have : k' ≠ k := KeyBefore.ne (hs.1 _ hm)
      simp [this, ih hs.2 hm]

theorem mem_iff_lookup {rev : Bool} {l : List KV} (hs : StrictlyOrdered rev l) (k v : Bytes) :
    (k, v) ∈ l ↔ lookup l k = some v := ⟨lookup_of_mem hs, lookup_some_mem⟩

/-! ## cursors -/

theorem mem_cursor (rev : Bool) (m : List KV) (lo hi : Bytes) (x : KV) :
    x ∈ cursor rev m lo hi ↔ x ∈ m ∧ inRange lo hi x.1 = true := by
  cases rev <;> simp [cursor]

theorem keyBefore_true (a b : KV) : KeyBefore true a b ↔ KeyBefore false b a := by simp [KeyBefore]

theorem cursor_sorted (rev : Bool) (m : List KV) (lo hi : Bytes) (h : IsMap m) :
    StrictlyOrdered rev (cursor rev m lo hi) := by
  unfold IsMap StrictlyOrdered at *
  cases rev
  · simp only [cursor]; exact h.filter _
  · simp only [cursor, if_true, List.pairwise_reverse]
    exact (h.filter _).imp (fun {a b} hab => (keyBefore_true b a).2 hab)

/-! ## everything the store iterator yields, pointwise -/

theorem visible_eq_some {o : Option Bytes} {v : Bytes} : visible o = some v ↔ o = some v ∧ v ≠ [] := by
  cases o with
  | none => simp [visible]
  | some w =>
    simp only [visible]
    split
    · rename_i e; subst e; simp
    · rename_i ne; simp; intro e; subst e; exact ne

theorem storeIter_mem_iff (snap buf : List KV) (lo hi : Bytes) (rev : Bool)
    (hsnap : IsMap snap) (hbuf : IsMap buf) (hne : NoEmpty snap) (k v : Bytes) :
    (k, v) ∈ storeIter snap buf lo hi rev ↔ inRange lo hi k = true ∧ viewGet snap buf k = some v := by
  unfold storeIter
  rw [iterAll_eq_merge, merge_mem_iff rev _ _ (cursor_sorted rev buf lo hi hbuf) (cursor_sorted rev snap lo hi hsnap)]
  simp only [mem_cursor, viewGet]
  cases hl : lookup buf k with
  | some w =>
    have hw := lookup_some_mem hl
    simp only [visible_eq_some]
    constructor
    · rintro (⟨⟨h1, h2⟩, h3⟩ | ⟨⟨_, h2⟩, h3⟩)
      · have := lookup_of_mem hbuf h1
        rw [hl] at this; cases this
        exact ⟨h2, rfl, h3⟩
      · exact absurd rfl (h3 (k, w) ⟨hw, h2⟩)
    · rintro ⟨h1, h2, h3⟩
      cases h2
      exact Or.inl ⟨⟨hw, h1⟩, h3⟩
  | none =>
    have hn := lookup_none_iff.1 hl
    simp only [visible_eq_some]
    constructor
    · rintro (⟨⟨h1, _⟩, _⟩ | ⟨⟨h1, h2⟩, _⟩)
      · exact absurd rfl (hn _ h1)
      · exact ⟨h2, lookup_of_mem hsnap h1, hne _ h1⟩
    · rintro ⟨h1, h2, _⟩
      exact Or.inr ⟨⟨lookup_some_mem h2, h1⟩, fun y hy => hn y hy.1⟩

theorem storeIter_sorted (snap buf : List KV) (lo hi : Bytes) (rev : Bool)
    (hsnap : IsMap snap) (hbuf : IsMap buf) : StrictlyOrdered rev (storeIter snap buf lo hi rev) := by
  unfold storeIter
  rw [iterAll_eq_merge]
  exact merge_sorted rev _ _ (cursor_sorted rev buf lo hi hbuf) (cursor_sorted rev snap lo hi hsnap)

/-! ## the declarative view -/

def SortedKeys (l : List Bytes) : Prop := l.Pairwise fun a b => Bytes.cmp a b = .lt

theorem mem_insertKey (k : Bytes) (l : List Bytes) (x : Bytes) : x ∈ insertKey k l ↔ x = k ∨ x ∈ l := by
  induction l with
  | nil => simp [insertKey]
  | cons y ys ih =>
    simp only [insertKey]
    split
    · simp
    · rename_i e; have := (cmp_eq_iff k y).1 e; subst this; simp
    · simp [ih]; grind

theorem insertKey_sorted (k : Bytes) (l : List Bytes) : SortedKeys l → SortedKeys (insertKey k l) := by
  unfold SortedKeys
  induction l with
  | nil => simp [insertKey]
  | cons y ys ih =>
    intro h
    simp only [insertKey]
    split
    · rename_i e
      rw [List.pairwise_cons]
      refine ⟨fun z hz => ?_, h⟩
      rw [List.pairwise_cons] at h
      rcases List.mem_cons.1 hz with rfl | hz
      · exact e
      · exact cmp_lt_trans e (h.1 z hz)
    · exact h
    · rename_i e
      rw [List.pairwise_cons] at h ⊢
      refine ⟨fun z hz => ?_, ih h.2⟩
      rcases (mem_insertKey k ys z).1 hz with rfl | hz
      · exact (cmp_gt_iff _ _).1 e
      · exact h.1 z hz

theorem mem_sortKeys (l : List Bytes) (x : Bytes) : x ∈ sortKeys l ↔ x ∈ l := by
  induction l with
  | nil => simp [sortKeys]
  | cons y ys ih =>
    have : sortKeys (y :: ys) = insertKey y (sortKeys ys) := rfl
    rw [this, mem_insertKey, ih]; simp

theorem sortKeys_sorted (l : List Bytes) : SortedKeys (sortKeys l) := by
  induction l with
  | nil => simp [sortKeys, SortedKeys]
  | cons y ys ih => exact insertKey_sorted y _ ih

theorem lookup_some_key {l : List KV} {k v : Bytes} (h : lookup l k = some v) : k ∈ l.map (·.1) :=
  List.mem_map.2 ⟨(k, v), lookup_some_mem h, rfl⟩

theorem viewGet_some_universe {snap buf : List KV} {k v : Bytes} (h : viewGet snap buf k = some v) :
    k ∈ keyUniverse snap buf := by
  unfold keyUniverse
  rw [mem_sortKeys, List.mem_append]
  unfold viewGet at h
  cases hl : lookup buf k with
  | some w => exact Or.inl (lookup_some_key hl)
  | none =>
    rw [hl] at h
    simp only [visible_eq_some] at h
    exact Or.inr (lookup_some_key h.1)

theorem view_mem_iff (snap buf : List KV) (lo hi : Bytes) (k v : Bytes) :
    (k, v) ∈ view snap buf lo hi ↔ inRange lo hi k = true ∧ viewGet snap buf k = some v := by
  unfold view
  rw [List.mem_filterMap]
  constructor
  · rintro ⟨a, _, h⟩
    split at h
    · rename_i hr
      cases hv : viewGet snap buf a with
      | none => simp [hv] at h
      | some w => simp [hv] at h; obtain ⟨rfl, rfl⟩ := h; exact ⟨hr, hv⟩
    · simp at h
  · rintro ⟨h1, h2⟩
    exact ⟨k, viewGet_some_universe h2, by simp [h1, h2]⟩

theorem view_sorted (snap buf : List KV) (lo hi : Bytes) : StrictlyOrdered false (view snap buf lo hi) := by
  unfold view StrictlyOrdered
  refine List.Pairwise.filterMap _ ?_ (sortKeys_sorted _)
  intro a a' haa b hb b' hb'
  have e1 : b.1 = a := by
    split at hb
    · cases hv : viewGet snap buf a with
      | none => simp [hv] at hb
      | some w => simp [hv] at hb; rw [← hb]
    · simp at hb
  have e2 : b'.1 = a' := by
    split at hb'
    · cases hv : viewGet snap buf a' with
      | none => simp [hv] at hb'
      | some w => simp [hv] at hb'; rw [← hb']
    · simp at hb'
  simp [KeyBefore, e1, e2, haa]

theorem viewDir_mem_iff (snap buf : List KV) (lo hi : Bytes) (rev : Bool) (k v : Bytes) :
    (k, v) ∈ viewDir snap buf lo hi rev ↔ inRange lo hi k = true ∧ viewGet snap buf k = some v := by
  cases rev <;> simp [viewDir, view_mem_iff]

theorem viewDir_sorted (snap buf : List KV) (lo hi : Bytes) (rev : Bool) :
    StrictlyOrdered rev (viewDir snap buf lo hi rev) := by
  cases rev
  · simp only [viewDir]; exact view_sorted snap buf lo hi
  · simp only [viewDir, if_true, StrictlyOrdered, List.pairwise_reverse]
    exact (view_sorted snap buf lo hi).imp (fun {a b} hab => (keyBefore_true b a).2 hab)

/-! ## a strictly ordered listing is determined by its entries -/

theorem ordered_ext (rev : Bool) : ∀ (l₁ l₂ : List KV), StrictlyOrdered rev l₁ → StrictlyOrdered rev l₂ →
    (∀ x, x ∈ l₁ ↔ x ∈ l₂) → l₁ = l₂ := by
  unfold StrictlyOrdered
  intro l₁
  induction l₁ with
  | nil =>
    intro l₂ _ _ h
    cases l₂ with
    | nil => rfl
    | cons y ys => exact absurd ((h y).2 List.mem_cons_self) (by simp)
  | cons x xs ih =>
    intro l₂ h1 h2 h
    cases l₂ with
    | nil => exact absurd ((h x).1 List.mem_cons_self) (by simp)
    | cons y ys =>
      rw [List.pairwise_cons] at h1 h2
      have hxy : x = y := by
        rcases List.mem_cons.1 ((h x).1 List.mem_cons_self) with e | hx
        · exact e
        · rcases List.mem_cons.1 ((h y).2 List.mem_cons_self) with e | hy
          · exact e.symm
          · exact absurd (h1.1 y hy) (KeyBefore.asymm (h2.1 x hx))
      subst hxy
      congr 1
      refine ih ys h1.2 h2.2 fun z => ⟨fun hz => ?_, fun hz => ?_⟩
      · rcases List.mem_cons.1 ((h z).1 (List.mem_cons_of_mem _ hz)) with e | hz'
        · subst e; exact absurd rfl (KeyBefore.ne (h1.1 z hz))
        · exact hz'
      · rcases List.mem_cons.1 ((h z).2 (List.mem_cons_of_mem _ hz)) with e | hz'
        · subst e; exact absurd rfl (KeyBefore.ne (h2.1 z hz))
        · exact hz'

theorem storeIter_eq_viewDir (snap buf : List KV) (lo hi : Bytes) (rev : Bool)
    (hsnap : IsMap snap) (hbuf : IsMap buf) (hne : NoEmpty snap) :
    storeIter snap buf lo hi rev = viewDir snap buf lo hi rev := by
  refine ordered_ext rev _ _ (storeIter_sorted snap buf lo hi rev hsnap hbuf) (viewDir_sorted snap buf lo hi rev) ?_
  rintro ⟨k, v⟩
  rw [storeIter_mem_iff snap buf lo hi rev hsnap hbuf hne, viewDir_mem_iff]


/-! ## `KVUnionStore.Get` -/

theorem unionGet_eq_viewGet (snap buf : List KV) (k : Bytes) : unionGet snap buf k = viewGet snap buf k := by
  unfold unionGet viewGet
  cases lookup buf k with
  | some v => simp [visible, List.isEmpty_iff]
  | none => cases lookup snap k <;> simp [visible, List.isEmpty_iff]

/-! ## Go maps as sorted association lists -/

theorem lookup_mapSet (k v : Bytes) (m : List KV) (k' : Bytes) :
    lookup (mapSet k v m) k' = if k = k' then some v else lookup m k' := by
  induction m with
  | nil => simp [mapSet, lookup]
  | cons h t ih =>
    obtain ⟨k₀, v₀⟩ := h
    simp only [mapSet]
    split
    · simp [lookup]
    · rename_i e
      have := (cmp_eq_iff k k₀).1 e; subst this
      simp only [lookup]; split <;> simp_all
    · rename_i e
      have hne : k₀ ≠ k := cmp_lt_ne ((cmp_gt_iff _ _).1 e)
      simp only [lookup, ih]
      by_cases h1 : k₀ = k'
      · subst h1; simp [hne.symm]
      · simp [h1]

theorem mem_mapSet {k v : Bytes} {m : List KV} {x : KV} : x ∈ mapSet k v m → x = (k, v) ∨ x ∈ m := by
  induction m with
  | nil => simp [mapSet]
  | cons h t ih =>
    obtain ⟨k₀, v₀⟩ := h
    simp only [mapSet]
    split
    · simp
    · simp; grind
    · simp; grind

theorem mapSet_sorted (k v : Bytes) (m : List KV) : IsMap m → IsMap (mapSet k v m) := by
  unfold IsMap StrictlyOrdered
  induction m with
  | nil => simp [mapSet]
  | cons h t ih =>
    obtain ⟨k₀, v₀⟩ := h
    intro hs
    simp only [mapSet]
    split
    · rename_i e
      rw [List.pairwise_cons]
      refine ⟨fun z hz => ?_, hs⟩
      rw [List.pairwise_cons] at hs
      have hk : KeyBefore false (k, v) (k₀, v₀) := by simpa [KeyBefore] using e
      rcases List.mem_cons.1 hz with rfl | hz
      · exact hk
      · exact KeyBefore.trans hk (hs.1 z hz)
    · rename_i e
      have := (cmp_eq_iff k k₀).1 e; subst this
      rw [List.pairwise_cons] at hs ⊢
      exact ⟨fun z hz => KeyBefore.congr_left (a := (k, v₀)) rfl (hs.1 z hz), hs.2⟩
    · rename_i e
      rw [List.pairwise_cons] at hs ⊢
      refine ⟨fun z hz => ?_, ih hs.2⟩
      rcases mem_mapSet hz with rfl | hz
      · simpa [KeyBefore] using (cmp_gt_iff _ _).1 e
      · exact hs.1 z hz

theorem isMap_nil : IsMap [] := List.Pairwise.nil

/-! ## batch get -/

theorem lookup_bufBatchLoop (buf : List KV) (ks : List Bytes) (m : List KV) (k : Bytes) :
    lookup (bufBatchLoop buf ks m) k =
      if k ∈ ks ∧ (lookup buf k).isSome then lookup buf k else lookup m k := by
  induction ks generalizing m with
  | nil => simp [bufBatchLoop]
  | cons x xs ih =>
    simp only [bufBatchLoop]
    cases hx : lookup buf x with
    | some v =>
      simp only [ih, lookup_mapSet]
      by_cases h1 : k ∈ xs ∧ (lookup buf k).isSome
      · simp [h1]
      · by_cases h2 : x = k
        · subst h2; simp [hx]
        · have : ¬ (k ∈ x :: xs ∧ (lookup buf k).isSome) := by
            simp only [List.mem_cons]; rintro ⟨h | h, h'⟩
            · exact h2 h.symm
            · exact h1 ⟨h, h'⟩
          rw [if_neg h1, if_neg this, if_neg h2]
    | none =>
      simp only [ih]
      by_cases h2 : x = k
      · subst h2; simp [hx]
      · have : (k ∈ x :: xs ∧ (lookup buf k).isSome) ↔ (k ∈ xs ∧ (lookup buf k).isSome) := by
          simp only [List.mem_cons]; constructor
          · rintro ⟨h | h, h'⟩
            · exact absurd h.symm h2
            · exact ⟨h, h'⟩
          · rintro ⟨h, h'⟩; exact ⟨Or.inr h, h'⟩
        simp only [this]

theorem bufBatchLoop_sorted (buf : List KV) (ks : List Bytes) (m : List KV) : IsMap m → IsMap (bufBatchLoop buf ks m) := by
  induction ks generalizing m with
  | nil => simp [bufBatchLoop]
  | cons x xs ih =>
    intro h
    simp only [bufBatchLoop]
    cases lookup buf x with
    | some v => exact ih _ (mapSet_sorted x v m h)
    | none => exact ih _ h

theorem lookup_bufBatchGet (buf : List KV) (keys : List Bytes) (k : Bytes) :
    lookup (bufBatchGet buf keys) k = if k ∈ keys then lookup buf k else none := by
  unfold bufBatchGet
  cases buf with
  | nil => simp [lookup]
  | cons h t =>
    simp only [List.isEmpty_cons, Bool.false_eq_true, if_false, lookup_bufBatchLoop]
    by_cases hk : k ∈ keys
    · cases hl : lookup (h :: t) k <;> simp [hk, lookup]
    · simp [hk, lookup]

theorem bufBatchGet_sorted (buf : List KV) (keys : List Bytes) : IsMap (bufBatchGet buf keys) := by
  unfold bufBatchGet
  split
  · exact isMap_nil
  · exact bufBatchLoop_sorted buf keys [] isMap_nil

theorem lookup_snapBatchLoop (snap : List KV) (ks : List Bytes) (m : List KV) (k : Bytes) :
    lookup (snapBatchLoop snap ks m) k =
      if k ∈ ks ∧ (visible (lookup snap k)).isSome then visible (lookup snap k) else lookup m k := by
  induction ks generalizing m with
  | nil => simp [snapBatchLoop]
  | cons x xs ih =>
    simp only [snapBatchLoop]
    cases hx : visible (lookup snap x) with
    | some v =>
      simp only [ih, lookup_mapSet]
      by_cases h1 : k ∈ xs ∧ (visible (lookup snap k)).isSome
      · simp [h1]
      · by_cases h2 : x = k
        · subst h2; simp [hx]
        · have : ¬ (k ∈ x :: xs ∧ (visible (lookup snap k)).isSome) := by
            simp only [List.mem_cons]; rintro ⟨h | h, h'⟩
            · exact h2 h.symm
            · exact h1 ⟨h, h'⟩
          rw [if_neg h1, if_neg this, if_neg h2]
    | none =>
      simp only [ih]
      by_cases h2 : x = k
      · subst h2; simp [hx]
      · have : (k ∈ x :: xs ∧ (visible (lookup snap k)).isSome) ↔ (k ∈ xs ∧ (visible (lookup snap k)).isSome) := by
          simp only [List.mem_cons]; constructor
          · rintro ⟨h | h, h'⟩
            · exact absurd h.symm h2
            · exact ⟨h, h'⟩
          · rintro ⟨h, h'⟩; exact ⟨Or.inr h, h'⟩
        simp only [this]

theorem lookup_snapBatchGet (snap : List KV) (keys : List Bytes) (k : Bytes) :
    lookup (snapBatchGet snap keys) k = if k ∈ keys then visible (lookup snap k) else none := by
  unfold snapBatchGet
  rw [lookup_snapBatchLoop]
  by_cases hk : k ∈ keys
  · cases hl : visible (lookup snap k) <;> simp [hk, lookup]
  · simp [hk, lookup]

theorem lookup_mergeInto (a m : List KV) (k : Bytes) :
    lookup (mergeInto a m) k = match lookup a k with | some v => some v | none => lookup m k := by
  induction a with
  | nil => simp [mergeInto, lookup]
  | cons h t ih =>
    obtain ⟨k₀, v₀⟩ := h
    simp only [mergeInto]
    rw [lookup_mapSet, ih]
    simp only [lookup]
    split <;> simp

theorem lookup_filter_visible (m : List KV) (hm : IsMap m) (k : Bytes) :
    lookup (m.filter fun kv => !kv.2.isEmpty) k = visible (lookup m k) := by
  unfold IsMap StrictlyOrdered at hm
  induction m with
  | nil => simp [lookup, visible]
  | cons h t ih =>
    obtain ⟨k₀, v₀⟩ := h
    rw [List.pairwise_cons] at hm
    simp only [List.filter_cons]
    by_cases hk : k₀ = k
    · subst hk
      have hnone : lookup t k₀ = none := lookup_none_iff.2 fun kv hkv => (KeyBefore.ne (hm.1 kv hkv)).symm
      by_cases hv : v₀ = []
      · subst hv; simp [lookup, visible, ih hm.2, hnone]
      · have : v₀.isEmpty = false := by simpa [List.isEmpty_iff] using hv
        simp [this, lookup, visible, hv]
    · by_cases hv : v₀.isEmpty
      · simp [hv, lookup, hk, ih hm.2]
      · simp [hv, lookup, hk, ih hm.2]

theorem lookup_batchGet (snap buf : List KV) (keys : List Bytes) (k : Bytes) :
    lookup (batchGet snap buf keys) k = if k ∈ keys then viewGet snap buf k else none := by
  unfold batchGet
  simp only
  split
  · rename_i hempty
    rw [lookup_snapBatchGet]
    by_cases hk : k ∈ keys
    · have : lookup buf k = none := by
        have := lookup_bufBatchGet buf keys k
        rw [List.isEmpty_iff.1 hempty] at this
        simpa [lookup, hk] using this.symm
      simp [hk, viewGet, this]
    · simp [hk]
  · rw [lookup_mergeInto, lookup_snapBatchGet, lookup_filter_visible _ (bufBatchGet_sorted buf keys), lookup_bufBatchGet]
    by_cases hk : k ∈ keys
    · cases hl : lookup buf k with
      | some v =>
        have hb : lookup (bufBatchGet buf keys) k = some v := by
          rw [lookup_bufBatchGet]; simp [hk, hl]
        simp [List.mem_filter, hb, hk, viewGet, hl]
      | none =>
        have : (k ∈ keys ∧ (lookup (bufBatchGet buf keys) k).isNone = true) := by
          rw [lookup_bufBatchGet]; simp [hk, hl]
        simp only [List.mem_filter, this, if_true, viewGet, hl]
        cases visible (lookup snap k) <;> simp [visible]
    · have : ¬ (k ∈ keys ∧ (lookup (bufBatchGet buf keys) k).isNone = true) := fun h => hk h.1
      simp [List.mem_filter, hk, visible]



/-! ## the abstract write buffer -/

theorem release_innermost (b : Buf) : b.release b.depth = some b.releaseTop := by
  unfold Buf.release
  by_cases h : b.depth = 0
  · obtain ⟨cur, marks⟩ := b
    simp only [h, if_true]
    have hd : ∀ ms : List Mark, stageCount ms = 0 → dropFirstStage ms = ms := by
      intro ms
      induction ms with
      | nil => intro _; rfl
      | cons m r ih =>
        intro h0
        simp only [stageCount] at h0
        by_cases hm : m.isStage
        · simp [hm] at h0
        · simp [hm] at h0; simp [dropFirstStage, hm, ih h0]
    simp [Buf.releaseTop, hd marks h]
  · simp [h]

theorem cutAtStage_none : ∀ ms : List Mark, stageCount ms = 0 → cutAtStage ms = none := by
  intro ms
  induction ms with
  | nil => intro _; rfl
  | cons m r ih =>
    intro h0
    simp only [stageCount] at h0
    by_cases hm : m.isStage
    · simp [hm] at h0
    · simp [hm] at h0; simp [cutAtStage, hm, ih h0]

theorem cleanup_innermost (b : Buf) : b.cleanup b.depth = some b.cleanupTop := by
  unfold Buf.cleanup
  by_cases h : b.depth = 0
  · simp only [h, if_true]
    simp [Buf.cleanupTop, cutAtStage_none b.marks h]
  · simp [h]

/-- the content and every saved copy are well formed maps -/
def Buf.WF (b : Buf) : Prop := IsMap b.cur ∧ ∀ m ∈ b.marks, IsMap m.saved

theorem wf_empty : Buf.empty.WF := ⟨isMap_nil, by simp [Buf.empty]⟩

theorem mem_dropFirstStage {ms : List Mark} {x : Mark} : x ∈ dropFirstStage ms → x ∈ ms := by
  induction ms with
  | nil => simp [dropFirstStage]
  | cons m r ih =>
    simp only [dropFirstStage]
    split
    · exact List.mem_cons_of_mem _
    · intro h; rcases List.mem_cons.1 h with rfl | h
      · exact List.mem_cons_self
      · exact List.mem_cons_of_mem _ (ih h)

theorem cutAtStage_sub {ms : List Mark} {sv : List KV} {rest : List Mark} :
    cutAtStage ms = some (sv, rest) → (∃ m ∈ ms, m.saved = sv) ∧ ∀ x ∈ rest, x ∈ ms := by
  induction ms with
  | nil => simp [cutAtStage]
  | cons m r ih =>
    simp only [cutAtStage]
    split
    · intro h; cases h
      exact ⟨⟨m, List.mem_cons_self, rfl⟩, fun x hx => List.mem_cons_of_mem _ hx⟩
    · intro h
      obtain ⟨⟨m', hm', e⟩, h2⟩ := ih h
      exact ⟨⟨m', List.mem_cons_of_mem _ hm', e⟩, fun x hx => List.mem_cons_of_mem _ (h2 x hx)⟩

theorem cutAtCp_sub {i : Nat} {ms : List Mark} {sv : List KV} {rest : List Mark} :
    cutAtCp i ms = some (sv, rest) → (∃ m ∈ ms, m.saved = sv) ∧ ∀ x ∈ rest, x ∈ ms := by
  induction ms with
  | nil => simp [cutAtCp]
  | cons m r ih =>
    simp only [cutAtCp]
    split
    · simp
    · split
      · intro h; cases h
        exact ⟨⟨m, List.mem_cons_self, rfl⟩, fun x hx => hx⟩
      · intro h
        obtain ⟨⟨m', hm', e⟩, h2⟩ := ih h
        exact ⟨⟨m', List.mem_cons_of_mem _ hm', e⟩, fun x hx => List.mem_cons_of_mem _ (h2 x hx)⟩

theorem wf_apply (b : Buf) (op : BOp) (h : b.WF) : (b.apply op).WF := by
  obtain ⟨hc, hs⟩ := h
  cases op with
  | set k v =>
    simp only [Buf.apply]; split
    · exact ⟨hc, hs⟩
    · exact ⟨mapSet_sorted k v _ hc, hs⟩
  | del k => exact ⟨mapSet_sorted k [] _ hc, hs⟩
  | staging =>
    refine ⟨hc, fun m hm => ?_⟩
    simp only [Buf.apply, Buf.staging] at hm
    rcases List.mem_cons.1 hm with rfl | h
    · exact hc
    · exact hs m h
  | checkpoint =>
    refine ⟨hc, fun m hm => ?_⟩
    simp only [Buf.apply, Buf.checkpoint] at hm
    rcases List.mem_cons.1 hm with rfl | h
    · exact hc
    · exact hs m h
  | release => exact ⟨hc, fun m hm => hs m (mem_dropFirstStage hm)⟩
  | cleanup =>
    simp only [Buf.apply, Buf.cleanupTop]
    cases hcut : cutAtStage b.marks with
    | none => exact ⟨hc, hs⟩
    | some p =>
      obtain ⟨sv, rest⟩ := p
      obtain ⟨⟨m, hm, e⟩, h2⟩ := cutAtStage_sub hcut
      exact ⟨e ▸ hs m hm, fun x hx => hs x (h2 x hx)⟩
  | revert i =>
    simp only [Buf.apply, Buf.revert]
    cases hcut : cutAtCp i b.marks with
    | none => exact ⟨hc, hs⟩
    | some p =>
      obtain ⟨sv, rest⟩ := p
      obtain ⟨⟨m, hm, e⟩, h2⟩ := cutAtCp_sub hcut
      exact ⟨e ▸ hs m hm, fun x hx => hs x (h2 x hx)⟩

theorem wf_run (b : Buf) (ops : List BOp) (h : b.WF) : (b.run ops).WF := by
  induction ops generalizing b with
  | nil => exact h
  | cons op r ih => exact ih _ (wf_apply b op h)

/-! ### against the write logs -/

theorem lookup_append (a b : List KV) (k : Bytes) :
    lookup (a ++ b) k = match lookup a k with | some v => some v | none => lookup b k := by
  induction a with
  | nil => simp [lookup]
  | cons h t ih =>
    obtain ⟨k₀, v₀⟩ := h
    simp only [List.cons_append, lookup]
    split <;> simp [ih]

theorem liveOf_cons (s : Seg) (ss : List Seg) (base : List KV) : liveOf (s :: ss) base = s.log ++ liveOf ss base := by
  simp [liveOf]

/-- the content answers `lookup` like all live writes, and every mark's saved copy like the writes below it -/
def Refines : List KV → List Mark → List Seg → List KV → Prop
  | cur, [], [], base => ∀ k, lookup cur k = lookup base k
  | cur, m :: ms, s :: ss, base =>
    m.isStage = s.isStage ∧ (∀ k, lookup cur k = lookup (s.log ++ liveOf ss base) k) ∧ Refines m.saved ms ss base
  | _, _, _, _ => False

theorem refines_lookup {cur : List KV} {ms : List Mark} {ss : List Seg} {base : List KV}
    (h : Refines cur ms ss base) (k : Bytes) : lookup cur k = lookup (liveOf ss base) k := by
  match ms, ss, h with
  | [], [], h => simpa [liveOf] using h k
  | m :: ms, s :: ss, h => rw [liveOf_cons]; exact h.2.1 k

theorem refines_cpCount {cur : List KV} {ms : List Mark} {ss : List Seg} {base : List KV}
    (h : Refines cur ms ss base) : cpCount ms = segCps ss := by
  induction ms generalizing cur ss with
  | nil =>
    match ss, h with
    | [], _ => rfl
  | cons m ms ih =>
    match ss, h with
    | s :: ss, h => simp [cpCount, segCps, h.1, ih h.2.2]

theorem refines_write (k v : Bytes) {cur : List KV} {ms : List Mark} {ss : List Seg} {base : List KV}
    (h : Refines cur ms ss base) :
    Refines (mapSet k v cur) ms (pushWrite (k, v) ⟨ss, base⟩).segs (pushWrite (k, v) ⟨ss, base⟩).base := by
  match ms, ss, h with
  | [], [], h =>
    intro k'
    simp only [pushWrite, lookup_mapSet, lookup, h k']
  | m :: ms, s :: ss, h =>
    refine ⟨h.1, fun k' => ?_, h.2.2⟩
    simp only [pushWrite, lookup_mapSet, List.cons_append, lookup, h.2.1 k']

theorem liveOf_appendBelow (log : List KV) (ss : List Seg) (base : List KV) :
    liveOf (appendBelow log ss base).1 (appendBelow log ss base).2 = log ++ liveOf ss base := by
  cases ss with
  | nil => simp [appendBelow, liveOf]
  | cons t r => simp [appendBelow, liveOf]

theorem refines_release {cur : List KV} {ms : List Mark} {ss : List Seg} {base : List KV}
    (h : Refines cur ms ss base) :
    match releaseSegs ss base with
    | some (ss', base') => Refines cur (dropFirstStage ms) ss' base' ∧ liveOf ss' base' = liveOf ss base
    | none => dropFirstStage ms = ms := by
  induction ms generalizing cur ss with
  | nil =>
    match ss, h with
    | [], _ => simp [releaseSegs, dropFirstStage]
  | cons m ms ih =>
    match ss, h with
    | s :: ss, h =>
      obtain ⟨hk, hl, hr⟩ := h
      simp only [releaseSegs, dropFirstStage, hk]
      by_cases hs : s.isStage
      · simp only [hs, if_true]
        refine ⟨?_, by rw [liveOf_appendBelow, liveOf_cons]⟩
        match ms, ss, hr with
        | [], [], hr =>
          intro k; simpa [appendBelow, liveOf] using hl k
        | m' :: ms', t :: r, hr =>
          exact ⟨hr.1, fun k => by simpa [appendBelow, List.append_assoc, liveOf_cons] using hl k, hr.2.2⟩
      · simp only [hs, Bool.false_eq_true, if_false]
        have := ih hr
        cases hrel : releaseSegs ss base with
        | none =>
          rw [hrel] at this
          simp [this]
        | some p =>
          obtain ⟨ss', base'⟩ := p
          rw [hrel] at this
          simp only
          refine ⟨⟨hk, fun k => ?_, this.1⟩, ?_⟩
          · rw [this.2]; exact hl k
          · rw [liveOf_cons, liveOf_cons, this.2]

theorem refines_cleanup {cur : List KV} {ms : List Mark} {ss : List Seg} {base : List KV}
    (h : Refines cur ms ss base) :
    match cutAtStage ms, cleanupSegs ss with
    | some (sv, rest), some ss' => Refines sv rest ss' base
    | none, none => True
    | _, _ => False := by
  induction ms generalizing cur ss with
  | nil =>
    match ss, h with
    | [], _ => simp [cutAtStage, cleanupSegs]
  | cons m ms ih =>
    match ss, h with
    | s :: ss, h =>
      obtain ⟨hk, hl, hr⟩ := h
      simp only [cutAtStage, cleanupSegs, hk]
      by_cases hs : s.isStage
      · simp only [hs, if_true]; exact hr
      · simp only [hs, Bool.false_eq_true, if_false]; exact ih hr

theorem refines_revert (i : Nat) {cur : List KV} {ms : List Mark} {ss : List Seg} {base : List KV}
    (h : Refines cur ms ss base) :
    match cutAtCp i ms, revertSegs i ss with
    | some (sv, rest), some ss' => Refines sv rest ss' base
    | none, none => True
    | _, _ => False := by
  induction ms generalizing cur ss with
  | nil =>
    match ss, h with
    | [], _ => simp [cutAtCp, revertSegs]
  | cons m ms ih =>
    match ss, h with
    | s :: ss, h =>
      obtain ⟨hk, hl, hr⟩ := h
      simp only [cutAtCp, revertSegs, hk, refines_cpCount hr]
      by_cases hs : s.isStage
      · simp [hs]
      · simp only [hs, Bool.false_eq_true, if_false]
        by_cases hi : segCps ss = i
        · simp only [hi, if_true]
          exact ⟨by simp [hk, hs], fun k => by simpa using refines_lookup hr k, hr⟩
        · simp only [hi, if_false]; exact ih hr

theorem refines_apply (b : Buf) (op : BOp) (st : LogState) (h : Refines b.cur b.marks st.segs st.base) :
    Refines (b.apply op).cur (b.apply op).marks (stepLog st op).segs (stepLog st op).base := by
  obtain ⟨cur, ms⟩ := b
  obtain ⟨ss, base⟩ := st
  simp only at h
  cases op with
  | set k v =>
    simp only [Buf.apply, stepLog]
    by_cases hv : v = []
    · subst hv; simpa using h
    · have : v.isEmpty = false := by simpa [List.isEmpty_iff] using hv
      simp only [this, hv, if_false, Bool.false_eq_true]
      exact refines_write k v h
  | del k => exact refines_write k [] h
  | staging =>
    simp only [Buf.apply, Buf.staging, stepLog]
    exact ⟨rfl, fun k => by simpa using refines_lookup h k, h⟩
  | checkpoint =>
    simp only [Buf.apply, Buf.checkpoint, stepLog]
    exact ⟨rfl, fun k => by simpa using refines_lookup h k, h⟩
  | release =>
    have := refines_release h
    simp only [Buf.apply, Buf.releaseTop, stepLog]
    cases hrel : releaseSegs ss base with
    | none => rw [hrel] at this; simp only at this ⊢; rw [this]; exact h
    | some p => obtain ⟨ss', base'⟩ := p; rw [hrel] at this; exact this.1
  | cleanup =>
    have := refines_cleanup h
    simp only [Buf.apply, Buf.cleanupTop, stepLog]
    cases h1 : cutAtStage ms with
    | none =>
      cases h2 : cleanupSegs ss with
      | none => simpa using h
      | some ss' => rw [h1, h2] at this; exact absurd this id
    | some p =>
      obtain ⟨sv, rest⟩ := p
      cases h2 : cleanupSegs ss with
      | none => rw [h1, h2] at this; exact absurd this id
      | some ss' => rw [h1, h2] at this; exact this
  | revert i =>
    have := refines_revert i h
    simp only [Buf.apply, Buf.revert, stepLog]
    cases h1 : cutAtCp i ms with
    | none =>
      cases h2 : revertSegs i ss with
      | none => simpa using h
      | some ss' => rw [h1, h2] at this; exact absurd this id
    | some p =>
      obtain ⟨sv, rest⟩ := p
      cases h2 : revertSegs i ss with
      | none => rw [h1, h2] at this; exact absurd this id
      | some ss' => rw [h1, h2] at this; exact this

theorem refines_run (b : Buf) (ops : List BOp) (st : LogState) (h : Refines b.cur b.marks st.segs st.base) :
    Refines (b.run ops).cur (b.run ops).marks (ops.foldl stepLog st).segs (ops.foldl stepLog st).base := by
  induction ops generalizing b st with
  | nil => exact h
  | cons op r ih => exact ih _ _ (refines_apply b op st h)

theorem run_lookup (ops : List BOp) (k : Bytes) :
    lookup (Buf.empty.run ops).cur k = lookup (liveWrites ops) k := by
  have h0 : Refines Buf.empty.cur Buf.empty.marks [] [] := by intro k; rfl
  exact refines_lookup (refines_run Buf.empty ops ⟨[], []⟩ h0) k

theorem viewGet_congr (snap : List KV) {b₁ b₂ : List KV} (h : ∀ k, lookup b₁ k = lookup b₂ k) (k : Bytes) :
    viewGet snap b₁ k = viewGet snap b₂ k := by simp [viewGet, h k]

theorem viewDir_congr (snap : List KV) {b₁ b₂ : List KV} (h : ∀ k, lookup b₁ k = lookup b₂ k)
    (lo hi : Bytes) (rev : Bool) : viewDir snap b₁ lo hi rev = viewDir snap b₂ lo hi rev := by
  refine ordered_ext rev _ _ (viewDir_sorted ..) (viewDir_sorted ..) ?_
  rintro ⟨k, v⟩
  rw [viewDir_mem_iff, viewDir_mem_iff, viewGet_congr snap h]

theorem run_append (b : Buf) (o₁ o₂ : List BOp) : b.run (o₁ ++ o₂) = (b.run o₁).run o₂ := by
  simp [Buf.run, List.foldl_append]


/-! ### blocks: what happens above an undo mark leaves the mark and everything below it alone -/

theorem cpCount_append (a b : List Mark) : cpCount (a ++ b) = cpCount a + cpCount b := by
  induction a with
  | nil => simp [cpCount]
  | cons m r ih => simp [cpCount, ih]; omega

theorem dropFirstStage_top (tail : List Mark) : ∀ (top : List Mark) (d : Nat), stageCount top = d + 1 →
    ∃ top', dropFirstStage (top ++ tail) = top' ++ tail ∧ stageCount top' = d := by
  intro top
  induction top with
  | nil => intro d h; simp [stageCount] at h
  | cons m r ih =>
    intro d h
    simp only [stageCount] at h
    by_cases hm : m.isStage
    · simp only [hm, if_true] at h
      exact ⟨r, by simp [dropFirstStage, hm], by omega⟩
    · simp only [hm, Bool.false_eq_true, if_false, Nat.zero_add] at h
      obtain ⟨top', h1, h2⟩ := ih d h
      exact ⟨m :: top', by simp [dropFirstStage, hm, h1], by simp [stageCount, hm, h2]⟩

theorem cutAtStage_top (tail : List Mark) : ∀ (top : List Mark) (d : Nat), stageCount top = d + 1 →
    ∃ sv top', cutAtStage (top ++ tail) = some (sv, top' ++ tail) ∧ stageCount top' = d := by
  intro top
  induction top with
  | nil => intro d h; simp [stageCount] at h
  | cons m r ih =>
    intro d h
    simp only [stageCount] at h
    by_cases hm : m.isStage
    · simp only [hm, if_true] at h
      exact ⟨m.saved, r, by simp [cutAtStage, hm], by omega⟩
    · simp only [hm, Bool.false_eq_true, if_false, Nat.zero_add] at h
      obtain ⟨sv, top', h1, h2⟩ := ih d h
      exact ⟨sv, top', by simp [cutAtStage, hm, h1], h2⟩

theorem cutAtCp_none_of_le (j : Nat) : ∀ ms : List Mark, cpCount ms ≤ j → cutAtCp j ms = none := by
  intro ms
  induction ms with
  | nil => intro _; rfl
  | cons m r ih =>
    intro h
    simp only [cutAtCp]
    by_cases hm : m.isStage
    · simp [hm]
    · simp only [cpCount, hm, Bool.false_eq_true, if_false] at h
      have : cpCount r ≠ j := by omega
      simp only [hm, Bool.false_eq_true, if_false, this]
      exact ih (by omega)

/-- a revert issued above the floor mark `fm` either is refused or cuts inside `top` (or exactly at `fm`) -/
theorem cutAtCp_top (fm : Mark) (rest : List Mark) (j : Nat)
    (hfloor : fm.isStage = true ∨ (fm.isStage = false ∧ cpCount rest ≤ j)) :
    ∀ top : List Mark, cutAtCp j (top ++ fm :: rest) = none ∨
      ∃ sv top', cutAtCp j (top ++ fm :: rest) = some (sv, top' ++ fm :: rest) ∧ stageCount top' = stageCount top := by
  intro top
  induction top with
  | nil =>
    simp only [List.nil_append, cutAtCp]
    rcases hfloor with hs | ⟨hs, hle⟩
    · simp [hs]
    · simp only [hs, Bool.false_eq_true, if_false]
      by_cases he : cpCount rest = j
      · exact Or.inr ⟨fm.saved, [], by simp [he], rfl⟩
      · simp only [he, if_false]
        exact Or.inl (cutAtCp_none_of_le j rest hle)
  | cons m r ih =>
    simp only [List.cons_append, cutAtCp]
    by_cases hm : m.isStage
    · simp [hm]
    · simp only [hm, Bool.false_eq_true, if_false]
      by_cases he : cpCount (r ++ fm :: rest) = j
      · exact Or.inr ⟨m.saved, m :: r, by simp [he], rfl⟩
      · simp only [he, if_false]
        rcases ih with h | ⟨sv, top', h1, h2⟩
        · exact Or.inl h
        · exact Or.inr ⟨sv, top', h1, by simp [stageCount, hm, h2]⟩

theorem revertsAtLeast_cons {i : Nat} {op : BOp} {r : List BOp} (h : RevertsAtLeast i (op :: r)) :
    op.revertsAtLeast i = true ∧ RevertsAtLeast i r :=
  ⟨h op List.mem_cons_self, fun o ho => h o (List.mem_cons_of_mem _ ho)⟩

theorem run_block (fm : Mark) (rest : List Mark) (ops : List BOp) :
    ∀ (d d' : Nat) (cur : List KV) (top : List Mark),
    stageCount top = d → netDepth d ops = some d' →
    (fm.isStage = true ∨ (fm.isStage = false ∧ RevertsAtLeast (cpCount rest) ops)) →
    ∃ cur' top', Buf.run ⟨cur, top ++ fm :: rest⟩ ops = ⟨cur', top' ++ fm :: rest⟩ ∧ stageCount top' = d' := by
  induction ops with
  | nil => intro d d' cur top hl hn _; simp [netDepth] at hn; subst hn; exact ⟨cur, top, rfl, hl⟩
  | cons op r ih =>
    intro d d' cur top hl hn hf
    have hf' : fm.isStage = true ∨ (fm.isStage = false ∧ RevertsAtLeast (cpCount rest) r) := by
      rcases hf with h | ⟨h1, h2⟩
      · exact Or.inl h
      · exact Or.inr ⟨h1, (revertsAtLeast_cons h2).2⟩
    cases op with
    | set k v =>
      simp only [netDepth] at hn
      simp only [Buf.run, List.foldl_cons, Buf.apply]
      split
      · exact ih d d' cur top hl hn hf'
      · exact ih d d' _ top hl hn hf'
    | del k =>
      simp only [netDepth] at hn
      exact ih d d' _ top hl hn hf'
    | staging =>
      simp only [netDepth] at hn
      have := ih (d + 1) d' cur (⟨true, cur⟩ :: top) (by simp [stageCount, hl]; omega) hn hf'
      simpa [Buf.run, Buf.apply, Buf.staging] using this
    | checkpoint =>
      simp only [netDepth] at hn
      have := ih d d' cur (⟨false, cur⟩ :: top) (by simp [stageCount, hl]) hn hf'
      simpa [Buf.run, Buf.apply, Buf.checkpoint] using this
    | release =>
      cases d with
      | zero => simp [netDepth] at hn
      | succ d =>
        simp only [netDepth] at hn
        obtain ⟨top', h1, h2⟩ := dropFirstStage_top (fm :: rest) top d hl
        have := ih d d' cur top' h2 hn hf'
        simpa [Buf.run, Buf.apply, Buf.releaseTop, h1] using this
    | cleanup =>
      cases d with
      | zero => simp [netDepth] at hn
      | succ d =>
        simp only [netDepth] at hn
        obtain ⟨sv, top', h1, h2⟩ := cutAtStage_top (fm :: rest) top d hl
        have := ih d d' sv top' h2 hn hf'
        simpa [Buf.run, Buf.apply, Buf.cleanupTop, h1] using this
    | revert j =>
      simp only [netDepth] at hn
      have hfloor : fm.isStage = true ∨ (fm.isStage = false ∧ cpCount rest ≤ j) := by
        rcases hf with h | ⟨h1, h2⟩
        · exact Or.inl h
        · have := (revertsAtLeast_cons h2).1
          simp [BOp.revertsAtLeast] at this
          exact Or.inr ⟨h1, this⟩
      rcases cutAtCp_top fm rest j hfloor top with h | ⟨sv, top', h1, h2⟩
      · have := ih d d' cur top hl hn hf'
        simpa [Buf.run, Buf.apply, Buf.revert, h] using this
      · have := ih d d' sv top' (h2.trans hl) hn hf'
        simpa [Buf.run, Buf.apply, Buf.revert, h1] using this

theorem cutAtStage_floor (fm : Mark) (rest : List Mark) (hfm : fm.isStage = true) :
    ∀ top : List Mark, stageCount top = 0 → cutAtStage (top ++ fm :: rest) = some (fm.saved, rest) := by
  intro top
  induction top with
  | nil => intro _; simp [cutAtStage, hfm]
  | cons m r ih =>
    intro h
    simp only [stageCount] at h
    by_cases hm : m.isStage
    · simp [hm] at h
    · simp [hm] at h; simp [cutAtStage, hm, ih h]

theorem dropFirstStage_floor (fm : Mark) (rest : List Mark) (hfm : fm.isStage = true) :
    ∀ top : List Mark, stageCount top = 0 → dropFirstStage (top ++ fm :: rest) = top ++ rest := by
  intro top
  induction top with
  | nil => intro _; simp [dropFirstStage, hfm]
  | cons m r ih =>
    intro h
    simp only [stageCount] at h
    by_cases hm : m.isStage
    · simp [hm] at h
    · simp [hm] at h; simp [dropFirstStage, hm, ih h]

theorem cutAtCp_floor (fm : Mark) (rest : List Mark) (hfm : fm.isStage = false) :
    ∀ top : List Mark, stageCount top = 0 →
      cutAtCp (cpCount rest) (top ++ fm :: rest) = some (fm.saved, fm :: rest) := by
  intro top
  induction top with
  | nil => intro _; simp [cutAtCp, hfm]
  | cons m r ih =>
    intro h
    simp only [stageCount] at h
    by_cases hm : m.isStage
    · simp [hm] at h
    · simp [hm] at h
      have : cpCount (r ++ fm :: rest) ≠ cpCount rest := by
        rw [cpCount_append]; simp [cpCount, hfm]; omega
      simp [cutAtCp, hm, this, ih h]

theorem stageCount_zero_iff (top : List Mark) : stageCount top = 0 ↔ ∀ m ∈ top, m.isStage = false := by
  induction top with
  | nil => simp [stageCount]
  | cons m r ih =>
    simp only [stageCount, List.mem_cons, forall_eq_or_imp]
    by_cases hm : m.isStage
    · simp [hm]
    · simp [hm, ih]



/-! ### blocks above a checkpoint: older staging levels may be released meanwhile -/

theorem cpCount_dropFirstStage (ms : List Mark) : cpCount (dropFirstStage ms) = cpCount ms := by
  induction ms with
  | nil => rfl
  | cons m r ih =>
    simp only [dropFirstStage]
    by_cases hm : m.isStage
    · simp [hm, cpCount]
    · simp [hm, cpCount, ih]

theorem dropFirstStage_below (fm : Mark) (rest : List Mark) (hfm : fm.isStage = false) :
    ∀ top : List Mark, stageCount top = 0 →
      dropFirstStage (top ++ fm :: rest) = top ++ fm :: dropFirstStage rest := by
  intro top
  induction top with
  | nil => intro _; simp [dropFirstStage, hfm]
  | cons m r ih =>
    intro h
    simp only [stageCount] at h
    by_cases hm : m.isStage
    · simp [hm] at h
    · simp [hm] at h; simp [dropFirstStage, hm, ih h]

theorem dropStages_succ (n : Nat) (ms : List Mark) : dropStages (n + 1) ms = dropFirstStage (dropStages n ms) := by
  induction n generalizing ms with
  | zero => rfl
  | succ n ih => simp only [dropStages] at ih ⊢; exact ih (dropFirstStage ms)

theorem cpCount_dropStages (n : Nat) (ms : List Mark) : cpCount (dropStages n ms) = cpCount ms := by
  induction n generalizing ms with
  | zero => rfl
  | succ n ih => simp [dropStages, ih, cpCount_dropFirstStage]

theorem run_block_cp (fm : Mark) (hfm : fm.isStage = false) (ops : List BOp) :
    ∀ (d n d' n' : Nat) (cur : List KV) (top rest : List Mark),
    stageCount top = d → cpBlock d n ops = some (d', n') → RevertsAtLeast (cpCount rest) ops →
    ∃ cur' top' k, Buf.run ⟨cur, top ++ fm :: rest⟩ ops = ⟨cur', top' ++ fm :: dropStages k rest⟩ ∧
      stageCount top' = d' ∧ n + k = n' := by
  induction ops with
  | nil =>
    intro d n d' n' cur top rest hl hn _
    simp [cpBlock] at hn
    exact ⟨cur, top, 0, rfl, hn.1 ▸ hl, hn.2⟩
  | cons op r ih =>
    intro d n d' n' cur top rest hl hn hf
    have hf' := (revertsAtLeast_cons hf).2
    cases op with
    | set k v =>
      simp only [cpBlock] at hn
      simp only [Buf.run, List.foldl_cons, Buf.apply]
      split
      · exact ih d n d' n' cur top rest hl hn hf'
      · exact ih d n d' n' _ top rest hl hn hf'
    | del k =>
      simp only [cpBlock] at hn
      exact ih d n d' n' _ top rest hl hn hf'
    | staging =>
      simp only [cpBlock] at hn
      have := ih (d + 1) n d' n' cur (⟨true, cur⟩ :: top) rest (by simp [stageCount, hl]; omega) hn hf'
      simpa [Buf.run, Buf.apply, Buf.staging] using this
    | checkpoint =>
      simp only [cpBlock] at hn
      have := ih d n d' n' cur (⟨false, cur⟩ :: top) rest (by simp [stageCount, hl]) hn hf'
      simpa [Buf.run, Buf.apply, Buf.checkpoint] using this
    | release =>
      cases d with
      | zero =>
        simp only [cpBlock] at hn
        have hf'' : RevertsAtLeast (cpCount (dropFirstStage rest)) r := by rw [cpCount_dropFirstStage]; exact hf'
        obtain ⟨cur', top', k, h1, h2, h3⟩ := ih 0 (n + 1) d' n' cur top (dropFirstStage rest) hl hn hf''
        refine ⟨cur', top', k + 1, ?_, h2, by omega⟩
        simp only [Buf.run, List.foldl_cons, Buf.apply, Buf.releaseTop, dropFirstStage_below fm rest hfm top hl]
        simpa [Buf.run, dropStages] using h1
      | succ d =>
        simp only [cpBlock] at hn
        obtain ⟨top', h1, h2⟩ := dropFirstStage_top (fm :: rest) top d hl
        have := ih d n d' n' cur top' rest h2 hn hf'
        simpa [Buf.run, Buf.apply, Buf.releaseTop, h1] using this
    | cleanup =>
      cases d with
      | zero => simp [cpBlock] at hn
      | succ d =>
        simp only [cpBlock] at hn
        obtain ⟨sv, top', h1, h2⟩ := cutAtStage_top (fm :: rest) top d hl
        have := ih d n d' n' sv top' rest h2 hn hf'
        simpa [Buf.run, Buf.apply, Buf.cleanupTop, h1] using this
    | revert j =>
      simp only [cpBlock] at hn
      have hfloor : fm.isStage = true ∨ (fm.isStage = false ∧ cpCount rest ≤ j) := by
        have := (revertsAtLeast_cons hf).1
        simp [BOp.revertsAtLeast] at this
        exact Or.inr ⟨hfm, this⟩
      rcases cutAtCp_top fm rest j hfloor top with h | ⟨sv, top', h1, h2⟩
      · have := ih d n d' n' cur top rest hl hn hf'
        simpa [Buf.run, Buf.apply, Buf.revert, h] using this
      · have := ih d n d' n' sv top' rest (h2.trans hl) hn hf'
        simpa [Buf.run, Buf.apply, Buf.revert, h1] using this

/-! ### the result of batch get is a well formed map -/

theorem snapBatchLoop_sorted (snap : List KV) (ks : List Bytes) (m : List KV) : IsMap m → IsMap (snapBatchLoop snap ks m) := by
  induction ks generalizing m with
  | nil => simp [snapBatchLoop]
  | cons x xs ih =>
    intro h
    simp only [snapBatchLoop]
    cases visible (lookup snap x) with
    | some v => exact ih _ (mapSet_sorted x v m h)
    | none => exact ih _ h

theorem mergeInto_sorted (a m : List KV) : IsMap m → IsMap (mergeInto a m) := by
  induction a with
  | nil => simp [mergeInto]
  | cons h t ih =>
    obtain ⟨k, v⟩ := h
    intro hm
    exact mapSet_sorted k v _ (ih hm)

theorem batchGet_sorted (snap buf : List KV) (keys : List Bytes) : IsMap (batchGet snap buf keys) := by
  unfold batchGet
  simp only
  split
  · exact snapBatchLoop_sorted snap keys [] isMap_nil
  · exact mergeInto_sorted _ _ (List.Pairwise.filter _ (bufBatchGet_sorted buf keys))

/-! ## regression record: the loop of batch_getter.go BEFORE fix cbfc345

It removed a tombstone from `bufferValues` inside the loop over the requested keys, so a second occurrence of the
same key looked like a buffer miss and went to the snapshot.  Kept here (not in Model/: this code no longer exists)
to document why the order of the two passes matters: right exactly when no key is listed twice. -/

def mapErase (k : Bytes) (m : List KV) : List KV := m.filter fun kv => kv.1 ≠ k

def shrinkLoopBeforeFix : List Bytes → List KV → List Bytes → List KV × List Bytes
  | [], m, sk => (m, sk)
  | k :: ks, m, sk =>
    match lookup m k with
    | none => shrinkLoopBeforeFix ks m (sk ++ [k])
    | some v => if v.isEmpty then shrinkLoopBeforeFix ks (mapErase k m) sk else shrinkLoopBeforeFix ks m sk

def batchGetBeforeFix (snap buf : List KV) (keys : List Bytes) : List KV :=
  let bufferValues := bufBatchGet buf keys
  if bufferValues.isEmpty then snapBatchGet snap keys else
  let (bufferValues, shrinkKeys) := shrinkLoopBeforeFix keys bufferValues []
  mergeInto (snapBatchGet snap shrinkKeys) bufferValues


theorem lookup_mapErase (k : Bytes) (m : List KV) (k' : Bytes) :
    lookup (mapErase k m) k' = if k' = k then none else lookup m k' := by
  unfold mapErase
  induction m with
  | nil => simp [lookup]
  | cons h t ih =>
    obtain ⟨k₀, v₀⟩ := h
    simp only [List.filter_cons]
    by_cases h0 : k₀ = k
    · subst h0
      simp only [ne_eq, not_true_eq_false, decide_false, Bool.false_eq_true, if_false, ih, lookup]
      by_cases h1 : k' = k₀
      · simp [h1]
      · have : ¬ k₀ = k' := fun e => h1 e.symm
        simp [h1, this]
    · simp only [ne_eq, h0, not_false_eq_true, decide_true, if_true, lookup, ih]
      by_cases h1 : k₀ = k'
      · subst h1; simp [h0]
      · simp [h1]

theorem shrinkLoopBeforeFix_spec (keys : List Bytes) : ∀ (m : List KV) (sk : List Bytes), keys.Nodup →
    (shrinkLoopBeforeFix keys m sk).2 = sk ++ keys.filter (fun k => (lookup m k).isNone) ∧
    ∀ k, lookup (shrinkLoopBeforeFix keys m sk).1 k =
      if k ∈ keys ∧ lookup m k = some [] then none else lookup m k := by
  induction keys with
  | nil => intro m sk _; simp [shrinkLoopBeforeFix]
  | cons x xs ih =>
    intro m sk hnd
    rw [List.nodup_cons] at hnd
    obtain ⟨hx, hxs⟩ := hnd
    simp only [shrinkLoopBeforeFix]
    cases hl : lookup m x with
    | none =>
      simp only
      obtain ⟨h1, h2⟩ := ih m (sk ++ [x]) hxs
      refine ⟨?_, fun k => ?_⟩
      · rw [h1]; simp [hl]
      · rw [h2 k]
        by_cases hk : k = x
        · subst hk; simp [hl]
        · simp [hk]
    | some v =>
      simp only
      by_cases hv : v.isEmpty
      · have hv' : v = [] := List.isEmpty_iff.1 hv
        subst hv'
        simp only [List.isEmpty_nil, if_true]
        obtain ⟨h1, h2⟩ := ih (mapErase x m) sk hxs
        refine ⟨?_, fun k => ?_⟩
        · rw [h1]
          have : xs.filter (fun k => (lookup (mapErase x m) k).isNone) = xs.filter (fun k => (lookup m k).isNone) := by
            apply List.filter_congr
            intro k hk
            have : k ≠ x := fun e => hx (e ▸ hk)
            simp [lookup_mapErase, this]
          rw [this]; simp [hl]
        · rw [h2 k]
          by_cases hk : k = x
          · subst hk; simp [lookup_mapErase, hl]
          · simp [lookup_mapErase, hk]
      · simp only [hv, Bool.false_eq_true, if_false]
        obtain ⟨h1, h2⟩ := ih m sk hxs
        refine ⟨?_, fun k => ?_⟩
        · rw [h1]; simp [hl]
        · rw [h2 k]
          by_cases hk : k = x
          · subst hk
            have : v ≠ [] := fun e => hv (List.isEmpty_iff.2 e)
            simp [hl, this, hx]
          · simp [hk]

theorem lookup_batchGetBeforeFix (snap buf : List KV) (keys : List Bytes) (hnd : keys.Nodup) (k : Bytes) :
    lookup (batchGetBeforeFix snap buf keys) k = lookup (batchGet snap buf keys) k := by
  unfold batchGetBeforeFix batchGet
  simp only
  split
  · rfl
  · obtain ⟨h1, h2⟩ := shrinkLoopBeforeFix_spec keys (bufBatchGet buf keys) [] hnd
    rw [lookup_mergeInto, lookup_mergeInto, h1, h2 k, List.nil_append,
      lookup_filter_visible _ (bufBatchGet_sorted buf keys), lookup_bufBatchGet]
    by_cases hk : k ∈ keys
    · cases hl : lookup buf k with
      | none => simp [hk, visible]
      | some v =>
        by_cases hv : v = []
        · subst hv; simp [hk, visible]
        · simp [hk, visible, hv]
    · simp [hk, visible]


/-- snapshot {01 ↦ aa}, key deleted in the buffer, key list [01, 01]: the old loop handed the snapshot value back -/
theorem batchGetBeforeFix_resurrects :
    lookup (batchGetBeforeFix [([1], [0xaa])] [([1], [])] [[1], [1]]) [1] = some [0xaa] ∧
    lookup (batchGet [([1], [0xaa])] [([1], [])] [[1], [1]]) [1] = none := by decide

end CGV.UnionIter
