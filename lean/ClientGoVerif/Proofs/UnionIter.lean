/-
  C07 — helper lemmas: the byte-string order, the union iterator as a two-way merge, the merge against the
  declarative view, batch get, and the abstract write buffer against the write-log semantics.
-/
import ClientGoVerif.Model.UnionIter
namespace CGV.UnionIter
open CGV CGV.Overlay

/-! ## `Bytes.cmp` is a strict total order -/

theorem cmp_eq_iff (a b : Bytes) : Bytes.cmp a b = .eq ↔ a = b := by
  induction a generalizing b with
  | nil => cases b <;> simp [Bytes.cmp]
  | cons x xs ih =>
    cases b with
    | nil => simp [Bytes.cmp]
    | cons y ys =>
      simp only [Bytes.cmp]
      split
      · rename_i h; simp; intro e; subst e; exact absurd h (UInt8.lt_irrefl _)
      · split
        · rename_i h; simp; intro e; subst e; exact absurd h (UInt8.lt_irrefl _)
        · rename_i h1 h2
          have : x = y := UInt8.le_antisymm (UInt8.not_lt.mp h2) (UInt8.not_lt.mp h1)
          subst this; simp [ih]

theorem cmp_swap (a b : Bytes) : (Bytes.cmp a b).swap = Bytes.cmp b a := by
  induction a generalizing b with
  | nil => cases b <;> simp [Bytes.cmp]
  | cons x xs ih =>
    cases b with
    | nil => simp [Bytes.cmp]
    | cons y ys =>
      simp only [Bytes.cmp]
      by_cases h1 : x < y
      · have h2 : ¬ y < x := UInt8.lt_asymm h1
        simp [h1, h2]
      · by_cases h2 : y < x
        · simp [h1, h2]
        · simp [h1, h2, ih]

theorem cmp_lt_trans {a b c : Bytes} : Bytes.cmp a b = .lt → Bytes.cmp b c = .lt → Bytes.cmp a c = .lt := by
  induction a generalizing b c with
  | nil => cases b <;> cases c <;> simp [Bytes.cmp]
  | cons x xs ih =>
    cases b with
    | nil => simp [Bytes.cmp]
    | cons y ys =>
      cases c with
      | nil => simp [Bytes.cmp]
      | cons z zs =>
        simp only [Bytes.cmp]
        intro h1 h2
        by_cases xy : x < y
        · by_cases yz : y < z
          · simp [UInt8.lt_trans xy yz]
          · by_cases zy : z < y
            · simp [yz, zy] at h2
            · have : y = z := UInt8.le_antisymm (UInt8.not_lt.mp zy) (UInt8.not_lt.mp yz)
              subst this; simp [xy]
        · by_cases yx : y < x
          · simp [xy, yx] at h1
          · have : x = y := UInt8.le_antisymm (UInt8.not_lt.mp yx) (UInt8.not_lt.mp xy)
            subst this
            by_cases yz : x < z
            · simp [yz]
            · by_cases zy : z < x
              · simp [yz, zy] at h2
              · simp [xy, yz, zy] at h1 h2 ⊢
                exact ih h1 h2

theorem cmp_self (a : Bytes) : Bytes.cmp a a = .eq := (cmp_eq_iff a a).2 rfl

theorem cmp_gt_iff (a b : Bytes) : Bytes.cmp a b = .gt ↔ Bytes.cmp b a = .lt := by
  rw [← cmp_swap a b]; cases Bytes.cmp a b <;> simp [Ordering.swap]

theorem cmp_lt_ne {a b : Bytes} (h : Bytes.cmp a b = .lt) : a ≠ b := by
  intro e; subst e; simp [cmp_self] at h

theorem cmp_lt_asymm {a b : Bytes} (h : Bytes.cmp a b = .lt) : Bytes.cmp b a ≠ .lt := by
  intro h'; have := cmp_lt_trans h h'; simp [cmp_self] at this

/-! ### the same facts in the direction of an iterator -/

theorem cmpDir_lt_iff (rev : Bool) (a b : KV) : cmpDir rev a.1 b.1 = .lt ↔ KeyBefore rev a b := by
  cases rev
  · simp [cmpDir, KeyBefore]
  · simp only [cmpDir, KeyBefore, if_true, cmp_swap]

theorem cmpDir_gt_iff (rev : Bool) (a b : KV) : cmpDir rev a.1 b.1 = .gt ↔ KeyBefore rev b a := by
  cases rev
  · simp [cmpDir, KeyBefore, cmp_gt_iff]
  · simp only [cmpDir, KeyBefore, if_true, cmp_swap, cmp_gt_iff]

theorem cmpDir_eq_iff (rev : Bool) (a b : Bytes) : cmpDir rev a b = .eq ↔ a = b := by
  cases rev
  · simp [cmpDir, cmp_eq_iff]
  · simp only [cmpDir, if_true, cmp_swap, cmp_eq_iff]; exact eq_comm

theorem KeyBefore.trans {rev : Bool} {a b c : KV} : KeyBefore rev a b → KeyBefore rev b c → KeyBefore rev a c := by
  cases rev
  · simp only [KeyBefore]; exact cmp_lt_trans
  · simp only [KeyBefore, if_true]; exact fun h1 h2 => cmp_lt_trans h2 h1

theorem KeyBefore.ne {rev : Bool} {a b : KV} : KeyBefore rev a b → a.1 ≠ b.1 := by
  cases rev
  · simp only [KeyBefore]; exact cmp_lt_ne
  · simp only [KeyBefore, if_true]; exact fun h e => cmp_lt_ne h e.symm

theorem KeyBefore.asymm {rev : Bool} {a b : KV} : KeyBefore rev a b → ¬ KeyBefore rev b a := by
  cases rev
  · simp only [KeyBefore]; exact cmp_lt_asymm
  · simp only [KeyBefore, if_true]; exact cmp_lt_asymm

theorem KeyBefore.congr_left {rev : Bool} {a a' b : KV} (e : a.1 = a'.1) : KeyBefore rev a b → KeyBefore rev a' b := by
  cases rev <;> simp [KeyBefore, e]

/-! ## the union iterator is a two-way merge -/

/-- the functional program `updateCur`/`Next` implement -/
def merge (rev : Bool) : List KV → List KV → List KV
  | [], s => s
  | d :: ds, [] => if d.2.isEmpty then merge rev ds [] else d :: merge rev ds []
  | d :: ds, s :: ss =>
    match cmpDir rev d.1 s.1 with
    | .eq => if d.2.isEmpty then merge rev ds ss else d :: merge rev ds ss
    | .gt => s :: merge rev (d :: ds) ss
    | .lt => if d.2.isEmpty then merge rev ds (s :: ss) else d :: merge rev ds (s :: ss)
termination_by d s => d.length + s.length

theorem collect_updateCur (rev : Bool) (d s : List KV) :
    ∀ (cur : Bool) (fuel : Nat), d.length + s.length + 1 ≤ fuel →
      collect fuel (updateCur rev cur d s) = merge rev d s := by
  fun_induction merge rev d s with
  | case1 s =>
    intro cur fuel hf
    induction s generalizing cur fuel with
    | nil => cases fuel <;> simp [updateCur, collect]
    | cons x xs ih =>
      cases fuel with
      | zero => simp at hf
      | succ n =>
        simp only [updateCur, collect, UIter.cur?, UIter.next]
        simp
        exact ih false n (by simp at hf ⊢; omega)
  | case2 d ds htomb ih =>
    intro cur fuel hf
    simp only [updateCur, htomb, if_true]
    exact ih true fuel (by simp at hf ⊢; omega)
  | case3 d ds htomb ih =>
    intro cur fuel hf
    cases fuel with
    | zero => simp at hf
    | succ n =>
      simp only [updateCur, htomb, collect, UIter.cur?, UIter.next]
      simp
      exact ih true n (by simp at hf ⊢; omega)
  | case4 d ds s ss hc htomb ih =>
    intro cur fuel hf
    simp only [updateCur, hc, htomb, if_true]
    exact ih cur fuel (by simp at hf ⊢; omega)
  | case5 d ds s ss hc htomb ih =>
    intro cur fuel hf
    cases fuel with
    | zero => simp at hf
    | succ n =>
      simp only [updateCur, hc, htomb, collect, UIter.cur?, UIter.next]
      simp
      exact ih true n (by simp at hf ⊢; omega)
  | case6 d ds s ss hc ih =>
    intro cur fuel hf
    cases fuel with
    | zero => simp at hf
    | succ n =>
      simp only [updateCur, hc, collect, UIter.cur?, UIter.next]
      simp
      exact ih false n (by simp at hf ⊢; omega)
  | case7 d ds s ss hc htomb ih =>
    intro cur fuel hf
    simp only [updateCur, hc, htomb, if_true]
    exact ih cur fuel (by simp at hf ⊢; omega)
  | case8 d ds s ss hc htomb ih =>
    intro cur fuel hf
    cases fuel with
    | zero => simp at hf
    | succ n =>
      simp only [updateCur, hc, htomb, collect, UIter.cur?, UIter.next]
      simp
      exact ih true n (by simp at hf ⊢; omega)

theorem iterAll_eq_merge (rev : Bool) (d s : List KV) : iterAll rev d s = merge rev d s :=
  collect_updateCur rev d s false _ (Nat.le_refl _)

/-! ## the merge against sorted inputs -/

theorem merge_mem_sub (rev : Bool) (d s : List KV) : ∀ x, x ∈ merge rev d s → x ∈ d ∨ x ∈ s := by
  fun_induction merge rev d s <;> intro x hx <;> simp_all <;> grind

theorem merge_sorted (rev : Bool) (d s : List KV) :
    StrictlyOrdered rev d → StrictlyOrdered rev s → StrictlyOrdered rev (merge rev d s) := by
  unfold StrictlyOrdered
  fun_induction merge rev d s with
  | case1 s => intro _ h; exact h
  | case2 d ds htomb ih => intro hd hs; exact ih (List.Pairwise.of_cons hd) hs
  | case3 d ds htomb ih =>
    intro hd hs
    rw [List.pairwise_cons] at hd ⊢
    refine ⟨fun x hx => ?_, ih hd.2 hs⟩
    rcases merge_mem_sub rev ds [] x hx with h | h
    · exact hd.1 x h
    · simp at h
  | case4 d ds s ss hc htomb ih => intro hd hs; exact ih (List.Pairwise.of_cons hd) (List.Pairwise.of_cons hs)
  | case5 d ds s ss hc htomb ih =>
    intro hd hs
    rw [List.pairwise_cons] at hd hs ⊢
    refine ⟨fun x hx => ?_, ih hd.2 hs.2⟩
    rcases merge_mem_sub rev ds ss x hx with h | h
    · exact hd.1 x h
    · have e := (cmpDir_eq_iff rev d.1 s.1).1 hc
      exact KeyBefore.congr_left e.symm (hs.1 x h)
  | case6 d ds s ss hc ih =>
    intro hd hs
    have hsd : KeyBefore rev s d := (cmpDir_gt_iff rev d s).1 hc
    rw [List.pairwise_cons] at hs ⊢
    refine ⟨fun x hx => ?_, ih hd hs.2⟩
    rcases merge_mem_sub rev (d :: ds) ss x hx with h | h
    · rw [List.pairwise_cons] at hd
      rcases List.mem_cons.1 h with rfl | h
      · exact hsd
      · exact KeyBefore.trans hsd (hd.1 x h)
    · exact hs.1 x h
  | case7 d ds s ss hc htomb ih => intro hd hs; exact ih (List.Pairwise.of_cons hd) hs
  | case8 d ds s ss hc htomb ih =>
    intro hd hs
    have hds : KeyBefore rev d s := (cmpDir_lt_iff rev d s).1 hc
    rw [List.pairwise_cons] at hd ⊢
    refine ⟨fun x hx => ?_, ih hd.2 hs⟩
    rcases merge_mem_sub rev ds (s :: ss) x hx with h | h
    · exact hd.1 x h
    · rw [List.pairwise_cons] at hs
      rcases List.mem_cons.1 h with rfl | h
      · exact hds
      · exact KeyBefore.trans hds (hs.1 x h)

theorem merge_mem_iff (rev : Bool) (d s : List KV) :
    StrictlyOrdered rev d → StrictlyOrdered rev s →
    ∀ x, x ∈ merge rev d s ↔ (x ∈ d ∧ x.2 ≠ []) ∨ (x ∈ s ∧ ∀ y ∈ d, y.1 ≠ x.1) := by
  unfold StrictlyOrdered
  fun_induction merge rev d s with
  | case1 s => intro _ _ x; simp
  | case2 d ds htomb ih =>
    intro hd hs x
    rw [ih (List.Pairwise.of_cons hd) hs x]
    have : d.2 = [] := List.isEmpty_iff.1 htomb
    constructor
    · rintro (⟨h1, h2⟩ | ⟨h1, _⟩)
      · exact Or.inl ⟨List.mem_cons_of_mem _ h1, h2⟩
      · simp at h1
    · rintro (⟨h1, h2⟩ | ⟨h1, _⟩)
      · rcases List.mem_cons.1 h1 with rfl | h1
        · exact absurd this h2
        · exact Or.inl ⟨h1, h2⟩
      · simp at h1
  | case3 d ds htomb ih =>
    intro hd hs x
    have hne : d.2 ≠ [] := fun e => htomb (List.isEmpty_iff.2 e)
    rw [List.mem_cons, ih (List.Pairwise.of_cons hd) hs x]
    constructor
    · rintro (rfl | ⟨h1, h2⟩ | ⟨h1, _⟩)
      · exact Or.inl ⟨List.mem_cons_self, hne⟩
      · exact Or.inl ⟨List.mem_cons_of_mem _ h1, h2⟩
      · simp at h1
    · rintro (⟨h1, h2⟩ | ⟨h1, _⟩)
      · rcases List.mem_cons.1 h1 with rfl | h1
        · exact Or.inl rfl
        · exact Or.inr (Or.inl ⟨h1, h2⟩)
      · simp at h1
  | case4 d ds s ss hc htomb ih =>
    intro hd hs x
    have e := (cmpDir_eq_iff rev d.1 s.1).1 hc
    have : d.2 = [] := List.isEmpty_iff.1 htomb
    rw [ih (List.Pairwise.of_cons hd) (List.Pairwise.of_cons hs) x]
    rw [List.pairwise_cons] at hd hs
    constructor
    · rintro (⟨h1, h2⟩ | ⟨h1, h2⟩)
      · exact Or.inl ⟨List.mem_cons_of_mem _ h1, h2⟩
      · refine Or.inr ⟨List.mem_cons_of_mem _ h1, fun y hy => ?_⟩
        rcases List.mem_cons.1 hy with rfl | hy
        · rw [e]; exact KeyBefore.ne (hs.1 x h1)
        · exact h2 y hy
    · rintro (⟨h1, h2⟩ | ⟨h1, h2⟩)
      · rcases List.mem_cons.1 h1 with rfl | h1
        · exact absurd this h2
        · exact Or.inl ⟨h1, h2⟩
      · rcases List.mem_cons.1 h1 with rfl | h1
        · exact absurd e (h2 d List.mem_cons_self)
        · exact Or.inr ⟨h1, fun y hy => h2 y (List.mem_cons_of_mem _ hy)⟩
  | case5 d ds s ss hc htomb ih =>
    intro hd hs x
    have e := (cmpDir_eq_iff rev d.1 s.1).1 hc
    have hne : d.2 ≠ [] := fun e => htomb (List.isEmpty_iff.2 e)
    rw [List.mem_cons, ih (List.Pairwise.of_cons hd) (List.Pairwise.of_cons hs) x]
    rw [List.pairwise_cons] at hd hs
    constructor
    · rintro (rfl | ⟨h1, h2⟩ | ⟨h1, h2⟩)
      · exact Or.inl ⟨List.mem_cons_self, hne⟩
      · exact Or.inl ⟨List.mem_cons_of_mem _ h1, h2⟩
      · refine Or.inr ⟨List.mem_cons_of_mem _ h1, fun y hy => ?_⟩
        rcases List.mem_cons.1 hy with rfl | hy
        · rw [e]; exact KeyBefore.ne (hs.1 x h1)
        · exact h2 y hy
    · rintro (⟨h1, h2⟩ | ⟨h1, h2⟩)
      · rcases List.mem_cons.1 h1 with rfl | h1
        · exact Or.inl rfl
        · exact Or.inr (Or.inl ⟨h1, h2⟩)
      · rcases List.mem_cons.1 h1 with rfl | h1
        · exact absurd e (h2 d List.mem_cons_self)
        · exact Or.inr (Or.inr ⟨h1, fun y hy => h2 y (List.mem_cons_of_mem _ hy)⟩)
  | case6 d ds s ss hc ih =>
    intro hd hs x
    have hsd : KeyBefore rev s d := (cmpDir_gt_iff rev d s).1 hc
    rw [List.mem_cons, ih hd (List.Pairwise.of_cons hs) x]
    rw [List.pairwise_cons] at hd hs
    constructor
    · rintro (rfl | ⟨h1, h2⟩ | ⟨h1, h2⟩)
      · refine Or.inr ⟨List.mem_cons_self, fun y hy => ?_⟩
        rcases List.mem_cons.1 hy with rfl | hy
        · exact (KeyBefore.ne hsd).symm
        · exact (KeyBefore.ne (KeyBefore.trans hsd (hd.1 y hy))).symm
      · exact Or.inl ⟨h1, h2⟩
      · exact Or.inr ⟨List.mem_cons_of_mem _ h1, h2⟩
    · rintro (⟨h1, h2⟩ | ⟨h1, h2⟩)
      · exact Or.inr (Or.inl ⟨h1, h2⟩)
      · rcases List.mem_cons.1 h1 with rfl | h1
        · exact Or.inl rfl
        · exact Or.inr (Or.inr ⟨h1, h2⟩)
  | case7 d ds s ss hc htomb ih =>
    intro hd hs x
    have hds : KeyBefore rev d s := (cmpDir_lt_iff rev d s).1 hc
    have : d.2 = [] := List.isEmpty_iff.1 htomb
    rw [ih (List.Pairwise.of_cons hd) hs x]
    rw [List.pairwise_cons] at hd hs
    constructor
    · rintro (⟨h1, h2⟩ | ⟨h1, h2⟩)
      · exact Or.inl ⟨List.mem_cons_of_mem _ h1, h2⟩
      · refine Or.inr ⟨h1, fun y hy => ?_⟩
        rcases List.mem_cons.1 hy with rfl | hy
        · rcases List.mem_cons.1 h1 with rfl | h1
          · exact KeyBefore.ne hds
          · exact KeyBefore.ne (KeyBefore.trans hds (hs.1 x h1))
        · exact h2 y hy
    · rintro (⟨h1, h2⟩ | ⟨h1, h2⟩)
      · rcases List.mem_cons.1 h1 with rfl | h1
        · exact absurd this h2
        · exact Or.inl ⟨h1, h2⟩
      · exact Or.inr ⟨h1, fun y hy => h2 y (List.mem_cons_of_mem _ hy)⟩
  | case8 d ds s ss hc htomb ih =>
    intro hd hs x
    have hds : KeyBefore rev d s := (cmpDir_lt_iff rev d s).1 hc
    have hne : d.2 ≠ [] := fun e => htomb (List.isEmpty_iff.2 e)
    rw [List.mem_cons, ih (List.Pairwise.of_cons hd) hs x]
    rw [List.pairwise_cons] at hd hs
    constructor
    · rintro (rfl | ⟨h1, h2⟩ | ⟨h1, h2⟩)
      · exact Or.inl ⟨List.mem_cons_self, hne⟩
      · exact Or.inl ⟨List.mem_cons_of_mem _ h1, h2⟩
      · refine Or.inr ⟨h1, fun y hy => ?_⟩
        rcases List.mem_cons.1 hy with rfl | hy
        · rcases List.mem_cons.1 h1 with rfl | h1
          · exact KeyBefore.ne hds
          · exact KeyBefore.ne (KeyBefore.trans hds (hs.1 x h1))
        · exact h2 y hy
    · rintro (⟨h1, h2⟩ | ⟨h1, h2⟩)
      · rcases List.mem_cons.1 h1 with rfl | h1
        · exact Or.inl rfl
        · exact Or.inr (Or.inl ⟨h1, h2⟩)
      · exact Or.inr (Or.inr ⟨h1, fun y hy => h2 y (List.mem_cons_of_mem _ hy)⟩)

/-! ## association lists -/

theorem lookup_some_mem {l : List KV} {k v : Bytes} : lookup l k = some v → (k, v) ∈ l := by
  induction l with
  | nil => simp [lookup]
  | cons h t ih =>
    obtain ⟨k', v'⟩ := h
    simp only [lookup]
    split
    · rename_i e; subst e; intro h; cases h; exact List.mem_cons_self
    · intro h; exact List.mem_cons_of_mem _ (ih h)

theorem lookup_none_iff {l : List KV} {k : Bytes} : lookup l k = none ↔ ∀ kv ∈ l, kv.1 ≠ k := by
  induction l with
  | nil => simp [lookup]
  | cons h t ih =>
    obtain ⟨k', v'⟩ := h
    simp only [lookup]
    split
    · rename_i e; subst e; simp
    · rename_i ne; simp [ih, ne]

theorem lookup_of_mem {rev : Bool} {l : List KV} {k v : Bytes} :
    StrictlyOrdered rev l → (k, v) ∈ l → lookup l k = some v := by
  unfold StrictlyOrdered
  induction l with
  | nil => simp
  | cons h t ih =>
    obtain ⟨k', v'⟩ := h
    intro hs hm
    rw [List.pairwise_cons] at hs
    simp only [lookup]
    rcases List.mem_cons.1 hm with e | hm
    · cases e; simp
    · have : k' ≠ k := KeyBefore.ne (hs.1 _ hm)
      simp [this, ih hs.2 hm]

theorem mem_iff_lookup {rev : Bool} {l : List KV} (hs : StrictlyOrdered rev l) (k v : Bytes) :
    (k, v) ∈ l ↔ lookup l k = some v := ⟨lookup_of_mem hs, lookup_some_mem⟩

/-! ## cursors -/

theorem mem_cursor (rev : Bool) (m : List KV) (lo hi : Bytes) (x : KV) :
    x ∈ cursor rev m lo hi ↔ x ∈ m ∧ inRange lo hi x.1 = true := by
  cases rev <;> simp [cursor]

theorem keyBefore_true (a b : KV) : KeyBefore true a b ↔ KeyBefore false b a := by simp [KeyBefore]

theorem cursor_sorted (rev : Bool) (m : List KV) (lo hi : Bytes) (h : IsMap m) :
    StrictlyOrdered rev (cursor rev m lo hi) := by
  unfold IsMap StrictlyOrdered at *
  cases rev
  · simp only [cursor]; exact h.filter _
  · simp only [cursor, if_true, List.pairwise_reverse]
    exact (h.filter _).imp (fun {a b} hab => (keyBefore_true b a).2 hab)

/-! ## everything the store iterator yields, pointwise -/

theorem visible_eq_some {o : Option Bytes} {v : Bytes} : visible o = some v ↔ o = some v ∧ v ≠ [] := by
  cases o with
  | none => simp [visible]
  | some w =>
    simp only [visible]
    split
    · rename_i e; subst e; simp
    · rename_i ne; simp; intro e; subst e; exact ne

theorem storeIter_mem_iff (snap buf : List KV) (lo hi : Bytes) (rev : Bool)
    (hsnap : IsMap snap) (hbuf : IsMap buf) (hne : NoEmpty snap) (k v : Bytes) :
    (k, v) ∈ storeIter snap buf lo hi rev ↔ inRange lo hi k = true ∧ viewGet snap buf k = some v := by
  unfold storeIter
  rw [iterAll_eq_merge, merge_mem_iff rev _ _ (cursor_sorted rev buf lo hi hbuf) (cursor_sorted rev snap lo hi hsnap)]
  simp only [mem_cursor, viewGet]
  cases hl : lookup buf k with
  | some w =>
    have hw := lookup_some_mem hl
    simp only [visible_eq_some]
    constructor
    · rintro (⟨⟨h1, h2⟩, h3⟩ | ⟨⟨_, h2⟩, h3⟩)
      · have := lookup_of_mem hbuf h1
        rw [hl] at this; cases this
        exact ⟨h2, rfl, h3⟩
      · exact absurd rfl (h3 (k, w) ⟨hw, h2⟩)
    · rintro ⟨h1, h2, h3⟩
      cases h2
      exact Or.inl ⟨⟨hw, h1⟩, h3⟩
  | none =>
    have hn := lookup_none_iff.1 hl
    simp only [visible_eq_some]
    constructor
    · rintro (⟨⟨h1, _⟩, _⟩ | ⟨⟨h1, h2⟩, _⟩)
      · exact absurd rfl (hn _ h1)
      · exact ⟨h2, lookup_of_mem hsnap h1, hne _ h1⟩
    · rintro ⟨h1, h2, _⟩
      exact Or.inr ⟨⟨lookup_some_mem h2, h1⟩, fun y hy => hn y hy.1⟩

theorem storeIter_sorted (snap buf : List KV) (lo hi : Bytes) (rev : Bool)
    (hsnap : IsMap snap) (hbuf : IsMap buf) : StrictlyOrdered rev (storeIter snap buf lo hi rev) := by
  unfold storeIter
  rw [iterAll_eq_merge]
  exact merge_sorted rev _ _ (cursor_sorted rev buf lo hi hbuf) (cursor_sorted rev snap lo hi hsnap)

/-! ## the declarative view -/

def SortedKeys (l : List Bytes) : Prop := l.Pairwise fun a b => Bytes.cmp a b = .lt

theorem mem_insertKey (k : Bytes) (l : List Bytes) (x : Bytes) : x ∈ insertKey k l ↔ x = k ∨ x ∈ l := by
  induction l with
  | nil => simp [insertKey]
  | cons y ys ih =>
    simp only [insertKey]
    split
    · simp
    · rename_i e; have := (cmp_eq_iff k y).1 e; subst this; simp
    · simp [ih]; grind

theorem insertKey_sorted (k : Bytes) (l : List Bytes) : SortedKeys l → SortedKeys (insertKey k l) := by
  unfold SortedKeys
  induction l with
  | nil => simp [insertKey]
  | cons y ys ih =>
    intro h
    simp only [insertKey]
    split
    · rename_i e
      rw [List.pairwise_cons]
      refine ⟨fun z hz => ?_, h⟩
      rw [List.pairwise_cons] at h
      rcases List.mem_cons.1 hz with rfl | hz
      · exact e
      · exact cmp_lt_trans e (h.1 z hz)
    · exact h
    · rename_i e
      rw [List.pairwise_cons] at h ⊢
      refine ⟨fun z hz => ?_, ih h.2⟩
      rcases (mem_insertKey k ys z).1 hz with rfl | hz
      · exact (cmp_gt_iff _ _).1 e
      · exact h.1 z hz

theorem mem_sortKeys (l : List Bytes) (x : Bytes) : x ∈ sortKeys l ↔ x ∈ l := by
  induction l with
  | nil => simp [sortKeys]
  | cons y ys ih =>
    have : sortKeys (y :: ys) = insertKey y (sortKeys ys) := rfl
    rw [this, mem_insertKey, ih]; simp

theorem sortKeys_sorted (l : List Bytes) : SortedKeys (sortKeys l) := by
  induction l with
  | nil => simp [sortKeys, SortedKeys]
  | cons y ys ih => exact insertKey_sorted y _ ih

theorem lookup_some_key {l : List KV} {k v : Bytes} (h : lookup l k = some v) : k ∈ l.map (·.1) :=
  List.mem_map.2 ⟨(k, v), lookup_some_mem h, rfl⟩

theorem viewGet_some_universe {snap buf : List KV} {k v : Bytes} (h : viewGet snap buf k = some v) :
    k ∈ keyUniverse snap buf := by
  unfold keyUniverse
  rw [mem_sortKeys, List.mem_append]
  unfold viewGet at h
  cases hl : lookup buf k with
  | some w => exact Or.inl (lookup_some_key hl)
  | none =>
    rw [hl] at h
    simp only [visible_eq_some] at h
    exact Or.inr (lookup_some_key h.1)

theorem view_mem_iff (snap buf : List KV) (lo hi : Bytes) (k v : Bytes) :
    (k, v) ∈ view snap buf lo hi ↔ inRange lo hi k = true ∧ viewGet snap buf k = some v := by
  unfold view
  rw [List.mem_filterMap]
  constructor
  · rintro ⟨a, _, h⟩
    split at h
    · rename_i hr
      cases hv : viewGet snap buf a with
      | none => simp [hv] at h
      | some w => simp [hv] at h; obtain ⟨rfl, rfl⟩ := h; exact ⟨hr, hv⟩
    · simp at h
  · rintro ⟨h1, h2⟩
    exact ⟨k, viewGet_some_universe h2, by simp [h1, h2]⟩

theorem view_sorted (snap buf : List KV) (lo hi : Bytes) : StrictlyOrdered false (view snap buf lo hi) := by
  unfold view StrictlyOrdered
  refine List.Pairwise.filterMap _ ?_ (sortKeys_sorted _)
  intro a a' haa b hb b' hb'
  have e1 : b.1 = a := by
    split at hb
    · cases hv : viewGet snap buf a with
      | none => simp [hv] at hb
      | some w => simp [hv] at hb; rw [← hb]
    · simp at hb
  have e2 : b'.1 = a' := by
    split at hb'
    · cases hv : viewGet snap buf a' with
      | none => simp [hv] at hb'
      | some w => simp [hv] at hb'; rw [← hb']
    · simp at hb'
  simp [KeyBefore, e1, e2, haa]

theorem viewDir_mem_iff (snap buf : List KV) (lo hi : Bytes) (rev : Bool) (k v : Bytes) :
    (k, v) ∈ viewDir snap buf lo hi rev ↔ inRange lo hi k = true ∧ viewGet snap buf k = some v := by
  cases rev <;> simp [viewDir, view_mem_iff]

theorem viewDir_sorted (snap buf : List KV) (lo hi : Bytes) (rev : Bool) :
    StrictlyOrdered rev (viewDir snap buf lo hi rev) := by
  cases rev
  · simp only [viewDir]; exact view_sorted snap buf lo hi
  · simp only [viewDir, if_true, StrictlyOrdered, List.pairwise_reverse]
    exact (view_sorted snap buf lo hi).imp (fun {a b} hab => (keyBefore_true b a).2 hab)

/-! ## a strictly ordered listing is determined by its entries -/

theorem ordered_ext (rev : Bool) : ∀ (l₁ l₂ : List KV), StrictlyOrdered rev l₁ → StrictlyOrdered rev l₂ →
    (∀ x, x ∈ l₁ ↔ x ∈ l₂) → l₁ = l₂ := by
  unfold StrictlyOrdered
  intro l₁
  induction l₁ with
  | nil =>
    intro l₂ _ _ h
    cases l₂ with
    | nil => rfl
    | cons y ys => exact absurd ((h y).2 List.mem_cons_self) (by simp)
  | cons x xs ih =>
    intro l₂ h1 h2 h
    cases l₂ with
    | nil => exact absurd ((h x).1 List.mem_cons_self) (by simp)
    | cons y ys =>
      rw [List.pairwise_cons] at h1 h2
      have hxy : x = y := by
        rcases List.mem_cons.1 ((h x).1 List.mem_cons_self) with e | hx
        · exact e
        · rcases List.mem_cons.1 ((h y).2 List.mem_cons_self) with e | hy
          · exact e.symm
          · exact absurd (h1.1 y hy) (KeyBefore.asymm (h2.1 x hx))
      subst hxy
      congr 1
      refine ih ys h1.2 h2.2 fun z => ⟨fun hz => ?_, fun hz => ?_⟩
      · rcases List.mem_cons.1 ((h z).1 (List.mem_cons_of_mem _ hz)) with e | hz'
        · subst e; exact absurd rfl (KeyBefore.ne (h1.1 z hz))
        · exact hz'
      · rcases List.mem_cons.1 ((h z).2 (List.mem_cons_of_mem _ hz)) with e | hz'
        · subst e; exact absurd rfl (KeyBefore.ne (h2.1 z hz))
        · exact hz'

theorem storeIter_eq_viewDir (snap buf : List KV) (lo hi : Bytes) (rev : Bool)
    (hsnap : IsMap snap) (hbuf : IsMap buf) (hne : NoEmpty snap) :
    storeIter snap buf lo hi rev = viewDir snap buf lo hi rev := by
  refine ordered_ext rev _ _ (storeIter_sorted snap buf lo hi rev hsnap hbuf) (viewDir_sorted snap buf lo hi rev) ?_
  rintro ⟨k, v⟩
  rw [storeIter_mem_iff snap buf lo hi rev hsnap hbuf hne, viewDir_mem_iff]


/-! ## `KVUnionStore.Get` -/

theorem unionGet_eq_viewGet (snap buf : List KV) (k : Bytes) : unionGet snap buf k = viewGet snap buf k := by
  unfold unionGet viewGet
  cases lookup buf k with
  | some v => simp [visible, List.isEmpty_iff]
  | none => cases lookup snap k <;> simp [visible, List.isEmpty_iff]

/-! ## Go maps as sorted association lists -/

theorem lookup_mapSet (k v : Bytes) (m : List KV) (k' : Bytes) :
    lookup (mapSet k v m) k' = if k = k' then some v else lookup m k' := by
  induction m with
  | nil => simp [mapSet, lookup]
  | cons h t ih =>
    obtain ⟨k₀, v₀⟩ := h
    simp only [mapSet]
    split
    · simp [lookup]
    · rename_i e
      have := (cmp_eq_iff k k₀).1 e; subst this
      simp only [lookup]; split <;> simp_all
    · rename_i e
      have hne : k₀ ≠ k := cmp_lt_ne ((cmp_gt_iff _ _).1 e)
      simp only [lookup, ih]
      by_cases h1 : k₀ = k'
      · subst h1; simp [hne.symm]
      · simp [h1]

theorem mem_mapSet {k v : Bytes} {m : List KV} {x : KV} : x ∈ mapSet k v m → x = (k, v) ∨ x ∈ m := by
  induction m with
  | nil => simp [mapSet]
  | cons h t ih =>
    obtain ⟨k₀, v₀⟩ := h
    simp only [mapSet]
    split
    · simp
    · simp; grind
    · simp; grind

theorem mapSet_sorted (k v : Bytes) (m : List KV) : IsMap m → IsMap (mapSet k v m) := by
  unfold IsMap StrictlyOrdered
  induction m with
  | nil => simp [mapSet]
  | cons h t ih =>
    obtain ⟨k₀, v₀⟩ := h
    intro hs
    simp only [mapSet]
    split
    · rename_i e
      rw [List.pairwise_cons]
      refine ⟨fun z hz => ?_, hs⟩
      rw [List.pairwise_cons] at hs
      have hk : KeyBefore false (k, v) (k₀, v₀) := by simpa [KeyBefore] using e
      rcases List.mem_cons.1 hz with rfl | hz
      · exact hk
      · exact KeyBefore.trans hk (hs.1 z hz)
    · rename_i e
      have := (cmp_eq_iff k k₀).1 e; subst this
      rw [List.pairwise_cons] at hs ⊢
      exact ⟨fun z hz => KeyBefore.congr_left (a := (k, v₀)) rfl (hs.1 z hz), hs.2⟩
    · rename_i e
      rw [List.pairwise_cons] at hs ⊢
      refine ⟨fun z hz => ?_, ih hs.2⟩
      rcases mem_mapSet hz with rfl | hz
      · simpa [KeyBefore] using (cmp_gt_iff _ _).1 e
      · exact hs.1 z hz

theorem isMap_nil : IsMap [] := List.Pairwise.nil

/-! ## batch get -/

theorem lookup_bufBatchLoop (buf : List KV) (ks : List Bytes) (m : List KV) (k : Bytes) :
    lookup (bufBatchLoop buf ks m) k =
      if k ∈ ks ∧ (lookup buf k).isSome then lookup buf k else lookup m k := by
  induction ks generalizing m with
  | nil => simp [bufBatchLoop]
  | cons x xs ih =>
    simp only [bufBatchLoop]
    cases hx : lookup buf x with
    | some v =>
      simp only [ih, lookup_mapSet]
      by_cases h1 : k ∈ xs ∧ (lookup buf k).isSome
      · simp [h1]
      · by_cases h2 : x = k
        · subst h2; simp [hx]
        · have : ¬ (k ∈ x :: xs ∧ (lookup buf k).isSome) := by
            simp only [List.mem_cons]; rintro ⟨h | h, h'⟩
            · exact h2 h.symm
            · exact h1 ⟨h, h'⟩
          rw [if_neg h1, if_neg this, if_neg h2]
    | none =>
      simp only [ih]
      by_cases h2 : x = k
      · subst h2; simp [hx]
      · have : (k ∈ x :: xs ∧ (lookup buf k).isSome) ↔ (k ∈ xs ∧ (lookup buf k).isSome) := by
          simp only [List.mem_cons]; constructor
          · rintro ⟨h | h, h'⟩
            · exact absurd h.symm h2
            · exact ⟨h, h'⟩
          · rintro ⟨h, h'⟩; exact ⟨Or.inr h, h'⟩
        simp only [this]

theorem bufBatchLoop_sorted (buf : List KV) (ks : List Bytes) (m : List KV) : IsMap m → IsMap (bufBatchLoop buf ks m) := by
  induction ks generalizing m with
  | nil => simp [bufBatchLoop]
  | cons x xs ih =>
    intro h
    simp only [bufBatchLoop]
    cases lookup buf x with
    | some v => exact ih _ (mapSet_sorted x v m h)
    | none => exact ih _ h

theorem lookup_bufBatchGet (buf : List KV) (keys : List Bytes) (k : Bytes) :
    lookup (bufBatchGet buf keys) k = if k ∈ keys then lookup buf k else none := by
  unfold bufBatchGet
  cases buf with
  | nil => simp [lookup]
  | cons h t =>
    simp only [List.isEmpty_cons, Bool.false_eq_true, if_false, lookup_bufBatchLoop]
    by_cases hk : k ∈ keys
    · cases hl : lookup (h :: t) k <;> simp [hk, lookup]
    · simp [hk, lookup]

theorem bufBatchGet_sorted (buf : List KV) (keys : List Bytes) : IsMap (bufBatchGet buf keys) := by
  unfold bufBatchGet
  split
  · exact isMap_nil
  · exact bufBatchLoop_sorted buf keys [] isMap_nil

theorem lookup_snapBatchLoop (snap : List KV) (ks : List Bytes) (m : List KV) (k : Bytes) :
    lookup (snapBatchLoop snap ks m) k =
      if k ∈ ks ∧ (visible (lookup snap k)).isSome then visible (lookup snap k) else lookup m k := by
  induction ks generalizing m with
  | nil => simp [snapBatchLoop]
  | cons x xs ih =>
    simp only [snapBatchLoop]
    cases hx : visible (lookup snap x) with
    | some v =>
      simp only [ih, lookup_mapSet]
      by_cases h1 : k ∈ xs ∧ (visible (lookup snap k)).isSome
      · simp [h1]
      · by_cases h2 : x = k
        · subst h2; simp [hx]
        · have : ¬ (k ∈ x :: xs ∧ (visible (lookup snap k)).isSome) := by
            simp only [List.mem_cons]; rintro ⟨h | h, h'⟩
            · exact h2 h.symm
            · exact h1 ⟨h, h'⟩
          rw [if_neg h1, if_neg this, if_neg h2]
    | none =>
      simp only [ih]
      by_cases h2 : x = k
      · subst h2; simp [hx]
      · have : (k ∈ x :: xs ∧ (visible (lookup snap k)).isSome) ↔ (k ∈ xs ∧ (visible (lookup snap k)).isSome) := by
          simp only [List.mem_cons]; constructor
          · rintro ⟨h | h, h'⟩
            · exact absurd h.symm h2
            · exact ⟨h, h'⟩
          · rintro ⟨h, h'⟩; exact ⟨Or.inr h, h'⟩
        simp only [this]

theorem lookup_snapBatchGet (snap : List KV) (keys : List Bytes) (k : Bytes) :
    lookup (snapBatchGet snap keys) k = if k ∈ keys then visible (lookup snap k) else none := by
  unfold snapBatchGet
  rw [lookup_snapBatchLoop]
  by_cases hk : k ∈ keys
  · cases hl : visible (lookup snap k) <;> simp [hk, lookup]
  · simp [hk, lookup]

theorem lookup_mergeInto (a m : List KV) (k : Bytes) :
    lookup (mergeInto a m) k = match lookup a k with | some v => some v | none => lookup m k := by
  induction a with
  | nil => simp [mergeInto, lookup]
  | cons h t ih =>
    obtain ⟨k₀, v₀⟩ := h
    simp only [mergeInto]
    rw [lookup_mapSet, ih]
    simp only [lookup]
    split <;> simp

theorem lookup_filter_visible (m : List KV) (hm : IsMap m) (k : Bytes) :
    lookup (m.filter fun kv => !kv.2.isEmpty) k = visible (lookup m k) := by
  unfold IsMap StrictlyOrdered at hm
  induction m with
  | nil => simp [lookup, visible]
  | cons h t ih =>
    obtain ⟨k₀, v₀⟩ := h
    rw [List.pairwise_cons] at hm
    simp only [List.filter_cons]
    by_cases hk : k₀ = k
    · subst hk
      have hnone : lookup t k₀ = none := lookup_none_iff.2 fun kv hkv => (KeyBefore.ne (hm.1 kv hkv)).symm
      by_cases hv : v₀ = []
      · subst hv; simp [lookup, visible, ih hm.2, hnone]
      · have : v₀.isEmpty = false := by simpa [List.isEmpty_iff] using hv
        simp [this, lookup, visible, hv]
    · by_cases hv : v₀.isEmpty
      · simp [hv, lookup, hk, ih hm.2]
      · simp [hv, lookup, hk, ih hm.2]

theorem lookup_batchGet (snap buf : List KV) (keys : List Bytes) (k : Bytes) :
    lookup (batchGet snap buf keys) k = if k ∈ keys then viewGet snap buf k else none := by
  unfold batchGet
  simp only
  split
  · rename_i hempty
    rw [lookup_snapBatchGet]
    by_cases hk : k ∈ keys
    · have : lookup buf k = none := by
        have := lookup_bufBatchGet buf keys k
        rw [List.isEmpty_iff.1 hempty] at this
        simpa [lookup, hk] using this.symm
      simp [hk, viewGet, this]
    · simp [hk]
  · rw [lookup_mergeInto, lookup_snapBatchGet, lookup_filter_visible _ (bufBatchGet_sorted buf keys), lookup_bufBatchGet]
    by_cases hk : k ∈ keys
    · cases hl : lookup buf k with
      | some v =>
        have hb : lookup (bufBatchGet buf keys) k = some v := by
          rw [lookup_bufBatchGet]; simp [hk, hl]
        simp [List.mem_filter, hb, hk, viewGet, hl]
      | none =>
        have : (k ∈ keys ∧ (lookup (bufBatchGet buf keys) k).isNone = true) := by
          rw [lookup_bufBatchGet]; simp [hk, hl]
        simp only [List.mem_filter, this, if_true, viewGet, hl]
        cases visible (lookup snap k) <;> simp [visible]
    · have : ¬ (k ∈ keys ∧ (lookup (bufBatchGet buf keys) k).isNone = true) := fun h => hk h.1
      simp [List.mem_filter, hk, visible]


/-! ## the abstract write buffer -/

theorem release_innermost (b : Buf) : b.release b.stages.length = some b.releaseTop := by
  obtain ⟨cur, stages⟩ := b
  cases stages <;> simp [Buf.release, Buf.releaseTop]

theorem cleanup_innermost (b : Buf) : b.cleanup b.stages.length = some b.cleanupTop := by
  obtain ⟨cur, stages⟩ := b
  cases stages <;> simp [Buf.cleanup, Buf.cleanupTop]

/-- every saved copy is a well formed map -/
def Buf.WF (b : Buf) : Prop := IsMap b.cur ∧ ∀ s ∈ b.stages, IsMap s

theorem wf_empty : Buf.empty.WF := ⟨isMap_nil, by simp [Buf.empty]⟩

theorem wf_apply (b : Buf) (op : BOp) (h : b.WF) : (b.apply op).WF := by
  obtain ⟨hc, hs⟩ := h
  cases op with
  | set k v =>
    simp only [Buf.apply]; split
    · exact ⟨hc, hs⟩
    · exact ⟨mapSet_sorted k v _ hc, hs⟩
  | del k => exact ⟨mapSet_sorted k [] _ hc, hs⟩
  | staging =>
    refine ⟨hc, fun s hs' => ?_⟩
    simp only [Buf.apply, Buf.staging] at hs'
    rcases List.mem_cons.1 hs' with rfl | h
    · exact hc
    · exact hs s h
  | release =>
    refine ⟨hc, fun s hs' => ?_⟩
    simp only [Buf.apply, Buf.releaseTop] at hs'
    exact hs s (List.mem_of_mem_tail hs')
  | cleanup =>
    simp only [Buf.apply, Buf.cleanupTop]
    cases hst : b.stages with
    | nil => simp only; exact ⟨hc, by simp [hst]⟩
    | cons s r =>
      simp only
      rw [hst] at hs
      exact ⟨hs s List.mem_cons_self, fun x hx => hs x (List.mem_cons_of_mem _ hx)⟩

theorem wf_run (b : Buf) (ops : List BOp) (h : b.WF) : (b.run ops).WF := by
  induction ops generalizing b with
  | nil => exact h
  | cons op r ih => exact ih _ (wf_apply b op h)

/-! ### against the write logs -/

theorem lookup_append (a b : List KV) (k : Bytes) :
    lookup (a ++ b) k = match lookup a k with | some v => some v | none => lookup b k := by
  induction a with
  | nil => simp [lookup]
  | cons h t ih =>
    obtain ⟨k₀, v₀⟩ := h
    simp only [List.cons_append, lookup]
    split <;> simp [ih]

/-- the content and every saved copy answer `lookup` like the write logs below them -/
def Refines : List KV → List (List KV) → List (List KV) → Prop
  | cur, [], [l] => ∀ k, lookup cur k = lookup l k
  | cur, s :: ss, l :: ls => (∀ k, lookup cur k = lookup (l ++ ls.flatten) k) ∧ Refines s ss ls
  | _, _, _ => False

theorem refines_lookup {cur : List KV} {stages st : List (List KV)} (h : Refines cur stages st) (k : Bytes) :
    lookup cur k = lookup st.flatten k := by
  cases stages with
  | nil =>
    match st, h with
    | [l], h => simpa using h k
  | cons s ss =>
    match st, h with
    | l :: ls, h => simpa using h.1 k

theorem refines_write (k v : Bytes) {cur : List KV} {stages : List (List KV)} {l : List KV} {ls : List (List KV)}
    (h : Refines cur stages (l :: ls)) : Refines (mapSet k v cur) stages (((k, v) :: l) :: ls) := by
  cases stages with
  | nil =>
    match ls, h with
    | [], h =>
      intro k'
      simp only [lookup_mapSet, lookup, h k']
  | cons s ss =>
    refine ⟨fun k' => ?_, h.2⟩
    simp only [lookup_mapSet, List.cons_append, lookup, h.1 k']

theorem refines_apply (b : Buf) (op : BOp) (st : List (List KV)) (h : Refines b.cur b.stages st) :
    Refines (b.apply op).cur (b.apply op).stages (stepLog st op) := by
  obtain ⟨cur, stages⟩ := b
  simp only at h
  cases op with
  | set k v =>
    match st, h with
    | l :: ls, h =>
      simp only [Buf.apply, stepLog]
      by_cases hv : v = []
      · subst hv; simpa using h
      · have : v.isEmpty = false := by simpa [List.isEmpty_iff] using hv
        simp only [this, hv, if_false]
        exact refines_write k v h
    | [], h => cases stages <;> simp [Refines] at h
  | del k =>
    match st, h with
    | l :: ls, h => exact refines_write k [] h
    | [], h => cases stages <;> simp [Refines] at h
  | staging =>
    simp only [Buf.apply, Buf.staging, stepLog]
    exact ⟨fun k => by simpa using refines_lookup h k, h⟩
  | release =>
    cases stages with
    | nil =>
      match st, h with
      | [l], h => simpa [Buf.apply, Buf.releaseTop, stepLog] using h
    | cons s ss =>
      match st, h with
      | [l], h => simp [Refines] at h
      | l :: l₂ :: r, h =>
        simp only [Buf.apply, Buf.releaseTop, stepLog, List.tail_cons]
        obtain ⟨h1, h2⟩ := h
        cases ss with
        | nil =>
          match r, h2 with
          | [], h2 => intro k; simpa using h1 k
        | cons s' ss' =>
          exact ⟨fun k => by simpa [List.append_assoc] using h1 k, h2.2⟩
  | cleanup =>
    cases stages with
    | nil =>
      match st, h with
      | [l], h => simpa [Buf.apply, Buf.cleanupTop, stepLog] using h
    | cons s ss =>
      match st, h with
      | [l], h => simp [Refines] at h
      | l :: l₂ :: r, h => exact h.2

theorem refines_run (b : Buf) (ops : List BOp) (st : List (List KV)) (h : Refines b.cur b.stages st) :
    Refines (b.run ops).cur (b.run ops).stages (ops.foldl stepLog st) := by
  induction ops generalizing b st with
  | nil => exact h
  | cons op r ih => exact ih _ _ (refines_apply b op st h)

theorem run_lookup (ops : List BOp) (k : Bytes) :
    lookup (Buf.empty.run ops).cur k = lookup (liveWrites ops) k := by
  have h0 : Refines Buf.empty.cur Buf.empty.stages [[]] := by intro k; rfl
  exact refines_lookup (refines_run Buf.empty ops [[]] h0) k

theorem viewGet_congr (snap : List KV) {b₁ b₂ : List KV} (h : ∀ k, lookup b₁ k = lookup b₂ k) (k : Bytes) :
    viewGet snap b₁ k = viewGet snap b₂ k := by simp [viewGet, h k]

theorem viewDir_congr (snap : List KV) {b₁ b₂ : List KV} (h : ∀ k, lookup b₁ k = lookup b₂ k)
    (lo hi : Bytes) (rev : Bool) : viewDir snap b₁ lo hi rev = viewDir snap b₂ lo hi rev := by
  refine ordered_ext rev _ _ (viewDir_sorted ..) (viewDir_sorted ..) ?_
  rintro ⟨k, v⟩
  rw [viewDir_mem_iff, viewDir_mem_iff, viewGet_congr snap h]

/-! ### bracketed blocks leave the levels below them alone -/

theorem run_bracket (ops : List BOp) : ∀ (d d' : Nat) (cur : List KV) (top base : List (List KV)),
    top.length = d → netDepth d ops = some d' →
    ∃ cur' top', (Buf.run ⟨cur, top ++ base⟩ ops) = ⟨cur', top' ++ base⟩ ∧ top'.length = d' := by
  induction ops with
  | nil => intro d d' cur top base hl hn; simp [netDepth] at hn; subst hn; exact ⟨cur, top, rfl, hl⟩
  | cons op r ih =>
    intro d d' cur top base hl hn
    cases op with
    | set k v =>
      simp only [netDepth] at hn
      simp only [Buf.run, List.foldl_cons, Buf.apply]
      split
      · exact ih d d' cur top base hl hn
      · exact ih d d' _ top base hl hn
    | del k =>
      simp only [netDepth] at hn
      exact ih d d' _ top base hl hn
    | staging =>
      simp only [netDepth] at hn
      have := ih (d + 1) d' cur (cur :: top) base (by simp [hl]) hn
      simpa [Buf.run, Buf.apply, Buf.staging] using this
    | release =>
      cases top with
      | nil => simp at hl; subst hl; simp [netDepth] at hn
      | cons t ts =>
        simp at hl; subst hl
        simp only [netDepth] at hn
        have := ih ts.length d' cur ts base rfl hn
        simpa [Buf.run, Buf.apply, Buf.releaseTop] using this
    | cleanup =>
      cases top with
      | nil => simp at hl; subst hl; simp [netDepth] at hn
      | cons t ts =>
        simp at hl; subst hl
        simp only [netDepth] at hn
        have := ih ts.length d' t ts base rfl hn
        simpa [Buf.run, Buf.apply, Buf.cleanupTop] using this

theorem run_append (b : Buf) (o₁ o₂ : List BOp) : b.run (o₁ ++ o₂) = (b.run o₁).run o₂ := by
  simp [Buf.run, List.foldl_append]

theorem staging_block (b : Buf) (ops : List BOp) (h : Bracketed ops) :
    ∃ cur', b.run (.staging :: ops) = ⟨cur', b.cur :: b.stages⟩ := by
  obtain ⟨cur', top', h1, h2⟩ := run_bracket ops 0 0 b.cur [] (b.cur :: b.stages) rfl h
  have : top' = [] := List.eq_nil_of_length_eq_zero h2
  subst this
  exact ⟨cur', by simpa [Buf.run, Buf.apply, Buf.staging] using h1⟩


theorem run_writes_stages (b : Buf) (ops : List BOp) (h : WritesOnly ops) : (b.run ops).stages = b.stages := by
  induction ops generalizing b with
  | nil => rfl
  | cons op r ih =>
    have hop := h op List.mem_cons_self
    have hr : WritesOnly r := fun o ho => h o (List.mem_cons_of_mem _ ho)
    cases op with
    | set k v =>
      simp only [Buf.run, List.foldl_cons]
      have := ih (b.apply (.set k v)) hr
      simp only [Buf.run] at this
      rw [this]; simp only [Buf.apply]; split <;> rfl
    | del k =>
      simp only [Buf.run, List.foldl_cons]
      have := ih (b.apply (.del k)) hr
      simp only [Buf.run] at this
      rw [this]; rfl
    | staging => simp [BOp.isWrite] at hop
    | release => simp [BOp.isWrite] at hop
    | cleanup => simp [BOp.isWrite] at hop

/-! ## the loop of batch_getter.go as found: right exactly when no key is listed twice -/

theorem lookup_mapErase (k : Bytes) (m : List KV) (k' : Bytes) :
    lookup (mapErase k m) k' = if k' = k then none else lookup m k' := by
  unfold mapErase
  induction m with
  | nil => simp [lookup]
  | cons h t ih =>
    obtain ⟨k₀, v₀⟩ := h
    simp only [List.filter_cons]
    by_cases h0 : k₀ = k
    · subst h0
      simp only [ne_eq, not_true_eq_false, decide_false, Bool.false_eq_true, if_false, ih, lookup]
      by_cases h1 : k' = k₀
      · simp [h1]
      · have : ¬ k₀ = k' := fun e => h1 e.symm
        simp [h1, this]
    · simp only [ne_eq, h0, not_false_eq_true, decide_true, if_true, lookup, ih]
      by_cases h1 : k₀ = k'
      · subst h1; simp [h0]
      · simp [h1]

theorem shrinkLoopAsIs_spec (keys : List Bytes) : ∀ (m : List KV) (sk : List Bytes), keys.Nodup →
    (shrinkLoopAsIs keys m sk).2 = sk ++ keys.filter (fun k => (lookup m k).isNone) ∧
    ∀ k, lookup (shrinkLoopAsIs keys m sk).1 k =
      if k ∈ keys ∧ lookup m k = some [] then none else lookup m k := by
  induction keys with
  | nil => intro m sk _; simp [shrinkLoopAsIs]
  | cons x xs ih =>
    intro m sk hnd
    rw [List.nodup_cons] at hnd
    obtain ⟨hx, hxs⟩ := hnd
    simp only [shrinkLoopAsIs]
    cases hl : lookup m x with
    | none =>
      simp only
      obtain ⟨h1, h2⟩ := ih m (sk ++ [x]) hxs
      refine ⟨?_, fun k => ?_⟩
      · rw [h1]; simp [hl]
      · rw [h2 k]
        by_cases hk : k = x
        · subst hk; simp [hl]
        · simp [hk]
    | some v =>
      simp only
      by_cases hv : v.isEmpty
      · have hv' : v = [] := List.isEmpty_iff.1 hv
        subst hv'
        simp only [List.isEmpty_nil, if_true]
        obtain ⟨h1, h2⟩ := ih (mapErase x m) sk hxs
        refine ⟨?_, fun k => ?_⟩
        · rw [h1]
          have : xs.filter (fun k => (lookup (mapErase x m) k).isNone) = xs.filter (fun k => (lookup m k).isNone) := by
            apply List.filter_congr
            intro k hk
            have : k ≠ x := fun e => hx (e ▸ hk)
            simp [lookup_mapErase, this]
          rw [this]; simp [hl]
        · rw [h2 k]
          by_cases hk : k = x
          · subst hk; simp [lookup_mapErase, hl]
          · simp [lookup_mapErase, hk]
      · simp only [hv, Bool.false_eq_true, if_false]
        obtain ⟨h1, h2⟩ := ih m sk hxs
        refine ⟨?_, fun k => ?_⟩
        · rw [h1]; simp [hl]
        · rw [h2 k]
          by_cases hk : k = x
          · subst hk
            have : v ≠ [] := fun e => hv (List.isEmpty_iff.2 e)
            simp [hl, this, hx]
          · simp [hk]

theorem lookup_batchGetAsIs (snap buf : List KV) (keys : List Bytes) (hnd : keys.Nodup) (k : Bytes) :
    lookup (batchGetAsIs snap buf keys) k = lookup (batchGet snap buf keys) k := by
  unfold batchGetAsIs batchGet
  simp only
  split
  · rfl
  · obtain ⟨h1, h2⟩ := shrinkLoopAsIs_spec keys (bufBatchGet buf keys) [] hnd
    rw [lookup_mergeInto, lookup_mergeInto, h1, h2 k, List.nil_append,
      lookup_filter_visible _ (bufBatchGet_sorted buf keys), lookup_bufBatchGet]
    by_cases hk : k ∈ keys
    · cases hl : lookup buf k with
      | none => simp [hk, visible]
      | some v =>
        by_cases hv : v = []
        · subst hv; simp [hk, visible]
        · simp [hk, visible, hv]
    · simp [hk, visible]

end CGV.UnionIter
