import ClientGoVerif.Proofs.BatchMuxEpoch
/-! Request ids vs entries (C18): the id an entry is sent with is unique, the response put into an entry's channel
    arrived under that id, and what went on the wire under an id is that entry's payload. -/
namespace CGV.BatchMux
open List

def unsent (s : State) : List Nat := s.ch ++ s.heap ++ s.built.map (·.h)

structure InvB (s : State) : Prop where
  unsent0 : ∀ h ∈ unsent s, ∀ (e : Entry), s.entries[h]? = some e → e.reqId = 0
  item_pos : ∀ it ∈ s.built, 0 < it.id
  item_new : ∀ it ∈ s.built, ∀ (h : Nat) (e : Entry), s.entries[h]? = some e → e.reqId ≠ it.id
  slot_req : ∀ sl ∈ s.table, 0 < sl.id ∧ ∀ (e : Entry), s.entries[sl.h]? = some e → e.reqId = sl.id
  req_le : ∀ (h : Nat) (e : Entry), s.entries[h]? = some e → e.reqId ≤ s.idAlloc
  req_inj : ∀ (h h' : Nat) (e e' : Entry), s.entries[h]? = some e → s.entries[h']? = some e' →
      e.reqId = e'.reqId → e.reqId ≠ 0 → h = h'
  got_ok : ∀ (h : Nat) (e : Entry) (id p : Nat), s.entries[h]? = some e → e.got = some (id, p) →
      e.reqId = id ∧ 0 < id ∧ (id, p) ∈ s.respLog
  wire_ok : ∀ (id q : Nat), (id, q) ∈ s.wireLog → 0 < id ∧ ∃ (h : Nat) (e : Entry), s.entries[h]? = some e ∧ e.reqId = id ∧ e.payload = q
  /-- the request appended to `Requests` together with an id is the request of that id's entry -/
  item_req : ∀ it ∈ s.built, ∀ (e : Entry), s.entries[it.h]? = some e → e.payload = it.req
  /-- PAIRING of the outgoing batch: `Requests` is parallel to `RequestIds`/`entries` — the i-th request is the
      request of the i-th id -/
  paired : s.breqs = s.built.map (·.req)

theorem map_get {es : List Entry} {g : Nat → Entry → Entry} {es' : List Entry}
    (hent : ∀ i : Nat, es'[i]? = (es[i]?).map (g i)) {i : Nat} {e' : Entry} (h : es'[i]? = some e') :
    ∃ e, es[i]? = some e ∧ e' = g i e := by
  rw [hent i] at h
  cases hh : es[i]? with
  | none => simp [hh] at h
  | some e => simp [hh] at h; exact ⟨e, rfl, h.symm⟩

/-- entries change without touching reqId / got / payload; queues, built groups and table only shrink -/
theorem InvB.neutral {s s' : State} (hB : InvB s) (g : Nat → Entry → Entry)
    (hent : ∀ i : Nat, s'.entries[i]? = (s.entries[i]?).map (g i))
    (hg : ∀ (i : Nat) (e : Entry), (g i e).reqId = e.reqId ∧ (g i e).got = e.got ∧ (g i e).payload = e.payload)
    (hun : ∀ h ∈ unsent s', h ∈ unsent s)
    (hpos : ∀ it ∈ s'.built, 0 < it.id)
    (hnew : ∀ it ∈ s'.built, ∀ (h : Nat) (e : Entry), s.entries[h]? = some e → e.reqId ≠ it.id)
    (htab : ∀ sl ∈ s'.table, sl ∈ s.table)
    (hid : s.idAlloc ≤ s'.idAlloc)
    (hresp : ∀ x ∈ s.respLog, x ∈ s'.respLog)
    (hwire : s'.wireLog = s.wireLog)
    (hreq : ∀ it ∈ s'.built, ∀ (e : Entry), s.entries[it.h]? = some e → e.payload = it.req)
    (hpair : s'.breqs = s'.built.map (·.req)) : InvB s' := by
  refine ⟨?_, hpos, ?_, ?_, ?_, ?_, ?_, ?_, ?_, hpair⟩
  · intro h hh e' he'
    obtain ⟨e, he, rfl⟩ := map_get hent he'
    rw [(hg h e).1]; exact hB.unsent0 h (hun h hh) e he
  · intro it hit h e' he'
    obtain ⟨e, he, rfl⟩ := map_get hent he'
    rw [(hg h e).1]; exact hnew it hit h e he
  · intro sl hsl
    have := hB.slot_req sl (htab sl hsl)
    refine ⟨this.1, ?_⟩
    intro e' he'
    obtain ⟨e, he, rfl⟩ := map_get hent he'
    rw [(hg _ e).1]; exact this.2 e he
  · intro h e' he'
    obtain ⟨e, he, rfl⟩ := map_get hent he'
    rw [(hg h e).1]; exact Nat.le_trans (hB.req_le h e he) hid
  · intro h h' e1 e2 h1 h2
    obtain ⟨a, ha, rfl⟩ := map_get hent h1
    obtain ⟨b, hb, rfl⟩ := map_get hent h2
    rw [(hg h a).1, (hg h' b).1]
    exact hB.req_inj h h' a b ha hb
  · intro h e' id p he' hgot
    obtain ⟨e, he, rfl⟩ := map_get hent he'
    rw [(hg h e).2.1] at hgot
    rw [(hg h e).1]
    obtain ⟨a, b, c⟩ := hB.got_ok h e id p he hgot
    exact ⟨a, b, hresp _ c⟩
  · intro id q hq
    rw [hwire] at hq
    obtain ⟨hp, h, e, he, h1, h2⟩ := hB.wire_ok id q hq
    refine ⟨hp, h, g h e, by rw [hent h, he]; rfl, ?_, ?_⟩
    · rw [(hg h e).1]; exact h1
    · rw [(hg h e).2.2]; exact h2
  · intro it hit e' he'
    obtain ⟨e, he, rfl⟩ := map_get hent he'
    rw [(hg _ e).2.2]; exact hreq it hit e he

/-- nothing but queues/table shrinking, logs growing -/
theorem InvB.shrink {s s' : State} (hB : InvB s) (hent : s'.entries = s.entries)
    (hun : ∀ h ∈ unsent s', h ∈ unsent s) (hb : s'.built = s.built) (hq : s'.breqs = s.breqs) (htab : ∀ sl ∈ s'.table, sl ∈ s.table)
    (hid : s'.idAlloc = s.idAlloc) (hresp : ∀ x ∈ s.respLog, x ∈ s'.respLog) (hwire : s'.wireLog = s.wireLog) : InvB s' :=
  hB.neutral (fun _ e => e) (by intro i; rw [hent]; simp) (fun _ _ => ⟨rfl, rfl, rfl⟩) hun
    (by rw [hb]; exact hB.item_pos) (by rw [hb]; exact hB.item_new) htab (by rw [hid]; exact Nat.le_refl _) hresp hwire
    (by rw [hb]; exact hB.item_req) (by rw [hb, hq]; exact hB.paired)

theorem abandon_neutral (e : Entry) (err : Err) :
    (e.abandon err).reqId = e.reqId ∧ (e.abandon err).got = e.got ∧ (e.abandon err).payload = e.payload := by
  unfold Entry.abandon; split <;> exact ⟨rfl, rfl, rfl⟩

theorem wake_neutral (e : Entry) : e.wake.reqId = e.reqId ∧ e.wake.got = e.got ∧ e.wake.payload = e.payload := by
  unfold Entry.wake
  split
  · exact ⟨rfl, rfl, rfl⟩
  · split <;> exact ⟨rfl, rfl, rfl⟩

theorem InvB.updAt {s s' : State} (hB : InvB s) (h : Nat) (f : Entry → Entry)
    (hf : ∀ e, (f e).reqId = e.reqId ∧ (f e).got = e.got ∧ (f e).payload = e.payload)
    (hent : s'.entries = CGV.BatchMux.updAt s.entries h f)
    (hun : unsent s' = unsent s) (hb : s'.built = s.built) (hq : s'.breqs = s.breqs) (ht : s'.table = s.table) (hid : s'.idAlloc = s.idAlloc)
    (hr : s'.respLog = s.respLog) (hw : s'.wireLog = s.wireLog) : InvB s' := by
  refine hB.neutral (fun i e => if i = h then f e else e) ?_ ?_ (by rw [hun]; exact fun _ h => h)
    (by rw [hb]; exact hB.item_pos) (by rw [hb]; exact hB.item_new) (by rw [ht]; exact fun _ h => h)
    (by rw [hid]; exact Nat.le_refl _) (by rw [hr]; exact fun _ h => h) hw
    (by rw [hb]; exact hB.item_req) (by rw [hb, hq]; exact hB.paired)
  · intro i; rw [hent, getElem?_updAt]
  · intro i e; by_cases hh : i = h
    · simp [hh]; exact hf e
    · simp [hh]

theorem InvB.updIn {s s' : State} (hB : InvB s) (hs : List Nat) (f : Entry → Entry)
    (hf : ∀ e, (f e).reqId = e.reqId ∧ (f e).got = e.got ∧ (f e).payload = e.payload)
    (hent : s'.entries = CGV.BatchMux.updIn s.entries hs f)
    (hun : ∀ h ∈ unsent s', h ∈ unsent s) (hb : s'.built = s.built) (hq : s'.breqs = s.breqs) (ht : ∀ sl ∈ s'.table, sl ∈ s.table) (hid : s'.idAlloc = s.idAlloc)
    (hr : s'.respLog = s.respLog) (hw : s'.wireLog = s.wireLog) : InvB s' := by
  refine hB.neutral (fun i e => if hs.contains i then f e else e) ?_ ?_ hun
    (by rw [hb]; exact hB.item_pos) (by rw [hb]; exact hB.item_new) ht
    (by rw [hid]; exact Nat.le_refl _) (by rw [hr]; exact fun _ h => h) hw
    (by rw [hb]; exact hB.item_req) (by rw [hb, hq]; exact hB.paired)
  · intro i; rw [hent, getElem?_updIn]
  · intro i e; split
    · exact hf e
    · exact ⟨rfl, rfl, rfl⟩

theorem InvB.submit {s : State} (hB : InvB s) (hA : InvA s) (p pri fwd : Nat) : InvB (submit s p pri fwd) := by
  have hlt : ∀ i ∈ unsent s, i < s.entries.length := by
    intro i hi
    have : i ∈ locs s := by simp only [unsent, locs, List.mem_append] at hi ⊢; exact Or.inl hi
    obtain ⟨e, he, _⟩ := hA.fresh i this
    exact (List.getElem?_eq_some_iff.mp he).1
  unfold CGV.BatchMux.submit
  simp only
  have key : ∀ (x : Entry) (ch' : List Nat), x.reqId = 0 → x.got = none →
      (∀ h ∈ ch' ++ s.heap ++ s.built.map (·.h), h ∈ unsent s ∨ h = s.entries.length) →
      InvB { s with entries := s.entries ++ [x], ch := ch' } := by
    intro x ch' hx0 hxg hch
    refine ⟨?_, hB.item_pos, ?_, ?_, ?_, ?_, ?_, ?_, ?_, hB.paired⟩
    rotate_right
    · intro it hit e he
      rcases get_snoc he with h1 | ⟨h2, _⟩
      · exact hB.item_req it hit e h1
      · have : it.h ∈ unsent s := by
          simp only [unsent, List.mem_append, List.mem_map]; exact Or.inr ⟨it, hit, rfl⟩
        have := hlt it.h this
        omega
    · intro h hh e he
      rcases get_snoc he with h1 | ⟨_, rfl⟩
      · rcases hch h hh with h2 | h2
        · exact hB.unsent0 h h2 e h1
        · have := (List.getElem?_eq_some_iff.mp h1).1; omega
      · exact hx0
    · intro it hit h e he
      rcases get_snoc he with h1 | ⟨_, rfl⟩
      · exact hB.item_new it hit h e h1
      · rw [hx0]; have := hB.item_pos it hit; omega
    · intro sl hsl
      have := hB.slot_req sl hsl
      refine ⟨this.1, ?_⟩
      intro e he
      rcases get_snoc he with h1 | ⟨_, rfl⟩
      · exact this.2 e h1
      · rw [hx0]
        -- the new handle is not a table handle
        have hl : sl.h ∈ locs s := by simp only [locs, List.mem_append, List.mem_map]; exact Or.inr ⟨sl, hsl, rfl⟩
        obtain ⟨e0, he0, _⟩ := hA.fresh sl.h hl
        have := (List.getElem?_eq_some_iff.mp he0).1
        omega
    · intro h e he
      rcases get_snoc he with h1 | ⟨_, rfl⟩
      · exact hB.req_le h e h1
      · rw [hx0]; exact Nat.zero_le _
    · intro h h' e e' he he' heq hne
      rcases get_snoc he with h1 | ⟨_, rfl⟩
      · rcases get_snoc he' with h2 | ⟨_, rfl⟩
        · exact hB.req_inj h h' e e' h1 h2 heq hne
        · rw [heq, hx0] at hne; exact absurd rfl hne
      · rw [hx0] at hne; exact absurd rfl hne
    · intro h e id q he hgot
      rcases get_snoc he with h1 | ⟨_, rfl⟩
      · exact hB.got_ok h e id q h1 hgot
      · rw [hxg] at hgot; cases hgot
    · intro id q hq
      obtain ⟨hp, h, e, he, h1, h2⟩ := hB.wire_ok id q hq
      refine ⟨hp, h, e, ?_, h1, h2⟩
      show (s.entries ++ _)[h]? = some e
      rw [List.getElem?_append_left (List.getElem?_eq_some_iff.mp he).1]; exact he
  split
  · exact key _ s.ch rfl rfl (fun h hh => Or.inl hh)
  · refine key _ (s.ch ++ [s.entries.length]) rfl rfl ?_
    intro h hh
    simp only [unsent, List.mem_append, List.mem_singleton] at hh ⊢
    grind

theorem fail_neutral (e : Entry) (err : Err) :
    (e.fail err).reqId = e.reqId ∧ (e.fail err).got = e.got ∧ (e.fail err).payload = e.payload := ⟨rfl, rfl, rfl⟩

theorem InvB.fetch {s : State} (hB : InvB s) (max : Nat) : InvB (fetch s max) := by
  unfold CGV.BatchMux.fetch
  split
  · exact hB
  · rename_i x rest hch
    generalize hr : fetchLoop (priOf s.entries) max rest.length rest (heapPush (priOf s.entries) s.heap x) = r
    obtain ⟨ch', hp'⟩ := r
    have h1 := fetchLoop_perm _ _ _ _ _ _ _ hr
    have h2 := heapPush_perm (priOf s.entries) s.heap x
    refine hB.shrink rfl ?_ rfl rfl (fun _ h => h) rfl (fun _ h => h) rfl
    intro h hh
    simp only [unsent, hch, List.mem_append] at hh ⊢
    rcases hh with hh | hh
    · have : h ∈ ch' ++ hp' := by simp only [List.mem_append]; exact hh
      have := h1.mem_iff.mp this
      rcases List.mem_append.mp this with h3 | h3
      · exact Or.inl (Or.inl (List.mem_cons_of_mem _ h3))
      · rcases List.mem_cons.mp (h2.mem_iff.mp h3) with rfl | h4
        · exact Or.inl (Or.inl (List.mem_cons_self))
        · exact Or.inl (Or.inr h4)
    · exact Or.inr hh

theorem InvB.breset {s : State} (hB : InvB s) :
    InvB { s with heap := cleanLoop (priOf s.entries) (isCanceled s.entries) (s.heap.length + 1) 0 s.heap } := by
  obtain ⟨rm, hp, _⟩ := cleanLoop_spec (priOf s.entries) (isCanceled s.entries) (s.heap.length + 1) 0 s.heap
  refine hB.shrink rfl ?_ rfl rfl (fun _ h => h) rfl (fun _ h => h) rfl
  intro h hh
  simp only [unsent, List.mem_append] at hh ⊢
  rcases hh with (hh | hh) | hh
  · exact Or.inl (Or.inl hh)
  · exact Or.inl (Or.inr (hp.mem_iff.mpr (List.mem_append.mpr (Or.inr hh))))
  · exact Or.inr hh

theorem InvB.failSlots {s : State} (hB : InvB s) (cid : Nat) (dead : Slot → Bool) (err : Err) :
    InvB (failSlots s cid dead err) :=
  hB.updIn _ _ (fun e => fail_neutral e err) rfl (fun _ h => h) rfl rfl (fun sl h => (List.mem_filter.mp h).1) rfl rfl rfl

theorem InvB.noconn {s : State} (hB : InvB s) (idx : Nat) :
    InvB { s with index := idx, entries := CGV.BatchMux.updIn s.entries s.heap (·.fail .noconn), heap := [] } := by
  refine hB.updIn _ _ (fun e => fail_neutral e _) rfl ?_ rfl rfl (fun _ h => h) rfl rfl rfl
  intro h hh
  simp only [unsent, List.mem_append, List.not_mem_nil, or_false] at hh ⊢
  rcases hh with hh | hh
  · exact Or.inl (Or.inl hh)
  · exact Or.inr hh

theorem InvB.build {s : State} (hB : InvB s) (hb : s.built = []) (idx limit fuel : Nat) (hp : List Nat) (bst : BuildSt)
    (sd : Option Nat)
    (h : buildLoop s.entries limit fuel s.heap { idAlloc := s.idAlloc, count := 0, items := [] } = (hp, bst)) :
    InvB { s with index := idx, heap := hp, idAlloc := bst.idAlloc, built := bst.items.reverse,
                  breqs := bst.items.reverse.map (·.req), sending := sd,
                  allocLog := bst.items.map (fun it => (it.id, it.h)) ++ s.allocLog } := by
  obtain ⟨tk, hperm, hrel⟩ := buildLoop_rel _ _ _ _ _ _ _ h
  have hmem : ∀ it ∈ bst.items, it.h ∈ tk ∧ s.idAlloc < it.id := by
    intro it hit
    rcases hrel.mem it hit with h | h
    · simp at h
    · exact ⟨h.1, h.2.1⟩
  refine hB.neutral (fun _ e => e) (by intro i; simp) (fun _ _ => ⟨rfl, rfl, rfl⟩) ?_ ?_ ?_ (fun _ h => h) hrel.le
    (fun _ h => h) rfl ?_ rfl
  rotate_right
  · intro it hit e he
    rcases hrel.mem it (by simpa using hit) with h | h
    · simp at h
    · obtain ⟨_, _, _, e', he', _, _, hr⟩ := h
      rw [he] at he'; injection he' with he'; subst he'
      exact hr.symm
  · intro h hh
    simp only [unsent, hb, List.mem_append, List.map_nil, List.not_mem_nil, or_false, List.map_reverse,
      List.mem_reverse, List.mem_map] at hh ⊢
    rcases hh with (hh | hh) | ⟨it, hit, rfl⟩
    · exact Or.inl hh
    · exact Or.inr (hperm.mem_iff.mp (List.mem_append.mpr (Or.inr hh)))
    · exact Or.inr (hperm.mem_iff.mp (List.mem_append.mpr (Or.inl (hmem it hit).1)))
  · intro it hit
    have := (hmem it (by simpa using hit)).2
    omega
  · intro it hit h e he
    have h1 := (hmem it (by simpa using hit)).2
    have h2 := hB.req_le h e he
    omega

theorem item_inj {l : List Item} {f : Item → Nat} (hn : (l.map f).Nodup) {a b : Item} (ha : a ∈ l) (hb : b ∈ l)
    (h : f a = f b) : a = b := by
  induction l with
  | nil => simp at ha
  | cons x t ih =>
    simp only [List.map_cons, List.nodup_cons] at hn
    rcases List.mem_cons.mp ha with rfl | ha' <;> rcases List.mem_cons.mp hb with rfl | hb'
    · rfl
    · exact absurd (List.mem_map.mpr ⟨b, hb', h.symm⟩) hn.1
    · exact absurd (List.mem_map.mpr ⟨a, ha', h⟩) hn.1
    · exact ih hn.2 ha' hb'

/-- facts about the handles of built items that follow from the accounting invariant -/
theorem built_facts {s : State} (hA : InvA s) :
    (s.built.map (·.h)).Nodup ∧ (s.built.map (·.id)).Nodup ∧
    (∀ it ∈ s.built, it.h ∉ s.ch ++ s.heap) ∧ (∀ it ∈ s.built, ∀ sl ∈ s.table, sl.h ≠ it.h) := by
  have hn := hA.nodup
  simp only [locs] at hn
  have h1 := List.nodup_append.mp hn
  have h2 := List.nodup_append.mp h1.1
  refine ⟨h2.2.1, (List.nodup_append.mp hA.idnodup).1, ?_, ?_⟩
  · intro it hit hc
    exact h2.2.2 it.h hc it.h (List.mem_map.mpr ⟨it, hit, rfl⟩) rfl
  · intro it hit sl hsl heq
    exact h1.2.2 it.h (List.mem_append.mpr (Or.inr (List.mem_map.mpr ⟨it, hit, rfl⟩))) sl.h
      (List.mem_map.mpr ⟨sl, hsl, rfl⟩) heq.symm

theorem zip_filter_snd (p : Item → Bool) : ∀ (l : List Item),
    ((l.zip (l.map (·.req))).filter (fun x => p x.1)).map (·.2) = (l.filter p).map (·.req)
  | [] => rfl
  | a :: t => by
    simp only [List.map_cons, List.zip_cons_cons, List.filter_cons]
    cases p a <;> simp [zip_filter_snd p t]

theorem zip_filter_batch (p : Item → Bool) : ∀ (l : List Item),
    ((l.zip (l.map (·.req))).filter (fun x => p x.1)).map (fun x => (x.1.id, x.2)) = (l.filter p).map (fun it => (it.id, it.req))
  | [] => rfl
  | a :: t => by
    simp only [List.map_cons, List.zip_cons_cons, List.filter_cons]
    cases p a <;> simp [zip_filter_batch p t]

theorem InvB.track {s : State} (hB : InvB s) (hA : InvA s) (cid fwd gen : Nat) : InvB (track s cid fwd gen) := by
  obtain ⟨hnh, hnid, hnq, hnt⟩ := built_facts hA
  -- the update function and what it does
  let grp := s.built.filter (·.fwd = fwd)
  have hgrp : ∀ it, it ∈ grp ↔ it ∈ s.built ∧ it.fwd = fwd := by
    intro it; simp [grp, List.mem_filter]
  have hfind : ∀ (i : Nat) (it : Item), grp.find? (·.h = i) = some it → it ∈ s.built ∧ it.fwd = fwd ∧ it.h = i := by
    intro i it h
    have h1 := List.mem_of_find?_eq_some h
    have h2 := List.find?_some h
    exact ⟨((hgrp it).mp h1).1, ((hgrp it).mp h1).2, by simpa using h2⟩
  have hfind_some : ∀ it ∈ grp, grp.find? (·.h = it.h) = some it := by
    intro it hit
    cases hf : grp.find? (·.h = it.h) with
    | none =>
      have := List.find?_eq_none.mp hf it hit
      simp at this
    | some it' =>
      obtain ⟨h1, _, h3⟩ := hfind _ _ hf
      rw [item_inj hnh h1 ((hgrp it).mp hit).1 h3]
  have hget : ∀ (i : Nat) (e' : Entry), (CGV.BatchMux.track s cid fwd gen).entries[i]? = some e' →
      ∃ e, s.entries[i]? = some e ∧
        ((grp.find? (·.h = i) = none ∧ e = e') ∨ (∃ it, grp.find? (·.h = i) = some it ∧ e' = { e with reqId := it.id })) := by
    intro i e' h
    have h' : (s.entries.mapIdx (fun i e => match grp.find? (·.h = i) with
        | some it => { e with reqId := it.id } | none => e))[i]? = some e' := h
    rw [List.getElem?_mapIdx] at h'
    cases hh : s.entries[i]? with
    | none => simp [hh] at h'
    | some e =>
      simp only [hh, Option.map_some, Option.some.injEq] at h'
      refine ⟨e, rfl, ?_⟩
      cases hf : grp.find? (·.h = i) with
      | none => left; rw [hf] at h'; exact ⟨rfl, h'⟩
      | some it => right; rw [hf] at h'; exact ⟨it, rfl, h'.symm⟩
  have hzero : ∀ (i : Nat) (it : Item) (e : Entry), grp.find? (·.h = i) = some it → s.entries[i]? = some e → e.reqId = 0 := by
    intro i it e hf he
    obtain ⟨h1, _, h3⟩ := hfind i it hf
    refine hB.unsent0 i ?_ e he
    simp only [unsent, List.mem_append, List.mem_map]
    exact Or.inr ⟨it, h1, h3⟩
  refine ⟨?_, ?_, ?_, ?_, ?_, ?_, ?_, ?_, ?_, ?_⟩
  rotate_right 2
  · -- item_req
    intro it2 hit2 e' he'
    obtain ⟨h6, _⟩ := List.mem_filter.mp hit2
    obtain ⟨e, he, hc⟩ := hget it2.h e' he'
    rcases hc with ⟨_, rfl⟩ | ⟨it, hf, rfl⟩
    · exact hB.item_req it2 h6 e he
    · exact hB.item_req it2 h6 e he
  · -- paired
    show ((s.built.zip s.breqs).filter (fun x => decide (¬ x.1.fwd = fwd))).map (·.2) = (s.built.filter (fun it => decide (¬ it.fwd = fwd))).map (·.req)
    rw [hB.paired]
    exact zip_filter_snd (fun it => decide (¬ it.fwd = fwd)) s.built
  · -- unsent0
    intro h hh e' he'
    obtain ⟨e, he, hc⟩ := hget h e' he'
    have hold : h ∈ unsent s := by
      have hh' : h ∈ s.ch ++ s.heap ++ (s.built.filter (¬ ·.fwd = fwd)).map (·.h) := hh
      simp only [unsent, List.mem_append, List.mem_map, List.mem_filter] at hh' ⊢
      rcases hh' with h1 | ⟨it, ⟨h2, _⟩, h3⟩
      · exact Or.inl h1
      · exact Or.inr ⟨it, h2, h3⟩
    rcases hc with ⟨_, rfl⟩ | ⟨it, hf, rfl⟩
    · exact hB.unsent0 h hold e he
    · exfalso
      obtain ⟨h1, h2, h3⟩ := hfind h it hf
      have hh' : h ∈ s.ch ++ s.heap ++ (s.built.filter (¬ ·.fwd = fwd)).map (·.h) := hh
      rcases List.mem_append.mp hh' with h4 | h4
      · exact hnq it h1 (h3 ▸ h4)
      · obtain ⟨it2, hit2, h5⟩ := List.mem_map.mp h4
        obtain ⟨h6, h7⟩ := List.mem_filter.mp hit2
        have : it2 = it := item_inj hnh h6 h1 (h5.trans h3.symm)
        subst this
        simp [h2] at h7
  · intro it hit
    exact hB.item_pos it (List.mem_filter.mp hit).1
  · -- item_new
    intro it2 hit2 h e' he'
    obtain ⟨h6, h7⟩ := List.mem_filter.mp hit2
    obtain ⟨e, he, hc⟩ := hget h e' he'
    rcases hc with ⟨_, rfl⟩ | ⟨it, hf, rfl⟩
    · exact hB.item_new it2 h6 h e he
    · obtain ⟨h1, h2, _⟩ := hfind h it hf
      intro heq
      have : it = it2 := item_inj hnid h1 h6 heq
      subst this
      simp [h2] at h7
  · -- slot_req
    intro sl hsl
    have hsl' : sl ∈ s.table ++ grp.map (fun it => ({ cid := cid, id := it.id, h := it.h, fwd := fwd, gen := gen } : Slot)) := hsl
    rcases List.mem_append.mp hsl' with h1 | h1
    · have := hB.slot_req sl h1
      refine ⟨this.1, ?_⟩
      intro e' he'
      obtain ⟨e, he, hc⟩ := hget sl.h e' he'
      rcases hc with ⟨_, rfl⟩ | ⟨it, hf, rfl⟩
      · exact this.2 e he
      · obtain ⟨h2, _, h4⟩ := hfind _ it hf
        exact absurd h4.symm (hnt it h2 sl h1)
    · obtain ⟨it, hit, rfl⟩ := List.mem_map.mp h1
      refine ⟨hB.item_pos it ((hgrp it).mp hit).1, ?_⟩
      intro e' he'
      obtain ⟨e, he, hc⟩ := hget it.h e' he'
      rcases hc with ⟨hn, _⟩ | ⟨it', hf, rfl⟩
      · rw [hfind_some it hit] at hn; cases hn
      · rw [hfind_some it hit] at hf; cases hf; rfl
  · -- req_le
    intro h e' he'
    obtain ⟨e, he, hc⟩ := hget h e' he'
    rcases hc with ⟨_, rfl⟩ | ⟨it, hf, rfl⟩
    · exact hB.req_le h e he
    · obtain ⟨h1, _, _⟩ := hfind h it hf
      exact hA.idle it.id (by simp only [ids, List.mem_append, List.mem_map]; exact Or.inl ⟨it, h1, rfl⟩)
  · -- req_inj
    intro h h' e1 e2 h1 h2 heq hne
    obtain ⟨a, ha, hca⟩ := hget h e1 h1
    obtain ⟨b, hb, hcb⟩ := hget h' e2 h2
    rcases hca with ⟨_, rfl⟩ | ⟨ita, hfa, rfl⟩ <;> rcases hcb with ⟨_, rfl⟩ | ⟨itb, hfb, rfl⟩
    · exact hB.req_inj h h' _ _ ha hb heq hne
    · exact absurd heq (hB.item_new itb (hfind _ _ hfb).1 h _ ha)
    · exact absurd heq.symm (hB.item_new ita (hfind _ _ hfa).1 h' _ hb)
    · obtain ⟨a1, _, a3⟩ := hfind _ _ hfa
      obtain ⟨b1, _, b3⟩ := hfind _ _ hfb
      have : ita = itb := item_inj hnid a1 b1 heq
      subst this
      exact a3.symm.trans b3
  · -- got_ok
    intro h e' id p he' hgot
    obtain ⟨e, he, hc⟩ := hget h e' he'
    rcases hc with ⟨_, rfl⟩ | ⟨it, hf, rfl⟩
    · exact hB.got_ok h e id p he hgot
    · exfalso
      have h0 := hzero h it e hf he
      obtain ⟨a, b, _⟩ := hB.got_ok h e id p he hgot
      omega
  · -- wire_ok
    intro id q hq
    obtain ⟨hp, h, e, he, h1, h2⟩ := hB.wire_ok id q hq
    refine ⟨hp, h, ?_⟩
    cases hf : grp.find? (·.h = h) with
    | none =>
      refine ⟨e, ?_, h1, h2⟩
      show (s.entries.mapIdx _)[h]? = _
      rw [List.getElem?_mapIdx, he]
      simp only [Option.map_some]
      rw [hf]
    | some it =>
      exfalso
      have := hzero h it e hf he
      omega

theorem track_payload (s : State) (cid fwd gen i : Nat) (e' : Entry)
    (h : (CGV.BatchMux.track s cid fwd gen).entries[i]? = some e') : ∃ e, s.entries[i]? = some e ∧ e'.payload = e.payload := by
  have h' : (s.entries.mapIdx (fun i e => match (s.built.filter (·.fwd = fwd)).find? (·.h = i) with
      | some it => { e with reqId := it.id } | none => e))[i]? = some e' := h
  rw [List.getElem?_mapIdx] at h'
  cases hh : s.entries[i]? with
  | none => simp [hh] at h'
  | some e =>
    simp only [hh, Option.map_some, Option.some.injEq] at h'
    refine ⟨e, rfl, ?_⟩
    subst h'
    split <;> rfl

/-- handing a batch to `Send`: every (id, request) pair of the batch is an id registered in the table together with the
    request of that id's entry -/
theorem InvB.wire {s2 : State} (hB : InvB s2) (hA : InvA s2) (batch : List (Nat × Nat)) (cid fwd gen : Nat)
    (hb : ∀ x ∈ batch, ∃ it : Item, ({ cid := cid, id := it.id, h := it.h, fwd := fwd, gen := gen } : Slot) ∈ s2.table ∧
        x = (it.id, it.req) ∧ ∀ e, s2.entries[it.h]? = some e → e.payload = it.req) :
    InvB { s2 with wireLog := batch.reverse ++ s2.wireLog } := by
  refine ⟨hB.unsent0, hB.item_pos, hB.item_new, hB.slot_req, hB.req_le, hB.req_inj, hB.got_ok, ?_, hB.item_req, hB.paired⟩
  intro id q hq
  have hq' : (id, q) ∈ batch.reverse ++ s2.wireLog := hq
  rcases List.mem_append.mp hq' with h | h
  · obtain ⟨it, hs, heq, hpay⟩ := hb _ (List.mem_reverse.mp h)
    obtain ⟨hpos, hreq⟩ := hB.slot_req _ hs
    have hloc : it.h ∈ locs s2 := by
      simp only [locs, List.mem_append, List.mem_map]; exact Or.inr ⟨_, hs, rfl⟩
    obtain ⟨e, he, _⟩ := hA.fresh it.h hloc
    simp only [Prod.mk.injEq] at heq
    obtain ⟨rfl, rfl⟩ := heq
    exact ⟨hpos, it.h, e, he, hreq e he, hpay e he⟩
  · exact hB.wire_ok id q h

theorem InvB.ensureStream {s : State} (hB : InvB s) (cid fwd : Nat) : InvB (ensureStream s cid fwd) := by
  unfold CGV.BatchMux.ensureStream
  split
  · exact hB
  · exact hB.shrink rfl (fun _ h => h) rfl rfl (fun _ h => h) rfl (fun _ h => h) rfl

theorem InvB.sendGroup {s : State} (hB : InvB s) (hA : InvA s) (cid fwd : Nat) : InvB (sendGroup s cid fwd) := by
  have hbE : (CGV.BatchMux.ensureStream s cid fwd).built = s.built := ensureStream_built s cid fwd
  unfold CGV.BatchMux.sendGroup
  simp only
  split
  · exact hB
  · have hAE := ensureStream_inv hA cid fwd
    have hBE := hB.ensureStream cid fwd
    have hT := fun gen => hBE.track hAE cid fwd gen
    have hAT := fun gen => hAE.track cid fwd gen
    have hsl : ∀ gen, ∀ it ∈ s.built.filter (·.fwd = fwd),
        ({ cid := cid, id := it.id, h := it.h, fwd := fwd, gen := gen } : Slot) ∈
          (CGV.BatchMux.track (CGV.BatchMux.ensureStream s cid fwd) cid fwd gen).table := by
      intro gen it hit
      show _ ∈ (CGV.BatchMux.ensureStream s cid fwd).table ++ ((CGV.BatchMux.ensureStream s cid fwd).built.filter (·.fwd = fwd)).map _
      rw [hbE]
      exact List.mem_append.mpr (Or.inr (List.mem_map.mpr ⟨it, hit, rfl⟩))
    have hbatch : ∀ gen, ∀ x ∈ ((s.built.zip s.breqs).filter (fun x => decide (x.1.fwd = fwd))).map (fun x => (x.1.id, x.2)),
        ∃ it : Item, ({ cid := cid, id := it.id, h := it.h, fwd := fwd, gen := gen } : Slot) ∈
            (CGV.BatchMux.track (CGV.BatchMux.ensureStream s cid fwd) cid fwd gen).table ∧
          x = (it.id, it.req) ∧
          ∀ e, (CGV.BatchMux.track (CGV.BatchMux.ensureStream s cid fwd) cid fwd gen).entries[it.h]? = some e → e.payload = it.req := by
      intro gen x hx
      rw [hB.paired, zip_filter_batch (fun it => decide (it.fwd = fwd)) s.built] at hx
      obtain ⟨it, hit, rfl⟩ := List.mem_map.mp hx
      refine ⟨it, hsl gen it hit, rfl, ?_⟩
      intro e' he'
      obtain ⟨e, he, hp⟩ := track_payload _ _ _ _ _ _ he'
      have hentE : (CGV.BatchMux.ensureStream s cid fwd).entries = s.entries := by
        unfold CGV.BatchMux.ensureStream; split <;> rfl
      rw [hentE] at he
      rw [hp]; exact hB.item_req it (List.mem_filter.mp hit).1 e he
    generalize findStream (CGV.BatchMux.ensureStream s cid fwd).streams cid fwd = st
    cases st <;> simp only <;> split
    · exact (hT _).failSlots _ _ _
    · exact (hT 0).wire (hAT 0) _ cid fwd 0 (hbatch 0)
    · exact (hT _).failSlots _ _ _
    · rename_i x _
      exact (hT x.gen).wire (hAT x.gen) _ cid fwd x.gen (hbatch x.gen)

theorem InvAB.sendAll {s : State} (hA : InvA s) (hB : InvB s) (cid : Nat) : ∀ k, InvA (sendAll s cid k) ∧ InvB (sendAll s cid k)
  | 0 => ⟨hA.sendGroup cid 0, hB.sendGroup hA cid 0⟩
  | k + 1 => by
    obtain ⟨h1, h2⟩ := InvAB.sendAll hA hB cid k
    exact ⟨h1.sendGroup cid (k + 1), h2.sendGroup h1 cid (k + 1)⟩

theorem InvB.flushBegin {s : State} (hB : InvB s) (hF : InvF s) : InvB (flushBegin s) := by
  obtain ⟨hA, hb⟩ := hF
  unfold CGV.BatchMux.flushBegin
  split
  · exact hB
  · rename_i hsd
    have hnone : s.sending = none := by
      cases h : s.sending with
      | none => rfl
      | some x => simp [h] at hsd
    have hb0 := hb hnone
    simp only
    generalize chooseClient s.clients _ s.clients.length s.index = pk
    obtain ⟨idx, pick⟩ := pk
    simp only
    cases pick with
    | none =>
      simp only
      split
      · exact hB.noconn idx
      · exact hB.shrink rfl (fun _ h => h) rfl rfl (fun _ h => h) rfl (fun _ h => h) rfl
    | some cid =>
      simp only
      generalize hbl : buildLoop s.entries _ (s.heap.length + 1) s.heap { idAlloc := s.idAlloc, count := 0, items := [] } = r
      obtain ⟨hp, bst⟩ := r
      simp only
      exact hB.build hb0 idx _ _ hp bst _ hbl

theorem InvB.setSending {s : State} (hB : InvB s) (c : Option Nat) : InvB { s with sending := c } :=
  ⟨hB.unsent0, hB.item_pos, hB.item_new, hB.slot_req, hB.req_le, hB.req_inj, hB.got_ok, hB.wire_ok, hB.item_req, hB.paired⟩

theorem InvB.flushEnd {s : State} (hB : InvB s) (hF : InvF s) : InvB (flushEnd s) := by
  unfold CGV.BatchMux.flushEnd
  split
  · exact hB
  · rename_i cid _
    exact ((InvAB.sendAll hF.1 hB cid s.nfwd).2).setSending none

theorem InvB.flush {s : State} (hB : InvB s) (hF : InvF s) : InvB (flush s) :=
  (hB.flushBegin hF).flushEnd hF.flushBegin

theorem respond_fields (e : Entry) (id p : Nat) :
    (e.respond id p).reqId = e.reqId ∧ (e.respond id p).payload = e.payload ∧
    ((e.respond id p).got = e.got ∨ (e.respond id p).got = some (id, p)) := by
  refine ⟨rfl, rfl, ?_⟩
  unfold Entry.respond
  by_cases h : e.chan = .fresh <;> simp [h]

theorem InvB.recv1 {s : State} (hB : InvB s) (cid : Nat) (r : Nat × Nat) : InvB (recv1 cid s r) := by
  unfold CGV.BatchMux.recv1
  simp only
  split
  · exact hB.shrink rfl (fun _ h => h) rfl rfl (fun _ h => h) rfl (fun _ h => List.mem_cons_of_mem _ h) rfl
  · rename_i sl hfind
    obtain ⟨hm, _, hid⟩ := findSlot_spec hfind
    obtain ⟨hpos, hreq⟩ := hB.slot_req sl hm
    have hget : ∀ (i : Nat) (e' : Entry),
        (if isCanceled s.entries sl.h = true then s.entries else CGV.BatchMux.updAt s.entries sl.h (·.respond r.1 r.2))[i]? = some e' →
        ∃ e, s.entries[i]? = some e ∧ e'.reqId = e.reqId ∧ e'.payload = e.payload ∧
          (e'.got = e.got ∨ (i = sl.h ∧ e'.got = some (r.1, r.2))) := by
      intro i e' h
      split at h
      · exact ⟨e', h, rfl, rfl, Or.inl rfl⟩
      · rw [getElem?_updAt] at h
        cases hh : s.entries[i]? with
        | none => simp [hh] at h
        | some e =>
          simp only [hh, Option.map_some, Option.some.injEq] at h
          refine ⟨e, rfl, ?_⟩
          by_cases hi : i = sl.h
          · simp only [hi, if_true] at h
            subst h
            obtain ⟨a, b, c⟩ := respond_fields e r.1 r.2
            exact ⟨a, b, c.imp id (fun x => ⟨hi, x⟩)⟩
          · simp only [hi, if_false] at h
            subst h
            exact ⟨rfl, rfl, Or.inl rfl⟩
    refine ⟨?_, hB.item_pos, ?_, ?_, ?_, ?_, ?_, ?_, ?_, hB.paired⟩
    rotate_right
    · intro it hit e' he'
      obtain ⟨e, he, _, h2, _⟩ := hget it.h e' he'
      rw [h2]; exact hB.item_req it hit e he
    · intro h hh e' he'
      obtain ⟨e, he, h1, _, _⟩ := hget h e' he'
      rw [h1]; exact hB.unsent0 h hh e he
    · intro it hit h e' he'
      obtain ⟨e, he, h1, _, _⟩ := hget h e' he'
      rw [h1]; exact hB.item_new it hit h e he
    · intro sl2 hsl2
      have hm2 := (List.mem_filter.mp hsl2).1
      have := hB.slot_req sl2 hm2
      refine ⟨this.1, ?_⟩
      intro e' he'
      obtain ⟨e, he, h1, _, _⟩ := hget _ e' he'
      rw [h1]; exact this.2 e he
    · intro h e' he'
      obtain ⟨e, he, h1, _, _⟩ := hget h e' he'
      rw [h1]; exact hB.req_le h e he
    · intro h h' e1 e2 h1 h2
      obtain ⟨a, ha, a1, _, _⟩ := hget h e1 h1
      obtain ⟨b, hb, b1, _, _⟩ := hget h' e2 h2
      rw [a1, b1]; exact hB.req_inj h h' a b ha hb
    · intro h e' id p he' hgot
      obtain ⟨e, he, h1, _, h3⟩ := hget h e' he'
      rcases h3 with h3 | ⟨hi, h3⟩
      · rw [h3] at hgot
        obtain ⟨a, b, c⟩ := hB.got_ok h e id p he hgot
        exact ⟨h1.trans a, b, List.mem_cons_of_mem _ c⟩
      · rw [h3] at hgot
        injection hgot with hgot
        injection hgot with hg1 hg2
        subst hg1; subst hg2
        subst hi
        refine ⟨h1.trans ((hreq e he).trans hid), by rw [← hid]; exact hpos, List.mem_cons_self⟩
    · intro id q hq
      obtain ⟨hp, h, e, he, h1, h2⟩ := hB.wire_ok id q hq
      have : ∃ e', (if isCanceled s.entries sl.h = true then s.entries else CGV.BatchMux.updAt s.entries sl.h (·.respond r.1 r.2))[h]? = some e' := by
        split
        · exact ⟨e, he⟩
        · rw [getElem?_updAt, he]; exact ⟨_, rfl⟩
      obtain ⟨e', he'⟩ := this
      obtain ⟨e0, he0, a, b, _⟩ := hget h e' he'
      rw [he] at he0; injection he0 with he0; subst he0
      exact ⟨hp, h, e', he', a.trans h1, b.trans h2⟩

theorem InvB.recvFold (cid : Nat) : ∀ (rs : List (Nat × Nat)) {s : State}, InvB s → InvB (rs.foldl (CGV.BatchMux.recv1 cid) s)
  | [], _, h => h
  | r :: rest, _, h => InvB.recvFold cid rest (h.recv1 cid r)

theorem InvB.kill {s : State} (hB : InvB s) (cid fwd : Nat) : InvB (kill s cid fwd) := by
  unfold CGV.BatchMux.kill
  split
  · exact hB
  · split
    · exact hB
    · split
      · exact (hB.failSlots cid (fun sl => sl.fwd = fwd) .stream).shrink rfl (fun _ h => h) rfl rfl (fun _ h => h) rfl (fun _ h => h) rfl
      · exact hB.shrink rfl (fun _ h => h) rfl rfl (fun _ h => h) rfl (fun _ h => h) rfl

theorem InvB.step {s : State} (hB : InvB s) (hF : InvF s) (op : Op) : InvB (step s op) := by
  cases op with
  | submit p pri fwd => exact hB.submit hF.1 p pri fwd
  | fetch max => exact hB.fetch max
  | breset => exact hB.breset
  | flush => exact hB.flush hF
  | flushBegin => exact hB.flushBegin hF
  | flushEnd => exact hB.flushEnd hF
  | recv cid fwd rs =>
    show InvB (CGV.BatchMux.recv s cid fwd rs)
    unfold CGV.BatchMux.recv
    split
    · exact hB
    · split
      · exact hB
      · exact InvB.recvFold cid rs hB
  | kill cid fwd => exact hB.kill cid fwd
  | cancel h => exact hB.updAt h _ (fun e => abandon_neutral e _) rfl rfl rfl rfl rfl rfl rfl rfl
  | timeout h => exact hB.updAt h _ (fun e => abandon_neutral e _) rfl rfl rfl rfl rfl rfl rfl rfl
  | wake h => exact hB.updAt h _ wake_neutral rfl rfl rfl rfl rfl rfl rfl rfl
  | close =>
    refine hB.neutral (fun _ e => e.abandon .closed) ?_ (fun _ e => abandon_neutral e _) (fun _ h => h) hB.item_pos hB.item_new
      (fun _ h => h) (Nat.le_refl _) (fun _ h => h) rfl hB.item_req hB.paired
    intro i
    show (s.entries.mapIdx _)[i]? = _
    rw [List.getElem?_mapIdx]
  | sendfail cid fwd b => exact hB.shrink rfl (fun _ h => h) rfl rfl (fun _ h => h) rfl (fun _ h => h) rfl
  | lockrec cid b => exact hB.shrink rfl (fun _ h => h) rfl rfl (fun _ h => h) rfl (fun _ h => h) rfl
  | setlimit cid l => exact hB.shrink rfl (fun _ h => h) rfl rfl (fun _ h => h) rfl (fun _ h => h) rfl
  | cfgcancel b => exact hB.shrink rfl (fun _ h => h) rfl rfl (fun _ h => h) rfl (fun _ h => h) rfl
  | panicRecover => exact hB

theorem InvB.init (n limit nfwd : Nat) : InvB (init n limit nfwd) := by
  refine ⟨?_, ?_, ?_, ?_, ?_, ?_, ?_, ?_, ?_, ?_⟩ <;> simp [CGV.BatchMux.init, unsent]

theorem findSlot_filter_none (t : List Slot) (cid id : Nat) :
    findSlot (t.filter (fun x => ¬(x.cid = cid ∧ x.id = id))) cid id = none := by
  unfold findSlot
  apply List.find?_eq_none.mpr
  intro x hx hp
  have h1 := (List.mem_filter.mp hx).2
  have h2 : ¬(x.cid = cid ∧ x.id = id) := of_decide_eq_true h1
  exact h2 (of_decide_eq_true hp)

theorem recv1_none {s : State} {cid : Nat} {r : Nat × Nat} (h : findSlot s.table cid r.1 = none) :
    recv1 cid s r = { s with respLog := r :: s.respLog, outdated := s.outdated + 1 } := by
  unfold recv1; simp only [h]

theorem recv1_table_none (s : State) (cid : Nat) (r : Nat × Nat) : findSlot (recv1 cid s r).table cid r.1 = none := by
  unfold recv1; simp only
  split
  · rename_i h; exact h
  · exact findSlot_filter_none _ _ _

/-! the number of forwarded hosts is a constant of a run -/
theorem sendGroup_nfwd (s : State) (cid fwd : Nat) : (sendGroup s cid fwd).nfwd = s.nfwd := by
  have he : (ensureStream s cid fwd).nfwd = s.nfwd := by
    unfold ensureStream; split <;> rfl
  unfold CGV.BatchMux.sendGroup
  simp only
  split
  · rfl
  · generalize findStream (ensureStream s cid fwd).streams cid fwd = st
    cases st <;> simp only <;> split <;> exact he

theorem sendAll_nfwd (s : State) (cid : Nat) : ∀ k, (sendAll s cid k).nfwd = s.nfwd
  | 0 => sendGroup_nfwd s cid 0
  | k + 1 => (sendGroup_nfwd _ cid (k + 1)).trans (sendAll_nfwd s cid k)

theorem flushBegin_nfwd (s : State) : (flushBegin s).nfwd = s.nfwd := by
  unfold CGV.BatchMux.flushBegin
  split
  · rfl
  simp only
  generalize chooseClient s.clients _ s.clients.length s.index = pk
  obtain ⟨idx, pick⟩ := pk
  cases pick with
  | none => simp only; split <;> rfl
  | some cid => simp only

theorem flushEnd_nfwd (s : State) : (flushEnd s).nfwd = s.nfwd := by
  unfold CGV.BatchMux.flushEnd
  split
  · rfl
  · exact sendAll_nfwd s _ s.nfwd

theorem step_nfwd (s : State) (op : Op) : (step s op).nfwd = s.nfwd := by
  cases op with
  | submit p pri fwd =>
    show (CGV.BatchMux.submit s p pri fwd).nfwd = _
    unfold CGV.BatchMux.submit; simp only; split <;> rfl
  | fetch max =>
    show (CGV.BatchMux.fetch s max).nfwd = _
    unfold CGV.BatchMux.fetch; split <;> rfl
  | flush => exact (flushEnd_nfwd _).trans (flushBegin_nfwd s)
  | flushBegin => exact flushBegin_nfwd s
  | flushEnd => exact flushEnd_nfwd s
  | recv cid fwd rs =>
    show (CGV.BatchMux.recv s cid fwd rs).nfwd = _
    unfold CGV.BatchMux.recv
    split
    · rfl
    · split
      · rfl
      · have : ∀ (rs : List (Nat × Nat)) (s : State), (rs.foldl (recv1 cid) s).nfwd = s.nfwd := by
          intro rs
          induction rs with
          | nil => intro s; rfl
          | cons r rest ih =>
            intro s
            refine (ih _).trans ?_
            unfold recv1; simp only; split <;> rfl
        exact this rs s
  | kill cid fwd =>
    show (CGV.BatchMux.kill s cid fwd).nfwd = _
    unfold CGV.BatchMux.kill
    split
    · rfl
    · split
      · rfl
      · split <;> rfl
  | _ => rfl

theorem run_nfwd : ∀ (ops : List Op) (s : State), (run s ops).nfwd = s.nfwd
  | [], _ => rfl
  | op :: rest, s => (run_nfwd rest (step s op)).trans (step_nfwd s op)

/-- all invariants hold in every reachable state -/
theorem reach_inv (n limit nfwd : Nat) : ∀ ops : List Op,
    InvF (run (init n limit nfwd) ops) ∧ InvB (run (init n limit nfwd) ops) ∧ InvG (run (init n limit nfwd) ops) ∧
    InvL (run (init n limit nfwd) ops) := by
  have key : ∀ (ops : List Op) (s : State), InvF s → InvB s → InvG s → InvL s →
      InvF (run s ops) ∧ InvB (run s ops) ∧ InvG (run s ops) ∧ InvL (run s ops) := by
    intro ops
    induction ops with
    | nil => intro s a b c d; exact ⟨a, b, c, d⟩
    | cons op rest ih => intro s a b c d; exact ih (step s op) (a.step op) (b.step a op) (c.step op) (d.step op)
  intro ops
  exact key ops _ (InvF.init n limit nfwd) (InvB.init n limit nfwd) (InvG.init n limit nfwd) (InvL.init n limit nfwd)

end CGV.BatchMux
