/-
  Helper lemmas for C20 (model: Model/Backoff.lean).
-/
import ClientGoVerif.Model.Backoff
set_option linter.unusedSimpArgs false
set_option linter.unusedVariables false
namespace CGV.Backoff

/-! ## single sleeps -/

theorem two_tdiv_le (v : Int) (h : 0 < v.tdiv 2) : 2 * v.tdiv 2 ≤ v := by
  by_cases hv : 0 ≤ v
  · rw [Int.tdiv_eq_ediv_of_nonneg hv] at *; omega
  · exfalso
    have h1 : v.tdiv 2 = -((-v).tdiv 2) := by rw [Int.neg_tdiv]; omega
    have h2 : (-v).tdiv 2 = (-v) / 2 := Int.tdiv_eq_ediv_of_nonneg (by omega)
    omega

theorem expo_le_cap (b c : Int) (n : Nat) : expo b c n ≤ c := by
  unfold expo; omega

/-- stated for EVERY attempt count `n` (unbounded integers: there is no overflow in the model) -/
theorem expo_nonneg (b c : Int) (n : Nat) (hb : 0 ≤ b) (hc : 0 ≤ c) : 0 ≤ expo b c n := by
  have : (0:Int) ≤ b * 2 ^ n := Int.mul_nonneg hb (Int.pow_nonneg (by omega))
  unfold expo; omega

/-- the exponential step never shrinks as the attempts grow, and stays at the cap once it got there -/
theorem expo_mono (b c : Int) (n : Nat) (hb : 0 ≤ b) : expo b c n ≤ expo b c (n + 1) := by
  have h0 : (0:Int) ≤ b * 2 ^ n := Int.mul_nonneg hb (Int.pow_nonneg (by omega))
  have h1 : b * 2 ^ (n + 1) = b * 2 ^ n * 2 := by rw [Int.pow_succ, ← Int.mul_assoc]
  unfold expo; rw [h1]; omega

theorem realSleep_le (m s : Int) : realSleep m s ≤ s := by
  unfold realSleep; split <;> omega

theorem realSleep_le_max (m s : Int) (hm : 0 ≤ m) : realSleep m s ≤ m := by
  unfold realSleep; split <;> omega

theorem realSleep_eq_of_not_cut (m s : Int) (h : ¬ (m ≥ 0 ∧ s > m)) : realSleep m s = s := by
  unfold realSleep; simp [h]

/-- every allowed sleep is at most the cap (0 for an unknown jitter kind, where `sleep` stays 0) -/
theorem sleepAllowed_le (f : Fn) (s : Int) (h : sleepAllowed f s = true) : s ≤ max f.cap 0 := by
  have hv := expo_le_cap f.base f.cap f.attempts
  unfold sleepAllowed at h
  simp only at h
  split at h
  · simp at h; omega
  · split at h
    · simp at h; omega
    · split at h
      · simp at h
        have := two_tdiv_le (expo f.base f.cap f.attempts) h.1
        omega
      · split at h
        · simp at h; omega
        · simp at h; omega

/-- no allowed sleep is negative (closures have base ≥ 2; the cap is assumed ≥ 0), for every attempt count -/
theorem sleepAllowed_nonneg (f : Fn) (s : Int) (h : sleepAllowed f s = true) (hb : 0 ≤ f.base) (hc : 0 ≤ f.cap) :
    0 ≤ s := by
  have hv := expo_nonneg f.base f.cap f.attempts hb hc
  unfold sleepAllowed at h
  simp only at h
  split at h
  · simp at h; omega
  · split at h
    · simp at h; omega
    · split at h
      · simp at h; omega
      · split at h
        · simp at h; omega
        · simp at h; omega

theorem sleepAllowed_le_cap (f : Fn) (s : Int) (h : sleepAllowed f s = true)
    (hj : f.jitter = Gen.noJitter ∨ f.jitter = Gen.fullJitter ∨ f.jitter = Gen.equalJitter ∨ f.jitter = Gen.decorrJitter) :
    s ≤ f.cap := by
  have hv := expo_le_cap f.base f.cap f.attempts
  unfold sleepAllowed at h
  simp only at h
  split at h
  · simp at h; omega
  · split at h
    · simp at h; omega
    · split at h
      · simp at h
        have := two_tdiv_le (expo f.base f.cap f.attempts) h.1
        omega
      · split at h
        · simp at h; omega
        · rcases hj with hj | hj | hj | hj <;> contradiction

/-- EqualJitter never sleeps less than half of the exponential step -/
theorem sleepAllowed_equal_lower (f : Fn) (s : Int) (h : sleepAllowed f s = true)
    (hj : f.jitter = Gen.equalJitter) (hn : f.jitter ≠ Gen.noJitter) (hf : f.jitter ≠ Gen.fullJitter) :
    Int.tdiv (expo f.base f.cap f.attempts) 2 ≤ s := by
  unfold sleepAllowed at h
  simp only [hn, hf, hj, if_false, if_true] at h
  rw [hj] at hn hf
  simp only [hn, hf, if_false, if_true] at h
  simp at h
  omega

/-! ## case analysis of one `backoff` call -/

/-- a call either leaves the state alone (cancelled / noop / exceeded / rejected input / panic) or sleeps once -/
theorem backoff_cases (s : State) (id : Nat) (b : Backoffer) (cfg : Config) (m sl : Int) (e : String) :
    ((backoff s id b cfg m sl e).1 = s ∧
      ((backoff s id b cfg m sl e).2 = .cancelled ∧ isDone s b = true ∨
       (backoff s id b cfg m sl e).2 = .noop ∧ isDone s b = false ∧ b.noop = true ∨
       ((backoff s id b cfg m sl e).2 = .exceeded e ∧ (exceededErrs b callerK).contains e = true ∨
          (backoff s id b cfg m sl e).2 = .badChoice) ∧ isDone s b = false ∧ b.noop = false ∧ overBudget b cfg.name = true ∨
       ((backoff s id b cfg m sl e).2 = .panic ∨ (backoff s id b cfg m sl e).2 = .badChoice) ∧
          isDone s b = false ∧ b.noop = false ∧ overBudget b cfg.name = false)) ∨
    (∃ f, isDone s b = false ∧ b.noop = false ∧ overBudget b cfg.name = false ∧ effFn b cfg = some f ∧
      sleepAllowed f sl = true ∧
      (backoff s id b cfg m sl e).1 = s.setB id (sleptB b cfg f m sl) ∧
      ((backoff s id b cfg m sl e).2 = .slept (realSleep m sl) f.base f.attempts ∧
          checkKilled s (sleptB b cfg f m sl) = none ∨
       ∃ sig, (backoff s id b cfg m sl e).2 = .killedAfter sig (realSleep m sl) f.base f.attempts ∧
          checkKilled s (sleptB b cfg f m sl) = some sig)) := by
  cases h1 : isDone s b with
  | true => left; simp [backoff, h1]
  | false =>
    cases h2 : b.noop with
    | true => left; simp [backoff, h1, h2]
    | false =>
      cases h3 : overBudget b cfg.name with
      | true =>
        left
        by_cases h4 : e ∈ exceededErrs b callerK
        · simp [backoff, h1, h2, h3, h4]
        · simp [backoff, h1, h2, h3, h4]
      | false =>
        cases h5 : effFn b cfg with
        | none => left; simp [backoff, h1, h2, h3, h5]
        | some f =>
          cases h6 : sleepAllowed f sl with
          | false => left; simp [backoff, h1, h2, h3, h5, h6]
          | true =>
            right
            refine ⟨f, rfl, rfl, rfl, rfl, h6, ?_⟩
            cases h7 : checkKilled s (sleptB b cfg f m sl) with
            | none => simp [backoff, h1, h2, h3, h5, h6, h7]
            | some sig => simp [backoff, h1, h2, h3, h5, h6, h7]

/-! ## arena plumbing -/

theorem live_some {s : State} {id : Nat} {b : Backoffer} (h : s.live id = some b) :
    s.bs[id]? = some b ∧ b.retired = false ∧ b ∈ s.bs := by
  unfold State.live at h
  split at h
  · rename_i b' hb
    split at h
    · contradiction
    · rename_i hr
      injection h with h; subst h
      exact ⟨hb, by simpa using hr, List.mem_of_getElem? hb⟩
  · contradiction

theorem mem_setB {s : State} {i : Nat} {x b : Backoffer} (h : b ∈ (s.setB i x).bs) : b ∈ s.bs ∨ b = x := by
  unfold State.setB at h
  exact List.mem_or_eq_of_mem_set h

theorem mem_push {s : State} {x b : Backoffer} (h : b ∈ (s.push x).bs) : b ∈ s.bs ∨ b = x := by
  unfold State.push at h
  simpa using h

theorem applyWeight_eq {b b' : Backoffer} (h : applyWeight b = some b') : b' = { b with maxSleep := b'.maxSleep } := by
  unfold applyWeight at h
  split at h
  · split at h
    · contradiction
    · split at h
      · contradiction
      · split at h <;> (injection h with h; subst h; rfl)
  · injection h with h; subst h; rfl

/-! ## the budget invariant -/

theorem fnLookup_mem {l : List (String × Fn)} {n : String} {f : Fn} (h : fnLookup l n = some f) : (n, f) ∈ l := by
  induction l with
  | nil => simp [fnLookup] at h
  | cons p r ih =>
    obtain ⟨k, g⟩ := p
    simp only [fnLookup] at h
    split at h
    · rename_i hk; injection h with h; subst h; subst hk; simp
    · exact List.mem_cons_of_mem _ (ih h)

theorem fnSet_mem {l : List (String × Fn)} {n : String} {f : Fn} {p : String × Fn} (h : p ∈ fnSet l n f) :
    p ∈ l ∨ p = (n, f) := by
  induction l with
  | nil => simp [fnSet] at h; right; exact h
  | cons q r ih =>
    obtain ⟨k, g⟩ := q
    simp only [fnSet] at h
    split at h
    · rename_i hk
      rcases List.mem_cons.1 h with h | h
      · right; rw [h, hk]
      · left; exact List.mem_cons_of_mem _ h
    · rcases List.mem_cons.1 h with h | h
      · left; rw [h]; simp
      · rcases ih h with h | h
        · left; exact List.mem_cons_of_mem _ h
        · right; exact h

theorem foldl_max_ge (l : List (String × Int)) (a : Int) :
    a ≤ l.foldl (fun a p => max a p.2) a ∧ ∀ p ∈ l, p.2 ≤ l.foldl (fun a p => max a p.2) a := by
  induction l generalizing a with
  | nil => simp
  | cons q r ih =>
    simp only [List.foldl_cons]
    have := ih (max a q.2)
    refine ⟨by omega, ?_⟩
    intro p hp
    rcases List.mem_cons.1 hp with h | h
    · subst h; omega
    · exact this.2 p h

theorem exclLimit_mem {l : List (String × Int)} {n : String} {v : Int} (h : exclLimit l n = some v) : (n, v) ∈ l := by
  induction l with
  | nil => simp [exclLimit] at h
  | cons p r ih =>
    obtain ⟨k, g⟩ := p
    simp only [exclLimit] at h
    split at h
    · rename_i hk; injection h with h; subst h; subst hk; simp
    · exact List.mem_cons_of_mem _ (ih h)

theorem excl_le_exclMax {n : String} {v : Int} (h : excl n = some v) : v ≤ exclMax :=
  (foldl_max_ge Gen.isSleepExcluded 0).2 (n, v) (exclLimit_mem h)

theorem exclMax_nonneg : 0 ≤ exclMax := (foldl_max_ge Gen.isSleepExcluded 0).1

def BInv (M : Int) (b : Backoffer) : Prop :=
  (∀ p ∈ b.fns, p.2.cap ≤ M ∧ 2 ≤ p.2.base) ∧
  (b.tainted = false → 0 < b.maxSleep →
    b.totalSleep - b.excludedSleep < b.maxSleep + M ∧ b.excludedSleep < max exclMax b.maxSleep + M)

def SInv (M : Int) (s : State) : Prop := ∀ b ∈ s.bs, BInv M b

/-- the caps of all configs passed to `backoff` are at most `M` -/
def OpCap (M : Int) : Op → Prop
  | .backoff _ cfg _ _ _ => cfg.cap ≤ M
  | _ => True

theorem BInv_zero {M : Int} (hM : 0 ≤ M) {b : Backoffer} (hf : b.fns = []) (ht : b.totalSleep = 0)
    (he : b.excludedSleep = 0) : BInv M b := by
  refine ⟨by simp [hf], ?_⟩
  intro _ hpos
  rw [ht, he]
  have := exclMax_nonneg
  omega

theorem mkFn_base (base cap jitter : Int) : 2 ≤ (mkFn base cap jitter).base := by
  simp only [mkFn]; split <;> omega

theorem effFn_cap {M : Int} {b : Backoffer} {cfg : Config} {f : Fn} (hb : ∀ p ∈ b.fns, p.2.cap ≤ M ∧ 2 ≤ p.2.base)
    (hc : cfg.cap ≤ M) (h : effFn b cfg = some f) : f.cap ≤ M ∧ 2 ≤ f.base := by
  unfold effFn at h
  split at h
  · rename_i g hg; injection h with h; subst h; exact hb _ (fnLookup_mem hg)
  · split at h
    · split at h
      · injection h with h; subst h; exact ⟨by simpa [mkFn] using hc, mkFn_base _ _ _⟩
      · contradiction
    · injection h with h; subst h; exact ⟨by simpa [mkFn] using hc, mkFn_base _ _ _⟩

theorem overBudget_false {b : Backoffer} {n : String} (h : overBudget b n = false) (hpos : 0 < b.maxSleep) :
    b.totalSleep - b.excludedSleep < b.maxSleep ∧
    ∀ l, excl n = some l → b.excludedSleep < l ∨ b.excludedSleep < b.maxSleep := by
  unfold overBudget at h
  simp only [Bool.and_eq_false_iff, Bool.or_eq_false_iff, decide_eq_false_iff_not] at h
  rcases h with h | ⟨h1, h2⟩
  · omega
  · refine ⟨by omega, ?_⟩
    intro l hl
    rw [hl] at h2
    simp only [decide_eq_false_iff_not] at h2
    omega

theorem sleptB_inv {M : Int} (hM : 0 ≤ M) {b : Backoffer} {cfg : Config} {f : Fn} {m sl : Int}
    (hb : BInv M b) (hc : cfg.cap ≤ M) (hf : effFn b cfg = some f) (ha : sleepAllowed f sl = true)
    (ho : overBudget b cfg.name = false) : BInv M (sleptB b cfg f m sl) := by
  have hcap := effFn_cap hb.1 hc hf
  have hs := sleepAllowed_le f sl ha
  have hr := realSleep_le m sl
  refine ⟨?_, ?_⟩
  · intro p hp
    simp only [sleptB] at hp
    rcases fnSet_mem hp with hp | hp
    · exact hb.1 p hp
    · subst hp; exact hcap
  · intro ht hpos
    simp only [sleptB] at ht hpos ⊢
    have ⟨h1, h2⟩ := hb.2 ht hpos
    have ⟨o1, o2⟩ := overBudget_false ho hpos
    cases he : excl cfg.name with
    | none => simp only [Option.isSome_none]; simp; omega
    | some l =>
      have := excl_le_exclMax he
      have := o2 l he
      simp only [Option.isSome_some, if_true]
      omega

theorem SInv_push {M : Int} {s : State} {x : Backoffer} (h : SInv M s) (hx : BInv M x) : SInv M (s.push x) := by
  intro b hb
  rcases mem_push hb with hb | hb
  · exact h b hb
  · subst hb; exact hx

theorem SInv_setB {M : Int} {s : State} {i : Nat} {x : Backoffer} (h : SInv M s) (hx : BInv M x) :
    SInv M (s.setB i x) := by
  intro b hb
  rcases mem_setB hb with hb | hb
  · exact h b hb
  · subst hb; exact hx

theorem BInv_applyWeight_new {M : Int} (hM : 0 ≤ M) {b b' : Backoffer} (h : applyWeight b = some b')
    (hf : b.fns = []) (ht : b.totalSleep = 0) (he : b.excludedSleep = 0) : BInv M b' := by
  have := applyWeight_eq h
  rw [this]
  exact BInv_zero hM hf ht he

theorem step_SInv {M : Int} (hM : 0 ≤ M) {s : State} (h : SInv M s) (op : Op) (hop : OpCap M op) :
    SInv M (step s op).1 := by
  cases op with
  | newPlain n => exact SInv_push h (BInv_zero hM rfl rfl rfl)
  | newNil n =>
    simp only [step]
    split
    · rename_i b hb; exact SInv_push h (BInv_applyWeight_new hM hb rfl rfl rfl)
    · exact h
  | newVars n lf w =>
    simp only [step]
    split
    · rename_i b hb; exact SInv_push h (BInv_applyWeight_new hM hb rfl rfl rfl)
    · exact h
  | newNoop => exact SInv_push h (BInv_zero hM rfl rfl rfl)
  | backoff id cfg m sl e =>
    simp only [step]
    split
    · rename_i b hb
      have hbm := (live_some hb).2.2
      rcases backoff_cases s id b cfg m sl e with ⟨h1, _⟩ | ⟨f, _, _, ho, hf, ha, h1, _⟩
      · rw [h1]; exact h
      · rw [h1]; exact SInv_setB h (sleptB_inv hM (h b hbm) hop hf ha ho)
    · exact h
  | clone id =>
    simp only [step]
    split
    · rename_i b hb
      have hbi := h b (live_some hb).2.2
      exact SInv_push h ⟨by simp, hbi.2⟩
    · exact h
  | fork id =>
    simp only [step]
    split
    · rename_i b hb
      have hbi := h b (live_some hb).2.2
      exact SInv_push h ⟨by simp, hbi.2⟩
    · exact h
  | merge t f =>
    simp only [step]
    split
    · rename_i b fb hb hfb
      have hbi := h b (live_some hb).2.2
      have hfi := h fb (live_some hfb).2.2
      split
      · refine SInv_setB (SInv_setB h ⟨hbi.1, ?_⟩) ⟨hfi.1, hfi.2⟩
        intro ht hpos
        simp only [Bool.or_eq_false_iff, decide_eq_false_iff_not] at ht
        simp only at hpos ⊢
        have := hfi.2 ht.1.1 (by omega)
        omega
      · exact h
    · exact h
  | reset id =>
    simp only [step]
    split
    · exact SInv_setB h (BInv_zero hM rfl rfl rfl)
    · exact h
  | resetMaxSleep id n =>
    simp only [step]
    split
    · split
      · rename_i b' hb'; exact SInv_setB h (BInv_applyWeight_new hM hb' rfl rfl rfl)
      · exact h
    · exact h
  | cancel tok =>
    simp only [step]
    split
    · split <;> exact h
    · exact h
  | kill id sig =>
    simp only [step]
    split
    · split
      · split <;> exact h
      · exact h
    · exact h

theorem run_SInv {M : Int} (hM : 0 ≤ M) (ops : List Op) {s : State} (h : SInv M s) (hops : ∀ op ∈ ops, OpCap M op) :
    SInv M (run s ops) := by
  induction ops generalizing s with
  | nil => exact h
  | cons op r ih =>
    simp only [run, List.foldl_cons]
    exact ih (step_SInv hM h op (hops op (by simp))) (fun o ho => hops o (by simp [ho]))

theorem SInv_init (M : Int) : SInv M init := by intro b hb; simp [init] at hb

/-! ## longest sleeper -/

theorem mem_nonExcl {m : AMap} {p : String × Int} : p ∈ nonExcl m ↔ p ∈ m ∧ excl p.1 = none := by
  simp [nonExcl, List.mem_filter]

theorem longest_ge (m : AMap) : 0 ≤ longest m ∧ ∀ p ∈ m, excl p.1 = none → p.2 ≤ longest m := by
  have := foldl_max_ge (nonExcl m) 0
  exact ⟨this.1, fun p hp he => this.2 p (mem_nonExcl.2 ⟨hp, he⟩)⟩

/-- every value `candidate` can take after the first loop of `longestSleepCfg` -/
theorem candidates_spec {m : AMap} {n : String} (h : n ∈ candidates m) :
    (0 < longest m ∧ (n, longest m) ∈ m ∧ excl n = none) ∨ (longest m = 0 ∧ n = "") := by
  unfold candidates at h
  split at h
  · rename_i hpos
    left
    simp only [List.mem_map, List.mem_filter, beq_iff_eq] at h
    obtain ⟨p, ⟨hp, hv⟩, hn⟩ := h
    have := mem_nonExcl.1 hp
    obtain ⟨k, v⟩ := p
    simp only at hv hn this
    subst hn; subst hv
    exact ⟨hpos, this.1, this.2⟩
  · right
    have := (longest_ge m).1
    simp at h
    exact ⟨by omega, h⟩

/-- what an `exceeded k` answer means -/
theorem exceeded_spec {s s' : State} {id : Nat} {b : Backoffer} {cfg : Config} {m sl : Int} {e k : String}
    (h : backoff s id b cfg m sl e = (s', .exceeded k)) :
    s' = s ∧ isDone s b = false ∧ b.noop = false ∧ overBudget b cfg.name = true ∧
    ∃ n, k = (match cfgErr b.configs n with | some x => x | none => callerK) ∧
      ((0 < longest b.sleepMS ∧ (n, longest b.sleepMS) ∈ b.sleepMS ∧ excl n = none) ∨
       (longest b.sleepMS = 0 ∧ n = "")) := by
  have h1 : (backoff s id b cfg m sl e).1 = s' := by rw [h]
  have h2 : (backoff s id b cfg m sl e).2 = .exceeded k := by rw [h]
  rcases backoff_cases s id b cfg m sl e with ⟨hs, hc⟩ | ⟨f, _, _, _, _, _, _, hc⟩
  · rcases hc with ⟨hc, _⟩ | ⟨hc, _⟩ | ⟨hc, hd, hn, ho⟩ | ⟨hc, _⟩
    · rw [h2] at hc; contradiction
    · rw [h2] at hc; contradiction
    · rcases hc with ⟨hc, hmem⟩ | hc
      · rw [h2] at hc
        injection hc with hc; subst hc
        refine ⟨by rw [← h1, hs], hd, hn, ho, ?_⟩
        simp only [exceededErrs, List.contains_eq_mem, List.mem_map, decide_eq_true_eq] at hmem
        obtain ⟨n, hn1, hn2⟩ := hmem
        exact ⟨n, hn2.symm, candidates_spec hn1⟩
      · rw [h2] at hc; contradiction
    · rcases hc with hc | hc <;> (rw [h2] at hc; contradiction)
  · rcases hc with ⟨hc, _⟩ | ⟨sig, hc, _⟩ <;> (rw [h2] at hc; contradiction)

/-! ## `b.configs` covers the kinds that slept (every reachable state) -/

def Cover (b : Backoffer) : Prop := ∀ p ∈ b.sleepMS, (cfgErr b.configs p.1).isSome = true

/-- `configs` covers the kinds that slept (always), and — as long as no merge happened (`nm = true`) — the ghost
    `tainted` is unset -/
def MergeFree (nm : Bool) (b : Backoffer) : Prop := Cover b ∧ (nm = true → b.tainted = false)

theorem AMap.add_mem {m : AMap} {k : String} {d : Int} {p : String × Int} (h : p ∈ AMap.add m k d) :
    p ∈ m ∨ p.1 = k := by
  induction m with
  | nil => simp [AMap.add] at h; right; rw [h]
  | cons q r ih =>
    obtain ⟨k', v⟩ := q
    simp only [AMap.add] at h
    split at h
    · rename_i hk
      rcases List.mem_cons.1 h with h | h
      · right; rw [h]; exact hk
      · left; exact List.mem_cons_of_mem _ h
    · rcases List.mem_cons.1 h with h | h
      · left; rw [h]; simp
      · rcases ih h with h | h
        · left; exact List.mem_cons_of_mem _ h
        · right; exact h

theorem cfgErr_append_some {l : List (String × String)} {x : String} (q : String × String)
    (h : (cfgErr l x).isSome = true) : (cfgErr (l ++ [q]) x).isSome = true := by
  induction l with
  | nil => simp [cfgErr] at h
  | cons p r ih =>
    obtain ⟨k, e⟩ := p
    simp only [List.cons_append, cfgErr] at h ⊢
    split
    · simp
    · rename_i hk; simp only [hk, if_false] at h; exact ih h

theorem cfgErr_append_self (l : List (String × String)) (n e : String) : (cfgErr (l ++ [(n, e)]) n).isSome = true := by
  induction l with
  | nil => simp [cfgErr]
  | cons p r ih =>
    obtain ⟨k, e'⟩ := p
    simp only [List.cons_append, cfgErr]
    split
    · simp
    · exact ih

theorem Cover_sleptB {nm : Bool} {b : Backoffer} {cfg : Config} {f : Fn} {m sl : Int} (h : MergeFree nm b) :
    MergeFree nm (sleptB b cfg f m sl) := by
  refine ⟨?_, h.2⟩
  intro p hp
  simp only [sleptB] at hp ⊢
  rcases AMap.add_mem hp with hp | hp
  · exact cfgErr_append_some _ (h.1 p hp)
  · rw [hp]; exact cfgErr_append_self _ _ _

def SCover (nm : Bool) (s : State) : Prop := ∀ b ∈ s.bs, MergeFree nm b

def NoMerge : Op → Prop
  | .merge _ _ => False
  | _ => True

theorem Cover_nil {nm : Bool} {b : Backoffer} (h : b.sleepMS = []) (ht : b.tainted = false) : MergeFree nm b := by
  refine ⟨?_, fun _ => ht⟩
  intro p hp; rw [h] at hp; simp at hp

theorem step_SCover {nm : Bool} {s : State} (h : SCover nm s) (op : Op) (hop : nm = true → NoMerge op) :
    SCover nm (step s op).1 := by
  have push : ∀ {x : Backoffer}, MergeFree nm x → SCover nm (s.push x) := by
    intro x hx b hb
    rcases mem_push hb with hb | hb
    · exact h b hb
    · subst hb; exact hx
  have set : ∀ {i : Nat} {x : Backoffer}, MergeFree nm x → SCover nm (s.setB i x) := by
    intro i x hx b hb
    rcases mem_setB hb with hb | hb
    · exact h b hb
    · subst hb; exact hx
  cases op with
  | newPlain n => exact push (Cover_nil rfl rfl)
  | newNil n =>
    simp only [step]
    split
    · rename_i b hb; exact push (Cover_nil (by rw [applyWeight_eq hb]; rfl) (by rw [applyWeight_eq hb]; rfl))
    · exact h
  | newVars n lf w =>
    simp only [step]
    split
    · rename_i b hb; exact push (Cover_nil (by rw [applyWeight_eq hb]; rfl) (by rw [applyWeight_eq hb]; rfl))
    · exact h
  | newNoop => exact push (Cover_nil rfl rfl)
  | backoff id cfg m sl e =>
    simp only [step]
    split
    · rename_i b hb
      have hbm := (live_some hb).2.2
      rcases backoff_cases s id b cfg m sl e with ⟨h1, _⟩ | ⟨f, _, _, ho, hf, ha, h1, _⟩
      · rw [h1]; exact h
      · rw [h1]; exact set (Cover_sleptB (h b hbm))
    · exact h
  | clone id =>
    simp only [step]
    split
    · rename_i b hb; exact push (h b (live_some hb).2.2)
    · exact h
  | fork id =>
    simp only [step]
    split
    · rename_i b hb; exact push (h b (live_some hb).2.2)
    · exact h
  | merge t f =>
    cases nm with
    | true => exact (hop rfl).elim
    | false =>
      simp only [step]
      split
      · rename_i b fb hb hfb
        have hfc := (h fb (live_some hfb).2.2).1
        split
        · intro x hx
          rcases mem_setB hx with hx | hx
          · rcases mem_setB hx with hx | hx
            · exact h x hx
            · subst hx; exact ⟨hfc, fun hh => by cases hh⟩
          · subst hx; exact ⟨hfc, fun hh => by cases hh⟩
        · exact h
      · exact h
  | reset id =>
    simp only [step]
    split
    · rename_i b hb; exact set ⟨(h b (live_some hb).2.2).1, fun _ => rfl⟩
    · exact h
  | resetMaxSleep id n =>
    simp only [step]
    split
    · rename_i b hb
      split
      · rename_i b' hb'
        refine set ?_
        rw [applyWeight_eq hb']
        exact ⟨(h b (live_some hb).2.2).1, fun _ => rfl⟩
      · exact h
    · exact h
  | cancel tok =>
    simp only [step]
    split
    · split <;> exact h
    · exact h
  | kill id sig =>
    simp only [step]
    split
    · split
      · split <;> exact h
      · exact h
    · exact h

theorem run_SCover {nm : Bool} (ops : List Op) {s : State} (h : SCover nm s) (hops : nm = true → ∀ op ∈ ops, NoMerge op) :
    SCover nm (run s ops) := by
  induction ops generalizing s with
  | nil => exact h
  | cons op r ih =>
    simp only [run, List.foldl_cons]
    exact ih (step_SCover h op (fun hn => hops hn op (by simp))) (fun hn o ho => hops hn o (by simp [ho]))

/-! ## parent chains -/

/-- `t` is reached by the loop `for bo := par; bo != nil; bo = bo.parent` -/
inductive AncP (bs : List Backoffer) (t : Nat) : Option Nat → Prop
  | here : AncP bs t (some t)
  | up {p : Nat} {b : Backoffer} : bs[p]? = some b → AncP bs t b.parent → AncP bs t (some p)

/-- parents are older than their children -/
def WF (bs : List Backoffer) : Prop := ∀ (i : Nat) (b : Backoffer) (p : Nat), bs[i]? = some b → b.parent = some p → p < i

theorem ancestors_sound {bs : List Backoffer} {t : Nat} (fuel : Nat) (par : Option Nat)
    (h : t ∈ ancestors bs fuel par) : AncP bs t par := by
  induction fuel generalizing par with
  | zero => simp [ancestors] at h
  | succ k ih =>
    cases par with
    | none => simp [ancestors] at h
    | some p =>
      simp only [ancestors, List.mem_cons] at h
      rcases h with h | h
      · subst h; exact .here
      · cases hb : bs[p]? with
        | none => rw [hb] at h; cases k <;> simp [ancestors] at h
        | some b => rw [hb] at h; exact .up hb (ih _ h)

theorem ancestors_complete {bs : List Backoffer} {t : Nat} (hwf : WF bs) {par : Option Nat} (h : AncP bs t par) :
    ∀ fuel, (∀ p, par = some p → p < fuel) → t ∈ ancestors bs fuel par := by
  induction h with
  | here =>
    intro fuel hf
    have := hf t rfl
    cases fuel with
    | zero => omega
    | succ k => simp [ancestors]
  | @up p b hb _ ih =>
    intro fuel hf
    have := hf p rfl
    cases fuel with
    | zero => omega
    | succ k =>
      simp only [ancestors, List.mem_cons, hb]
      right
      apply ih
      intro q hq
      have := hwf p b q hb hq
      omega

/-- with well-founded parents the fuel `bs.length` is enough: `ancestors` decides the Go loop exactly -/
theorem ancestors_iff {bs : List Backoffer} (hwf : WF bs) {f : Nat} {fb : Backoffer} (hf : bs[f]? = some fb) (t : Nat) :
    (ancestors bs bs.length fb.parent).contains t = true ↔ AncP bs t fb.parent := by
  simp only [List.contains_eq_mem, decide_eq_true_eq]
  constructor
  · exact ancestors_sound _ _
  · intro h
    apply ancestors_complete hwf h
    intro p hp
    have := hwf f fb p hf hp
    have : f < bs.length := by
      have := List.getElem?_eq_some_iff.1 hf
      exact this.1
    omega

theorem WF_push {bs : List Backoffer} {x : Backoffer} (h : WF bs) (hx : ∀ p, x.parent = some p → p < bs.length) :
    WF (bs ++ [x]) := by
  intro i b p hb hp
  by_cases hi : i < bs.length
  · rw [List.getElem?_append_left hi] at hb; exact h i b p hb hp
  · have hi' : bs.length ≤ i := by omega
    rw [List.getElem?_append_right hi'] at hb
    have : i - bs.length = 0 := by
      cases hk : i - bs.length with
      | zero => rfl
      | succ k => rw [hk] at hb; simp at hb
    rw [this] at hb
    simp at hb
    subst hb
    have := hx p hp
    omega

theorem WF_set {bs : List Backoffer} {i : Nat} {x b0 : Backoffer} (h : WF bs) (h0 : bs[i]? = some b0)
    (hx : x.parent = b0.parent) : WF (bs.set i x) := by
  intro j b p hb hp
  rw [List.getElem?_set] at hb
  split at hb
  · rename_i hij
    split at hb
    · injection hb with hb; subst hb; subst hij; rw [hx] at hp; exact h i b0 p h0 hp
    · contradiction
  · exact h j b p hb hp

theorem WF_set' {bs : List Backoffer} {i : Nat} {x : Backoffer} (h : WF bs)
    (hx : ∀ b0, bs[i]? = some b0 → x.parent = b0.parent) : WF (bs.set i x) := by
  cases h0 : bs[i]? with
  | none =>
    have : bs.length ≤ i := by simpa using h0
    rw [List.set_eq_of_length_le this]; exact h
  | some b0 => exact WF_set h h0 (hx b0 h0)

theorem live_lt {s : State} {id : Nat} {b : Backoffer} (h : s.live id = some b) : id < s.bs.length :=
  (List.getElem?_eq_some_iff.1 (live_some h).1).1

theorem step_WF {s : State} (h : WF s.bs) (op : Op) : WF (step s op).1.bs := by
  cases op with
  | newPlain n => exact WF_push h (by intro p hp; simp [newBackoffer] at hp)
  | newNil n =>
    simp only [step]
    split
    · rename_i b hb
      exact WF_push h (by intro p hp; rw [applyWeight_eq hb] at hp; simp [newBackoffer] at hp)
    · exact h
  | newVars n lf w =>
    simp only [step]
    split
    · rename_i b hb
      exact WF_push h (by intro p hp; rw [applyWeight_eq hb] at hp; simp [newBackoffer] at hp)
    · exact h
  | newNoop => exact WF_push h (by intro p hp; simp [newBackoffer] at hp)
  | backoff id cfg m sl e =>
    simp only [step]
    split
    · rename_i b hb
      rcases backoff_cases s id b cfg m sl e with ⟨h1, _⟩ | ⟨f, _, _, _, _, _, h1, _⟩
      · rw [h1]; exact h
      · rw [h1]; exact WF_set h (live_some hb).1 rfl
    · exact h
  | clone id =>
    simp only [step]
    split
    · rename_i b hb
      refine WF_push h ?_
      intro p hp
      have := h id b p (live_some hb).1 hp
      have := live_lt hb
      omega
    · exact h
  | fork id =>
    simp only [step]
    split
    · rename_i b hb
      refine WF_push h ?_
      intro p hp
      have := live_lt hb
      simp only [Option.some.injEq] at hp
      omega
    · exact h
  | merge t f =>
    simp only [step]
    split
    · rename_i b fb hb hfb
      split
      · refine WF_set' (WF_set h (live_some hb).1 rfl) ?_
        intro b0 hb0
        simp only [State.setB] at hb0
        rw [List.getElem?_set] at hb0
        split at hb0
        · rename_i htf
          subst htf
          have hbf : some fb = some b := by rw [← hfb, ← hb]
          injection hbf with hbf
          subst hbf
          split at hb0
          · injection hb0 with hb0; subst hb0; rfl
          · contradiction
        · rw [(live_some hfb).1] at hb0
          injection hb0 with hb0; subst hb0; rfl
      · exact h
    · exact h
  | reset id =>
    simp only [step]
    split
    · rename_i b hb; exact WF_set h (live_some hb).1 rfl
    · exact h
  | resetMaxSleep id n =>
    simp only [step]
    split
    · rename_i b hb
      split
      · rename_i b' hb'
        refine WF_set h (live_some hb).1 ?_
        rw [applyWeight_eq hb']
        rfl
      · exact h
    · exact h
  | cancel tok =>
    simp only [step]
    split
    · split <;> exact h
    · exact h
  | kill id sig =>
    simp only [step]
    split
    · split
      · split <;> exact h
      · exact h
    · exact h

theorem run_WF (ops : List Op) {s : State} (h : WF s.bs) : WF (run s ops).bs := by
  induction ops generalizing s with
  | nil => exact h
  | cons op r ih => simp only [run, List.foldl_cons]; exact ih (step_WF h op)

theorem WF_init : WF init.bs := by intro i b p hb; simp [init] at hb

/-! ## contexts never change and cancellation is permanent -/

def CtxExt (s s' : State) : Prop :=
  (∀ (id : Nat) (b : Backoffer), s.bs[id]? = some b → ∃ b', s'.bs[id]? = some b' ∧ b'.ctx = b.ctx) ∧
  (∀ t, t ∈ s.cancelled → t ∈ s'.cancelled)

theorem CtxExt.refl (s : State) : CtxExt s s := ⟨fun _ b h => ⟨b, h, rfl⟩, fun _ h => h⟩

theorem CtxExt.trans {a b c : State} (h1 : CtxExt a b) (h2 : CtxExt b c) : CtxExt a c := by
  refine ⟨?_, fun t h => h2.2 t (h1.2 t h)⟩
  intro id x hx
  obtain ⟨y, hy, hyc⟩ := h1.1 id x hx
  obtain ⟨z, hz, hzc⟩ := h2.1 id y hy
  exact ⟨z, hz, by rw [hzc, hyc]⟩

theorem CtxExt_push (s : State) (x : Backoffer) : CtxExt s (s.push x) := by
  refine ⟨?_, fun _ h => h⟩
  intro id b hb
  refine ⟨b, ?_, rfl⟩
  have : id < s.bs.length := (List.getElem?_eq_some_iff.1 hb).1
  simp only [State.push]
  rw [List.getElem?_append_left this]; exact hb

theorem CtxExt_setB (s : State) (i : Nat) (x : Backoffer) (hx : ∀ b0, s.bs[i]? = some b0 → x.ctx = b0.ctx) :
    CtxExt s (s.setB i x) := by
  refine ⟨?_, fun _ h => h⟩
  intro id b hb
  simp only [State.setB]
  rw [List.getElem?_set]
  split
  · rename_i hij
    subst hij
    have : i < s.bs.length := (List.getElem?_eq_some_iff.1 hb).1
    simp only [this, if_true]
    exact ⟨x, rfl, hx b hb⟩
  · exact ⟨b, hb, rfl⟩

theorem step_CtxExt (s : State) (op : Op) : CtxExt s (step s op).1 := by
  cases op with
  | newPlain n => exact CtxExt_push _ _
  | newNil n => simp only [step]; split <;> first | exact CtxExt_push _ _ | exact CtxExt.refl _
  | newVars n lf w => simp only [step]; split <;> first | exact CtxExt_push _ _ | exact CtxExt.refl _
  | newNoop => exact CtxExt_push _ _
  | backoff id cfg m sl e =>
    simp only [step]
    split
    · rename_i b hb
      rcases backoff_cases s id b cfg m sl e with ⟨h1, _⟩ | ⟨f, _, _, _, _, _, h1, _⟩
      · rw [h1]; exact CtxExt.refl _
      · rw [h1]
        refine CtxExt_setB _ _ _ ?_
        intro b0 hb0
        rw [(live_some hb).1] at hb0
        injection hb0 with hb0; subst hb0; rfl
    · exact CtxExt.refl _
  | clone id => simp only [step]; split <;> first | exact CtxExt_push _ _ | exact CtxExt.refl _
  | fork id => simp only [step]; split <;> first | exact CtxExt_push _ _ | exact CtxExt.refl _
  | merge t f =>
    simp only [step]
    split
    · rename_i b fb hb hfb
      split
      · refine CtxExt.trans (CtxExt_setB s t _ ?_) (CtxExt_setB _ f _ ?_)
        · intro b0 hb0
          rw [(live_some hb).1] at hb0
          injection hb0 with hb0; subst hb0; rfl
        · intro b0 hb0
          simp only [State.setB] at hb0
          rw [List.getElem?_set] at hb0
          split at hb0
          · rename_i htf
            subst htf
            have hbf : some fb = some b := by rw [← hfb, ← hb]
            injection hbf with hbf
            subst hbf
            split at hb0
            · injection hb0 with hb0; subst hb0; rfl
            · contradiction
          · rw [(live_some hfb).1] at hb0
            injection hb0 with hb0; subst hb0; rfl
      · exact CtxExt.refl _
    · exact CtxExt.refl _
  | reset id =>
    simp only [step]
    split
    · rename_i b hb
      refine CtxExt_setB _ _ _ ?_
      intro b0 hb0
      rw [(live_some hb).1] at hb0
      injection hb0 with hb0; subst hb0; rfl
    · exact CtxExt.refl _
  | resetMaxSleep id n =>
    simp only [step]
    split
    · rename_i b hb
      split
      · rename_i b' hb'
        refine CtxExt_setB _ _ _ ?_
        intro b0 hb0
        rw [(live_some hb).1] at hb0
        injection hb0 with hb0; subst hb0
        rw [applyWeight_eq hb']; rfl
      · exact CtxExt.refl _
    · exact CtxExt.refl _
  | cancel tok =>
    simp only [step]
    split
    · split
      · exact ⟨fun _ b h => ⟨b, h, rfl⟩, fun t h => List.mem_cons_of_mem _ h⟩
      · exact CtxExt.refl _
    · exact CtxExt.refl _
  | kill id sig =>
    simp only [step]
    split
    · split
      · split
        · exact ⟨fun _ b h => ⟨b, h, rfl⟩, fun _ h => h⟩
        · exact CtxExt.refl _
      · exact CtxExt.refl _
    · exact CtxExt.refl _

theorem run_CtxExt (ops : List Op) (s : State) : CtxExt s (run s ops) := by
  induction ops generalizing s with
  | nil => exact CtxExt.refl _
  | cons op r ih => simp only [run, List.foldl_cons]; exact CtxExt.trans (step_CtxExt s op) (ih _)

theorem isDone_mono {s s' : State} {b b' : Backoffer} (hc : b'.ctx = b.ctx)
    (hs : ∀ t, t ∈ s.cancelled → t ∈ s'.cancelled) (h : isDone s b = true) : isDone s' b' = true := by
  simp only [isDone, List.any_eq_true, List.contains_eq_mem, decide_eq_true_eq] at h ⊢
  obtain ⟨t, ht, hm⟩ := h
  exact ⟨t, by rw [hc]; exact ht, hs t hm⟩

/-! ## a sleeping call, spelled out -/

theorem slept_spec {s s' : State} {id : Nat} {b : Backoffer} {cfg : Config} {m sl : Int} {e : String}
    {real base : Int} {att : Nat}
    (h : backoff s id b cfg m sl e = (s', .slept real base att) ∨
         ∃ sig, backoff s id b cfg m sl e = (s', .killedAfter sig real base att)) :
    ∃ f, effFn b cfg = some f ∧ sleepAllowed f sl = true ∧ isDone s b = false ∧ b.noop = false ∧
      overBudget b cfg.name = false ∧ s' = s.setB id (sleptB b cfg f m sl) ∧
      real = realSleep m sl ∧ base = f.base ∧ att = f.attempts := by
  have h1 : (backoff s id b cfg m sl e).1 = s' := by rcases h with h | ⟨_, h⟩ <;> rw [h]
  have h2 : (backoff s id b cfg m sl e).2 = .slept real base att ∨
      ∃ sig, (backoff s id b cfg m sl e).2 = .killedAfter sig real base att := by
    rcases h with h | ⟨sig, h⟩
    · left; rw [h]
    · right; exact ⟨sig, by rw [h]⟩
  rcases backoff_cases s id b cfg m sl e with ⟨_, hc⟩ | ⟨f, hd, hn, ho, hf, ha, hs, hc⟩
  · exfalso
    rcases hc with ⟨hc, _⟩ | ⟨hc, _⟩ | ⟨hc, _⟩ | ⟨hc, _⟩
    · rcases h2 with h2 | ⟨_, h2⟩ <;> (rw [hc] at h2; contradiction)
    · rcases h2 with h2 | ⟨_, h2⟩ <;> (rw [hc] at h2; contradiction)
    · rcases hc with ⟨hc, _⟩ | hc <;> rcases h2 with h2 | ⟨_, h2⟩ <;> (rw [hc] at h2; contradiction)
    · rcases hc with hc | hc <;> rcases h2 with h2 | ⟨_, h2⟩ <;> (rw [hc] at h2; contradiction)
  · refine ⟨f, hf, ha, hd, hn, ho, by rw [← h1, hs], ?_⟩
    rcases hc with ⟨hc, _⟩ | ⟨sig, hc, _⟩ <;> rcases h2 with h2 | ⟨sig', h2⟩ <;> rw [hc] at h2 <;>
      first | contradiction | (simp only [Out.slept.injEq, Out.killedAfter.injEq] at h2; omega)

theorem effFn_fresh {b : Backoffer} {cfg : Config} {f : Fn} (h : effFn b cfg = some f)
    (hn : fnLookup b.fns cfg.name = none) : f.cap = cfg.cap ∧ f.jitter = cfg.jitter ∧ f.attempts = 0 := by
  unfold effFn at h
  rw [hn] at h
  simp only at h
  split at h
  · split at h
    · injection h with h; subst h; simp [mkFn]
    · contradiction
  · injection h with h; subst h; simp [mkFn]

theorem table_cap_le {c : Config} (h : c ∈ table) : c.cap ≤ tableMaxCap := by
  have key : ∀ (l : List Config) (a : Int), a ≤ l.foldl (fun a c => max a c.cap) a ∧
      ∀ c ∈ l, c.cap ≤ l.foldl (fun a c => max a c.cap) a := by
    intro l
    induction l with
    | nil => intro a; simp
    | cons q r ih =>
      intro a
      simp only [List.foldl_cons]
      have := ih (max a q.cap)
      refine ⟨by omega, ?_⟩
      intro p hp
      rcases List.mem_cons.1 hp with h | h
      · subst h; omega
      · exact this.2 p h
  exact (key table 0).2 c h

theorem tableMaxCap_nonneg : 0 ≤ tableMaxCap := by
  have key : ∀ (l : List Config) (a : Int), a ≤ l.foldl (fun a c => max a c.cap) a := by
    intro l
    induction l with
    | nil => intro a; simp
    | cons q r ih => intro a; simp only [List.foldl_cons]; have := ih (max a q.cap); omega
  exact key table 0

end CGV.Backoff
