import ClientGoVerif.Model.Bytes
namespace CGV
open Bytes

theorem Bytes.cmp_self (a : Bytes) : Bytes.cmp a a = .eq := by
  induction a with
  | nil => rfl
  | cons x xs ih => simp [Bytes.cmp, ih, UInt8.lt_irrefl]

theorem Bytes.cmp_eq_iff (a b : Bytes) : Bytes.cmp a b = .eq ↔ a = b := by
  induction a generalizing b with
  | nil => cases b <;> simp [Bytes.cmp]
  | cons x xs ih =>
    cases b with
    | nil => simp [Bytes.cmp]
    | cons y ys =>
      simp only [Bytes.cmp]
      split
      · rename_i h; simp; intro h'; subst h'; exact absurd h (UInt8.lt_irrefl _)
      · split
        · rename_i h; simp; intro h'; subst h'; exact absurd h (UInt8.lt_irrefl _)
        · rename_i h1 h2
          have : x = y := UInt8.le_antisymm (UInt8.not_lt.mp h2) (UInt8.not_lt.mp h1)
          subst this; simp [ih]

theorem Bytes.cmp_swap (a b : Bytes) : (Bytes.cmp a b).swap = Bytes.cmp b a := by
  induction a generalizing b with
  | nil => cases b <;> rfl
  | cons x xs ih =>
    cases b with
    | nil => rfl
    | cons y ys =>
      simp only [Bytes.cmp]
      by_cases h1 : x < y
      · have : ¬ y < x := UInt8.not_lt.mpr (UInt8.le_of_lt h1)
        simp [h1, this]
      · by_cases h2 : y < x
        · simp [h1, h2]
        · simp [h1, h2, ih]

/-- comparing after a common prefix -/
theorem Bytes.cmp_append_left (p a b : Bytes) : Bytes.cmp (p ++ a) (p ++ b) = Bytes.cmp a b := by
  induction p with
  | nil => rfl
  | cons x xs ih => simp [Bytes.cmp, UInt8.lt_irrefl, ih]

/-- if equal-length heads differ, the tails are irrelevant -/
theorem Bytes.cmp_append_of_ne (a b s t : Bytes) (hl : a.length = b.length) (hne : Bytes.cmp a b ≠ .eq) :
    Bytes.cmp (a ++ s) (b ++ t) = Bytes.cmp a b := by
  induction a generalizing b with
  | nil => cases b <;> simp_all [Bytes.cmp]
  | cons x xs ih =>
    cases b with
    | nil => simp at hl
    | cons y ys =>
      simp only [List.cons_append, Bytes.cmp] at *
      split
      · rfl
      · split
        · rfl
        · rename_i h1 h2
          simp only [h1, h2, if_false] at hne
          exact ih ys (by simpa using hl) hne

theorem Bytes.cmp_append_of_eq (a s t : Bytes) : Bytes.cmp (a ++ s) (a ++ t) = Bytes.cmp s t :=
  Bytes.cmp_append_left a s t

theorem Bytes.isPrefix_iff (a b : Bytes) : Bytes.isPrefix a b = true ↔ ∃ s, b = a ++ s := by
  induction a generalizing b with
  | nil => simp [Bytes.isPrefix]
  | cons x xs ih =>
    cases b with
    | nil => simp [Bytes.isPrefix]
    | cons y ys =>
      simp only [Bytes.isPrefix, Bool.and_eq_true, beq_iff_eq, ih, List.cons_append, List.cons.injEq]
      constructor
      · rintro ⟨rfl, s, rfl⟩; exact ⟨s, rfl, rfl⟩
      · rintro ⟨s, rfl, rfl⟩; exact ⟨rfl, s, rfl⟩

end CGV

namespace CGV
/-- if two strings already differ (neither is a prefix of the other and they are unequal in the
    lexicographic sense *before either ends*), appending suffixes does not change the comparison.
    Stated for the case where the comparison of the heads is decided at a common position. -/
theorem cmp_append_of_ne_prefix (a b s t : Bytes) (h : Bytes.cmp a b ≠ .eq)
    (hp : ¬ (Bytes.isPrefix a b = true) ∧ ¬ (Bytes.isPrefix b a = true)) :
    Bytes.cmp (a ++ s) (b ++ t) = Bytes.cmp a b := by
  induction a generalizing b with
  | nil => simp [Bytes.isPrefix] at hp
  | cons x xs ih =>
    cases b with
    | nil => simp [Bytes.isPrefix] at hp
    | cons y ys =>
      simp only [List.cons_append, Bytes.cmp] at *
      by_cases h1 : x < y
      · simp [h1]
      · by_cases h2 : y < x
        · simp [h1, h2]
        · have hxy : x = y := UInt8.le_antisymm (UInt8.not_lt.mp h2) (UInt8.not_lt.mp h1)
          subst hxy
          simp only [h1, if_false] at h ⊢
          simp only [Bytes.isPrefix, beq_self_eq_true, Bool.true_and] at hp
          exact ih ys h hp
end CGV
