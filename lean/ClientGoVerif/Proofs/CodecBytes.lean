import ClientGoVerif.Model.Codec
import ClientGoVerif.Proofs.Bytes
namespace CGV.Codec
open CGV

theorem encodeBytes_lt (d : Bytes) (h : d.length < 8) :
    encodeBytes d = d ++ List.replicate (8 - d.length) 0 ++ [UInt8.ofNat (255 - (8 - d.length))] := by
  rw [encodeBytes]; simp [Nat.not_le.mpr h, Gen.encMarker, Gen.encPad]

theorem encodeBytes_ge (d : Bytes) (h : d.length ≥ 8) :
    encodeBytes d = d.take 8 ++ [255] ++ encodeBytes (d.drop 8) := by
  rw [encodeBytes]; simp [h, Gen.encMarker]

/-- one iteration of the decode loop on a full 9-byte group `g ++ [m]` (forward direction) -/
theorem decodeAux_group (g : Bytes) (m : UInt8) (tail acc : Bytes) (hg : g.length = 8) :
    decodeBytesAux false (g ++ m :: tail) acc =
      if 255 - m.toNat > 8 then .error .invalid
      else if 255 - m.toNat ≠ 0 then
        (if (g.drop (8 - (255 - m.toNat))).all (· == 0) then .ok (acc ++ g.take (8 - (255 - m.toNat)), tail)
         else .error .invalid)
      else decodeBytesAux false tail (acc ++ g) := by
  rw [decodeBytesAux]
  have hlen : ¬ (g ++ m :: tail).length < 9 := by simp; omega
  have hget : (g ++ m :: tail).getD 8 0 = m := by
    simp [List.getD, hg]
  have htake : (g ++ m :: tail).take 8 = g := by simp [hg]
  have hdrop : (g ++ m :: tail).drop 9 = tail := by
    have : g ++ m :: tail = (g ++ [m]) ++ tail := by simp
    rw [this, List.drop_append_of_le_length (by simp; omega)]
    have : (g ++ [m]).length = 9 := by simp; omega
    simp [List.drop_eq_nil_of_le, this]
  simp only [hlen, dite_false, hget, htake, hdrop, Gen.encMarker, Gen.encPad]
  simp only [Bool.false_eq_true, if_false]
  split
  · rfl
  · split
    · rfl
    · rename_i h1 h2
      have : 255 - m.toNat = 0 := by omega
      simp [this, ← hg]

theorem decodeAux_short (b acc : Bytes) (h : b.length < 9) (rev : Bool) :
    decodeBytesAux rev b acc = .error .insufficient := by
  rw [decodeBytesAux]; simp [h]

theorem decodeAux_encode (d rest acc : Bytes) :
    decodeBytesAux false (encodeBytes d ++ rest) acc = .ok (acc ++ d, rest) := by
  induction hn : d.length using Nat.strongRecOn generalizing d acc with
  | _ n ih =>
    by_cases h : d.length ≥ 8
    · rw [encodeBytes_ge d h]
      have h8 : (d.take 8).length = 8 := by simp; omega
      have : List.take 8 d ++ [255] ++ encodeBytes (List.drop 8 d) ++ rest
          = List.take 8 d ++ 255 :: (encodeBytes (List.drop 8 d) ++ rest) := by simp
      rw [this, decodeAux_group _ _ _ _ h8]
      have : (255 : UInt8).toNat = 255 := rfl
      simp only [this, Nat.sub_self, gt_iff_lt, Nat.not_lt_zero, if_false, ne_eq, not_true_eq_false]
      rw [ih (d.drop 8).length (by simp; omega) (d.drop 8) _ rfl]
      simp
    · have h' : d.length < 8 := Nat.not_le.mp h
      rw [encodeBytes_lt d h']
      have hg : (d ++ List.replicate (8 - d.length) (0 : UInt8)).length = 8 := by simp; omega
      have : d ++ List.replicate (8 - d.length) 0 ++ [UInt8.ofNat (255 - (8 - d.length))] ++ rest
          = (d ++ List.replicate (8 - d.length) 0) ++ UInt8.ofNat (255 - (8 - d.length)) :: rest := by simp
      rw [this, decodeAux_group _ _ _ _ hg]
      have hm : (UInt8.ofNat (255 - (8 - d.length))).toNat = 255 - (8 - d.length) := by
        simp [UInt8.toNat_ofNat']; omega
      have hp : 255 - (255 - (8 - d.length)) = 8 - d.length := by omega
      simp only [hm, hp]
      have h1 : ¬ (8 - d.length > 8) := by omega
      have h2 : 8 - d.length ≠ 0 := by omega
      have h3 : 8 - (8 - d.length) = d.length := by omega
      simp only [h1, h2, h3, if_false, ne_eq, not_false_eq_true, if_true]
      simp

theorem decode_encode_bytes (d rest : Bytes) : decodeBytes (encodeBytes d ++ rest) = .ok (d, rest) := by
  simpa [decodeBytes] using decodeAux_encode d rest []

end CGV.Codec

namespace CGV.Codec
open CGV

/-! ### soundness of the decoder: whatever it accepts is an encoding -/

theorem all_zero_eq_replicate (l : Bytes) (h : l.all (· == 0) = true) : l = List.replicate l.length 0 := by
  induction l with
  | nil => rfl
  | cons x xs ih =>
    simp only [List.all_cons, Bool.and_eq_true, beq_iff_eq] at h
    simp [List.replicate_succ, h.1, ← ih h.2]

theorem decodeAux_sound (b acc v r : Bytes) (h : decodeBytesAux false b acc = .ok (v, r)) :
    ∃ d, v = acc ++ d ∧ encodeBytes d ++ r = b := by
  induction hn : b.length using Nat.strongRecOn generalizing b acc with
  | _ n ih =>
    by_cases hl : b.length < 9
    · rw [decodeAux_short b acc hl] at h; cases h
    · have hb : b = b.take 8 ++ (b.getD 8 0) :: b.drop 9 := by
        have h1 : b = b.take 8 ++ b.drop 8 := (List.take_append_drop 8 b).symm
        have h2 : b.drop 8 = b.getD 8 0 :: b.drop 9 := by
          have : 8 < b.length := by omega
          rw [List.drop_eq_getElem_cons this]
          simp [List.getD, List.getElem?_eq_getElem this]
        rw [h2] at h1; exact h1
      have hg : (b.take 8).length = 8 := by simp; omega
      rw [hb, decodeAux_group _ _ _ _ hg] at h
      generalize hm : (b.getD 8 0) = m at h hb
      generalize hgg : b.take 8 = g at h hb hg
      generalize htt : b.drop 9 = tail at h hb
      split at h
      · cases h
      · rename_i hp8
        split at h
        · rename_i hp0
          split at h
          · rename_i hz
            cases h
            refine ⟨g.take (8 - (255 - m.toNat)), rfl, ?_⟩
            have hlt : (g.take (8 - (255 - m.toNat))).length < 8 := by simp; omega
            rw [encodeBytes_lt _ hlt, hb]
            have hlen : (g.take (8 - (255 - m.toNat))).length = 8 - (255 - m.toNat) := by simp; omega
            have hz' := all_zero_eq_replicate _ hz
            have hdl : (g.drop (8 - (255 - m.toNat))).length = 255 - m.toNat := by simp; omega
            rw [hdl] at hz'
            have hmm : UInt8.ofNat (255 - (8 - (8 - (255 - m.toNat)))) = m := by
              apply UInt8.toNat_inj.mp
              have := m.toNat_lt
              simp [UInt8.toNat_ofNat']; omega
            rw [hlen]
            have h88 : 8 - (8 - (255 - m.toNat)) = 255 - m.toNat := by omega
            rw [h88] at hmm ⊢
            rw [← hz', hmm]
            simp [List.take_append_drop]
          · cases h
        · rename_i hp0
          have hm255 : m = 255 := by
            apply UInt8.toNat_inj.mp
            have := m.toNat_lt
            have : (255 : UInt8).toNat = 255 := rfl
            omega
          obtain ⟨d', hv, he⟩ := ih tail.length (by rw [← hn, hb]; simp; omega) tail (acc ++ g) h rfl
          refine ⟨g ++ d', by simp [hv], ?_⟩
          rw [encodeBytes_ge _ (by simp; omega), hb, hm255]
          simp [hg, ← he]

theorem decode_sound_bytes (b v r : Bytes) (h : decodeBytes b = .ok (v, r)) : encodeBytes v ++ r = b := by
  obtain ⟨d, hv, he⟩ := decodeAux_sound b [] v r h
  simp at hv; subst hv; exact he

end CGV.Codec

namespace CGV.Codec
open CGV

/-! ### order: `encG i x` = encoding of the remainder `x` when `i` bytes of the current group are out -/

def encG : Nat → Bytes → Bytes
  | i, [] => if i ≥ 8 then 255 :: (List.replicate 8 0 ++ [247]) else List.replicate (8 - i) 0 ++ [UInt8.ofNat (247 + i)]
  | i, c :: cs => if i ≥ 8 then 255 :: c :: encG 1 cs else c :: encG (i + 1) cs

theorem encG_eight (y : Bytes) : encG 8 y = 255 :: encG 0 y := by
  cases y <;> simp [encG]

theorem encG_append (i : Nat) (p q : Bytes) (h : i + p.length ≤ 8) : encG i (p ++ q) = p ++ encG (i + p.length) q := by
  induction p generalizing i with
  | nil => simp
  | cons x xs ih =>
    simp only [List.length_cons] at h
    have : ¬ i ≥ 8 := by omega
    simp only [List.cons_append, encG, this, if_false, List.length_cons]
    rw [ih (i + 1) (by omega)]
    have : i + 1 + xs.length = i + (xs.length + 1) := by omega
    rw [this]

theorem encodeBytes_eq_encG (d : Bytes) : encodeBytes d = encG 0 d := by
  induction hn : d.length using Nat.strongRecOn generalizing d with
  | _ n ih =>
    by_cases h : d.length ≥ 8
    · rw [encodeBytes_ge d h, ih _ (by simp; omega) (d.drop 8) rfl]
      conv => rhs; rw [← List.take_append_drop 8 d]
      rw [encG_append 0 _ _ (by simp; omega)]
      have : (List.take 8 d).length = 8 := by simp; omega
      simp [this, encG_eight]
    · have h' : d.length < 8 := Nat.not_le.mp h
      rw [encodeBytes_lt d h']
      have := encG_append 0 d [] (by simp; omega)
      simp only [List.append_nil, Nat.zero_add] at this
      rw [this]
      have hmk : 255 - (8 - d.length) = 247 + d.length := by omega
      simp only [encG, Nat.not_le.mpr h', if_false, hmk, Nat.zero_add, List.append_assoc]

/-- a padded tail with marker `M` sorts before any continuation whose marker will be larger -/
theorem pad_lt_encG (y : Bytes) (i : Nat) (M : UInt8) (hi : i ≤ 8) (hM : M.toNat ≤ 247 + i) (hM2 : M.toNat ≤ 254)
    (hy : M.toNat < 247 + i ∨ y ≠ []) :
    Bytes.cmp (List.replicate (8 - i) 0 ++ [M]) (encG i y) = .lt := by
  induction y generalizing i with
  | nil =>
    have hlt : M.toNat < 247 + i := by cases hy with | inl h => exact h | inr h => exact absurd rfl h
    by_cases h8 : i ≥ 8
    · have : i = 8 := by omega
      subst this
      have : M < 255 := UInt8.lt_iff_toNat_lt.mpr (by simp; omega)
      simp [encG, Bytes.cmp, this]
    · simp only [encG, h8, if_false]
      rw [Bytes.cmp_append_left]
      have : M < UInt8.ofNat (247 + i) := UInt8.lt_iff_toNat_lt.mpr (by simp [UInt8.toNat_ofNat']; omega)
      simp only [Bytes.cmp, this, if_true]
  | cons c cs ih =>
    by_cases h8 : i ≥ 8
    · have : i = 8 := by omega
      subst this
      have : M < 255 := UInt8.lt_iff_toNat_lt.mpr (by simp; omega)
      simp [encG, Bytes.cmp, this]
    · simp only [encG, h8, if_false]
      have : 8 - i = (8 - (i + 1)) + 1 := by omega
      rw [this, List.replicate_succ]
      simp only [List.cons_append, Bytes.cmp]
      by_cases hc : (0 : UInt8) < c
      · simp [hc]
      · have hc0 : ¬ c < 0 := by simp [UInt8.lt_iff_toNat_lt]
        simp only [hc, hc0, if_false]
        exact ih (i + 1) (by omega) (by omega) (Or.inl (by omega))

theorem encG_cmp (a b : Bytes) (i : Nat) (hi : i ≤ 8) : Bytes.cmp (encG i a) (encG i b) = Bytes.cmp a b := by
  induction a generalizing b i with
  | nil =>
    cases b with
    | nil => simp [Bytes.cmp_self, Bytes.cmp]
    | cons y ys =>
      by_cases h8 : i ≥ 8
      · have : i = 8 := by omega
        subst this
        rw [encG_eight, encG_eight]
        simp only [Bytes.cmp, UInt8.lt_irrefl, if_false]
        have := pad_lt_encG (y :: ys) 0 247 (by omega) (by decide) (by decide) (Or.inr (by simp))
        simpa [encG] using this
      · have := pad_lt_encG (y :: ys) i (UInt8.ofNat (247 + i)) hi (by simp [UInt8.toNat_ofNat']; omega)
          (by simp [UInt8.toNat_ofNat']; omega) (Or.inr (by simp))
        simpa [encG, h8, Bytes.cmp] using this
  | cons x xs ih =>
    cases b with
    | nil =>
      rw [← Bytes.cmp_swap]
      by_cases h8 : i ≥ 8
      · have : i = 8 := by omega
        subst this
        rw [encG_eight, encG_eight]
        simp only [Bytes.cmp, UInt8.lt_irrefl, if_false]
        have := pad_lt_encG (x :: xs) 0 247 (by omega) (by decide) (by decide) (Or.inr (by simp))
        have h2 : Bytes.cmp (encG 0 []) (encG 0 (x :: xs)) = .lt := by simpa [encG] using this
        simp [h2, Bytes.cmp]
      · have := pad_lt_encG (x :: xs) i (UInt8.ofNat (247 + i)) hi (by simp [UInt8.toNat_ofNat']; omega)
          (by simp [UInt8.toNat_ofNat']; omega) (Or.inr (by simp))
        have h2 : Bytes.cmp (encG i []) (encG i (x :: xs)) = .lt := by simpa [encG, h8] using this
        simp [h2, Bytes.cmp]
    | cons y ys =>
      by_cases h8 : i ≥ 8
      · simp only [encG, h8, if_true, Bytes.cmp, UInt8.lt_irrefl, if_false]
        rw [ih ys 1 (by omega)]
      · simp only [encG, h8, if_false, Bytes.cmp]
        rw [ih ys (i + 1) (by omega)]

theorem encodeBytes_cmp (a b : Bytes) : Bytes.cmp (encodeBytes a) (encodeBytes b) = Bytes.cmp a b := by
  rw [encodeBytes_eq_encG, encodeBytes_eq_encG, encG_cmp a b 0 (by omega)]

end CGV.Codec
