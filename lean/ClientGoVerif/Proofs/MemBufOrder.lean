/-
  C08 helper lemmas, part 9: the buffer as an ORDERED map — `Bytes.lt` is a strict total order, `sortItems` sorts, so every
  iterator answer is the in-range part of the map in strictly ascending (or descending) key order.
-/
import ClientGoVerif.Proofs.Bytes
import ClientGoVerif.Proofs.VLogView
namespace CGV.MemBuf
open CGV

/-! ## `Bytes.lt` is a strict total order -/

theorem blt_irrefl (a : Bytes) : Bytes.lt a a = false := by simp [Bytes.lt, Bytes.cmp_self]

theorem cmp_lt_trans : ∀ (a b c : Bytes), Bytes.cmp a b = .lt → Bytes.cmp b c = .lt → Bytes.cmp a c = .lt := by
  intro a
  induction a with
  | nil =>
    intro b c h1 h2
    cases b with
    | nil => simp [Bytes.cmp] at h1
    | cons y ys =>
      cases c with
      | nil => simp [Bytes.cmp] at h2
      | cons z zs => rfl
  | cons x xs ih =>
    intro b c h1 h2
    cases b with
    | nil => simp [Bytes.cmp] at h1
    | cons y ys =>
      cases c with
      | nil => simp [Bytes.cmp] at h2
      | cons z zs =>
        simp only [Bytes.cmp] at h1 h2 ⊢
        by_cases hxy : x < y
        · by_cases hyz : y < z
          · have : x < z := UInt8.lt_trans hxy hyz
            simp [this]
          · by_cases hzy : z < y
            · simp [hyz, hzy] at h2
            · have : y = z := UInt8.le_antisymm (UInt8.not_lt.mp hzy) (UInt8.not_lt.mp hyz)
              subst this; simp [hxy]
        · by_cases hyx : y < x
          · simp [hxy, hyx] at h1
          · have hxy' : x = y := UInt8.le_antisymm (UInt8.not_lt.mp hyx) (UInt8.not_lt.mp hxy)
            subst hxy'
            simp only [hxy, if_false] at h1
            by_cases hxz : x < z
            · simp [hxz]
            · by_cases hzx : z < x
              · simp [hxz, hzx] at h2
              · simp only [hxz, hzx, if_false] at h2 ⊢
                exact ih ys zs h1 h2

theorem blt_trans {a b c : Bytes} (h1 : Bytes.lt a b = true) (h2 : Bytes.lt b c = true) : Bytes.lt a c = true := by
  simp only [Bytes.lt, beq_iff_eq] at h1 h2 ⊢
  exact cmp_lt_trans a b c h1 h2

theorem blt_asymm {a b : Bytes} (h : Bytes.lt a b = true) : Bytes.lt b a = false := by
  simp only [Bytes.lt, beq_iff_eq] at h
  have := Bytes.cmp_swap a b
  rw [h] at this
  simp [Bytes.lt, ← this]

/-- totality: two different keys are ordered one way or the other -/
theorem blt_total {a b : Bytes} (hne : a ≠ b) (h : Bytes.lt a b = false) : Bytes.lt b a = true := by
  have hsw := Bytes.cmp_swap a b
  cases hc : Bytes.cmp a b with
  | lt => simp [Bytes.lt, hc] at h
  | eq => exact absurd ((Bytes.cmp_eq_iff a b).mp hc) hne
  | gt => rw [hc] at hsw; simp [Bytes.lt, ← hsw]

/-! ## insertion sort by key -/

def KeyLt (x y : Item) : Prop := Bytes.lt x.key y.key = true

theorem mem_insertItem (x z : Item) (l : List Item) : z ∈ insertItem x l ↔ z = x ∨ z ∈ l := by
  induction l with
  | nil => simp [insertItem]
  | cons y ys ih =>
    simp only [insertItem]
    split
    · simp
    · simp only [List.mem_cons, ih]
      constructor
      · rintro (h | h | h)
        · exact Or.inr (Or.inl h)
        · exact Or.inl h
        · exact Or.inr (Or.inr h)
      · rintro (h | h | h)
        · exact Or.inr (Or.inl h)
        · exact Or.inl h
        · exact Or.inr (Or.inr h)

theorem mem_sortItems (z : Item) (l : List Item) : z ∈ sortItems l ↔ z ∈ l := by
  induction l with
  | nil => simp [sortItems]
  | cons x xs ih => simp [sortItems, mem_insertItem, ih]

theorem insertItem_sorted (x : Item) (l : List Item) (hx : ∀ y ∈ l, y.key ≠ x.key) (hs : l.Pairwise KeyLt) :
    (insertItem x l).Pairwise KeyLt := by
  induction l with
  | nil => simp [insertItem]
  | cons y ys ih =>
    have hs' := List.pairwise_cons.mp hs
    simp only [insertItem]
    split
    · rename_i hlt
      rw [List.pairwise_cons]
      refine ⟨?_, hs⟩
      intro z hz
      rcases List.mem_cons.mp hz with h | h
      · subst h; exact hlt
      · exact blt_trans hlt (hs'.1 z h)
    · rename_i hlt
      rw [List.pairwise_cons]
      refine ⟨?_, ih (fun z hz => hx z (by simp [hz])) hs'.2⟩
      intro z hz
      rcases (mem_insertItem x z ys).mp hz with h | h
      · subst h
        exact blt_total (fun e => hx y (by simp) e.symm) (by simpa using hlt)
      · exact hs'.1 z h

theorem sortItems_sorted (l : List Item) (hnd : l.Pairwise (fun a b => a.key ≠ b.key)) : (sortItems l).Pairwise KeyLt := by
  induction l with
  | nil => simp [sortItems]
  | cons x xs ih =>
    have h' := List.pairwise_cons.mp hnd
    simp only [sortItems]
    apply insertItem_sorted
    · intro y hy
      have := (mem_sortItems y xs).mp hy
      exact fun e => h'.1 y this e.symm
    · exact ih h'.2

/-! ## what the iterators of the mechanism model yield -/

theorem nodes_pairwise_key {m : VLog} (hi : Inv m) : m.nodes.Pairwise (fun a b => a.key ≠ b.key) := by
  have := hi.nodup
  rw [List.Nodup, List.pairwise_map] at this
  exact this

theorem iterItems_pairwise {m : VLog} (hi : Inv m) (lo hi' : Bytes) (wf : Bool) :
    (m.iterItems lo hi' wf).Pairwise (fun a b => a.key ≠ b.key) := by
  simp only [VLog.iterItems]
  rw [List.pairwise_map]
  exact (nodes_pairwise_key hi).sublist (List.filter_sublist)

theorem snapItems_pairwise {m : VLog} (hi : Inv m) (lo hi' : Bytes) :
    (m.snapItems lo hi').Pairwise (fun a b => a.key ≠ b.key) := by
  simp only [VLog.snapItems]
  have h := nodes_pairwise_key hi
  generalize m.nodes = l at h
  induction l with
  | nil => simp
  | cons n tl ih =>
    have h' := List.pairwise_cons.mp h
    simp only [List.filterMap_cons]
    split
    · exact ih h'.2
    · rename_i it hit
      rw [List.pairwise_cons]
      refine ⟨?_, ih h'.2⟩
      intro b hb
      obtain ⟨n', hn', hb'⟩ := List.mem_filterMap.mp hb
      have hk1 : it.key = n.key := by
        split at hit
        · cases hg : VLog.getSnapshotValue m.log n.vptr m.snapCheckpoint with
          | none => rw [hg] at hit; simp at hit
          | some v => rw [hg] at hit; simp at hit; rw [← hit]
        · cases hit
      have hk2 : b.key = n'.key := by
        split at hb'
        · cases hg : VLog.getSnapshotValue m.log n'.vptr m.snapCheckpoint with
          | none => rw [hg] at hb'; simp at hb'
          | some v => rw [hg] at hb'; simp at hb'; rw [← hb']
        · cases hb'
      rw [hk1, hk2]
      exact h'.1 n' hn'

/-- forward iterators yield strictly ascending keys; reverse iterators the same list backwards -/
theorem iter_sorted {m : VLog} (hi : Inv m) (lo hi' : Bytes) (wf : Bool) :
    (ordered false (m.iterItems lo hi' wf)).Pairwise KeyLt ∧
    ordered true (m.iterItems lo hi' wf) = (ordered false (m.iterItems lo hi' wf)).reverse :=
  ⟨sortItems_sorted _ (iterItems_pairwise hi lo hi' wf), rfl⟩

theorem snapIter_sorted {m : VLog} (hi : Inv m) (lo hi' : Bytes) :
    (ordered false (m.snapItems lo hi')).Pairwise KeyLt ∧
    ordered true (m.snapItems lo hi') = (ordered false (m.snapItems lo hi')).reverse :=
  ⟨sortItems_sorted _ (snapItems_pairwise hi lo hi'), rfl⟩

theorem mem_ordered (rev : Bool) (z : Item) (l : List Item) : z ∈ ordered rev l ↔ z ∈ l := by
  cases rev <;> simp [ordered, mem_sortItems]

def valueOut (v : Option Bytes) : Out := match v with | some x => .val x | none => .notFound

/-- exactly the keys of the map that are in range (and have a value unless flag-only keys are asked for), with the flags
    `GetFlags` and the value `Get` report -/
theorem iter_mem {m : VLog} (hi : Inv m) (lo hi' : Bytes) (rev wf : Bool) (it : Item) :
    it ∈ ordered rev (m.iterItems lo hi' wf) ↔
      (inRange lo hi' it.key = true ∧ (m.step (.getFlags it.key)).2 = .flags it.flags ∧
        (m.step (.get it.key)).2 = valueOut it.value ∧ (wf = true ∨ it.value.isSome = true)) := by
  rw [mem_ordered]
  simp only [VLog.iterItems, List.mem_map, List.mem_filter]
  constructor
  · rintro ⟨n, ⟨hn, hp⟩, rfl⟩
    have hfind : m.findNode n.key = some n := find_unique m.nodes hi.nodup n hn
    simp only [Bool.and_eq_true, Bool.not_eq_true', Bool.or_eq_true, bne_iff_ne, ne_eq] at hp
    obtain ⟨⟨hd, hr⟩, hw⟩ := hp
    refine ⟨hr, ?_, ?_, ?_⟩
    · simp [VLog.step, VLog.itemOfNode, hfind, hd]
    · simp only [VLog.step, VLog.itemOfNode, hfind, VLog.nodeValue]
      by_cases h0 : n.vptr = 0 <;> simp [h0, valueOut]
    · rcases hw with h | h
      · exact Or.inl h
      · right; simp [VLog.itemOfNode, VLog.nodeValue, h]
  · rintro ⟨hr, hf, hg, hw⟩
    simp only [VLog.step] at hf hg
    cases hfind : m.findNode it.key with
    | none => rw [hfind] at hf; simp at hf
    | some n =>
      rw [hfind] at hf hg
      have hn : n ∈ m.nodes := List.mem_of_find?_eq_some hfind
      have hnk : n.key = it.key := by simpa using List.find?_some hfind
      have hd : n.deleted = false := by
        cases hd : n.deleted
        · rfl
        · simp [hd] at hf
      simp only [hd, Bool.false_eq_true, if_false, Out.flags.injEq] at hf
      refine ⟨n, ⟨hn, ?_⟩, ?_⟩
      · simp only [hd, Bool.not_false, Bool.true_and, hnk, hr, Bool.and_eq_true, Bool.or_eq_true, bne_iff_ne, ne_eq, true_and]
        rcases hw with h | h
        · exact Or.inl h
        · right
          intro h0
          simp only [h0, if_true] at hg
          cases hv : it.value with
          | none => rw [hv] at h; simp at h
          | some v => rw [hv] at hg; simp [valueOut] at hg
      · cases it with
        | mk k f v =>
          simp only [VLog.itemOfNode, VLog.nodeValue, Item.mk.injEq]
          refine ⟨hnk, hf, ?_⟩
          by_cases h0 : n.vptr = 0
          · simp only [h0, if_true] at hg ⊢
            cases v with
            | none => rfl
            | some x => simp [valueOut] at hg
          · simp only [h0, if_false] at hg ⊢
            cases v with
            | none => simp [valueOut] at hg
            | some x => simp only [valueOut, Out.val.injEq] at hg; rw [hg]

/-- the snapshot iterators: exactly the in-range keys for which the snapshot getter has a value, with that value -/
theorem snapIter_mem {m : VLog} (hi : Inv m) (lo hi' : Bytes) (rev : Bool) (it : Item) :
    it ∈ ordered rev (m.snapItems lo hi') ↔
      (inRange lo hi' it.key = true ∧ it.flags = 0 ∧ ∃ v, it.value = some v ∧ (m.step (.snapGet it.key)).2 = .val v) := by
  rw [mem_ordered]
  simp only [VLog.snapItems, List.mem_filterMap]
  constructor
  · rintro ⟨n, hn, hit⟩
    have hfind : m.findNode n.key = some n := find_unique m.nodes hi.nodup n hn
    split at hit
    · rename_i hc
      simp only [Bool.and_eq_true, Bool.not_eq_true'] at hc
      cases hg : VLog.getSnapshotValue m.log n.vptr m.snapCheckpoint with
      | none => rw [hg] at hit; simp at hit
      | some v =>
        rw [hg] at hit
        simp only [Option.map_some, Option.some.injEq] at hit
        subst hit
        refine ⟨hc.2, rfl, v, rfl, ?_⟩
        have h0 : n.vptr ≠ 0 := by
          intro h0
          rw [h0] at hg
          simp [VLog.getSnapshotValue, selectHist_zero] at hg
        simp [VLog.step, hfind, h0, hg]
    · cases hit
  · rintro ⟨hr, hfl, v, hv, hg⟩
    simp only [VLog.step] at hg
    cases hfind : m.findNode it.key with
    | none => rw [hfind] at hg; simp at hg
    | some n =>
      rw [hfind] at hg
      have hn : n ∈ m.nodes := List.mem_of_find?_eq_some hfind
      have hnk : n.key = it.key := by simpa using List.find?_some hfind
      have h0 : n.vptr ≠ 0 := by
        intro h0; simp [h0] at hg
      have hd : n.deleted = false := by
        cases hd : n.deleted
        · rfl
        · exact absurd (hi.del n hn hd) h0
      simp only [h0, if_false] at hg
      cases hs : VLog.getSnapshotValue m.log n.vptr m.snapCheckpoint with
      | none => rw [hs] at hg; simp at hg
      | some w =>
        rw [hs] at hg
        simp only [Out.val.injEq] at hg
        refine ⟨n, hn, ?_⟩
        simp only [hd, Bool.not_false, Bool.true_and, hnk, hr, if_true, hs, Option.map_some, Option.some.injEq]
        cases it with
        | mk k f val => simp_all

/-- the bounds: `lo ≤ k < hi` in the byte-wise order, an empty bound is unbounded -/
theorem inRange_iff (lo hi k : Bytes) :
    inRange lo hi k = true ↔ (lo = [] ∨ Bytes.lt k lo = false) ∧ (hi = [] ∨ Bytes.lt k hi = true) := by
  have hle : Bytes.le lo k = true ↔ Bytes.lt k lo = false := by
    have hsw := Bytes.cmp_swap lo k
    simp only [Bytes.le, Bytes.lt]
    cases hc : Bytes.cmp lo k <;> rw [hc] at hsw <;> simp [← hsw]
  simp only [inRange, Bool.and_eq_true, Bool.or_eq_true, List.isEmpty_iff, hle]

end CGV.MemBuf
