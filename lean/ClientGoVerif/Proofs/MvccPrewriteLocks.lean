/- an ACKNOWLEDGED prewrite leaves every locking mutation's key locked by the transaction (base store and full store,
   all three success branches of the full store's prewrite), and in the async-commit branch the lock is an async-commit
   lock.  Duplicated keys among the mutations are allowed: every mutation is evaluated against the store the request
   met, the batch is applied in order. -/
import ClientGoVerif.Proofs.MvccSInv
import ClientGoVerif.Proofs.MvccFullSec
namespace CGV.Mvcc
open CGV

/-- the entry carries a prewrite (non-pessimistic) lock of transaction `T` -/
def LockedBy (e : Entry) (T : TS) : Prop := ∃ l, e.lock = some l ∧ l.startTS = T ∧ l.op ≠ .pessimisticLock

theorem LockedBy.lock_eq {e : Entry} {T : TS} {l : Lock} (h : LockedBy e T) (hl : e.lock = some l) :
    l.startTS = T ∧ l.op ≠ .pessimisticLock := by
  obtain ⟨l0, h0, hT, hop⟩ := h
  rw [hl] at h0; injection h0 with h0; subst h0
  exact ⟨hT, hop⟩

theorem LockedBy.of_lock_eq {e e' : Entry} {T : TS} (h : LockedBy e T) (heq : e'.lock = e.lock) : LockedBy e' T := by
  obtain ⟨l0, h0, hT, hop⟩ := h
  exact ⟨l0, by rw [heq]; exact h0, hT, hop⟩

/-- a batch entry that writes a prewrite lock of `T` -/
def PutsLockOf (T : TS) (a : Act) : Prop := ∃ k l, a = Act.putLock k l ∧ l.startTS = T ∧ l.op ≠ .pessimisticLock

theorem writeLock_op_ne (op : Op) (h : op ≠ .pessimisticLock) : (if op == .insert then Op.put else op) ≠ .pessimisticLock := by
  cases op <;> simp_all

/-- (L0) what a successful prewrite of one mutation does: nothing — the key already carries the transaction's own
    prewrite lock — or one lock write, on a key that carries no prewrite lock of anybody -/
theorem prewriteMutation_ok_cases (s : Store) (r : PrewriteReq) (m : Mutation) (act : PAction) (am : List Act)
    (h : prewriteMutation s r m act = .ok am) :
    (am = [] ∧ LockedBy (getEntry s.kv m.key) r.startTS) ∨
    (∃ l, am = [Act.putLock m.key l] ∧ l.startTS = r.startTS ∧ l.op = (if m.op == .insert then Op.put else m.op) ∧
      ∀ T, ¬ LockedBy (getEntry s.kv m.key) T) := by
  cases hl : (getEntry s.kv m.key).lock with
  | none =>
    have hno : ∀ T, ¬ LockedBy (getEntry s.kv m.key) T := by
      rintro T ⟨l, hl', _⟩; rw [hl] at hl'; cases hl'
    unfold prewriteMutation at h
    simp only [hl] at h
    split at h
    · cases h
    · split at h
      · cases h
      · injection h with h; right; exact ⟨_, h.symm, rfl, rfl, hno⟩
  | some l =>
    unfold prewriteMutation at h
    simp only [hl] at h
    split at h
    · cases h
    · rename_i hst
      have hst' : l.startTS = r.startTS := by simpa using hst
      split at h
      · rename_i hop
        injection h with h; left
        exact ⟨h.symm, l, hl, hst', by simpa using hop⟩
      · rename_i hop
        have hop' : l.op = .pessimisticLock := by simpa using hop
        have hno : ∀ T, ¬ LockedBy (getEntry s.kv m.key) T := by
          rintro T ⟨l', hl', _, hne⟩; rw [hl] at hl'; injection hl' with hl'; subst hl'; exact hne hop'
        split at h
        · cases h
        · injection h with h; right; exact ⟨_, h.symm, rfl, rfl, hno⟩

/-- (L1) a successful prewrite of a non-pessimistic mutation: the key already carries the transaction's prewrite lock,
    or exactly one prewrite lock of the transaction is written on it -/
theorem prewriteMutation_ok_lock (s : Store) (r : PrewriteReq) (m : Mutation) (act : PAction) (am : List Act)
    (h : prewriteMutation s r m act = .ok am) (hop : m.op ≠ .pessimisticLock) :
    (am = [] ∧ LockedBy (getEntry s.kv m.key) r.startTS) ∨
    (∃ l, am = [Act.putLock m.key l] ∧ l.startTS = r.startTS ∧ l.op ≠ .pessimisticLock) := by
  rcases prewriteMutation_ok_cases s r m act am h with h1 | ⟨l, h1, h2, h3, _⟩
  · exact Or.inl h1
  · exact Or.inr ⟨l, h1, h2, by rw [h3]; exact writeLock_op_ne _ hop⟩

/-- errors only accumulate along the mutation loop -/
theorem prewriteLoop_errs_mono (s : Store) (r : PrewriteReq) (ms : List Mutation) (i : Nat)
    (errs : List (Option KErr)) (acts : List Act) :
    ∀ e ∈ errs, e ∈ (prewriteLoop s r ms i errs acts).1 := by
  induction ms generalizing i errs acts with
  | nil => intro e he; simp only [prewriteLoop]; exact List.mem_reverse.mpr he
  | cons m rest ih =>
    intro e he
    simp only [prewriteLoop]
    split
    · exact ih _ _ _ e (List.mem_cons_of_mem _ he)
    · split
      · exact ih _ _ _ e he
      · split
        · exact ih _ _ _ e (List.mem_cons_of_mem _ he)
        · exact ih _ _ _ e (List.mem_cons_of_mem _ he)

theorem no_some_of_any_false {errs : List (Option KErr)} (h : errs.any Option.isSome = false) (e : KErr) :
    some e ∉ errs := by
  intro hmem
  have := List.any_eq_false.mp h (some e) hmem
  simp at this

/-- (L2) an error-free run of the mutation loop: the acts only grow, every new act is a prewrite-lock write of the
    transaction, and every locking mutation either found the transaction's own prewrite lock in the store or has its
    lock write in the result -/
theorem prewriteLoop_ok (s : Store) (r : PrewriteReq) (ms : List Mutation) (i : Nat)
    (errs : List (Option KErr)) (acts : List Act) (errs' : List (Option KErr)) (acts' : List Act)
    (h : prewriteLoop s r ms i errs acts = (errs', acts')) (hok : errs'.any Option.isSome = false)
    (hops : ∀ m ∈ ms, m.op ≠ .pessimisticLock) :
    (∀ a ∈ acts, a ∈ acts') ∧
    (∀ a ∈ acts', a ∈ acts ∨ PutsLockOf r.startTS a) ∧
    (∀ m ∈ ms, m.op ≠ .checkNotExists →
      LockedBy (getEntry s.kv m.key) r.startTS ∨
        ∃ l, Act.putLock m.key l ∈ acts' ∧ l.startTS = r.startTS ∧ l.op ≠ .pessimisticLock) := by
  induction ms generalizing i errs acts with
  | nil =>
    simp only [prewriteLoop] at h
    injection h with _ h; subst h
    exact ⟨fun a ha => ha, fun a ha => Or.inl ha, fun m hm => by cases hm⟩
  | cons m rest ih =>
    have hops' : ∀ m' ∈ rest, m'.op ≠ .pessimisticLock := fun m' hm' => hops m' (List.mem_cons_of_mem _ hm')
    have herr : ∀ e errs1 acts1 j, prewriteLoop s r rest j (some e :: errs1) acts1 = (errs', acts') → False := by
      intro e errs1 acts1 j h1
      have := prewriteLoop_errs_mono s r rest j (some e :: errs1) acts1 (some e) (List.mem_cons_self ..)
      rw [h1] at this
      exact no_some_of_any_false hok e this
    simp only [prewriteLoop] at h
    split at h
    · exact absurd (herr _ _ _ _ h) id
    · split at h
      · -- a CheckNotExists mutation that passed: nothing is written
        rename_i hcne
        have hcne' : m.op = .checkNotExists := by simpa using hcne
        obtain ⟨h1, h2, h3⟩ := ih _ _ _ h hops'
        refine ⟨h1, h2, ?_⟩
        intro m' hm' hne
        cases hm' with
        | head => exact absurd hcne' hne
        | tail _ hm'' => exact h3 m' hm'' hne
      · split at h
        · exact absurd (herr _ _ _ _ h) id
        · rename_i am hpm
          obtain ⟨h1, h2, h3⟩ := ih _ _ _ h hops'
          have hshape := prewriteMutation_ok_lock s r m _ am hpm (hops m (List.mem_cons_self ..))
          refine ⟨fun a ha => h1 a (List.mem_append_left _ ha), ?_, ?_⟩
          · intro a ha
            rcases h2 a ha with h4 | h4
            · rcases List.mem_append.mp h4 with h5 | h5
              · exact Or.inl h5
              · right
                rcases hshape with ⟨he, _⟩ | ⟨l, he, hT, hop⟩
                · rw [he] at h5; cases h5
                · rw [he] at h5
                  simp only [List.mem_singleton] at h5
                  exact ⟨m.key, l, h5, hT, hop⟩
            · exact Or.inr h4
          · intro m' hm' hne
            cases hm' with
            | head =>
              rcases hshape with ⟨_, hlk⟩ | ⟨l, he, hT, hop⟩
              · exact Or.inl hlk
              · right
                refine ⟨l, h1 _ (List.mem_append_right _ ?_), hT, hop⟩
                rw [he]; exact List.mem_singleton.mpr rfl
            | tail _ hm'' => exact h3 m' hm'' hne

/-- (L3) folding prewrite-lock writes of `T` over an entry that is already so locked ends so locked -/
theorem foldl_putsLock_locked (T : TS) (acts : List Act) (e : Entry) (h : ∀ a ∈ acts, PutsLockOf T a)
    (he : LockedBy e T) : LockedBy (acts.foldl entryAct e) T := by
  induction acts generalizing e with
  | nil => exact he
  | cons a rest ih =>
    obtain ⟨k, l, rfl, hT, hop⟩ := h a (List.mem_cons_self ..)
    simp only [List.foldl_cons]
    exact ih _ (fun x hx => h x (List.mem_cons_of_mem _ hx)) ⟨l, rfl, hT, hop⟩

/-- (L3) … and so does a non-empty such list, whatever the entry was -/
theorem foldl_putsLock_nonempty (T : TS) (acts : List Act) (e : Entry) (h : ∀ a ∈ acts, PutsLockOf T a)
    (hne : acts ≠ []) : LockedBy (acts.foldl entryAct e) T := by
  cases acts with
  | nil => exact absurd rfl hne
  | cons a rest =>
    obtain ⟨k, l, rfl, hT, hop⟩ := h _ (List.mem_cons_self ..)
    simp only [List.foldl_cons]
    exact foldl_putsLock_locked T rest _ (fun x hx => h x (List.mem_cons_of_mem _ hx)) ⟨l, rfl, hT, hop⟩

/-- a batch of prewrite-lock writes of `T`: a key that was so locked, or that has a lock write in the batch, is so
    locked afterwards -/
theorem applyBatch_putsLock (kv : List (Bytes × Entry)) (acts : List Act) (T : TS) (k : Bytes) (hs : KvSorted kv)
    (h : ∀ a ∈ acts, PutsLockOf T a)
    (hk : LockedBy (getEntry kv k) T ∨ ∃ l, Act.putLock k l ∈ acts) :
    LockedBy (getEntry (applyBatch kv acts) k) T := by
  rw [getEntry_applyBatch _ _ _ hs]
  have hf : ∀ a ∈ acts.filter (fun a => a.key == k), PutsLockOf T a := fun a ha => h a (List.mem_filter.mp ha).1
  rcases hk with hk | ⟨l, hl⟩
  · exact foldl_putsLock_locked T _ _ hf hk
  · apply foldl_putsLock_nonempty T _ _ hf
    intro hnil
    have : Act.putLock k l ∈ acts.filter (fun a => a.key == k) :=
      List.mem_filter.mpr ⟨hl, by simp [Act.key]⟩
    rw [hnil] at this; cases this

/-- GOAL 1a, on a key-sorted store: an acknowledged prewrite (no mutation answered with an error) of non-pessimistic
    mutations leaves the key of every mutation other than CheckNotExists locked by the transaction, with a prewrite lock -/
theorem prewrite_ack_locks_sorted (s : Store) (r : PrewriteReq) (hs : KvSorted s.kv) (errs : List (Option KErr)) (s' : Store)
    (h : prewrite s r = (s', errs)) (hok : errs.any Option.isSome = false)
    (hops : ∀ m ∈ r.mutations, m.op ≠ .pessimisticLock) :
    ∀ m ∈ r.mutations, m.op ≠ .checkNotExists → LockedBy (getEntry s'.kv m.key) r.startTS := by
  simp only [prewrite] at h
  cases hp : prewriteLoop s r r.mutations 0 [] [] with
  | mk errs0 acts =>
    rw [hp] at h
    simp only [] at h
    split at h
    · rename_i hany
      injection h with _ h2; subst h2
      rw [hok] at hany; cases hany
    · injection h with h1 h2; subst h1; subst h2
      obtain ⟨_, h2, h3⟩ := prewriteLoop_ok s r r.mutations 0 [] [] _ _ hp hok hops
      intro m hm hne
      apply applyBatch_putsLock s.kv acts r.startTS m.key hs
      · intro a ha
        rcases h2 a ha with h0 | h0
        · cases h0
        · exact h0
      · rcases h3 m hm hne with h4 | ⟨l, h4, _⟩
        · exact Or.inl h4
        · exact Or.inr ⟨l, h4⟩

/-- GOAL 1a: an acknowledged prewrite leaves every locking mutation's key locked by the transaction -/
theorem prewrite_ack_locks (s : Store) (r : PrewriteReq) (hs : SInv s) (errs : List (Option KErr)) (s' : Store)
    (h : prewrite s r = (s', errs)) (hok : errs.any Option.isSome = false)
    (hops : ∀ m ∈ r.mutations, m.op ≠ .pessimisticLock) :
    ∀ m ∈ r.mutations, m.op ≠ .checkNotExists →
      ∃ l, (getEntry s'.kv m.key).lock = some l ∧ l.startTS = r.startTS ∧ l.op ≠ .pessimisticLock :=
  prewrite_ack_locks_sorted s r hs.1 errs s' h hok hops

/-! ### keys that already carry a prewrite lock are not written by a prewrite -/

/-- every act of the mutation loop is a lock write on a key that carries no prewrite lock of anybody -/
theorem prewriteLoop_acts_unlocked (s : Store) (r : PrewriteReq) (errs' : List (Option KErr)) (acts' : List Act)
    (h : prewriteLoop s r r.mutations 0 [] [] = (errs', acts')) :
    ∀ a ∈ acts', ∀ T, ¬ LockedBy (getEntry s.kv a.key) T := by
  intro a ha
  rcases prewriteLoop_acts s r r.mutations 0 [] [] errs' acts' h a ha with h0 | ⟨m, _, action, am, hok, ham⟩
  · cases h0
  · rcases prewriteMutation_ok_cases s r m action am hok with ⟨he, _⟩ | ⟨l, he, _, _, hno⟩
    · rw [he] at ham; cases ham
    · rw [he] at ham
      simp only [List.mem_singleton] at ham
      subst ham
      exact hno

/-- a batch without an act for `k` leaves the entry of `k` alone -/
theorem applyBatch_untouched (kv : List (Bytes × Entry)) (acts : List Act) (k : Bytes) (hs : KvSorted kv)
    (h : ∀ a ∈ acts, a.key ≠ k) : getEntry (applyBatch kv acts) k = getEntry kv k := by
  rw [getEntry_applyBatch _ _ _ hs]
  have : acts.filter (fun a => a.key == k) = [] := by
    apply List.filter_eq_nil_iff.mpr
    intro a ha; simpa using h a ha
  rw [this]; rfl

/-- a prewrite (of any transaction, acknowledged or not) does not touch a key that carries a prewrite lock -/
theorem prewrite_entry_same_of_locked (s : Store) (r : PrewriteReq) (k : Bytes) (T : TS) (hs : KvSorted s.kv)
    (hl : LockedBy (getEntry s.kv k) T) : getEntry (prewrite s r).1.kv k = getEntry s.kv k := by
  simp only [prewrite]
  cases hp : prewriteLoop s r r.mutations 0 [] [] with
  | mk errs0 acts =>
    simp only []
    split
    · rfl
    · apply applyBatch_untouched _ _ _ hs
      intro a ha heq
      exact prewriteLoop_acts_unlocked s r errs0 acts hp a ha T (by rw [heq]; exact hl)

end CGV.Mvcc

namespace CGV.MvccFull
open CGV CGV.Mvcc

theorem prewriteLocked_iff_lockedBy (f : FStore) (T : Nat) (k : Bytes) :
    PrewriteLocked f T k ↔ LockedBy (getEntry f.base.kv k) T := Iff.rfl

/-! ### `settle` keeps keys and locks -/

/-- what `repairOverlap` does to one entry: the key and the lock stay, lost data records are put back -/
def repairEntry (old : List (Bytes × Entry)) (p : Bytes × Entry) : Bytes × Entry :=
  let (k, e) := p
  let oe := getEntry old k
  let lost := oe.writes.filter fun w => w.vt != .rollback &&
    e.writes.any fun w' => w'.commitTS == w.commitTS && w'.vt == .rollback && w'.startTS != w.startTS
  (k, { e with writes := lost.foldl (fun ws w => putWrite ws w) e.writes })

theorem repairOverlap_fst (old new : List (Bytes × Entry)) : (repairOverlap old new).1 = new.map (repairEntry old) := by
  unfold repairOverlap
  suffices h : ∀ (a : List (Bytes × Entry)) (c : List (Bytes × Nat)),
      (new.foldl (fun (acc : List (Bytes × Entry) × List (Bytes × Nat)) p =>
        let (k, e) := p
        let oe := getEntry old k
        let lost := oe.writes.filter fun w => w.vt != .rollback &&
          e.writes.any fun w' => w'.commitTS == w.commitTS && w'.vt == .rollback && w'.startTS != w.startTS
        let covered := oe.writes.filter fun w => w.vt == .rollback &&
          e.writes.any fun w' => w'.commitTS == w.commitTS && w'.vt != .rollback
        let marks := (lost.filterMap fun w => (e.writes.find? fun w' => w'.commitTS == w.commitTS).map fun w' => (k, w'.startTS))
          ++ covered.map fun w => (k, w.startTS)
        let writes' := lost.foldl (fun ws w => putWrite ws w) e.writes
        (acc.1 ++ [(k, { e with writes := writes' })], acc.2 ++ marks)) (a, c)).1 = a ++ new.map (repairEntry old) by
    simpa using h [] []
  induction new with
  | nil => intro a c; simp
  | cons p rest ih =>
    intro a c
    obtain ⟨k, e⟩ := p
    simp only [List.foldl_cons, List.map_cons]
    rw [ih]
    simp [repairEntry]

theorem getEntry_map_lock (kv : List (Bytes × Entry)) (g : Bytes × Entry → Bytes × Entry)
    (hg : ∀ p, (g p).1 = p.1 ∧ (g p).2.lock = p.2.lock) (k : Bytes) :
    (getEntry (kv.map g) k).lock = (getEntry kv k).lock := by
  induction kv with
  | nil => rfl
  | cons p rest ih =>
    obtain ⟨k', e⟩ := p
    have h1 := hg (k', e)
    simp only [List.map_cons]
    generalize g (k', e) = q at h1
    obtain ⟨k2, e2⟩ := q
    simp only [] at h1
    obtain ⟨rfl, h2⟩ := h1
    simp only [getEntry]
    split
    · exact h2
    · exact ih

theorem settle_lock (f : FStore) (s : Store) (k : Bytes) :
    (getEntry (f.settle s).base.kv k).lock = (getEntry s.kv k).lock := by
  unfold FStore.settle
  show (getEntry (repairOverlap f.base.kv s.kv).1 k).lock = _
  rw [repairOverlap_fst]
  exact getEntry_map_lock s.kv (repairEntry f.base.kv) (fun p => ⟨rfl, rfl⟩) k

theorem map_sorted (kv : List (Bytes × Entry)) (g : Bytes × Entry → Bytes × Entry) (hg : ∀ p, (g p).1 = p.1)
    (hs : KvSorted kv) : KvSorted (kv.map g) := by
  induction kv with
  | nil => trivial
  | cons p rest ih =>
    obtain ⟨k, e⟩ := p
    have h1 := hg (k, e)
    simp only [List.map_cons]
    generalize g (k, e) = q at h1
    obtain ⟨k2, e2⟩ := q
    simp only [] at h1
    subst h1
    obtain ⟨hgt, hs'⟩ := KvSorted.cons_iff.mp hs
    refine KvSorted.cons_iff.mpr ⟨?_, ih hs'⟩
    intro p hp
    obtain ⟨q, hq, rfl⟩ := List.mem_map.mp hp
    rw [hg q]; exact hgt q hq

theorem settle_sorted (f : FStore) (s : Store) (hs : KvSorted s.kv) : KvSorted (f.settle s).base.kv := by
  unfold FStore.settle
  show KvSorted (repairOverlap f.base.kv s.kv).1
  rw [repairOverlap_fst]
  exact map_sorted s.kv (repairEntry f.base.kv) (fun p => rfl) hs

/-- the min_commit_ts an async-commit / one-phase prewrite computes -/
def commitFloor (f : FStore) (r : PrewriteReq) : Nat :=
  max (max r.minCommitTS (r.startTS + 1)) (max (r.forUpdateTS + 1) (f.maxTS + 1))

/-- the lock writes of an async-commit prewrite: every lock carries the computed min_commit_ts -/
def asyncActs (m : Nat) (acts : List Act) : List Act :=
  acts.map fun a => match a with
    | .putLock k l => Act.putLock k { l with minCommitTS := m }
    | other => other

/-- the side-table rows of an async-commit prewrite -/
def asyncInfos (r : PrewriteReq) (x : FPrewriteExtra) (m : Nat) (acts : List Act) : List AsyncInfo :=
  acts.filterMap fun a => match a with
    | .putLock k _ => some ({ key := k, startTS := r.startTS, minCommitTS := m,
                              secondaries := if k == r.primary then x.secondaries else [] } : AsyncInfo)
    | _ => none

/-- the state after an async-commit prewrite that wrote `acts` -/
def asyncStore (f : FStore) (r : PrewriteReq) (x : FPrewriteExtra) (acts : List Act) : FStore :=
  { f with base := { f.base with kv := applyBatch f.base.kv (asyncActs (commitFloor f r) acts) },
           async := asyncInfos r x (commitFloor f r) acts ++
             f.async.filter fun a => !((asyncInfos r x (commitFloor f r) acts).any fun i => i.key == a.key && i.startTS == a.startTS) }

/-- the outcomes of the ordinary prewrite path: refused (nothing changes), plain 2PC locks (also the fallback when
    max_commit_ts cannot be honoured; min_commit_ts 0 is answered), one-phase commit, async-commit locks -/
theorem fprewriteFresh_cases (f : FStore) (r : PrewriteReq) (x : FPrewriteExtra) :
    ∃ errs0 acts, prewriteLoop f.base r r.mutations 0 [] [] = (errs0, acts) ∧
      (((fprewriteFresh f r x).1 = f ∧ (fprewriteFresh f r x).2.errs.any Option.isSome = true) ∨
       (errs0.any Option.isSome = false ∧
          (fprewriteFresh f r x).1 = { f with base := { f.base with kv := applyBatch f.base.kv acts } } ∧
          (fprewriteFresh f r x).2.minCommitTS = 0) ∨
       (x.tryOnePC = true ∧
          (fprewriteFresh f r x).1 =
            f.settle { f.base with kv := applyBatch f.base.kv (onePCActs acts r.startTS (commitFloor f r)) }) ∨
       (x.tryOnePC = false ∧ errs0.any Option.isSome = false ∧
          (fprewriteFresh f r x).1 = asyncStore f r x acts ∧
          (fprewriteFresh f r x).2.minCommitTS = commitFloor f r)) := by
  cases hp : prewriteLoop f.base r r.mutations 0 [] [] with
  | mk errs0 acts =>
    refine ⟨errs0, acts, rfl, ?_⟩
    unfold fprewriteFresh
    rw [hp]
    simp only []
    cases hr : List.find? (fun m => f.overlapped.contains (m.key, r.startTS)) r.mutations with
    | some m0 =>
      simp only []
      rw [if_pos (by simp)]
      exact Or.inl ⟨rfl, by simp⟩
    | none =>
      simp only []
      by_cases hany : errs0.any Option.isSome = true
      · rw [if_pos hany]; exact Or.inl ⟨rfl, hany⟩
      · rw [if_neg hany]
        have he0 : errs0.any Option.isSome = false := by simpa using hany
        right
        by_cases h1 : (!(x.useAsync || x.tryOnePC)) = true
        · rw [if_pos h1]; exact Or.inl ⟨he0, rfl, rfl⟩
        · rw [if_neg h1]
          by_cases h2 : (x.maxCommitTS != 0 &&
              decide (max (max r.minCommitTS (r.startTS + 1)) (max (r.forUpdateTS + 1) (f.maxTS + 1)) > x.maxCommitTS)) = true
          · rw [if_pos h2]; exact Or.inl ⟨he0, rfl, rfl⟩
          · rw [if_neg h2]
            by_cases h3 : x.tryOnePC = true
            · rw [if_pos h3]; exact Or.inr (Or.inl ⟨h3, rfl⟩)
            · rw [if_neg h3]
              exact Or.inr (Or.inr ⟨by simpa using h3, he0, rfl, rfl⟩)

theorem asyncActs_putsLock (T m : Nat) (acts : List Act) (h : ∀ a ∈ acts, PutsLockOf T a) :
    ∀ a ∈ asyncActs m acts, PutsLockOf T a := by
  intro a ha
  simp only [asyncActs, List.mem_map] at ha
  obtain ⟨b, hb, rfl⟩ := ha
  obtain ⟨k, l, rfl, hT, hop⟩ := h b hb
  exact ⟨k, { l with minCommitTS := m }, rfl, hT, hop⟩

theorem asyncActs_mem (m : Nat) (acts : List Act) (k : Bytes) (l : Lock) (h : Act.putLock k l ∈ acts) :
    Act.putLock k { l with minCommitTS := m } ∈ asyncActs m acts := by
  simp only [asyncActs, List.mem_map]
  exact ⟨_, h, rfl⟩

theorem asyncActs_key (m : Nat) (acts : List Act) : ∀ a ∈ asyncActs m acts, ∃ b ∈ acts, a.key = b.key := by
  intro a ha
  simp only [asyncActs, List.mem_map] at ha
  obtain ⟨b, hb, rfl⟩ := ha
  exact ⟨b, hb, by cases b <;> rfl⟩

theorem onePCActs_key (acts : List Act) (T C : Nat) : ∀ a ∈ onePCActs acts T C, ∃ b ∈ acts, a.key = b.key := by
  intro a ha
  simp only [onePCActs, List.mem_flatMap] at ha
  obtain ⟨b, hb, hab⟩ := ha
  refine ⟨b, hb, ?_⟩
  cases b with
  | putLock k' l' =>
    simp only [commitLock] at hab
    split at hab <;> simp at hab <;> (try rcases hab with rfl | rfl) <;> simp_all [Act.key]
  | delLock k' => simp at hab; subst hab; rfl
  | putWrite k' w => simp at hab; subst hab; rfl
  | delWrite k' c => simp at hab; subst hab; rfl

/-- GOAL 1b, on a key-sorted store: an acknowledged prewrite of the full store without one-phase commit — plain 2PC,
    the fallback when max_commit_ts cannot be honoured, or async commit — that is not the idempotent answer to an
    already committed transaction leaves every locking mutation's key locked by the transaction -/
theorem fprewrite_ack_locks_sorted (f : FStore) (r : PrewriteReq) (x : FPrewriteExtra) (hs : KvSorted f.base.kv)
    (hx : x.tryOnePC = false) (hown : ownCommitTS f r = none)
    (hok : (fprewrite f r x).2.errs.any Option.isSome = false)
    (hops : ∀ m ∈ r.mutations, m.op ≠ .pessimisticLock) :
    ∀ m ∈ r.mutations, m.op ≠ .checkNotExists → PrewriteLocked (fprewrite f r x).1 r.startTS m.key := by
  have heq : fprewrite f r x = fprewriteFresh f r x := by unfold fprewrite; rw [hown]
  rw [heq] at hok ⊢
  obtain ⟨errs0, acts, hp, hc⟩ := fprewriteFresh_cases f r x
  intro m hm hne
  rcases hc with ⟨_, hbad⟩ | ⟨he0, hst, _⟩ | ⟨h1pc, _⟩ | ⟨_, he0, hst, _⟩
  · rw [hok] at hbad; cases hbad
  · obtain ⟨_, h2, h3⟩ := prewriteLoop_ok f.base r r.mutations 0 [] [] _ _ hp he0 hops
    rw [hst]
    apply applyBatch_putsLock f.base.kv acts r.startTS m.key hs
    · intro a ha
      rcases h2 a ha with h0 | h0
      · cases h0
      · exact h0
    · rcases h3 m hm hne with h4 | ⟨l, h4, _⟩
      · exact Or.inl h4
      · exact Or.inr ⟨l, h4⟩
  · rw [hx] at h1pc; cases h1pc
  · obtain ⟨_, h2, h3⟩ := prewriteLoop_ok f.base r r.mutations 0 [] [] _ _ hp he0 hops
    rw [hst]
    apply applyBatch_putsLock f.base.kv _ r.startTS m.key hs
    · apply asyncActs_putsLock
      intro a ha
      rcases h2 a ha with h0 | h0
      · cases h0
      · exact h0
    · rcases h3 m hm hne with h4 | ⟨l, h4, _⟩
      · exact Or.inl h4
      · exact Or.inr ⟨_, asyncActs_mem _ _ _ _ h4⟩

/-- GOAL 1b: an acknowledged prewrite of the full store leaves every locking mutation's key locked by the transaction -/
theorem fprewrite_ack_locks (f : FStore) (r : PrewriteReq) (x : FPrewriteExtra) (hs : SInv f.base)
    (hx : x.tryOnePC = false) (hown : ownCommitTS f r = none)
    (hok : (fprewrite f r x).2.errs.any Option.isSome = false)
    (hops : ∀ m ∈ r.mutations, m.op ≠ .pessimisticLock) :
    ∀ m ∈ r.mutations, m.op ≠ .checkNotExists → PrewriteLocked (fprewrite f r x).1 r.startTS m.key :=
  fprewrite_ack_locks_sorted f r x hs.1 hx hown hok hops

/-- GOAL 1c: an acknowledged prewrite answered with a min_commit_ts (the async-commit branch): every locking mutation's
    key either carried the transaction's prewrite lock already (then this request wrote nothing there), or it now
    carries an async-commit lock of the transaction -/
theorem fprewrite_ack_async (f : FStore) (r : PrewriteReq) (x : FPrewriteExtra) (hs : KvSorted f.base.kv)
    (hx : x.tryOnePC = false) (hown : ownCommitTS f r = none)
    (hok : (fprewrite f r x).2.errs.any Option.isSome = false)
    (hops : ∀ m ∈ r.mutations, m.op ≠ .pessimisticLock)
    (hmc : (fprewrite f r x).2.minCommitTS ≠ 0) :
    ∀ m ∈ r.mutations, m.op ≠ .checkNotExists →
      PrewriteLocked f r.startTS m.key ∨
        ((asyncOf (fprewrite f r x).1 m.key r.startTS).isSome = true ∧
          isAsyncLock (fprewrite f r x).1 m.key r.startTS = true) := by
  intro m hm hne
  have hlocked := fprewrite_ack_locks_sorted f r x hs hx hown hok hops m hm hne
  have heq : fprewrite f r x = fprewriteFresh f r x := by unfold fprewrite; rw [hown]
  rw [heq] at hok hmc hlocked ⊢
  obtain ⟨errs0, acts, hp, hc⟩ := fprewriteFresh_cases f r x
  rcases hc with ⟨_, hbad⟩ | ⟨_, _, hz⟩ | ⟨h1pc, _⟩ | ⟨_, he0, hst, _⟩
  · rw [hok] at hbad; cases hbad
  · exact absurd hz hmc
  · rw [hx] at h1pc; cases h1pc
  · obtain ⟨_, _, h3⟩ := prewriteLoop_ok f.base r r.mutations 0 [] [] _ _ hp he0 hops
    rcases h3 m hm hne with h4 | ⟨l, h4, _⟩
    · exact Or.inl h4
    · right
      have hsome : (asyncOf (fprewriteFresh f r x).1 m.key r.startTS).isSome = true := by
        rw [hst]
        simp only [asyncOf, asyncStore, List.find?_isSome]
        refine ⟨{ key := m.key, startTS := r.startTS, minCommitTS := commitFloor f r,
                  secondaries := if m.key == r.primary then x.secondaries else [] }, ?_, by simp⟩
        apply List.mem_append_left
        simp only [asyncInfos, List.mem_filterMap]
        exact ⟨_, h4, rfl⟩
      refine ⟨hsome, ?_⟩
      obtain ⟨l', hl', hT, hop⟩ := hlocked
      have hop' : (l'.op != Op.pessimisticLock) = true := by cases ho : l'.op <;> simp_all
      simp only [isAsyncLock, hl', hsome, hT, hop', beq_self_eq_true, Bool.and_self]

/-! ### a prewrite lock survives every later prewrite request (of any transaction) -/

theorem fprewrite_sorted (f : FStore) (r : PrewriteReq) (x : FPrewriteExtra) (hs : KvSorted f.base.kv) :
    KvSorted (fprewrite f r x).1.base.kv := by
  unfold fprewrite
  split
  · exact hs
  · obtain ⟨errs0, acts, _, hc⟩ := fprewriteFresh_cases f r x
    rcases hc with ⟨hst, _⟩ | ⟨_, hst, _⟩ | ⟨_, hst⟩ | ⟨_, _, hst, _⟩ <;> rw [hst]
    · exact hs
    · exact applyBatch_sorted _ _ hs
    · exact settle_sorted f _ (applyBatch_sorted _ _ hs)
    · exact applyBatch_sorted _ _ hs

/-- a prewrite request of the full store — of whichever transaction, plain, async commit or one-phase commit, whatever
    its answer — does not touch a key that carries a prewrite lock -/
theorem fprewrite_keeps_locks (f : FStore) (r : PrewriteReq) (x : FPrewriteExtra) (hs : KvSorted f.base.kv)
    (T : Nat) (k : Bytes) (hl : PrewriteLocked f T k) :
    PrewriteLocked (fprewrite f r x).1 T k := by
  unfold fprewrite
  split
  · exact hl
  · obtain ⟨errs0, acts, hp, hc⟩ := fprewriteFresh_cases f r x
    have hun := prewriteLoop_acts_unlocked f.base r errs0 acts hp
    rcases hc with ⟨hst, _⟩ | ⟨_, hst, _⟩ | ⟨_, hst⟩ | ⟨_, _, hst, _⟩ <;> rw [hst]
    · exact hl
    · show LockedBy (getEntry (applyBatch f.base.kv acts) k) T
      rw [applyBatch_untouched _ _ _ hs]
      · exact hl
      · intro a ha heq
        exact hun a ha T (by rw [heq]; exact hl)
    · apply LockedBy.of_lock_eq hl
      rw [settle_lock]
      show (getEntry (applyBatch f.base.kv (onePCActs acts r.startTS (commitFloor f r))) k).lock = _
      rw [applyBatch_untouched _ _ _ hs]
      intro a ha heq
      obtain ⟨b, hb, hkb⟩ := onePCActs_key _ _ _ a ha
      exact hun b hb T (by rw [← hkb, heq]; exact hl)
    · show LockedBy (getEntry (applyBatch f.base.kv (asyncActs (commitFloor f r) acts)) k) T
      rw [applyBatch_untouched _ _ _ hs]
      · exact hl
      · intro a ha heq
        obtain ⟨b, hb, hkb⟩ := asyncActs_key _ _ a ha
        exact hun b hb T (by rw [← hkb, heq]; exact hl)

/-- a run of prewrite requests (the batches of one transaction, possibly mixed with other transactions' requests) -/
def fprewriteAll (f : FStore) : List (PrewriteReq × FPrewriteExtra) → FStore
  | [] => f
  | (r, x) :: rest => fprewriteAll (fprewrite f r x).1 rest

/-- along the run every request of transaction `T` is acknowledged: it does not ask for one-phase commit, meets no
    commit record of `T`, carries no pessimistic-lock mutation and is answered without an error.  Requests of other
    transactions are unconstrained. -/
def AckedAll (T : Nat) (f : FStore) : List (PrewriteReq × FPrewriteExtra) → Prop
  | [] => True
  | (r, x) :: rest =>
    (r.startTS = T → x.tryOnePC = false ∧ ownCommitTS f r = none ∧
      (fprewrite f r x).2.errs.any Option.isSome = false ∧ ∀ m ∈ r.mutations, m.op ≠ .pessimisticLock) ∧
    AckedAll T (fprewrite f r x).1 rest

theorem fprewriteAll_keeps_locks (f : FStore) (rs : List (PrewriteReq × FPrewriteExtra)) (T : Nat) (hs : KvSorted f.base.kv)
    (hack : AckedAll T f rs) (k : Bytes) (hl : PrewriteLocked f T k) : PrewriteLocked (fprewriteAll f rs) T k := by
  induction rs generalizing f with
  | nil => exact hl
  | cons q rest ih =>
    obtain ⟨r, x⟩ := q
    exact ih _ (fprewrite_sorted f r x hs) hack.2 (fprewrite_keeps_locks f r x hs T k hl)

/-- after a run of acknowledged prewrite requests of `T`, the key of every locking mutation of every request of `T`
    carries the prewrite lock of `T` -/
theorem fprewriteAll_ack_locks (f : FStore) (rs : List (PrewriteReq × FPrewriteExtra)) (T : Nat) (hs : KvSorted f.base.kv)
    (hack : AckedAll T f rs) :
    ∀ q ∈ rs, q.1.startTS = T → ∀ m ∈ q.1.mutations, m.op ≠ .checkNotExists →
      PrewriteLocked (fprewriteAll f rs) T m.key := by
  induction rs generalizing f with
  | nil => intro q hq; cases hq
  | cons q0 rest ih =>
    obtain ⟨r, x⟩ := q0
    intro q hq hT m hm hne
    have hs' := fprewrite_sorted f r x hs
    cases hq with
    | head =>
      obtain ⟨hx, hown, hok, hops⟩ := hack.1 hT
      have h1 := fprewrite_ack_locks_sorted f r x hs hx hown hok hops m hm hne
      simp only [] at hT
      rw [hT] at h1
      exact fprewriteAll_keeps_locks _ rest T hs' hack.2 m.key h1
    | tail _ hq' => exact ih _ hs' hack.2 q hq' hT m hm hne

end CGV.MvccFull
