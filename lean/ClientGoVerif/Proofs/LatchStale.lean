/-
  C17: invariants about staleness (stage 3), over the ghost fields `Node.pubs` and `State.published`.
-/
import ClientGoVerif.Proofs.LatchLive
namespace CGV.Latch
open CGV

structure Inv3 (cfg : Cfg) (s : State) : Prop where
  /-- a node remembers (as `maxCommitTS`) at least every commit published on it since it was created -/
  pubs_le : ∀ i n c, n ∈ (s.slots i).queue → c ∈ n.pubs → c ≤ n.maxCommitTS
  /-- a non-zero `maxCommitTS` was published by some release on that key -/
  max_pub : ∀ i n, n ∈ (s.slots i).queue → n.maxCommitTS = 0 ∨ (n.key, n.maxCommitTS) ∈ s.published
  stale_pub : ∀ l lk, s.locks l = some lk → lk.isStale = true →
    ∃ k c, k ∈ lk.keys ∧ (k, c) ∈ s.published ∧ c > lk.startTS
  held_fresh : ∀ l lk k n, s.locks l = some lk → lk.isStale = false → lk.holds k → nodeOf cfg s k = some n →
    n.maxCommitTS ≤ lk.startTS

theorem Inv3.init (cfg : Cfg) : Inv3 cfg Latch.init where
  pubs_le := by simp [Latch.init, emptySlot]
  max_pub := by simp [Latch.init, emptySlot]
  stale_pub := by simp [Latch.init]
  held_fresh := by simp [Latch.init]

/-- node-level part for effects that rewrite the node of `key` with `f` and extend `published` -/
theorem node_part_upd {cfg : Cfg} {s : State} (h1 : Inv1 cfg s) (h : Inv3 cfg s) {slotID : Nat} {key : Key} {n : Node}
    {f : Node → Node} (hf : findNode (s.slots slotID).queue key = some n)
    {pub : List (Key × Nat)} (hsub : ∀ e, e ∈ s.published → e ∈ pub)
    (hp : ∀ c, c ∈ (f n).pubs → c ≤ (f n).maxCommitTS)
    (hm : (f n).maxCommitTS = 0 ∨ ((f n).key, (f n).maxCommitTS) ∈ pub)
    {cnt : Int} {wt : List LockId} :
    (∀ i m c, m ∈ (upd s.slots slotID { queue := updNode key f (s.slots slotID).queue, count := cnt, waiting := wt } i).queue →
        c ∈ m.pubs → c ≤ m.maxCommitTS) ∧
    (∀ i m, m ∈ (upd s.slots slotID { queue := updNode key f (s.slots slotID).queue, count := cnt, waiting := wt } i).queue →
        m.maxCommitTS = 0 ∨ (m.key, m.maxCommitTS) ∈ pub) := by
  have hold : ∀ i m, m ∈ (s.slots i).queue → m.maxCommitTS = 0 ∨ (m.key, m.maxCommitTS) ∈ pub := by
    intro i m hm'
    rcases h.max_pub i m hm' with h0 | h0
    · exact .inl h0
    · exact .inr (hsub _ h0)
  have hcase : ∀ i m, m ∈ (upd s.slots slotID { queue := updNode key f (s.slots slotID).queue, count := cnt, waiting := wt } i).queue →
      (∃ j, m ∈ (s.slots j).queue) ∨ m = f n := by
    intro i m hm'
    simp only [upd_apply] at hm'
    split at hm'
    · next e =>
      rcases mem_updNode (h1.qnodup _) hm' with ⟨hm', _⟩ | ⟨n0, hn0, hn0k, rfl⟩
      · exact .inl ⟨_, hm'⟩
      · right
        have := findNode_of_mem (h1.qnodup _) hn0
        rw [hn0k, hf] at this; cases this; rfl
    · exact .inl ⟨_, hm'⟩
  constructor
  · intro i m c hm' hc
    rcases hcase i m hm' with ⟨j, hj⟩ | rfl
    · exact h.pubs_le j m c hj hc
    · exact hp c hc
  · intro i m hm'
    rcases hcase i m hm' with ⟨j, hj⟩ | rfl
    · exact hold j m hj
    · exact hm

/-- effects that keep all queues and `published`, and rewrite one lock keeping keys/progress/startTS -/
theorem Inv3.lockOnly {cfg : Cfg} {s : State} (h : Inv3 cfg s) {l : LockId} {lk lk' : Lock}
    {slots' : Nat → Slot} (hq : ∀ i, (slots' i).queue = (s.slots i).queue)
    (hl : s.locks l = some lk) (hk : lk'.keys = lk.keys) (hc : lk'.acquiredCount = lk.acquiredCount)
    (hts : lk'.startTS = lk.startTS)
    (hst : lk'.isStale = true → ∃ k c, k ∈ lk'.keys ∧ (k, c) ∈ s.published ∧ c > lk'.startTS)
    (hfr : lk'.isStale = false → lk.isStale = false) :
    Inv3 cfg { s with slots := slots', locks := upd s.locks l (some lk') } where
  pubs_le := by intro i n c hn; simp only [hq] at hn; exact h.pubs_le i n c hn
  max_pub := by intro i n hn; simp only [hq] at hn; exact h.max_pub i n hn
  stale_pub := by
    intro l' x hx hs
    rcases upd_some hx with ⟨_, e⟩ | ⟨_, hx⟩
    · subst e; exact hst hs
    · exact h.stale_pub _ _ hx hs
  held_fresh := by
    intro l' x k n hx hs hh hn
    have e0 : nodeOf cfg { s with slots := slots', locks := upd s.locks l (some lk') } k = nodeOf cfg s k := by
      simp [nodeOf, hq]
    rw [e0] at hn
    rcases upd_some hx with ⟨e1, e⟩ | ⟨_, hx⟩
    · subst e; subst e1
      rw [hts]
      exact h.held_fresh _ _ k n hl (hfr hs) ((holds_congr hk hc k).mp hh) hn
    · exact h.held_fresh _ _ k n hx hs hh hn

theorem max_cases (a b : Nat) : max a b = a ∨ max a b = b := by omega

theorem Inv3.eff {cfg : Cfg} {s s' : State} (h1 : Inv1 cfg s) (h : Inv3 cfg s) (e : Eff cfg s s') : Inv3 cfg s' := by
  cases e with
  | gen ts keys hnd =>
    refine ⟨h.pubs_le, h.max_pub, ?_, ?_⟩
    · intro l' x hx hs
      rcases upd_some hx with ⟨_, e⟩ | ⟨_, hx⟩
      · subst e; cases hs
      · exact h.stale_pub _ _ hx hs
    · intro l' x k n hx hs hh hn
      rcases upd_some hx with ⟨_, e⟩ | ⟨_, hx⟩
      · subst e; obtain ⟨j, hj, _⟩ := hh; simp at hj
      · exact h.held_fresh _ _ k n hx hs hh hn
  | recycle i ts =>
    refine ⟨?_, ?_, h.stale_pub, ?_⟩
    · intro j n c hn
      simp only [recycleSlot, upd_apply] at hn
      split at hn
      · next e => subst e; exact h.pubs_le _ n c (List.mem_filter.mp hn).1
      · exact h.pubs_le j n c hn
    · intro j n hn
      simp only [recycleSlot, upd_apply] at hn
      split at hn
      · next e => subst e; exact h.max_pub _ n (List.mem_filter.mp hn).1
      · exact h.max_pub j n hn
    · intro l' x k n hx hs hh hn
      refine h.held_fresh l' x k n hx hs hh ?_
      unfold recycleSlot at hn; rw [nodeOf_upd] at hn
      split at hn
      · next e => subst e; exact findNode_filter (h1.qnodup _) hn
      · exact hn
  | staleRet l lk hl hp hst =>
    exact h.lockOnly (fun _ => rfl) hl rfl rfl rfl (fun _ => h.stale_pub _ lk hl hst) (fun hs => hs)
  | acqStale l lk key slotID n hl hp hst hk hs hf hgt =>
    refine h.lockOnly (fun _ => rfl) hl rfl rfl rfl (fun _ => ?_) (fun hs => by cases hs)
    obtain ⟨hnm, hnk⟩ := findNode_some hf
    refine ⟨key, n.maxCommitTS, List.mem_of_getElem? hk, ?_, hgt⟩
    rcases h.max_pub _ n hnm with h0 | h0
    · omega
    · rw [hnk] at h0; exact h0
  | unlock l lk c hl hp =>
    exact h.lockOnly (fun _ => rfl) hl rfl rfl rfl (fun hs => h.stale_pub _ lk hl hs) (fun hs => hs)
  | acqLocked l lk key slotID n o hl hp hst hk hs hf hle hh =>
    refine h.lockOnly (slots' := upd s.slots slotID _) ?_ hl rfl rfl rfl (fun hs => h.stale_pub _ lk hl hs) (fun hs => hs)
    intro i; simp only [upd_apply]; split
    · next e => subst e; rfl
    · rfl
  | acqNew l lk key slotID hl hp hst hk hs hf =>
    have hsl : slotID = cfg.slotOf key := slot_of_key (h1.wf _ _ hl) hk hs
    have hnone : nodeOf cfg s key = none := by rw [nodeOf, ← hsl]; exact hf
    have hne : ∀ l' x k, s.locks l' = some x → x.holds k → k ≠ key := by
      intro l' x k hx hh e
      obtain ⟨n, hn, _⟩ := h1.holds l' x k hx hh
      rw [e, hnone] at hn; cases hn
    refine ⟨?_, ?_, ?_, ?_⟩
    · intro j m c hm hc
      simp only [upd_apply] at hm
      split at hm
      · next e =>
        rcases List.mem_cons.mp hm with e | hm
        · subst e; simp [newNode] at hc
        · exact h.pubs_le _ m c hm hc
      · exact h.pubs_le j m c hm hc
    · intro j m hm
      simp only [upd_apply] at hm
      split at hm
      · next e =>
        rcases List.mem_cons.mp hm with e | hm
        · subst e; left; rfl
        · exact h.max_pub _ m hm
      · exact h.max_pub j m hm
    · intro l' x hx hs'
      rcases upd_some hx with ⟨_, e⟩ | ⟨_, hx⟩
      · subst e; exact h.stale_pub _ lk hl hs'
      · exact h.stale_pub _ _ hx hs'
    · intro l' x k n hx hs' hh hn
      have hnode : ∀ k, k ≠ key → nodeOf cfg { s with
          slots := upd s.slots slotID { (s.slots slotID) with queue := newNode key l :: (s.slots slotID).queue,
                                                              count := (s.slots slotID).count + 1 },
          locks := upd s.locks l (some (succLock lk)) } k = nodeOf cfg s k := by
        intro k hk'
        rw [nodeOf_upd]; split
        · next e =>
          have : (newNode key l).key ≠ k := fun e => hk' e.symm
          simp [findNode_cons, this, nodeOf, e]
        · rfl
      rcases upd_some hx with ⟨e1, e⟩ | ⟨_, hx⟩
      · subst e; subst e1
        rcases holds_succ.mp hh with hh | hh
        · rw [hnode k (hne _ _ k hl hh)] at hn
          exact h.held_fresh _ lk k n hl hs' hh hn
        · rw [hk] at hh; cases hh
          rw [nodeOf_upd, if_pos hsl.symm] at hn
          simp [findNode_cons, newNode] at hn
          subst hn; simp [succLock]
      · rw [hnode k (hne _ _ k hx hh)] at hn
        exact h.held_fresh _ _ k n hx hs' hh hn
  | acqFree l lk key slotID n hl hp hst hk hs hf hle hh0 =>
    have hsl : slotID = cfg.slotOf key := slot_of_key (h1.wf _ _ hl) hk hs
    have hfk : ∀ m : Node, ({ m with holder := some l } : Node).key = m.key := fun _ => rfl
    have hnk : nodeOf cfg s key = some n := by rw [nodeOf, ← hsl]; exact hf
    have hne : ∀ l' x k, s.locks l' = some x → x.holds k → k ≠ key := by
      intro l' x k hx hh e
      obtain ⟨n', hn, hnh⟩ := h1.holds l' x k hx hh
      rw [e, hnk] at hn; cases hn; rw [hh0] at hnh; cases hnh
    obtain ⟨hnm, hnkey⟩ := findNode_some hf
    obtain ⟨hA, hB⟩ := node_part_upd (f := fun n => { n with holder := some l }) (cnt := (s.slots slotID).count)
      (wt := (s.slots slotID).waiting) h1 h hf (pub := s.published) (fun _ he => he)
      (fun c hc => h.pubs_le _ n c hnm hc) (h.max_pub _ n hnm)
    refine ⟨hA, hB, ?_, ?_⟩
    · intro l' x hx hs'
      rcases upd_some hx with ⟨_, e⟩ | ⟨_, hx⟩
      · subst e; exact h.stale_pub _ lk hl hs'
      · exact h.stale_pub _ _ hx hs'
    · intro l' x k n' hx hs' hh hn
      rcases upd_some hx with ⟨e1, e⟩ | ⟨_, hx⟩
      · subst e; subst e1
        rcases holds_succ.mp hh with hh | hh
        · rw [nodeOf_updNode_ne hfk (hne _ _ k hl hh)] at hn
          exact h.held_fresh _ lk k n' hl hs' hh hn
        · rw [hk] at hh; cases hh
          rw [nodeOf_updNode_same hfk hsl hf] at hn
          cases hn; simp only [succLock]; omega
      · rw [nodeOf_updNode_ne hfk (hne _ _ k hx hh)] at hn
        exact h.held_fresh _ _ k n' hx hs' hh hn
  | relNone l lk key slotID n hl hp hc hk hs hf hh0 hw =>
    have w := h1.wf _ _ hl
    have hsl : slotID = cfg.slotOf key := slot_of_key w hk hs
    have hnk : nodeOf cfg s key = some n := by rw [nodeOf, ← hsl]; exact hf
    have hne : ∀ l' x k, s.locks l' = some x → x.holds k → l' ≠ l → k ≠ key := by
      intro l' x k hx hh hl'l e
      obtain ⟨n', hn, hnh⟩ := h1.holds l' x k hx hh
      rw [e, hnk] at hn; cases hn; rw [hh0] at hnh; cases hnh; exact hl'l rfl
    obtain ⟨hnm, hnkey⟩ := findNode_some hf
    obtain ⟨hA, hB⟩ := node_part_upd (f := relNodeF (max n.maxCommitTS lk.commitTS) lk.commitTS none)
      (cnt := (s.slots slotID).count) (wt := (s.slots slotID).waiting) h1 h hf
      (pub := (key, lk.commitTS) :: s.published) (fun _ he => List.mem_cons_of_mem _ he)
      (by
        intro c hc; simp only [relNodeF, List.mem_cons] at hc ⊢
        rcases hc with e | hc
        · omega
        · have := h.pubs_le _ n c hnm hc; omega)
      (by
        simp only [relNodeF, hnkey]
        rcases max_cases n.maxCommitTS lk.commitTS with e | e
        · rw [e]; rcases h.max_pub _ n hnm with h0 | h0
          · exact .inl h0
          · right; rw [hnkey] at h0; exact List.mem_cons_of_mem _ h0
        · rw [e]; right; simp)
    refine ⟨hA, hB, ?_, ?_⟩
    · intro l' x hx hs'
      rcases upd_some hx with ⟨_, e⟩ | ⟨_, hx⟩
      · subst e
        obtain ⟨k, c, h1', h2', h3'⟩ := h.stale_pub _ lk hl hs'
        exact ⟨k, c, h1', List.mem_cons_of_mem _ h2', h3'⟩
      · obtain ⟨k, c, h1', h2', h3'⟩ := h.stale_pub _ _ hx hs'
        exact ⟨k, c, h1', List.mem_cons_of_mem _ h2', h3'⟩
    · intro l' x k n' hx hs' hh hn
      rcases upd_some hx with ⟨e1, e⟩ | ⟨hl'l, hx⟩
      · subst e; subst e1
        obtain ⟨hh, hkk⟩ := (holds_rel w hk).mp hh
        rw [nodeOf_updNode_ne (relF_key _ _ _) hkk] at hn
        exact h.held_fresh _ lk k n' hl hs' hh hn
      · rw [nodeOf_updNode_ne (relF_key _ _ _) (hne _ _ k hx hh hl'l)] at hn
        exact h.held_fresh _ _ k n' hx hs' hh hn
  | relStale l lk key slotID n w lkw hl hp hc hk hs hf hh0 hw hlw hgt =>
    have wf := h1.wf _ _ hl
    have hsl : slotID = cfg.slotOf key := slot_of_key wf hk hs
    have hnk : nodeOf cfg s key = some n := by rw [nodeOf, ← hsl]; exact hf
    obtain ⟨hkw, _⟩ := awaits_key hw hlw
    have hwl : w ≠ l := by
      intro e; subst e; rw [hl] at hlw; cases hlw
      exact woken_ne wf hc hk hkw
    have hne : ∀ l' x k, s.locks l' = some x → x.holds k → l' ≠ l → k ≠ key := by
      intro l' x k hx hh hl'l e
      obtain ⟨n', hn, hnh⟩ := h1.holds l' x k hx hh
      rw [e, hnk] at hn; cases hn; rw [hh0] at hnh; cases hnh; exact hl'l rfl
    obtain ⟨hnm, hnkey⟩ := findNode_some hf
    obtain ⟨hA, hB⟩ := node_part_upd (f := relNodeF (max n.maxCommitTS lk.commitTS) lk.commitTS (some w))
      (cnt := (s.slots slotID).count) (wt := (s.slots slotID).waiting.erase w) h1 h hf
      (pub := (key, lk.commitTS) :: s.published) (fun _ he => List.mem_cons_of_mem _ he)
      (by
        intro c hc; simp only [relNodeF, List.mem_cons] at hc ⊢
        rcases hc with e | hc
        · omega
        · have := h.pubs_le _ n c hnm hc; omega)
      (by
        simp only [relNodeF, hnkey]
        rcases max_cases n.maxCommitTS lk.commitTS with e | e
        · rw [e]; rcases h.max_pub _ n hnm with h0 | h0
          · exact .inl h0
          · right; rw [hnkey] at h0; exact List.mem_cons_of_mem _ h0
        · rw [e]; right; simp)
    refine ⟨hA, hB, ?_, ?_⟩
    · intro l' x hx hs'
      rcases upd_some hx with ⟨_, e⟩ | ⟨_, hx⟩
      · subst e
        refine ⟨key, max n.maxCommitTS lk.commitTS, List.mem_of_getElem? hkw, ?_, hgt⟩
        rcases max_cases n.maxCommitTS lk.commitTS with e | e
        · rw [e]; rcases h.max_pub _ n hnm with h0 | h0
          · rw [e, h0] at hgt; omega
          · rw [hnkey] at h0; exact List.mem_cons_of_mem _ h0
        · rw [e]; simp
      · rcases upd_some hx with ⟨_, e⟩ | ⟨_, hx⟩
        · subst e
          obtain ⟨k, c, h1', h2', h3'⟩ := h.stale_pub _ lk hl hs'
          exact ⟨k, c, h1', List.mem_cons_of_mem _ h2', h3'⟩
        · obtain ⟨k, c, h1', h2', h3'⟩ := h.stale_pub _ _ hx hs'
          exact ⟨k, c, h1', List.mem_cons_of_mem _ h2', h3'⟩
    · intro l' x k n' hx hs' hh hn
      rcases upd_some hx with ⟨_, e⟩ | ⟨_, hx⟩
      · subst e; cases hs'
      · rcases upd_some hx with ⟨e1, e⟩ | ⟨hl'l, hx⟩
        · subst e; subst e1
          obtain ⟨hh, hkk⟩ := (holds_rel wf hk).mp hh
          rw [nodeOf_updNode_ne (relF_key _ _ _) hkk] at hn
          exact h.held_fresh _ lk k n' hl hs' hh hn
        · rw [nodeOf_updNode_ne (relF_key _ _ _) (hne _ _ k hx hh hl'l)] at hn
          exact h.held_fresh _ _ k n' hx hs' hh hn
  | relWake l lk key slotID n w lkw hl hp hc hk hs hf hh0 hw hlw hle =>
    have wf := h1.wf _ _ hl
    have hsl : slotID = cfg.slotOf key := slot_of_key wf hk hs
    have hnk : nodeOf cfg s key = some n := by rw [nodeOf, ← hsl]; exact hf
    obtain ⟨hkw, _⟩ := awaits_key hw hlw
    have hwl : w ≠ l := by
      intro e; subst e; rw [hl] at hlw; cases hlw
      exact woken_ne wf hc hk hkw
    have hne : ∀ l' x k, s.locks l' = some x → x.holds k → l' ≠ l → k ≠ key := by
      intro l' x k hx hh hl'l e
      obtain ⟨n', hn, hnh⟩ := h1.holds l' x k hx hh
      rw [e, hnk] at hn; cases hn; rw [hh0] at hnh; cases hnh; exact hl'l rfl
    obtain ⟨hnm, hnkey⟩ := findNode_some hf
    obtain ⟨hA, hB⟩ := node_part_upd (f := relNodeF (max n.maxCommitTS lk.commitTS) lk.commitTS none)
      (cnt := (s.slots slotID).count) (wt := (s.slots slotID).waiting.erase w) h1 h hf
      (pub := (key, lk.commitTS) :: s.published) (fun _ he => List.mem_cons_of_mem _ he)
      (by
        intro c hc; simp only [relNodeF, List.mem_cons] at hc ⊢
        rcases hc with e | hc
        · omega
        · have := h.pubs_le _ n c hnm hc; omega)
      (by
        simp only [relNodeF, hnkey]
        rcases max_cases n.maxCommitTS lk.commitTS with e | e
        · rw [e]; rcases h.max_pub _ n hnm with h0 | h0
          · exact .inl h0
          · right; rw [hnkey] at h0; exact List.mem_cons_of_mem _ h0
        · rw [e]; right; simp)
    refine ⟨hA, hB, ?_, ?_⟩
    · intro l' x hx hs'
      rcases upd_some hx with ⟨_, e⟩ | ⟨_, hx⟩
      · subst e
        obtain ⟨k, c, h1', h2', h3'⟩ := h.stale_pub _ lkw hlw hs'
        exact ⟨k, c, h1', List.mem_cons_of_mem _ h2', h3'⟩
      · rcases upd_some hx with ⟨_, e⟩ | ⟨_, hx⟩
        · subst e
          obtain ⟨k, c, h1', h2', h3'⟩ := h.stale_pub _ lk hl hs'
          exact ⟨k, c, h1', List.mem_cons_of_mem _ h2', h3'⟩
        · obtain ⟨k, c, h1', h2', h3'⟩ := h.stale_pub _ _ hx hs'
          exact ⟨k, c, h1', List.mem_cons_of_mem _ h2', h3'⟩
    · intro l' x k n' hx hs' hh hn
      rcases upd_some hx with ⟨e1, e⟩ | ⟨hl'w, hx⟩
      · subst e; subst e1
        have hh : lkw.holds k := hh
        rw [nodeOf_updNode_ne (relF_key _ _ _) (hne _ _ k hlw hh hwl)] at hn
        exact h.held_fresh _ lkw k n' hlw hs' hh hn
      · rcases upd_some hx with ⟨e1, e⟩ | ⟨hl'l, hx⟩
        · subst e; subst e1
          obtain ⟨hh, hkk⟩ := (holds_rel wf hk).mp hh
          rw [nodeOf_updNode_ne (relF_key _ _ _) hkk] at hn
          exact h.held_fresh _ lk k n' hl hs' hh hn
        · rw [nodeOf_updNode_ne (relF_key _ _ _) (hne _ _ k hx hh hl'l)] at hn
          exact h.held_fresh _ _ k n' hx hs' hh hn

theorem Reachable.inv3 {cfg : Cfg} {s : State} (h : Reachable cfg s) : Inv3 cfg s := by
  induction h with
  | init => exact Inv3.init cfg
  | @step s0 s2 a hr hs ih =>
    obtain ⟨s1, h1, e⟩ := step_eff hs
    rcases h1 with rfl | ⟨i, ts, rfl⟩
    · exact ih.eff hr.inv12.1 e
    · have e0 := Eff.recycle (cfg := cfg) (s := s0) i ts
      exact (ih.eff hr.inv12.1 e0).eff (hr.inv12.1.eff e0) e

/-- executing a list of actions (used by the non-vacuity examples) -/
def run (cfg : Cfg) : State → List Action → Option State
  | s, [] => some s
  | s, a :: as => (step cfg s a).bind (fun s' => run cfg s' as)

theorem reachable_run {cfg : Cfg} : ∀ {s s' : State} (as : List Action), Reachable cfg s → run cfg s as = some s' →
    Reachable cfg s'
  | s, s', [], hr, h => by simp only [run] at h; cases h; exact hr
  | s, s', a :: as, hr, h => by
    simp only [run] at h
    cases hs : step cfg s a with
    | none => rw [hs] at h; cases h
    | some s1 => rw [hs] at h; exact reachable_run as (Reachable.step a hr hs) h

/-! ## a concrete configuration for the non-vacuity examples of Props/C17 -/

def cfg0 : Cfg := { slotOf := fun _ => 0, listCount := 5, expireMs := 120000, shift := 18 }
def k1 : Key := [1]
def k2 : Key := [2]

theorem sort1 (k : Key) : sortKeys [k] = [k] := by simp [sortKeys]

macro "latch_eval" : tactic =>
  `(tactic| simp [run, step, genLock, sort1, acquireStep, acquireSlot, preRecycle, acquireCore, unlock, releaseSlot,
      Latch.init, emptySlot, upd, cfg0, findNode, updNode, awaits, phaseAfterSuccess, k1, k2, Lock.fullyAcquired,
      nodeOf, Lock.nextKey, HasHolder])


end CGV.Latch
