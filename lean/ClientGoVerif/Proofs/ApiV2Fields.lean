/-
  Lemmas about the C15 field walker (`Model/ApiV2Fields.lean`): what a row that satisfies the catalogue rule does
  to every key, for every keyspace.
-/
import ClientGoVerif.Proofs.ApiV2
import ClientGoVerif.Model.ApiV2Fields
namespace CGV.ApiV2.Cat
open CGV CGV.Codec CGV.ApiV2 CGV.ApiV2.Lemmas

theorem req_ok_effect {r : FieldRow} (hs : r.side = .req) (hok : r.ok = true) : r.effect = .prefixed := by
  unfold FieldRow.ok at hok
  rw [hs] at hok
  simp only [Bool.and_eq_true, beq_iff_eq] at hok
  exact hok.1.1

theorem req_ok_empty {r : FieldRow} (hs : r.side = .req) (hok : r.ok = true) :
    (r.role = .end_ → r.empty = .kend) ∧ (r.role = .start → r.empty = .kstart) ∧
    (r.role = .key → r.empty = .kstart ∨ r.empty = .empty) := by
  unfold FieldRow.ok at hok
  rw [hs] at hok
  simp only [Bool.and_eq_true, beq_iff_eq] at hok
  have h := hok.2
  refine ⟨?_, ?_, ?_⟩ <;> intro hr <;> rw [hr] at h <;> simp at h <;> exact h

theorem resp_ok_plain {r : FieldRow} (hs : r.side = .resp) (hf : r.fmt = .plain) (hok : r.ok = true) :
    r.effect = .stripped := by
  unfold FieldRow.ok at hok
  rw [hs] at hok
  simp only [hf, beq_iff_eq] at hok
  exact hok

theorem resp_ok_region {r : FieldRow} (hs : r.side = .resp) (hf : r.fmt = .region) (hok : r.ok = true) :
    r.effect = .strippedRegion := by
  unfold FieldRow.ok at hok
  rw [hs] at hok
  simp only [hf, beq_iff_eq] at hok
  exact hok

theorem isEmpty_false_of_ne {k : Bytes} (h : k ≠ []) : k.isEmpty = false := by
  cases k <;> simp_all

/-- a conforming request row prefixes every non-empty key -/
theorem req_action_nonempty {r : FieldRow} (hs : r.side = .req) (hok : r.ok = true) (ks : Keyspace) {k : Bytes}
    (hk : k ≠ []) : r.action ks k = .ok (encodeKey ks k) := by
  simp [FieldRow.action, req_ok_effect hs hok, isEmpty_false_of_ne hk]

/-- … and maps the empty key to the keyspace end (range end), to the keyspace prefix (range start), to the prefix
    or to "unset" (plain key) -/
theorem req_action_empty {r : FieldRow} (hs : r.side = .req) (hok : r.ok = true) (ks : Keyspace) :
    (r.role = .end_ → r.action ks [] = .ok ks.endKey) ∧ (r.role = .start → r.action ks [] = .ok ks.pfx) ∧
    (r.role = .key → r.action ks [] = .ok ks.pfx ∨ r.action ks [] = .ok []) := by
  obtain ⟨h1, h2, h3⟩ := req_ok_empty hs hok
  refine ⟨?_, ?_, ?_⟩
  · intro hr; simp [FieldRow.action, req_ok_effect hs hok, h1 hr]
  · intro hr; simp [FieldRow.action, req_ok_effect hs hok, h2 hr]
  · intro hr
    rcases h3 hr with h | h
    · left; simp [FieldRow.action, req_ok_effect hs hok, h]
    · right; simp [FieldRow.action, req_ok_effect hs hok, h]

theorem resp_action_plain {r : FieldRow} (hs : r.side = .resp) (hf : r.fmt = .plain) (hok : r.ok = true)
    (ks : Keyspace) (x : Bytes) : r.action ks x = decodeKey ks x := by
  simp [FieldRow.action, resp_ok_plain hs hf hok]

/-! ## decodeKey facts used by the lifted theorems -/

theorem pfx_ne_nil (ks : Keyspace) : ks.pfx ≠ [] := by
  intro h
  have := pfx_length ks
  rw [h] at this; simp at this

theorem encodeKey_ne_nil (ks : Keyspace) (k : Bytes) : encodeKey ks k ≠ [] := by
  intro h
  have : (encodeKey ks k).length = 4 + k.length := by simp [encodeKey, pfx_length]
  rw [h] at this; simp at this; omega

theorem decodeKey_encodeKey (ks : Keyspace) (k : Bytes) : decodeKey ks (encodeKey ks k) = .ok k := by
  simp [decodeKey, encodeKey, isEmpty_false_of_ne (encodeKey_ne_nil ks k), isPrefix_append,
    isEmpty_false_of_ne (by simpa [encodeKey] using encodeKey_ne_nil ks k : ks.pfx ++ k ≠ [])]

/-- a prefixed key of one keyspace does not carry the prefix of a different one -/
theorem not_prefix_foreign {a b : Keyspace} (ha : a.valid = true) (hb : b.valid = true) (hne : a ≠ b) (k : Bytes) :
    Bytes.isPrefix b.pfx (encodeKey a k) = false := by
  cases hp : Bytes.isPrefix b.pfx (encodeKey a k) with
  | false => rfl
  | true =>
    exfalso
    have h1 := (isPrefix_iff_take b.pfx (encodeKey a k)).mp hp
    rw [pfx_length, encodeKey, take_pfx_append] at h1
    exact hne (pfx_inj ha hb h1)

theorem decodeKey_foreign {a b : Keyspace} (ha : a.valid = true) (hb : b.valid = true) (hne : a ≠ b) (k : Bytes) :
    decodeKey b (encodeKey a k) = .error .outOfBound := by
  simp [decodeKey, isEmpty_false_of_ne (encodeKey_ne_nil a k), not_prefix_foreign ha hb hne k]

theorem decodeKey_sound {ks : Keyspace} {x k : Bytes} (hx : x ≠ []) (h : decodeKey ks x = .ok k) : x = encodeKey ks k := by
  unfold decodeKey at h
  simp only [isEmpty_false_of_ne hx, Bool.false_eq_true, if_false] at h
  split at h
  · rename_i hp; cases h; exact isPrefix_eq_append hp
  · cases h


/-! ## echo: request field → store → response field -/

theorem echo_same {rq rp : FieldRow} (hq : rq.side = .req) (hqo : rq.ok = true)
    (hp : rp.side = .resp) (hpf : rp.fmt = .plain) (hpo : rp.ok = true) (ks : Keyspace) {k : Bytes} (hk : k ≠ []) :
    echo ks ks rq rp k = .ok k := by
  simp [echo, req_action_nonempty hq hqo ks hk, resp_action_plain hp hpf hpo, decodeKey_encodeKey]

theorem echo_foreign {rq rp : FieldRow} (hq : rq.side = .req) (hqo : rq.ok = true)
    (hp : rp.side = .resp) (hpf : rp.fmt = .plain) (hpo : rp.ok = true) {a b : Keyspace}
    (ha : a.valid = true) (hb : b.valid = true) (hne : a ≠ b) {k : Bytes} (hk : k ≠ []) :
    echo a b rq rp k = .error .outOfBound := by
  simp [echo, req_action_nonempty hq hqo a hk, resp_action_plain hp hpf hpo, decodeKey_foreign ha hb hne]

theorem actionAll_ok {r : FieldRow} {ks : Keyspace} (f : Bytes → Bytes) :
    ∀ xs : List Bytes, (∀ x ∈ xs, r.action ks x = .ok (f x)) → r.actionAll ks xs = .ok (xs.map f)
  | [], _ => rfl
  | x :: xs, h => by
    have h1 := h x (by simp)
    have h2 := actionAll_ok f xs (fun y hy => h y (by simp [hy]))
    simp [FieldRow.actionAll, h1, h2]

theorem echoAll_same {rq rp : FieldRow} (hq : rq.side = .req) (hqo : rq.ok = true)
    (hp : rp.side = .resp) (hpf : rp.fmt = .plain) (hpo : rp.ok = true) (ks : Keyspace) (l : List Bytes)
    (hl : ∀ k ∈ l, k ≠ []) : echoAll ks ks rq rp l = .ok l := by
  have h1 := actionAll_ok (r := rq) (ks := ks) (encodeKey ks) l (fun x hx => req_action_nonempty hq hqo ks (hl x hx))
  have h2 := actionAll_ok (r := rp) (ks := ks) (fun e => e.drop ks.pfx.length) (l.map (encodeKey ks)) (by
    intro x hx
    obtain ⟨k, _, rfl⟩ := List.mem_map.mp hx
    rw [resp_action_plain hp hpf hpo, decodeKey_encodeKey]
    simp [encodeKey])
  simp only [echoAll, h1, h2, List.map_map]
  congr 1
  rw [List.map_congr_left (g := id)]
  · simp
  · intro k _; simp [encodeKey]

theorem echoAll_foreign {rq rp : FieldRow} (hq : rq.side = .req) (hqo : rq.ok = true)
    (hp : rp.side = .resp) (hpf : rp.fmt = .plain) (hpo : rp.ok = true) {a b : Keyspace}
    (ha : a.valid = true) (hb : b.valid = true) (hne : a ≠ b) (l : List Bytes) (hl : ∀ k ∈ l, k ≠ []) (hne' : l ≠ []) :
    echoAll a b rq rp l = .error .outOfBound := by
  have h1 := actionAll_ok (r := rq) (ks := a) (encodeKey a) l (fun x hx => req_action_nonempty hq hqo a (hl x hx))
  cases l with
  | nil => exact absurd rfl hne'
  | cons k ks' =>
    unfold echoAll
    rw [h1]
    simp [FieldRow.actionAll, resp_action_plain hp hpf hpo, decodeKey_foreign ha hb hne]

/-- nothing but a key of this very keyspace is ever delivered by a conforming plain response field -/
theorem resp_action_sound {rp : FieldRow} (hp : rp.side = .resp) (hpf : rp.fmt = .plain) (hpo : rp.ok = true)
    (ks : Keyspace) {x k : Bytes} (hx : x ≠ []) (h : rp.action ks x = .ok k) : x = encodeKey ks k := by
  rw [resp_action_plain hp hpf hpo] at h
  exact decodeKey_sound hx h

/-- whatever a conforming request field puts on the wire lies inside `[prefix, endKey]` of the keyspace (or is the
    "unset" empty string); a non-empty user key lies strictly below the end -/
theorem req_action_within_bounds {rq : FieldRow} (hq : rq.side = .req) (hqo : rq.ok = true) (ks : Keyspace)
    (hv : ks.valid = true) (k w : Bytes) (h : rq.action ks k = .ok w) (hw : w ≠ []) :
    Bytes.le ks.pfx w = true ∧ Bytes.le w ks.endKey = true ∧ (k ≠ [] → Bytes.lt w ks.endKey = true) := by
  have hPE := cmp_pfx_end ks hv
  by_cases hk : k = []
  · subst hk
    obtain ⟨h1, h2, h3⟩ := req_action_empty hq hqo ks
    have hcases : w = ks.endKey ∨ w = ks.pfx := by
      cases hr : rq.role with
      | end_ => left; have := h1 hr; rw [this] at h; cases h; rfl
      | start => right; have := h2 hr; rw [this] at h; cases h; rfl
      | key =>
        rcases h3 hr with h' | h'
        · right; rw [h'] at h; cases h; rfl
        · rw [h'] at h; cases h; exact absurd rfl hw
    rcases hcases with rfl | rfl
    · simp [Bytes.le, hPE, cmp_refl]
    · simp [Bytes.le, hPE, cmp_refl]
  · rw [req_action_nonempty hq hqo ks hk] at h
    cases h
    have h1 := pfx_le_enc ks k
    have h2 := enc_lt_end ks hv k
    simp only [encodeKey]
    simp [Bytes.le, Bytes.lt, h2]
    exact h1



/-! ## region-format fields -/

theorem memDecode_encode (x : Bytes) : memDecode (encodeBytes x) = .ok x := by
  simp [memDecode, decode_encode_bytes_nil]

theorem encodeBytes_isEmpty (x : Bytes) : (encodeBytes x).isEmpty = false :=
  isEmpty_false_of_ne (encodeBytes_ne_nil x)

/-- on canonical region bounds `DecodeRegionRange` is `DecodeRange` of the decoded bounds -/
theorem decodeRegionRange_canonical (ks : Keyspace) (rs re : Bytes) :
    decodeRegionRange ks (encRegionBound rs) (encRegionBound re) = decodeRange ks rs re := by
  unfold decodeRegionRange encRegionBound
  cases hs : rs.isEmpty <;> cases he : re.isEmpty <;>
    simp [hs, he, encodeBytes_isEmpty, memDecode_encode] <;>
    (try (have : rs = [] := by cases rs <;> simp_all)) <;> (try (have : re = [] := by cases re <;> simp_all)) <;>
    simp_all

/-- wire order on region keys = order of the decoded keys, with the empty-end convention kept -/
theorem inRegion_canonical (x rs re : Bytes) :
    inRegion (encodeBytes x) (encRegionBound rs) (encRegionBound re) = inRegion x rs re := by
  unfold inRegion encRegionBound
  cases hs : rs.isEmpty <;> cases he : re.isEmpty <;>
    simp [hs, he, Bytes.le, Bytes.lt, encodeBytes_cmp, encodeBytes_isEmpty]
  · have : rs = [] := by cases rs <;> simp_all
    subst this
    cases h : encodeBytes x with
    | nil => exact absurd h (encodeBytes_ne_nil x)
    | cons c cs => cases x <;> simp [Bytes.cmp] <;> rfl
  · have : rs = [] := by cases rs <;> simp_all
    subst this
    cases h : encodeBytes x with
    | nil => exact absurd h (encodeBytes_ne_nil x)
    | cons c cs => cases x <;> simp [Bytes.cmp] <;> rfl



theorem isPrefix_nil_false (ks : Keyspace) : Bytes.isPrefix ks.pfx [] = false := by
  cases h : ks.pfx with
  | nil => exact absurd h (pfx_ne_nil ks)
  | cons c cs => rfl

theorem cmp_nil_end (ks : Keyspace) : Bytes.cmp [] ks.endKey = .lt := by
  have := endKey_length ks
  cases h : ks.endKey with
  | nil => rw [h] at this; simp at this
  | cons c cs => rfl

theorem decodeRange_own_start (ks : Keyspace) (hv : ks.valid = true) (k : Bytes) :
    decodeRange ks (encodeKey ks k) [] = .ok (k, []) := by
  have h1 : Bytes.cmp (ks.pfx ++ k) ks.endKey = .lt := enc_lt_end ks hv k
  simp [decodeRange, encodeKey, h1, isPrefix_append, isPrefix_nil_false]

theorem decodeRange_own_end (ks : Keyspace) (k : Bytes) (hk : k ≠ []) :
    decodeRange ks [] (encodeKey ks k) = .ok ([], k) := by
  have h2 : Bytes.cmp (ks.pfx ++ k) ks.pfx = .gt := by
    have := cmp_append_left ks.pfx k []
    simp only [List.append_nil] at this
    rw [this]; cases k with
    | nil => exact absurd rfl hk
    | cons c cs => rfl
  have h3 : (ks.pfx ++ k).isEmpty = false := isEmpty_false_of_ne (by simpa [encodeKey] using encodeKey_ne_nil ks k)
  simp [decodeRange, encodeKey, cmp_nil_end, h2, h3, isPrefix_append, isPrefix_nil_false]

theorem resp_region_start {r : FieldRow} (hs : r.side = .resp) (hf : r.fmt = .region) (hok : r.ok = true)
    (hr : r.role = .start) (ks : Keyspace) (hv : ks.valid = true) (k : Bytes) :
    r.action ks (encodeRegionKey ks k) = .ok k := by
  have h := decodeRegionRange_canonical ks (encodeKey ks k) []
  simp only [encRegionBound, isEmpty_false_of_ne (encodeKey_ne_nil ks k), Bool.false_eq_true, if_false,
    List.isEmpty_nil, if_true] at h
  simp [FieldRow.action, resp_ok_region hs hf hok, hr, encodeRegionKey, h, decodeRange_own_start ks hv k]

theorem resp_region_end {r : FieldRow} (hs : r.side = .resp) (hf : r.fmt = .region) (hok : r.ok = true)
    (hr : r.role = .end_) (ks : Keyspace) (k : Bytes) (hk : k ≠ []) :
    r.action ks (encodeRegionKey ks k) = .ok k := by
  have h := decodeRegionRange_canonical ks [] (encodeKey ks k)
  simp only [encRegionBound, isEmpty_false_of_ne (encodeKey_ne_nil ks k), Bool.false_eq_true, if_false,
    List.isEmpty_nil, if_true] at h
  simp [FieldRow.action, resp_ok_region hs hf hok, hr, encodeRegionKey, h, decodeRange_own_end ks k hk]

theorem decodeRange_fst_sound {ks : Keyspace} {s e : Bytes} {p : Bytes × Bytes} (h : decodeRange ks s e = .ok p)
    (hp : p.1 ≠ []) : s = encodeKey ks p.1 := by
  unfold decodeRange at h
  split at h
  · cases h
  · cases h
    simp only at hp ⊢
    split
    · rename_i hpre; exact isPrefix_eq_append hpre
    · rename_i hpre; simp [hpre] at hp

theorem decodeRange_snd_sound {ks : Keyspace} {s e : Bytes} {p : Bytes × Bytes} (h : decodeRange ks s e = .ok p)
    (hp : p.2 ≠ []) : e = encodeKey ks p.2 := by
  unfold decodeRange at h
  split at h
  · cases h
  · cases h
    simp only at hp ⊢
    split
    · rename_i hpre; exact isPrefix_eq_append hpre
    · rename_i hpre; simp [hpre] at hp

theorem decodeRange_nil_nil (ks : Keyspace) : decodeRange ks [] [] = .ok ([], []) := by
  simp [decodeRange, cmp_nil_end, isPrefix_nil_false]

/-- region bucket keys (role `key` in region format): an inner bucket key of this keyspace is delivered stripped -/
theorem resp_region_key {r : FieldRow} (hs : r.side = .resp) (hf : r.fmt = .region) (hok : r.ok = true)
    (hr : r.role = .key) (ks : Keyspace) (k : Bytes) : r.action ks (encodeRegionKey ks k) = .ok k := by
  simp [FieldRow.action, resp_ok_region hs hf hok, hr, encodeRegionKey, memDecode_encode, encodeKey, isPrefix_append]

/-- a region bound that is delivered non-empty is the (memcomparable form of the) encoding of the delivered key in
    THIS keyspace: a bound belonging to another keyspace is clipped to "unbounded" or the region is rejected,
    it is never handed to the caller as a key -/
theorem resp_region_sound {r : FieldRow} (hs : r.side = .resp) (hf : r.fmt = .region) (hok : r.ok = true)
    (ks : Keyspace) {x k : Bytes} (h : r.action ks x = .ok k) (hk : k ≠ []) :
    memDecode x = .ok (encodeKey ks k) := by
  have he := resp_ok_region hs hf hok
  unfold FieldRow.action at h
  rw [he] at h
  simp only at h
  cases hr : r.role with
  | key =>
    rw [hr] at h
    simp only at h
    cases hm : memDecode x with
    | error e => simp [hm] at h
    | ok s =>
      simp only [hm] at h
      split at h
      · rename_i hp
        cases h
        rw [encodeKey, ← isPrefix_eq_append hp]
      · cases h
  | start =>
    rw [hr] at h
    simp only at h
    unfold decodeRegionRange at h
    cases hx : x.isEmpty with
    | true =>
      simp only [hx, if_true, List.isEmpty_nil, decodeRange_nil_nil] at h
      cases h; exact absurd rfl hk
    | false =>
      simp only [hx, Bool.false_eq_true, if_false, List.isEmpty_nil, if_true] at h
      cases hm : memDecode x with
      | error e => simp [hm] at h
      | ok s =>
        simp only [hm] at h
        cases hd : decodeRange ks s [] with
        | error e => simp [hd] at h
        | ok p =>
          simp only [hd, Except.ok.injEq] at h
          subst h
          rw [← decodeRange_fst_sound hd hk]
  | end_ =>
    rw [hr] at h
    simp only at h
    unfold decodeRegionRange at h
    cases hx : x.isEmpty with
    | true =>
      simp only [hx, if_true, List.isEmpty_nil, decodeRange_nil_nil] at h
      cases h; exact absurd rfl hk
    | false =>
      simp only [hx, Bool.false_eq_true, if_false, List.isEmpty_nil, if_true] at h
      cases hm : memDecode x with
      | error e => simp [hm] at h
      | ok s =>
        simp only [hm] at h
        cases hd : decodeRange ks [] s with
        | error e => simp [hd] at h
        | ok p =>
          simp only [hd, Except.ok.injEq] at h
          subst h
          rw [← decodeRange_snd_sound hd hk]


end CGV.ApiV2.Cat
