import ClientGoVerif.Proofs.BatchMuxFlush
/-! The id allocator: ids handed out by the builder are strictly increasing (history invariant on `allocLog`). -/
namespace CGV.BatchMux
open List

structure InvL (s : State) : Prop where
  mono : (s.allocLog.map (·.1)).Pairwise (· > ·)
  le : ∀ p ∈ s.allocLog, 0 < p.1 ∧ p.1 ≤ s.idAlloc

theorem InvL.same {s s' : State} (h : InvL s) (h1 : s'.allocLog = s.allocLog) (h2 : s'.idAlloc = s.idAlloc) : InvL s' :=
  ⟨h1 ▸ h.mono, by rw [h1, h2]; exact h.le⟩

theorem failSlots_log (s : State) (cid : Nat) (dead : Slot → Bool) (err : Err) :
    (failSlots s cid dead err).allocLog = s.allocLog ∧ (failSlots s cid dead err).idAlloc = s.idAlloc := ⟨rfl, rfl⟩

theorem sendGroup_log (s : State) (cid fwd : Nat) :
    (sendGroup s cid fwd).allocLog = s.allocLog ∧ (sendGroup s cid fwd).idAlloc = s.idAlloc := by
  have he : (ensureStream s cid fwd).allocLog = s.allocLog ∧ (ensureStream s cid fwd).idAlloc = s.idAlloc := by
    unfold ensureStream; split <;> exact ⟨rfl, rfl⟩
  unfold CGV.BatchMux.sendGroup
  simp only
  split
  · exact ⟨rfl, rfl⟩
  · generalize findStream (ensureStream s cid fwd).streams cid fwd = st
    cases st <;> simp only <;> split <;> exact he

theorem sendAll_log (s : State) (cid : Nat) : ∀ k,
    (sendAll s cid k).allocLog = s.allocLog ∧ (sendAll s cid k).idAlloc = s.idAlloc
  | 0 => sendGroup_log s cid 0
  | k + 1 => by
    have h1 := sendAll_log s cid k
    have h2 := sendGroup_log (sendAll s cid k) cid (k + 1)
    exact ⟨h2.1.trans h1.1, h2.2.trans h1.2⟩

theorem InvL.flushBegin {s : State} (hL : InvL s) : InvL (flushBegin s) := by
  unfold CGV.BatchMux.flushBegin
  split
  · exact hL
  simp only
  generalize chooseClient s.clients _ s.clients.length s.index = pk
  obtain ⟨idx, pick⟩ := pk
  simp only
  cases pick with
  | none =>
    simp only
    split
    · exact hL.same rfl rfl
    · exact hL.same rfl rfl
  | some cid =>
    simp only
    generalize hbl : buildLoop s.entries _ (s.heap.length + 1) s.heap { idAlloc := s.idAlloc, count := 0, items := [] } = r
    obtain ⟨hp, bst⟩ := r
    simp only
    obtain ⟨tk, _, hrel⟩ := buildLoop_rel _ _ _ _ _ _ _ hbl
    obtain ⟨hmono, hle⟩ := hrel.mono (by simp) (by simp)
    have hmem : ∀ it ∈ bst.items, s.idAlloc < it.id := by
      intro it hit
      rcases hrel.mem it hit with h | h
      · simp at h
      · exact h.2.1
    refine ⟨?_, ?_⟩
    · simp only [List.map_append, List.map_map, Function.comp_def]
      refine List.pairwise_append.mpr ⟨hmono, hL.mono, ?_⟩
      intro a ha b hb
      obtain ⟨it, hit, rfl⟩ := List.mem_map.mp ha
      obtain ⟨p, hp', rfl⟩ := List.mem_map.mp hb
      have := (hL.le p hp').2
      have := hmem it hit
      show it.id > p.1
      omega
    · intro p hp'
      rcases List.mem_append.mp hp' with h | h
      · obtain ⟨it, hit, rfl⟩ := List.mem_map.mp h
        have := hmem it hit
        exact ⟨by show 0 < it.id; omega, hle it hit⟩
      · have := hL.le p h
        exact ⟨this.1, Nat.le_trans this.2 hrel.le⟩

theorem InvL.flushEnd {s : State} (hL : InvL s) : InvL (flushEnd s) := by
  unfold CGV.BatchMux.flushEnd
  split
  · exact hL
  · rename_i cid _
    have := sendAll_log s cid s.nfwd
    exact hL.same this.1 this.2

theorem InvL.flush {s : State} (hL : InvL s) : InvL (flush s) := hL.flushBegin.flushEnd

theorem recvFold_log (cid : Nat) : ∀ (rs : List (Nat × Nat)) (s : State),
    (rs.foldl (recv1 cid) s).allocLog = s.allocLog ∧ (rs.foldl (recv1 cid) s).idAlloc = s.idAlloc
  | [], _ => ⟨rfl, rfl⟩
  | r :: rest, s => by
    have h1 := recvFold_log cid rest (recv1 cid s r)
    have h2 : (recv1 cid s r).allocLog = s.allocLog ∧ (recv1 cid s r).idAlloc = s.idAlloc := by
      unfold recv1; simp only; split <;> exact ⟨rfl, rfl⟩
    exact ⟨h1.1.trans h2.1, h1.2.trans h2.2⟩

theorem InvL.step {s : State} (hL : InvL s) (op : Op) : InvL (step s op) := by
  cases op with
  | submit p pri fwd =>
    have : (CGV.BatchMux.submit s p pri fwd).allocLog = s.allocLog ∧ (CGV.BatchMux.submit s p pri fwd).idAlloc = s.idAlloc := by
      unfold CGV.BatchMux.submit; simp only; split <;> exact ⟨rfl, rfl⟩
    exact hL.same this.1 this.2
  | fetch max =>
    have : (CGV.BatchMux.fetch s max).allocLog = s.allocLog ∧ (CGV.BatchMux.fetch s max).idAlloc = s.idAlloc := by
      unfold CGV.BatchMux.fetch; split <;> exact ⟨rfl, rfl⟩
    exact hL.same this.1 this.2
  | breset => exact hL.same rfl rfl
  | flush => exact hL.flush
  | flushBegin => exact hL.flushBegin
  | flushEnd => exact hL.flushEnd
  | recv cid fwd rs =>
    have : (CGV.BatchMux.recv s cid fwd rs).allocLog = s.allocLog ∧ (CGV.BatchMux.recv s cid fwd rs).idAlloc = s.idAlloc := by
      unfold CGV.BatchMux.recv
      split
      · exact ⟨rfl, rfl⟩
      · split
        · exact ⟨rfl, rfl⟩
        · exact recvFold_log cid rs s
    exact hL.same this.1 this.2
  | kill cid fwd =>
    have : (CGV.BatchMux.kill s cid fwd).allocLog = s.allocLog ∧ (CGV.BatchMux.kill s cid fwd).idAlloc = s.idAlloc := by
      unfold CGV.BatchMux.kill
      split
      · exact ⟨rfl, rfl⟩
      · split
        · exact ⟨rfl, rfl⟩
        · split <;> exact ⟨rfl, rfl⟩
    exact hL.same this.1 this.2
  | cancel h => exact hL.same rfl rfl
  | timeout h => exact hL.same rfl rfl
  | wake h => exact hL.same rfl rfl
  | close => exact hL.same rfl rfl
  | sendfail cid fwd b => exact hL.same rfl rfl
  | lockrec cid b => exact hL.same rfl rfl
  | setlimit cid l => exact hL.same rfl rfl
  | cfgcancel b => exact hL.same rfl rfl
  | panicRecover => exact hL

theorem InvL.init (n limit nfwd : Nat) : InvL (init n limit nfwd) := by
  constructor <;> simp [CGV.BatchMux.init]

theorem InvL.run {s : State} (hL : InvL s) : ∀ ops : List Op, InvL (run s ops) := by
  intro ops
  induction ops generalizing s with
  | nil => exact hL
  | cons op rest ih => exact ih (hL.step op)

/-- winner branch of `kill`: every pending entry of that stream of that client is completed with the stream error,
    and none of them stays in the table -/
theorem kill_winner {s : State} (hA : InvA s) (cid fwd : Nat) (hc : s.closed = false) (hw : killWins s cid fwd = true) :
    (∀ sl ∈ s.table, sl.cid = cid → sl.fwd = fwd →
        ∃ e, (kill s cid fwd).entries[sl.h]? = some e ∧ e.chan = .closed .stream) ∧
    (∀ sl ∈ (kill s cid fwd).table, ¬ (sl.cid = cid ∧ sl.fwd = fwd)) := by
  unfold killWins at hw
  unfold CGV.BatchMux.kill
  simp only [hc, Bool.false_eq_true, if_false]
  split
  · simp_all
  · rename_i st hst
    rw [hst] at hw
    have hw' : st.lep = clientEpoch s.clients cid := by simpa using hw
    simp only [hw', if_true]
    constructor
    · intro sl hm h1 h2
      have hloc : sl.h ∈ locs s := by
        simp only [locs, List.mem_append, List.mem_map]; exact Or.inr ⟨sl, hm, rfl⟩
      obtain ⟨e, he, hf⟩ := hA.fresh sl.h hloc
      refine ⟨e.fail .stream, ?_, by simp [Entry.fail, hf]⟩
      show (updIn s.entries _ _)[sl.h]? = _
      rw [getElem?_updIn, he]
      have : ((s.table.filter fun x => x.cid = cid ∧ (fun sl => decide (sl.fwd = fwd)) x = true).map (·.h)).contains sl.h = true := by
        simp only [List.contains_iff_mem, List.mem_map, List.mem_filter]
        exact ⟨sl, ⟨hm, by simp [h1, h2]⟩, rfl⟩
      simp only [Option.map_some, this, if_true]
    · intro sl hm
      have : sl ∈ s.table.filter (fun x => ¬ (x.cid = cid ∧ (fun sl => decide (sl.fwd = fwd)) x = true)) := hm
      have := (List.mem_filter.mp this).2
      have h3 : ¬sl.cid = cid ∨ ¬sl.fwd = fwd := by simpa using this
      intro ⟨h1, h2⟩
      rcases h3 with h3 | h3
      · exact h3 h1
      · exact h3 h2

end CGV.BatchMux
