/- snapshot isolation at the store, for every command sequence: a read served at `ts` returned what is visible at `ts`
   in EVERY later state — nothing ever commits "under" it — provided commit timestamps of locks written after the
   read are above `ts` (the timestamp oracle hands them out after the read's own timestamp).
   The lock that was on the key when the read was served needs no assumption: the read would have been refused. -/
import ClientGoVerif.Proofs.MvccAtomic
namespace CGV.Mvcc
open CGV

/-- a lock that announces a data write (put / delete / insert …), as opposed to lock-only and pessimistic locks -/
def dataLock (l : Lock) : Bool := l.op != .lock && l.op != .pessimisticLock

/-- the reader's per-key invariant: the value visible at `ts` is still `v0`, and a data lock at or below `ts` on the key
    belongs to a transaction that locked the key after the read was served (`late`) -/
structure RInv (ts : TS) (v0 : Option Write) (late : List TS) (e : Entry) : Prop where
  read : firstVisible e.writes ts = v0
  lock : ∀ l, e.lock = some l → l.startTS ≤ ts → dataLock l = true → l.startTS ∈ late

theorem RInv.mono {ts : TS} {v0 : Option Write} {late late' : List TS} {e : Entry} (h : RInv ts v0 late e)
    (hsub : ∀ T ∈ late, T ∈ late') : RInv ts v0 late' e :=
  ⟨h.read, fun l hl hle hd => hsub _ (h.lock l hl hle hd)⟩

/-- what the environment guarantees, label by label: a transaction that locked the key after the read commits above
    `ts`; versions are not reused (distinct timestamps); GC stays at or below `ts`; the range is not destroyed -/
def SIGuard (ts : TS) (late : List TS) (e : Entry) : KLabel → Prop
  | .commit T C => (T ∈ late → ts < C) ∧ (∀ w ∈ e.writes, w.commitTS ≠ C)
  | .rollback T => ∀ w ∈ e.writes, w.commitTS ≠ T
  | .marker T => ∀ w ∈ e.writes, w.commitTS ≠ T
  | .gc sp => sp ≤ ts
  | .wipe => False
  | _ => True

def lateAfter (late : List TS) : KLabel → List TS
  | .locks T => T :: late
  | _ => late

theorem putLocks_lock (e : Entry) (k : Bytes) (T : TS) (acts : List Act)
    (h : ∀ a ∈ acts, ∃ l, a = Act.putLock k l ∧ l.startTS = T) :
    (acts.foldl entryAct e).lock = e.lock ∨ ∃ l, (acts.foldl entryAct e).lock = some l ∧ l.startTS = T := by
  induction acts generalizing e with
  | nil => exact Or.inl rfl
  | cons a rest ih =>
    obtain ⟨l, rfl, hT⟩ := h a (List.mem_cons_self ..)
    simp only [List.foldl_cons]
    rcases ih (entryAct e (.putLock k l)) (fun x hx => h x (List.mem_cons_of_mem _ hx)) with h1 | h1
    · right; exact ⟨l, by rw [h1]; rfl, hT⟩
    · exact Or.inr h1

theorem delLocks_lock (e : Entry) (acts : List Act) (h : ∀ x ∈ acts, ∃ k', x = Act.delLock k') :
    (acts.foldl entryAct e).lock = e.lock ∨ (acts.foldl entryAct e).lock = none := by
  induction acts generalizing e with
  | nil => exact Or.inl rfl
  | cons a rest ih =>
    obtain ⟨k', rfl⟩ := h a (List.mem_cons_self ..)
    simp only [List.foldl_cons]
    rcases ih (entryAct e (.delLock k')) (fun x hx => h x (List.mem_cons_of_mem _ hx)) with h1 | h1
    · right; rw [h1]; rfl
    · exact Or.inr h1

theorem commitLock_lock (e : Entry) (l : Lock) (k : Bytes) (T C : TS) :
    ((commitLock l k T C).foldl entryAct e).lock = none := by
  simp only [commitLock]; split <;> rfl

theorem KStep.rinv {e e' : Entry} {lab : KLabel} {ts : TS} {v0 : Option Write} {late : List TS}
    (h : KStep e lab e') (hi : EInv e) (hr : RInv ts v0 late e) (hg : SIGuard ts late e lab) :
    RInv ts v0 (lateAfter late lab) e' := by
  cases h with
  | same => exact hr
  | commit l k T C hl hT hC =>
    refine ⟨?_, fun l' hl' => by rw [commitLock_lock] at hl'; cases hl'⟩
    rw [← hr.read]
    by_cases hts : ts < C
    · exact (KStep.commit l k T C hl hT hC).read_stable ts hi hts
    · -- the commit lands at or below ts: the lock was on the key when the read was served, so it is not a data lock
      have hle : l.startTS ≤ ts := by omega
      have hnd : dataLock l = false := by
        cases hd : dataLock l with
        | false => rfl
        | true => exact absurd (hg.1 (by rw [← hT]; exact hr.lock l hl hle hd)) hts
      simp only [commitLock]
      split
      · rfl
      · rename_i hp
        have hop : l.op = .lock := by
          simp only [dataLock, Bool.and_eq_false_iff, bne_eq_false_iff_eq] at hnd
          rcases hnd with h1 | h1
          · simpa using h1
          · simp [h1] at hp
        simp only [hop, List.foldl_cons, List.foldl_nil, entryAct]
        exact firstVisible_putWrite_nondata _ _ _ (Or.inr rfl) hg.2
  | rollback l k T hl hT =>
    refine ⟨?_, fun l' hl' => by simp [rollbackLock, rollbackMarker, entryAct] at hl'⟩
    rw [← hr.read, rollbackLock_writes]
    exact firstVisible_putWrite_nondata _ _ _ (Or.inl rfl) hg
  | marker k T hnl hf =>
    refine ⟨?_, fun l' hl' hle hd => hr.lock l' (by simpa [rollbackMarker, entryAct] using hl') hle hd⟩
    rw [← hr.read, marker_writes]
    exact firstVisible_putWrite_nondata _ _ _ (Or.inl rfl) hg
  | locks k T acts ha hf =>
    refine ⟨by rw [(KStep.locks k T acts ha hf).locks_writes]; exact hr.read, ?_⟩
    intro l' hl' hle hd
    rcases putLocks_lock e k T acts ha with h1 | ⟨l2, h2, hT2⟩
    · rw [h1] at hl'; exact List.mem_cons_of_mem _ (hr.lock l' hl' hle hd)
    · rw [h2] at hl'; injection hl' with hl'; subst hl'; rw [hT2]; exact List.mem_cons_self ..
  | touch k T l l' hl hT hT' hop =>
    refine ⟨hr.read, ?_⟩
    intro l2 hl2 hle hd
    have : l2 = l' := by simpa [entryAct] using hl2.symm
    subst this
    have hd' : dataLock l = true := by simpa [dataLock, hop] using hd
    have := hr.lock l hl (by rw [hT, ← hT']; exact hle) hd'
    rw [hT, ← hT'] at this; exact this
  | unlock acts ha =>
    refine ⟨by rw [(KStep.unlock acts ha).unlock_writes]; exact hr.read, ?_⟩
    intro l' hl' hle hd
    rcases delLocks_lock e acts ha with h1 | h1
    · rw [h1] at hl'; exact hr.lock l' hl' hle hd
    · rw [h1] at hl'; cases hl'
  | gc k sp =>
    refine ⟨?_, ?_⟩
    · rw [← hr.read]; exact (KStep.gc k sp).read_stable ts hi hg
    · intro l' hl' hle hd
      have : ((gcWrites k e.writes sp true).foldl entryAct e).lock = e.lock := by
        rw [gcWrites_eq, foldl_entryAct_delWrites]
      rw [this] at hl'; exact hr.lock l' hl' hle hd
  | wipe => exact absurd hg id

/-! ### commands and runs -/

/-- the transactions a command may write new locks for -/
def Cmd.lateAfter (late : List TS) : Cmd → List TS
  | .prewrite r => r.startTS :: late
  | .plock r => r.startTS :: late
  | _ => late

theorem lateAfter_sub (late : List TS) (c : Cmd) (k : Bytes) (lab : KLabel) (h : c.labels k lab) :
    ∀ T ∈ lateAfter late lab, T ∈ c.lateAfter late := by
  intro T hT
  cases c <;> simp only [Cmd.labels] at h <;> simp only [Cmd.lateAfter]
  case prewrite r => rcases h with rfl | rfl <;> simp_all [lateAfter]
  case plock r => rcases h with rfl | rfl <;> simp_all [lateAfter]
  case prollback => rcases h with rfl | rfl <;> simpa [lateAfter] using hT
  case commit => rcases h with rfl | ⟨_, rfl⟩ <;> simpa [lateAfter] using hT
  case rollback => rcases h with rfl | ⟨_, rfl | rfl⟩ <;> simpa [lateAfter] using hT
  case cleanup => rcases h with rfl | ⟨_, rfl | rfl⟩ <;> simpa [lateAfter] using hT
  case status => rcases h with rfl | ⟨_, rfl | rfl | rfl | rfl⟩ <;> simpa [lateAfter] using hT
  case heartbeat => rcases h with rfl | ⟨_, rfl⟩ <;> simpa [lateAfter] using hT
  case resolve => rcases h with rfl | ⟨_, ⟨_, rfl⟩ | ⟨_, rfl⟩⟩ <;> simpa [lateAfter] using hT
  case bresolve =>
    rcases h with rfl | ⟨_, q, _, ⟨_, rfl⟩ | ⟨_, rfl⟩⟩ <;> simpa [lateAfter] using hT
  case gc => rcases h with rfl | ⟨_, rfl⟩ <;> simpa [lateAfter] using hT
  case deleteRange => rcases h with rfl | ⟨_, rfl⟩ <;> simpa [lateAfter] using hT

/-- the guard along a run, with the set of late lockers threaded through -/
def SIGuardAll (ts : TS) (k : Bytes) : List TS → Store → List Cmd → Prop
  | _, _, [] => True
  | late, s, c :: rest =>
    (∀ lab, c.labels k lab → SIGuard ts late (getEntry s.kv k) lab) ∧ SIGuardAll ts k (c.lateAfter late) (c.run s) rest

theorem runAll_rinv (ts : TS) (k : Bytes) (v0 : Option Write) (late : List TS) (s : Store) (cs : List Cmd)
    (hs : SInv s) (hok : OkAll s cs) (hr : RInv ts v0 late (getEntry s.kv k)) (hg : SIGuardAll ts k late s cs) :
    ∃ late', RInv ts v0 late' (getEntry (runAll s cs).kv k) := by
  induction cs generalizing s late with
  | nil => exact ⟨late, hr⟩
  | cons c rest ih =>
    obtain ⟨lab, hlab, hst⟩ := (run_refines s c hs hok.1).2 k
    have h1 := hst.rinv (hs.2 k) hr (hg.1 lab hlab)
    exact ih (c.lateAfter late) (c.run s) (SInv_run s c hs hok.1) hok.2
      (h1.mono (lateAfter_sub late c k lab hlab)) hg.2

/-- a read that the store serves under SI (not the "read latest" timestamp): every data lock at or below its timestamp
    is one the reader was told to bypass (`rs`, the resolved-locks list of the request) -/
theorem served_read_no_data_lock (e : Entry) (k : Bytes) (ts : TS) (rs : List TS) (v : Option Write) (hts : ts ≠ maxU64)
    (h : getValue e k ts true rs = .ok v) :
    v = firstVisible e.writes ts ∧ ∀ l, e.lock = some l → l.startTS ≤ ts → dataLock l = true → l.startTS ∈ rs := by
  simp only [getValue, if_true] at h
  cases hl : e.lock with
  | none => rw [hl] at h; injection h with h; exact ⟨h.symm, fun l hl' => by cases hl'⟩
  | some l =>
    rw [hl] at h
    simp only [Lock.check] at h
    have hne : (ts == maxU64) = false := by simpa using hts
    by_cases hc : (decide (l.startTS > ts) || l.op == Op.lock || l.op == Op.pessimisticLock) = true
    · rw [if_pos hc] at h
      injection h with h
      refine ⟨h.symm, fun l' hl' hle hd => ?_⟩
      injection hl' with hl'; subst hl'
      simp only [Bool.or_eq_true, decide_eq_true_eq, beq_iff_eq] at hc
      rcases hc with (h1 | h1) | h1
      · omega
      · simp [dataLock, h1] at hd
      · simp [dataLock, h1] at hd
    · rw [if_neg hc] at h
      simp only [hne, Bool.false_and, Bool.false_eq_true, if_false] at h
      by_cases hr : rs.contains l.startTS = true
      · rw [if_pos hr] at h
        injection h with h
        refine ⟨h.symm, fun l' hl' _ _ => ?_⟩
        injection hl' with hl'; subst hl'
        simpa using hr
      · rw [if_neg hr] at h; cases h

/-- SNAPSHOT ISOLATION OF A SERVED READ, every run: if the store served a read of `k` at `ts` in state `s` (bypassing
    the locks of the transactions in `rs`), then after ANY later command sequence respecting the callers' contract and
    the environment guard (`SIGuardAll ts k rs`: the bypassed transactions and the transactions that lock `k` after
    the read commit above `ts`; versions are not reused; GC safe points ≤ `ts`; no destroy-range), the version visible
    at `ts` on `k` is still the one that was served.
    Why the guard is what the protocol gives: a transaction that locks after the read gets its commit ts from the
    oracle after the reader got `ts`; a bypassed transaction was reported committed above `ts`, or had the
    min_commit_ts of its primary pushed above `ts` — and the store refuses a commit below a lock's min_commit_ts. -/
theorem served_read_is_snapshot (ts : TS) (k : Bytes) (s : Store) (cs : List Cmd) (rs : List TS) (v : Option Write)
    (hs : SInv s) (hok : OkAll s cs) (hts : ts ≠ maxU64)
    (hserved : getValue (getEntry s.kv k) k ts true rs = .ok v) (hg : SIGuardAll ts k rs s cs) :
    firstVisible (getEntry (runAll s cs).kv k).writes ts = v := by
  obtain ⟨hv, hnl⟩ := served_read_no_data_lock _ k ts rs v hts hserved
  have hr : RInv ts v rs (getEntry s.kv k) := ⟨hv.symm, hnl⟩
  obtain ⟨_, hfin⟩ := runAll_rinv ts k v rs s cs hs hok hr hg
  exact hfin.read

/-- the store refuses a commit below the lock's min_commit_ts (what a pushed min_commit_ts buys the reader) -/
theorem commit_below_min_commit_ts_refused (s : Store) (k : Bytes) (T C : TS) (l : Lock)
    (hl : (getEntry s.kv k).lock = some l) (hT : l.startTS = T) (hlt : C < l.minCommitTS) :
    ∃ e, commitKey s k T C = .error e := by
  simp only [commitKey, filter_of_lock hl hT]
  have : l.minCommitTS > C := hlt
  simp [this]

/-! ### locks: who can put one, and released keys stay released (C06) -/

/-- after a commit or rollback step of `T` the key carries no lock at all -/
theorem KStep.release {e e' : Entry} {lab : KLabel} {T : TS} (h : KStep e lab e')
    (hl : (∃ C, lab = .commit T C) ∨ lab = .rollback T) : e'.lock = none := by
  rcases hl with ⟨C, rfl⟩ | rfl
  · cases h with
    | commit l k T C hl hT hC => exact commitLock_lock e l k T C
  · cases h with
    | rollback l k T hl hT => simp [rollbackLock, rollbackMarker, entryAct]

/-- a key not locked by `T` stays not locked by `T` through every step except a `locks T` step -/
theorem KStep.lockfree_preserved {e e' : Entry} {lab : KLabel} {T : TS} (h : KStep e lab e')
    (hf : LockFreeOf e T) (hne : lab ≠ .locks T) : LockFreeOf e' T := by
  cases h with
  | same => exact hf
  | commit l k T' C hl hT hC => intro l' hl'; rw [commitLock_lock] at hl'; cases hl'
  | rollback l k T' hl hT => intro l' hl'; simp [rollbackLock, rollbackMarker, entryAct] at hl'
  | marker k T' hnl hfr => intro l' hl'; exact hf l' (by simpa [rollbackMarker, entryAct] using hl')
  | locks k T' acts ha hfr =>
    intro l' hl'
    rcases putLocks_lock e k T' acts ha with h1 | ⟨l2, h2, hT2⟩
    · rw [h1] at hl'; exact hf l' hl'
    · rw [h2] at hl'; injection hl' with hl'; subst hl'
      intro heq; apply hne; rw [← heq, hT2]
  | touch k T' l l' hl hT hT' hop =>
    intro l2 hl2
    have : l2 = l' := by simpa [entryAct] using hl2.symm
    subst this
    rw [hT', ← hT]; exact hf l hl
  | unlock acts ha =>
    intro l' hl'
    rcases delLocks_lock e acts ha with h1 | h1
    · rw [h1] at hl'; exact hf l' hl'
    · rw [h1] at hl'; cases hl'
  | gc k sp =>
    intro l' hl'
    have : ((gcWrites k e.writes sp true).foldl entryAct e).lock = e.lock := by
      rw [gcWrites_eq, foldl_entryAct_delWrites]
    rw [this] at hl'; exact hf l' hl'
  | wipe => intro l' hl'; cases hl'

/-- over a run: once a key is not locked by `T`, it is not locked by `T` after any commands that never take a
    `locks T` step on it (i.e. `T` sends no further prewrite / pessimistic-lock request for that key) -/
theorem runAll_lockfree (T : TS) (k : Bytes) (s : Store) (cs : List Cmd) (hs : SInv s) (hok : OkAll s cs)
    (hg : GuardAll (fun _ lab => lab ≠ .locks T) k s cs) (hf : LockFreeOf (getEntry s.kv k) T) :
    LockFreeOf (getEntry (runAll s cs).kv k) T :=
  runAll_rel (fun e e' => LockFreeOf e T → LockFreeOf e' T) _ k
    (fun _ h => h) (fun _ _ _ h1 h2 h => h2 (h1 h))
    (fun _ _ _ _ hst hgd hfe => hst.lockfree_preserved hfe hgd) s cs hs hok hg hf

end CGV.Mvcc
