/- the per-key labelled transition system every store command refines: whatever command runs, each key's entry
   moves by exactly one of nine labelled steps.  All per-key properties (invariants, snapshot stability, durability
   of records, never-both) are then proved once, over the nine steps, and hold for every command sequence. -/
import ClientGoVerif.Proofs.MvccReach
import ClientGoVerif.Proofs.MvccStable
import ClientGoVerif.Proofs.MvccGC
namespace CGV.Mvcc
open CGV

inductive KLabel
  | same
  | commit (T C : TS)
  | rollback (T : TS)      -- the transaction's lock is removed and its rollback marker written
  | marker (T : TS)        -- a bare rollback marker (no lock of T on the key)
  | locks (T : TS)         -- lock writes of transaction T (prewrite, pessimistic lock request)
  | touch (T : TS)         -- T's own lock is rewritten with another ttl / min-commit-ts (heartbeat, status check)
  | unlock                 -- a lock is removed and nothing is written
  | gc (sp : TS)
  | wipe                   -- unsafe destroy range

inductive KStep (e : Entry) : KLabel → Entry → Prop
  | same : KStep e .same e
  | commit (l : Lock) (k : Bytes) (T C : TS) : e.lock = some l → l.startTS = T → T < C →
      KStep e (.commit T C) ((commitLock l k T C).foldl entryAct e)
  | rollback (l : Lock) (k : Bytes) (T : TS) : e.lock = some l → l.startTS = T →
      KStep e (.rollback T) ((rollbackLock k T).foldl entryAct e)
  | marker (k : Bytes) (T : TS) : (∀ l, e.lock = some l → l.startTS ≠ T) → Fresh e.writes T →
      KStep e (.marker T) ([rollbackMarker k T].foldl entryAct e)
  | locks (k : Bytes) (T : TS) (acts : List Act) :
      (∀ a ∈ acts, ∃ l, a = Act.putLock k l ∧ l.startTS = T) → Fresh e.writes T →
      KStep e (.locks T) (acts.foldl entryAct e)
  | touch (k : Bytes) (T : TS) (l l' : Lock) : e.lock = some l → l.startTS = T → l'.startTS = T → l'.op = l.op →
      KStep e (.touch T) (entryAct e (.putLock k l'))
  | unlock (acts : List Act) : (∀ x ∈ acts, ∃ k', x = Act.delLock k') → KStep e .unlock (acts.foldl entryAct e)
  | gc (k : Bytes) (sp : TS) : KStep e (.gc sp) ((gcWrites k e.writes sp true).foldl entryAct e)
  | wipe : KStep e .wipe {}

/-- every step keeps the per-key invariant -/
theorem KStep.einv {e e' : Entry} {lab : KLabel} (h : KStep e lab e') (hi : EInv e) : EInv e' := by
  cases h with
  | same => exact hi
  | commit l k T C hl hT hC => exact EInv_commitLock e l k T C hi hl hT hC
  | rollback l k T hl hT => exact EInv_rollbackLock e l k T hi hl hT
  | marker k T hnl hf => exact EInv_marker e k T hi hnl hf
  | locks k T acts ha hf => exact EInv_putLocks e k T acts hi (fun a h => by
      obtain ⟨l, h1, h2⟩ := ha a h; exact ⟨l, h1, h2, hf⟩)
  | touch k T l l' hl hT hT' hop => exact EInv_putLock e k l' hi (by rw [hT', ← hT]; exact hi.lockFresh l hl)
  | unlock acts ha => exact EInv_delLocks_fold acts e hi ha
  | gc k sp => rw [gcWrites_eq]; exact EInv_delWrites e k _ hi
  | wipe => exact EInv.empty

/-- `s'` is reached from `s` when every key moves by one step whose label is allowed for that key -/
def SRel (L : Bytes → KLabel → Prop) (s s' : Store) : Prop :=
  KvSorted s'.kv ∧ ∀ k, ∃ lab, L k lab ∧ KStep (getEntry s.kv k) lab (getEntry s'.kv k)

theorem SRel.mono {L L' : Bytes → KLabel → Prop} {s s' : Store} (h : SRel L s s') (hl : ∀ k lab, L k lab → L' k lab) :
    SRel L' s s' :=
  ⟨h.1, fun k => by obtain ⟨lab, h1, h2⟩ := h.2 k; exact ⟨lab, hl k lab h1, h2⟩⟩

theorem SRel.refl (L : Bytes → KLabel → Prop) (s : Store) (wf : WaitFor) (hs : KvSorted s.kv) (hL : ∀ k, L k .same) :
    SRel L s { s with waitFor := wf } :=
  ⟨hs, fun k => ⟨.same, hL k, KStep.same⟩⟩

theorem SRel_applyBatch (L : Bytes → KLabel → Prop) (s : Store) (acts : List Act) (wf : WaitFor) (hs : KvSorted s.kv)
    (h : ∀ k, ∃ lab, L k lab ∧
      KStep (getEntry s.kv k) lab ((acts.filter fun a => a.key == k).foldl entryAct (getEntry s.kv k))) :
    SRel L s { kv := applyBatch s.kv acts, waitFor := wf } :=
  ⟨applyBatch_sorted _ _ hs, fun k => by
    show ∃ lab, L k lab ∧ KStep (getEntry s.kv k) lab (getEntry (applyBatch s.kv acts) k)
    rw [getEntry_applyBatch _ _ _ hs]; exact h k⟩

/-- a batch touching one key only -/
theorem SRel_applyKeyed (L : Bytes → KLabel → Prop) (s : Store) (k0 : Bytes) (acts : List Act) (wf : WaitFor)
    (hs : KvSorted s.kv) (hkeys : ∀ a ∈ acts, a.key = k0) (hL : ∀ k, L k .same)
    (h : ∃ lab, L k0 lab ∧ KStep (getEntry s.kv k0) lab (acts.foldl entryAct (getEntry s.kv k0))) :
    SRel L s { kv := applyBatch s.kv acts, waitFor := wf } := by
  apply SRel_applyBatch L s acts wf hs
  intro k
  by_cases hk : k = k0
  · subst hk
    have : acts.filter (fun a => a.key == k) = acts := List.filter_eq_self.mpr (fun a ha => by simp [hkeys a ha])
    rw [this]; exact h
  · have : acts.filter (fun a => a.key == k) = [] := by
      apply List.filter_eq_nil_iff.mpr
      intro a ha; rw [hkeys a ha]; simpa using Ne.symm hk
    rw [this]; exact ⟨.same, hL k, KStep.same⟩

end CGV.Mvcc
