/- the timestamp discipline of the `full` profile (async commit, 1PC): commit timestamps chosen by the store lie above
   every read it has served -/
import ClientGoVerif.Model.MvccFull
namespace CGV.MvccFull
open CGV CGV.Mvcc

theorem bump_ge (f : FStore) (ts : Nat) : f.maxTS ≤ (f.bump ts).maxTS := by
  unfold FStore.bump; split
  · exact Nat.le_refl _
  · exact Nat.le_max_left _ _

theorem bump_covers (f : FStore) (ts : Nat) (h : ts ≠ maxU64) : ts ≤ (f.bump ts).maxTS := by
  unfold FStore.bump
  have : (ts == maxU64) = false := by simpa using h
  simp only [this]; exact Nat.le_max_right _ _

/-- async commit / 1PC: the min_commit_ts (resp. the one-phase commit ts) the store answers is above the start ts, the
    for-update ts and every read timestamp it has served (max_ts): no commit lands under a served read (C01, with
    `Mvcc.read_stable`) -/
theorem fprewrite_ts_above_reads (f f' : FStore) (r : PrewriteReq) (x : FPrewriteExtra) (resp : FPrewriteResp)
    (hfresh : ownCommitTS f r = none) (h : fprewrite f r x = (f', resp)) :
    (resp.minCommitTS ≠ 0 → f.maxTS < resp.minCommitTS ∧ r.startTS < resp.minCommitTS ∧ r.forUpdateTS < resp.minCommitTS ∧ r.minCommitTS ≤ resp.minCommitTS) ∧
    (resp.onePCCommitTS ≠ 0 → f.maxTS < resp.onePCCommitTS ∧ r.startTS < resp.onePCCommitTS ∧ r.forUpdateTS < resp.onePCCommitTS) := by
  unfold fprewrite at h
  rw [hfresh] at h
  unfold fprewriteFresh at h
  simp only [] at h
  repeat' split at h
  all_goals
    first
    | (injection h with _ h; subst h; simp; done)
    | (injection h with _ h; subst h
       simp only [ne_eq, not_true_eq_false, false_implies, true_and, and_true]
       intro _; omega)

/-- the idempotent path: a prewrite that finds the transaction already committed on a requested key changes nothing
    and reports that commit ts -/
theorem fprewrite_retry_idempotent (f : FStore) (r : PrewriteReq) (x : FPrewriteExtra) (c : Nat)
    (h : ownCommitTS f r = some c) :
    (fprewrite f r x).1 = f ∧ (fprewrite f r x).2.minCommitTS = c ∧ (fprewrite f r x).2.errs.all Option.isNone = true := by
  unfold fprewrite; rw [h]; simp

/-- the one-phase commit writes records, never locks -/
theorem onePCActs_no_lock (acts : List Act) (T C : Nat) :
    ∀ a ∈ onePCActs acts T C, (∀ k l, a ≠ .putLock k l) ∨ (∃ k l, a = .putLock k l ∧ a ∈ acts ∧ False) := by
  intro a ha
  left
  simp only [onePCActs, List.mem_flatMap] at ha
  obtain ⟨b, _, hab⟩ := ha
  intro k l he
  subst he
  cases b with
  | putLock k' l' =>
    simp only [commitLock] at hab
    split at hab <;> simp at hab
  | delLock k' => simp at hab
  | putWrite k' w => simp at hab
  | delWrite k' c => simp at hab

end CGV.MvccFull
