/- write-side lemmas of the MVCC model at the level of one key's entry -/
import ClientGoVerif.Proofs.MvccReads
import ClientGoVerif.Proofs.MvccMap
namespace CGV.Mvcc
open CGV

/-! ### idempotence: a command whose effect is already in place answers the same and writes nothing -/

theorem commitKey_committed (s : Store) (k : Bytes) (T C : TS) (c : Write)
    (hl : (getEntry s.kv k).lock.filter (·.startTS == T) = none)
    (hc : txnCommitInfo (getEntry s.kv k).writes T = some c) (hv : c.vt ≠ .rollback) :
    commitKey s k T C = .ok [] := by
  simp [commitKey, hl, hc, hv]

theorem rollbackKey_rolledBack (s : Store) (k : Bytes) (T : TS) (c : Write)
    (hl : (getEntry s.kv k).lock.filter (·.startTS == T) = none)
    (hc : txnCommitInfo (getEntry s.kv k).writes T = some c) (hv : c.vt = .rollback) :
    rollbackKey s k T = .ok [] := by
  simp [rollbackKey, hl, hc, hv]

theorem prewriteMutation_ownLock (s : Store) (r : PrewriteReq) (m : Mutation) (a : PAction) (l : Lock)
    (hl : (getEntry s.kv m.key).lock = some l) (hs : l.startTS = r.startTS) (hp : l.op ≠ .pessimisticLock) :
    prewriteMutation s r m a = .ok [] := by
  simp [prewriteMutation, hl, hs, hp]

theorem checkTxnStatus_committed (s : Store) (p : Bytes) (T caller cur : TS) (rb rp : Bool) (c : Write)
    (hl : (getEntry s.kv p).lock.filter (·.startTS == T) = none)
    (hc : txnCommitInfo (getEntry s.kv p).writes T = some c) (hv : c.vt ≠ .rollback) :
    checkTxnStatus s p T caller cur rb rp = (s, { commitTS := c.commitTS }) := by
  simp [checkTxnStatus, hl, hc, hv]

theorem checkTxnStatus_rolledBack (s : Store) (p : Bytes) (T caller cur : TS) (rb rp : Bool) (c : Write)
    (hl : (getEntry s.kv p).lock.filter (·.startTS == T) = none)
    (hc : txnCommitInfo (getEntry s.kv p).writes T = some c) (hv : c.vt = .rollback) :
    checkTxnStatus s p T caller cur rb rp = (s, {}) := by
  simp [checkTxnStatus, hl, hc, hv]

/-- resolving a transaction that holds no lock in the range writes nothing -/
theorem resolveLock_noLock (s : Store) (a b : Bytes) (T C : TS)
    (h : ∀ p ∈ s.kv, inRange a b p.1 = true → ∀ l, p.2.lock = some l → l.startTS ≠ T) :
    resolveLock s a b T C = s := by
  unfold resolveLock
  rw [List.flatMap_eq_nil_iff.mpr ?_]
  · rfl
  · intro p hp
    have hp' := List.mem_filter.mp hp
    obtain ⟨k, e⟩ := p
    cases hl : e.lock with
    | none => simp [hl]
    | some l =>
      have := h (k, e) hp'.1 hp'.2 l hl
      simp [hl, this]

/-! ### a rollback record rejects a late prewrite of the same transaction -/

theorem ccLoop_marker (a : CCArgs) (conflict : Option KErr) (assertOn : Bool) (ws : List Write) (st : CCState)
    (hd : Desc ws) (hr : st.needRollback = true)
    (hm : ∃ w ∈ ws, w.vt = .rollback ∧ w.commitTS = a.startTS) :
    ∃ e, ccLoop a conflict assertOn ws st = .error e := by
  induction ws generalizing st with
  | nil => obtain ⟨w, hw, _⟩ := hm; cases hw
  | cons w rest ih =>
    obtain ⟨m, hmem, hmv, hmc⟩ := hm
    unfold ccLoop
    by_cases hhead : w.vt = .rollback ∧ w.commitTS = a.startTS
    · simp [hr, hhead.1, hhead.2]
    · -- the marker is further down: this record is newer than the start ts, the rollback check stays armed
      have hmrest : m ∈ rest := by
        cases hmem with
        | head => exact absurd ⟨hmv, hmc⟩ hhead
        | tail _ h => exact h
      have hgt : a.startTS < w.commitTS := by rw [← hmc]; exact hd.head_gt m hmrest
      have hne1 : ¬ (st.needRollback && w.vt == .rollback && w.commitTS == a.startTS) = true := by
        simp only [Bool.and_eq_true, beq_iff_eq, vt_beq, decide_eq_true_eq]
        intro h; exact hhead ⟨h.1.2, h.2⟩
      simp only [hne1, if_false]
      have hlt : ¬ w.commitTS < a.startTS := Nat.lt_asymm hgt
      have hnr : (if (st.needRollback && decide (w.commitTS < a.startTS)) = true then false else st.needRollback) = true := by
        simp [hlt, hr]
      simp only [hnr]
      -- whatever the record-type step decides, either it is an error or the loop continues into `rest`
      cases rest with
      | nil => cases hmrest
      | cons r rs =>
        have IH := fun st' (h : st'.needRollback = true) => ih st' hd.tail h ⟨m, hmrest, hmv, hmc⟩
        simp only [Bool.not_true, Bool.and_false, Bool.false_eq_true, if_false]
        cases hv : w.vt <;> simp only [] <;> (repeat' split) <;>
          first
          | exact ⟨_, rfl⟩
          | (apply IH; rfl)

theorem ccLoop_marker_ne_ok (a : CCArgs) (conflict : Option KErr) (assertOn : Bool) (ws : List Write) (st : CCState)
    (hd : Desc ws) (hr : st.needRollback = true)
    (hm : ∃ w ∈ ws, w.vt = .rollback ∧ w.commitTS = a.startTS) (rv : Option Bytes) :
    ccLoop a conflict assertOn ws st ≠ .ok rv := by
  obtain ⟨e, he⟩ := ccLoop_marker a conflict assertOn ws st hd hr hm
  rw [he]; intro h; cases h

/-- with the transaction's rollback record among the versions, the conflict/rollback scan never succeeds
    (forced locking aside) -/
theorem checkConflictValue_marker (a : CCArgs) (ws : List Write) (hd : Desc ws)
    (hm : ∃ w ∈ ws, w.vt = .rollback ∧ w.commitTS = a.startTS) (hallow : a.allowLockWithConflict = false) :
    ∃ e, checkConflictValue a ws = .error e := by
  cases ws with
  | nil => obtain ⟨w, hw, _⟩ := hm; cases hw
  | cons w rest =>
    unfold checkConflictValue
    by_cases hc : w.commitTS > a.forUpdateTS
    · simp only [hc, if_true, Option.isSome_some, hallow, Bool.not_false, Bool.and_self]
      exact ⟨_, rfl⟩
    · simp only [hc, if_false, Option.isSome_none, Bool.false_and, Bool.false_eq_true]
      split
      · exact ⟨_, rfl⟩
      · rename_i rv heq
        exact absurd heq (ccLoop_marker_ne_ok _ _ _ _ _ hd rfl hm rv)

/-- C12: once the transaction's rollback record is on the key, its prewrite is rejected (whatever else is there) -/
theorem prewrite_after_rollback_rejected (s : Store) (r : PrewriteReq) (m : Mutation) (act : PAction)
    (hd : Desc (getEntry s.kv m.key).writes)
    (hm : ∃ w ∈ (getEntry s.kv m.key).writes, w.vt = .rollback ∧ w.commitTS = r.startTS)
    (hown : ∀ l, (getEntry s.kv m.key).lock = some l → l.startTS = r.startTS → l.op = .pessimisticLock) :
    ∃ e, prewriteMutation s r m act = .error e := by
  have key : ∀ fts, ∃ e, checkConflictValue ⟨m, fts, r.startTS, false, r.assertOn, false, false⟩ (getEntry s.kv m.key).writes = .error e :=
    fun fts => checkConflictValue_marker ⟨m, fts, r.startTS, false, r.assertOn, false, false⟩ _ hd hm rfl
  unfold prewriteMutation
  cases hl : (getEntry s.kv m.key).lock with
  | none =>
    simp only [hl]
    by_cases ha : act = .doCheck
    · simp only [ha]; exact ⟨_, rfl⟩
    · obtain ⟨e, he⟩ := key r.startTS
      have ha' : (act == PAction.doCheck) = false := by
        cases act <;> simp_all
      simp only [ha', he]; exact ⟨_, rfl⟩
  | some l =>
    simp only [hl]
    by_cases hs : l.startTS = r.startTS
    · have hp := hown l hl hs
      obtain ⟨e, he⟩ := key maxU64
      have h1 : (l.startTS != r.startTS) = false := by simp [hs]
      have h2 : (l.op != Op.pessimisticLock) = false := by simp [hp]
      simp only [h1, h2, he]; exact ⟨_, rfl⟩
    · have h1 : (l.startTS != r.startTS) = true := by simp [hs]
      simp only [h1]; exact ⟨_, rfl⟩

end CGV.Mvcc
