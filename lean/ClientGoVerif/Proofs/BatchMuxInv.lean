import ClientGoVerif.Proofs.BatchMux
/-! Accounting invariant of the C18 model: every entry is in exactly one place and completed at most once. -/
namespace CGV.BatchMux
open List

def locs (s : State) : List Nat := s.ch ++ s.heap ++ s.built.map (·.h) ++ s.table.map (·.h)

/-- request ids that are built or in flight -/
def ids (s : State) : List Nat := s.built.map (·.id) ++ s.table.map (·.id)

structure InvA (s : State) : Prop where
  idnodup : (ids s).Nodup
  idle : ∀ id ∈ ids s, id ≤ s.idAlloc
  nodup : (locs s).Nodup
  fresh : ∀ h ∈ locs s, ∃ e, s.entries[h]? = some e ∧ e.chan = .fresh
  eok : ∀ (h : Nat) (e : Entry), s.entries[h]? = some e → EntryOK e
  nodrop : ∀ (h : Nat) (e : Entry), s.entries[h]? = some e → e.ret ≠ none ∨ chanDone e ∨ h ∈ locs s
  closed_ret : s.closed = true → ∀ (h : Nat) (e : Entry), s.entries[h]? = some e → e.ret ≠ none
  efwd : ∀ (h : Nat) (e : Entry), s.entries[h]? = some e → e.fwd ≤ s.nfwd
  bfwd : ∀ it ∈ s.built, it.fwd ≤ s.nfwd

/-- the work-horse: entries change pointwise by `g`; the handles `rm` leave the queues/table (and must end up accounted
    for), every other entry changes benignly -/
theorem InvA.general {s s' : State} (g : Nat → Entry → Entry) (rm : List Nat) (hA : InvA s)
    (hent : ∀ i : Nat, s'.entries[i]? = (s.entries[i]?).map (g i))
    (hclosed : s'.closed = s.closed) (hnfwd : s'.nfwd = s.nfwd)
    (hbf : ∀ it ∈ s'.built, it.fwd ≤ s.nfwd)
    (hids : (ids s').Nodup) (hidle : ∀ id ∈ ids s', id ≤ s'.idAlloc)
    (hperm : (locs s).Perm (rm ++ locs s'))
    (hkeep : ∀ (i : Nat) (e : Entry), s.entries[i]? = some e → i ∉ rm → Benign e (g i e))
    (hrm : ∀ (i : Nat) (e : Entry), s.entries[i]? = some e → i ∈ rm →
      EntryOK (g i e) ∧ (g i e).fwd = e.fwd ∧ ((g i e).ret ≠ none ∨ chanDone (g i e)) ∧ (e.ret ≠ none → (g i e).ret ≠ none)) :
    InvA s' := by
  have hnd := hperm.nodup hA.nodup
  have hnd' := List.nodup_append.mp hnd
  have hdisj : ∀ i, i ∈ locs s' → i ∉ rm := fun i hi hr => (hnd'.2.2 i hr i hi) rfl
  have hsub : ∀ i, i ∈ locs s' → i ∈ locs s := fun i hi => hperm.mem_iff.mpr (List.mem_append.mpr (Or.inr hi))
  have hget : ∀ i e', s'.entries[i]? = some e' → ∃ e, s.entries[i]? = some e ∧ e' = g i e := by
    intro i e' h
    rw [hent i] at h
    cases hh : s.entries[i]? with
    | none => simp [hh] at h
    | some e => simp [hh] at h; exact ⟨e, rfl, h.symm⟩
  refine ⟨hids, hidle, hnd'.2.1, ?_, ?_, ?_, ?_, ?_, ?_⟩
  · intro i hi
    obtain ⟨e, he, hf⟩ := hA.fresh i (hsub i hi)
    refine ⟨g i e, by simp [hent i, he], ?_⟩
    exact (hkeep i e he (hdisj i hi)).chan_fresh.mpr hf
  · intro i e' h
    obtain ⟨e, he, rfl⟩ := hget i e' h
    by_cases hr : i ∈ rm
    · exact (hrm i e he hr).1
    · exact (hkeep i e he hr).ok (hA.eok i e he)
  · intro i e' h
    obtain ⟨e, he, rfl⟩ := hget i e' h
    by_cases hr : i ∈ rm
    · obtain ⟨_, _, h3, _⟩ := hrm i e he hr
      rcases h3 with h3 | h3
      · exact Or.inl h3
      · exact Or.inr (Or.inl h3)
    · have hb := hkeep i e he hr
      rcases hA.nodrop i e he with h1 | h1 | h1
      · exact Or.inl (hb.ret h1)
      · rcases hb.done h1 with h2 | h2
        · exact Or.inr (Or.inl h2)
        · exact Or.inl h2
      · have := hperm.mem_iff.mp h1
        rcases List.mem_append.mp this with h2 | h2
        · exact absurd h2 hr
        · exact Or.inr (Or.inr h2)
  · intro hc i e' h
    obtain ⟨e, he, rfl⟩ := hget i e' h
    have h0 := hA.closed_ret (hclosed ▸ hc) i e he
    by_cases hr : i ∈ rm
    · exact (hrm i e he hr).2.2.2 h0
    · exact (hkeep i e he hr).ret h0
  · intro i e' h
    obtain ⟨e, he, rfl⟩ := hget i e' h
    rw [hnfwd]
    by_cases hr : i ∈ rm
    · rw [(hrm i e he hr).2.1]; exact hA.efwd i e he
    · rw [(hkeep i e he hr).fwd]; exact hA.efwd i e he
  · intro it hit; rw [hnfwd]; exact hbf it hit

theorem getElem?_updAt (es : List Entry) (h : Nat) (f : Entry → Entry) (i : Nat) :
    (updAt es h f)[i]? = (es[i]?).map (fun e => if i = h then f e else e) := by
  simp [updAt, List.getElem?_mapIdx]

theorem getElem?_updIn (es : List Entry) (hs : List Nat) (f : Entry → Entry) (i : Nat) :
    (updIn es hs f)[i]? = (es[i]?).map (fun e => if hs.contains i then f e else e) := by
  simp [updIn, List.getElem?_mapIdx]

end CGV.BatchMux
