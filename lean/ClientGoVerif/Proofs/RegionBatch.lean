/-
  C09 helper lemmas, second part: BatchLocateKeyRanges in general (sorted index ⇒ the gathered cached regions have
  non-decreasing start keys; the uncached ranges form a sorted range list; multi-range gap check; rangesAfterKey;
  the PD rounds of step 2).
-/
import ClientGoVerif.Proofs.Region
namespace CGV.Region
open CGV

/-! ## facts about a sorted index -/

theorem lastLE_greatest {p : Entry → Bool} {l : List Entry} {acc : Option Entry} {e : Entry}
    (hs : Sorted l) (h : lastLE p l acc = some e) :
    (e ∈ l ∧ ∀ x ∈ l, p x = true → Bytes.le x.r.start e.r.start = true) ∨ (acc = some e ∧ ∀ x ∈ l, p x = false) := by
  induction l generalizing acc with
  | nil => right; exact ⟨by simpa [lastLE] using h, by intro x hx; cases hx⟩
  | cons y ys ih =>
    unfold Sorted at hs
    rw [List.pairwise_cons] at hs
    simp only [lastLE] at h
    by_cases hp : p y = true
    · simp only [hp, if_true] at h
      left
      rcases ih hs.2 h with ⟨hm, hall⟩ | ⟨hacc, hall⟩
      · refine ⟨List.mem_cons_of_mem _ hm, ?_⟩
        intro x hx hpx
        rcases List.mem_cons.mp hx with rfl | hx
        · exact le_of_lt (hs.1 e hm)
        · exact hall x hx hpx
      · cases hacc
        refine ⟨List.mem_cons_self .., ?_⟩
        intro x hx hpx
        rcases List.mem_cons.mp hx with rfl | hx
        · exact le_refl _
        · rw [hall x hx] at hpx; cases hpx
    · have hp' : p y = false := by simpa using hp
      simp only [hp', Bool.false_eq_true, if_false] at h
      rcases ih hs.2 h with ⟨hm, hall⟩ | ⟨hacc, hall⟩
      · left
        refine ⟨List.mem_cons_of_mem _ hm, ?_⟩
        intro x hx hpx
        rcases List.mem_cons.mp hx with rfl | hx
        · rw [hp'] at hpx; cases hpx
        · exact hall x hx hpx
      · right
        refine ⟨hacc, ?_⟩
        intro x hx
        rcases List.mem_cons.mp hx with rfl | hx
        · exact hp'
        · exact hall x hx

/-- on a sorted index, a region found for key `k` has the greatest start key among the entries starting at or
    before `k` -/
theorem tryFind_greatest {c : Cache} (hs : Sorted c.sorted) {k : Bytes} {e : Entry}
    (h : tryFindRegionByKey c k false = some e) :
    e ∈ c.sorted ∧ Bytes.le e.r.start k = true ∧
      ∀ x ∈ c.sorted, Bytes.le x.r.start k = true → Bytes.le x.r.start e.r.start = true := by
  unfold tryFindRegionByKey at h
  split at h
  · rename_i e0 he0
    split at h
    · cases h
    · cases h
      unfold searchByKey at he0
      split at he0
      · cases he0
      · rename_i e1 he1
        split at he0
        · cases he0
          rename_i hin
          rcases lastLE_greatest hs he1 with ⟨hm, hall⟩ | ⟨hacc, _⟩
          · refine ⟨hm, ?_, fun x hx hle => hall x hx (by simpa using hle)⟩
            simp only [inRegion, Bool.false_eq_true, if_false] at hin
            unfold Region.contains at hin
            simp only [Bool.and_eq_true] at hin
            exact hin.1
          · cases hacc
        · cases he0
  · cases h

theorem dropWhile_lt_all_ge {l : List Entry} (hs : Sorted l) (s : Bytes) :
    ∀ x ∈ l.dropWhile (fun e => Bytes.lt e.r.start s), Bytes.le s x.r.start = true := by
  induction l with
  | nil => intro x hx; cases hx
  | cons y ys ih =>
    unfold Sorted at hs
    rw [List.pairwise_cons] at hs
    intro x hx
    simp only [List.dropWhile_cons] at hx
    by_cases hy : Bytes.lt y.r.start s = true
    · simp only [hy, if_true] at hx
      exact ih hs.2 x hx
    · have hy' : Bytes.lt y.r.start s = false := by simpa using hy
      simp only [hy', Bool.false_eq_true, if_false] at hx
      have hsy : Bytes.le s y.r.start = true := by rw [le_iff_not_lt, hy']; rfl
      rcases List.mem_cons.mp hx with rfl | hx
      · exact hsy
      · exact le_trans hsy (le_of_lt (hs.1 x hx))

theorem ascendFrom_sublist (e : Bytes) (limit : Nat) (l : List Entry) (s : Bytes) :
    (ascendFrom e limit l s).Sublist l := by
  induction limit generalizing l s with
  | zero => simp [ascendFrom]
  | succ n ih =>
    cases l with
    | nil => simp [ascendFrom]
    | cons y ys =>
      simp only [ascendFrom]
      split
      · exact List.nil_sublist _
      · split
        · exact List.nil_sublist _
        · split
          · exact List.nil_sublist _
          · exact (ih ys _).cons_cons y

theorem scanRegionsFromCache_facts {c : Cache} (hs : Sorted c.sorted) (s e : Bytes) (limit : Nat) :
    (scanRegionsFromCache c s e limit).Pairwise (fun a b => Bytes.le a.r.start b.r.start = true) ∧
      ∀ x ∈ scanRegionsFromCache c s e limit, x ∈ c.sorted ∧ Bytes.le s x.r.start = true := by
  unfold scanRegionsFromCache
  simp only
  have hsub1 : (List.filter (fun e => !e.reload)
      (ascendFrom e limit (c.sorted.dropWhile (fun e => Bytes.lt e.r.start s)) s)).Sublist
      (c.sorted.dropWhile (fun e => Bytes.lt e.r.start s)) :=
    (List.filter_sublist).trans (ascendFrom_sublist _ _ _ _)
  have hsub2 : (c.sorted.dropWhile (fun e => Bytes.lt e.r.start s)).Sublist c.sorted := List.dropWhile_sublist _
  constructor
  · have hp : c.sorted.Pairwise (fun a b => Bytes.le a.r.start b.r.start = true) :=
      List.Pairwise.imp (fun h => le_of_lt h) hs
    exact List.Pairwise.sublist (hsub1.trans hsub2) hp
  · intro x hx
    exact ⟨(hsub1.trans hsub2).subset hx, dropWhile_lt_all_ge hs s x (hsub1.subset hx)⟩

end CGV.Region

namespace CGV.Region
open CGV

/-! ## step 1 on a sorted index: gathered regions have non-decreasing starts, uncached ranges are a sorted range list -/

/-- the gathered cached regions are index entries with non-decreasing start keys, all starting at or before `s` -/
def SI (idx : List Entry) (st : Step1) (s : Bytes) : Prop :=
  StartsSorted (st.cached.map (·.r)) ∧ ∀ x ∈ st.cached, x ∈ idx ∧ Bytes.le x.r.start s = true

theorem SI.mono {idx : List Entry} {st : Step1} {s s' : Bytes} (h : SI idx st s) (hle : Bytes.le s s' = true) :
    SI idx st s' :=
  ⟨h.1, fun x hx => ⟨(h.2 x hx).1, le_trans (h.2 x hx).2 hle⟩⟩

theorem SI.snoc {idx : List Entry} {st : Step1} {s : Bytes} {r : Entry} (h : SI idx st s) (hr : r ∈ idx)
    (hle : ∀ x ∈ st.cached, Bytes.le x.r.start r.r.start = true) (hrs : Bytes.le r.r.start s = true) :
    SI idx { st with cached := st.cached ++ [r], last := some r } s := by
  constructor
  · unfold StartsSorted at *
    simp only [List.map_append, List.map_cons, List.map_nil]
    rw [List.pairwise_append]
    refine ⟨h.1, by simp, ?_⟩
    intro a ha b hb
    simp only [List.mem_singleton] at hb
    subst hb
    obtain ⟨x, hx, rfl⟩ := List.mem_map.mp ha
    exact hle x hx
  · intro x hx
    simp only [List.mem_append, List.mem_singleton] at hx
    rcases hx with hx | rfl
    · exact h.2 x hx
    · exact ⟨hr, hrs⟩

theorem contains_start_le {r : Region} {s : Bytes} (h : r.contains s = true) : Bytes.le r.start s = true := by
  unfold Region.contains at h
  simp only [Bool.and_eq_true] at h
  exact h.1

/-- a region that contains the cursor but does not reach the range end is bounded and ends after the cursor -/
theorem lt_endKey_of_not_done {r : Region} {s e : Bytes} (hc : r.contains s = true) (hin : InR e s)
    (hce : ¬ r.containsByEnd e = true) : Bytes.lt s r.endKey = true := by
  have hc' := hc
  unfold Region.contains at hc'
  simp only [Bool.and_eq_true, Bool.or_eq_true] at hc'
  rcases hc'.2 with h | h
  · exact h
  · exfalso
    apply hce
    unfold Region.containsByEnd
    cases e with
    | nil => simpa using h
    | cons x xs =>
      rcases hin with hin | hin
      · cases hin
      · simp [lt_of_le_of_lt hc'.1 hin, h]

theorem step1Batch_si {idx : List Entry} {e : Bytes} {batch : List Entry} {st st' : Step1} {s s' : Bytes}
    {stop all : Bool} (h : step1Batch e batch st s = (st', s', stop, all))
    (hb1 : batch.Pairwise (fun a b => Bytes.le a.r.start b.r.start = true))
    (hb2 : ∀ r ∈ batch, r ∈ idx ∧ ∀ x ∈ st.cached, Bytes.le x.r.start r.r.start = true)
    (hsi : SI idx st s) (hin : InR e s) :
    SI idx st' s' ∧ Bytes.le s s' = true ∧ InR e s' ∧ st'.uncached = st.uncached := by
  induction batch generalizing st s with
  | nil =>
    simp only [step1Batch, Prod.mk.injEq] at h
    obtain ⟨rfl, rfl, _, _⟩ := h
    exact ⟨hsi, le_refl _, hin, rfl⟩
  | cons r rs ih =>
    simp only [step1Batch] at h
    rw [List.pairwise_cons] at hb1
    by_cases hc : r.r.contains s = true
    · simp only [hc, Bool.not_true, Bool.false_eq_true, if_false] at h
      have hr := hb2 r (List.mem_cons_self ..)
      have hsi1 := hsi.snoc hr.1 hr.2 (contains_start_le hc)
      by_cases hce : r.r.containsByEnd e = true
      · simp only [hce, if_true, Prod.mk.injEq] at h
        obtain ⟨rfl, rfl, _, _⟩ := h
        exact ⟨hsi1, le_refl _, hin, rfl⟩
      · simp only [hce, Bool.false_eq_true, if_false] at h
        have hlt := lt_endKey_of_not_done hc hin hce
        have := ih h hb1.2
          (by
            intro r2 hr2
            refine ⟨(hb2 r2 (List.mem_cons_of_mem _ hr2)).1, ?_⟩
            intro x hx
            simp only [List.mem_append, List.mem_singleton] at hx
            rcases hx with hx | rfl
            · exact (hb2 r2 (List.mem_cons_of_mem _ hr2)).2 x hx
            · exact hb1.1 r2 hr2)
          (hsi1.mono (le_of_lt hlt)) (next_inR hc hin hce)
        exact ⟨this.1, le_trans (le_of_lt hlt) this.2.1, this.2.2.1, this.2.2.2⟩
    · simp only [hc, Bool.not_false, if_true, Prod.mk.injEq] at h
      obtain ⟨rfl, rfl, _, _⟩ := h
      exact ⟨hsi, le_refl _, hin, rfl⟩

theorem step1Scan_si {fuel : Nat} {c : Cache} (hs : Sorted c.sorted) {e : Bytes} {st st' : Step1} {s s' : Bytes}
    {all : Bool} (h : step1Scan fuel c e st s = (st', s', all)) (hsi : SI c.sorted st s) (hin : InR e s) :
    SI c.sorted st' s' ∧ Bytes.le s s' = true ∧ InR e s' ∧ st'.uncached = st.uncached := by
  induction fuel generalizing st s with
  | zero =>
    simp only [step1Scan, Prod.mk.injEq] at h
    obtain ⟨rfl, rfl, _⟩ := h
    exact ⟨hsi, le_refl _, hin, rfl⟩
  | succ n ih =>
    simp only [step1Scan] at h
    cases hb : step1Batch e (scanRegionsFromCache c s e limitPerBatch) st s with
    | mk st1 rest =>
      obtain ⟨s1, stop, all1⟩ := rest
      rw [hb] at h
      simp only at h
      obtain ⟨f1, f2⟩ := scanRegionsFromCache_facts hs s e limitPerBatch
      have hs1 := step1Batch_si hb f1
        (fun r hr => ⟨(f2 r hr).1, fun x hx => le_trans (hsi.2 x hx).2 (f2 r hr).2⟩) hsi hin
      cases stop with
      | true =>
        simp only [if_true, Prod.mk.injEq] at h
        obtain ⟨rfl, rfl, _⟩ := h
        exact hs1
      | false =>
        simp only [Bool.false_eq_true, if_false] at h
        split at h
        · simp only [Prod.mk.injEq] at h
          obtain ⟨rfl, rfl, _⟩ := h
          exact hs1
        · have := ih h hs1.1 hs1.2.2.1
          exact ⟨this.1, le_trans hs1.2.1 this.2.1, this.2.2.1, by rw [this.2.2.2, hs1.2.2.2]⟩

/-- how one request range changes the uncached list: nothing, or one new range ending where the request range ends -/
def UShape (u u' : List KeyRange) (lo e : Bytes) : Prop :=
  u' = u ∨ ∃ s2, u' = u ++ [⟨s2, e⟩] ∧ Bytes.le lo s2 = true ∧ InR e s2

theorem step1From_si {fuel : Nat} {c : Cache} (hs : Sorted c.sorted) {st : Step1} {e s : Bytes}
    (hsi : SI c.sorted st s) (hin : InR e s) :
    (∃ x, SI c.sorted (step1From fuel c st e s) x ∧ InR e x) ∧
      UShape st.uncached (step1From fuel c st e s).uncached s e := by
  unfold step1From
  split
  · exact ⟨⟨s, ⟨hsi.1, hsi.2⟩, hin⟩, Or.inr ⟨s, rfl, le_refl _, hin⟩⟩
  · rename_i r hr
    obtain ⟨hrm, hrs, hgr⟩ := tryFind_greatest hs hr
    have hc := tryFind_contains hr
    have hsi1 : SI c.sorted { st with last := some r, cached := st.cached ++ [r] } s :=
      hsi.snoc hrm (fun x hx => hgr x (hsi.2 x hx).1 (hsi.2 x hx).2) hrs
    simp only
    by_cases hce : r.r.containsByEnd e = true
    · simp only [hce, if_true]
      exact ⟨⟨s, hsi1, hin⟩, Or.inl rfl⟩
    · simp only [hce, Bool.false_eq_true, if_false]
      have hlt := lt_endKey_of_not_done hc hin hce
      cases hsc : step1Scan fuel c e { st with last := some r, cached := st.cached ++ [r] } r.r.endKey with
      | mk st2 rest =>
        obtain ⟨s2, all⟩ := rest
        have hsp := step1Scan_si hs hsc (hsi1.mono (le_of_lt hlt)) (next_inR hc hin hce)
        have hun : st2.uncached = st.uncached := hsp.2.2.2
        simp only
        cases all with
        | true =>
          simp only [if_true]
          exact ⟨⟨s2, hsp.1, hsp.2.2.1⟩, Or.inl hun⟩
        | false =>
          simp only [Bool.false_eq_true, if_false]
          refine ⟨⟨s2, ⟨hsp.1.1, hsp.1.2⟩, hsp.2.2.1⟩, Or.inr ⟨s2, by rw [hun], ?_, hsp.2.2.1⟩⟩
          exact le_trans (le_of_lt hlt) hsp.2.1

end CGV.Region

namespace CGV.Region
open CGV

theorem step1Range_si {fuel : Nat} {c : Cache} (hs : Sorted c.sorted) {st : Step1} {kr : KeyRange}
    (hv : InR kr.end_ kr.start) (hsi : SI c.sorted st kr.start)
    (hlast : ∀ l, st.last = some l → l ∈ st.cached) :
    (∃ x, SI c.sorted (step1Range fuel c st kr) x ∧ InR kr.end_ x) ∧
      UShape st.uncached (step1Range fuel c st kr).uncached kr.start kr.end_ := by
  unfold step1Range
  split
  · rename_i l hl
    by_cases hce : l.r.containsByEnd kr.end_ = true
    · simp only [hce, if_true]
      exact ⟨⟨kr.start, hsi, hv⟩, Or.inl rfl⟩
    · simp only [hce, Bool.false_eq_true, if_false]
      by_cases hc : l.r.contains kr.start = true
      · simp only [hc, if_true]
        have hlt := lt_endKey_of_not_done hc hv hce
        have := step1From_si (fuel := fuel) hs (hsi.mono (le_of_lt hlt)) (next_inR hc hv hce)
        refine ⟨this.1, ?_⟩
        rcases this.2 with h | ⟨s2, h1, h2, h3⟩
        · exact Or.inl h
        · exact Or.inr ⟨s2, h1, le_trans (le_of_lt hlt) h2, h3⟩
      · simp only [hc, Bool.false_eq_true, if_false]
        exact step1From_si hs hsi hv
  · exact step1From_si hs hsi hv

theorem validRangesP_snoc {l : List KeyRange} {u : KeyRange} (h : ValidRangesP l)
    (hl : ∀ x ∈ l, x.end_ ≠ [] ∧ Bytes.le x.end_ u.start = true) (hu : InR u.end_ u.start) :
    ValidRangesP (l ++ [u]) := by
  induction l with
  | nil => simpa [ValidRangesP] using hu
  | cons r rest ih =>
    cases rest with
    | nil =>
      simp only [ValidRangesP] at h
      have hr := hl r (List.mem_cons_self ..)
      simp only [List.cons_append, List.nil_append, ValidRangesP]
      refine ⟨?_, hr.2, hu⟩
      rcases h with h | h
      · exact absurd h hr.1
      · exact h
    | cons r2 rest2 =>
      simp only [ValidRangesP] at h
      simp only [List.cons_append, ValidRangesP]
      exact ⟨h.1, h.2.1, ih h.2.2 (fun x hx => hl x (List.mem_cons_of_mem _ hx))⟩

theorem validRangesP_tail {r : KeyRange} {rest : List KeyRange} (h : ValidRangesP (r :: rest)) : ValidRangesP rest := by
  cases rest with
  | nil => simp [ValidRangesP]
  | cons r2 rest2 => simp only [ValidRangesP] at h; exact h.2.2

/-- step 1 as a whole on a sorted index -/
theorem batchStep1_si {fuel : Nat} {c : Cache} (hs : Sorted c.sorted) {ranges : List KeyRange} {st : Step1}
    (hv : ValidRangesP ranges) (hsi : ∀ kr ∈ ranges, SI c.sorted st kr.start)
    (hsi0 : StartsSorted (st.cached.map (·.r)))
    (hlast : ∀ l, st.last = some l → l ∈ st.cached)
    (hu : ValidRangesP st.uncached)
    (hub : ∀ u ∈ st.uncached, ∀ kr ∈ ranges, u.end_ ≠ [] ∧ Bytes.le u.end_ kr.start = true) :
    StartsSorted ((ranges.foldl (step1Range fuel c) st).cached.map (·.r)) ∧
      ValidRangesP (ranges.foldl (step1Range fuel c) st).uncached ∧
      (ranges.foldl (step1Range fuel c) st).uncached.length ≤ st.uncached.length + ranges.length := by
  induction ranges generalizing st with
  | nil => exact ⟨hsi0, hu, Nat.le_refl _⟩
  | cons kr rest ih =>
    simp only [List.foldl_cons]
    have hh := validRanges_head hv
    have hkr : kr ∈ kr :: rest := List.mem_cons_self ..
    obtain ⟨⟨x, hx1, hx2⟩, hshape⟩ := step1Range_si (fuel := fuel) hs hh.1 (hsi kr hkr) hlast
    have hlast' : ∀ l, (step1Range fuel c st kr).last = some l → l ∈ (step1Range fuel c st kr).cached := by
      intro l hl
      have hg := step1Range_spec (fuel := fuel) (c := c) (st := st) (kr := kr) hh.1
        (fun l' hl' => ⟨hlast l' hl', ((hsi kr hkr).2 l' (hlast l' hl')).2⟩)
      exact (hg.2.2 l hl).1
    have hsi' : ∀ kr' ∈ rest, SI c.sorted (step1Range fuel c st kr) kr'.start := by
      intro kr' hkr'
      obtain ⟨hne, hle⟩ := hh.2 kr' hkr'
      rcases hx2 with hx2 | hx2
      · exact absurd hx2 hne
      · exact hx1.mono (le_of_lt (lt_of_lt_of_le hx2 hle))
    have hu' : ValidRangesP (step1Range fuel c st kr).uncached := by
      rcases hshape with h | ⟨s2, h1, h2, h3⟩
      · rw [h]; exact hu
      · rw [h1]
        exact validRangesP_snoc hu (fun u hu' => ⟨(hub u hu' kr hkr).1, le_trans (hub u hu' kr hkr).2 h2⟩) h3
    have hub' : ∀ u ∈ (step1Range fuel c st kr).uncached, ∀ kr' ∈ rest,
        u.end_ ≠ [] ∧ Bytes.le u.end_ kr'.start = true := by
      intro u hu'' kr' hkr'
      rcases hshape with h | ⟨s2, h1, h2, h3⟩
      · rw [h] at hu''
        exact hub u hu'' kr' (List.mem_cons_of_mem _ hkr')
      · rw [h1] at hu''
        simp only [List.mem_append, List.mem_singleton] at hu''
        rcases hu'' with hu'' | rfl
        · exact hub u hu'' kr' (List.mem_cons_of_mem _ hkr')
        · exact hh.2 kr' hkr'
    have hlen : (step1Range fuel c st kr).uncached.length ≤ st.uncached.length + 1 := by
      rcases hshape with h | ⟨s2, h1, _, _⟩
      · rw [h]; omega
      · rw [h1]; simp
    have := ih (validRangesP_tail hv) hsi' hx1.1 hlast' hu' hub'
    refine ⟨this.1, this.2.1, ?_⟩
    have h3 := this.2.2
    simp only [List.length_cons]
    omega

end CGV.Region

namespace CGV.Region
open CGV

/-! ## regionsHaveGapInRanges over several ranges -/

/-- a key is in a returned region, or lies at/after the (bounded) end of every returned region -/
def PK (infos : List Region) (k : Bytes) : Prop :=
  (∃ l ∈ infos, l.contains k = true) ∨ (∀ l ∈ infos, l.endKey ≠ [] ∧ Bytes.le l.endKey k = true)

theorem PK.cons {r : Region} {rs : List Region} {k : Bytes} (h : PK rs k) (hb : r.endKey ≠ [])
    (hle : Bytes.le r.endKey k = true) : PK (r :: rs) k := by
  rcases h with ⟨l, hl, hc⟩ | h
  · exact Or.inl ⟨l, List.mem_cons_of_mem _ hl, hc⟩
  · right
    intro l hl
    rcases List.mem_cons.mp hl with rfl | hl
    · exact ⟨hb, hle⟩
    · exact h l hl

theorem advance_spec (ck : Bytes) (rest : List KeyRange) (cur : KeyRange) :
    (gapLoop.advance ck cur rest = none → ∀ x ∈ cur :: rest, x.end_ ≠ [] ∧ Bytes.le x.end_ ck = true) ∧
    (∀ cur' rest', gapLoop.advance ck cur rest = some (cur', rest') →
      ∃ pre, cur :: rest = pre ++ cur' :: rest' ∧ (∀ x ∈ pre, x.end_ ≠ [] ∧ Bytes.le x.end_ ck = true) ∧
        InR cur'.end_ ck) := by
  induction rest generalizing cur with
  | nil =>
    unfold gapLoop.advance
    by_cases hc : (!cur.end_.isEmpty && Bytes.le cur.end_ ck) = true
    · simp only [hc, if_true]
      simp only [Bool.and_eq_true, Bool.not_eq_eq_eq_not, Bool.not_true] at hc
      refine ⟨?_, by intro _ _ h; cases h⟩
      intro _ x hx
      simp only [List.mem_singleton] at hx
      subst hx
      exact ⟨by intro h0; simp [h0] at hc, hc.2⟩
    · simp only [hc, Bool.false_eq_true, if_false]
      refine ⟨(by intro h; cases h), ?_⟩
      intro cur' rest' h
      simp only [Option.some.injEq, Prod.mk.injEq] at h
      obtain ⟨rfl, rfl⟩ := h
      refine ⟨[], rfl, (by intro x hx; cases hx), ?_⟩
      simp only [Bool.and_eq_true, not_and, Bool.not_eq_eq_eq_not, Bool.not_true] at hc
      cases he : cur.end_ with
      | nil => left; rfl
      | cons a as =>
        right
        have := hc (by simp [he])
        rcases le_total cur.end_ ck with h | h
        · exact absurd h this
        · rw [he] at h; exact h
  | cons n rest ih =>
    unfold gapLoop.advance
    by_cases hc : (!cur.end_.isEmpty && Bytes.le cur.end_ ck) = true
    · simp only [hc, if_true]
      simp only [Bool.and_eq_true, Bool.not_eq_eq_eq_not, Bool.not_true] at hc
      have hcur : cur.end_ ≠ [] ∧ Bytes.le cur.end_ ck = true := ⟨by intro h0; simp [h0] at hc, hc.2⟩
      obtain ⟨i1, i2⟩ := ih n
      constructor
      · intro h x hx
        rcases List.mem_cons.mp hx with rfl | hx
        · exact hcur
        · exact i1 h x hx
      · intro cur' rest' h
        obtain ⟨pre, h1, h2, h3⟩ := i2 cur' rest' h
        refine ⟨cur :: pre, by rw [List.cons_append, ← h1], ?_, h3⟩
        intro x hx
        rcases List.mem_cons.mp hx with rfl | hx
        · exact hcur
        · exact h2 x hx
    · simp only [hc, Bool.false_eq_true, if_false]
      refine ⟨(by intro h; cases h), ?_⟩
      intro cur' rest' h
      simp only [Option.some.injEq, Prod.mk.injEq] at h
      obtain ⟨rfl, rfl⟩ := h
      refine ⟨[], rfl, (by intro x hx; cases hx), ?_⟩
      simp only [Bool.and_eq_true, not_and, Bool.not_eq_eq_eq_not, Bool.not_true] at hc
      cases he : cur.end_ with
      | nil => left; rfl
      | cons a as =>
        right
        have := hc (by simp [he])
        rcases le_total cur.end_ ck with h | h
        · exact absurd h this
        · rw [he] at h; exact h

theorem validRangesP_suffix {pre l : List KeyRange} (h : ValidRangesP (pre ++ l)) : ValidRangesP l := by
  induction pre with
  | nil => exact h
  | cons x xs ih => exact ih (validRangesP_tail h)

theorem gapLoop_multi {limit n : Nat} {infos : List Region} {cur : KeyRange} {rest : List KeyRange} {ck : Bytes}
    (h : gapLoop limit n infos cur rest ck = false) (hv : ValidRangesP (cur :: rest))
    (hck1 : Bytes.le cur.start ck = true) (hck2 : InR cur.end_ ck) :
    ∀ x ∈ cur :: rest, ∀ k, Bytes.le x.start k = true → InR x.end_ k → Bytes.le ck k = true → PK infos k := by
  induction infos generalizing cur rest ck with
  | nil => intro x _ k _ _ _; right; intro l hl; cases hl
  | cons r rs ih =>
    intro x hx k hk1 hk2 hck
    simp only [gapLoop] at h
    split at h
    · cases h
    · rename_i hnlt
      have hrs : Bytes.le r.start ck = true := by rw [le_iff_not_lt]; simpa using hnlt
      have hrk : Bytes.le r.start k = true := le_trans hrs hck
      split at h
      · rename_i hunb
        exact Or.inl ⟨r, List.mem_cons_self .., contains_of_bounds hrk (Or.inl (by simpa using hunb))⟩
      · rename_i hb
        have hb' : r.endKey ≠ [] := by intro h0; simp [h0] at hb
        rcases le_total r.endKey k with hge | hlt
        · obtain ⟨a1, a2⟩ := advance_spec r.endKey rest cur
          cases hadv : gapLoop.advance r.endKey cur rest with
          | none =>
            have := a1 hadv x hx
            rcases hk2 with hk2 | hk2
            · exact absurd hk2 this.1
            · have := lt_of_lt_of_le (lt_of_lt_of_le hk2 this.2) hge
              rw [lt_irrefl] at this; cases this
          | some p =>
            obtain ⟨cur', rest'⟩ := p
            rw [hadv] at h
            simp only at h
            obtain ⟨pre, hdec, hpre, hin'⟩ := a2 cur' rest' hadv
            have hv' : ValidRangesP (cur' :: rest') := validRangesP_suffix (by rw [← hdec]; exact hv)
            have hvh := validRanges_head hv'
            have hck1' : Bytes.le cur'.start (if Bytes.lt r.endKey cur'.start = true then cur'.start else r.endKey) = true := by
              split
              · exact le_refl _
              · rename_i hn
                rw [le_iff_not_lt]; simpa using hn
            have hck2' : InR cur'.end_ (if Bytes.lt r.endKey cur'.start = true then cur'.start else r.endKey) := by
              split
              · exact hvh.1
              · exact hin'
            have hx' : x ∈ pre ++ cur' :: rest' := by rw [← hdec]; exact hx
            rcases List.mem_append.mp hx' with hxp | hxs
            · have := hpre x hxp
              rcases hk2 with hk2 | hk2
              · exact absurd hk2 this.1
              · have := lt_of_lt_of_le (lt_of_lt_of_le hk2 this.2) hge
                rw [lt_irrefl] at this; cases this
            · have hck' : Bytes.le (if Bytes.lt r.endKey cur'.start = true then cur'.start else r.endKey) k = true := by
                split
                · -- cur'.start <= k: x is cur' or a later range
                  rcases List.mem_cons.mp hxs with rfl | hxr
                  · exact hk1
                  · have := hvh.2 x hxr
                    rcases hvh.1 with h0 | h0
                    · exact absurd h0 this.1
                    · exact le_trans (le_of_lt (lt_of_lt_of_le h0 this.2)) hk1
                · exact hge
              exact (ih h hv' hck1' hck2' x hxs k hk1 hk2 hck').cons hb' hge
        · exact Or.inl ⟨r, List.mem_cons_self .., contains_of_bounds hrk (Or.inr hlt)⟩

end CGV.Region

namespace CGV.Region
open CGV

/-! ## rangesAfterKey on a sorted range list -/

theorem validRangesP_each {l : List KeyRange} (h : ValidRangesP l) : ∀ x ∈ l, InR x.end_ x.start := by
  induction l with
  | nil => intro x hx; cases hx
  | cons r rest ih =>
    intro x hx
    rcases List.mem_cons.mp hx with rfl | hx
    · exact (validRanges_head h).1
    · exact ih (validRangesP_tail h) x hx

theorem validRangesP_last {l : List KeyRange} {L : KeyRange} (h : ValidRangesP l) (hl : l.getLast? = some L) :
    ∀ u ∈ l, u = L ∨ (u.end_ ≠ [] ∧ Bytes.le u.end_ L.start = true) := by
  induction l with
  | nil => intro u hu; cases hu
  | cons r rest ih =>
    intro u hu
    cases rest with
    | nil =>
      simp only [List.getLast?_singleton, Option.some.injEq] at hl
      simp only [List.mem_singleton] at hu
      left; rw [hu, hl]
    | cons r2 rest2 =>
      have hl' : (r2 :: rest2).getLast? = some L := by simpa [List.getLast?_cons_cons] using hl
      rcases List.mem_cons.mp hu with rfl | hu
      · right
        exact (validRanges_head h).2 L (List.mem_of_getLast? hl')
      · exact ih (validRangesP_tail h) hl' u hu

theorem dropWhile_decomp {α} (p : α → Bool) (l : List α) :
    ∃ pre, l = pre ++ l.dropWhile p ∧ (∀ x ∈ pre, p x = true) ∧ ∀ y ys, l.dropWhile p = y :: ys → p y = false := by
  induction l with
  | nil => exact ⟨[], rfl, (by intro x hx; cases hx), (by intro y ys h; cases h)⟩
  | cons a as ih =>
    by_cases hp : p a = true
    · obtain ⟨pre, h1, h2, h3⟩ := ih
      refine ⟨a :: pre, ?_, ?_, ?_⟩
      · simp only [List.dropWhile_cons, hp, if_true, List.cons_append]; rw [← h1]
      · intro x hx
        rcases List.mem_cons.mp hx with rfl | hx
        · exact hp
        · exact h2 x hx
      · intro y ys h
        simp only [List.dropWhile_cons, hp, if_true] at h
        exact h3 y ys h
    · have hp' : p a = false := by simpa using hp
      refine ⟨[], ?_, (by intro x hx; cases hx), ?_⟩
      · simp [hp']
      · intro y ys h
        simp only [List.dropWhile_cons, hp', Bool.false_eq_true, if_false, List.cons.injEq] at h
        rw [← h.1]; exact hp'

/-- with a bounded split key `sk` (the end of the last loaded region): the result is again a sorted range list, not
    longer than the input, and every key at or after `sk` of every input range is in a result range -/
theorem rangesAfterKey_spec {U : List KeyRange} (hv : ValidRangesP U) {sk : Bytes} (hsk : sk ≠ []) :
    ValidRangesP (rangesAfterKey U sk) ∧ (rangesAfterKey U sk).length ≤ U.length ∧
      ∀ u ∈ U, ∀ k, Bytes.le u.start k = true → InR u.end_ k → Bytes.le sk k = true →
        ∃ u' ∈ rangesAfterKey U sk, Bytes.le u'.start k = true ∧ InR u'.end_ k := by
  unfold rangesAfterKey
  cases hL : U.getLast? with
  | none =>
    simp only
    refine ⟨(by simp [ValidRangesP]), (by simp), ?_⟩
    intro u hu
    have : U = [] := List.getLast?_eq_none_iff.mp hL
    rw [this] at hu; cases hu
  | some L =>
    simp only
    have hlast := validRangesP_last hv hL
    have hLm : L ∈ U := List.mem_of_getLast? hL
    by_cases hfast : (sk.isEmpty || (!L.end_.isEmpty && Bytes.le L.end_ sk)) = true
    · simp only [hfast, if_true]
      refine ⟨(by simp [ValidRangesP]), (by simp), ?_⟩
      intro u hu k hk1 hk2 hk3
      exfalso
      simp only [Bool.or_eq_true, Bool.and_eq_true, Bool.not_eq_eq_eq_not, Bool.not_true] at hfast
      rcases hfast with h | h
      · exact hsk (by simpa using h)
      · have hLne : L.end_ ≠ [] := by intro h0; simp [h0] at h
        have hkL : Bytes.lt k L.end_ = true := by
          rcases hlast u hu with rfl | ⟨hne, hle⟩
          · rcases hk2 with hk2 | hk2
            · exact absurd hk2 hLne
            · exact hk2
          · rcases hk2 with hk2 | hk2
            · exact absurd hk2 hne
            · have hLs := validRangesP_each hv L hLm
              rcases hLs with hLs | hLs
              · exact absurd hLs hLne
              · exact lt_trans (lt_of_lt_of_le hk2 hle) hLs
        have := lt_of_lt_of_le (lt_of_lt_of_le hkL h.2) hk3
        rw [lt_irrefl] at this; cases this
    · simp only [hfast, Bool.false_eq_true, if_false]
      obtain ⟨pre, hdec, hpre, hhead⟩ := dropWhile_decomp (fun r : KeyRange => !(r.end_.isEmpty || Bytes.lt sk r.end_)) U
      cases hD : U.dropWhile (fun r => !(r.end_.isEmpty || Bytes.lt sk r.end_)) with
      | nil =>
        simp only
        refine ⟨(by simp [ValidRangesP]), (by simp), ?_⟩
        intro u hu k hk1 hk2 hk3
        exfalso
        rw [hD, List.append_nil] at hdec
        have := hpre u (by rw [← hdec]; exact hu)
        simp only [Bool.not_eq_eq_eq_not, Bool.not_true, Bool.or_eq_false_iff] at this
        rcases hk2 with hk2 | hk2
        · simp [hk2] at this
        · have h2 := lt_of_le_of_lt hk3 hk2
          rw [this.2] at h2; cases h2
      | cons r0 rest' =>
        simp only
        rw [hD] at hdec
        have hr0 := hhead r0 rest' hD
        simp only [Bool.not_eq_eq_eq_not, Bool.not_false, Bool.or_eq_true] at hr0
        have hr0' : InR r0.end_ sk := by
          rcases hr0 with h | h
          · left; simpa using h
          · right; exact h
        have hvD : ValidRangesP (r0 :: rest') := validRangesP_suffix (by rw [← hdec]; exact hv)
        refine ⟨?_, ?_, ?_⟩
        · -- validity of the list with the head start moved to sk
          by_cases hlt : Bytes.lt r0.start sk = true
          · simp only [hlt, if_true]
            cases rest' with
            | nil => simpa [ValidRangesP] using hr0'
            | cons r1 rest'' =>
              simp only [ValidRangesP] at hvD ⊢
              refine ⟨?_, hvD.2.1, hvD.2.2⟩
              rcases hr0' with h | h
              · rw [h, not_lt_nil] at hvD; cases hvD.1
              · exact h
          · simp only [hlt, Bool.false_eq_true, if_false]; exact hvD
        · have : (r0 :: rest').length ≤ U.length := by rw [hdec]; simp
          simpa using this
        · intro u hu k hk1 hk2 hk3
          have hu' : u ∈ pre ++ r0 :: rest' := by rw [← hdec]; exact hu
          rcases List.mem_append.mp hu' with hup | hus
          · exfalso
            have := hpre u hup
            simp only [Bool.not_eq_eq_eq_not, Bool.not_true, Bool.or_eq_false_iff] at this
            rcases hk2 with hk2 | hk2
            · simp [hk2] at this
            · have h2 := lt_of_le_of_lt hk3 hk2
              rw [this.2] at h2; cases h2
          · rcases List.mem_cons.mp hus with rfl | hur
            · refine ⟨_, List.mem_cons_self .., ?_, ?_⟩
              · split
                · exact hk3
                · exact hk1
              · split <;> exact hk2
            · exact ⟨u, List.mem_cons_of_mem _ hur, hk1, hk2⟩

end CGV.Region

namespace CGV.Region
open CGV

/-! ## step 2: the PD rounds -/

theorem batchLoad_spec {c c1 : Cache} {pd : PD} {r0 : KeyRange} {rest : List KeyRange} {limit : Nat}
    {batch : List Entry} (h : batchLoadRegionsWithKeyRanges c pd (r0 :: rest) limit = (c1, .ok batch)) :
    gapLoop limit (batch.map (·.r)).length (batch.map (·.r)) r0 rest r0.start = false := by
  unfold batchLoadRegionsWithKeyRanges at h
  simp only at h
  split at h
  · cases h
  · rename_i rs hrs
    simp only [Prod.mk.injEq, Except.ok.injEq] at h
    obtain ⟨_, rfl⟩ := h
    unfold batchScanRegions at hrs
    simp only at hrs
    split at hrs
    · cases hrs
    · split at hrs
      · cases hrs
      · rename_i hne hgap
        cases hrs
        simp only [List.map_map, Function.comp_def, toEntry_r] at *
        unfold regionsHaveGapInRanges at hgap
        simp only [Bool.not_eq_true] at hgap
        have hne' : (List.map (fun x => x.r) (pd.batchScanRegions (r0 :: rest) limit)).isEmpty = false := by
          simpa using hne
        simpa [hne'] using hgap

theorem rangesAfterKey_nil_key (U : List KeyRange) : rangesAfterKey U [] = [] := by
  unfold rangesAfterKey
  cases U.getLast? <;> simp

theorem batchStep2_spec {fuel : Nat} {c c' : Cache} {pd : PD} {U : List KeyRange} {m m' : Merger} {C0 : List Region}
    (h : batchStep2 fuel c pd U m = (c', .ok m')) (hinv : MergerInv C0 m) (hv : ValidRangesP U)
    (hlen : U.length ≤ 16 * limitPerBatch) :
    MergerInv C0 m' ∧ (∀ x ∈ m.merged, x ∈ m'.merged) ∧ ∀ u ∈ U, Covers m'.merged u.start u.end_ := by
  induction fuel generalizing c U m with
  | zero =>
    simp only [batchStep2] at h
    split at h
    · rename_i he
      simp only [Prod.mk.injEq, Except.ok.injEq] at h
      rw [← h.2]
      have : U = [] := by simpa using he
      subst this
      exact ⟨hinv, fun x hx => hx, by intro u hu; cases hu⟩
    · simp at h
  | succ n ih =>
    cases U with
    | nil =>
      rw [batchStep2_nil] at h
      simp only [Prod.mk.injEq, Except.ok.injEq] at h
      rw [← h.2]
      exact ⟨hinv, fun x hx => hx, by intro u hu; cases hu⟩
    | cons r0 rest =>
      simp only [batchStep2, List.isEmpty_cons, Bool.false_eq_true, if_false] at h
      have hnl : ¬ ((r0 :: rest).length > 16 * limitPerBatch) := by omega
      simp only [hnl, if_false] at h
      cases hb : batchLoadRegionsWithKeyRanges c pd (r0 :: rest) limitPerBatch with
      | mk c1 res =>
        rw [hb] at h
        cases res with
        | error x => simp at h
        | ok batch =>
          simp only at h
          cases hl : batch.getLast? with
          | none => rw [hl] at h; simp at h
          | some lastR =>
            rw [hl] at h
            simp only at h
            rw [foldl_appendRegion_entries] at h
            obtain ⟨i1, i2, i3⟩ := foldl_appendRegion_inv (batch.map (·.r)) hinv
            have hmem : lastR.r ∈ batch.map (·.r) := List.mem_map.mpr ⟨lastR, getLast?_mem hl, rfl⟩
            have hh := validRanges_head hv
            have hq : ∀ u ∈ r0 :: rest, ∀ k, Bytes.le u.start k = true → InR u.end_ k → PK (batch.map (·.r)) k := by
              intro u hu k hk1 hk2
              apply gapLoop_multi (batchLoad_spec hb) hv (le_refl _) hh.1 u hu k hk1 hk2
              rcases List.mem_cons.mp hu with rfl | hur
              · exact hk1
              · have := hh.2 u hur
                rcases hh.1 with h0 | h0
                · exact absurd h0 this.1
                · exact le_trans (le_of_lt (lt_of_lt_of_le h0 this.2)) hk1
            by_cases hsk : lastR.r.endKey = []
            · rw [hsk, rangesAfterKey_nil_key, batchStep2_nil] at h
              simp only [Prod.mk.injEq, Except.ok.injEq] at h
              rw [← h.2]
              refine ⟨i1, i2, ?_⟩
              intro u hu k hk1 hk2
              rcases hq u hu k hk1 hk2 with ⟨l, hl', hlc⟩ | hall
              · exact ⟨l, i3 l hl', hlc⟩
              · exact absurd hsk (hall _ hmem).1
            · obtain ⟨r1, r2, r3⟩ := rangesAfterKey_spec hv hsk
              have := ih h i1 r1 (Nat.le_trans r2 hlen)
              refine ⟨this.1, fun x hx => this.2.1 x (i2 x hx), ?_⟩
              intro u hu k hk1 hk2
              rcases hq u hu k hk1 hk2 with ⟨l, hl', hlc⟩ | hall
              · exact ⟨l, this.2.1 l (i3 l hl'), hlc⟩
              · obtain ⟨u', hu', hu1, hu2⟩ := r3 u hu k hk1 hk2 (hall _ hmem).2
                exact this.2.2 u' hu' k hu1 hu2

end CGV.Region

namespace CGV.Region
open CGV

/-! ## more request ranges than one PD request takes: needs PD's contract -/

/-- PD's contract for BatchScanRegions as far as it is needed: every returned region starts before the end of one of
    the REQUESTED ranges (PD does not answer with regions lying entirely beyond what it was asked for) -/
def PDWithin (pd : PD) : Prop :=
  ∀ (rs : List KeyRange) (limit : Nat), ValidRangesP rs → ∀ p ∈ pd.batchScanRegions rs limit,
    ∃ r ∈ rs, r.end_ = [] ∨ Bytes.lt p.r.start r.end_ = true

theorem validRangesP_prefix {a b : List KeyRange} (h : ValidRangesP (a ++ b)) : ValidRangesP a := by
  induction a with
  | nil => simp [ValidRangesP]
  | cons x xs ih =>
    cases xs with
    | nil =>
      simp only [ValidRangesP]
      exact (validRanges_head (by simpa using h)).1
    | cons y ys =>
      simp only [List.cons_append, ValidRangesP] at h ⊢
      exact ⟨h.1, h.2.1, ih (by simpa using h.2.2)⟩

theorem validRangesP_append_sep {a b : List KeyRange} (h : ValidRangesP (a ++ b)) :
    ∀ x ∈ a, ∀ y ∈ b, x.end_ ≠ [] ∧ Bytes.le x.end_ y.start = true := by
  induction a with
  | nil => intro x hx; cases hx
  | cons x0 xs ih =>
    intro x hx y hy
    rcases List.mem_cons.mp hx with rfl | hx
    · exact (validRanges_head (by simpa using h)).2 y (List.mem_append_right _ hy)
    · exact ih (validRangesP_tail (by simpa using h)) x hx y hy

theorem batchLoad_from_pd {c c1 : Cache} {pd : PD} {rs : List KeyRange} {limit : Nat} {batch : List Entry}
    (hne : rs ≠ []) (h : batchLoadRegionsWithKeyRanges c pd rs limit = (c1, .ok batch)) :
    batch = (pd.batchScanRegions rs limit).map (·.toEntry) := by
  unfold batchLoadRegionsWithKeyRanges at h
  cases rs with
  | nil => exact absurd rfl hne
  | cons r0 rest =>
    simp only at h
    split at h
    · cases h
    · rename_i xs hxs
      simp only [Prod.mk.injEq, Except.ok.injEq] at h
      obtain ⟨_, rfl⟩ := h
      unfold batchScanRegions at hxs
      simp only at hxs
      split at hxs
      · cases hxs
      · split at hxs
        · cases hxs
        · cases hxs; rfl

theorem batchStep2_spec_pd {fuel : Nat} {c c' : Cache} {pd : PD} (hpd : PDWithin pd) {U : List KeyRange}
    {m m' : Merger} {C0 : List Region}
    (h : batchStep2 fuel c pd U m = (c', .ok m')) (hinv : MergerInv C0 m) (hv : ValidRangesP U) :
    MergerInv C0 m' ∧ (∀ x ∈ m.merged, x ∈ m'.merged) ∧ ∀ u ∈ U, Covers m'.merged u.start u.end_ := by
  induction fuel generalizing c U m with
  | zero =>
    simp only [batchStep2] at h
    split at h
    · rename_i he
      simp only [Prod.mk.injEq, Except.ok.injEq] at h
      rw [← h.2]
      have : U = [] := by simpa using he
      subst this
      exact ⟨hinv, fun x hx => hx, by intro u hu; cases hu⟩
    · simp at h
  | succ n ih =>
    by_cases hlen : U.length ≤ 16 * limitPerBatch
    · exact batchStep2_spec h hinv hv hlen
    · have hgt : U.length > 16 * limitPerBatch := by omega
      have hUne : U ≠ [] := by intro h0; rw [h0] at hgt; simp at hgt
      have hUe : U.isEmpty = false := by cases U <;> simp_all
      simp only [batchStep2, hUe, Bool.false_eq_true, if_false, hgt, if_true] at h
      have hNpos : 0 < 16 * limitPerBatch := by simp [limitPerBatch, Gen.defaultRegionsPerBatch]
      have hdec : U = U.take (16 * limitPerBatch) ++ U.drop (16 * limitPerBatch) := (List.take_append_drop _ _).symm
      cases hts : U.take (16 * limitPerBatch) with
      | nil =>
        exfalso
        have := congrArg List.length hts
        simp only [List.length_take, List.length_nil] at this
        omega
      | cons t0 trest =>
        rw [hts] at h
        cases hb : batchLoadRegionsWithKeyRanges c pd (t0 :: trest) limitPerBatch with
        | mk c1 res =>
          rw [hb] at h
          cases res with
          | error x => simp at h
          | ok batch =>
            simp only at h
            cases hl : batch.getLast? with
            | none => rw [hl] at h; simp at h
            | some lastR =>
              rw [hl] at h
              simp only at h
              rw [foldl_appendRegion_entries] at h
              obtain ⟨i1, i2, i3⟩ := foldl_appendRegion_inv (batch.map (·.r)) hinv
              have hlm : lastR ∈ batch := getLast?_mem hl
              have hmem : lastR.r ∈ batch.map (·.r) := List.mem_map.mpr ⟨lastR, hlm, rfl⟩
              have hvS : ValidRangesP (t0 :: trest) := by
                rw [← hts]; exact validRangesP_prefix (by rw [← hdec]; exact hv)
              have hh := validRanges_head hvS
              -- every key of every uncached range: in a loaded region, or at/after the bounded end of the last one
              have hq : ∀ u ∈ U, ∀ k, Bytes.le u.start k = true → InR u.end_ k →
                  (∃ l ∈ batch.map (·.r), l.contains k = true) ∨
                    (lastR.r.endKey ≠ [] ∧ Bytes.le lastR.r.endKey k = true) := by
                intro u hu k hk1 hk2
                rw [hdec] at hu
                rcases List.mem_append.mp hu with hut | hud
                · rw [hts] at hut
                  have : PK (batch.map (·.r)) k := by
                    apply gapLoop_multi (batchLoad_spec hb) hvS (le_refl _) hh.1 u hut k hk1 hk2
                    rcases List.mem_cons.mp hut with rfl | hur
                    · exact hk1
                    · have := hh.2 u hur
                      rcases hh.1 with h0 | h0
                      · exact absurd h0 this.1
                      · exact le_trans (le_of_lt (lt_of_lt_of_le h0 this.2)) hk1
                  rcases this with hc | hall
                  · exact Or.inl hc
                  · exact Or.inr (hall _ hmem)
                · -- an unsent range: PD's last region starts before the end of a sent range, hence before u
                  have hbp := batchLoad_from_pd (by simp) hb
                  rw [hbp] at hlm
                  obtain ⟨pl, hpl, rfl⟩ := List.mem_map.mp hlm
                  obtain ⟨r, hr, hre⟩ := hpd (t0 :: trest) limitPerBatch hvS pl hpl
                  have hsep := validRangesP_append_sep (by rw [← hdec]; exact hv) r (by rw [hts]; exact hr) u hud
                  have hls : Bytes.le pl.toEntry.r.start k = true := by
                    rcases hre with h0 | h0
                    · exact absurd h0 hsep.1
                    · exact le_trans (le_of_lt (lt_of_lt_of_le h0 hsep.2)) hk1
                  by_cases hunb : pl.toEntry.r.endKey = []
                  · exact Or.inl ⟨_, hmem, contains_of_bounds hls (Or.inl hunb)⟩
                  · rcases le_total pl.toEntry.r.endKey k with hge | hlt
                    · exact Or.inr ⟨hunb, hge⟩
                    · exact Or.inl ⟨_, hmem, contains_of_bounds hls (Or.inr hlt)⟩
              by_cases hsk : lastR.r.endKey = []
              · rw [hsk, rangesAfterKey_nil_key, batchStep2_nil] at h
                simp only [Prod.mk.injEq, Except.ok.injEq] at h
                rw [← h.2]
                refine ⟨i1, i2, ?_⟩
                intro u hu k hk1 hk2
                rcases hq u hu k hk1 hk2 with ⟨l, hl', hlc⟩ | hall
                · exact ⟨l, i3 l hl', hlc⟩
                · exact absurd hsk hall.1
              · obtain ⟨r1, _, r3⟩ := rangesAfterKey_spec hv hsk
                have := ih h i1 r1
                refine ⟨this.1, fun x hx => this.2.1 x (i2 x hx), ?_⟩
                intro u hu k hk1 hk2
                rcases hq u hu k hk1 hk2 with ⟨l, hl', hlc⟩ | hall
                · exact ⟨l, this.2.1 l (i3 l hl'), hlc⟩
                · obtain ⟨u', hu', hu1, hu2⟩ := r3 u hu k hk1 hk2 hall.2
                  exact this.2.2 u' hu' k hu1 hu2

end CGV.Region

namespace CGV.Region
open CGV

theorem scanRegions_sub (pd : PD) (s e : Bytes) (limit : Nat) : ∀ p ∈ pd.scanRegions s e limit, p ∈ pd := by
  have hsub : (pd.scanRegions s e limit).Sublist pd := by
    unfold PD.scanRegions
    simp only
    repeat' split
    all_goals first
      | exact List.dropWhile_sublist _
      | exact (List.takeWhile_sublist _).trans (List.dropWhile_sublist _)
      | exact (List.take_sublist _ _).trans (List.dropWhile_sublist _)
      | exact (List.take_sublist _ _).trans ((List.takeWhile_sublist _).trans (List.dropWhile_sublist _))
  exact fun p hp => hsub.subset hp

theorem batchScanAux_sub (pd : PD) (limit : Nat) (rs : List KeyRange) (acc : List PdRegion) :
    ∀ p ∈ pd.batchScanAux limit rs acc, p ∈ acc ∨ p ∈ pd := by
  induction rs generalizing acc with
  | nil => intro p hp; exact Or.inl hp
  | cons kr rest ih =>
    intro p hp
    simp only [PD.batchScanAux] at hp
    have hf : ∀ (xs : List PdRegion) (a : List PdRegion), (∀ x ∈ xs, x ∈ pd) →
        ∀ q ∈ xs.foldl (fun a r =>
          if limit > 0 && a.length ≥ limit then a
          else match a.getLast? with
            | some l => if l.r.id == r.r.id then a else a ++ [r]
            | none => a ++ [r]) a, q ∈ a ∨ q ∈ pd := by
      intro xs
      induction xs with
      | nil => intro a _ q hq; exact Or.inl hq
      | cons x xs ihx =>
        intro a hxs q hq
        simp only [List.foldl_cons] at hq
        have := ihx _ (fun y hy => hxs y (List.mem_cons_of_mem _ hy)) q hq
        rcases this with h | h
        · split at h
          · exact Or.inl h
          · split at h
            · split at h
              · exact Or.inl h
              · rcases List.mem_append.mp h with h | h
                · exact Or.inl h
                · simp only [List.mem_singleton] at h
                  subst h; exact Or.inr (hxs _ (List.mem_cons_self ..))
            · rcases List.mem_append.mp h with h | h
              · exact Or.inl h
              · simp only [List.mem_singleton] at h
                subst h; exact Or.inr (hxs _ (List.mem_cons_self ..))
        · exact Or.inr h
    rcases ih _ p hp with h | h
    · exact hf _ acc (scanRegions_sub pd _ _ 0) p h
    · exact Or.inr h

/-- the contract holds for a PD whose regions all start at -∞ (in particular the one-region layout) -/
theorem pdWithin_of_starts_nil {pd : PD} (h : ∀ p ∈ pd, p.r.start = []) : PDWithin pd := by
  intro rs limit _ p hp
  unfold PD.batchScanRegions at hp
  cases rs with
  | nil => simp [PD.batchScanAux] at hp
  | cons r rest =>
    refine ⟨r, List.mem_cons_self .., ?_⟩
    rcases batchScanAux_sub pd limit (r :: rest) [] p hp with h0 | h0
    · cases h0
    · rw [h p h0]
      cases he : r.end_ with
      | nil => left; rfl
      | cons a as => right; simp [Bytes.lt, Bytes.cmp]

end CGV.Region
